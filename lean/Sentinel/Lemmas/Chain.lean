import Mathlib.Tactic
import Sentinel.Model.ChainSpec
/-! Helper lemmas for C16 (slot ordering, chain traversal, heap invariants). -/
namespace Sentinel.Chain

/-! ## `insertSlot` keeps the list sorted and stable -/

theorem mem_insertSlot {α : Type} (ord : α → Nat) (x z : α) (l : List α) :
    z ∈ insertSlot ord x l ↔ z = x ∨ z ∈ l := by
  induction l with
  | nil => simp [insertSlot]
  | cons y ys ih =>
    unfold insertSlot
    split_ifs
    · simp only [List.mem_cons, ih]; tauto
    · simp only [List.mem_cons]

theorem insert_sorted {α : Type} (ord : α → Nat) (x : α) (l : List α) (h : l.Pairwise (fun a b => ord a ≤ ord b)) :
    (insertSlot ord x l).Pairwise (fun a b => ord a ≤ ord b) := by
  induction l with
  | nil => simp [insertSlot]
  | cons y ys ih =>
    unfold insertSlot
    rw [List.pairwise_cons] at h
    split_ifs with hc
    · rw [List.pairwise_cons]
      refine ⟨?_, ih h.2⟩
      intro z hz
      rcases (mem_insertSlot ord x z ys).mp hz with rfl | hz
      · exact hc
      · exact h.1 z hz
    · rw [List.pairwise_cons]
      refine ⟨?_, List.pairwise_cons.mpr h⟩
      intro z hz
      rcases List.mem_cons.mp hz with rfl | hz
      · omega
      · have := h.1 z hz; omega

/-- stability: slots with the same order value keep their insertion order -/
theorem insert_filter {α : Type} (ord : α → Nat) (x : α) (l : List α) (k : Nat)
    (h : l.Pairwise (fun a b => ord a ≤ ord b)) :
    (insertSlot ord x l).filter (fun a => ord a = k) = l.filter (fun a => ord a = k) ++ (if ord x = k then [x] else []) := by
  induction l with
  | nil => by_cases hx : ord x = k <;> simp [insertSlot, hx]
  | cons y ys ih =>
    rw [List.pairwise_cons] at h
    unfold insertSlot
    by_cases hc : ord y ≤ ord x
    · simp only [hc, if_true, List.filter_cons, ih h.2]
      by_cases hy : ord y = k <;> simp [hy]
    · simp only [hc, if_false]
      by_cases hx : ord x = k
      · have hnone : (y :: ys).filter (fun a => ord a = k) = [] := by
          rw [List.filter_eq_nil_iff]
          intro z hz
          rcases List.mem_cons.mp hz with rfl | hz
          · simp; omega
          · have := h.1 z hz; simp; omega
        rw [List.filter_cons, hnone]
        simp [hx]
      · rw [List.filter_cons]
        simp [hx]

theorem addAll_append {α : Type} (ord : α → Nat) (xs : List α) (x : α) :
    addAll ord (xs ++ [x]) = insertSlot ord x (addAll ord xs) := by
  simp [addAll, List.foldl_append]

theorem addAll_sorted_stable {α : Type} (ord : α → Nat) (xs : List α) :
    (addAll ord xs).Pairwise (fun a b => ord a ≤ ord b) ∧
    ∀ k, (addAll ord xs).filter (fun a => ord a = k) = xs.filter (fun a => ord a = k) := by
  unfold addAll
  have : ∀ (acc : List α), acc.Pairwise (fun a b => ord a ≤ ord b) →
      (xs.foldl (fun acc x => insertSlot ord x acc) acc).Pairwise (fun a b => ord a ≤ ord b) ∧
      ∀ k, (xs.foldl (fun acc x => insertSlot ord x acc) acc).filter (fun a => ord a = k)
            = acc.filter (fun a => ord a = k) ++ xs.filter (fun a => ord a = k) := by
    induction xs with
    | nil => intro acc h; exact ⟨h, by simp⟩
    | cons x r ih =>
      intro acc h
      obtain ⟨h1, h2⟩ := ih (insertSlot ord x acc) (insert_sorted ord x acc h)
      refine ⟨h1, ?_⟩
      intro k
      rw [List.foldl_cons, h2 k, insert_filter ord x acc k h, List.filter_cons]
      by_cases hx : ord x = k <;> simp [hx]
  simpa using this [] List.Pairwise.nil

/-! ## the insertion result is *the* stable sort -/

theorem stable_unique {α : Type} (ord : α → Nat) : ∀ (l1 l2 : List α),
    l1.Pairwise (fun a b => ord a ≤ ord b) → l2.Pairwise (fun a b => ord a ≤ ord b) →
    (∀ k, l1.filter (fun a => ord a = k) = l2.filter (fun a => ord a = k)) → l1 = l2 := by
  intro l1
  induction l1 with
  | nil =>
    intro l2 _ _ hf
    cases l2 with
    | nil => rfl
    | cons b r2 => have := hf (ord b); simp at this
  | cons a r1 ih =>
    intro l2 h1 h2 hf
    cases l2 with
    | nil => have := hf (ord a); simp at this
    | cons b r2 =>
      rw [List.pairwise_cons] at h1 h2
      have hab : ord a ≤ ord b := by
        have hb : b ∈ (a :: r1).filter (fun x => ord x = ord b) := by rw [hf (ord b)]; simp
        have hb' := (List.mem_filter.mp hb).1
        rcases List.mem_cons.mp hb' with rfl | hb'
        · exact le_refl _
        · exact h1.1 b hb'
      have hba : ord b ≤ ord a := by
        have ha : a ∈ (b :: r2).filter (fun x => ord x = ord a) := by rw [← hf (ord a)]; simp
        have ha' := (List.mem_filter.mp ha).1
        rcases List.mem_cons.mp ha' with rfl | ha'
        · exact le_refl _
        · exact h2.1 a ha'
      have heq : ord a = ord b := le_antisymm hab hba
      have h0 := hf (ord a)
      simp only [List.filter_cons, heq, decide_true, if_true] at h0
      simp only [← heq] at h0
      have h0' := h0
      simp only [heq] at h0'
      obtain ⟨rfl, htl⟩ := List.cons.inj h0'
      congr 1
      apply ih r2 h1.2 h2.2
      intro k
      by_cases hk : ord a = k
      · subst hk; exact htl
      · have := hf k
        simpa [List.filter_cons, hk] using this

theorem stableSort_spec {α : Type} (ord : α → Nat) (xs : List α) :
    (stableSort ord xs).Pairwise (fun a b => ord a ≤ ord b) ∧
    ∀ k, (stableSort ord xs).filter (fun a => ord a = k) = xs.filter (fun a => ord a = k) := by
  have htr : ∀ (a b c : α), decide (ord a ≤ ord b) = true → decide (ord b ≤ ord c) = true → decide (ord a ≤ ord c) = true := by
    intro a b c h1 h2; simp at *; omega
  have htot : ∀ (a b : α), (decide (ord a ≤ ord b) || decide (ord b ≤ ord a)) = true := by
    intro a b; simp; omega
  constructor
  · have := List.pairwise_mergeSort htr htot xs
    simpa [stableSort] using this
  · intro k
    have hsub : List.Sublist (xs.filter (fun a => ord a = k)) (stableSort ord xs) := by
      apply List.sublist_mergeSort htr htot _ List.filter_sublist
      rw [List.pairwise_iff_forall_sublist]
      intro a b hab
      have ha : a ∈ xs.filter (fun a => ord a = k) := hab.subset (by simp)
      have hb : b ∈ xs.filter (fun a => ord a = k) := hab.subset (by simp)
      simp at ha hb
      simp; omega
    have h2 := hsub.filter (fun a => decide (ord a = k))
    rw [List.filter_filter] at h2
    simp only [Bool.and_self] at h2
    have hperm : ((stableSort ord xs).filter (fun a => ord a = k)).length = (xs.filter (fun a => ord a = k)).length :=
      ((List.mergeSort_perm xs _).filter _).length_eq
    exact (h2.eq_of_length hperm.symm).symm

theorem addAll_eq_stableSort {α : Type} (ord : α → Nat) (xs : List α) : addAll ord xs = stableSort ord xs := by
  obtain ⟨h1, h2⟩ := addAll_sorted_stable ord xs
  obtain ⟨h3, h4⟩ := stableSort_spec ord xs
  exact stable_unique ord _ _ h1 h3 (fun k => (h2 k).trans (h4 k).symm)


/-! ## traversal of the three slot lists -/

theorem runPrep_noPanic (ps : List PSlot) (h : prepPanics ps = false) :
    runPrep ps = (ps.map (fun s => Call.prep s.id), hooksOfP ps, false) := by
  induction ps with
  | nil => rfl
  | cons s r ih =>
    simp only [prepPanics, List.any_cons, Bool.or_eq_false_iff, decide_eq_false_iff_not] at h
    have ih' := ih (by simpa [prepPanics] using h.2)
    cases hb : s.beh with
    | panic => exact absurd hb h.1
    | ok => simp [runPrep, hb, ih', hooksOfP]

theorem runPrep_panic (ps : List PSlot) (h : prepPanics ps = true) : (runPrep ps).2.2 = true := by
  induction ps with
  | nil => simp [prepPanics] at h
  | cons s r ih =>
    cases hb : s.beh with
    | panic => simp [runPrep, hb]
    | ok =>
      have : prepPanics r = true := by simpa [prepPanics, hb] using h
      simp [runPrep, hb, ih this]

theorem runPrep_prefix (ps : List PSlot) : (runPrep ps).1 <+: ps.map (fun s => Call.prep s.id) := by
  induction ps with
  | nil => simp [runPrep]
  | cons s r ih =>
    cases hb : s.beh with
    | panic => simp [runPrep, hb, List.prefix_cons_iff]
    | ok => simpa [runPrep, hb, List.prefix_cons_iff] using ih

theorem stopper_cons (s : RSlot) (r : List RSlot) :
    stopper (s :: r) = if s.beh.passes then stopper r else some s := by
  unfold stopper
  rw [List.find?_cons]
  cases s.beh.passes <;> simp

theorem ranRules_cons (s : RSlot) (r : List RSlot) :
    ranRules (s :: r) = if s.beh.passes then s :: ranRules r else [s] := by
  unfold ranRules
  rw [stopper_cons, List.takeWhile_cons]
  cases s.beh.passes <;> simp

theorem stopOf_cons (s : RSlot) (r : List RSlot) :
    stopOf (s :: r) = if s.beh.passes then stopOf r else stopOfSlot s := by
  unfold stopOf
  rw [stopper_cons]
  cases s.beh.passes <;> simp

theorem runRules_calls (c : Nat) (rs : List RSlot) (h : Heap) :
    (runRules c rs h).2.1 = (ranRules rs).map (fun s => Call.check s.id) ∧
    (runRules c rs h).2.2.1 = hooksOfR (ranRules rs) := by
  induction rs generalizing h with
  | nil => simp [runRules, ranRules, stopper, hooksOfR]
  | cons s r ih =>
    rw [ranRules_cons]
    cases hb : s.beh with
    | panic => simp [runRules, hb, RB.passes, hooksOfR]
    | block st typ => simp [runRules, hb, RB.passes, hooksOfR]
    | wait =>
      have := ih (newTokenResult h 2 {}).1
      simp [runRules, hb, RB.passes, hooksOfR, this.1, this.2] 
    | pass =>
      have := ih (newTokenResult h 0 {}).1
      simp [runRules, hb, RB.passes, hooksOfR, this.1, this.2]
    | nil =>
      have := ih h
      simp [runRules, hb, RB.passes, hooksOfR, this.1, this.2]


theorem resetToBlockedWith_read (h : Heap) (t : Nat) (b : BErr) :
    ((resetToBlockedWith h t b).trs t).status = 1 ∧ getBE (resetToBlockedWith h t b) t = some b := by
  unfold resetToBlockedWith
  cases hbe : (h.trs t).be with
  | none => simp [allocBE, upd, getBE]
  | some a => simp [upd, getBE]

theorem newTokenResult_read (h : Heap) (st : Nat) (b : BErr) :
    ((newTokenResult h st b).1.trs (newTokenResult h st b).2).status = st ∧
    getBE (newTokenResult h st b).1 (newTokenResult h st b).2 = some b := by
  simp [newTokenResult, allocBE, allocTR, upd, getBE]

theorem doBlock_read (c : Nat) (s : RSlot) (st : Style) (typ : Nat) (h : Heap) :
    ((doBlock c s st typ h).1.trs (doBlock c s st typ h).2).status = 1 ∧
    getBE (doBlock c s st typ h).1 (doBlock c s st typ h).2 = some (blockVal s typ) := by
  cases st with
  | fresh => exact newTokenResult_read h 1 _
  | ctx => exact resetToBlockedWith_read h _ _
  | own => exact resetToBlockedWith_read h _ _

theorem runRules_allPass (c : Nat) (rs : List RSlot) (h : Heap) (hs : stopOf rs = .allPass) :
    (runRules c rs h).2.2.2 = .allPass := by
  induction rs generalizing h with
  | nil => rfl
  | cons s r ih =>
    rw [stopOf_cons] at hs
    cases hb : s.beh with
    | panic => simp [hb, RB.passes, stopOfSlot] at hs
    | block st typ => simp [hb, RB.passes, stopOfSlot] at hs
    | wait => simp only [hb, RB.passes, if_true] at hs; simp [runRules, hb, ih _ hs]
    | pass => simp only [hb, RB.passes, if_true] at hs; simp [runRules, hb, ih _ hs]
    | nil => simp only [hb, RB.passes, if_true] at hs; simp [runRules, hb, ih _ hs]

theorem runRules_panic (c : Nat) (rs : List RSlot) (h : Heap) (hs : stopOf rs = .panic) :
    (runRules c rs h).2.2.2 = .panic := by
  induction rs generalizing h with
  | nil => simp [stopOf, stopper] at hs
  | cons s r ih =>
    rw [stopOf_cons] at hs
    cases hb : s.beh with
    | panic => simp [runRules, hb]
    | block st typ => simp [hb, RB.passes, stopOfSlot] at hs
    | wait => simp only [hb, RB.passes, if_true] at hs; simp [runRules, hb, ih _ hs]
    | pass => simp only [hb, RB.passes, if_true] at hs; simp [runRules, hb, ih _ hs]
    | nil => simp only [hb, RB.passes, if_true] at hs; simp [runRules, hb, ih _ hs]

theorem runRules_block (c : Nat) (rs : List RSlot) (h : Heap) (s0 : RSlot) (typ0 : Nat)
    (hs : stopOf rs = .block s0 typ0) :
    ∃ t, (runRules c rs h).2.2.2 = .blocked t ∧ ((runRules c rs h).1.trs t).status = 1 ∧
      getBE (runRules c rs h).1 t = some (blockVal s0 typ0) := by
  induction rs generalizing h with
  | nil => simp [stopOf, stopper] at hs
  | cons s r ih =>
    rw [stopOf_cons] at hs
    cases hb : s.beh with
    | panic => simp [hb, RB.passes, stopOfSlot] at hs
    | block st typ =>
      simp only [hb, RB.passes, stopOfSlot] at hs
      simp only [Bool.false_eq_true, if_false, Stop.block.injEq] at hs
      obtain ⟨rfl, rfl⟩ := hs
      refine ⟨(doBlock c s st typ h).2, ?_, ?_, ?_⟩
      · simp [runRules, hb]
      · simpa [runRules, hb] using (doBlock_read c s st typ h).1
      · simpa [runRules, hb] using (doBlock_read c s st typ h).2
    | wait =>
      simp only [hb, RB.passes, if_true] at hs
      obtain ⟨t, h1, h2, h3⟩ := ih (newTokenResult h 2 {}).1 hs
      exact ⟨t, by simp [runRules, hb, h1], by simpa [runRules, hb] using h2, by simpa [runRules, hb] using h3⟩
    | pass =>
      simp only [hb, RB.passes, if_true] at hs
      obtain ⟨t, h1, h2, h3⟩ := ih (newTokenResult h 0 {}).1 hs
      exact ⟨t, by simp [runRules, hb, h1], by simpa [runRules, hb] using h2, by simpa [runRules, hb] using h3⟩
    | nil =>
      simp only [hb, RB.passes, if_true] at hs
      obtain ⟨t, h1, h2, h3⟩ := ih h hs
      exact ⟨t, by simp [runRules, hb, h1], by simpa [runRules, hb] using h2, by simpa [runRules, hb] using h3⟩

theorem runStats_noPanic (blk : Option (Option BErr)) (ss : List SSlot) (h : statPanics blk ss = false) :
    runStats blk ss = (ss.map (statCall blk), false) := by
  induction ss with
  | nil => rfl
  | cons s r ih =>
    cases blk with
    | none =>
      simp only [statPanics, List.any_cons, Bool.or_eq_false_iff, decide_eq_false_iff_not] at h
      have := ih (by simpa [statPanics] using h.2)
      simp [runStats, h.1, this, statCall]
    | some b =>
      simp only [statPanics, List.any_cons, Bool.or_eq_false_iff, decide_eq_false_iff_not] at h
      have := ih (by simpa [statPanics] using h.2)
      simp [runStats, h.1, this, statCall]

theorem runStats_panic (blk : Option (Option BErr)) (ss : List SSlot) (h : statPanics blk ss = true) :
    (runStats blk ss).2 = true := by
  induction ss with
  | nil => cases blk <;> simp [statPanics] at h
  | cons s r ih =>
    cases blk with
    | none =>
      by_cases hb : s.beh = .pPassed
      · simp [runStats, hb]
      · have : statPanics none r = true := by simpa [statPanics, hb] using h
        simp [runStats, hb, ih this]
    | some b =>
      by_cases hb : s.beh = .pBlocked
      · simp [runStats, hb]
      · have : statPanics (some b) r = true := by simpa [statPanics, hb] using h
        simp [runStats, hb, ih this]

theorem runStats_prefix (blk : Option (Option BErr)) (ss : List SSlot) :
    (runStats blk ss).1 <+: ss.map (statCall blk) := by
  induction ss with
  | nil => simp [runStats]
  | cons s r ih =>
    cases blk with
    | none =>
      by_cases hb : s.beh = .pPassed
      · simp [runStats, hb, statCall, List.prefix_cons_iff]
      · simpa [runStats, hb, statCall, List.prefix_cons_iff] using ih
    | some b =>
      by_cases hb : s.beh = .pBlocked
      · simp [runStats, hb, statCall, List.prefix_cons_iff]
      · simpa [runStats, hb, statCall, List.prefix_cons_iff] using ih

theorem runHandlers_noPanic (k : Hooks) (h : hooksPanic k = false) :
    runHandlers k = (k.map (fun x => Call.handler x.1), false) := by
  induction k with
  | nil => rfl
  | cons x r ih =>
    obtain ⟨id, b⟩ := x
    simp only [hooksPanic, List.any_cons, Bool.or_eq_false_iff, decide_eq_false_iff_not] at h
    have := ih (by simpa [hooksPanic] using h.2)
    simp [runHandlers, h.1, this]

theorem runCompleted_noPanic (ss : List SSlot) (h : ss.any (fun s => s.beh = .pCompleted) = false) :
    runCompleted ss = (ss.map (fun s => Call.completed s.id), false) := by
  induction ss with
  | nil => rfl
  | cons s r ih =>
    simp only [List.any_cons, Bool.or_eq_false_iff, decide_eq_false_iff_not] at h
    have := ih h.2
    simp [runCompleted, h.1, this]


/-! ## `SlotChain.Entry` against the reference -/

theorem chainEntry_pass (ch : ChainDef) (c : Nat) (h : Heap) (hp : prepPanics ch.ps = false)
    (hs : stopOf ch.rs = .allPass) (hst : statPanics none ch.ss = false) :
    (chainEntry ch c h).2.1 = specEntryCalls ch ∧ (chainEntry ch c h).2.2.1 = specHooks ch ∧
    (chainEntry ch c h).2.2.2 = some ((chainEntry ch c h).1.ctxs c) ∧
    ((chainEntry ch c h).1.trs ((chainEntry ch c h).1.ctxs c)).status = 0 := by
  have hc := runRules_calls c ch.rs h
  have ho := runRules_allPass c ch.rs h hs
  unfold chainEntry
  simp only [runPrep_noPanic _ hp]
  rcases hrr : runRules c ch.rs h with ⟨h2, l2, k2, ro⟩
  rw [hrr] at hc ho
  simp only at hc ho
  subst ho
  simp only [runStats_noPanic _ _ hst, Bool.false_eq_true, if_false]
  refine ⟨?_, ?_, ?_, ?_⟩
  · simp [specEntryCalls, hc.1, hs, Stop.blk]
  · simp [specHooks, hc.2]
  · simp
  · simp [resetToPass, upd]

theorem chainEntry_block (ch : ChainDef) (c : Nat) (h : Heap) (s : RSlot) (typ : Nat) (hp : prepPanics ch.ps = false)
    (hs : stopOf ch.rs = .block s typ) (hst : statPanics (some (some (blockVal s typ))) ch.ss = false) :
    (chainEntry ch c h).2.1 = specEntryCalls ch ∧ (chainEntry ch c h).2.2.1 = specHooks ch ∧
    (chainEntry ch c h).2.2.2 = some ((chainEntry ch c h).1.ctxs c) ∧
    ((chainEntry ch c h).1.trs ((chainEntry ch c h).1.ctxs c)).status = 1 ∧
    getBE (chainEntry ch c h).1 ((chainEntry ch c h).1.ctxs c) = some (blockVal s typ) := by
  have hc := runRules_calls c ch.rs h
  obtain ⟨t, ho, hst1, hbe⟩ := runRules_block c ch.rs h s typ hs
  unfold chainEntry
  simp only [runPrep_noPanic _ hp]
  rcases hrr : runRules c ch.rs h with ⟨h2, l2, k2, ro⟩
  rw [hrr] at hc ho hst1 hbe
  simp only at hc ho hst1 hbe
  subst ho
  have hblk : isBlockedTR { h2 with ctxs := upd h2.ctxs c t } t = true := by simp [isBlockedTR, hst1]
  have hbe' : getBE { h2 with ctxs := upd h2.ctxs c t } t = some (blockVal s typ) := by simpa [getBE] using hbe
  simp only [hblk, if_true, hbe', runStats_noPanic _ _ hst, Bool.false_eq_true, if_false]
  refine ⟨?_, ?_, ?_, ?_, ?_⟩
  · simp [specEntryCalls, hc.1, hs, Stop.blk]
  · simp [specHooks, hc.2]
  · simp [upd]
  · simpa [upd] using hst1
  · simpa [upd, getBE] using hbe

theorem chainEntry_panics (ch : ChainDef) (c : Nat) (h : Heap) (hp : entryPanics ch = true) :
    (chainEntry ch c h).2.2.2 = none := by
  unfold chainEntry
  by_cases h1 : prepPanics ch.ps = true
  · have := runPrep_panic _ h1
    rcases hrp : runPrep ch.ps with ⟨l1, k1, p1⟩
    rw [hrp] at this
    simp only at this
    subst this
    simp
  · simp only [Bool.not_eq_true] at h1
    simp only [runPrep_noPanic _ h1, Bool.false_eq_true, if_false]
    simp only [entryPanics, h1, Bool.false_or, Bool.or_eq_true] at hp
    rcases hrr : runRules c ch.rs h with ⟨h2, l2, k2, ro⟩
    cases hs : stopOf ch.rs with
    | panic =>
      have := runRules_panic c ch.rs h hs
      rw [hrr] at this
      simp only at this
      subst this
      simp
    | allPass =>
      have := runRules_allPass c ch.rs h hs
      rw [hrr] at this
      simp only at this
      subst this
      simp only [hs, Stop.isPanic, Bool.false_eq_true, false_or, Stop.blk] at hp
      simp [runStats_panic _ _ hp]
    | block s typ =>
      obtain ⟨t, ho, hst1, hbe⟩ := runRules_block c ch.rs h s typ hs
      rw [hrr] at ho hst1 hbe
      simp only at ho hst1 hbe
      subst ho
      simp only [hs, Stop.isPanic, Bool.false_eq_true, false_or, Stop.blk] at hp
      have hblk : isBlockedTR { h2 with ctxs := upd h2.ctxs c t } t = true := by simp [isBlockedTR, hst1]
      have hbe' : getBE { h2 with ctxs := upd h2.ctxs c t } t = some (blockVal s typ) := by simpa [getBE] using hbe
      simp [hblk, hbe', runStats_panic _ _ hp]


theorem chainEntry_prefix (ch : ChainDef) (c : Nat) (h : Heap) :
    (chainEntry ch c h).2.1 <+: specEntryCalls ch := by
  unfold chainEntry specEntryCalls
  by_cases h1 : prepPanics ch.ps = true
  · have hp := runPrep_panic _ h1
    have hpre := runPrep_prefix ch.ps
    rcases hrp : runPrep ch.ps with ⟨l1, k1, p1⟩
    rw [hrp] at hp hpre
    simp only at hp hpre
    subst hp
    simp only [if_true]
    rw [List.append_assoc]
    exact hpre.trans (List.prefix_append _ _)
  · simp only [Bool.not_eq_true] at h1
    simp only [runPrep_noPanic _ h1, Bool.false_eq_true, if_false]
    have hc := runRules_calls c ch.rs h
    rcases hrr : runRules c ch.rs h with ⟨h2, l2, k2, ro⟩
    rw [hrr] at hc
    simp only at hc
    cases hs : stopOf ch.rs with
    | panic =>
      have := runRules_panic c ch.rs h hs
      rw [hrr] at this
      simp only at this
      subst this
      simp only [hc.1]
      exact List.prefix_append _ _
    | allPass =>
      have := runRules_allPass c ch.rs h hs
      rw [hrr] at this
      simp only at this
      subst this
      simp only [hc.1, Stop.blk]
      exact (List.prefix_append_right_inj _).mpr (runStats_prefix none ch.ss)
    | block s typ =>
      obtain ⟨t, ho, hst1, hbe⟩ := runRules_block c ch.rs h s typ hs
      rw [hrr] at ho hst1 hbe
      simp only at ho hst1 hbe
      subst ho
      have hblk : isBlockedTR { h2 with ctxs := upd h2.ctxs c t } t = true := by simp [isBlockedTR, hst1]
      have hbe' : getBE { h2 with ctxs := upd h2.ctxs c t } t = some (blockVal s typ) := by simpa [getBE] using hbe
      simp only [hblk, if_true, hbe', hc.1, Stop.blk]
      exact (List.prefix_append_right_inj _).mpr (runStats_prefix _ ch.ss)

/-! ## `api.entry` against the reference -/

/-- the verdict the caller sees -/
def EntryRes.verdict : EntryRes → Option BErr
  | .blocked _ _ b => some b
  | _ => none

theorem apiEntry_panics (ch : ChainDef) (h : Heap) (hp : entryPanics ch = true) :
    ∃ c ks, (apiEntry ch h).2.2 = .passed c ks := by
  unfold apiEntry
  rcases hpg : poolGet h with ⟨h1, c⟩
  dsimp only
  have := chainEntry_panics ch c h1 hp
  rcases hce : chainEntry ch c h1 with ⟨h2, l, ks, r⟩
  rw [hce] at this
  simp only at this
  subst this
  exact ⟨c, ks, rfl⟩

theorem entryPanics_false (ch : ChainDef) (hp : entryPanics ch = false) :
    prepPanics ch.ps = false ∧ (stopOf ch.rs).isPanic = false ∧ statPanics (stopOf ch.rs).blk ch.ss = false := by
  simpa [entryPanics, Bool.or_eq_false_iff, and_assoc] using hp

theorem apiEntry_pass (ch : ChainDef) (h : Heap) (hp : entryPanics ch = false) (hs : stopOf ch.rs = .allPass) :
    (apiEntry ch h).2.1 = specEntryCalls ch ∧
    (apiEntry ch h).2.2 = .passed (poolGet h).2 (specHooks ch) ∧
    ((apiEntry ch h).1.trs ((apiEntry ch h).1.ctxs (poolGet h).2)).status = 0 := by
  obtain ⟨h1, _, h3⟩ := entryPanics_false ch hp
  rw [hs] at h3
  unfold apiEntry
  rcases hpg : poolGet h with ⟨hh, c⟩
  dsimp only
  obtain ⟨e1, e2, e3, e4⟩ := chainEntry_pass ch c hh h1 hs h3
  rcases hce : chainEntry ch c hh with ⟨h2, l, ks, r⟩
  rw [hce] at e1 e2 e3 e4
  simp only at e1 e2 e3 e4
  subst e1 e2 e3
  have : isBlockedTR h2 (h2.ctxs c) = false := by simp [isBlockedTR, e4]
  simp [this, e4]

theorem apiEntry_block (ch : ChainDef) (h : Heap) (s : RSlot) (typ : Nat) (hp : entryPanics ch = false)
    (hs : stopOf ch.rs = .block s typ) :
    (apiEntry ch h).2.1 = specEntryCalls ch ++ (runHandlers (specHooks ch)).1 ∧
    ∃ a, (apiEntry ch h).2.2 = .blocked (poolGet h).2 a (blockVal s typ) ∧ (apiEntry ch h).1.bes a = blockVal s typ ∧
      a ∈ (apiEntry ch h).1.held := by
  obtain ⟨h1, _, h3⟩ := entryPanics_false ch hp
  rw [hs] at h3
  unfold apiEntry
  rcases hpg : poolGet h with ⟨hh, c⟩
  dsimp only
  obtain ⟨e1, e2, e3, e4, e5⟩ := chainEntry_block ch c hh s typ h1 hs h3
  rcases hce : chainEntry ch c hh with ⟨h2, l, ks, r⟩
  rw [hce] at e1 e2 e3 e4 e5
  simp only at e1 e2 e3 e4 e5
  subst e1 e2 e3
  have : isBlockedTR h2 (h2.ctxs c) = true := by simp [isBlockedTR, e4]
  simp only [this, if_true, e5]
  refine ⟨by simp [exitBody, allocBE, isBlockedTR, e4], h2.nbe, by simp [allocBE], ?_, ?_⟩
  · simp [exitBody, allocBE, refurbish, poolPut, resetToPass]
    cases h2.priv <;> simp [upd]
  · simp [exitBody, allocBE, refurbish, poolPut, resetToPass]
    cases h2.priv <;> simp


theorem apiEntry_no_escape (ch : ChainDef) (h : Heap) : (apiEntry ch h).2.2 ≠ .escaped := by
  cases hp : entryPanics ch with
  | true => obtain ⟨c, ks, e⟩ := apiEntry_panics ch h hp; rw [e]; simp
  | false =>
    cases hs : stopOf ch.rs with
    | allPass => rw [(apiEntry_pass ch h hp hs).2.1]; simp
    | block s typ => obtain ⟨_, a, e, _⟩ := apiEntry_block ch h s typ hp hs; rw [e]; simp
    | panic => have := (entryPanics_false ch hp).2.1; simp [hs, Stop.isPanic] at this

/-! ## exit -/

theorem exitBody_log (ss : List SSlot) (hooks : Hooks) (c : Nat) (h : Heap) (hb : isBlockedTR h (h.ctxs c) = false)
    (l : List Call) (hl : specExitLog ss hooks = some l) : (exitBody ss hooks c h).2 = l := by
  unfold specExitLog at hl
  split_ifs at hl with hc
  simp only [Bool.or_eq_true, not_or, Bool.not_eq_true] at hc
  simp only [Option.some.injEq] at hl
  subst hl
  simp [exitBody, runHandlers_noPanic _ hc.1, runCompleted_noPanic _ hc.2, hb]

theorem exitBody_blocked (ss : List SSlot) (hooks : Hooks) (c : Nat) (h : Heap) (hb : isBlockedTR h (h.ctxs c) = true) :
    (exitBody ss hooks c h).2 = (runHandlers hooks).1 := by
  simp [exitBody, hb]

/-! ## heap invariant: what callers hold is never referenced by a pooled `TokenResult` -/

structure Heap.Inv (h : Heap) : Prop where
  held_lt : ∀ a ∈ h.held, a < h.nbe
  be_lt : ∀ t a, (h.trs t).be = some a → a < h.nbe
  be_nh : ∀ t a, (h.trs t).be = some a → a ∉ h.held

/-- `h'` comes after `h`: the invariant is kept and every block error handed to a caller so far is still held and unchanged -/
def Heap.Ext (h h' : Heap) : Prop :=
  h.Inv → h'.Inv ∧ ∀ a ∈ h.held, a ∈ h'.held ∧ h'.bes a = h.bes a

theorem Heap.Ext.refl (h : Heap) : h.Ext h := fun hi => ⟨hi, fun _ ha => ⟨ha, rfl⟩⟩

theorem Heap.Ext.trans {h1 h2 h3 : Heap} (a : h1.Ext h2) (b : h2.Ext h3) : h1.Ext h3 := by
  intro hi
  obtain ⟨i2, s2⟩ := a hi
  obtain ⟨i3, s3⟩ := b i2
  exact ⟨i3, fun x hx => ⟨(s3 x (s2 x hx).1).1, ((s3 x (s2 x hx).1).2).trans (s2 x hx).2⟩⟩

theorem Heap.Ext.of_eq {h h' : Heap} (e1 : h'.bes = h.bes) (e2 : h'.nbe = h.nbe) (e3 : h'.trs = h.trs)
    (e4 : h'.held = h.held) : h.Ext h' := by
  intro hi
  refine ⟨⟨?_, ?_, ?_⟩, ?_⟩
  · rw [e4, e2]; exact hi.held_lt
  · rw [e3, e2]; exact hi.be_lt
  · rw [e3, e4]; exact hi.be_nh
  · intro a ha; rw [e4, e1]; exact ⟨ha, rfl⟩

theorem allocBE_ext (h : Heap) (b : BErr) : h.Ext (allocBE h b).1 := by
  intro hi
  refine ⟨⟨?_, ?_, ?_⟩, ?_⟩
  · intro a ha; have := hi.held_lt a ha; simp [allocBE]; omega
  · intro t a hta; have := hi.be_lt t a hta; simp [allocBE]; omega
  · intro t a hta; exact hi.be_nh t a hta
  · intro a ha
    have := hi.held_lt a ha
    refine ⟨ha, ?_⟩
    simp [allocBE, upd]; omega

theorem setTR_ext (h : Heap) (t : Nat) (v : TokRes) (hv : ∀ a, v.be = some a → a < h.nbe ∧ a ∉ h.held) :
    h.Ext { h with trs := upd h.trs t v } := by
  intro hi
  refine ⟨⟨hi.held_lt, ?_, ?_⟩, fun a ha => ⟨ha, rfl⟩⟩
  · intro t' a hta
    by_cases e : t' = t
    · simp [upd, e] at hta; exact (hv a hta).1
    · simp [upd, e] at hta; exact hi.be_lt t' a hta
  · intro t' a hta
    by_cases e : t' = t
    · simp [upd, e] at hta; exact (hv a hta).2
    · simp [upd, e] at hta; exact hi.be_nh t' a hta

theorem allocTR_ext (h : Heap) (v : TokRes) (hv : ∀ a, v.be = some a → a < h.nbe ∧ a ∉ h.held) :
    h.Ext (allocTR h v).1 := by
  refine (setTR_ext h h.ntr v hv).trans (Heap.Ext.of_eq rfl rfl ?_ rfl)
  simp [allocTR]

theorem newTokenResult_ext (h : Heap) (st : Nat) (b : BErr) : h.Ext (newTokenResult h st b).1 := by
  intro hi
  have h1 := allocBE_ext h b hi
  have : (allocBE h b).1.Ext (newTokenResult h st b).1 := by
    unfold newTokenResult
    apply allocTR_ext
    intro a ha
    simp only [Option.some.injEq] at ha
    subst ha
    refine ⟨by simp [allocBE], ?_⟩
    intro hmem
    have := hi.held_lt _ (by simpa [allocBE] using hmem)
    simp [allocBE] at this
  obtain ⟨i2, s2⟩ := this h1.1
  exact ⟨i2, fun x hx => ⟨(s2 x (h1.2 x hx).1).1, ((s2 x (h1.2 x hx).1).2).trans (h1.2 x hx).2⟩⟩

theorem resetToPass_ext (h : Heap) (t : Nat) : h.Ext (resetToPass h t) := by
  unfold resetToPass
  exact setTR_ext h t _ (by simp)

theorem resetToBlockedWith_ext (h : Heap) (t : Nat) (b : BErr) : h.Ext (resetToBlockedWith h t b) := by
  intro hi
  unfold resetToBlockedWith
  cases hbe : (h.trs t).be with
  | none =>
    have h1 := allocBE_ext h b hi
    have : (allocBE h b).1.Ext { (allocBE h b).1 with trs := upd (allocBE h b).1.trs t { status := 1, be := some h.nbe } } := by
      apply setTR_ext
      intro a ha
      simp only [Option.some.injEq] at ha
      subst ha
      refine ⟨by simp [allocBE], ?_⟩
      intro hmem
      have := hi.held_lt _ (by simpa [allocBE] using hmem)
      simp at this
    obtain ⟨i2, s2⟩ := this h1.1
    exact ⟨by simpa [allocBE] using i2, fun x hx => ⟨by simpa [allocBE] using (s2 x (h1.2 x hx).1).1,
      by simpa [allocBE] using ((s2 x (h1.2 x hx).1).2).trans (h1.2 x hx).2⟩⟩
  | some a =>
    have hlt := hi.be_lt t a hbe
    have hnh := hi.be_nh t a hbe
    refine ⟨⟨hi.held_lt, ?_, ?_⟩, ?_⟩
    · intro t' a' hta
      by_cases e : t' = t
      · simp [upd, e] at hta; subst hta; exact hlt
      · simp [upd, e] at hta; exact hi.be_lt t' a' hta
    · intro t' a' hta
      by_cases e : t' = t
      · simp [upd, e] at hta; subst hta; exact hnh
      · simp [upd, e] at hta; exact hi.be_nh t' a' hta
    · intro x hx
      refine ⟨hx, ?_⟩
      have : x ≠ a := fun e => hnh (e ▸ hx)
      simp [upd, this]


theorem poolGet_ext (h : Heap) : h.Ext (poolGet h).1 := by
  unfold poolGet
  cases h.priv with
  | some c => exact Heap.Ext.of_eq rfl rfl rfl rfl
  | none =>
    cases h.shared with
    | cons c r => exact Heap.Ext.of_eq rfl rfl rfl rfl
    | nil => exact (newTokenResult_ext h 0 {}).trans (Heap.Ext.of_eq rfl rfl rfl rfl)

theorem poolPut_ext (h : Heap) (c : Nat) : h.Ext (poolPut h c) := by
  unfold poolPut
  cases h.priv <;> exact Heap.Ext.of_eq rfl rfl rfl rfl

theorem refurbish_ext (h : Heap) (c : Nat) : h.Ext (refurbish h c) :=
  (resetToPass_ext h _).trans (poolPut_ext _ c)

theorem doBlock_ext (c : Nat) (s : RSlot) (st : Style) (typ : Nat) (h : Heap) : h.Ext (doBlock c s st typ h).1 := by
  cases st with
  | fresh => exact newTokenResult_ext h 1 _
  | ctx => exact resetToBlockedWith_ext h _ _
  | own => exact resetToBlockedWith_ext h _ _

theorem runRules_ext (c : Nat) (rs : List RSlot) (h : Heap) : h.Ext (runRules c rs h).1 := by
  induction rs generalizing h with
  | nil => exact Heap.Ext.refl h
  | cons s r ih =>
    cases hb : s.beh with
    | panic => simpa [runRules, hb] using Heap.Ext.refl h
    | block st typ => simpa [runRules, hb] using doBlock_ext c s st typ h
    | wait => simpa [runRules, hb] using (newTokenResult_ext h 2 {}).trans (ih _)
    | pass => simpa [runRules, hb] using (newTokenResult_ext h 0 {}).trans (ih _)
    | nil => simpa [runRules, hb] using ih h

theorem chainEntry_ext (ch : ChainDef) (c : Nat) (h : Heap) : h.Ext (chainEntry ch c h).1 := by
  unfold chainEntry
  rcases runPrep ch.ps with ⟨l1, k1, p1⟩
  dsimp only
  cases p1 with
  | true => simpa using Heap.Ext.refl h
  | false =>
    simp only [Bool.false_eq_true, if_false]
    have hr := runRules_ext c ch.rs h
    rcases hrr : runRules c ch.rs h with ⟨h2, l2, k2, ro⟩
    rw [hrr] at hr
    dsimp only at hr
    cases ro with
    | panic => exact hr
    | allPass => exact hr.trans (resetToPass_ext h2 _)
    | blocked t => exact hr.trans (Heap.Ext.of_eq rfl rfl rfl rfl)

theorem exitBody_ext (ss : List SSlot) (hooks : Hooks) (c : Nat) (h : Heap) : h.Ext (exitBody ss hooks c h).1 := by
  simpa [exitBody] using refurbish_ext h c

/-- the deep copy handed to the caller -/
theorem hold_ext (h : Heap) (b : BErr) : h.Ext { (allocBE h b).1 with held := h.nbe :: h.held } := by
  intro hi
  refine ⟨⟨?_, ?_, ?_⟩, ?_⟩
  · intro a ha
    simp only [List.mem_cons] at ha
    rcases ha with rfl | ha
    · simp [allocBE]
    · have := hi.held_lt a ha; simp [allocBE]; omega
  · intro t a hta; have := hi.be_lt t a (by simpa [allocBE] using hta); simp [allocBE]; omega
  · intro t a hta hmem
    have hta' : (h.trs t).be = some a := by simpa [allocBE] using hta
    simp only [List.mem_cons] at hmem
    rcases hmem with rfl | hmem
    · have := hi.be_lt t _ hta'; omega
    · exact hi.be_nh t a hta' hmem
  · intro a ha
    have := hi.held_lt a ha
    refine ⟨List.mem_cons_of_mem _ ha, ?_⟩
    simp [allocBE, upd]; omega

theorem apiEntry_ext (ch : ChainDef) (h : Heap) : h.Ext (apiEntry ch h).1 := by
  unfold apiEntry
  have hg := poolGet_ext h
  rcases hpg : poolGet h with ⟨h1, c⟩
  rw [hpg] at hg
  dsimp only at hg ⊢
  have hc := chainEntry_ext ch c h1
  rcases hce : chainEntry ch c h1 with ⟨h2, l, ks, r⟩
  rw [hce] at hc
  dsimp only at hc ⊢
  cases r with
  | none => exact hg.trans hc
  | some t =>
    dsimp only
    split_ifs
    · cases getBE h2 t with
      | none => exact hg.trans hc
      | some b =>
        dsimp only [allocBE]
        exact (hg.trans hc).trans ((hold_ext h2 b).trans (exitBody_ext ch.ss ks c _))
    · exact hg.trans hc

theorem addSlot_ext (h : Heap) (ch : ChainDef) (x : SlotSpec) : h.Ext (addSlot h ch x).1 := by
  cases x with
  | p x => exact Heap.Ext.refl h
  | s x => exact Heap.Ext.refl h
  | r x =>
    simp only [addSlot]
    split_ifs
    · exact (newTokenResult_ext h 0 {}).trans (Heap.Ext.of_eq rfl rfl rfl rfl)
    · exact Heap.Ext.refl h

theorem addSlots_ext (xs : List SlotSpec) (h : Heap) (ch : ChainDef) : h.Ext (addSlots xs h ch).1 := by
  induction xs generalizing h ch with
  | nil => exact Heap.Ext.refl h
  | cons x r ih =>
    unfold addSlots
    have := addSlot_ext h ch x
    rcases hx : addSlot h ch x with ⟨h1, ch1⟩
    rw [hx] at this
    exact this.trans (ih h1 ch1)

@[simp] theorem setChain_h (s : State) (n : String) (ch : ChainDef) : (setChain s n ch).h = s.h := rfl
@[simp] theorem setEntry_h (s : State) (r : EntryRec) : (setEntry s r).h = s.h := rfl

theorem step_ext (s : State) (op : Op) : s.h.Ext (step s op).1.h := by
  cases op with
  | chain n slots =>
    simp only [step, stepChain]
    cases findChain s n with
    | some _ => exact Heap.Ext.refl _
    | none => exact addSlots_ext slots s.h {}
  | add n slot =>
    simp only [step, stepAdd]
    cases findChain s n with
    | none => exact Heap.Ext.refl _
    | some ch => exact addSlot_ext s.h ch slot
  | entry e n =>
    simp only [step, stepEntry]
    cases findEntry s e with
    | some _ => exact Heap.Ext.refl _
    | none =>
      cases findChain s n with
      | none => exact Heap.Ext.refl _
      | some ch =>
        have := apiEntry_ext ch s.h
        simp only [recordEntry]
        cases (apiEntry ch s.h).2.2 <;> exact this
  | whenexit e id b =>
    simp only [step, stepWhenExit]
    cases findEntry s e with
    | none => exact Heap.Ext.refl _
    | some r =>
      dsimp only
      split_ifs <;> exact Heap.Ext.refl _
  | exit e =>
    simp only [step, stepExit]
    cases findEntry s e with
    | none => exact Heap.Ext.refl _
    | some r =>
      dsimp only
      split_ifs
      · exact Heap.Ext.refl _
      · exact Heap.Ext.refl _
      · cases findChain s r.chain with
        | none => exact Heap.Ext.refl _
        | some ch => exact exitBody_ext ch.ss r.hooks r.ctx s.h
  | log => exact Heap.Ext.refl _
  | ident e =>
    simp only [step]
    cases findEntry s e <;> exact Heap.Ext.refl _
  | blockerr e =>
    simp only [step, stepBlockErr]
    cases findEntry s e with
    | none => exact Heap.Ext.refl _
    | some r => dsimp only; cases r.blockAt <;> exact Heap.Ext.refl _
  | globalorder => exact Heap.Ext.refl _

theorem runOps_ext (ops : List Op) (s : State) : s.h.Ext (runOps s ops).h := by
  induction ops generalizing s with
  | nil => exact Heap.Ext.refl _
  | cons o r ih => exact (step_ext s o).trans (ih _)

theorem init_inv : ({} : Heap).Inv := ⟨by simp, by simp, by simp⟩

end Sentinel.Chain
