import Mathlib.Tactic
import Sentinel.Model.ChainSpec
/-! Helper lemmas for C16 (slot ordering, chain traversal, heap invariants). -/
namespace Sentinel.Chain

/-! ## `insertSlot` keeps the list sorted and stable -/

theorem mem_insertSlot {α : Type} (ord : α → Nat) (x z : α) (l : List α) :
    z ∈ insertSlot ord x l ↔ z = x ∨ z ∈ l := by
  induction l with
  | nil => simp [insertSlot]
  | cons y ys ih =>
    unfold insertSlot
    split_ifs
    · simp only [List.mem_cons, ih]; tauto
    · simp only [List.mem_cons]

theorem insert_sorted {α : Type} (ord : α → Nat) (x : α) (l : List α) (h : l.Pairwise (fun a b => ord a ≤ ord b)) :
    (insertSlot ord x l).Pairwise (fun a b => ord a ≤ ord b) := by
  induction l with
  | nil => simp [insertSlot]
  | cons y ys ih =>
    unfold insertSlot
    rw [List.pairwise_cons] at h
    split_ifs with hc
    · rw [List.pairwise_cons]
      refine ⟨?_, ih h.2⟩
      intro z hz
      rcases (mem_insertSlot ord x z ys).mp hz with rfl | hz
      · exact hc
      · exact h.1 z hz
    · rw [List.pairwise_cons]
      refine ⟨?_, List.pairwise_cons.mpr h⟩
      intro z hz
      rcases List.mem_cons.mp hz with rfl | hz
      · omega
      · have := h.1 z hz; omega

/-- stability: slots with the same order value keep their insertion order -/
theorem insert_filter {α : Type} (ord : α → Nat) (x : α) (l : List α) (k : Nat)
    (h : l.Pairwise (fun a b => ord a ≤ ord b)) :
    (insertSlot ord x l).filter (fun a => ord a = k) = l.filter (fun a => ord a = k) ++ (if ord x = k then [x] else []) := by
  induction l with
  | nil => by_cases hx : ord x = k <;> simp [insertSlot, hx]
  | cons y ys ih =>
    rw [List.pairwise_cons] at h
    unfold insertSlot
    by_cases hc : ord y ≤ ord x
    · simp only [hc, if_true, List.filter_cons, ih h.2]
      by_cases hy : ord y = k <;> simp [hy]
    · simp only [hc, if_false]
      by_cases hx : ord x = k
      · have hnone : (y :: ys).filter (fun a => ord a = k) = [] := by
          rw [List.filter_eq_nil_iff]
          intro z hz
          rcases List.mem_cons.mp hz with rfl | hz
          · simp; omega
          · have := h.1 z hz; simp; omega
        rw [List.filter_cons, hnone]
        simp [hx]
      · rw [List.filter_cons]
        simp [hx]

theorem addAll_append {α : Type} (ord : α → Nat) (xs : List α) (x : α) :
    addAll ord (xs ++ [x]) = insertSlot ord x (addAll ord xs) := by
  simp [addAll, List.foldl_append]

theorem addAll_sorted_stable {α : Type} (ord : α → Nat) (xs : List α) :
    (addAll ord xs).Pairwise (fun a b => ord a ≤ ord b) ∧
    ∀ k, (addAll ord xs).filter (fun a => ord a = k) = xs.filter (fun a => ord a = k) := by
  unfold addAll
  have : ∀ (acc : List α), acc.Pairwise (fun a b => ord a ≤ ord b) →
      (xs.foldl (fun acc x => insertSlot ord x acc) acc).Pairwise (fun a b => ord a ≤ ord b) ∧
      ∀ k, (xs.foldl (fun acc x => insertSlot ord x acc) acc).filter (fun a => ord a = k)
            = acc.filter (fun a => ord a = k) ++ xs.filter (fun a => ord a = k) := by
    induction xs with
    | nil => intro acc h; exact ⟨h, by simp⟩
    | cons x r ih =>
      intro acc h
      obtain ⟨h1, h2⟩ := ih (insertSlot ord x acc) (insert_sorted ord x acc h)
      refine ⟨h1, ?_⟩
      intro k
      rw [List.foldl_cons, h2 k, insert_filter ord x acc k h, List.filter_cons]
      by_cases hx : ord x = k <;> simp [hx]
  simpa using this [] List.Pairwise.nil

end Sentinel.Chain
