import Mathlib.Tactic
import Sentinel.Model.ChainSpec
/-! Helper lemmas for C16 (slot ordering, chain traversal, heap invariants). -/
namespace Sentinel.Chain

/-! ## `insertSlot` keeps the list sorted and stable -/

theorem mem_insertSlot {α : Type} (ord : α → Nat) (x z : α) (l : List α) :
    z ∈ insertSlot ord x l ↔ z = x ∨ z ∈ l := by
  induction l with
  | nil => simp [insertSlot]
  | cons y ys ih =>
    unfold insertSlot
    split_ifs
    · simp only [List.mem_cons, ih]; tauto
    · simp only [List.mem_cons]

theorem insert_sorted {α : Type} (ord : α → Nat) (x : α) (l : List α) (h : l.Pairwise (fun a b => ord a ≤ ord b)) :
    (insertSlot ord x l).Pairwise (fun a b => ord a ≤ ord b) := by
  induction l with
  | nil => simp [insertSlot]
  | cons y ys ih =>
    unfold insertSlot
    rw [List.pairwise_cons] at h
    split_ifs with hc
    · rw [List.pairwise_cons]
      refine ⟨?_, ih h.2⟩
      intro z hz
      rcases (mem_insertSlot ord x z ys).mp hz with rfl | hz
      · exact hc
      · exact h.1 z hz
    · rw [List.pairwise_cons]
      refine ⟨?_, List.pairwise_cons.mpr h⟩
      intro z hz
      rcases List.mem_cons.mp hz with rfl | hz
      · omega
      · have := h.1 z hz; omega

/-- stability: slots with the same order value keep their insertion order -/
theorem insert_filter {α : Type} (ord : α → Nat) (x : α) (l : List α) (k : Nat)
    (h : l.Pairwise (fun a b => ord a ≤ ord b)) :
    (insertSlot ord x l).filter (fun a => ord a = k) = l.filter (fun a => ord a = k) ++ (if ord x = k then [x] else []) := by
  induction l with
  | nil => by_cases hx : ord x = k <;> simp [insertSlot, hx]
  | cons y ys ih =>
    rw [List.pairwise_cons] at h
    unfold insertSlot
    by_cases hc : ord y ≤ ord x
    · simp only [hc, if_true, List.filter_cons, ih h.2]
      by_cases hy : ord y = k <;> simp [hy]
    · simp only [hc, if_false]
      by_cases hx : ord x = k
      · have hnone : (y :: ys).filter (fun a => ord a = k) = [] := by
          rw [List.filter_eq_nil_iff]
          intro z hz
          rcases List.mem_cons.mp hz with rfl | hz
          · simp; omega
          · have := h.1 z hz; simp; omega
        rw [List.filter_cons, hnone]
        simp [hx]
      · rw [List.filter_cons]
        simp [hx]

theorem addAll_append {α : Type} (ord : α → Nat) (xs : List α) (x : α) :
    addAll ord (xs ++ [x]) = insertSlot ord x (addAll ord xs) := by
  simp [addAll, List.foldl_append]

theorem addAll_sorted_stable {α : Type} (ord : α → Nat) (xs : List α) :
    (addAll ord xs).Pairwise (fun a b => ord a ≤ ord b) ∧
    ∀ k, (addAll ord xs).filter (fun a => ord a = k) = xs.filter (fun a => ord a = k) := by
  unfold addAll
  have : ∀ (acc : List α), acc.Pairwise (fun a b => ord a ≤ ord b) →
      (xs.foldl (fun acc x => insertSlot ord x acc) acc).Pairwise (fun a b => ord a ≤ ord b) ∧
      ∀ k, (xs.foldl (fun acc x => insertSlot ord x acc) acc).filter (fun a => ord a = k)
            = acc.filter (fun a => ord a = k) ++ xs.filter (fun a => ord a = k) := by
    induction xs with
    | nil => intro acc h; exact ⟨h, by simp⟩
    | cons x r ih =>
      intro acc h
      obtain ⟨h1, h2⟩ := ih (insertSlot ord x acc) (insert_sorted ord x acc h)
      refine ⟨h1, ?_⟩
      intro k
      rw [List.foldl_cons, h2 k, insert_filter ord x acc k h, List.filter_cons]
      by_cases hx : ord x = k <;> simp [hx]
  simpa using this [] List.Pairwise.nil

/-! ## the insertion result is *the* stable sort -/

theorem stable_unique {α : Type} (ord : α → Nat) : ∀ (l1 l2 : List α),
    l1.Pairwise (fun a b => ord a ≤ ord b) → l2.Pairwise (fun a b => ord a ≤ ord b) →
    (∀ k, l1.filter (fun a => ord a = k) = l2.filter (fun a => ord a = k)) → l1 = l2 := by
  intro l1
  induction l1 with
  | nil =>
    intro l2 _ _ hf
    cases l2 with
    | nil => rfl
    | cons b r2 => have := hf (ord b); simp at this
  | cons a r1 ih =>
    intro l2 h1 h2 hf
    cases l2 with
    | nil => have := hf (ord a); simp at this
    | cons b r2 =>
      rw [List.pairwise_cons] at h1 h2
      have hab : ord a ≤ ord b := by
        have hb : b ∈ (a :: r1).filter (fun x => ord x = ord b) := by rw [hf (ord b)]; simp
        have hb' := (List.mem_filter.mp hb).1
        rcases List.mem_cons.mp hb' with rfl | hb'
        · exact le_refl _
        · exact h1.1 b hb'
      have hba : ord b ≤ ord a := by
        have ha : a ∈ (b :: r2).filter (fun x => ord x = ord a) := by rw [← hf (ord a)]; simp
        have ha' := (List.mem_filter.mp ha).1
        rcases List.mem_cons.mp ha' with rfl | ha'
        · exact le_refl _
        · exact h2.1 a ha'
      have heq : ord a = ord b := le_antisymm hab hba
      have h0 := hf (ord a)
      simp only [List.filter_cons, heq, decide_true, if_true] at h0
      simp only [← heq] at h0
      have h0' := h0
      simp only [heq] at h0'
      obtain ⟨rfl, htl⟩ := List.cons.inj h0'
      congr 1
      apply ih r2 h1.2 h2.2
      intro k
      by_cases hk : ord a = k
      · subst hk; exact htl
      · have := hf k
        simpa [List.filter_cons, hk] using this

theorem stableSort_spec {α : Type} (ord : α → Nat) (xs : List α) :
    (stableSort ord xs).Pairwise (fun a b => ord a ≤ ord b) ∧
    ∀ k, (stableSort ord xs).filter (fun a => ord a = k) = xs.filter (fun a => ord a = k) := by
  have htr : ∀ (a b c : α), decide (ord a ≤ ord b) = true → decide (ord b ≤ ord c) = true → decide (ord a ≤ ord c) = true := by
    intro a b c h1 h2; simp at *; omega
  have htot : ∀ (a b : α), (decide (ord a ≤ ord b) || decide (ord b ≤ ord a)) = true := by
    intro a b; simp; omega
  constructor
  · have := List.pairwise_mergeSort htr htot xs
    simpa [stableSort] using this
  · intro k
    have hsub : List.Sublist (xs.filter (fun a => ord a = k)) (stableSort ord xs) := by
      apply List.sublist_mergeSort htr htot _ List.filter_sublist
      rw [List.pairwise_iff_forall_sublist]
      intro a b hab
      have ha : a ∈ xs.filter (fun a => ord a = k) := hab.subset (by simp)
      have hb : b ∈ xs.filter (fun a => ord a = k) := hab.subset (by simp)
      simp at ha hb
      simp; omega
    have h2 := hsub.filter (fun a => decide (ord a = k))
    rw [List.filter_filter] at h2
    simp only [Bool.and_self] at h2
    have hperm : ((stableSort ord xs).filter (fun a => ord a = k)).length = (xs.filter (fun a => ord a = k)).length :=
      ((List.mergeSort_perm xs _).filter _).length_eq
    exact (h2.eq_of_length hperm.symm).symm

theorem addAll_eq_stableSort {α : Type} (ord : α → Nat) (xs : List α) : addAll ord xs = stableSort ord xs := by
  obtain ⟨h1, h2⟩ := addAll_sorted_stable ord xs
  obtain ⟨h3, h4⟩ := stableSort_spec ord xs
  exact stable_unique ord _ _ h1 h3 (fun k => (h2 k).trans (h4 k).symm)


/-! ## traversal of the three slot lists -/

theorem runPrep_noPanic (ps : List PSlot) (h : prepPanics ps = false) :
    runPrep ps = (ps.map (fun s => Call.prep s.id), hooksOfP ps, false) := by
  induction ps with
  | nil => rfl
  | cons s r ih =>
    simp only [prepPanics, List.any_cons, Bool.or_eq_false_iff, decide_eq_false_iff_not] at h
    have ih' := ih (by simpa [prepPanics] using h.2)
    cases hb : s.beh with
    | panic => exact absurd hb h.1
    | ok => simp [runPrep, hb, ih', hooksOfP]

theorem runPrep_panic (ps : List PSlot) (h : prepPanics ps = true) : (runPrep ps).2.2 = true := by
  induction ps with
  | nil => simp [prepPanics] at h
  | cons s r ih =>
    cases hb : s.beh with
    | panic => simp [runPrep, hb]
    | ok =>
      have : prepPanics r = true := by simpa [prepPanics, hb] using h
      simp [runPrep, hb, ih this]

theorem runPrep_prefix (ps : List PSlot) : (runPrep ps).1 <+: ps.map (fun s => Call.prep s.id) := by
  induction ps with
  | nil => simp [runPrep]
  | cons s r ih =>
    cases hb : s.beh with
    | panic => simp [runPrep, hb, List.prefix_cons_iff]
    | ok => simpa [runPrep, hb, List.prefix_cons_iff] using ih

theorem stopper_cons (s : RSlot) (r : List RSlot) :
    stopper (s :: r) = if s.beh.passes then stopper r else some s := by
  unfold stopper
  rw [List.find?_cons]
  cases s.beh.passes <;> simp

theorem ranRules_cons (s : RSlot) (r : List RSlot) :
    ranRules (s :: r) = if s.beh.passes then s :: ranRules r else [s] := by
  unfold ranRules
  rw [stopper_cons, List.takeWhile_cons]
  cases s.beh.passes <;> simp

theorem stopOf_cons (s : RSlot) (r : List RSlot) :
    stopOf (s :: r) = if s.beh.passes then stopOf r else stopOfSlot s := by
  unfold stopOf
  rw [stopper_cons]
  cases s.beh.passes <;> simp

theorem runRules_calls (c : Nat) (rs : List RSlot) (h : Heap) :
    (runRules c rs h).2.1 = (ranRules rs).map (fun s => Call.check s.id) ∧
    (runRules c rs h).2.2.1 = hooksOfR (ranRules rs) := by
  induction rs generalizing h with
  | nil => simp [runRules, ranRules, stopper, hooksOfR]
  | cons s r ih =>
    rw [ranRules_cons]
    cases hb : s.beh with
    | panic => simp [runRules, hb, RB.passes, hooksOfR]
    | block st typ => simp [runRules, hb, RB.passes, hooksOfR]
    | wait =>
      have := ih (newTokenResult h 2 {}).1
      simp [runRules, hb, RB.passes, hooksOfR, this.1, this.2] 
    | pass =>
      have := ih (newTokenResult h 0 {}).1
      simp [runRules, hb, RB.passes, hooksOfR, this.1, this.2]
    | nil =>
      have := ih h
      simp [runRules, hb, RB.passes, hooksOfR, this.1, this.2]


theorem resetToBlockedWith_read (h : Heap) (t : Nat) (b : BErr) :
    ((resetToBlockedWith h t b).trs t).status = 1 ∧ getBE (resetToBlockedWith h t b) t = some b := by
  unfold resetToBlockedWith
  cases hbe : (h.trs t).be with
  | none => simp [allocBE, upd, getBE]
  | some a => simp [upd, getBE]

theorem newTokenResult_read (h : Heap) (st : Nat) (b : BErr) :
    ((newTokenResult h st b).1.trs (newTokenResult h st b).2).status = st ∧
    getBE (newTokenResult h st b).1 (newTokenResult h st b).2 = some b := by
  simp [newTokenResult, allocBE, allocTR, upd, getBE]

theorem doBlock_read (c : Nat) (s : RSlot) (st : Style) (typ : Nat) (h : Heap) :
    ((doBlock c s st typ h).1.trs (doBlock c s st typ h).2).status = 1 ∧
    getBE (doBlock c s st typ h).1 (doBlock c s st typ h).2 = some (blockVal s typ) := by
  cases st <;> first | exact resetToBlockedWith_read h _ _ | exact newTokenResult_read h 1 _ | exact resetToBlockedWith_read (resetToPass h (h.ctxs c)) (h.ctxs c) _

theorem runRules_allPass (c : Nat) (rs : List RSlot) (h : Heap) (hs : stopOf rs = .allPass) :
    (runRules c rs h).2.2.2 = .allPass := by
  induction rs generalizing h with
  | nil => rfl
  | cons s r ih =>
    rw [stopOf_cons] at hs
    cases hb : s.beh with
    | panic => simp [hb, RB.passes, stopOfSlot] at hs
    | block st typ => simp [hb, RB.passes, stopOfSlot] at hs
    | wait => simp only [hb, RB.passes, if_true] at hs; simp [runRules, hb, ih _ hs]
    | pass => simp only [hb, RB.passes, if_true] at hs; simp [runRules, hb, ih _ hs]
    | nil => simp only [hb, RB.passes, if_true] at hs; simp [runRules, hb, ih _ hs]

theorem runRules_panic (c : Nat) (rs : List RSlot) (h : Heap) (hs : stopOf rs = .panic) :
    (runRules c rs h).2.2.2 = .panic := by
  induction rs generalizing h with
  | nil => simp [stopOf, stopper] at hs
  | cons s r ih =>
    rw [stopOf_cons] at hs
    cases hb : s.beh with
    | panic => simp [runRules, hb]
    | block st typ => simp [hb, RB.passes, stopOfSlot] at hs
    | wait => simp only [hb, RB.passes, if_true] at hs; simp [runRules, hb, ih _ hs]
    | pass => simp only [hb, RB.passes, if_true] at hs; simp [runRules, hb, ih _ hs]
    | nil => simp only [hb, RB.passes, if_true] at hs; simp [runRules, hb, ih _ hs]

theorem runRules_block (c : Nat) (rs : List RSlot) (h : Heap) (s0 : RSlot) (typ0 : Nat)
    (hs : stopOf rs = .block s0 typ0) :
    ∃ t, (runRules c rs h).2.2.2 = .blocked t ∧ ((runRules c rs h).1.trs t).status = 1 ∧
      getBE (runRules c rs h).1 t = some (blockVal s0 typ0) := by
  induction rs generalizing h with
  | nil => simp [stopOf, stopper] at hs
  | cons s r ih =>
    rw [stopOf_cons] at hs
    cases hb : s.beh with
    | panic => simp [hb, RB.passes, stopOfSlot] at hs
    | block st typ =>
      simp only [hb, RB.passes, stopOfSlot] at hs
      simp only [Bool.false_eq_true, if_false, Stop.block.injEq] at hs
      obtain ⟨rfl, rfl⟩ := hs
      refine ⟨(doBlock c s st typ h).2, ?_, ?_, ?_⟩
      · simp [runRules, hb]
      · simpa [runRules, hb] using (doBlock_read c s st typ h).1
      · simpa [runRules, hb] using (doBlock_read c s st typ h).2
    | wait =>
      simp only [hb, RB.passes, if_true] at hs
      obtain ⟨t, h1, h2, h3⟩ := ih (newTokenResult h 2 {}).1 hs
      exact ⟨t, by simp [runRules, hb, h1], by simpa [runRules, hb] using h2, by simpa [runRules, hb] using h3⟩
    | pass =>
      simp only [hb, RB.passes, if_true] at hs
      obtain ⟨t, h1, h2, h3⟩ := ih (newTokenResult h 0 {}).1 hs
      exact ⟨t, by simp [runRules, hb, h1], by simpa [runRules, hb] using h2, by simpa [runRules, hb] using h3⟩
    | nil =>
      simp only [hb, RB.passes, if_true] at hs
      obtain ⟨t, h1, h2, h3⟩ := ih h hs
      exact ⟨t, by simp [runRules, hb, h1], by simpa [runRules, hb] using h2, by simpa [runRules, hb] using h3⟩

theorem runStats_noPanic (blk : Option (Option BErr)) (ss : List SSlot) (h : statPanics blk ss = false) :
    runStats blk ss = (ss.map (statCall blk), false) := by
  induction ss with
  | nil => rfl
  | cons s r ih =>
    cases blk with
    | none =>
      simp only [statPanics, List.any_cons, Bool.or_eq_false_iff, decide_eq_false_iff_not] at h
      have := ih (by simpa [statPanics] using h.2)
      simp [runStats, h.1, this, statCall]
    | some b =>
      simp only [statPanics, List.any_cons, Bool.or_eq_false_iff, decide_eq_false_iff_not] at h
      have := ih (by simpa [statPanics] using h.2)
      simp [runStats, h.1, this, statCall]

theorem runStats_panic (blk : Option (Option BErr)) (ss : List SSlot) (h : statPanics blk ss = true) :
    (runStats blk ss).2 = true := by
  induction ss with
  | nil => cases blk <;> simp [statPanics] at h
  | cons s r ih =>
    cases blk with
    | none =>
      by_cases hb : s.beh = .pPassed
      · simp [runStats, hb]
      · have : statPanics none r = true := by simpa [statPanics, hb] using h
        simp [runStats, hb, ih this]
    | some b =>
      by_cases hb : s.beh = .pBlocked
      · simp [runStats, hb]
      · have : statPanics (some b) r = true := by simpa [statPanics, hb] using h
        simp [runStats, hb, ih this]

theorem runStats_prefix (blk : Option (Option BErr)) (ss : List SSlot) :
    (runStats blk ss).1 <+: ss.map (statCall blk) := by
  induction ss with
  | nil => simp [runStats]
  | cons s r ih =>
    cases blk with
    | none =>
      by_cases hb : s.beh = .pPassed
      · simp [runStats, hb, statCall, List.prefix_cons_iff]
      · simpa [runStats, hb, statCall, List.prefix_cons_iff] using ih
    | some b =>
      by_cases hb : s.beh = .pBlocked
      · simp [runStats, hb, statCall, List.prefix_cons_iff]
      · simpa [runStats, hb, statCall, List.prefix_cons_iff] using ih

theorem runHandlers_noPanic (k : Hooks) (h : hooksPanic k = false) :
    runHandlers k = (k.map (fun x => Call.handler x.1), false) := by
  induction k with
  | nil => rfl
  | cons x r ih =>
    obtain ⟨id, b⟩ := x
    simp only [hooksPanic, List.any_cons, Bool.or_eq_false_iff, decide_eq_false_iff_not] at h
    have := ih (by simpa [hooksPanic] using h.2)
    simp [runHandlers, h.1, this]

theorem runCompleted_noPanic (ss : List SSlot) (h : ss.any (fun s => s.beh = .pCompleted) = false) :
    runCompleted ss = (ss.map (fun s => Call.completed s.id), false) := by
  induction ss with
  | nil => rfl
  | cons s r ih =>
    simp only [List.any_cons, Bool.or_eq_false_iff, decide_eq_false_iff_not] at h
    have := ih h.2
    simp [runCompleted, h.1, this]


/-! ## `SlotChain.Entry` against the reference -/

theorem chainEntry_pass (ch : ChainDef) (c : Nat) (h : Heap) (hp : prepPanics ch.ps = false)
    (hs : stopOf ch.rs = .allPass) (hst : statPanics none ch.ss = false) :
    (chainEntry ch c h).2.1 = specEntryCalls ch ∧ (chainEntry ch c h).2.2.1 = specHooks ch ∧
    (chainEntry ch c h).2.2.2 = some ((chainEntry ch c h).1.ctxs c) ∧
    ((chainEntry ch c h).1.trs ((chainEntry ch c h).1.ctxs c)).status = 0 := by
  have hc := runRules_calls c ch.rs h
  have ho := runRules_allPass c ch.rs h hs
  unfold chainEntry
  simp only [runPrep_noPanic _ hp]
  rcases hrr : runRules c ch.rs h with ⟨h2, l2, k2, ro⟩
  rw [hrr] at hc ho
  simp only at hc ho
  subst ho
  simp only [runStats_noPanic _ _ hst, Bool.false_eq_true, if_false]
  refine ⟨?_, ?_, ?_, ?_⟩
  · simp [specEntryCalls, hc.1, hs, Stop.blk]
  · simp [specHooks, hc.2]
  · simp
  · simp [resetToPass, upd]

theorem chainEntry_block (ch : ChainDef) (c : Nat) (h : Heap) (s : RSlot) (typ : Nat) (hp : prepPanics ch.ps = false)
    (hs : stopOf ch.rs = .block s typ) (hst : statPanics (some (some (blockVal s typ))) ch.ss = false) :
    (chainEntry ch c h).2.1 = specEntryCalls ch ∧ (chainEntry ch c h).2.2.1 = specHooks ch ∧
    (chainEntry ch c h).2.2.2 = some ((chainEntry ch c h).1.ctxs c) ∧
    ((chainEntry ch c h).1.trs ((chainEntry ch c h).1.ctxs c)).status = 1 ∧
    getBE (chainEntry ch c h).1 ((chainEntry ch c h).1.ctxs c) = some (blockVal s typ) := by
  have hc := runRules_calls c ch.rs h
  obtain ⟨t, ho, hst1, hbe⟩ := runRules_block c ch.rs h s typ hs
  unfold chainEntry
  simp only [runPrep_noPanic _ hp]
  rcases hrr : runRules c ch.rs h with ⟨h2, l2, k2, ro⟩
  rw [hrr] at hc ho hst1 hbe
  simp only at hc ho hst1 hbe
  subst ho
  have hblk : isBlockedTR { h2 with ctxs := upd h2.ctxs c t } t = true := by simp [isBlockedTR, hst1]
  have hbe' : getBE { h2 with ctxs := upd h2.ctxs c t } t = some (blockVal s typ) := by simpa [getBE] using hbe
  simp only [hblk, if_true, hbe', runStats_noPanic _ _ hst, Bool.false_eq_true, if_false]
  refine ⟨?_, ?_, ?_, ?_, ?_⟩
  · simp [specEntryCalls, hc.1, hs, Stop.blk]
  · simp [specHooks, hc.2]
  · simp [upd]
  · simpa [upd] using hst1
  · simpa [upd, getBE] using hbe

theorem chainEntry_panics (ch : ChainDef) (c : Nat) (h : Heap) (hp : entryPanics ch = true) :
    (chainEntry ch c h).2.2.2 = none := by
  unfold chainEntry
  by_cases h1 : prepPanics ch.ps = true
  · have := runPrep_panic _ h1
    rcases hrp : runPrep ch.ps with ⟨l1, k1, p1⟩
    rw [hrp] at this
    simp only at this
    subst this
    simp
  · simp only [Bool.not_eq_true] at h1
    simp only [runPrep_noPanic _ h1, Bool.false_eq_true, if_false]
    simp only [entryPanics, h1, Bool.false_or, Bool.or_eq_true] at hp
    rcases hrr : runRules c ch.rs h with ⟨h2, l2, k2, ro⟩
    cases hs : stopOf ch.rs with
    | panic =>
      have := runRules_panic c ch.rs h hs
      rw [hrr] at this
      simp only at this
      subst this
      simp
    | allPass =>
      have := runRules_allPass c ch.rs h hs
      rw [hrr] at this
      simp only at this
      subst this
      simp only [hs, Stop.isPanic, Bool.false_eq_true, false_or, Stop.blk] at hp
      simp [runStats_panic _ _ hp]
    | block s typ =>
      obtain ⟨t, ho, hst1, hbe⟩ := runRules_block c ch.rs h s typ hs
      rw [hrr] at ho hst1 hbe
      simp only at ho hst1 hbe
      subst ho
      simp only [hs, Stop.isPanic, Bool.false_eq_true, false_or, Stop.blk] at hp
      have hblk : isBlockedTR { h2 with ctxs := upd h2.ctxs c t } t = true := by simp [isBlockedTR, hst1]
      have hbe' : getBE { h2 with ctxs := upd h2.ctxs c t } t = some (blockVal s typ) := by simpa [getBE] using hbe
      simp [hblk, hbe', runStats_panic _ _ hp]


theorem chainEntry_prefix (ch : ChainDef) (c : Nat) (h : Heap) :
    (chainEntry ch c h).2.1 <+: specEntryCalls ch := by
  unfold chainEntry specEntryCalls
  by_cases h1 : prepPanics ch.ps = true
  · have hp := runPrep_panic _ h1
    have hpre := runPrep_prefix ch.ps
    rcases hrp : runPrep ch.ps with ⟨l1, k1, p1⟩
    rw [hrp] at hp hpre
    simp only at hp hpre
    subst hp
    simp only [if_true]
    rw [List.append_assoc]
    exact hpre.trans (List.prefix_append _ _)
  · simp only [Bool.not_eq_true] at h1
    simp only [runPrep_noPanic _ h1, Bool.false_eq_true, if_false]
    have hc := runRules_calls c ch.rs h
    rcases hrr : runRules c ch.rs h with ⟨h2, l2, k2, ro⟩
    rw [hrr] at hc
    simp only at hc
    cases hs : stopOf ch.rs with
    | panic =>
      have := runRules_panic c ch.rs h hs
      rw [hrr] at this
      simp only at this
      subst this
      simp only [hc.1]
      exact List.prefix_append _ _
    | allPass =>
      have := runRules_allPass c ch.rs h hs
      rw [hrr] at this
      simp only at this
      subst this
      simp only [hc.1, Stop.blk]
      exact (List.prefix_append_right_inj _).mpr (runStats_prefix none ch.ss)
    | block s typ =>
      obtain ⟨t, ho, hst1, hbe⟩ := runRules_block c ch.rs h s typ hs
      rw [hrr] at ho hst1 hbe
      simp only at ho hst1 hbe
      subst ho
      have hblk : isBlockedTR { h2 with ctxs := upd h2.ctxs c t } t = true := by simp [isBlockedTR, hst1]
      have hbe' : getBE { h2 with ctxs := upd h2.ctxs c t } t = some (blockVal s typ) := by simpa [getBE] using hbe
      simp only [hblk, if_true, hbe', hc.1, Stop.blk]
      exact (List.prefix_append_right_inj _).mpr (runStats_prefix _ ch.ss)

/-! ## `api.entry` against the reference -/

/-- the verdict the caller sees -/
def EntryRes.verdict : EntryRes → Option BErr
  | .blocked _ _ b => some b
  | _ => none

theorem apiEntry_panics (ch : ChainDef) (h : Heap) (hp : entryPanics ch = true) :
    ∃ c ks, (apiEntry ch h).2.2 = .passed c ks := by
  unfold apiEntry
  rcases hpg : poolGet h with ⟨h1, c⟩
  dsimp only
  have := chainEntry_panics ch c h1 hp
  rcases hce : chainEntry ch c h1 with ⟨h2, l, ks, r⟩
  rw [hce] at this
  simp only at this
  subst this
  exact ⟨c, ks, rfl⟩

theorem entryPanics_false (ch : ChainDef) (hp : entryPanics ch = false) :
    prepPanics ch.ps = false ∧ (stopOf ch.rs).isPanic = false ∧ statPanics (stopOf ch.rs).blk ch.ss = false := by
  simpa [entryPanics, Bool.or_eq_false_iff, and_assoc] using hp

theorem apiEntry_pass (ch : ChainDef) (h : Heap) (hp : entryPanics ch = false) (hs : stopOf ch.rs = .allPass) :
    (apiEntry ch h).2.1 = specEntryCalls ch ∧
    (apiEntry ch h).2.2 = .passed (poolGet h).2 (specHooks ch) ∧
    ((apiEntry ch h).1.trs ((apiEntry ch h).1.ctxs (poolGet h).2)).status = 0 := by
  obtain ⟨h1, _, h3⟩ := entryPanics_false ch hp
  rw [hs] at h3
  unfold apiEntry
  rcases hpg : poolGet h with ⟨hh, c⟩
  dsimp only
  obtain ⟨e1, e2, e3, e4⟩ := chainEntry_pass ch c hh h1 hs h3
  rcases hce : chainEntry ch c hh with ⟨h2, l, ks, r⟩
  rw [hce] at e1 e2 e3 e4
  simp only at e1 e2 e3 e4
  subst e1 e2 e3
  have : isBlockedTR h2 (h2.ctxs c) = false := by simp [isBlockedTR, e4]
  simp [this, e4]

theorem apiEntry_block (ch : ChainDef) (h : Heap) (s : RSlot) (typ : Nat) (hp : entryPanics ch = false)
    (hs : stopOf ch.rs = .block s typ) :
    (apiEntry ch h).2.1 = specEntryCalls ch ++ (runHandlers (specHooks ch)).1 ∧
    ∃ a, (apiEntry ch h).2.2 = .blocked (poolGet h).2 a (blockVal s typ) ∧ (apiEntry ch h).1.bes a = blockVal s typ ∧
      a ∈ (apiEntry ch h).1.held := by
  obtain ⟨h1, _, h3⟩ := entryPanics_false ch hp
  rw [hs] at h3
  unfold apiEntry
  rcases hpg : poolGet h with ⟨hh, c⟩
  dsimp only
  obtain ⟨e1, e2, e3, e4, e5⟩ := chainEntry_block ch c hh s typ h1 hs h3
  rcases hce : chainEntry ch c hh with ⟨h2, l, ks, r⟩
  rw [hce] at e1 e2 e3 e4 e5
  simp only at e1 e2 e3 e4 e5
  subst e1 e2 e3
  have : isBlockedTR h2 (h2.ctxs c) = true := by simp [isBlockedTR, e4]
  simp only [this, if_true, e5]
  refine ⟨by simp [exitBody, allocBE, isBlockedTR, e4], h2.nbe, by simp [allocBE], ?_, ?_⟩
  · simp [exitBody, allocBE, refurbish, poolPut, resetToPass]
    cases h2.priv <;> simp [upd]
  · simp [exitBody, allocBE, refurbish, poolPut, resetToPass]
    cases h2.priv <;> simp


theorem apiEntry_no_escape (ch : ChainDef) (h : Heap) : (apiEntry ch h).2.2 ≠ .escaped := by
  cases hp : entryPanics ch with
  | true => obtain ⟨c, ks, e⟩ := apiEntry_panics ch h hp; rw [e]; simp
  | false =>
    cases hs : stopOf ch.rs with
    | allPass => rw [(apiEntry_pass ch h hp hs).2.1]; simp
    | block s typ => obtain ⟨_, a, e, _⟩ := apiEntry_block ch h s typ hp hs; rw [e]; simp
    | panic => have := (entryPanics_false ch hp).2.1; simp [hs, Stop.isPanic] at this

/-! ## exit -/

theorem exitBody_log (ss : List SSlot) (hooks : Hooks) (c : Nat) (h : Heap) (hb : isBlockedTR h (h.ctxs c) = false)
    (l : List Call) (hl : specExitLog ss hooks = some l) : (exitBody ss hooks c h).2 = l := by
  unfold specExitLog at hl
  split_ifs at hl with hc
  simp only [Bool.or_eq_true, not_or, Bool.not_eq_true] at hc
  simp only [Option.some.injEq] at hl
  subst hl
  simp [exitBody, runHandlers_noPanic _ hc.1, runCompleted_noPanic _ hc.2, hb]

theorem exitBody_blocked (ss : List SSlot) (hooks : Hooks) (c : Nat) (h : Heap) (hb : isBlockedTR h (h.ctxs c) = true) :
    (exitBody ss hooks c h).2 = (runHandlers hooks).1 := by
  simp [exitBody, hb]

/-! ## heap invariant: what callers hold is never referenced by a pooled `TokenResult` -/

structure Heap.Inv (h : Heap) : Prop where
  held_lt : ∀ a ∈ h.held, a < h.nbe
  be_lt : ∀ t a, (h.trs t).be = some a → a < h.nbe
  be_nh : ∀ t a, (h.trs t).be = some a → a ∉ h.held

/-- `h'` comes after `h`: the invariant is kept and every block error handed to a caller so far is still held and unchanged -/
def Heap.Ext (h h' : Heap) : Prop :=
  h.Inv → h'.Inv ∧ ∀ a ∈ h.held, a ∈ h'.held ∧ h'.bes a = h.bes a

theorem Heap.Ext.refl (h : Heap) : h.Ext h := fun hi => ⟨hi, fun _ ha => ⟨ha, rfl⟩⟩

theorem Heap.Ext.trans {h1 h2 h3 : Heap} (a : h1.Ext h2) (b : h2.Ext h3) : h1.Ext h3 := by
  intro hi
  obtain ⟨i2, s2⟩ := a hi
  obtain ⟨i3, s3⟩ := b i2
  exact ⟨i3, fun x hx => ⟨(s3 x (s2 x hx).1).1, ((s3 x (s2 x hx).1).2).trans (s2 x hx).2⟩⟩

theorem Heap.Ext.of_eq {h h' : Heap} (e1 : h'.bes = h.bes) (e2 : h'.nbe = h.nbe) (e3 : h'.trs = h.trs)
    (e4 : h'.held = h.held) : h.Ext h' := by
  intro hi
  refine ⟨⟨?_, ?_, ?_⟩, ?_⟩
  · rw [e4, e2]; exact hi.held_lt
  · rw [e3, e2]; exact hi.be_lt
  · rw [e3, e4]; exact hi.be_nh
  · intro a ha; rw [e4, e1]; exact ⟨ha, rfl⟩

theorem allocBE_ext (h : Heap) (b : BErr) : h.Ext (allocBE h b).1 := by
  intro hi
  refine ⟨⟨?_, ?_, ?_⟩, ?_⟩
  · intro a ha; have := hi.held_lt a ha; simp [allocBE]; omega
  · intro t a hta; have := hi.be_lt t a hta; simp [allocBE]; omega
  · intro t a hta; exact hi.be_nh t a hta
  · intro a ha
    have := hi.held_lt a ha
    refine ⟨ha, ?_⟩
    simp [allocBE, upd]; omega

theorem setTR_ext (h : Heap) (t : Nat) (v : TokRes) (hv : ∀ a, v.be = some a → a < h.nbe ∧ a ∉ h.held) :
    h.Ext { h with trs := upd h.trs t v } := by
  intro hi
  refine ⟨⟨hi.held_lt, ?_, ?_⟩, fun a ha => ⟨ha, rfl⟩⟩
  · intro t' a hta
    by_cases e : t' = t
    · simp [upd, e] at hta; exact (hv a hta).1
    · simp [upd, e] at hta; exact hi.be_lt t' a hta
  · intro t' a hta
    by_cases e : t' = t
    · simp [upd, e] at hta; exact (hv a hta).2
    · simp [upd, e] at hta; exact hi.be_nh t' a hta

theorem allocTR_ext (h : Heap) (v : TokRes) (hv : ∀ a, v.be = some a → a < h.nbe ∧ a ∉ h.held) :
    h.Ext (allocTR h v).1 := by
  refine (setTR_ext h h.ntr v hv).trans (Heap.Ext.of_eq rfl rfl ?_ rfl)
  simp [allocTR]

theorem newTokenResult_ext (h : Heap) (st : Nat) (b : BErr) : h.Ext (newTokenResult h st b).1 := by
  intro hi
  have h1 := allocBE_ext h b hi
  have : (allocBE h b).1.Ext (newTokenResult h st b).1 := by
    unfold newTokenResult
    apply allocTR_ext
    intro a ha
    simp only [Option.some.injEq] at ha
    subst ha
    refine ⟨by simp [allocBE], ?_⟩
    intro hmem
    have := hi.held_lt _ (by simpa [allocBE] using hmem)
    simp at this
  obtain ⟨i2, s2⟩ := this h1.1
  exact ⟨i2, fun x hx => ⟨(s2 x (h1.2 x hx).1).1, ((s2 x (h1.2 x hx).1).2).trans (h1.2 x hx).2⟩⟩

theorem resetToPass_ext (h : Heap) (t : Nat) : h.Ext (resetToPass h t) := by
  unfold resetToPass
  exact setTR_ext h t _ (by simp)

theorem resetToBlockedWith_ext (h : Heap) (t : Nat) (b : BErr) : h.Ext (resetToBlockedWith h t b) := by
  intro hi
  unfold resetToBlockedWith
  cases hbe : (h.trs t).be with
  | none =>
    have h1 := allocBE_ext h b hi
    have : (allocBE h b).1.Ext { (allocBE h b).1 with trs := upd (allocBE h b).1.trs t { status := 1, be := some h.nbe } } := by
      apply setTR_ext
      intro a ha
      simp only [Option.some.injEq] at ha
      subst ha
      refine ⟨by simp [allocBE], ?_⟩
      intro hmem
      have := hi.held_lt _ (by simpa [allocBE] using hmem)
      simp at this
    obtain ⟨i2, s2⟩ := this h1.1
    exact ⟨by simpa [allocBE] using i2, fun x hx => ⟨by simpa [allocBE] using (s2 x (h1.2 x hx).1).1,
      by simpa [allocBE] using ((s2 x (h1.2 x hx).1).2).trans (h1.2 x hx).2⟩⟩
  | some a =>
    have hlt := hi.be_lt t a hbe
    have hnh := hi.be_nh t a hbe
    refine ⟨⟨hi.held_lt, ?_, ?_⟩, ?_⟩
    · intro t' a' hta
      by_cases e : t' = t
      · simp [upd, e] at hta; subst hta; exact hlt
      · simp [upd, e] at hta; exact hi.be_lt t' a' hta
    · intro t' a' hta
      by_cases e : t' = t
      · simp [upd, e] at hta; subst hta; exact hnh
      · simp [upd, e] at hta; exact hi.be_nh t' a' hta
    · intro x hx
      refine ⟨hx, ?_⟩
      have : x ≠ a := fun e => hnh (e ▸ hx)
      simp [upd, this]


theorem poolGet_ext (h : Heap) : h.Ext (poolGet h).1 := by
  unfold poolGet
  cases h.priv with
  | some c => exact Heap.Ext.of_eq rfl rfl rfl rfl
  | none =>
    cases h.shared with
    | cons c r => exact Heap.Ext.of_eq rfl rfl rfl rfl
    | nil => exact (newTokenResult_ext h 0 {}).trans (Heap.Ext.of_eq rfl rfl rfl rfl)

theorem poolPut_ext (h : Heap) (c : Nat) : h.Ext (poolPut h c) := by
  unfold poolPut
  cases h.priv <;> exact Heap.Ext.of_eq rfl rfl rfl rfl

theorem refurbish_ext (h : Heap) (c : Nat) : h.Ext (refurbish h c) :=
  (resetToPass_ext h _).trans (poolPut_ext _ c)

theorem doBlock_ext (c : Nat) (s : RSlot) (st : Style) (typ : Nat) (h : Heap) : h.Ext (doBlock c s st typ h).1 := by
  cases st <;> first | exact resetToBlockedWith_ext h _ _ | exact newTokenResult_ext h 1 _ | exact (resetToPass_ext h _).trans (resetToBlockedWith_ext _ _ _)

theorem runRules_ext (c : Nat) (rs : List RSlot) (h : Heap) : h.Ext (runRules c rs h).1 := by
  induction rs generalizing h with
  | nil => exact Heap.Ext.refl h
  | cons s r ih =>
    cases hb : s.beh with
    | panic => simpa [runRules, hb] using Heap.Ext.refl h
    | block st typ => simpa [runRules, hb] using doBlock_ext c s st typ h
    | wait => simpa [runRules, hb] using (newTokenResult_ext h 2 {}).trans (ih _)
    | pass => simpa [runRules, hb] using (newTokenResult_ext h 0 {}).trans (ih _)
    | nil => simpa [runRules, hb] using ih h

theorem chainEntry_ext (ch : ChainDef) (c : Nat) (h : Heap) : h.Ext (chainEntry ch c h).1 := by
  unfold chainEntry
  rcases runPrep ch.ps with ⟨l1, k1, p1⟩
  dsimp only
  cases p1 with
  | true => simpa using Heap.Ext.refl h
  | false =>
    simp only [Bool.false_eq_true, if_false]
    have hr := runRules_ext c ch.rs h
    rcases hrr : runRules c ch.rs h with ⟨h2, l2, k2, ro⟩
    rw [hrr] at hr
    dsimp only at hr
    cases ro with
    | panic => exact hr
    | allPass => exact hr.trans (resetToPass_ext h2 _)
    | blocked t => exact hr.trans (Heap.Ext.of_eq rfl rfl rfl rfl)

theorem exitBody_ext (ss : List SSlot) (hooks : Hooks) (c : Nat) (h : Heap) : h.Ext (exitBody ss hooks c h).1 := by
  simpa [exitBody] using refurbish_ext h c

/-- the deep copy handed to the caller -/
theorem hold_ext (h : Heap) (b : BErr) : h.Ext { (allocBE h b).1 with held := h.nbe :: h.held } := by
  intro hi
  refine ⟨⟨?_, ?_, ?_⟩, ?_⟩
  · intro a ha
    simp only [List.mem_cons] at ha
    rcases ha with rfl | ha
    · simp [allocBE]
    · have := hi.held_lt a ha; simp [allocBE]; omega
  · intro t a hta; have := hi.be_lt t a (by simpa [allocBE] using hta); simp [allocBE]; omega
  · intro t a hta hmem
    have hta' : (h.trs t).be = some a := by simpa [allocBE] using hta
    simp only [List.mem_cons] at hmem
    rcases hmem with rfl | hmem
    · have := hi.be_lt t _ hta'; omega
    · exact hi.be_nh t a hta' hmem
  · intro a ha
    have := hi.held_lt a ha
    refine ⟨List.mem_cons_of_mem _ ha, ?_⟩
    simp [allocBE, upd]; omega

theorem apiEntry_ext (ch : ChainDef) (h : Heap) : h.Ext (apiEntry ch h).1 := by
  unfold apiEntry
  have hg := poolGet_ext h
  rcases hpg : poolGet h with ⟨h1, c⟩
  rw [hpg] at hg
  dsimp only at hg ⊢
  have hc := chainEntry_ext ch c h1
  rcases hce : chainEntry ch c h1 with ⟨h2, l, ks, r⟩
  rw [hce] at hc
  dsimp only at hc ⊢
  cases r with
  | none => exact hg.trans hc
  | some t =>
    dsimp only
    split_ifs
    · cases getBE h2 t with
      | none => exact hg.trans hc
      | some b =>
        dsimp only [allocBE]
        exact (hg.trans hc).trans ((hold_ext h2 b).trans (exitBody_ext ch.ss ks c _))
    · exact hg.trans hc

theorem addSlot_ext (h : Heap) (ch : ChainDef) (x : SlotSpec) : h.Ext (addSlot h ch x).1 := by
  cases x with
  | p x => exact Heap.Ext.refl h
  | s x => exact Heap.Ext.refl h
  | r x =>
    simp only [addSlot]
    split_ifs
    · exact (newTokenResult_ext h 0 {}).trans (Heap.Ext.of_eq rfl rfl rfl rfl)
    · exact Heap.Ext.refl h

theorem addSlots_ext (xs : List SlotSpec) (h : Heap) (ch : ChainDef) : h.Ext (addSlots xs h ch).1 := by
  induction xs generalizing h ch with
  | nil => exact Heap.Ext.refl h
  | cons x r ih =>
    unfold addSlots
    have := addSlot_ext h ch x
    rcases hx : addSlot h ch x with ⟨h1, ch1⟩
    rw [hx] at this
    exact this.trans (ih h1 ch1)

@[simp] theorem setChain_h (s : State) (n : String) (ch : ChainDef) : (setChain s n ch).h = s.h := rfl
@[simp] theorem setEntry_h (s : State) (r : EntryRec) : (setEntry s r).h = s.h := rfl

theorem step_ext (s : State) (op : Op) : s.h.Ext (step s op).1.h := by
  cases op with
  | chain n slots =>
    simp only [step, stepChain]
    cases findChain s n with
    | some _ => exact Heap.Ext.refl _
    | none => exact addSlots_ext slots s.h {}
  | add n slot =>
    simp only [step, stepAdd]
    cases findChain s n with
    | none => exact Heap.Ext.refl _
    | some ch => exact addSlot_ext s.h ch slot
  | entry e n =>
    simp only [step, stepEntry]
    cases findEntry s e with
    | some _ => exact Heap.Ext.refl _
    | none =>
      cases findChain s n with
      | none => exact Heap.Ext.refl _
      | some ch =>
        have := apiEntry_ext ch s.h
        simp only [recordEntry]
        cases (apiEntry ch s.h).2.2 <;> exact this
  | whenexit e id b =>
    simp only [step, stepWhenExit]
    cases findEntry s e with
    | none => exact Heap.Ext.refl _
    | some r =>
      dsimp only
      split_ifs <;> exact Heap.Ext.refl _
  | exit e =>
    simp only [step, stepExit]
    cases findEntry s e with
    | none => exact Heap.Ext.refl _
    | some r =>
      dsimp only
      split_ifs
      · exact Heap.Ext.refl _
      · exact Heap.Ext.refl _
      · cases findChain s r.chain with
        | none => exact Heap.Ext.refl _
        | some ch => exact exitBody_ext ch.ss r.hooks r.ctx s.h
  | log => exact Heap.Ext.refl _
  | ident e =>
    simp only [step]
    cases findEntry s e <;> exact Heap.Ext.refl _
  | blockerr e =>
    simp only [step, stepBlockErr]
    cases findEntry s e with
    | none => exact Heap.Ext.refl _
    | some r => dsimp only; cases r.blockAt <;> exact Heap.Ext.refl _
  | globalorder => exact Heap.Ext.refl _
  | ctxq e p =>
    simp only [step]
    cases findEntry s e <;> exact Heap.Ext.refl _
  | clock t => exact Heap.Ext.refl _

theorem runOps_ext (ops : List Op) (s : State) : s.h.Ext (runOps s ops).h := by
  induction ops generalizing s with
  | nil => exact Heap.Ext.refl _
  | cons o r ih => exact (step_ext s o).trans (ih _)

theorem init_inv : ({} : Heap).Inv := ⟨by simp, by simp, by simp⟩


/-! ## no pooled result is left "blocked" between ops, absent a panic after a block -/

def Heap.Quiet (h : Heap) : Prop := ∀ t, (h.trs t).status ≠ 1

theorem newTokenResult_status1 (h : Heap) (st : Nat) (b : BErr) (hst : st ≠ 1) (t : Nat)
    (h1 : ((newTokenResult h st b).1.trs t).status = 1) : (h.trs t).status = 1 := by
  simp only [newTokenResult, allocBE, allocTR, upd] at h1
  split_ifs at h1 with e
  · exact absurd h1 hst
  · exact h1

theorem resetToBlockedWith_status1 (h : Heap) (t0 : Nat) (b : BErr) (t : Nat)
    (h1 : ((resetToBlockedWith h t0 b).trs t).status = 1) : (h.trs t).status = 1 ∨ t = t0 := by
  by_cases e : t = t0
  · exact Or.inr e
  · left
    unfold resetToBlockedWith at h1
    cases hbe : (h.trs t0).be with
    | none => simpa [hbe, allocBE, upd, e] using h1
    | some a => simpa [hbe, upd, e] using h1

theorem doBlock_status1 (c : Nat) (s : RSlot) (st : Style) (typ : Nat) (h : Heap) (t : Nat)
    (h1 : ((doBlock c s st typ h).1.trs t).status = 1) : (h.trs t).status = 1 ∨ t = (doBlock c s st typ h).2 := by
  have hfresh : ((newTokenResult h 1 (blockVal s typ)).1.trs t).status = 1 →
      (h.trs t).status = 1 ∨ t = (newTokenResult h 1 (blockVal s typ)).2 := by
    intro h1
    by_cases e : t = h.ntr
    · right; simpa [newTokenResult, allocBE, allocTR] using e
    · left; simpa [newTokenResult, allocBE, allocTR, upd, e] using h1
  have hreset : ∀ t0, ((resetToPass h t0).trs t).status = 1 → (h.trs t).status = 1 := by
    intro t0 h2
    by_cases e : t = t0
    · simp [resetToPass, upd, e] at h2
    · simpa [resetToPass, upd, e] using h2
  cases st <;> first | exact resetToBlockedWith_status1 h _ _ t h1 | exact hfresh h1 | exact (resetToBlockedWith_status1 (resetToPass h (h.ctxs c)) (h.ctxs c) _ t h1).imp_left (hreset _)

theorem runRules_status1 (c : Nat) (rs : List RSlot) (h : Heap) (t : Nat)
    (h1 : ((runRules c rs h).1.trs t).status = 1) :
    (h.trs t).status = 1 ∨ (runRules c rs h).2.2.2 = .blocked t := by
  induction rs generalizing h with
  | nil => exact Or.inl h1
  | cons s r ih =>
    cases hb : s.beh with
    | panic => left; simpa [runRules, hb] using h1
    | block st typ =>
      have := doBlock_status1 c s st typ h t (by simpa [runRules, hb] using h1)
      rcases this with h | h
      · exact Or.inl h
      · right; simp [runRules, hb, h]
    | wait =>
      rcases ih (newTokenResult h 2 {}).1 (by simpa [runRules, hb] using h1) with h' | h'
      · exact Or.inl (newTokenResult_status1 h 2 {} (by decide) t h')
      · right; simpa [runRules, hb] using h'
    | pass =>
      rcases ih (newTokenResult h 0 {}).1 (by simpa [runRules, hb] using h1) with h' | h'
      · exact Or.inl (newTokenResult_status1 h 0 {} (by decide) t h')
      · right; simpa [runRules, hb] using h'
    | nil =>
      rcases ih h (by simpa [runRules, hb] using h1) with h' | h'
      · exact Or.inl h'
      · right; simpa [runRules, hb] using h'

theorem runRules_blocked_stop (c : Nat) (rs : List RSlot) (h : Heap) (t : Nat)
    (ho : (runRules c rs h).2.2.2 = .blocked t) : (stopOf rs).verdict.isSome = true := by
  cases hs : stopOf rs with
  | allPass => rw [runRules_allPass c rs h hs] at ho; simp at ho
  | panic => rw [runRules_panic c rs h hs] at ho; simp at ho
  | block s typ => simp [Stop.verdict]

/-- after `SlotChain.Entry` on a quiet heap only the context's own result can be marked blocked, and only because a rule
    slot blocked -/
theorem chainEntry_status1 (ch : ChainDef) (c : Nat) (h : Heap) (hq : h.Quiet) (t : Nat)
    (h1 : ((chainEntry ch c h).1.trs t).status = 1) :
    (chainEntry ch c h).1.ctxs c = t ∧ prepPanics ch.ps = false ∧ (stopOf ch.rs).verdict.isSome = true := by
  unfold chainEntry at h1 ⊢
  by_cases hp : prepPanics ch.ps = true
  · have := runPrep_panic _ hp
    rcases hrp : runPrep ch.ps with ⟨l1, k1, p1⟩
    rw [hrp] at this h1
    simp only at this
    subst this
    simp only [if_true] at h1
    exact absurd h1 (hq t)
  · simp only [Bool.not_eq_true] at hp
    simp only [runPrep_noPanic _ hp, Bool.false_eq_true, if_false] at h1 ⊢
    have hs1 := runRules_status1 c ch.rs h t
    have hbs := runRules_blocked_stop c ch.rs h
    rcases hrr : runRules c ch.rs h with ⟨h2, l2, k2, ro⟩
    rw [hrr] at h1 hs1 hbs
    simp only at h1 hs1 hbs
    cases ro with
    | panic =>
      simp only at h1
      rcases hs1 h1 with h' | h'
      · exact absurd h' (hq t)
      · simp at h'
    | allPass =>
      simp only at h1
      by_cases e : t = h2.ctxs c
      · simp [resetToPass, upd, e] at h1
      · have : (h2.trs t).status = 1 := by simpa [resetToPass, upd, e] using h1
        rcases hs1 this with h' | h'
        · exact absurd h' (hq t)
        · simp at h'
    | blocked t0 =>
      simp only at h1 ⊢
      rcases hs1 h1 with h' | h'
      · exact absurd h' (hq t)
      · simp only [RuleOut.blocked.injEq] at h'
        subst h'
        exact ⟨by simp [upd], hp, hbs t0 rfl⟩

theorem poolGet_quiet (h : Heap) (hq : h.Quiet) : (poolGet h).1.Quiet := by
  intro t h1
  unfold poolGet at h1
  cases hp : h.priv with
  | some c => simp [hp] at h1; exact hq t h1
  | none =>
    cases hs : h.shared with
    | cons c r => simp [hp, hs] at h1; exact hq t h1
    | nil =>
      simp only [hp, hs] at h1
      exact hq t (newTokenResult_status1 h 0 {} (by decide) t h1)

theorem refurbish_trs (h : Heap) (c : Nat) : (refurbish h c).trs = upd h.trs (h.ctxs c) { status := 0, be := none } := by
  unfold refurbish poolPut resetToPass
  cases h.priv <;> rfl

theorem refurbish_quiet (h : Heap) (c : Nat) (hq : h.Quiet) : (refurbish h c).Quiet := by
  intro t h1
  rw [refurbish_trs] at h1
  by_cases e : t = h.ctxs c
  · simp [upd, e] at h1
  · exact hq t (by simpa [upd, e] using h1)

theorem exitBody_quiet (ss : List SSlot) (hooks : Hooks) (c : Nat) (h : Heap) (hq : h.Quiet) :
    (exitBody ss hooks c h).1.Quiet := by
  simpa [exitBody] using refurbish_quiet h c hq

theorem apiEntry_quiet (ch : ChainDef) (h : Heap) (hq : h.Quiet) (hbp : blockPanics ch = false) :
    (apiEntry ch h).1.Quiet := by
  have hg := poolGet_quiet h hq
  cases hp : entryPanics ch with
  | true =>
    intro t h1
    unfold apiEntry at h1
    rcases hpg : poolGet h with ⟨hh, c⟩
    rw [hpg] at hg h1
    dsimp only at hg h1
    have hn := chainEntry_panics ch c hh hp
    have hs1 := chainEntry_status1 ch c hh hg t
    rcases hce : chainEntry ch c hh with ⟨h2, l, ks, r⟩
    rw [hce] at hn hs1 h1
    simp only at hn hs1 h1
    subst hn
    simp only at h1
    obtain ⟨_, e2, e3⟩ := hs1 h1
    have h3 : statPanics (stopOf ch.rs).blk ch.ss = false := by simpa [blockPanics, e2, e3] using hbp
    have : entryPanics ch = false := by
      cases hs : stopOf ch.rs with
      | allPass => simp [hs, Stop.verdict] at e3
      | panic => simp [hs, Stop.verdict] at e3
      | block s typ => simp only [entryPanics, e2, h3]; simp [hs, Stop.isPanic]
    rw [this] at hp; exact absurd hp (by simp)
  | false =>
    cases hs : stopOf ch.rs with
    | panic => have := (entryPanics_false ch hp).2.1; simp [hs, Stop.isPanic] at this
    | allPass =>
      intro t h1
      have h4 := (apiEntry_pass ch h hp hs).2.2
      unfold apiEntry at h1 h4
      rcases hpg : poolGet h with ⟨hh, c⟩
      rw [hpg] at hg h1 h4
      dsimp only at hg h1 h4
      obtain ⟨h1', _, h3'⟩ := entryPanics_false ch hp
      rw [hs] at h3'
      obtain ⟨e1, e2, e3, e4⟩ := chainEntry_pass ch c hh h1' hs h3'
      have hs1 := chainEntry_status1 ch c hh hg t
      rcases hce : chainEntry ch c hh with ⟨h2, l, ks, r⟩
      rw [hce] at e3 e4 hs1 h1
      simp only at e3 e4 hs1 h1
      subst e3
      have hnb : isBlockedTR h2 (h2.ctxs c) = false := by simp [isBlockedTR, e4]
      simp only [hnb, Bool.false_eq_true, if_false] at h1
      obtain ⟨e, _, _⟩ := hs1 h1
      rw [← e] at h1; rw [e4] at h1; exact absurd h1 (by decide)
    | block s typ =>
      intro t h1
      unfold apiEntry at h1
      rcases hpg : poolGet h with ⟨hh, c⟩
      rw [hpg] at hg h1
      dsimp only at hg h1
      obtain ⟨h1', _, h3'⟩ := entryPanics_false ch hp
      rw [hs] at h3'
      obtain ⟨e1, e2, e3, e4, e5⟩ := chainEntry_block ch c hh s typ h1' hs h3'
      have hs1 := chainEntry_status1 ch c hh hg t
      rcases hce : chainEntry ch c hh with ⟨h2, l, ks, r⟩
      rw [hce] at e3 e4 e5 hs1 h1
      simp only at e3 e4 e5 hs1 h1
      subst e3
      have hb : isBlockedTR h2 (h2.ctxs c) = true := by simp [isBlockedTR, e4]
      simp only [hb, if_true, e5] at h1
      simp only [exitBody, allocBE, refurbish_trs] at h1
      by_cases e : t = h2.ctxs c
      · simp [upd, e] at h1
      · have : (h2.trs t).status = 1 := by simpa [upd, e] using h1
        exact e (hs1 this).1.symm

theorem addSlot_quiet (h : Heap) (ch : ChainDef) (x : SlotSpec) (hq : h.Quiet) : (addSlot h ch x).1.Quiet := by
  cases x with
  | p x => exact hq
  | s x => exact hq
  | r x =>
    simp only [addSlot]
    split_ifs
    · intro t h1; exact hq t (newTokenResult_status1 h 0 {} (by decide) t h1)
    · exact hq

theorem addSlots_quiet (xs : List SlotSpec) (h : Heap) (ch : ChainDef) (hq : h.Quiet) : (addSlots xs h ch).1.Quiet := by
  induction xs generalizing h ch with
  | nil => exact hq
  | cons x r ih =>
    unfold addSlots
    have := addSlot_quiet h ch x hq
    rcases hx : addSlot h ch x with ⟨h1, ch1⟩
    rw [hx] at this
    exact ih h1 ch1 this


@[simp] theorem setChain_lastLog (s : State) (n : String) (ch : ChainDef) : (setChain s n ch).lastLog = s.lastLog := rfl
@[simp] theorem setEntry_lastLog (s : State) (r : EntryRec) : (setEntry s r).lastLog = s.lastLog := rfl

/-- the op is not an `Entry` on a chain where a statistic slot panics after a rule slot blocked -/
def Op.blockPanicFree (s : State) : Op → Prop
  | .entry _ n => ∀ ch, findChain s n = some ch → blockPanics ch = false
  | _ => True

theorem step_quiet (s : State) (op : Op) (hq : s.h.Quiet) (hop : op.blockPanicFree s) : (step s op).1.h.Quiet := by
  cases op with
  | chain n slots =>
    simp only [step, stepChain]
    cases findChain s n with
    | some _ => exact hq
    | none => exact addSlots_quiet slots s.h {} hq
  | add n slot =>
    simp only [step, stepAdd]
    cases findChain s n with
    | none => exact hq
    | some ch => exact addSlot_quiet s.h ch slot hq
  | entry e n =>
    simp only [step, stepEntry]
    cases findEntry s e with
    | some _ => exact hq
    | none =>
      cases hc : findChain s n with
      | none => exact hq
      | some ch =>
        have := apiEntry_quiet ch s.h hq (hop ch hc)
        simp only [recordEntry]
        cases (apiEntry ch s.h).2.2 <;> exact this
  | whenexit e id b =>
    simp only [step, stepWhenExit]
    cases findEntry s e with
    | none => exact hq
    | some r =>
      dsimp only
      split_ifs <;> exact hq
  | exit e =>
    simp only [step, stepExit]
    cases findEntry s e with
    | none => exact hq
    | some r =>
      dsimp only
      split_ifs
      · exact hq
      · exact hq
      · cases findChain s r.chain with
        | none => exact hq
        | some ch => exact exitBody_quiet ch.ss r.hooks r.ctx s.h hq
  | log => exact hq
  | ident e =>
    simp only [step]
    cases findEntry s e <;> exact hq
  | blockerr e =>
    simp only [step, stepBlockErr]
    cases findEntry s e with
    | none => exact hq
    | some r => dsimp only; cases r.blockAt <;> exact hq
  | globalorder => exact hq
  | ctxq e p =>
    simp only [step]
    cases findEntry s e <;> exact hq
  | clock t => exact hq

theorem stepExit_log (s : State) (e : String) (r : EntryRec) (ch : ChainDef) (l : List Call) (hq : s.h.Quiet)
    (hr : findEntry s e = some r) (hnb : r.blockAt = none) (hne : r.exited = false)
    (hc : findChain s r.chain = some ch) (hl : specExitLog ch.ss r.hooks = some l) :
    (stepExit s e).1.lastLog = l ∧ (stepExit s e).2 = .ok := by
  have hb : isBlockedTR s.h (s.h.ctxs r.ctx) = false := by
    have := hq (s.h.ctxs r.ctx)
    simp [isBlockedTR, this]
  simp [stepExit, hr, hnb, hne, hc, exitBody_log ch.ss r.hooks r.ctx s.h hb l hl]

theorem init_quiet : ({} : Heap).Quiet := by intro t; simp


/-! ## the chains in the model state are the stable sorts of their insertion histories -/

/-- forget the address of the slot-owned result object (the only thing the model adds to a slot) -/
def RSlot.core (s : RSlot) : RSlot := { s with own := 0 }
def ChainDef.core (ch : ChainDef) : ChainDef := { ch with rs := ch.rs.map RSlot.core }

theorem insertSlot_map {α β : Type} (oa : α → Nat) (ob : β → Nat) (f : α → β) (hf : ∀ a, ob (f a) = oa a)
    (x : α) (l : List α) : (insertSlot oa x l).map f = insertSlot ob (f x) (l.map f) := by
  induction l with
  | nil => rfl
  | cons y ys ih =>
    simp only [insertSlot, List.map_cons, hf]
    split_ifs
    · simp [ih]
    · simp

theorem addAll_map {α β : Type} (oa : α → Nat) (ob : β → Nat) (f : α → β) (hf : ∀ a, ob (f a) = oa a)
    (xs : List α) : (addAll oa xs).map f = addAll ob (xs.map f) := by
  induction xs using List.reverseRecOn with
  | nil => rfl
  | append_singleton r x ih =>
    rw [addAll_append, List.map_append, List.map_singleton, addAll_append, ← ih, insertSlot_map oa ob f hf]

/-- the heap-free effect of adding a slot -/
def addPure (ch : ChainDef) : SlotSpec → ChainDef
  | .p x => { ch with ps := insertSlot (·.order) x ch.ps }
  | .r x => { ch with rs := insertSlot (·.order) x.core ch.rs }
  | .s x => { ch with ss := insertSlot (·.order) x ch.ss }

theorem addSlot_core (h : Heap) (ch : ChainDef) (x : SlotSpec) : (addSlot h ch x).2.core = addPure ch.core x := by
  cases x with
  | p x => rfl
  | s x => rfl
  | r x =>
    simp only [addSlot]
    split_ifs
    · simp only [ChainDef.core, addPure]
      rw [insertSlot_map (·.order) (·.order) RSlot.core (fun _ => rfl)]
      rfl
    · simp only [ChainDef.core, addPure]
      rw [insertSlot_map (·.order) (·.order) RSlot.core (fun _ => rfl)]

theorem addSlots_core (xs : List SlotSpec) (h : Heap) (ch : ChainDef) :
    (addSlots xs h ch).2.core = xs.foldl addPure ch.core := by
  induction xs generalizing h ch with
  | nil => rfl
  | cons x r ih =>
    unfold addSlots
    have := addSlot_core h ch x
    rcases hx : addSlot h ch x with ⟨h1, ch1⟩
    rw [hx] at this
    simp only at this
    rw [List.foldl_cons, ← this]
    exact ih h1 ch1

theorem insP_append (a b : List SlotSpec) : insP (a ++ b) = insP a ++ insP b := by simp [insP]
theorem insR_append (a b : List SlotSpec) : insR (a ++ b) = insR a ++ insR b := by simp [insR]
theorem insS_append (a b : List SlotSpec) : insS (a ++ b) = insS a ++ insS b := by simp [insS]

/-- the chain as `Add…Slot` builds it, without the heap -/
def pureChain (ins : List SlotSpec) : ChainDef :=
  { ps := addAll (·.order) (insP ins), rs := addAll (·.order) ((insR ins).map RSlot.core), ss := addAll (·.order) (insS ins) }

theorem pureChain_snoc (ins : List SlotSpec) (x : SlotSpec) : pureChain (ins ++ [x]) = addPure (pureChain ins) x := by
  cases x with
  | p x => simp [pureChain, addPure, insP, insR, insS, addAll_append]
  | r x => simp [pureChain, addPure, insP, insR, insS, addAll_append]
  | s x => simp [pureChain, addPure, insP, insR, insS, addAll_append]

theorem foldl_addPure (xs ins : List SlotSpec) : xs.foldl addPure (pureChain ins) = pureChain (ins ++ xs) := by
  induction xs generalizing ins with
  | nil => simp
  | cons x r ih => rw [List.foldl_cons, ← pureChain_snoc, ih]; simp

theorem pureChain_eq_spec (ins : List SlotSpec) : pureChain ins = (specChain ins).core := by
  simp only [pureChain, specChain, ChainDef.core, addAll_eq_stableSort]
  congr 1
  rw [← addAll_eq_stableSort, ← addAll_eq_stableSort, addAll_map (·.order) (·.order) RSlot.core (fun _ => rfl)]

theorem pureChain_nil : pureChain [] = ({} : ChainDef).core := rfl

/-- the relation kept between the model state and the reference state -/
def ChainsAgree (s : State) (s' : SState) : Prop :=
  ∀ n, (findChain s n).map ChainDef.core = (s'.findChain n).map pureChain

theorem find_filter_ne {β : Type} (l : List (String × β)) (n m : String) (e : ¬ n = m) :
    (l.filter (fun x => decide (x.1 ≠ n))).find? (fun x => decide (x.1 = m)) = l.find? (fun x => decide (x.1 = m)) := by
  induction l with
  | nil => rfl
  | cons y ys ih =>
    by_cases e1 : y.1 = n
    · have e2 : ¬ y.1 = m := fun h => e (e1.symm.trans h)
      rw [List.filter_cons, List.find?_cons]
      simp only [e1, ne_eq, not_true_eq_false, decide_false, Bool.false_eq_true, if_false]
      rw [ih]
      have : decide (n = m) = false := by simp [e]
      simp [this]
    · rw [List.filter_cons]
      simp only [ne_eq, e1, not_false_eq_true, decide_true, if_true]
      rw [List.find?_cons, List.find?_cons, ih]

theorem find_set_chain {β : Type} (l : List (String × β)) (n m : String) (v : β) :
    ((((n, v) :: l.filter (·.1 ≠ n)).find? (·.1 = m)).map (·.2)) =
      if n = m then some v else (l.find? (·.1 = m)).map (·.2) := by
  by_cases e : n = m
  · simp [e]
  · rw [List.find?_cons]
    simp only [e, decide_false, if_false]
    rw [find_filter_ne l n m e]

theorem findChain_setChain (s : State) (n m : String) (ch : ChainDef) :
    findChain (setChain s n ch) m = if n = m then some ch else findChain s m := by
  simp only [findChain, setChain]
  exact find_set_chain s.chains n m ch

theorem sfindChain_setChain (s : SState) (n m : String) (ins : List SlotSpec) :
    (s.setChain n ins).findChain m = if n = m then some ins else s.findChain m := by
  simp only [SState.findChain, SState.setChain]
  exact find_set_chain s.chains n m ins

theorem ChainsAgree.of_chains {s t : State} {s' t' : SState} (h : ChainsAgree s s')
    (e1 : t.chains = s.chains) (e2 : t'.chains = s'.chains) : ChainsAgree t t' := by
  intro n
  have := h n
  simpa [findChain, SState.findChain, e1, e2] using this

theorem recordEntry_chains (s : State) (e n : String) (ch : ChainDef) (r : Heap × List Call × EntryRes) :
    (recordEntry s e n ch r).1.chains = s.chains := by
  unfold recordEntry
  cases r.2.2 <;> rfl

theorem step_agree (s : State) (s' : SState) (op : Op) (h : ChainsAgree s s') :
    ChainsAgree (step s op).1 (sstep s' op).1 := by
  cases op with
  | chain n slots =>
    simp only [step, stepChain, sstep]
    have hn := h n
    cases h1 : findChain s n with
    | some ch =>
      rw [h1] at hn
      cases h2 : s'.findChain n with
      | none => simp [h2] at hn
      | some _ => exact h
    | none =>
      rw [h1] at hn
      cases h2 : s'.findChain n with
      | some _ => simp [h2] at hn
      | none =>
        intro m
        rw [findChain_setChain, sfindChain_setChain]
        by_cases e : n = m
        · simp only [e, if_true, Option.map_some]
          rw [addSlots_core, ← pureChain_nil, foldl_addPure]; simp
        · simp only [e, if_false]; exact h m
  | add n slot =>
    simp only [step, stepAdd, sstep]
    have hn := h n
    cases h1 : findChain s n with
    | none =>
      rw [h1] at hn
      cases h2 : s'.findChain n with
      | some _ => simp [h2] at hn
      | none => exact h
    | some ch =>
      rw [h1] at hn
      cases h2 : s'.findChain n with
      | none => simp [h2] at hn
      | some ins =>
        rw [h2] at hn
        simp only [Option.map_some, Option.some.injEq] at hn
        intro m
        rw [findChain_setChain, sfindChain_setChain]
        by_cases e : n = m
        · simp only [e, if_true, Option.map_some]
          rw [addSlot_core, hn, pureChain_snoc]
        · simp only [e, if_false]; exact h m
  | entry e n =>
    apply h.of_chains
    · simp only [step, stepEntry]
      cases findEntry s e with
      | some _ => rfl
      | none =>
        cases findChain s n with
        | none => rfl
        | some ch => exact recordEntry_chains _ _ _ _ _
    · simp only [sstep]
      cases s'.findEntry e with
      | some _ => rfl
      | none =>
        cases s'.findChain n with
        | none => rfl
        | some ins =>
          dsimp only
          cases specVerdict (specChain ins) <;> rfl
  | whenexit e id b =>
    apply h.of_chains
    · simp only [step, stepWhenExit]
      cases findEntry s e with
      | none => rfl
      | some r => dsimp only; split_ifs <;> rfl
    · simp only [sstep]
      cases s'.findEntry e with
      | none => rfl
      | some r => dsimp only; split_ifs <;> rfl
  | exit e =>
    apply h.of_chains
    · simp only [step, stepExit]
      cases findEntry s e with
      | none => rfl
      | some r =>
        dsimp only
        split_ifs
        · rfl
        · rfl
        · cases findChain s r.chain <;> rfl
    · simp only [sstep]
      cases s'.findEntry e with
      | none => rfl
      | some r =>
        dsimp only
        by_cases h1 : r.verdict.isSome = true
        · simp only [h1, if_true]
        · by_cases h2 : r.exited = true
          · simp only [h1, h2, if_true, Bool.false_eq_true, if_false]
          · simp only [h1, h2, Bool.false_eq_true, if_false]
            cases s'.findChain r.chain <;> rfl
  | log => exact h
  | ident e =>
    apply h.of_chains
    · simp only [step]; cases findEntry s e <;> rfl
    · simp only [sstep]; cases s'.findEntry e <;> rfl
  | blockerr e =>
    apply h.of_chains
    · simp only [step, stepBlockErr]
      cases findEntry s e with
      | none => rfl
      | some r => dsimp only; cases r.blockAt <;> rfl
    · simp only [sstep]
      cases s'.findEntry e with
      | none => rfl
      | some r => dsimp only; cases r.verdict <;> rfl
  | globalorder => exact h
  | ctxq e p =>
    apply h.of_chains
    · simp only [step]; cases findEntry s e <;> rfl
    · simp only [sstep]
      cases s'.findEntry e with
      | none => rfl
      | some r => dsimp only; split_ifs <;> rfl
  | clock t => exact h

def srunOps (s : SState) (ops : List Op) : SState := ops.foldl (fun s o => (sstep s o).1) s

theorem runOps_agree (ops : List Op) (s : State) (s' : SState) (h : ChainsAgree s s') :
    ChainsAgree (runOps s ops) (srunOps s' ops) := by
  induction ops generalizing s s' with
  | nil => exact h
  | cons o r ih => exact ih _ _ (step_agree s s' o h)

theorem init_agree : ChainsAgree {} {} := by intro n; rfl


/-! ## the caller's block error, end to end -/

theorem apiEntry_blocked_held (ch : ChainDef) (h : Heap) (c a : Nat) (b : BErr)
    (hr : (apiEntry ch h).2.2 = .blocked c a b) : a ∈ (apiEntry ch h).1.held ∧ (apiEntry ch h).1.bes a = b := by
  cases hp : entryPanics ch with
  | true => obtain ⟨c', ks, e⟩ := apiEntry_panics ch h hp; rw [e] at hr; simp at hr
  | false =>
    cases hs : stopOf ch.rs with
    | allPass => rw [(apiEntry_pass ch h hp hs).2.1] at hr; simp at hr
    | panic => have := (entryPanics_false ch hp).2.1; simp [hs, Stop.isPanic] at this
    | block s typ =>
      obtain ⟨_, a', e, hb, hm⟩ := apiEntry_block ch h s typ hp hs
      rw [e] at hr
      simp only [EntryRes.blocked.injEq] at hr
      obtain ⟨_, rfl, rfl⟩ := hr
      exact ⟨hm, hb⟩

/-- every blocked entry on record points at a held block error -/
def State.EntriesHeld (s : State) : Prop := ∀ r ∈ s.entries, ∀ a, r.blockAt = some a → a ∈ s.h.held

theorem find_append_some {β : Type} (l : List β) (x : β) (p : β → Bool) (r : β) (h : l.find? p = some r) :
    (l ++ [x]).find? p = some r := by
  simp [List.find?_append, h]

/-- what `blockerr e` answers in state `s`: `none` = `e` is not a blocked entry -/
def blockErrOf (s : State) (e : String) : Option BErr :=
  match findEntry s e with
  | some r => r.blockAt.map s.h.bes
  | none => none

theorem stepBlockErr_eq (s : State) (e : String) (b : BErr) (h : blockErrOf s e = some b) :
    stepBlockErr s e = (s, .berr b) := by
  unfold blockErrOf at h
  unfold stepBlockErr
  cases hf : findEntry s e with
  | none => simp [hf] at h
  | some r =>
    simp only [hf] at h ⊢
    cases hb : r.blockAt with
    | none => simp [hb] at h
    | some a => simp only [hb, Option.map_some, Option.some.injEq] at h; simp [h]

/-- where `e` is recorded as blocked at address `a` -/
def blockedAt (s : State) (e : String) (a : Nat) : Prop :=
  ∃ r, findEntry s e = some r ∧ r.blockAt = some a

theorem find_map_replace (l : List EntryRec) (r : EntryRec) (e : String) (x : EntryRec)
    (hx : l.find? (fun y => decide (y.name = e)) = some x) :
    ∃ y, (l.map fun z => if z.name = r.name then r else z).find? (fun y => decide (y.name = e)) = some y ∧
      (if e = r.name then y = r else y = x) := by
  induction l with
  | nil => simp at hx
  | cons z zs ih =>
    rw [List.find?_cons] at hx
    by_cases hz : z.name = e
    · simp only [hz, decide_true] at hx
      simp only [Option.some.injEq] at hx
      subst hx
      by_cases he : e = r.name
      · refine ⟨r, ?_, by simp [he]⟩
        simp [hz, he]
      · refine ⟨z, ?_, by simp [he]⟩
        have : ¬ z.name = r.name := fun h => he (hz.symm.trans h)
        simp [hz, he]
    · simp only [hz, decide_false] at hx
      obtain ⟨y, hy1, hy2⟩ := ih hx
      refine ⟨y, ?_, hy2⟩
      rw [List.map_cons, List.find?_cons]
      by_cases hzr : z.name = r.name
      · have : ¬ r.name = e := fun h => hz (hzr.trans h)
        simp only [hzr, if_true, this, decide_false]
        exact hy1
      · simp only [hzr, if_false, hz, decide_false]
        exact hy1

theorem findEntry_setEntry (s : State) (r : EntryRec) (e : String) (x : EntryRec) (hx : findEntry s e = some x)
    (_hr : True ∨ True) :
    ∃ y, findEntry (setEntry s r) e = some y ∧ (if e = r.name then y = r else y = x) :=
  find_map_replace s.entries r e x hx

theorem step_blockedAt (s : State) (op : Op) (e : String) (a : Nat) (h : blockedAt s e a) :
    blockedAt (step s op).1 e a := by
  obtain ⟨x, hx, hxa⟩ := h
  cases op with
  | chain n slots =>
    simp only [step, stepChain]
    cases findChain s n with
    | some _ => exact ⟨x, hx, hxa⟩
    | none => exact ⟨x, hx, hxa⟩
  | add n slot =>
    simp only [step, stepAdd]
    cases findChain s n with
    | none => exact ⟨x, hx, hxa⟩
    | some ch => exact ⟨x, hx, hxa⟩
  | entry e' n =>
    simp only [step, stepEntry]
    cases findEntry s e' with
    | some _ => exact ⟨x, hx, hxa⟩
    | none =>
      cases findChain s n with
      | none => exact ⟨x, hx, hxa⟩
      | some ch =>
        simp only [recordEntry]
        cases (apiEntry ch s.h).2.2 with
        | passed c ks => exact ⟨x, find_append_some _ _ _ _ hx, hxa⟩
        | blocked c a' b => exact ⟨x, find_append_some _ _ _ _ hx, hxa⟩
        | escaped => exact ⟨x, hx, hxa⟩
  | whenexit e' id b =>
    simp only [step, stepWhenExit]
    cases hf : findEntry s e' with
    | none => exact ⟨x, hx, hxa⟩
    | some r =>
      dsimp only
      split_ifs with hb
      · exact ⟨x, hx, hxa⟩
      · obtain ⟨y, hy1, hy2⟩ := findEntry_setEntry s { r with hooks := r.hooks ++ [(id, b)] } e x hx (Or.inr trivial)
        refine ⟨y, hy1, ?_⟩
        split_ifs at hy2 with he
        · -- e is the entry being modified: then x = r and r is not blocked — contradiction with hxa
          have hre : r.name = e' := by
            have := List.find?_some hf; simpa using this
          have : e = e' := he.trans hre
          subst this
          rw [hf] at hx
          simp only [Option.some.injEq] at hx
          subst hx
          simp [hxa] at hb
        · rw [hy2]; exact hxa
  | exit e' =>
    simp only [step, stepExit]
    cases hf : findEntry s e' with
    | none => exact ⟨x, hx, hxa⟩
    | some r =>
      dsimp only
      by_cases hb : r.blockAt.isSome = true
      · simp only [hb, if_true]; exact ⟨x, hx, hxa⟩
      · simp only [hb, Bool.false_eq_true, if_false]
        by_cases hex : r.exited = true
        · simp only [hex, if_true]; exact ⟨x, hx, hxa⟩
        · simp only [hex, Bool.false_eq_true, if_false]
          cases findChain s r.chain with
          | none => exact ⟨x, hx, hxa⟩
          | some ch =>
            dsimp only
            obtain ⟨y, hy1, hy2⟩ := findEntry_setEntry
              { s with h := (exitBody ch.ss r.hooks r.ctx s.h).1, lastLog := (exitBody ch.ss r.hooks r.ctx s.h).2 }
              { r with exited := true } e x hx (Or.inr trivial)
            refine ⟨y, hy1, ?_⟩
            split_ifs at hy2 with he
            · have hre : r.name = e' := by
                have := List.find?_some hf; simpa using this
              have : e = e' := he.trans hre
              subst this
              rw [hf] at hx
              simp only [Option.some.injEq] at hx
              subst hx
              simp [hxa] at hb
            · rw [hy2]; exact hxa
  | log => exact ⟨x, hx, hxa⟩
  | ident e' =>
    simp only [step]
    cases findEntry s e' <;> exact ⟨x, hx, hxa⟩
  | blockerr e' =>
    simp only [step, stepBlockErr]
    cases findEntry s e' with
    | none => exact ⟨x, hx, hxa⟩
    | some r => dsimp only; cases r.blockAt <;> exact ⟨x, hx, hxa⟩
  | globalorder => exact ⟨x, hx, hxa⟩
  | ctxq e' p =>
    simp only [step]
    cases findEntry s e' <;> exact ⟨x, hx, hxa⟩
  | clock t => exact ⟨x, hx, hxa⟩

theorem runOps_blockedAt (ops : List Op) (s : State) (e : String) (a : Nat) (h : blockedAt s e a) :
    blockedAt (runOps s ops) e a := by
  induction ops generalizing s with
  | nil => exact h
  | cons o r ih => exact ih _ (step_blockedAt s o e a h)

/-- a blocked `entry` op records the entry at a held address whose content is the reported block error -/
theorem stepEntry_block (s : State) (e n : String) (b : BErr) (h : (stepEntry s e n).2 = .block b) :
    ∃ a, blockedAt (stepEntry s e n).1 e a ∧ a ∈ (stepEntry s e n).1.h.held ∧ (stepEntry s e n).1.h.bes a = b := by
  unfold stepEntry at h ⊢
  cases hf : findEntry s e with
  | some _ => simp [hf] at h
  | none =>
    simp only [hf] at h ⊢
    cases hc : findChain s n with
    | none => simp [hc] at h
    | some ch =>
      simp only [hc] at h ⊢
      unfold recordEntry at h ⊢
      cases hr : (apiEntry ch s.h).2.2 with
      | passed c ks => simp [hr] at h
      | escaped => simp [hr] at h
      | blocked c a b' =>
        simp only [hr, Out.block.injEq] at h ⊢
        subst h
        obtain ⟨h1, h2⟩ := apiEntry_blocked_held ch s.h c a b' hr
        refine ⟨a, ⟨{ name := e, chain := n, ctx := c, tr := (apiEntry ch s.h).1.ctxs c, exited := true, blockAt := some a }, ?_, rfl⟩, h1, h2⟩
        unfold findEntry at hf ⊢
        simp only
        rw [List.find?_append, hf]
        simp


/-! ## the reference does not look at the address of a slot-owned result -/

theorem stopper_core (rs : List RSlot) : stopper (rs.map RSlot.core) = (stopper rs).map RSlot.core := by
  unfold stopper
  rw [List.find?_map]
  rfl

theorem ranRules_core (rs : List RSlot) : ranRules (rs.map RSlot.core) = (ranRules rs).map RSlot.core := by
  unfold ranRules
  rw [stopper_core, List.map_append]
  congr 1
  · induction rs with
    | nil => rfl
    | cons s r ih =>
      simp only [List.map_cons, List.takeWhile_cons]
      have : (RSlot.core s).beh.passes = s.beh.passes := rfl
      rw [this]
      cases s.beh.passes <;> simp [ih]
  · cases stopper rs <;> rfl

theorem stopOf_core (rs : List RSlot) :
    (stopOf (rs.map RSlot.core)).blk = (stopOf rs).blk ∧ (stopOf (rs.map RSlot.core)).isPanic = (stopOf rs).isPanic ∧
    (stopOf (rs.map RSlot.core)).verdict = (stopOf rs).verdict := by
  unfold stopOf
  rw [stopper_core]
  cases stopper rs with
  | none => exact ⟨rfl, rfl, rfl⟩
  | some s =>
    simp only [Option.map_some]
    have : (RSlot.core s).beh = s.beh := rfl
    unfold stopOfSlot
    rw [this]
    cases s.beh <;> exact ⟨rfl, rfl, rfl⟩

theorem entryPanics_core (ch : ChainDef) : entryPanics ch.core = entryPanics ch := by
  obtain ⟨h1, h2, _⟩ := stopOf_core ch.rs
  simp only [entryPanics, ChainDef.core, h1, h2]

theorem specVerdict_core (ch : ChainDef) : specVerdict ch.core = specVerdict ch := by
  unfold specVerdict
  rw [entryPanics_core]
  simp only [ChainDef.core, (stopOf_core ch.rs).2.2]

theorem hooksOfR_core (rs : List RSlot) : hooksOfR (rs.map RSlot.core) = hooksOfR rs := by
  induction rs with
  | nil => rfl
  | cons s r ih => simp only [hooksOfR, List.map_cons, List.flatMap_cons] at ih ⊢; rw [ih]; rfl

theorem specHooks_core (ch : ChainDef) : specHooks ch.core = specHooks ch := by
  simp only [specHooks, ChainDef.core, ranRules_core, hooksOfR_core]

theorem specEntryCalls_core (ch : ChainDef) : specEntryCalls ch.core = specEntryCalls ch := by
  simp only [specEntryCalls, ChainDef.core, ranRules_core, (stopOf_core ch.rs).1, List.map_map]
  rfl

theorem specEntryLog_core (ch : ChainDef) : specEntryLog ch.core = specEntryLog ch := by
  unfold specEntryLog
  rw [entryPanics_core, specHooks_core, specEntryCalls_core]
  simp only [ChainDef.core, (stopOf_core ch.rs).2.2]

theorem blockPanics_core (ch : ChainDef) : blockPanics ch.core = blockPanics ch := by
  obtain ⟨h1, _, h3⟩ := stopOf_core ch.rs
  simp only [blockPanics, ChainDef.core, h1, h3]

theorem apiEntry_verdict (ch : ChainDef) (h : Heap) : (apiEntry ch h).2.2.verdict = specVerdict ch := by
  unfold specVerdict
  cases hp : entryPanics ch with
  | true => obtain ⟨c, ks, e⟩ := apiEntry_panics ch h hp; rw [e]; rfl
  | false =>
    cases hs : stopOf ch.rs with
    | allPass => rw [(apiEntry_pass ch h hp hs).2.1]; rfl
    | block s typ => obtain ⟨_, a, e, _⟩ := apiEntry_block ch h s typ hp hs; rw [e]; rfl
    | panic => have := (entryPanics_false ch hp).2.1; simp [hs, Stop.isPanic] at this

/-- whenever the reference claims a log for `Entry`, the model produces it -/
theorem apiEntry_log_spec (ch : ChainDef) (h : Heap) (l : List Call) (hl : specEntryLog ch = some l) :
    (apiEntry ch h).2.1 = l := by
  unfold specEntryLog at hl
  split_ifs at hl with hp hv hk
  · simp only [Bool.not_eq_true] at hp hk
    simp only [Option.some.injEq] at hl
    subst hl
    cases hs : stopOf ch.rs with
    | allPass => simp [hs, Stop.verdict] at hv
    | panic => simp [hs, Stop.verdict] at hv
    | block s typ => rw [(apiEntry_block ch h s typ hp hs).1, runHandlers_noPanic _ hk]
  · simp only [Bool.not_eq_true] at hp
    simp only [Option.some.injEq] at hl
    subst hl
    cases hs : stopOf ch.rs with
    | allPass => exact (apiEntry_pass ch h hp hs).1
    | panic => have := (entryPanics_false ch hp).2.1; simp [hs, Stop.isPanic] at this
    | block s typ => simp [hs, Stop.verdict] at hv

/-! ## the `entry` op of the model answers what the reference answers, in every reachable state -/

def NamesAgree (s : State) (s' : SState) : Prop := s.entries.map (·.name) = s'.entries.map (·.name)

theorem find_isSome_names {β : Type} (l : List β) (nm : β → String) (e : String) :
    (l.find? (fun x => decide (nm x = e))).isSome = decide (e ∈ l.map nm) := by
  induction l with
  | nil => simp
  | cons y ys ih =>
    rw [List.find?_cons]
    by_cases h : nm y = e
    · simp [h]
    · have : ¬ e = nm y := fun h' => h h'.symm
      simp [h, ih, this]

theorem NamesAgree.find {s : State} {s' : SState} (h : NamesAgree s s') (e : String) :
    (findEntry s e).isSome = (s'.findEntry e).isSome := by
  unfold findEntry SState.findEntry
  rw [find_isSome_names s.entries (·.name) e, find_isSome_names s'.entries (·.name) e, h]

theorem map_replace_names (l : List EntryRec) (r : EntryRec) :
    (l.map fun x => if x.name = r.name then r else x).map (·.name) = l.map (·.name) := by
  induction l with
  | nil => rfl
  | cons y ys ih =>
    simp only [List.map_cons, ih]
    by_cases h : y.name = r.name <;> simp [h]

theorem smap_replace_names (l : List SEntry) (r : SEntry) :
    (l.map fun x => if x.name = r.name then r else x).map (·.name) = l.map (·.name) := by
  induction l with
  | nil => rfl
  | cons y ys ih =>
    simp only [List.map_cons, ih]
    by_cases h : y.name = r.name <;> simp [h]

theorem stepEntry_matches (s : State) (s' : SState) (e n : String) (hc : ChainsAgree s s') (hn : NamesAgree s s') :
    (stepEntry s e n).2 = (sstep s' (.entry e n)).2 ∧
    (∀ l, (sstep s' (.entry e n)).1.lastLog = some l → (stepEntry s e n).1.lastLog = l ∨ (stepEntry s e n).2 = .bad) ∧
    NamesAgree (stepEntry s e n).1 (sstep s' (.entry e n)).1 := by
  have hf := hn.find e
  have hcn := hc n
  unfold stepEntry
  simp only [sstep]
  cases h1 : findEntry s e with
  | some r =>
    rw [h1] at hf
    cases h2 : s'.findEntry e with
    | none => simp [h2] at hf
    | some r' => exact ⟨rfl, fun _ _ => Or.inr rfl, hn⟩
  | none =>
    rw [h1] at hf
    cases h2 : s'.findEntry e with
    | some r' => simp [h2] at hf
    | none =>
      cases h3 : findChain s n with
      | none =>
        rw [h3] at hcn
        cases h4 : s'.findChain n with
        | some _ => simp [h4] at hcn
        | none => exact ⟨rfl, fun _ _ => Or.inr rfl, hn⟩
      | some ch =>
        rw [h3] at hcn
        cases h4 : s'.findChain n with
        | none => simp [h4] at hcn
        | some ins =>
          rw [h4] at hcn
          simp only [Option.map_some, Option.some.injEq] at hcn
          have hcore : ch.core = (specChain ins).core := by rw [hcn, pureChain_eq_spec]
          have hv : specVerdict (specChain ins) = specVerdict ch := by
            rw [← specVerdict_core, ← hcore, specVerdict_core]
          have hl : specEntryLog (specChain ins) = specEntryLog ch := by
            rw [← specEntryLog_core, ← hcore, specEntryLog_core]
          have hver := apiEntry_verdict ch s.h
          have hne := apiEntry_no_escape ch s.h
          dsimp only
          rw [hv, hl]
          unfold recordEntry
          cases hr : (apiEntry ch s.h).2.2 with
          | escaped => exact absurd hr hne
          | passed c ks =>
            rw [hr] at hver
            simp only [EntryRes.verdict] at hver
            rw [← hver]
            refine ⟨rfl, ?_, ?_⟩
            · intro l hl'; left; exact apiEntry_log_spec ch s.h l hl'
            · simp only [NamesAgree, List.map_append, List.map_cons, List.map_nil]; exact congrArg (· ++ [e]) hn
          | blocked c a b =>
            rw [hr] at hver
            simp only [EntryRes.verdict] at hver
            rw [← hver]
            refine ⟨rfl, ?_, ?_⟩
            · intro l hl'; left; exact apiEntry_log_spec ch s.h l hl'
            · simp only [NamesAgree, List.map_append, List.map_cons, List.map_nil]; exact congrArg (· ++ [e]) hn


theorem step_names_model (s : State) (op : Op) (hop : ∀ e n, op ≠ .entry e n) :
    (step s op).1.entries.map (·.name) = s.entries.map (·.name) := by
  cases op with
  | chain n slots => simp only [step, stepChain]; cases findChain s n <;> rfl
  | add n slot => simp only [step, stepAdd]; cases findChain s n <;> rfl
  | entry e n => exact absurd rfl (hop e n)
  | whenexit e id b =>
    simp only [step, stepWhenExit]
    cases findEntry s e with
    | none => rfl
    | some r =>
      dsimp only
      split_ifs
      · rfl
      · exact map_replace_names s.entries _
  | exit e =>
    simp only [step, stepExit]
    cases findEntry s e with
    | none => rfl
    | some r =>
      dsimp only
      by_cases h1 : r.blockAt.isSome = true
      · simp only [h1, if_true]
      · by_cases h2 : r.exited = true
        · simp only [h1, h2, if_true, Bool.false_eq_true, if_false]
        · simp only [h1, h2, Bool.false_eq_true, if_false]
          cases findChain s r.chain with
          | none => rfl
          | some ch => exact map_replace_names s.entries _
  | log => rfl
  | ident e => simp only [step]; cases findEntry s e <;> rfl
  | blockerr e =>
    simp only [step, stepBlockErr]
    cases findEntry s e with
    | none => rfl
    | some r => dsimp only; cases r.blockAt <;> rfl
  | globalorder => rfl
  | ctxq e p => simp only [step]; cases findEntry s e <;> rfl
  | clock t => rfl

theorem step_names_spec (s : SState) (op : Op) (hop : ∀ e n, op ≠ .entry e n) :
    (sstep s op).1.entries.map (·.name) = s.entries.map (·.name) := by
  cases op with
  | chain n slots => simp only [sstep]; cases s.findChain n <;> rfl
  | add n slot => simp only [sstep]; cases s.findChain n <;> rfl
  | entry e n => exact absurd rfl (hop e n)
  | whenexit e id b =>
    simp only [sstep]
    cases s.findEntry e with
    | none => rfl
    | some r =>
      dsimp only
      split_ifs
      · rfl
      · exact smap_replace_names s.entries _
  | exit e =>
    simp only [sstep]
    cases s.findEntry e with
    | none => rfl
    | some r =>
      dsimp only
      by_cases h1 : r.verdict.isSome = true
      · simp only [h1, if_true]
      · by_cases h2 : r.exited = true
        · simp only [h1, h2, if_true, Bool.false_eq_true, if_false]
        · simp only [h1, h2, Bool.false_eq_true, if_false]
          cases s.findChain r.chain with
          | none => rfl
          | some ins => exact smap_replace_names s.entries _
  | log => rfl
  | ident e => simp only [sstep]; cases s.findEntry e <;> rfl
  | blockerr e =>
    simp only [sstep]
    cases s.findEntry e with
    | none => rfl
    | some r => dsimp only; cases r.verdict <;> rfl
  | globalorder => rfl
  | ctxq e p =>
    simp only [sstep]
    cases s.findEntry e with
    | none => rfl
    | some r => dsimp only; split_ifs <;> rfl
  | clock t => rfl

theorem step_names (s : State) (s' : SState) (op : Op) (hc : ChainsAgree s s') (hn : NamesAgree s s') :
    NamesAgree (step s op).1 (sstep s' op).1 := by
  by_cases h : ∃ e n, op = .entry e n
  · obtain ⟨e, n, rfl⟩ := h
    exact (stepEntry_matches s s' e n hc hn).2.2
  · have h' : ∀ e n, op ≠ .entry e n := fun e n he => h ⟨e, n, he⟩
    unfold NamesAgree
    rw [step_names_model s op h', step_names_spec s' op h']
    exact hn

theorem runOps_agree_names (ops : List Op) (s : State) (s' : SState) (hc : ChainsAgree s s') (hn : NamesAgree s s') :
    ChainsAgree (runOps s ops) (srunOps s' ops) ∧ NamesAgree (runOps s ops) (srunOps s' ops) := by
  induction ops generalizing s s' with
  | nil => exact ⟨hc, hn⟩
  | cons o r ih => exact ih _ _ (step_agree s s' o hc) (step_names s s' o hc hn)

end Sentinel.Chain
