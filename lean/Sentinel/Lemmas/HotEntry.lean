import Mathlib.Tactic
import Sentinel.Lemmas.HotSim
/-!
# From entries (`slotCheck`) to the calls one controller receives

For a resource whose only hotspot rule is `c`, an `Entry` is one `check` of `c` on the value the rule extracts from the
call's arguments / attachments (or nothing at all when it extracts none).  `decisions_single` turns a history of entries
into the history of `PerformChecking` calls of `c`, to which the per-controller theorems apply.
-/
namespace Sentinel.Hot

/-- one controller over a history of calls, whatever its control behaviour -/
def runCtl : Ctl → List Req → List (Req × Res)
  | _, [] => []
  | c, q :: qs => (q, (check c q.t q.v q.b).2) :: runCtl (check c q.t q.v q.b).1 qs

theorem check_reject (c : Ctl) (h : c.rule.cb = 0) (t : Int) (v : Val) (b : Int) :
    check c t v b = ({ c with time := (rejectCheck c.rule c.time c.token t v b).1,
                              token := (rejectCheck c.rule c.time c.token t v b).2.1 },
                     (rejectCheck c.rule c.time c.token t v b).2.2) := by
  unfold check
  rw [if_pos h]

theorem check_throttle (c : Ctl) (h : c.rule.cb ≠ 0) (t : Int) (v : Val) (b : Int) :
    check c t v b = ({ c with time := (throttleCheck c.rule c.time t v b).1 }, (throttleCheck c.rule c.time t v b).2) := by
  unfold check
  rw [if_neg h]

theorem check_rule (c : Ctl) (t : Int) (v : Val) (b : Int) :
    (check c t v b).1.rule = c.rule ∧ (check c t v b).1.gid = c.gid := by
  by_cases h : c.rule.cb = 0
  · rw [check_reject c h]; exact ⟨rfl, rfl⟩
  · rw [check_throttle c h]; exact ⟨rfl, rfl⟩

theorem runCtl_reject : ∀ (qs : List Req) (c : Ctl), c.rule.cb = 0 →
    runCtl c qs = runReject c.rule c.time c.token qs := by
  intro qs
  induction qs with
  | nil => intro _ _; rfl
  | cons q qs ih =>
    intro c h
    simp only [runCtl, runReject]
    rw [check_reject c h]
    dsimp only
    congr 1
    exact ih _ h

theorem runCtl_throttle : ∀ (qs : List Req) (c : Ctl), c.rule.cb ≠ 0 →
    runCtl c qs = runThrottle c.rule c.time qs := by
  intro qs
  induction qs with
  | nil => intro _ _; rfl
  | cons q qs ih =>
    intro c h
    simp only [runCtl, runThrottle]
    rw [check_throttle c h]
    dsimp only
    congr 1
    exact ih _ h

/-- controllers of other resources are passed over -/
theorem slotCheck_skip (res : String) (args : List Val) (atts : List (String × Val)) (b : Int) :
    ∀ (cs : List Ctl) (now : Int) (sl : List Int), (∀ d ∈ cs, d.rule.res ≠ res) →
      slotCheck res args atts b cs now sl = (cs, now, { sleeps := sl }) := by
  intro cs
  induction cs with
  | nil => intro _ _ _; rfl
  | cons d ds ih =>
    intro now sl h
    unfold slotCheck
    rw [if_pos (h d List.mem_cons_self), ih now sl (fun x hx => h x (List.mem_cons_of_mem _ hx))]

/-- what the slot reports when the resource's only controller decides `r` -/
def outOf (gid : Nat) (sl : List Int) : Res → Out
  | .pass => { sleeps := sl }
  | .block => { blocked := some gid, sleeps := sl }
  | .spin => { blocked := some gid, spin := true, sleeps := sl }
  | .wait ms => if w (ms * 1000000) > 0 then { sleeps := sl ++ [w (ms * 1000000)] } else { sleeps := sl }

/-- an entry on a resource whose only controller is `c` -/
theorem slotCheck_single (res : String) (args : List Val) (atts : List (String × Val)) (b : Int)
    (c : Ctl) (post : List Ctl) (hc : c.rule.res = res) (hpost : ∀ d ∈ post, d.rule.res ≠ res) :
    ∀ (pre : List Ctl) (now : Int) (sl : List Int), (∀ d ∈ pre, d.rule.res ≠ res) →
      (slotCheck res args atts b (pre ++ c :: post) now sl).1 =
        (match extract c.rule args atts with
          | none => pre ++ c :: post
          | some v => pre ++ (check c (now / 1000000) v b).1 :: post) ∧
      (slotCheck res args atts b (pre ++ c :: post) now sl).2.2 =
        (match extract c.rule args atts with
          | none => { sleeps := sl }
          | some v => outOf c.gid sl (check c (now / 1000000) v b).2) := by
  intro pre
  induction pre with
  | nil =>
    intro now sl _
    simp only [List.nil_append]
    unfold slotCheck
    have hn : ¬ c.rule.res ≠ res := not_not.mpr hc
    rw [if_neg hn]
    cases he : extract c.rule args atts with
    | none =>
      dsimp only
      rw [slotCheck_skip res args atts b post now sl hpost]
      exact ⟨rfl, rfl⟩
    | some v =>
      dsimp only
      cases hk : check c (now / 1000000) v b with
      | mk c' r =>
        cases r with
        | pass => dsimp only; rw [slotCheck_skip res args atts b post now sl hpost]; exact ⟨rfl, rfl⟩
        | block => exact ⟨rfl, rfl⟩
        | spin => exact ⟨rfl, rfl⟩
        | wait ms =>
          dsimp only [outOf]
          by_cases hw : w (ms * 1000000) > 0
          · rw [if_pos hw, if_pos hw, slotCheck_skip res args atts b post _ _ hpost]; exact ⟨rfl, rfl⟩
          · rw [if_neg hw, if_neg hw, slotCheck_skip res args atts b post _ _ hpost]; exact ⟨rfl, rfl⟩
  | cons d ds ih =>
    intro now sl h
    have hd := h d List.mem_cons_self
    obtain ⟨i1, i2⟩ := ih now sl (fun x hx => h x (List.mem_cons_of_mem _ hx))
    simp only [List.cons_append]
    unfold slotCheck
    rw [if_pos hd]
    dsimp only
    rw [i1, i2]
    cases extract c.rule args atts <;> exact ⟨rfl, rfl⟩

/-! ### histories of entries on one resource -/

/-- an `Entry` on the resource: the clock reading at which it is made, the arguments of all its `WithArgs` options
    appended, the attachments its options resolve to, the batch count -/
structure TEntry where
  now : Int
  args : List Val
  atts : List (String × Val)
  b : Int

/-- the slot over a history of entries on `res`, each made at its own clock reading -/
def runRes (res : String) : List Ctl → List TEntry → List (TEntry × Out)
  | _, [] => []
  | cs, e :: es =>
    (e, (slotCheck res e.args e.atts e.b cs e.now []).2.2) :: runRes res (slotCheck res e.args e.atts e.b cs e.now []).1 es

/-- the entry carries value `v` for the rule -/
def carries (r : Rule) (v : Val) (e : TEntry) : Bool := extract r e.args e.atts == some v

/-- the `PerformChecking` calls the rule's controller receives -/
def callsOf (r : Rule) (es : List TEntry) : List Req :=
  es.filterMap fun e => (extract r e.args e.atts).map fun v => ⟨e.now / 1000000, v, e.b⟩

/-- outcomes of the entries that carry `v` -/
def outcomesFor (r : Rule) (v : Val) (l : List (TEntry × Out)) : List Out :=
  (l.filter fun p => carries r v p.1).map (·.2)

theorem decisions_single (res : String) (v : Val) (pre post : List Ctl) (hpre : ∀ d ∈ pre, d.rule.res ≠ res)
    (hpost : ∀ d ∈ post, d.rule.res ≠ res) : ∀ (es : List TEntry) (c : Ctl), c.rule.res = res →
    outcomesFor c.rule v (runRes res (pre ++ c :: post) es) =
      (forVal v (runCtl c (callsOf c.rule es))).map fun p => outOf c.gid [] p.2 := by
  intro es
  induction es with
  | nil => intro _ _; rfl
  | cons e es ih =>
    intro c hc
    obtain ⟨s1, s2⟩ := slotCheck_single res e.args e.atts e.b c post hc hpost pre e.now [] hpre
    simp only [runRes, outcomesFor]
    rw [s1, s2]
    cases he : extract c.rule e.args e.atts with
    | none =>
      have hcar : carries c.rule v e = false := by simp [carries, he]
      have hcalls : callsOf c.rule (e :: es) = callsOf c.rule es := by simp [callsOf, he]
      dsimp only
      rw [List.filter_cons, hcar, hcalls]
      exact ih c hc
    | some u =>
      have hr := check_rule c (e.now / 1000000) u e.b
      have hcalls : callsOf c.rule (e :: es) = ⟨e.now / 1000000, u, e.b⟩ :: callsOf c.rule es := by
        simp [callsOf, he]
      have ih' := ih (check c (e.now / 1000000) u e.b).1 (by rw [hr.1]; exact hc)
      rw [hr.1, hr.2] at ih'
      unfold outcomesFor at ih'
      dsimp only
      rw [hcalls]
      simp only [runCtl]
      by_cases huv : u = v
      · subst huv
        have hcar : carries c.rule u e = true := by simp [carries, he]
        rw [List.filter_cons, hcar]
        simp only [if_true, List.map_cons, forVal, List.filter_cons, decide_true]
        congr 1
      · have hcar : carries c.rule v e = false := by simp [carries, he, huv]
        rw [List.filter_cons, hcar]
        simp only [forVal, List.filter_cons, huv, decide_false, Bool.false_eq_true, if_false]
        exact ih'

/-- deleting the entries that do not carry `v` deletes exactly the calls for other values -/
theorem callsOf_filter (r : Rule) (v : Val) (es : List TEntry) :
    callsOf r (es.filter (carries r v)) = reqsOf v (callsOf r es) := by
  induction es with
  | nil => rfl
  | cons e es ih =>
    cases he : extract r e.args e.atts with
    | none =>
      have hcar : carries r v e = false := by simp [carries, he]
      rw [List.filter_cons, hcar]
      simp only [Bool.false_eq_true, if_false]
      rw [ih]; simp [callsOf, he]
    | some u =>
      by_cases huv : u = v
      · have hcar : carries r v e = true := by simp [carries, he, huv]
        rw [List.filter_cons, hcar]
        simp only [if_true]
        simp only [callsOf, List.filterMap_cons, he, Option.map_some, reqsOf, List.filter_cons, huv, decide_true, if_true]
        congr 1
      · have hcar : carries r v e = false := by simp [carries, he, huv]
        rw [List.filter_cons, hcar]
        simp only [Bool.false_eq_true, if_false]
        rw [ih]
        simp [callsOf, he, reqsOf, List.filter_cons, huv]

end Sentinel.Hot
