import Sentinel.Lemmas.FlowRejectG
/-!
# The `(k-1)·maxBatch` bound for bursts through the general slot

Reference small step `refRunSchedG`: the check phase of a caller is the whole chain walk (throttling rules may make
it sleep, which advances the shared clock), the record phase appends the arrival at the clock of that moment. The
bound is stated for the tokens admitted since the rule came into force (`born`), so it composes with reloads.
-/
namespace Sentinel.FlowReject
open Sentinel.LA

/-- tokens of the rule's own resource admitted since the controller came into force, in the window read at `ms` -/
def RCtrl.wBorn (c : RCtrl) (H : List Arrival) (ms : Nat) : Nat :=
  windowTokens (H.drop c.born) c.info.rule.res c.info.L c.info.Iv ms

theorem forall₂_mem_right {α β : Type} {R : α → β → Prop} {l1 : List α} {l2 : List β} (h : List.Forall₂ R l1 l2) {b : β}
    (hb : b ∈ l2) : ∃ a ∈ l1, R a b := by
  induction h with
  | nil => simp at hb
  | cons hab _ ih =>
    rcases List.mem_cons.mp hb with e | h'
    · subst e; exact ⟨_, List.mem_cons_self .., hab⟩
    · obtain ⟨a, ha, hr⟩ := ih h'; exact ⟨a, List.mem_cons_of_mem _ ha, hr⟩

/-- with nothing newer than `m1` in the history, reading the window later can only lower the count -/
theorem windowTokens_time_mono (H : List Arrival) (r L Iv m1 m2 : Nat) (hle : ∀ a ∈ H, a.t ≤ m1) (h12 : m1 ≤ m2) :
    windowTokens H r L Iv m2 ≤ windowTokens H r L Iv m1 := by
  unfold windowTokens
  apply refW_le_of_imp
  intro x hx hw
  have h1 : cbs L x.1 ≤ cbs L m1 := cbs_mono L (histOf_time_le H m1 r hle x hx)
  have h2 : cbs L m1 ≤ cbs L m2 := cbs_mono L h12
  exact ⟨by omega, h1⟩

/-- any window position at or after the current bucket holds at most what the current window holds -/
theorem refW_pos_le_window (H : List Arrival) (r L Iv m e : Nat) (hle : ∀ a ∈ H, a.t ≤ m) (he : cbs L m ≤ e) :
    refW L (histOf H r) (e + L - Iv) e ≤ windowTokens H r L Iv m := by
  unfold windowTokens
  apply refW_le_of_imp
  intro x hx hw
  have h1 : cbs L x.1 ≤ cbs L m := cbs_mono L (histOf_time_le H m r hle x hx)
  exact ⟨by omega, h1⟩

def WidthOkG (k : Nat) (srcOf : RuleInfo → Nat) (s : RSt) (t : Nat) (ths : List Thread) : List Nat → Prop
  | [] => True
  | i :: r => (∀ th, ths[i]? = some th → th.st = none → nParked ths < k) ∧
      WidthOkG k srcOf (refStepThreadG srcOf s t ths i).1 (refStepThreadG srcOf s t ths i).2.1 (refStepThreadG srcOf s t ths i).2.2 r

structure BurstG (c : RCtrl) (cap k B : Nat) (s : RSt) (t : Nat) (ths : List Thread) : Prop where
  small : ∀ th ∈ ths, th.b ≤ B
  le : ∀ a ∈ s.H, a.t ≤ t / nsPerMs
  has : ∃ c' ∈ s.ctrls, c'.info = c.info ∧ c'.since = c.since ∧ c'.born = c.born
  born : c.since ≤ c.born ∧ c.born ≤ s.H.length
  pot : c.wBorn s.H (t / nsPerMs) + (ths.map (pending c.info.rule.res)).sum ≤ cap + (k - 1) * B
  all : ∀ e, refW c.info.L (histOf (s.H.drop c.born) c.info.rule.res) (e + c.info.L - c.info.Iv) e ≤ cap + (k - 1) * B

theorem drop_le_of (H : List Arrival) (k m : Nat) (h : ∀ a ∈ H, a.t ≤ m) : ∀ a ∈ H.drop k, a.t ≤ m :=
  fun a ha => h a (List.mem_of_mem_drop ha)

/-- the count a controller reads dominates the tokens since `born` -/
theorem tokens_ge_wBorn (c0 : RCtrl) (H : List Arrival) (ms : Nat) (hf : c0.info.feed = c0.info.rule.res) (hsb : c0.since ≤ c0.born) :
    c0.wBorn H ms ≤ c0.tokens RuleInfo.feed H ms := by
  unfold RCtrl.wBorn RCtrl.tokens windowTokens
  rw [hf]
  cases c0.info.geom with
  | own n L => exact refW_drop_le _ H _ c0.since c0.born hsb _ _
  | view Iv => have := refW_drop_le c0.info.L H c0.info.rule.res 0 c0.born (Nat.zero_le _) (cbs c0.info.L ms + c0.info.L - c0.info.Iv) (cbs c0.info.L ms); simpa using this
  | bad => have := refW_drop_le c0.info.L H c0.info.rule.res 0 c0.born (Nat.zero_le _) (cbs c0.info.L ms + c0.info.L - c0.info.Iv) (cbs c0.info.L ms); simpa using this


theorem wBorn_append_le (c : RCtrl) (H : List Arrival) (a : Arrival) (ms : Nat) (hb : c.born ≤ H.length) :
    c.wBorn (H ++ [a]) ms ≤ c.wBorn H ms + (if a.res = c.info.rule.res then a.b else 0) := by
  unfold RCtrl.wBorn
  rw [List.drop_append_of_le_length hb]
  exact windowTokens_append_le _ a _ _ _ ms

theorem BurstG.step {c : RCtrl} {cap k B : Nat} {s : RSt} {t : Nat} {ths : List Thread}
    (bu : BurstG c cap k B s t ths) (hk : c.info.rule.kind = .reject) (hf : c.info.feed = c.info.rule.res)
    (hcap : c.info.rule.thr.cap = some cap) (i : Nat)
    (hw : ∀ th, ths[i]? = some th → th.st = none → nParked ths < k) :
    BurstG c cap k B (refStepThreadG RuleInfo.feed s t ths i).1 (refStepThreadG RuleInfo.feed s t ths i).2.1
      (refStepThreadG RuleInfo.feed s t ths i).2.2 := by
  unfold refStepThreadG
  cases hi : ths[i]? with
  | none => exact bu
  | some th =>
    have hmem : th ∈ ths := List.mem_of_getElem? hi
    have hsmall : ∀ th' : Thread, th'.b = th.b → ∀ x ∈ ths.set i th', x.b ≤ B := by
      intro th' hb x hx
      rcases List.mem_or_eq_of_mem_set hx with h | h
      · exact bu.small x h
      · subst h; rw [hb]; exact bu.small th hmem
    simp only
    cases hst : th.st with
    | none =>
      simp only
      set x := chainG (refOps RuleInfo.feed s.H) th.res th.b s.ctrls t with hx
      have htle : t ≤ x.2.1 := chainG_time_le _ th.res th.b s.ctrls t
      have hms : t / nsPerMs ≤ x.2.1 / nsPerMs := Nat.div_le_div_right htle
      have hstat := chainG_ref_static RuleInfo.feed s.H th.res th.b s.ctrls t
      obtain ⟨c0, hc0, h0i, h0s, h0b⟩ := bu.has
      have hWmono : c.wBorn s.H (x.2.1 / nsPerMs) ≤ c.wBorn s.H (t / nsPerMs) :=
        windowTokens_time_mono _ _ _ _ _ _ (drop_le_of s.H c.born _ bu.le) hms
      have hs := sum_map_set (pending c.info.rule.res) ths i th { th with st := some (x.2.2, false) } hi
      have hp0 : pending c.info.rule.res th = 0 := by simp [pending, hst]
      refine ⟨hsmall _ rfl, fun a ha => le_trans (bu.le a ha) hms, ?_, bu.born, ?_, bu.all⟩
      · obtain ⟨c1, hc1, hR⟩ := forall₂_mem_right hstat hc0
        exact ⟨c1, hc1, hR.1.trans h0i, hR.2.1.trans h0s, hR.2.2.trans h0b⟩
      · have hb := bu.pot
        by_cases hadm : x.2.2 = none ∧ th.res = c.info.rule.res
        · have hp1 : pending c.info.rule.res { th with st := some (x.2.2, false) } = th.b := by
            unfold pending; exact if_pos ⟨by rw [hadm.1], hadm.2⟩
          -- the rule was asked at some moment of the walk and had room
          have hk0 : ((refOps RuleInfo.feed s.H).rule c0).kind = .reject := by show c0.info.rule.kind = _; rw [h0i]; exact hk
          have hr0 : ((refOps RuleInfo.feed s.H).rule c0).res = th.res := by show c0.info.rule.res = _; rw [h0i]; exact hadm.2.symm
          obtain ⟨tc, h1t, h2t, hblk⟩ := chainG_none_room (refOps RuleInfo.feed s.H) th.res th.b s.ctrls t hadm.1 c0 hc0 hr0 hk0
          have hblk' : c0.info.rule.thr.exceeds (c0.tokens RuleInfo.feed s.H (tc / nsPerMs) + th.b) = false := hblk
          have hf0 : c0.info.feed = c0.info.rule.res := by rw [h0i]; exact hf
          have hsb0 : c0.since ≤ c0.born := by rw [h0s, h0b]; exact bu.born.1
          have hge := tokens_ge_wBorn c0 s.H (tc / nsPerMs) hf0 hsb0
          have hw0 : c0.wBorn s.H (tc / nsPerMs) = c.wBorn s.H (tc / nsPerMs) := by unfold RCtrl.wBorn; rw [h0i, h0b]
          have hroom : c.wBorn s.H (tc / nsPerMs) + th.b ≤ cap := by
            by_contra hxx
            have : c0.info.rule.thr.exceeds (c0.tokens RuleInfo.feed s.H (tc / nsPerMs) + th.b) = true := by
              rw [h0i]
              exact (Thr.exceeds_iff_cap _ _).mpr ⟨cap, hcap, by omega⟩
            rw [this] at hblk'; cases hblk'
          have hW2 : c.wBorn s.H (x.2.1 / nsPerMs) ≤ c.wBorn s.H (tc / nsPerMs) :=
            windowTokens_time_mono _ _ _ _ _ _
              (drop_le_of s.H c.born _ (fun a ha => le_trans (bu.le a ha) (Nat.div_le_div_right h1t))) (Nat.div_le_div_right h2t)
          have hpk := hw th hi hst
          have hpl := pending_le c.info.rule.res B ths bu.small
          have : nParked ths * B ≤ (k - 1) * B := Nat.mul_le_mul_right _ (by omega)
          dsimp only
          omega
        · have hp1 : pending c.info.rule.res { th with st := some (x.2.2, false) } = 0 := by
            unfold pending
            rw [if_neg]
            intro h
            apply hadm
            simp only [Option.some.injEq, Prod.mk.injEq, and_true] at h
            exact h
          dsimp only
          omega
    | some p =>
      obtain ⟨d, fl⟩ := p
      cases fl with
      | true => simpa using bu
      | false =>
        simp only
        have hs := sum_map_set (pending c.info.rule.res) ths i th { th with st := some (d, true) } hi
        have hp1 : pending c.info.rule.res { th with st := some (d, true) } = 0 := by simp [pending]
        have hb := bu.pot
        by_cases happ : (d.isNone && t / nsPerMs != 0) = true
        swap
        · simp only [happ, Bool.false_eq_true, if_false]
          have hp0 : 0 ≤ pending c.info.rule.res th := Nat.zero_le _
          exact ⟨hsmall _ rfl, bu.le, bu.has, bu.born, by dsimp only; omega, bu.all⟩
        simp only [happ, if_true]
        simp only [Bool.and_eq_true, Option.isNone_iff_eq_none] at happ
        have hd : d = none := happ.1
        subst hd
        have hwl := wBorn_append_le c s.H { t := t / nsPerMs, res := th.res, b := th.b } (t / nsPerMs) bu.born.2
        dsimp only at hwl
        refine ⟨hsmall _ rfl, ?_, bu.has, ⟨bu.born.1, le_trans bu.born.2 (by simp)⟩, ?_, ?_⟩
        · intro a ha
          rcases List.mem_append.mp ha with h | h
          · exact bu.le a h
          · simp at h; subst h; exact le_refl _
        · dsimp only
          by_cases hr : th.res = c.info.rule.res
          · have hp0 : pending c.info.rule.res th = th.b := by simp [pending, hst, hr]
            rw [if_pos hr] at hwl
            omega
          · have hp0 : pending c.info.rule.res th = 0 := by simp [pending, hr]
            rw [if_neg hr] at hwl
            omega
        · intro e
          dsimp only
          rw [List.drop_append_of_le_length bu.born.2, histOf_append]
          dsimp only
          by_cases hr : th.res = c.info.rule.res
          swap
          · simp only [hr, if_false]; exact bu.all e
          simp only [hr, if_true]
          rw [refW_append]
          by_cases hin : e + c.info.L - c.info.Iv ≤ cbs c.info.L (t / nsPerMs) ∧ cbs c.info.L (t / nsPerMs) ≤ e
          swap
          · simp only [hin, if_false, Nat.add_zero]; exact bu.all e
          simp only [hin, and_self, if_true]
          have hpos := refW_pos_le_window (s.H.drop c.born) c.info.rule.res c.info.L c.info.Iv (t / nsPerMs) e
            (drop_le_of s.H c.born _ bu.le) hin.2
          have hp0 : pending c.info.rule.res th = th.b := by simp [pending, hst, hr]
          have hpend : th.b ≤ (ths.map (pending c.info.rule.res)).sum := by
            have := List.single_le_sum (fun x _ => Nat.zero_le x) (pending c.info.rule.res th) (List.mem_map_of_mem hmem)
            omega
          have : c.wBorn s.H (t / nsPerMs) = windowTokens (s.H.drop c.born) c.info.rule.res c.info.L c.info.Iv (t / nsPerMs) := rfl
          omega

theorem BurstG.run {c : RCtrl} {cap k B : Nat} {s : RSt} {t : Nat} {ths : List Thread}
    (bu : BurstG c cap k B s t ths) (hk : c.info.rule.kind = .reject) (hf : c.info.feed = c.info.rule.res)
    (hcap : c.info.rule.thr.cap = some cap) (sched : List Nat) (hw : WidthOkG k RuleInfo.feed s t ths sched) :
    BurstG c cap k B (refRunSchedG RuleInfo.feed s t ths sched).1 (refRunSchedG RuleInfo.feed s t ths sched).2.1
      (refRunSchedG RuleInfo.feed s t ths sched).2.2 := by
  induction sched generalizing s t ths with
  | nil => exact bu
  | cons i r ih =>
    simp only [refRunSchedG]
    exact ih (bu.step hk hf hcap i hw.1) hw.2



/-- a sequentially reached reference state (cap invariant `CappedG`, e.g. from `refRunOps_capped`: any history of loads,
    reloads, clock moves and entries) is a valid start of a burst -/
theorem BurstG.ofCapped {r : RSt} {latest : Nat} (cp : CappedG r latest) {t : Nat} (hle : latest ≤ t / nsPerMs)
    (c : RCtrl) (hc : c ∈ r.ctrls) (hk : c.info.rule.kind = .reject) (hf : c.info.feed = c.info.rule.res)
    (cap : Nat) (hcap : c.info.rule.thr.cap = some cap) (k B : Nat)
    (ths : List Thread) (hfresh : ∀ th ∈ ths, th.st = none) (hB : ∀ th ∈ ths, th.b ≤ B) :
    BurstG c cap k B r t ths := by
  have hz : (ths.map (pending c.info.rule.res)).sum = 0 := by
    apply List.sum_eq_zero
    intro x hx
    obtain ⟨th, hth, rfl⟩ := List.mem_map.mp hx
    simp [pending, hfresh th hth]
  have hall : ∀ e, refW c.info.L (histOf (r.H.drop c.born) c.info.rule.res) (e + c.info.L - c.info.Iv) e ≤ cap := by
    intro e
    have := cp.cap c hc hk hf e
    by_contra hx
    have h2 : c.info.rule.thr.exceeds (refW c.info.L (histOf (r.H.drop c.born) c.info.rule.res) (e + c.info.L - c.info.Iv) e) = true :=
      (Thr.exceeds_iff_cap _ _).mpr ⟨cap, hcap, by omega⟩
    rw [h2] at this; cases this
  refine ⟨hB, fun a ha => le_trans (cp.le a ha) hle, ⟨c, hc, rfl, rfl, rfl⟩, cp.born c hc, ?_, fun e => le_trans (hall e) (Nat.le_add_right _ _)⟩
  rw [hz]
  have := hall (cbs c.info.L (t / nsPerMs))
  unfold RCtrl.wBorn windowTokens
  omega



/-! ## the executable small step (`runSchedG`) is the reference small step -/

/-- check phase of one caller: prepare slot + chain walk -/
theorem checkPhaseG_step {s r latest} (rep : RepG s r latest) {t : Nat} (hle : latest ≤ t / nsPerMs) (hpos : 0 < t / nsPerMs)
    (res b : Nat) :
    (checkPhaseG s res t b).2 = (chainG (refOps RuleInfo.feed r.H) res b r.ctrls t).2 ∧
    RepG (checkPhaseG s res t b).1 { r with ctrls := (chainG (refOps RuleInfo.feed r.H) res b r.ctrls t).1 }
      ((checkPhaseG s res t b).2.1 / nsPerMs) ∧
    lookup (checkPhaseG s res t b).1.nodes res ≠ none ∧
    ∀ q, lookup s.nodes q ≠ none → lookup (checkPhaseG s res t b).1.nodes q ≠ none := by
  have rep1 := rep.ensure hle hpos res
  set ns := Sentinel.FlowReject.ensure s.nodes res (t / nsPerMs) with hns
  have hch := chainG_rel (modelOps ns) (refOps RuleInfo.feed r.H) (PairOk ns r.H (t / nsPerMs))
    (fun a b p => ⟨p.rule_eq, p.idx_eq, p.last⟩) (fun a b l p => p.setLast l) res b s.ctrls r.ctrls rep1.pairs t
    (fun a rc p hk ms hms => by
      have hk' : a.rule.kind = .reject := by rw [p.rule_eq]; exact hk
      exact p.blocks_eq rep1.nodes hk' hms b)
  obtain ⟨heq, hpairs⟩ := hch
  have htle := chainG_time_le (modelOps ns) res b s.ctrls t
  have hms : t / nsPerMs ≤ (chainG (modelOps ns) res b s.ctrls t).2.1 / nsPerMs := Nat.div_le_div_right htle
  have hE : checkPhaseG s res t b = ({ nodes := ns, ctrls := (chainG (modelOps ns) res b s.ctrls t).1 },
      (chainG (modelOps ns) res b s.ctrls t).2.1, (chainG (modelOps ns) res b s.ctrls t).2.2) := rfl
  rw [hE]
  refine ⟨heq, ⟨hpairs.imp (fun _ _ p => p.mono (fun _ h => h) hms), fun q a ha => (rep1.nodes q a ha).idle hms, rep1.hNode⟩,
    lookup_ensure_self s.nodes res (t / nsPerMs), ensure_presence s.nodes res (t / nsPerMs)⟩

/-- record phase of one caller -/
theorem statPhaseG_step {s r latest} (rep : RepG s r latest) {ms : Nat} (hle : latest ≤ ms) (hms0 : ms ≠ 0)
    (res b : Nat) (d : Option Nat) (hnode : lookup s.nodes res ≠ none) :
    RepG (statPhase s res ms b d)
      { r with H := if d.isNone && ms != 0 then r.H ++ [{ t := ms, res := res, b := b }] else r.H } ms := by
  have rep' := rep.idle hle
  cases d with
  | some i =>
    simp only [statPhase, Option.isNone_some, Bool.false_and, Bool.false_eq_true, if_false]
    refine ⟨rep'.pairs.imp (fun _ _ p => p.mono (fun q hq => (lookup_touches_ne_none ..).mpr hq) (le_refl _)), ?_, ?_⟩
    · intro q a ha
      have := tracks_touches s.nodes res ms [0] (fun q => histOf r.H q) _ (le_refl _) rep'.nodes q a ha
      refine this.congr ?_
      intro lo hi
      by_cases hq : q = res
      · simp only [hq, if_true, List.map_cons, List.map_nil]; exact refW_block_events ..
      · simp only [hq, if_false]
    · intro a ha
      exact (lookup_touches_ne_none ..).mpr (rep'.hNode a ha)
  | none =>
    have hne : (ms != 0) = true := by simpa using hms0
    simp only [statPhase, Option.isNone_none, Bool.true_and, hne, if_true, standaloneRecord_eq]
    refine ⟨?_, ?_, ?_⟩
    · rw [List.forall₂_map_left_iff]
      exact rep'.pairs.imp (fun _ _ p => p.record res b (fun q hq => (lookup_touches_ne_none ..).mpr hq))
    · intro q a ha
      have := tracks_touches s.nodes res ms [0, b, 0, 0] (fun q => histOf r.H q) _ (le_refl _) rep'.nodes q a ha
      refine this.congr ?_
      intro lo hi
      rw [histOf_append]
      by_cases hq : q = res
      · subst hq; simp only [if_true, List.map_cons, List.map_nil]; exact refW_pass_events ..
      · have : ¬ res = q := fun e => hq e.symm
        simp only [hq, this, if_false]
    · intro a ha
      rw [lookup_touches_ne_none]
      rcases List.mem_append.mp ha with h | h
      · exact rep'.hNode a h
      · simp at h; subst h; exact hnode

theorem stepThreadG_spec {s r latest} (rep : RepG s r latest) {t : Nat} (hle : latest ≤ t / nsPerMs) (hpos : 0 < t / nsPerMs)
    (ths : List Thread) (pk : ParkedOk s ths) (i : Nat) :
    (stepThreadG s t ths i).2 = (refStepThreadG RuleInfo.feed r t ths i).2 ∧
    RepG (stepThreadG s t ths i).1 (refStepThreadG RuleInfo.feed r t ths i).1 ((stepThreadG s t ths i).2.1 / nsPerMs) ∧
    ParkedOk (stepThreadG s t ths i).1 (stepThreadG s t ths i).2.2 ∧ t ≤ (stepThreadG s t ths i).2.1 := by
  unfold stepThreadG refStepThreadG
  cases hi : ths[i]? with
  | none => exact ⟨rfl, rep.idle hle, pk, le_refl _⟩
  | some th =>
    have hmem : th ∈ ths := List.mem_of_getElem? hi
    simp only
    cases hst : th.st with
    | none =>
      obtain ⟨hd, rep1, hself, hmono⟩ := checkPhaseG_step rep hle hpos th.res th.b
      simp only
      refine ⟨by rw [hd], rep1, ?_, chainG_time_le _ th.res th.b s.ctrls t⟩
      intro x hx d hd'
      rcases List.mem_or_eq_of_mem_set hx with h | h
      · exact hmono _ (pk x h d hd')
      · subst h; exact hself
    | some p =>
      obtain ⟨d, fl⟩ := p
      cases fl with
      | true => simp only; exact ⟨trivial, rep.idle hle, pk, le_refl _⟩
      | false =>
        simp only
        have hnode := pk th hmem d hst
        refine ⟨trivial, statPhaseG_step rep hle (by omega) th.res th.b d hnode, ?_, le_refl _⟩
        intro x hx d' hd'
        rw [statPhase_nodes_ne_none]
        rcases List.mem_or_eq_of_mem_set hx with h | h
        · exact pk x h d' hd'
        · subst h; exact hnode

/-- **tie at yield-point granularity for the general slot**: throttling rules (sleeping callers), any batches, any
    rule set in force (e.g. after reloads) -/
theorem runSchedG_eq_ref {s r latest} (rep : RepG s r latest) {t : Nat} (hle : latest ≤ t / nsPerMs) (hpos : 0 < t / nsPerMs)
    (ths : List Thread) (pk : ParkedOk s ths) (sched : List Nat) :
    (runSchedG s t ths sched).2 = (refRunSchedG RuleInfo.feed r t ths sched).2 ∧
    RepG (runSchedG s t ths sched).1 (refRunSchedG RuleInfo.feed r t ths sched).1 ((runSchedG s t ths sched).2.1 / nsPerMs) := by
  induction sched generalizing s r latest t ths with
  | nil => exact ⟨rfl, rep.idle hle⟩
  | cons i rs ih =>
    obtain ⟨h1, h2, h3, h4⟩ := stepThreadG_spec rep hle hpos ths pk i
    simp only [runSchedG, refRunSchedG]
    rw [← h1]
    exact ih h2 (le_refl _) (lt_of_lt_of_le hpos (Nat.div_le_div_right h4)) _ h3



/-! ## histories of ops **and bursts** -/

inductive BOp where
  | op (o : Op)
  | par (res : Nat) (bs : List Nat) (sched : List Nat)

def burstThreads (res : Nat) (bs : List Nat) : List Thread := bs.map fun b => { res := res, b := b }

/-- executed side: `stepOp` for `clock`/`load`/`loadres`/`entry`, `runSchedG` for a `par` line -/
def stepB (m : MSt) : BOp → MSt
  | .op o => (stepOp m o).1
  | .par res bs sched => let x := runSchedG m.s m.t (burstThreads res bs) sched; { m with s := x.1, t := x.2.1 }

def obsB (m : MSt) : BOp → Out ⊕ List Thread
  | .op o => .inl (stepOp m o).2
  | .par res bs sched => .inr (runSchedG m.s m.t (burstThreads res bs) sched).2.2

def runB (m : MSt) : List BOp → MSt × List (Out ⊕ List Thread)
  | [] => (m, [])
  | o :: r => let y := runB (stepB m o) r; (y.1, obsB m o :: y.2)

def refStepB (m : RMSt) : BOp → RMSt
  | .op o => (refStepOp RuleInfo.feed m o).1
  | .par res bs sched => let x := refRunSchedG RuleInfo.feed m.r m.t (burstThreads res bs) sched; { m with r := x.1, t := x.2.1 }

def refObsB (m : RMSt) : BOp → Out ⊕ List Thread
  | .op o => .inl (refStepOp RuleInfo.feed m o).2
  | .par res bs sched => .inr (refRunSchedG RuleInfo.feed m.r m.t (burstThreads res bs) sched).2.2

def refRunB (m : RMSt) : List BOp → RMSt × List (Out ⊕ List Thread)
  | [] => (m, [])
  | o :: r => let y := refRunB (refStepB m o) r; (y.1, refObsB m o :: y.2)

theorem parkedOk_fresh (s : St) (res : Nat) (bs : List Nat) : ParkedOk s (burstThreads res bs) := by
  intro th hth d hd
  simp only [burstThreads, List.mem_map] at hth
  obtain ⟨b, _, rfl⟩ := hth
  cases hd

theorem refRunSchedG_time_le (srcOf : RuleInfo → Nat) (s : RSt) (t : Nat) (ths : List Thread) (sched : List Nat) :
    t ≤ (refRunSchedG srcOf s t ths sched).2.1 := by
  induction sched generalizing s t ths with
  | nil => exact le_refl _
  | cons i r ih =>
    simp only [refRunSchedG]
    refine le_trans ?_ (ih _ _ _)
    unfold refStepThreadG
    cases ths[i]? with
    | none => exact le_refl _
    | some th =>
      simp only
      cases th.st with
      | none => exact chainG_time_le _ th.res th.b s.ctrls t
      | some p => obtain ⟨d, fl⟩ := p; cases fl <;> exact le_refl _

theorem stepB_eq_ref {m : MSt} {rm : RMSt} (hm : RepM m rm) (o : BOp) :
    obsB m o = refObsB rm o ∧ RepM (stepB m o) (refStepB rm o) := by
  cases o with
  | op o =>
    obtain ⟨h1, h2⟩ := stepOp_eq_ref hm o
    exact ⟨by simp only [obsB, refObsB, h1], h2⟩
  | par res bs sched =>
    obtain ⟨⟨latest, hl, rep⟩, ht, hn, hpos⟩ := hm
    obtain ⟨heq, rep'⟩ := runSchedG_eq_ref rep hl hpos (burstThreads res bs) (parkedOk_fresh m.s res bs) sched
    have htle := refRunSchedG_time_le RuleInfo.feed rm.r rm.t (burstThreads res bs) sched
    simp only [obsB, refObsB, stepB, refStepB]
    rw [← ht] at htle ⊢
    have e1 : (refRunSchedG RuleInfo.feed rm.r m.t (burstThreads res bs) sched).2.1 = (runSchedG m.s m.t (burstThreads res bs) sched).2.1 := by rw [← heq]
    have e2 : (refRunSchedG RuleInfo.feed rm.r m.t (burstThreads res bs) sched).2.2 = (runSchedG m.s m.t (burstThreads res bs) sched).2.2 := by rw [← heq]
    refine ⟨by rw [e2], ⟨_, le_refl _, rep'⟩, e1.symm, hn, ?_⟩
    rw [e1] at htle
    exact lt_of_lt_of_le hpos (Nat.div_le_div_right htle)

/-- **histories with bursts**: the executed model (`stepOp` + `runSchedG`) and the reference produce the same observations -/
theorem runB_eq_ref {m : MSt} {rm : RMSt} (hm : RepM m rm) (ops : List BOp) :
    (runB m ops).2 = (refRunB rm ops).2 ∧ RepM (runB m ops).1 (refRunB rm ops).1 := by
  induction ops generalizing m rm with
  | nil => exact ⟨rfl, hm⟩
  | cons o r ih =>
    obtain ⟨h1, h2⟩ := stepB_eq_ref hm o
    obtain ⟨h3, h4⟩ := ih h2
    simp only [runB, refRunB]
    exact ⟨by rw [h1, h3], h4⟩



/-! ## the cap with slack along histories with bursts -/

/-- `CappedG` with a slack `S` (= `(K-1)·B` once bursts of width `K` and batches up to `B` occur), in `≤` form -/
structure CappedS (S : Nat) (r : RSt) (latest : Nat) : Prop where
  le : ∀ a ∈ r.H, a.t ≤ latest
  born : ∀ c ∈ r.ctrls, c.since ≤ c.born ∧ c.born ≤ r.H.length
  cap : ∀ c ∈ r.ctrls, c.info.rule.kind = .reject → c.info.feed = c.info.rule.res → ∀ cap, c.info.rule.thr.cap = some cap → ∀ e,
    refW c.info.L (histOf (r.H.drop c.born) c.info.rule.res) (e + c.info.L - c.info.Iv) e ≤ cap + S

theorem CappedS.idle {S r latest} (cp : CappedS S r latest) {now : Nat} (h : latest ≤ now) : CappedS S r now :=
  ⟨fun a ha => le_trans (cp.le a ha) h, cp.born, cp.cap⟩

theorem CappedS.entry {S r latest} (cp : CappedS S r latest) {t : Nat} (hle : latest ≤ t / nsPerMs) (res b : Nat) :
    CappedS S (refEntryG RuleInfo.feed r res t b).1 ((refEntryG RuleInfo.feed r res t b).2.1 / nsPerMs) := by
  have hstat := chainG_ref_static RuleInfo.feed r.H res b r.ctrls t
  have htle := chainG_time_le (refOps RuleInfo.feed r.H) res b r.ctrls t
  have hroom := chainG_none_room (refOps RuleInfo.feed r.H) res b r.ctrls t
  set x := chainG (refOps RuleInfo.feed r.H) res b r.ctrls t with hx
  have hR : refEntryG RuleInfo.feed r res t b =
      ({ ctrls := x.1, H := if x.2.2.isNone && x.2.1 / nsPerMs != 0 then r.H ++ [{ t := x.2.1 / nsPerMs, res := res, b := b }] else r.H },
        x.2.1, x.2.2) := rfl
  rw [hR]
  have hms : latest ≤ x.2.1 / nsPerMs := le_trans hle (Nat.div_le_div_right htle)
  by_cases hpass : (x.2.2.isNone && x.2.1 / nsPerMs != 0) = true
  swap
  · simp only [hpass]
    refine ⟨fun a ha => le_trans (cp.le a ha) hms, ?_, ?_⟩
    · intro c' hc'
      obtain ⟨c, hc, h1, h2, h3⟩ := forall₂_mem_left hstat hc'
      rw [h2, h3]; exact cp.born c hc
    · intro c' hc' hk hf cap hcap e
      obtain ⟨c, hc, h1, h2, h3⟩ := forall₂_mem_left hstat hc'
      rw [h1, h3]; rw [h1] at hk hf hcap; exact cp.cap c hc hk hf cap hcap e
  simp only [hpass, if_true]
  simp only [Bool.and_eq_true, Option.isNone_iff_eq_none] at hpass
  set ms := x.2.1 / nsPerMs with hmsdef
  refine ⟨?_, ?_, ?_⟩
  · intro a ha
    rcases List.mem_append.mp ha with h | h
    · exact le_trans (cp.le a h) hms
    · simp at h; subst h; exact le_refl _
  · intro c' hc'
    obtain ⟨c, hc, h1, h2, h3⟩ := forall₂_mem_left hstat hc'
    rw [h2, h3]
    exact ⟨(cp.born c hc).1, le_trans (cp.born c hc).2 (by simp)⟩
  · intro c' hc' hk hf cap hcap e
    obtain ⟨c, hc, h1, h2, h3⟩ := forall₂_mem_left hstat hc'
    rw [h1, h3]; rw [h1] at hk hf hcap
    obtain ⟨hsb, hbl⟩ := cp.born c hc
    rw [List.drop_append_of_le_length hbl, histOf_append]
    dsimp only
    by_cases hr : res = c.info.rule.res
    swap
    · simp only [hr, if_false]; exact cp.cap c hc hk hf cap hcap e
    simp only [hr, if_true]
    rw [refW_append]
    by_cases hin : e + c.info.L - c.info.Iv ≤ cbs c.info.L ms ∧ cbs c.info.L ms ≤ e
    swap
    · simp only [hin, if_false, Nat.add_zero]; exact cp.cap c hc hk hf cap hcap e
    simp only [hin, and_self, if_true]
    obtain ⟨tc, h1t, h2t, hblk⟩ := hroom hpass.1 c hc hr.symm hk
    have hmc1 : latest ≤ tc / nsPerMs := le_trans hle (Nat.div_le_div_right h1t)
    have hmc2 : tc / nsPerMs ≤ ms := Nat.div_le_div_right h2t
    have hblk' : c.info.rule.thr.exceeds (c.tokens RuleInfo.feed r.H (tc / nsPerMs) + b) = false := hblk
    have hge := tokens_ge_wBorn c r.H (tc / nsPerMs) hf hsb
    have hroom2 : c.wBorn r.H (tc / nsPerMs) + b ≤ cap := by
      by_contra hxx
      have : c.info.rule.thr.exceeds (c.tokens RuleInfo.feed r.H (tc / nsPerMs) + b) = true :=
        (Thr.exceeds_iff_cap _ _).mpr ⟨cap, hcap, by omega⟩
      rw [this] at hblk'; cases hblk'
    have hpos := refW_pos_le_window (r.H.drop c.born) c.info.rule.res c.info.L c.info.Iv (tc / nsPerMs) e
      (drop_le_of r.H c.born _ (fun a ha => le_trans (cp.le a ha) hmc1)) (le_trans (cbs_mono c.info.L hmc2) hin.2)
    have : c.wBorn r.H (tc / nsPerMs) = windowTokens (r.H.drop c.born) c.info.rule.res c.info.L c.info.Iv (tc / nsPerMs) := rfl
    omega

theorem CappedS.ofMem {S : Nat} {r : RSt} {latest : Nat} (cp : CappedS S r latest) (ctrls' : List RCtrl)
    (hmem : ∀ c' ∈ ctrls', c' ∈ r.ctrls ∨ (c'.born = r.H.length ∧ (c'.since ≤ r.H.length ∨ ∃ c ∈ r.ctrls, c'.since = c.since))) :
    CappedS S { r with ctrls := ctrls' } latest := by
  refine ⟨cp.le, ?_, ?_⟩
  · intro c' hc'
    rcases hmem c' hc' with h | ⟨hb, hs⟩
    · exact cp.born c' h
    · show c'.since ≤ c'.born ∧ c'.born ≤ r.H.length
      rw [hb]
      refine ⟨?_, le_refl _⟩
      rcases hs with hs | ⟨c, hc, hs⟩
      · exact hs
      · rw [hs]; exact le_trans (cp.born c hc).1 (cp.born c hc).2
  · intro c' hc' hk hf cap hcap e
    rcases hmem c' hc' with h | ⟨hb, _⟩
    · exact cp.cap c' h hk hf cap hcap e
    · show refW c'.info.L (histOf (r.H.drop c'.born) c'.info.rule.res) (e + c'.info.L - c'.info.Iv) e ≤ cap + S
      rw [hb, List.drop_length]
      simp [histOf, refW]

theorem CappedS.reload {S r latest} (cp : CappedS S r latest) (rules : List Rule) (base : Nat) :
    CappedS S (refReloadG r rules base) latest := by
  apply cp.ofMem
  intro c' hc'
  rcases refReloadFrom_mem rules r.H.length r.ctrls [] base c' hc' with h | h | h
  · simp at h
  · exact Or.inl h
  · exact Or.inr h

theorem CappedS.loadres {S r latest} (cp : CappedS S r latest) (res : Nat) (rules : List Rule) (base : Nat) :
    CappedS S (refLoadresG r res rules base) latest := by
  unfold refLoadresG
  by_cases he : rules.isEmpty = true
  · simp only [he, if_true]
    exact cp.ofMem _ (fun c hc => Or.inl (List.mem_of_mem_filter hc))
  · simp only [he]
    apply cp.ofMem
    intro c' hc'
    rcases List.mem_append.mp hc' with h | h
    · exact Or.inl (List.mem_of_mem_filter h)
    · rcases refReloadFrom_mem _ _ _ [] base c' h with h' | h' | ⟨hb, hs⟩
      · simp at h'
      · exact Or.inl (List.mem_of_mem_filter h')
      · refine Or.inr ⟨hb, ?_⟩
        rcases hs with hs | ⟨c, hc, hs⟩
        · exact Or.inl hs
        · exact Or.inr ⟨c, List.mem_of_mem_filter hc, hs⟩



/-- what every small step keeps, whatever the rules: nothing newer than the clock, `since ≤ born ≤ |H|`, and every
    controller is one of the initial ones up to its `lastPassedTime` -/
structure BaseG (r0 : RSt) (s : RSt) (t : Nat) : Prop where
  le : ∀ a ∈ s.H, a.t ≤ t / nsPerMs
  born : ∀ c ∈ s.ctrls, c.since ≤ c.born ∧ c.born ≤ s.H.length
  from0 : ∀ c' ∈ s.ctrls, ∃ c ∈ r0.ctrls, c'.info = c.info ∧ c'.since = c.since ∧ c'.born = c.born

theorem BaseG.step {r0 s : RSt} {t : Nat} (bg : BaseG r0 s t) (ths : List Thread) (i : Nat) :
    BaseG r0 (refStepThreadG RuleInfo.feed s t ths i).1 (refStepThreadG RuleInfo.feed s t ths i).2.1 := by
  unfold refStepThreadG
  cases ths[i]? with
  | none => exact bg
  | some th =>
    simp only
    cases th.st with
    | none =>
      simp only
      have hstat := chainG_ref_static RuleInfo.feed s.H th.res th.b s.ctrls t
      have hms : t / nsPerMs ≤ (chainG (refOps RuleInfo.feed s.H) th.res th.b s.ctrls t).2.1 / nsPerMs :=
        Nat.div_le_div_right (chainG_time_le _ th.res th.b s.ctrls t)
      refine ⟨fun a ha => le_trans (bg.le a ha) hms, ?_, ?_⟩
      · intro c' hc'
        obtain ⟨c, hc, h1, h2, h3⟩ := forall₂_mem_left hstat hc'
        show c'.since ≤ c'.born ∧ c'.born ≤ s.H.length
        rw [h2, h3]; exact bg.born c hc
      · intro c' hc'
        obtain ⟨c, hc, h1, h2, h3⟩ := forall₂_mem_left hstat hc'
        obtain ⟨c0, hc0, g1, g2, g3⟩ := bg.from0 c hc
        exact ⟨c0, hc0, h1.trans g1, h2.trans g2, h3.trans g3⟩
    | some p =>
      obtain ⟨d, fl⟩ := p
      cases fl with
      | true => exact bg
      | false =>
        simp only
        by_cases happ : (d.isNone && t / nsPerMs != 0) = true
        · simp only [happ, if_true]
          refine ⟨?_, fun c hc => ⟨(bg.born c hc).1, le_trans (bg.born c hc).2 (by simp)⟩, bg.from0⟩
          intro a ha
          rcases List.mem_append.mp ha with h | h
          · exact bg.le a h
          · simp at h; subst h; exact le_refl _
        · simp only [happ, Bool.false_eq_true, if_false]
          exact bg

theorem BaseG.run {r0 s : RSt} {t : Nat} (bg : BaseG r0 s t) (ths : List Thread) (sched : List Nat) :
    BaseG r0 (refRunSchedG RuleInfo.feed s t ths sched).1 (refRunSchedG RuleInfo.feed s t ths sched).2.1 := by
  induction sched generalizing s t ths with
  | nil => exact bg
  | cons i r ih =>
    simp only [refRunSchedG]
    exact ih (bg.step ths i) _

/-- a burst of width at most `K` with batches up to `B` keeps the cap with slack `(K-1)·B` -/
theorem CappedS.par {K B : Nat} {r : RSt} {latest : Nat} (cp : CappedS ((K - 1) * B) r latest) {t : Nat} (hle : latest ≤ t / nsPerMs)
    (res : Nat) (bs : List Nat) (hB : ∀ b ∈ bs, b ≤ B) (sched : List Nat)
    (hw : WidthOkG K RuleInfo.feed r t (burstThreads res bs) sched) :
    CappedS ((K - 1) * B) (refRunSchedG RuleInfo.feed r t (burstThreads res bs) sched).1
      ((refRunSchedG RuleInfo.feed r t (burstThreads res bs) sched).2.1 / nsPerMs) := by
  have hfresh : ∀ th ∈ burstThreads res bs, th.st = none := by
    intro th hth; simp only [burstThreads, List.mem_map] at hth; obtain ⟨b, _, rfl⟩ := hth; rfl
  have hsmall : ∀ th ∈ burstThreads res bs, th.b ≤ B := by
    intro th hth; simp only [burstThreads, List.mem_map] at hth; obtain ⟨b, hb, rfl⟩ := hth; exact hB b hb
  have bg0 : BaseG r r t := ⟨fun a ha => le_trans (cp.le a ha) hle, cp.born, fun c hc => ⟨c, hc, rfl, rfl, rfl⟩⟩
  have bg := bg0.run (burstThreads res bs) sched
  refine ⟨bg.le, bg.born, ?_⟩
  intro c' hc' hk hf cap hcap e
  obtain ⟨c, hc, h1, h2, h3⟩ := bg.from0 c' hc'
  rw [h1] at hk hf hcap
  have hz : ((burstThreads res bs).map (pending c.info.rule.res)).sum = 0 := by
    apply List.sum_eq_zero
    intro x hx
    obtain ⟨th, hth, rfl⟩ := List.mem_map.mp hx
    simp [pending, hfresh th hth]
  have bu0 : BurstG c cap K B r t (burstThreads res bs) := by
    refine ⟨hsmall, fun a ha => le_trans (cp.le a ha) hle, ⟨c, hc, rfl, rfl, rfl⟩, cp.born c hc, ?_, cp.cap c hc hk hf cap hcap⟩
    rw [hz]
    have := cp.cap c hc hk hf cap hcap (cbs c.info.L (t / nsPerMs))
    unfold RCtrl.wBorn windowTokens
    omega
  have := (bu0.run hk hf hcap sched hw).all e
  rw [h1, h3]
  exact this

/-- the precondition of a history with bursts: every burst keeps at most `K` callers between check and record and
    uses batches up to `B` -/
def BurstsOk (K B : Nat) (m : RMSt) : List BOp → Prop
  | [] => True
  | .op o :: r => BurstsOk K B (refStepB m (.op o)) r
  | .par res bs sched :: r =>
    (∀ b ∈ bs, b ≤ B) ∧ WidthOkG K RuleInfo.feed m.r m.t (burstThreads res bs) sched ∧ BurstsOk K B (refStepB m (.par res bs sched)) r

theorem refRunB_capped {K B : Nat} {m : RMSt} (cp : CappedS ((K - 1) * B) m.r (m.t / nsPerMs)) (ops : List BOp)
    (hok : BurstsOk K B m ops) :
    CappedS ((K - 1) * B) (refRunB m ops).1.r ((refRunB m ops).1.t / nsPerMs) := by
  induction ops generalizing m with
  | nil => exact cp
  | cons o rs ih =>
    simp only [refRunB]
    cases o with
    | op o =>
      apply ih _ hok
      cases o with
      | clock ms => exact cp.idle (Nat.div_le_div_right (le_max_left _ _))
      | load rules => exact cp.reload rules m.nrules
      | loadres res rules => exact cp.loadres res rules m.nrules
      | entry res b => exact cp.entry (le_refl _) res b
    | par res bs sched =>
      exact ih (cp.par (le_refl _) res bs hok.1 sched hok.2.1) hok.2.2


end Sentinel.FlowReject
