import Mathlib.Tactic
import Sentinel.Model.LeapArrayRace
import Sentinel.Lemmas.LeapArrayRaceTerm
import Sentinel.Lemmas.LeapArrayRaceStarted
/-!
# Global termination: the round-robin drain and fair schedules (C09)

Potential of a configuration with `K` threads:

    psi c = (2K + 4) · Σ_t base t  +  Σ_t rho (lock word) t

* `base` is the progress measure `Th.meas` with the three states of the spin loop (`la.cur.load`,
  `la.cur.trylock`, `la.cur.spin`) identified, so that a failed `TryLock` and the way back to the
  next attempt leave it unchanged while every other step lowers it by at least 1;
* `rho lk t` is 0 outside the spin loop; inside it is 3 while the lock is held and the distance to the
  next `TryLock` (spin 3, load 2, trylock 1) while it is free.

Every step leaves `psi` unchanged or lowers it (`exec_psi`); it lowers it whenever the stepping thread is
unfinished and either the lock is free or the thread is the holder.  Hence every round of the drain
lowers it (the holder is stepped if the lock is held, the first unfinished thread meets a free lock
otherwise), and so does every fair schedule eventually.
-/
namespace Sentinel.LAR

def Pc.cyc : Pc → Bool
  | .spin | .curLoad | .tryLock => true
  | _ => false

def Pc.rk : Pc → Nat
  | .spin => 3 | .curLoad => 2 | .tryLock => 1
  | _ => 0

def pcBase (n : Nat) (op : OpSpec) (pc : Pc) : Nat :=
  match pc with
  | .spin => cont n op + 10
  | .curLoad => cont n op + 10
  | p => pcMeas n op p

def nxBase (n : Nat) (op : OpSpec) : Next → Nat
  | .pc p => pcBase n op p
  | .fin _ => 0

def Th.base (n : Nat) (t : Th) : Nat :=
  (match t.cur with | some f => pcBase n f.op f.pc | none => 0) + (t.prog.map (opMax n)).sum

def Th.cyc (t : Th) : Bool :=
  match t.cur with | some f => f.pc.cyc | none => false

def Th.rho (lk : Bool) (t : Th) : Nat :=
  match t.cur with
  | some f => if f.pc.cyc then (if lk then 3 else f.pc.rk) else 0
  | none => 0

theorem pcBase_le (n : Nat) (op : OpSpec) (pc : Pc) : pcBase n op pc ≤ pcMeas n op pc := by
  cases pc <;> simp [pcBase, pcMeas]

theorem pcBase_pos (n : Nat) (op : OpSpec) (pc : Pc) : 0 < pcBase n op pc := by
  cases pc <;> simp [pcBase, pcMeas]

theorem nxBase_le (n : Nat) (op : OpSpec) (nx : Next) : nxBase n op nx ≤ nxPcMeas n op nx := by
  cases nx with
  | pc p => exact pcBase_le n op p
  | fin r => exact le_refl _

theorem base_le_meas (n : Nat) (t : Th) : t.base n ≤ t.meas n := by
  unfold Th.base Th.meas
  cases t.cur with
  | none => exact le_refl _
  | some f => simp only []; have := pcBase_le n f.op f.pc; omega

theorem rho_le (lk : Bool) (t : Th) : t.rho lk ≤ 3 := by
  rcases t with ⟨_, _ | ⟨op, now, pc⟩, _⟩ <;> cases lk <;> (try cases pc) <;> simp [Th.rho, Pc.cyc, Pc.rk]

theorem rho_false_le (lk : Bool) (t : Th) : t.rho false ≤ t.rho lk := by
  rcases t with ⟨_, _ | ⟨op, now, pc⟩, _⟩ <;> cases lk <;> (try cases pc) <;> simp [Th.rho, Pc.cyc, Pc.rk]

theorem rho_le_false (lk : Bool) (t : Th) : t.rho lk ≤ t.rho false + 2 := by
  rcases t with ⟨_, _ | ⟨op, now, pc⟩, _⟩ <;> cases lk <;> (try cases pc) <;> simp [Th.rho, Pc.cyc, Pc.rk]

/-- a step inside an operation either lowers `base`, or is a step of the spin loop -/
theorem decide_prog (sh : Shared) (op : OpSpec) (now : Nat) (pc : Pc) :
    nxBase sh.n op (decideStep sh op now pc).2 + 1 ≤ pcBase sh.n op pc
    ∨ (pc.cyc = true ∧ ∃ p, (decideStep sh op now pc).2 = .pc p ∧ p.cyc = true ∧ pcBase sh.n op p = pcBase sh.n op pc
        ∧ (decideStep sh op now pc).1 = .none ∧ (sh.lock = false → p.rk + 1 = pc.rk)) := by
  by_cases hc : pc = .curLoad
  · subst hc
    simp only [decideStep]
    split_ifs
    · left; have := afterCur_meas sh op true; have := nxBase_le sh.n op (afterCur sh op true); simp only [pcBase]; omega
    · right; exact ⟨rfl, .tryLock, rfl, rfl, by simp [pcBase, pcMeas], rfl, fun _ => rfl⟩
    · left; have := afterCur_meas sh op true; have := nxBase_le sh.n op (afterCur sh op true); simp only [pcBase]; omega
    · left; have := afterCur_meas sh op false; have := nxBase_le sh.n op (afterCur sh op false); simp only [pcBase]; omega
  by_cases hs : pc = .spin
  · subst hs
    right
    exact ⟨rfl, .curLoad, rfl, rfl, rfl, rfl, fun _ => rfl⟩
  by_cases ht : pc = .tryLock
  · subst ht
    simp only [decideStep]
    by_cases hl : sh.lock = true
    · right
      rw [if_pos hl]
      exact ⟨rfl, .spin, rfl, rfl, by simp [pcBase, pcMeas], rfl, fun h => by rw [hl] at h; cases h⟩
    · left
      rw [if_neg hl]
      simp [nxBase, pcBase, pcMeas]
  · left
    have hm := decide_meas sh op now pc (fun h => absurd h ht)
    have h1 := nxBase_le sh.n op (decideStep sh op now pc).2
    have h2 : pcBase sh.n op pc = pcMeas sh.n op pc := by
      cases pc <;> first | rfl | exact absurd rfl hc | exact absurd rfl hs
    omega

theorem stepTh_n (sh : Shared) (clock : Nat) (t : Th) : (stepTh sh clock t).1.n = sh.n := by
  cases hc : t.cur with
  | none => rw [stepTh_none _ _ _ hc]
  | some f => rw [stepTh_some _ _ _ f hc]; exact apply_n _ _

/-- classification of a granted step for the potential: no-op of a finished thread, progress, or a step of the spin loop -/
theorem stepTh_prog (sh : Shared) (clock : Nat) (t : Th) :
    (t.finished = true ∧ stepTh sh clock t = (sh, t))
    ∨ ((stepTh sh clock t).2.base sh.n + 1 ≤ t.base sh.n)
    ∨ (t.cyc = true ∧ (stepTh sh clock t).2.cyc = true ∧ (stepTh sh clock t).2.base sh.n = t.base sh.n
        ∧ (stepTh sh clock t).1.lock = sh.lock
        ∧ (sh.lock = true → (stepTh sh clock t).2.rho true = t.rho true)
        ∧ (sh.lock = false → (stepTh sh clock t).2.rho false + 1 = t.rho false)) := by
  cases hc : t.cur with
  | none =>
    by_cases hf : t.finished = true
    · left; exact ⟨hf, stepTh_finished sh clock t hf⟩
    · right; left
      rw [stepTh_none _ _ _ hc]
      have hp : t.prog ≠ [] := by
        intro h; simp [Th.finished, hc, h] at hf
      have h1 := (startNext_meas sh clock t.prog t.res).2 hp
      have h2 := base_le_meas sh.n (startNext sh clock t.prog t.res)
      simp only [Th.base, hc] at h1 h2 ⊢
      omega
  | some f =>
    rw [stepTh_some _ _ _ f hc]
    rcases decide_prog sh f.op f.now f.pc with h | ⟨hcy, p, hp, hpc, hb, ha, hr⟩
    · right; left
      cases hn : (decideStep sh f.op f.now f.pc).2 with
      | pc p =>
        rw [hn] at h
        simp only [adv, Th.base, hc, nxBase] at h ⊢
        omega
      | fin r =>
        rw [hn] at h
        simp only [adv]
        have h1 := (startNext_meas (sh.apply (decideStep sh f.op f.now f.pc).1) clock t.prog
          (t.res ++ [mkRes (sh.apply (decideStep sh f.op f.now f.pc).1) f.op f.now r])).1
        rw [apply_n] at h1
        have h2 := base_le_meas sh.n (startNext (sh.apply (decideStep sh f.op f.now f.pc).1) clock t.prog
          (t.res ++ [mkRes (sh.apply (decideStep sh f.op f.now f.pc).1) f.op f.now r]))
        have h3 := pcBase_pos sh.n f.op f.pc
        simp only [Th.base, hc] at h1 h2 ⊢
        omega
    · right; right
      rw [hp, ha]
      simp only [adv, Shared.apply]
      refine ⟨by simp [Th.cyc, hc, hcy], by simp [Th.cyc, hpc], by simp [Th.base, hc, hb], by first | rfl | trivial, ?_, ?_⟩
      · intro _; simp [Th.rho, hc, hcy, hpc]
      · intro hl; have := hr hl; simp [Th.rho, hc, hcy, hpc]; omega

theorem cyc_not_crit (t : Th) (h : t.cyc = true) : t.inCrit = false := by
  unfold Th.cyc at h; unfold Th.inCrit
  cases hc : t.cur with
  | none => rfl
  | some f => rw [hc] at h; simp only [] at h ⊢; cases hp : f.pc <;> simp [hp, Pc.cyc] at h <;> rfl

/-! ## the potential of a configuration -/

def sumBase (n : Nat) (l : List Th) : Nat := (l.map (Th.base n)).sum
def sumRho (lk : Bool) (l : List Th) : Nat := (l.map (Th.rho lk)).sum

def Cfg.psi (c : Cfg) : Nat := (2 * c.th.length + 4) * sumBase c.sh.n c.th + sumRho c.sh.lock c.th

theorem sumRho_false_le (lk : Bool) (l : List Th) : sumRho false l ≤ sumRho lk l := by
  induction l with
  | nil => simp [sumRho]
  | cons t r ih => simp only [sumRho, List.map_cons, List.sum_cons] at ih ⊢; have := rho_false_le lk t; omega

theorem sumRho_le_false (lk : Bool) (l : List Th) : sumRho lk l ≤ sumRho false l + 2 * l.length := by
  induction l with
  | nil => simp [sumRho]
  | cons t r ih =>
    simp only [sumRho, List.map_cons, List.sum_cons, List.length_cons] at ih ⊢
    have := rho_le_false lk t; omega

theorem exec_step_eq (c : Cfg) (i : Nat) (t : Th) (h : c.th[i]? = some t) :
    c.exec (.step i) = { c with sh := (stepTh c.sh c.clock t).1, th := c.th.set i (stepTh c.sh c.clock t).2 } := by
  simp [Cfg.exec, h]

/-- **every step leaves the potential unchanged or lowers it; it lowers it when the stepping thread is unfinished
    and either the lock is free or the thread holds it** -/
theorem step_psi (c : Cfg) (i : Nat) (t : Th) (h : c.th[i]? = some t) :
    (c.exec (.step i)).psi ≤ c.psi
    ∧ (t.finished = false → (c.sh.lock = false ∨ t.inCrit = true) → (c.exec (.step i)).psi < c.psi) := by
  rw [exec_step_eq c i t h]
  unfold Cfg.psi
  simp only [List.length_set, stepTh_n]
  have hB := sum_set (Th.base c.sh.n) c.th i t (stepTh c.sh c.clock t).2 h
  have hR := fun x => sum_set (Th.rho x) c.th i t (stepTh c.sh c.clock t).2 h
  have hlen : (c.th.set i (stepTh c.sh c.clock t).2).length = c.th.length := List.length_set
  obtain ⟨W, hW⟩ : ∃ W, W = 2 * c.th.length + 4 := ⟨_, rfl⟩
  rw [← hW]
  change W * sumBase c.sh.n (c.th.set i (stepTh c.sh c.clock t).2) + sumRho (stepTh c.sh c.clock t).1.lock (c.th.set i (stepTh c.sh c.clock t).2)
      ≤ W * sumBase c.sh.n c.th + sumRho c.sh.lock c.th ∧ (t.finished = false → (c.sh.lock = false ∨ t.inCrit = true) →
      W * sumBase c.sh.n (c.th.set i (stepTh c.sh c.clock t).2) + sumRho (stepTh c.sh c.clock t).1.lock (c.th.set i (stepTh c.sh c.clock t).2)
      < W * sumBase c.sh.n c.th + sumRho c.sh.lock c.th)
  have hB' : sumBase c.sh.n (c.th.set i (stepTh c.sh c.clock t).2) + t.base c.sh.n
      = sumBase c.sh.n c.th + (stepTh c.sh c.clock t).2.base c.sh.n := hB
  have hR' : ∀ x, sumRho x (c.th.set i (stepTh c.sh c.clock t).2) + t.rho x
      = sumRho x c.th + (stepTh c.sh c.clock t).2.rho x := hR
  rcases stepTh_prog c.sh c.clock t with ⟨hf, heq⟩ | hs | ⟨hcy, _, hb, hlk, hr1, hr0⟩
  · -- a finished thread: nothing changes
    rw [heq] at hB' hR' ⊢
    simp only [] at hB' hR' ⊢
    have := hR' c.sh.lock
    have hbb : sumBase c.sh.n (c.th.set i t) = sumBase c.sh.n c.th := by omega
    have hrr : sumRho c.sh.lock (c.th.set i t) = sumRho c.sh.lock c.th := by omega
    rw [hbb, hrr]
    exact ⟨le_refl _, fun hnf => by rw [hf] at hnf; cases hnf⟩
  · -- progress: `base` drops by at least one, which pays for whatever happens to the `rho`s
    have h1 : sumBase c.sh.n (c.th.set i (stepTh c.sh c.clock t).2) + 1 ≤ sumBase c.sh.n c.th := by omega
    have h2 := Nat.mul_le_mul_left W h1
    rw [Nat.mul_add, Nat.mul_one] at h2
    have h3 := sumRho_le_false (stepTh c.sh c.clock t).1.lock (c.th.set i (stepTh c.sh c.clock t).2)
    rw [hlen] at h3
    have h4 := hR' false
    have h5 := rho_le false (stepTh c.sh c.clock t).2
    have h6 := sumRho_false_le c.sh.lock c.th
    have : W * sumBase c.sh.n (c.th.set i (stepTh c.sh c.clock t).2) + sumRho (stepTh c.sh c.clock t).1.lock (c.th.set i (stepTh c.sh c.clock t).2)
        < W * sumBase c.sh.n c.th + sumRho c.sh.lock c.th := by omega
    exact ⟨Nat.le_of_lt this, fun _ _ => this⟩
  · -- a step of the spin loop
    rw [hlk]
    have hbb : sumBase c.sh.n (c.th.set i (stepTh c.sh c.clock t).2) = sumBase c.sh.n c.th := by omega
    rw [hbb]
    cases hl : c.sh.lock with
    | true =>
      have := hR' true
      have := hr1 hl
      refine ⟨by omega, fun _ hor => ?_⟩
      rcases hor with h0 | h0
      · cases h0
      · rw [cyc_not_crit t hcy] at h0; cases h0
    | false =>
      have := hR' false
      have := hr0 hl
      exact ⟨by omega, fun _ _ => by omega⟩

theorem exec_psi_le (c : Cfg) (e : Entry) : (c.exec e).psi ≤ c.psi := by
  cases e with
  | tick d => exact le_refl _
  | step i =>
    cases h : c.th[i]? with
    | none => simp [Cfg.exec, h]
    | some t => exact (step_psi c i t h).1

theorem run_psi_le (c : Cfg) (s : List Entry) : (run c s).psi ≤ c.psi := by
  induction s generalizing c with
  | nil => exact le_refl _
  | cons e r ih => exact le_trans (ih _) (exec_psi_le c e)

theorem set_same {α : Type} (l : List α) (i : Nat) (t : α) (h : l[i]? = some t) : l.set i t = l := by
  apply List.ext_getElem?
  intro j
  rw [set_get l i t t h j]
  split_ifs with hij
  · subst hij; exact h.symm
  · rfl

/-- stepping a finished (or non-existent) thread changes nothing: the drain "skips" it -/
theorem exec_noop (c : Cfg) (i : Nat) (h : c.th[i]? = none ∨ ∃ t, c.th[i]? = some t ∧ t.finished = true) :
    c.exec (.step i) = c := by
  rcases h with h | ⟨t, h, hf⟩
  · simp [Cfg.exec, h]
  · rw [exec_step_eq c i t h, stepTh_finished _ _ _ hf]
    simp only []
    rw [set_same c.th i t h]

theorem crit_unfinished (t : Th) (h : t.inCrit = true) : t.finished = false := by
  unfold Th.inCrit at h
  cases hc : t.cur with
  | none => rw [hc] at h; cases h
  | some f => simp [Th.finished, hc]

/-- a sequence of steps that reaches an unfinished thread while the lock is free lowers the potential -/
theorem steps_free (l : List Nat) (c : Cfg) (hl : c.sh.lock = false)
    (hw : ∃ i ∈ l, ∃ t, c.th[i]? = some t ∧ t.finished = false) :
    (run c (l.map Entry.step)).psi < c.psi := by
  induction l with
  | nil => obtain ⟨i, hi, _⟩ := hw; cases hi
  | cons j r ih =>
    simp only [List.map_cons, run]
    cases hj : c.th[j]? with
    | none =>
      rw [exec_noop c j (Or.inl hj)]
      apply ih
      obtain ⟨i, hi, t, ht, hf⟩ := hw
      rcases List.mem_cons.mp hi with rfl | hi
      · rw [hj] at ht; cases ht
      · exact ⟨i, hi, t, ht, hf⟩
    | some tj =>
      by_cases hf : tj.finished = true
      · rw [exec_noop c j (Or.inr ⟨tj, hj, hf⟩)]
        apply ih
        obtain ⟨i, hi, t, ht, hnf⟩ := hw
        rcases List.mem_cons.mp hi with rfl | hi
        · rw [hj] at ht; cases ht; rw [hf] at hnf; cases hnf
        · exact ⟨i, hi, t, ht, hnf⟩
      · have := (step_psi c j tj hj).2 (by simpa using hf) (Or.inl hl)
        exact lt_of_le_of_lt (run_psi_le _ _) this

/-- a sequence of steps that reaches the lock holder lowers the potential -/
theorem steps_held (l : List Nat) (c : Cfg) (hw : ∃ i ∈ l, ∃ t, c.th[i]? = some t ∧ t.inCrit = true) :
    (run c (l.map Entry.step)).psi < c.psi := by
  induction l generalizing c with
  | nil => obtain ⟨i, hi, _⟩ := hw; cases hi
  | cons j r ih =>
    simp only [List.map_cons, run]
    by_cases hj : ∃ tj, c.th[j]? = some tj ∧ tj.inCrit = true
    · obtain ⟨tj, hj, hc⟩ := hj
      have := (step_psi c j tj hj).2 (crit_unfinished tj hc) (Or.inr hc)
      exact lt_of_le_of_lt (run_psi_le _ _) this
    · obtain ⟨i, hi, t, ht, hc⟩ := hw
      rcases List.mem_cons.mp hi with rfl | hi
      · exact absurd ⟨t, ht, hc⟩ hj
      · have hne : Entry.step j ≠ Entry.step i := by
          intro h; cases h; exact hj ⟨t, ht, hc⟩
        have : (c.exec (.step j)).th[i]? = some t := by rw [exec_other c i _ hne]; exact ht
        exact lt_of_lt_of_le (ih (c.exec (.step j)) ⟨i, hi, t, this, hc⟩) (exec_psi_le c _)

/-- one round of the drain: every thread id once, in order -/
def round (c : Cfg) : Cfg := run c ((List.range c.th.length).map Entry.step)

theorem getElem?_lt {α : Type} (l : List α) (i : Nat) (t : α) (h : l[i]? = some t) : i < l.length := by
  rcases Nat.lt_or_ge i l.length with h1 | h1
  · exact h1
  · rw [List.getElem?_eq_none h1] at h; cases h

/-- **every round of the drain lowers the potential** as long as some thread is unfinished -/
theorem round_psi (c : Cfg) (hm : MutexInv c) (hnf : c.allFinished = false) : (round c).psi < c.psi := by
  unfold round
  by_cases hl : c.sh.lock = true
  · obtain ⟨i, t, hi, hc⟩ := hm.held hl
    exact steps_held _ c ⟨i, List.mem_range.mpr (getElem?_lt _ _ _ hi), t, hi, hc⟩
  · have hl' : c.sh.lock = false := by simpa using hl
    have : ∃ t ∈ c.th, t.finished = false := by
      by_contra hcon
      have : c.allFinished = true := by
        unfold Cfg.allFinished
        rw [List.all_eq_true]
        intro t ht
        by_contra h
        exact hcon ⟨t, ht, by simpa using h⟩
      rw [this] at hnf; cases hnf
    obtain ⟨t, ht, hf⟩ := this
    obtain ⟨i, hi⟩ := List.getElem?_of_mem ht
    exact steps_free _ c hl' ⟨i, List.mem_range.mpr (getElem?_lt _ _ _ hi), t, hi, hf⟩

theorem drain_succ (fuel : Nat) (c : Cfg) :
    drain (fuel + 1) c = if c.allFinished then c else drain fuel (round c) := rfl

/-- **the round-robin drain finishes every thread within `psi c` rounds** -/
theorem drain_finishes (b : Nat) (c : Cfg) (hm : MutexInv c) (hb : c.psi ≤ b) :
    (drain (b + 1) c).allFinished = true := by
  induction b generalizing c with
  | zero =>
    rw [drain_succ]
    by_cases hf : c.allFinished = true
    · rw [if_pos hf]; exact hf
    · have := round_psi c hm (by simpa using hf); omega
  | succ b ih =>
    rw [drain_succ]
    by_cases hf : c.allFinished = true
    · rw [if_pos hf]; exact hf
    · rw [if_neg hf]
      have := round_psi c hm (by simpa using hf)
      exact ih (round c) (run_mutex c _ hm) (by omega)

/-! ## fair infinite schedules -/

/-- the configuration after the first `k` entries of an infinite schedule -/
def runTo (c : Cfg) (σ : Nat → Entry) : Nat → Cfg
  | 0 => c
  | k + 1 => (runTo c σ k).exec (σ k)

/-- every thread that is unfinished at some moment is scheduled at that moment or later -/
def Fair (c : Cfg) (σ : Nat → Entry) : Prop :=
  ∀ k i t, (runTo c σ k).th[i]? = some t → t.finished = false → ∃ d, σ (k + d) = .step i

theorem runTo_mutex (c : Cfg) (σ : Nat → Entry) (hm : MutexInv c) (k : Nat) : MutexInv (runTo c σ k) := by
  induction k with
  | zero => exact hm
  | succ k ih => exact exec_mutex _ _ ih

theorem fair_held (c : Cfg) (σ : Nat → Entry) (i : Nat) (d : Nat) :
    ∀ k, (∃ t, (runTo c σ k).th[i]? = some t ∧ t.inCrit = true) → σ (k + d) = .step i →
      ∃ k', (runTo c σ k').psi < (runTo c σ k).psi := by
  induction d with
  | zero =>
    intro k ⟨t, ht, hc⟩ hs
    refine ⟨k + 1, ?_⟩
    simp only [runTo]
    rw [Nat.add_zero] at hs
    rw [hs]
    exact (step_psi _ i t ht).2 (crit_unfinished t hc) (Or.inr hc)
  | succ d ih =>
    intro k ⟨t, ht, hc⟩ hs
    by_cases he : σ k = .step i
    · refine ⟨k + 1, ?_⟩
      simp only [runTo]
      rw [he]
      exact (step_psi _ i t ht).2 (crit_unfinished t hc) (Or.inr hc)
    · have h1 : (runTo c σ (k + 1)).th[i]? = some t := by
        simp only [runTo]; rw [exec_other _ i _ he]; exact ht
      have h2 : σ (k + 1 + d) = .step i := by rw [← hs]; congr 1; omega
      obtain ⟨k', hk'⟩ := ih (k + 1) ⟨t, h1, hc⟩ h2
      refine ⟨k', lt_of_lt_of_le hk' ?_⟩
      simp only [runTo]; exact exec_psi_le _ _

theorem fair_free (c : Cfg) (σ : Nat → Entry) (i : Nat) (d : Nat) :
    ∀ k, (runTo c σ k).sh.lock = false → (∃ t, (runTo c σ k).th[i]? = some t ∧ t.finished = false) →
      σ (k + d) = .step i → ∃ k', (runTo c σ k').psi < (runTo c σ k).psi := by
  induction d with
  | zero =>
    intro k hl ⟨t, ht, hf⟩ hs
    refine ⟨k + 1, ?_⟩
    simp only [runTo]
    rw [Nat.add_zero] at hs
    rw [hs]
    exact (step_psi _ i t ht).2 hf (Or.inl hl)
  | succ d ih =>
    intro k hl ⟨t, ht, hf⟩ hs
    have h2 : σ (k + 1 + d) = .step i := by rw [← hs]; congr 1; omega
    -- the entry at `k` either lowers the potential itself or changes nothing
    cases he : σ k with
    | tick ms =>
      have hsame : (runTo c σ (k + 1)).sh = (runTo c σ k).sh ∧ (runTo c σ (k + 1)).th = (runTo c σ k).th := by
        simp only [runTo]; rw [he]; exact ⟨rfl, rfl⟩
      obtain ⟨k', hk'⟩ := ih (k + 1) (by rw [hsame.1]; exact hl) ⟨t, by rw [hsame.2]; exact ht, hf⟩ h2
      refine ⟨k', ?_⟩
      have : (runTo c σ (k + 1)).psi = (runTo c σ k).psi := by unfold Cfg.psi; rw [hsame.1, hsame.2]
      omega
    | step j =>
      by_cases hno : (runTo c σ k).th[j]? = none ∨ ∃ tj, (runTo c σ k).th[j]? = some tj ∧ tj.finished = true
      · have hsame : runTo c σ (k + 1) = runTo c σ k := by
          simp only [runTo]; rw [he]; exact exec_noop _ j hno
        obtain ⟨k', hk'⟩ := ih (k + 1) (by rw [hsame]; exact hl) ⟨t, by rw [hsame]; exact ht, hf⟩ h2
        exact ⟨k', by rw [hsame] at hk'; exact hk'⟩
      · cases hj : (runTo c σ k).th[j]? with
        | none => exact absurd (Or.inl hj) hno
        | some tj =>
          have hnf : tj.finished = false := by
            by_contra h
            exact hno (Or.inr ⟨tj, hj, by simpa using h⟩)
          refine ⟨k + 1, ?_⟩
          simp only [runTo]; rw [he]
          exact (step_psi _ j tj hj).2 hnf (Or.inl hl)

/-- **fair schedules**: in an infinite schedule in which every unfinished thread is scheduled again and again,
    every thread finishes -/
theorem fair_finishes (c : Cfg) (σ : Nat → Entry) (hm : MutexInv c) (hfair : Fair c σ) :
    ∃ k, (runTo c σ k).allFinished = true := by
  have key : ∀ m k, (runTo c σ k).psi ≤ m → ∃ k', (runTo c σ k').allFinished = true := by
    intro m
    induction m with
    | zero =>
      intro k hk
      by_cases hf : (runTo c σ k).allFinished = true
      · exact ⟨k, hf⟩
      · exfalso
        have hmk := runTo_mutex c σ hm k
        have hlt : ∃ k', (runTo c σ k').psi < (runTo c σ k).psi := by
          by_cases hl : (runTo c σ k).sh.lock = true
          · obtain ⟨i, t, hi, hc⟩ := hmk.held hl
            obtain ⟨d, hd⟩ := hfair k i t hi (crit_unfinished t hc)
            exact fair_held c σ i d k ⟨t, hi, hc⟩ hd
          · have hl' : (runTo c σ k).sh.lock = false := by simpa using hl
            have : ∃ t ∈ (runTo c σ k).th, t.finished = false := by
              by_contra hcon
              apply hf
              unfold Cfg.allFinished
              rw [List.all_eq_true]
              intro t ht
              by_contra h
              exact hcon ⟨t, ht, by simpa using h⟩
            obtain ⟨t, ht, hnf⟩ := this
            obtain ⟨i, hi⟩ := List.getElem?_of_mem ht
            obtain ⟨d, hd⟩ := hfair k i t hi hnf
            exact fair_free c σ i d k hl' ⟨t, hi, hnf⟩ hd
        obtain ⟨k', hk'⟩ := hlt
        omega
    | succ m ih =>
      intro k hk
      by_cases hf : (runTo c σ k).allFinished = true
      · exact ⟨k, hf⟩
      · have hmk := runTo_mutex c σ hm k
        have hlt : ∃ k', (runTo c σ k').psi < (runTo c σ k).psi := by
          by_cases hl : (runTo c σ k).sh.lock = true
          · obtain ⟨i, t, hi, hc⟩ := hmk.held hl
            obtain ⟨d, hd⟩ := hfair k i t hi (crit_unfinished t hc)
            exact fair_held c σ i d k ⟨t, hi, hc⟩ hd
          · have hl' : (runTo c σ k).sh.lock = false := by simpa using hl
            have : ∃ t ∈ (runTo c σ k).th, t.finished = false := by
              by_contra hcon
              apply hf
              unfold Cfg.allFinished
              rw [List.all_eq_true]
              intro t ht
              by_contra h
              exact hcon ⟨t, ht, by simpa using h⟩
            obtain ⟨t, ht, hnf⟩ := this
            obtain ⟨i, hi⟩ := List.getElem?_of_mem ht
            obtain ⟨d, hd⟩ := hfair k i t hi hnf
            exact fair_free c σ i d k hl' ⟨t, hi, hnf⟩ hd
        obtain ⟨k', hk'⟩ := hlt
        exact ih k' (by omega)
  exact key _ 0 (le_refl _)

/-! ## the potential of a configuration whose threads have not started -/

theorem opMax_le (n : Nat) (op : OpSpec) : opMax n op ≤ 3 * n + 16 := by
  cases op <;> simp [opMax, cont] <;> omega

theorem sum_opMax_le (n : Nat) (p : List OpSpec) : (p.map (opMax n)).sum ≤ p.length * (3 * n + 16) := by
  induction p with
  | nil => simp
  | cons op q ih =>
    simp only [List.map_cons, List.sum_cons, List.length_cons]
    have := opMax_le n op
    rw [Nat.succ_mul]; omega

theorem sumRho_fresh (lk : Bool) (progs : List (List OpSpec)) : sumRho lk (progs.map mkThread) = 0 := by
  unfold sumRho
  induction progs with
  | nil => rfl
  | cons p r ih => simp only [List.map_cons, List.sum_cons, ih]; rfl

theorem sumBase_fresh_le (n : Nat) (progs : List (List OpSpec)) :
    sumBase n (progs.map mkThread) ≤ (progs.map List.length).sum * (3 * n + 16) := by
  unfold sumBase
  induction progs with
  | nil => simp
  | cons p r ih =>
    simp only [List.map_cons, List.sum_cons]
    have hp : (mkThread p).base n = (p.map (opMax n)).sum := by simp [Th.base, mkThread]
    have := sum_opMax_le n p
    rw [Nat.add_mul, hp]; omega


end Sentinel.LAR
