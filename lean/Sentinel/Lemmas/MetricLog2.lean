import Sentinel.Lemmas.MetricLog
/-! More lemmas for C17: the line-limit reader (`FindFromTimeWithMaxLines`), searches after a cut,
    file names. -/
namespace Sentinel.MetricLog

/-! ### `scanFrom` / `readFromItems`: prefix of the input, complete up to the limit -/

theorem scanFrom_prefix (m : Nat) (l : List Item) (last n : Nat) : (scanFrom m l last n).1 <+: l := by
  induction l generalizing last n with
  | nil => simp [scanFrom]
  | cons it r ih =>
    unfold scanFrom
    split_ifs with h
    · exact List.nil_prefix
    · exact (List.prefix_cons_inj it).2 (ih _ _)

/-- either everything was taken (and the flag says whether the limit is still open) or the scan
    stopped with the limit reached -/
theorem scanFrom_spec (m : Nat) (l : List Item) (last n : Nat) :
    ((scanFrom m l last n).1 = l ∧ (scanFrom m l last n).2 = decide (n + l.length < m)) ∨
    ((scanFrom m l last n).2 = false ∧ m ≤ n + (scanFrom m l last n).1.length) := by
  induction l generalizing last n with
  | nil => left; simp [scanFrom]
  | cons it r ih =>
    unfold scanFrom
    split_ifs with h
    · right; exact ⟨rfl, by simp; omega⟩
    · rcases ih (it.ts / 1000) (n + 1) with ⟨h1, h2⟩ | ⟨h1, h2⟩
      · left
        refine ⟨by simp [h1], ?_⟩
        simp only [h2, List.length_cons]
        congr 1
        apply propext
        omega
      · right
        exact ⟨h1, by simp only [List.length_cons]; omega⟩

theorem readFromRest_spec (m : Nat) (r : List (List Item)) (acc : List Item) :
    ∃ ys, readFromRest m r acc = acc ++ ys ∧ ys <+: r.flatten ∧ (ys = r.flatten ∨ m ≤ acc.length + ys.length) := by
  induction r generalizing acc with
  | nil => exact ⟨[], by simp [readFromRest], List.nil_prefix, Or.inl rfl⟩
  | cons its r ih =>
    unfold readFromRest
    split_ifs with h
    · exact ⟨[], by simp, List.nil_prefix, Or.inr (by simpa using h)⟩
    · have hp := scanFrom_prefix m its (latestSecond acc) acc.length
      have hsp := scanFrom_spec m its (latestSecond acc) acc.length
      rcases hsc : scanFrom m its (latestSecond acc) acc.length with ⟨xs, c⟩
      rw [hsc] at hp hsp
      simp only at hp hsp ⊢
      cases c with
      | true =>
        simp only [if_true]
        rcases hsp with ⟨h1, _⟩ | ⟨h1, _⟩
        · subst h1
          obtain ⟨ys, e1, e2, e3⟩ := ih (acc ++ xs)
          refine ⟨xs ++ ys, by rw [e1, List.append_assoc], ?_, ?_⟩
          · rw [List.flatten_cons]; exact (List.prefix_append_right_inj xs).2 e2
          · rcases e3 with e3 | e3
            · left; rw [e3, List.flatten_cons]
            · right; simp only [List.length_append] at e3 ⊢; omega
        · simp at h1
      | false =>
        simp only [Bool.false_eq_true, if_false]
        refine ⟨xs, rfl, ?_, ?_⟩
        · rw [List.flatten_cons]; exact hp.trans (List.prefix_append _ _)
        · rcases hsp with ⟨h1, h2⟩ | ⟨_, h2⟩
          · right
            have : ¬ (acc.length + its.length < m) := by simpa using h2.symm
            rw [h1]; omega
          · right; exact h2

theorem readFromItems_spec (m : Nat) (L : List (List Item)) :
    readFromItems m L <+: L.flatten ∧ (readFromItems m L = L.flatten ∨ m ≤ (readFromItems m L).length) := by
  cases L with
  | nil => simp [readFromItems]
  | cons its r =>
    unfold readFromItems
    have hp := scanFrom_prefix m its 0 0
    have hsp := scanFrom_spec m its 0 0
    rcases hsc : scanFrom m its 0 0 with ⟨xs, c⟩
    rw [hsc] at hp hsp
    simp only [hsc]
    cases c with
    | true =>
      try simp only [if_true]
      rcases hsp with ⟨h1, _⟩ | ⟨h1, _⟩
      · subst h1
        obtain ⟨ys, e1, e2, e3⟩ := readFromRest_spec m r xs
        rw [e1, List.flatten_cons]
        refine ⟨(List.prefix_append_right_inj xs).2 e2, ?_⟩
        rcases e3 with e3 | e3
        · left; rw [e3]
        · right; simpa using e3
      · simp at h1
    | false =>
      try simp only [Bool.false_eq_true, if_false]
      rw [List.flatten_cons]
      refine ⟨hp.trans (List.prefix_append _ _), ?_⟩
      rcases hsp with ⟨h1, h2⟩ | ⟨_, h2⟩
      · right
        have : ¬ (0 + its.length < m) := by simpa using h2.symm
        have h1' : xs = its := h1
        rw [h1']; omega
      · right; simpa using h2

/-! ### empty files in front do not matter -/

theorem readFromItems_nil_cons (m : Nat) (hm : 0 < m) (r : List (List Item)) :
    readFromItems m ([] :: r) = readFromItems m r := by
  cases r with
  | nil => simp [readFromItems, scanFrom, readFromRest, hm]
  | cons its r =>
    simp only [readFromItems, scanFrom, hm, decide_true, if_true, readFromRest, List.length_nil, latestSecond,
      List.getLast?_nil, List.nil_append]
    rw [if_neg (by omega)]

theorem readFromItems_dropWhile_empty (m : Nat) (hm : 0 < m) (L : List (List Item)) :
    readFromItems m (L.dropWhile fun its => its.isEmpty) = readFromItems m L := by
  induction L with
  | nil => rfl
  | cons its r ih =>
    cases its with
    | nil => simp only [List.dropWhile_cons, List.isEmpty_nil, if_true]; rw [ih, readFromItems_nil_cons m hm]
    | cons x xs => simp [List.dropWhile_cons]

theorem readFromItems_zero (L : List (List Item)) (h : ∀ l ∈ L, ∀ it ∈ l, it.ts / 1000 ≠ 0) :
    readFromItems 0 L = [] := by
  cases L with
  | nil => rfl
  | cons its r =>
    cases its with
    | nil => simp [readFromItems, scanFrom]
    | cons it xs =>
      have := h (it :: xs) (by simp) it (by simp)
      simp [readFromItems, scanFrom, this]

/-! ### `FindFromTimeWithMaxLines` of a fresh searcher -/

theorem dropWhile_all {α : Type} (p : α → Bool) (l : List α) (h : ∀ x ∈ l, p x = true) : l.dropWhile p = [] := by
  induction l with
  | nil => rfl
  | cons x r ih => simp [List.dropWhile_cons, h x (by simp), ih (fun y hy => h y (List.mem_cons_of_mem _ hy))]

theorem dropWhile_none {α : Type} (p : α → Bool) (l : List α) (h : ∀ x ∈ l, p x = false) : l.dropWhile p = l := by
  cases l with
  | nil => rfl
  | cons x r => simp [List.dropWhile_cons, h x (by simp)]

theorem dropWhile_append_all {α : Type} (p : α → Bool) (a b : List α) (h : ∀ x ∈ a, p x = true) :
    (a ++ b).dropWhile p = b.dropWhile p := by
  induction a with
  | nil => rfl
  | cons x r ih =>
    simp only [List.cons_append, List.dropWhile_cons, h x (by simp), if_true]
    exact ih (fun y hy => h y (List.mem_cons_of_mem _ hy))

/-- the per-file part of `specFrom`: drop the items before `begin` -/
def dropF (bs : Nat) (its : List Item) : List Item := its.dropWhile fun it => decide (it.ts / 1000 < bs)

theorem specFrom_eq (files : List (List Item)) (b m : Nat) :
    specFrom files b m = readFromItems m ((files.map (dropF (b / 1000))).dropWhile fun its => its.isEmpty) := rfl

theorem dropF_all (bs : Nat) (l : List Item) (h : ∀ it ∈ l, it.ts / 1000 < bs) : dropF bs l = [] :=
  dropWhile_all _ l (fun x hx => by simpa using h x hx)

theorem dropF_none (bs : Nat) (l : List Item) (h : ∀ it ∈ l, bs ≤ it.ts / 1000) : dropF bs l = l :=
  dropWhile_none _ l (fun x hx => by have := h x hx; simp; omega)

/-- **L1 → L0 for the line-limit search** (fresh searcher, intact files, index correct for `begin`;
    `hq` excludes only the corner "limit 0 and `begin` in second 0", where the reader's initial
    `lastSec = 0` lets it take the lines of second 0) -/
theorem findFrom_fresh_partial (fs : Dir) (b m : Nat)
    (hf : ∀ f ∈ fs, FileOK f ∧ entsBounded f.ents ∧ ∀ it ∈ f.lines, Valid it)
    (hidx : IndexCorrect (b / 1000) fs) (hq : 0 < m ∨ 0 < b / 1000) :
    (findFrom fs {} b m).2 = specFrom (fs.map (·.lines)) b m := by
  have h0 : offsetStartAndFile fs {} b = (0, 0) := by simp [offsetStartAndFile, cacheOk]
  unfold findFrom search
  rw [h0]
  simp only [List.drop_zero]
  rw [searchLoop_intact _ _ _ (fun f hfm => ⟨(hf f hfm).1, (hf f hfm).2.1⟩), specFrom_eq]
  unfold IndexCorrect at hidx
  cases hh : firstHit (b / 1000) fs with
  | none =>
    rw [hh] at hidx
    simp only
    have : ∀ l ∈ (fs.map (·.lines)).map (dropF (b / 1000)), l = [] := by
      intro l hl
      simp only [List.map_map, List.mem_map, Function.comp] at hl
      obtain ⟨f, hfm, rfl⟩ := hl
      exact dropF_all _ _ (fun it hit => hidx it (List.mem_flatMap.2 ⟨f, hfm, hit⟩))
    rw [dropWhile_all _ _ (fun l hl => by rw [this l hl]; rfl)]
    rfl
  | some p =>
    obtain ⟨d, off⟩ := p
    rw [hh] at hidx
    simp only at hidx ⊢
    obtain ⟨pre, f, rest, e1, e2⟩ := firstHit_suffix _ _ _ _ hh
    obtain ⟨hpre, j, hoff, htake, hdrop⟩ := hidx pre f rest e1 e2
    have hff := hf f (by rw [e1]; simp)
    -- what the reader sees
    have hL : readFrom d off m = readFromItems m (f.lines.drop j :: rest.map (·.lines)) := by
      rw [e2]
      show readFromItems m (itemsFrom f.data off :: rest.map fun g => itemsFrom g.data 0) = _
      rw [hff.1.1, hoff, itemsFrom_serialise_at _ hff.2.2]
      congr 2
      apply List.map_congr_left
      intro g hg
      have hgg := hf g (by rw [e1]; simp [hg])
      rw [hgg.1.1, itemsFrom_serialise_zero _ hgg.2.2]
    -- what the reference sees
    have hR : ((fs.map (·.lines)).map (dropF (b / 1000))).dropWhile (fun its => its.isEmpty)
        = (f.lines.drop j :: rest.map (·.lines)).dropWhile (fun its => its.isEmpty) := by
      rw [e1]
      simp only [List.map_append, List.map_cons]
      rw [dropWhile_append_all]
      · congr 1
        congr 1
        · conv_lhs => rw [← List.take_append_drop j f.lines]
          unfold dropF
          rw [dropWhile_append_all _ _ _ (fun x hx => by simpa using htake x hx)]
          exact dropF_none _ _ (fun it hit => hdrop it (List.mem_append_left _ hit))
        · rw [List.map_map]
          apply List.map_congr_left
          intro g hg
          exact dropF_none _ _ (fun it hit => hdrop it (List.mem_append_right _ (List.mem_flatMap.2 ⟨g, hg, hit⟩)))
      · intro l hl
        simp only [List.map_map, List.mem_map, Function.comp] at hl
        obtain ⟨g, hg, rfl⟩ := hl
        rw [dropF_all _ _ (fun it hit => hpre it (List.mem_flatMap.2 ⟨g, hg, hit⟩))]
        rfl
    rw [hL, hR]
    rcases Nat.eq_zero_or_pos m with hm | hm
    · subst hm
      have hb : 0 < b / 1000 := by rcases hq with h | h; exact absurd h (lt_irrefl 0); exact h
      have hall : ∀ l ∈ (f.lines.drop j :: rest.map (·.lines)), ∀ it ∈ l, it.ts / 1000 ≠ 0 := by
        intro l hl it hit
        have : b / 1000 ≤ it.ts / 1000 := by
          rcases List.mem_cons.1 hl with rfl | hl
          · exact hdrop it (List.mem_append_left _ hit)
          · obtain ⟨g, hg, rfl⟩ := List.mem_map.1 hl
            exact hdrop it (List.mem_append_right _ (List.mem_flatMap.2 ⟨g, hg, hit⟩))
        omega
      rw [readFromItems_zero _ hall, readFromItems_zero _ (fun l hl => hall l ((List.dropWhile_sublist _).subset hl))]
    · rw [readFromItems_dropWhile_empty m hm]

/-! ### L0 facts about `specFrom` -/

theorem flatten_dropWhile_empty (L : List (List Item)) : (L.dropWhile fun its => its.isEmpty).flatten = L.flatten := by
  induction L with
  | nil => rfl
  | cons its r ih =>
    cases its with
    | nil => simpa [List.dropWhile_cons] using ih
    | cons x xs => simp [List.dropWhile_cons]

theorem dropF_eq_filter (bs : Nat) (l : List Item) (hs : l.Pairwise secLe) :
    dropF bs l = l.filter fun it => decide (bs ≤ it.ts / 1000) := by
  induction l with
  | nil => rfl
  | cons x r ih =>
    by_cases hx : x.ts / 1000 < bs
    · have : ¬ bs ≤ x.ts / 1000 := by omega
      simp only [dropF, List.dropWhile_cons, hx, decide_true, if_true, List.filter_cons, this, decide_false]
      exact ih (List.Pairwise.of_cons hs)
    · have hge : bs ≤ x.ts / 1000 := by omega
      have hall : ∀ y ∈ x :: r, bs ≤ y.ts / 1000 := by
        intro y hy
        rcases List.mem_cons.1 hy with rfl | hy
        · exact hge
        · have : x.ts / 1000 ≤ y.ts / 1000 := List.rel_of_pairwise_cons hs hy
          omega
      rw [dropF_none _ _ hall]
      symm
      rw [List.filter_eq_self]
      intro y hy
      simpa using hall y hy

theorem flatten_map_dropF (bs : Nat) (files : List (List Item)) (hs : files.flatten.Pairwise secLe) :
    (files.map (dropF bs)).flatten = files.flatten.filter fun it => decide (bs ≤ it.ts / 1000) := by
  induction files with
  | nil => rfl
  | cons l r ih =>
    rw [List.flatten_cons] at hs
    have h := List.pairwise_append.1 hs
    simp only [List.map_cons, List.flatten_cons, List.filter_append]
    rw [dropF_eq_filter bs l h.1, ih h.2.1]

/-- the reference answer of the line-limit search: a **prefix** of the retained items not before
    `begin` (so: only written items, in order, nothing twice, nothing skipped), and either all of them
    or at least `maxLines` -/
theorem specFrom_prefix_complete (files : List (List Item)) (b m : Nat) (hs : files.flatten.Pairwise secLe) :
    specFrom files b m <+: (files.flatten.filter fun it => decide (b / 1000 ≤ it.ts / 1000)) ∧
    (specFrom files b m = (files.flatten.filter fun it => decide (b / 1000 ≤ it.ts / 1000)) ∨
      m ≤ (specFrom files b m).length) := by
  have h := readFromItems_spec m ((files.map (dropF (b / 1000))).dropWhile fun its => its.isEmpty)
  rw [flatten_dropWhile_empty, flatten_map_dropF _ _ hs] at h
  exact h

/-! ### the search needs only the index bytes to be intact -/

theorem findOffsetToStart_idxOK (f : File) (hf : f.idx = encodeIdx f.ents) (hb : entsBounded f.ents) (c : Cache) (b : Nat) :
    (findOffsetToStart f c b 0).2
      = match f.ents.find? (fun e => decide (e.1 ≥ b / 1000)) with
        | some e => Found.at e.2
        | none => Found.notFound := by
  unfold findOffsetToStart
  simp only [List.drop_zero]
  rw [hf]
  exact idxScan_encode _ hb _ (by rw [encodeIdx_length]; omega) _ _ _ _

theorem searchLoop_idxOK (doRead : Dir → Nat → List Item) (b : Nat) (fs : Dir)
    (hf : ∀ f ∈ fs, f.idx = encodeIdx f.ents ∧ entsBounded f.ents) (c : Cache) :
    (searchLoop doRead b 0 fs c).2
      = match firstHit (b / 1000) fs with
        | some (d, off) => doRead d off
        | none => [] := by
  induction fs generalizing c with
  | nil => rfl
  | cons f r ih =>
    have h1 := findOffsetToStart_idxOK f (hf f (by simp)).1 (hf f (by simp)).2 c b
    unfold searchLoop firstHit
    cases hfind : f.ents.find? (fun e => decide (e.1 ≥ b / 1000)) with
    | some e =>
      rw [hfind] at h1
      rcases hres : findOffsetToStart f c b 0 with ⟨c', fd⟩
      rw [hres] at h1
      simp only at h1
      subst h1
      rfl
    | none =>
      rw [hfind] at h1
      rcases hres : findOffsetToStart f c b 0 with ⟨c', fd⟩
      rw [hres] at h1
      simp only at h1
      subst h1
      exact ih (fun g hg => hf g (List.mem_cons_of_mem _ hg)) c'

/-- `firstHit` looks at the index entries only: replacing the last file by one with the same entries
    moves the hit along -/
theorem firstHit_snoc_congr (bs : Nat) (init : Dir) (c c' : File) (h : c'.ents = c.ents) :
    firstHit bs (init ++ [c']) = (firstHit bs (init ++ [c])).map fun p => (p.1.dropLast ++ [c'], p.2) := by
  induction init with
  | nil =>
    simp only [List.nil_append, firstHit, h]
    cases c.ents.find? (fun e => decide (e.1 ≥ bs)) <;> simp
  | cons f r ih =>
    simp only [List.cons_append, firstHit]
    cases f.ents.find? (fun e => decide (e.1 ≥ bs)) with
    | some e =>
      simp only [Option.map_some]
      congr 2
      have : (f :: (r ++ [c])).dropLast = f :: r := by
        rw [← List.cons_append, List.dropLast_concat]
      rw [this]; rfl
    | none => exact ih

/-! ### lines wholly before a cut, seen from an index offset -/

theorem wholeLines_zero (L : List Item) : wholeLines L 0 = [] := by
  cases L <;> simp [wholeLines]

theorem fragment_zero (L : List Item) : fragment L 0 = [] := by
  cases L <;> simp [fragment]

theorem wholeLines_from_offset (L : List Item) (j k : Nat) :
    ∃ P, P <+: L.take j ∧
      wholeLines L k = P ++ wholeLines (L.drop j) (k - (serialise (L.take j)).length) ∧
      (fragment (L.drop j) (k - (serialise (L.take j)).length) = fragment L k ∨
        fragment (L.drop j) (k - (serialise (L.take j)).length) = []) := by
  induction j generalizing L k with
  | zero => exact ⟨[], by simp, by simp [serialise], Or.inl (by simp [serialise])⟩
  | succ j ih =>
    cases L with
    | nil => exact ⟨[], by simp, by simp [serialise, wholeLines], Or.inl (by simp [serialise, fragment])⟩
    | cons x L' =>
      have hlen : (serialise ((x :: L').take (j + 1))).length = (fat x).length + 1 + (serialise (L'.take j)).length := by
        simp [serialise]; omega
      simp only [List.drop_succ_cons, hlen]
      by_cases hk : (fat x).length + 1 ≤ k
      · obtain ⟨P, hP, hw, hfr⟩ := ih L' (k - ((fat x).length + 1))
        have e : k - ((fat x).length + 1 + (serialise (L'.take j)).length)
            = k - ((fat x).length + 1) - (serialise (L'.take j)).length := by omega
        refine ⟨x :: P, ?_, ?_, ?_⟩
        · simpa using (List.prefix_cons_inj x).2 hP
        · rw [wholeLines, if_pos hk, hw, e]; rfl
        · rw [e, fragment, if_pos hk]; exact hfr
      · have e : k - ((fat x).length + 1 + (serialise (L'.take j)).length) = 0 := by omega
        refine ⟨[], List.nil_prefix, ?_, Or.inr ?_⟩
        · rw [wholeLines, if_neg hk, e, wholeLines_zero]; rfl
        · rw [e, fragment_zero]

/-- what the readers see of a cut data file from an index offset on -/
theorem itemsFrom_cut_at (L : List Item) (hv : ∀ it ∈ L, Valid it) (j k : Nat) :
    itemsFrom ((serialise L).take k) (serialise (L.take j)).length
      = wholeLines (L.drop j) (k - (serialise (L.take j)).length)
        ++ tornParse (fragment (L.drop j) (k - (serialise (L.take j)).length)) := by
  have e : (serialise L).drop (serialise (L.take j)).length = serialise (L.drop j) := by
    conv_lhs => arg 2; rw [← List.take_append_drop j L, serialise_append]
    exact List.drop_left
  have h := itemsFrom_take_serialise (L.drop j) (fun x hx => hv x (List.mem_of_mem_drop hx))
    (k - (serialise (L.take j)).length)
  unfold itemsFrom at h ⊢
  rw [List.drop_zero] at h
  rw [List.drop_take, e]
  exact h

/-! ### a fresh search after the last data file was cut at byte `k` -/

def cutF (cur : File) (k : Nat) : File := { cur with data := cur.data.take k }

theorem cutData_snoc (init : Dir) (cur : File) (k : Nat) : cutData (init ++ [cur]) k = init ++ [cutF cur k] := by
  simp [cutData, modLast_snoc, cutF]

theorem scan_sorted_plus_tail (bs es : Nat) (res : Bytes) (S T : List Item) (hs : S.Pairwise secLe)
    (hb : ∀ it ∈ S, bs ≤ it.ts / 1000) :
    ∃ extra, (scanEnd bs es res (S ++ T)).1 = (S.filter fun it => decide (it.ts / 1000 ≤ es) && resMatch res it) ++ extra ∧
      ∀ x ∈ extra, x ∈ T := by
  rw [scanEnd_append, scanEnd_sorted bs es res S hs hb]
  split_ifs with h
  · exact ⟨(scanEnd bs es res T).1, rfl, scanEnd_subset _ _ _ _⟩
  · exact ⟨[], by simp, by simp⟩

theorem specFind_split (pre S : List Item) (b e : Nat) (res : Bytes) (hpre : ∀ it ∈ pre, it.ts / 1000 < b / 1000)
    (hS : ∀ it ∈ S, b / 1000 ≤ it.ts / 1000) :
    specFind (pre ++ S) b e res = S.filter fun it => decide (it.ts / 1000 ≤ e / 1000) && resMatch res it := by
  unfold specFind
  rw [List.filter_append, filter_nil_of_lt _ _ _ _ hpre, List.nil_append]
  apply List.filter_congr
  intro it hit
  have := hS it hit
  simp [inRange, this]

theorem find_after_data_cut (init : Dir) (cur : File) (k b e : Nat) (res : Bytes)
    (hf : ∀ f ∈ init ++ [cur], FileOK f ∧ entsBounded f.ents ∧ ∀ it ∈ f.lines, Valid it)
    (hs : (retained (init ++ [cur])).Pairwise secLe)
    (hidx : IndexCorrect (b / 1000) (init ++ [cur])) :
    ∃ extra, (find (cutData (init ++ [cur]) k) {} b e res).2
        = specFind (retained init ++ wholeLines cur.lines k) b e res ++ extra ∧
      ∀ x ∈ extra, x ∈ tornParse (fragment cur.lines k) := by
  have hcurf := hf cur (by simp)
  have hwl : ∀ x ∈ wholeLines cur.lines k, x ∈ cur.lines := fun x hx => (wholeLines_prefix _ _).subset hx
  have h0 : offsetStartAndFile (init ++ [cutF cur k]) {} b = (0, 0) := by simp [offsetStartAndFile, cacheOk]
  rw [cutData_snoc]
  unfold find search
  rw [h0]
  simp only [List.drop_zero]
  rw [searchLoop_idxOK _ _ _ (by
    intro f hfm
    rcases List.mem_append.1 hfm with h | h
    · exact ⟨(hf f (List.mem_append_left _ h)).1.2, (hf f (List.mem_append_left _ h)).2.1⟩
    · simp only [List.mem_singleton] at h; subst h; exact ⟨hcurf.1.2, hcurf.2.1⟩),
    firstHit_snoc_congr _ init cur (cutF cur k) rfl]
  unfold IndexCorrect at hidx
  cases hh : firstHit (b / 1000) (init ++ [cur]) with
  | none =>
    rw [hh] at hidx
    simp only [Option.map_none]
    refine ⟨[], ?_, by simp⟩
    unfold specFind
    rw [List.append_nil, filter_nil_of_lt]
    intro it hit
    apply hidx
    rw [retained_append]
    rcases List.mem_append.1 hit with h | h
    · exact List.mem_append_left _ h
    · exact List.mem_append_right _ (by simpa [retained] using hwl it h)
  | some p =>
    obtain ⟨d, off⟩ := p
    rw [hh] at hidx
    simp only [Option.map_some] at hidx ⊢
    obtain ⟨pre, f, rest, e1, e2⟩ := firstHit_suffix _ _ _ _ hh
    obtain ⟨hpre, j, hoff, htake, hdrop⟩ := hidx pre f rest e1 e2
    have hff := hf f (by rw [e1]; simp)
    rcases List.eq_nil_or_concat rest with hr | ⟨mid, x, hr⟩
    · -- the hit is in the cut file itself
      subst hr
      obtain ⟨hinit, hcur⟩ := List.append_inj' e1 rfl
      simp only [List.cons.injEq, and_true] at hcur
      subst hcur hinit
      have hd : d.dropLast ++ [cutF cur k] = [cutF cur k] := by rw [e2]; rfl
      rw [hd, readByEnd_eq]
      simp only [List.flatMap_nil, List.append_nil]
      show ∃ extra, (scanEnd (b / 1000) (e / 1000) res (itemsFrom (cur.data.take k) off)).1 = _ ∧ _
      rw [hff.1.1, hoff, itemsFrom_cut_at _ hff.2.2]
      obtain ⟨P, hP, hw, hfr⟩ := wholeLines_from_offset cur.lines j k
      have hW : ∀ it ∈ wholeLines (cur.lines.drop j) (k - (serialise (cur.lines.take j)).length), it ∈ cur.lines.drop j :=
        fun it hit => (wholeLines_prefix _ _).subset hit
      have hsortW : (wholeLines (cur.lines.drop j) (k - (serialise (cur.lines.take j)).length)).Pairwise secLe := by
        have h1 : (cur.lines.drop j).Pairwise secLe := by
          have : (retained init ++ cur.lines).Pairwise secLe := by simpa [retained] using hs
          exact ((List.pairwise_append.1 this).2.1).sublist (List.drop_sublist _ _)
        exact h1.sublist (wholeLines_prefix _ _).sublist
      obtain ⟨extra, hex, hsub⟩ := scan_sorted_plus_tail (b / 1000) (e / 1000) res _
        (tornParse (fragment (cur.lines.drop j) (k - (serialise (cur.lines.take j)).length))) hsortW
        (fun it hit => hdrop it (List.mem_append_left _ (hW it hit)))
      refine ⟨extra, ?_, ?_⟩
      · rw [hex, hw, ← List.append_assoc, specFind_split _ _ b e res ?_
          (fun it hit => hdrop it (List.mem_append_left _ (hW it hit)))]
        intro it hit
        rcases List.mem_append.1 hit with h | h
        · exact hpre it h
        · exact htake it (hP.subset h)
      · intro y hy
        have := hsub y hy
        rcases hfr with hfr | hfr
        · rw [hfr] at this; exact this
        · rw [hfr] at this; simp [tornParse_nil] at this
    · -- the hit is in an earlier file: the cut file is read from its start
      rw [List.concat_eq_append] at hr
      subst hr
      have e1' : init ++ [cur] = (pre ++ f :: mid) ++ [x] := by rw [e1]; simp
      obtain ⟨hinit, hcur⟩ := List.append_inj' e1' rfl
      simp only [List.cons.injEq, and_true] at hcur
      subst hcur hinit
      have hd : d.dropLast ++ [cutF cur k] = f :: (mid ++ [cutF cur k]) := by
        rw [e2, ← List.cons_append, List.dropLast_concat]; rfl
      have hmid : ∀ g ∈ mid, FileOK g ∧ ∀ it ∈ g.lines, Valid it := fun g hg =>
        ⟨(hf g (by simp [hg])).1, (hf g (by simp [hg])).2.2⟩
      rw [hd, readByEnd_eq, hff.1.1, hoff, itemsFrom_serialise_at _ hff.2.2]
      have hseen : (List.flatMap (fun g => itemsFrom g.data 0) (mid ++ [cutF cur k]))
          = retained mid ++ (wholeLines cur.lines k ++ tornParse (fragment cur.lines k)) := by
        rw [List.flatMap_append, flatMap_itemsFrom mid hmid]
        simp only [List.flatMap_cons, List.flatMap_nil, List.append_nil]
        show _ ++ itemsFrom (cur.data.take k) 0 = _
        rw [hcurf.1.1, itemsFrom_take_serialise _ hcurf.2.2]
      rw [hseen]
      have hS : ∀ it ∈ f.lines.drop j ++ (retained mid ++ wholeLines cur.lines k), b / 1000 ≤ it.ts / 1000 := by
        intro it hit
        apply hdrop
        rcases List.mem_append.1 hit with h | h
        · exact List.mem_append_left _ h
        · apply List.mem_append_right
          rw [retained_append]
          rcases List.mem_append.1 h with h | h
          · exact List.mem_append_left _ h
          · exact List.mem_append_right _ (by simpa [retained] using hwl it h)
      have hsortS : (f.lines.drop j ++ (retained mid ++ wholeLines cur.lines k)).Pairwise secLe := by
        have hsub : (f.lines.drop j ++ (retained mid ++ wholeLines cur.lines k)).Sublist (retained (pre ++ f :: mid ++ [cur])) := by
          simp only [retained_append, retained_cons, List.append_assoc]
          refine (List.Sublist.append (List.drop_sublist j _) (List.Sublist.append (List.Sublist.refl _) ?_)).trans
            (List.sublist_append_right _ _)
          simpa [retained] using (wholeLines_prefix cur.lines k).sublist
        exact hs.sublist hsub
      have hre : f.lines.drop j ++ (retained mid ++ (wholeLines cur.lines k ++ tornParse (fragment cur.lines k)))
          = (f.lines.drop j ++ (retained mid ++ wholeLines cur.lines k)) ++ tornParse (fragment cur.lines k) := by
        simp [List.append_assoc]
      rw [hre]
      obtain ⟨extra, hex, hsub⟩ := scan_sorted_plus_tail (b / 1000) (e / 1000) res _
        (tornParse (fragment cur.lines k)) hsortS hS
      refine ⟨extra, ?_, hsub⟩
      rw [hex]
      congr 1
      have hA : retained (pre ++ f :: mid) ++ wholeLines cur.lines k
          = (retained pre ++ f.lines.take j) ++ (f.lines.drop j ++ (retained mid ++ wholeLines cur.lines k)) := by
        simp only [retained_append, retained_cons, List.append_assoc]
        congr 1
        rw [← List.append_assoc (f.lines.take j), List.take_append_drop]
      rw [hA, specFind_split _ _ b e res ?_ hS]
      intro it hit
      rcases List.mem_append.1 hit with h | h
      · exact hpre it h
      · exact htake it h

/-! ### a fresh search after the last index file was cut at byte `k` -/

theorem find?_take_some {α : Type} (p : α → Bool) (l : List α) (n : Nat) (e : α) (h : (l.take n).find? p = some e) :
    l.find? p = some e := by
  induction l generalizing n with
  | nil => simp at h
  | cons x r ih =>
    cases n with
    | zero => simp at h
    | succ n =>
      simp only [List.take_succ_cons, List.find?_cons] at h ⊢
      cases hx : p x with
      | true => simpa [hx] using h
      | false => rw [hx] at h; exact ih n h

theorem take_two_blocks (a b r : Bytes) (k : Nat) (h : a.length + b.length ≤ k) :
    (a ++ b ++ r).take k = a ++ b ++ r.take (k - (a.length + b.length)) := by
  rw [List.take_append, List.take_of_length_le (by simp; omega)]
  simp

/-- scanning an index file cut at byte `k`: the entries wholly before the cut are found as before;
    otherwise the scan ends without a position (end of file, or an error on the torn entry) -/
theorem idxScan_take (ents : List (Nat × Nat)) (hb : entsBounded ents) (k fuel : Nat)
    (hf : (ents.take (k / 16)).length < fuel) (pos bs : Nat) (c : Cache) (nm : Name) :
    (∃ e, (ents.take (k / 16)).find? (fun e => decide (e.1 ≥ bs)) = some e ∧
        (idxScan fuel ((encodeIdx ents).take k) pos bs c nm).2 = Found.at e.2) ∨
    ((ents.take (k / 16)).find? (fun e => decide (e.1 ≥ bs)) = none ∧
        ∀ off, (idxScan fuel ((encodeIdx ents).take k) pos bs c nm).2 ≠ Found.at off) := by
  induction ents generalizing k fuel pos c with
  | nil =>
    right
    cases fuel with
    | zero => simp at hf
    | succ f => simp [idxScan, encodeIdx]
  | cons en r ih =>
    obtain ⟨s, o⟩ := en
    have hs := (hb (s, o) (by simp)).1
    have ho := (hb (s, o) (by simp)).2
    cases fuel with
    | zero => simp at hf
    | succ f =>
      by_cases hk : 16 ≤ k
      · have hk16 : k / 16 = (k - 16) / 16 + 1 := by omega
        have htake : (encodeIdx ((s, o) :: r)).take k = be8 s ++ be8 o ++ (encodeIdx r).take (k - 16) := by
          rw [encodeIdx, take_two_blocks _ _ _ _ (by simp [be8_length]; omega)]
          simp [be8_length]
        rw [htake, hk16, List.take_succ_cons]
        have hlen : (be8 s ++ be8 o ++ (encodeIdx r).take (k - 16)).length = 16 + ((encodeIdx r).take (k - 16)).length := by
          simp [be8_length]; omega
        have hlen2 : (be8 o ++ (encodeIdx r).take (k - 16)).length = 8 + ((encodeIdx r).take (k - 16)).length := by
          simp [be8_length]
        unfold idxScan
        rw [if_neg (by omega), if_neg (by omega)]
        simp only [List.append_assoc, take8_be8, drop8_be8, beVal_be8 s hs, beVal_be8 o ho]
        by_cases hge : s ≥ bs
        · left
          rw [if_pos hge, if_neg (by omega)]
          exact ⟨(s, o), by simp [List.find?, hge], rfl⟩
        · rw [if_neg hge, if_neg (by omega)]
          have hf' : (r.take ((k - 16) / 16)).length < f := by
            rw [hk16, List.take_succ_cons, List.length_cons] at hf; omega
          rcases ih (fun e he => hb e (List.mem_cons_of_mem _ he)) (k - 16) f hf' (pos + 16)
              { c with curOffsetInIdx := pos + 16 } with ⟨e, h1, h2⟩ | ⟨h1, h2⟩
          · left; exact ⟨e, by simp [List.find?, hge, h1], h2⟩
          · right; exact ⟨by simp [List.find?, hge, h1], h2⟩
      · right
        have hk0 : k / 16 = 0 := by omega
        have hlen : ((encodeIdx ((s, o) :: r)).take k).length = k := by
          rw [List.length_take, encodeIdx_length]; simp; omega
        refine ⟨by simp [hk0], ?_⟩
        intro off
        unfold idxScan
        by_cases h0 : k = 0
        · rw [if_pos (by omega)]; simp
        · rw [if_neg (by omega)]
          by_cases h8 : k < 8
          · rw [if_pos (by omega)]; simp
          · rw [if_neg (by omega)]
            have hrest : (((encodeIdx ((s, o) :: r)).take k).drop 8).length < 8 := by
              rw [List.length_drop, hlen]; omega
            simp only
            split_ifs <;> simp

def cutI (cur : File) (k : Nat) : File := { cur with idx := cur.idx.take k }
/-- ghost view of the cut index: the entries wholly before byte `k` -/
def truncE (cur : File) (k : Nat) : File := { cur with ents := cur.ents.take (k / 16) }

theorem cutIdx_snoc (init : Dir) (cur : File) (k : Nat) : cutIdx (init ++ [cur]) k = init ++ [cutI cur k] := by
  simp [cutIdx, modLast_snoc, cutI]

theorem searchLoop_idx_cut (doRead : Dir → Nat → List Item) (b : Nat) (init : Dir) (cur : File) (k : Nat)
    (hinit : ∀ f ∈ init, f.idx = encodeIdx f.ents ∧ entsBounded f.ents)
    (hcur : cur.idx = encodeIdx cur.ents ∧ entsBounded cur.ents) (c : Cache) :
    (searchLoop doRead b 0 (init ++ [cutI cur k]) c).2
      = match firstHit (b / 1000) (init ++ [truncE cur k]) with
        | some (d, off) => doRead (d.dropLast ++ [cutI cur k]) off
        | none => [] := by
  induction init generalizing c with
  | nil =>
    simp only [List.nil_append]
    have hscan := idxScan_take cur.ents hcur.2 k (((encodeIdx cur.ents).take k).length + 1)
      (by rw [List.length_take, List.length_take, encodeIdx_length]; omega) 0 (b / 1000)
      { c with idxFile := none, metricFile := none, curOffsetInIdx := 0 } cur.name
    have hfo : findOffsetToStart (cutI cur k) c b 0
        = idxScan (((encodeIdx cur.ents).take k).length + 1) ((encodeIdx cur.ents).take k) 0 (b / 1000)
            { c with idxFile := none, metricFile := none, curOffsetInIdx := 0 } cur.name := by
      simp [findOffsetToStart, cutI, hcur.1]
    unfold searchLoop firstHit
    rw [hfo]
    rcases hscan with ⟨e, h1, h2⟩ | ⟨h1, h2⟩
    · have h1' : (truncE cur k).ents.find? (fun e => decide (e.1 ≥ b / 1000)) = some e := h1
      rw [h1']
      rcases hres : idxScan (((encodeIdx cur.ents).take k).length + 1) ((encodeIdx cur.ents).take k) 0 (b / 1000)
          { c with idxFile := none, metricFile := none, curOffsetInIdx := 0 } cur.name with ⟨c', fd⟩
      rw [hres] at h2
      simp only at h2
      subst h2
      rfl
    · have h1' : (truncE cur k).ents.find? (fun e => decide (e.1 ≥ b / 1000)) = none := h1
      rw [h1']
      rcases hres : idxScan (((encodeIdx cur.ents).take k).length + 1) ((encodeIdx cur.ents).take k) 0 (b / 1000)
          { c with idxFile := none, metricFile := none, curOffsetInIdx := 0 } cur.name with ⟨c', fd⟩
      rw [hres] at h2
      cases fd with
      | «at» off => exact absurd rfl (h2 off)
      | notFound => rfl
      | error => rfl
  | cons f r ih =>
    have h1 := findOffsetToStart_idxOK f (hinit f (by simp)).1 (hinit f (by simp)).2 c b
    simp only [List.cons_append]
    unfold searchLoop firstHit
    cases hfind : f.ents.find? (fun e => decide (e.1 ≥ b / 1000)) with
    | some e =>
      rw [hfind] at h1
      rcases hres : findOffsetToStart f c b 0 with ⟨c', fd⟩
      rw [hres] at h1
      simp only at h1
      subst h1
      simp only
      congr 1
      have : (f :: (r ++ [truncE cur k])).dropLast = f :: r := by
        rw [← List.cons_append, List.dropLast_concat]
      rw [this]; rfl
    | none =>
      rw [hfind] at h1
      rcases hres : findOffsetToStart f c b 0 with ⟨c', fd⟩
      rw [hres] at h1
      simp only at h1
      subst h1
      exact ih (fun g hg => hinit g (List.mem_cons_of_mem _ hg)) c'

/-- `firstHit` with the entries of the last file cut down to a prefix -/
theorem firstHit_truncE (bs : Nat) (init : Dir) (cur : File) (k : Nat) :
    firstHit bs (init ++ [truncE cur k])
      = if (allEnts init ++ cur.ents.take (k / 16)).any (fun e => decide (e.1 ≥ bs))
        then (firstHit bs (init ++ [cur])).map fun q => (q.1.dropLast ++ [truncE cur k], q.2)
        else none := by
  induction init with
  | nil =>
    simp only [List.nil_append, firstHit, allEnts, List.flatMap_nil]
    cases hfind : (truncE cur k).ents.find? (fun e => decide (e.1 ≥ bs)) with
    | some e =>
      have hfind' : (cur.ents.take (k / 16)).find? (fun e => decide (e.1 ≥ bs)) = some e := hfind
      have hany : (cur.ents.take (k / 16)).any (fun e => decide (e.1 ≥ bs)) = true := by
        rw [List.any_eq_true]
        have hp := List.find?_some hfind'
        exact ⟨e, List.mem_of_find?_eq_some hfind', by simpa using hp⟩
      rw [hany, if_pos rfl, find?_take_some _ _ _ _ hfind']
      rfl
    | none =>
      have hfind' : (cur.ents.take (k / 16)).find? (fun e => decide (e.1 ≥ bs)) = none := hfind
      have hany : (cur.ents.take (k / 16)).any (fun e => decide (e.1 ≥ bs)) = false := by
        rw [List.any_eq_false]
        intro x hx
        exact List.find?_eq_none.1 hfind' x hx
      rw [hany]; simp
  | cons f r ih =>
    simp only [List.cons_append, firstHit, allEnts_cons, List.append_assoc]
    cases hfind : f.ents.find? (fun e => decide (e.1 ≥ bs)) with
    | some e =>
      have hany : (f.ents ++ (allEnts r ++ cur.ents.take (k / 16))).any (fun e => decide (e.1 ≥ bs)) = true := by
        rw [List.any_eq_true]
        have hp := List.find?_some hfind
        exact ⟨e, List.mem_append_left _ (List.mem_of_find?_eq_some hfind), by simpa using hp⟩
      rw [hany, if_pos rfl]
      simp only [Option.map_some]
      congr 2
      have : (f :: (r ++ [cur])).dropLast = f :: r := by rw [← List.cons_append, List.dropLast_concat]
      rw [this]; rfl
    | none =>
      have hnone : f.ents.any (fun e => decide (e.1 ≥ bs)) = false := by
        rw [List.any_eq_false]; intro x hx; exact List.find?_eq_none.1 hfind x hx
      rw [List.any_append, hnone, Bool.false_or]
      exact ih

theorem readByEnd_congr_data (d1 d2 : Dir) (h : d1.map (·.data) = d2.map (·.data)) (off b e : Nat) (res : Bytes) :
    readByEnd d1 off b e res = readByEnd d2 off b e res := by
  cases d1 with
  | nil => cases d2 with
    | nil => rfl
    | cons _ _ => simp at h
  | cons f1 r1 => cases d2 with
    | nil => simp at h
    | cons f2 r2 =>
      simp only [List.map_cons, List.cons.injEq] at h
      rw [readByEnd_eq, readByEnd_eq, h.1]
      have : (r1.flatMap fun g => itemsFrom g.data 0) = (r2.flatMap fun g => itemsFrom g.data 0) := by
        have e1 : ∀ r : Dir, (r.flatMap fun g => itemsFrom g.data 0) = (r.map (·.data)).flatMap fun x => itemsFrom x 0 := by
          intro r; rw [List.flatMap_map]
        rw [e1 r1, e1 r2, h.2]
      rw [this]

/-- **search after an index cut**: if an index entry not before `begin` lies wholly before the cut (in
    an earlier file or in the cut file), a fresh search returns what it returned before the cut;
    otherwise it returns nothing (never an error) -/
theorem find_after_idx_cut (init : Dir) (cur : File) (k b e : Nat) (res : Bytes)
    (hf : ∀ f ∈ init ++ [cur], f.idx = encodeIdx f.ents ∧ entsBounded f.ents) :
    (find (cutIdx (init ++ [cur]) k) {} b e res).2
      = if (allEnts init ++ cur.ents.take (k / 16)).any (fun en => decide (en.1 ≥ b / 1000))
        then (find (init ++ [cur]) {} b e res).2 else [] := by
  have h0 : offsetStartAndFile (init ++ [cutI cur k]) {} b = (0, 0) := by simp [offsetStartAndFile, cacheOk]
  have h0' : offsetStartAndFile (init ++ [cur]) {} b = (0, 0) := by simp [offsetStartAndFile, cacheOk]
  rw [cutIdx_snoc]
  unfold find search
  rw [h0, h0']
  simp only [List.drop_zero]
  rw [searchLoop_idx_cut _ _ _ _ _ (fun f hfm => hf f (List.mem_append_left _ hfm)) (hf cur (by simp)),
    searchLoop_idxOK _ _ _ hf, firstHit_truncE]
  split_ifs with hany
  · cases hh : firstHit (b / 1000) (init ++ [cur]) with
    | none => simp
    | some p =>
      obtain ⟨d, off⟩ := p
      simp only [Option.map_some]
      obtain ⟨pre, f, rest, e1, e2⟩ := firstHit_suffix _ _ _ _ hh
      have hd : d = d.dropLast ++ [cur] := by
        have hne : d ≠ [] := by rw [e2]; simp
        have hl : d.getLast hne = cur := by
          have : (init ++ [cur]).getLast (by simp) = cur := by simp
          rw [← this]
          have e3 : init ++ [cur] = pre ++ d := by rw [e1, e2]
          simp only [e3]
          rw [List.getLast_append_of_ne_nil _ hne]
        rw [← hl, List.dropLast_append_getLast]
      rw [List.dropLast_concat]
      conv_rhs => rw [hd]
      apply readByEnd_congr_data
      simp [cutI]
  · rfl

/-! ### file names: strictly increasing in the comparator order (date, then roll number) -/

/-- `filenameComparator` on `(day, roll number)`: date first, then the number (shorter-then-lexicographic
    on decimal numerals without leading zeros is the numeric order) -/
def nameLt (a b : Name) : Prop := a.1 < b.1 ∨ (a.1 = b.1 ∧ a.2 < b.2)

def fileLt (f g : File) : Prop := nameLt f.name g.name

/-- names strictly increasing along the listing, no file of a day after second `L`'s day -/
def NameInv (w : Writer) (L : Nat) : Prop :=
  w.files.Pairwise fileLt ∧ ∀ f ∈ w.files, f.name.1 ≤ dayOf L

theorem dayOf_mono {a b : Nat} (h : a ≤ b) : dayOf a ≤ dayOf b := Nat.div_le_div_right h

theorem modLast_map_name (fs : Dir) (g : File → File) (hg : ∀ f, (g f).name = f.name) :
    (modLast fs g).map (·.name) = fs.map (·.name) := by
  induction fs with
  | nil => rfl
  | cons x r ih =>
    cases r with
    | nil => simp [modLast, hg]
    | cons y r => simp only [modLast, List.map_cons] at ih ⊢; rw [ih]

theorem nameInv_of_names {w w' : Writer} {L : Nat} (hn : w'.files.map (·.name) = w.files.map (·.name))
    (h : NameInv w L) : NameInv w' L := by
  have h1 : (w.files.map (·.name)).Pairwise nameLt := by
    rw [List.pairwise_map]; exact h.1
  have h2 : ∀ n ∈ w.files.map (·.name), n.1 ≤ dayOf L := by
    intro n hn'; obtain ⟨f, hf, rfl⟩ := List.mem_map.1 hn'; exact h.2 f hf
  rw [← hn] at h1 h2
  refine ⟨by rw [List.pairwise_map] at h1; exact h1, fun f hf => h2 _ (List.mem_map.2 ⟨f, hf, rfl⟩)⟩

theorem nameInv_mono {w : Writer} {L L' : Nat} (h : NameInv w L) (hL : L ≤ L') : NameInv w L' :=
  ⟨h.1, fun f hf => (h.2 f hf).trans (dayOf_mono hL)⟩

theorem nameInv_addIndex {w : Writer} {L : Nat} (s : Nat) (h : NameInv w L) : NameInv (w.addIndex s) L :=
  nameInv_of_names (modLast_map_name _ _ (fun _ => rfl)) h

theorem nameInv_append {w : Writer} {L : Nat} (items : List Item) (h : NameInv w L) : NameInv (w.append items) L :=
  nameInv_of_names (modLast_map_name _ _ (fun _ => rfl)) h

theorem last_is_max {α : Type} (R : α → α → Prop) (l : List α) (x : α) (hp : l.Pairwise R) (hl : l.getLast? = some x) :
    ∀ y ∈ l, y = x ∨ R y x := by
  obtain ⟨ys, rfl⟩ := List.getLast?_eq_some_iff.1 hl
  intro y hy
  rcases List.mem_append.1 hy with hy | hy
  · exact Or.inr ((List.pairwise_append.1 hp).2.2 y hy x (by simp))
  · simp only [List.mem_singleton] at hy; exact Or.inl hy

/-- the name chosen by `nextFileNameOfTime` is greater than every existing name -/
theorem nextName_gt (fs : Dir) (ts : Nat) (hp : fs.Pairwise fileLt) (hd : ∀ f ∈ fs, f.name.1 ≤ dayOf (ts / 1000)) :
    ∀ f ∈ fs, nameLt f.name (nextName fs ts) ∧ (nextName fs ts).1 = dayOf (ts / 1000) := by
  intro f hf
  have hday : (nextName fs ts).1 = dayOf (ts / 1000) := by
    unfold nextName; dsimp only; split <;> rfl
  refine ⟨?_, hday⟩
  rcases Nat.lt_or_ge f.name.1 (dayOf (ts / 1000)) with hlt | hge
  · exact Or.inl (by rw [hday]; exact hlt)
  · have heq : f.name.1 = dayOf (ts / 1000) := le_antisymm (hd f hf) hge
    have hfF : f ∈ fs.filter (fun g => g.name.1 == dayOf (ts / 1000)) := by
      rw [List.mem_filter]; exact ⟨hf, by simp [heq]⟩
    unfold nextName
    dsimp only
    cases hl : (fs.filter fun g => g.name.1 == dayOf (ts / 1000)).getLast? with
    | none =>
      rw [List.getLast?_eq_none_iff] at hl
      rw [hl] at hfF; simp at hfF
    | some g =>
      simp only
      have hpF := hp.sublist (List.filter_sublist (l := fs) (p := fun g => g.name.1 == dayOf (ts / 1000)))
      have hg : g ∈ fs.filter (fun g => g.name.1 == dayOf (ts / 1000)) := List.mem_of_getLast? hl
      have hgd : g.name.1 = dayOf (ts / 1000) := by
        have := (List.mem_filter.1 hg).2; simpa using this
      refine Or.inr ⟨heq, ?_⟩
      rcases last_is_max fileLt _ g hpF hl f hfF with rfl | hlt
      · exact Nat.lt_succ_self _
      · rcases hlt with h1 | ⟨_, h2⟩
        · omega
        · exact Nat.lt_succ_of_lt h2

theorem nameInv_roll {w : Writer} {L : Nat} (ts : Nat) (h : NameInv w L) (hL : L ≤ ts / 1000) :
    NameInv (w.roll ts) (ts / 1000) := by
  have hgt := nextName_gt w.files ts h.1 (fun f hf => (h.2 f hf).trans (dayOf_mono hL))
  unfold NameInv Writer.roll
  dsimp only
  constructor
  · rw [List.pairwise_append]
    refine ⟨h.1.sublist (List.drop_sublist _ _), List.pairwise_singleton _ _, ?_⟩
    intro a ha b hb
    simp only [List.mem_singleton] at hb
    subst hb
    exact (hgt a (List.mem_of_mem_drop ha)).1
  · intro f hf
    rcases List.mem_append.1 hf with hf | hf
    · exact (h.2 f (List.mem_of_mem_drop hf)).trans (dayOf_mono hL)
    · simp only [List.mem_singleton] at hf
      subst hf
      show (nextName w.files ts).1 ≤ _
      have hday : (nextName w.files ts).1 = dayOf (ts / 1000) := by
        unfold nextName; dsimp only; split <;> rfl
      rw [hday]

theorem nameInv_rollIf {w : Writer} {L : Nat} (c : Bool) (ts : Nat) (h : NameInv w L) (hL : L ≤ ts / 1000) :
    NameInv (w.rollIf c ts) (ts / 1000) := by
  unfold Writer.rollIf; split_ifs; exact nameInv_roll ts h hL; exact nameInv_mono h hL

theorem nameInv_write (w : Writer) (ts : Nat) (items : List Item) (h : NameInv w w.latestOpSec) :
    NameInv (w.write ts items) (w.write ts items).latestOpSec := by
  unfold Writer.write
  dsimp only
  split_ifs with h1 h2
  · exact h
  · refine nameInv_mono (L := ts / 1000) ?_ (le_max_right _ _)
    exact nameInv_rollIf _ _ (nameInv_append _ (nameInv_rollIf _ _ (nameInv_addIndex _ h) (by omega))) (le_refl _)
  · refine nameInv_mono (L := ts / 1000) ?_ (le_max_right _ _)
    exact nameInv_rollIf _ _ (nameInv_append _ h) (by omega)

theorem nameInv_reopen (w : Writer) (now ms mf : Nat) (h : NameInv w w.latestOpSec) (hL : w.latestOpSec ≤ now / 1000) :
    NameInv (w.reopen now ms mf) (w.reopen now ms mf).latestOpSec := by
  have h' : NameInv ({ files := w.files, latestOpSec := 0, maxSize := ms, maxFiles := mf, createdSec := now / 1000 } : Writer)
      w.latestOpSec := h
  exact nameInv_roll now h' hL

theorem nameInv_new (now a b : Nat) : NameInv (Writer.new now a b) (Writer.new now a b).latestOpSec := by
  have h' : NameInv ({ files := [], latestOpSec := 0, maxSize := a, maxFiles := b, createdSec := now / 1000 } : Writer) 0 :=
    ⟨List.Pairwise.nil, by simp⟩
  exact nameInv_roll now h' (Nat.zero_le _)

theorem nameInv_runEvents (w : Writer) (evs : List Ev) (hok : EvsOK w evs) (h : NameInv w w.latestOpSec) :
    NameInv (runEvents w evs) (runEvents w evs).latestOpSec := by
  induction evs generalizing w with
  | nil => exact h
  | cons ev r ih =>
    cases ev with
    | write ts items => exact ih (w.write ts items) hok.2.2 (nameInv_write w ts items h)
    | reopen now ms mf => exact ih (w.reopen now ms mf) hok.2.2 (nameInv_reopen w now ms mf h hok.1)

/-- the comparator as a Boolean `≤` (for `List.mergeSort`) -/
def nameLeB (a b : Name) : Bool := decide (a.1 < b.1) || (decide (a.1 = b.1) && decide (a.2 ≤ b.2))

theorem nameLeB_of_lt {a b : Name} (h : nameLt a b) : nameLeB a b = true := by
  unfold nameLeB
  rcases h with h | ⟨h1, h2⟩
  · simp [h]
  · simp [h1, Nat.le_of_lt h2]

/-! ### the line limit: beyond `maxLines` lines only the second of the previous line is continued -/

/-- `LimitRule m n last xs`: in `xs` (whose first element is line number `n`, preceded by a line of second
    `last`) every line with number `≥ m` has the second of the line before it -/
def LimitRule (m : Nat) : Nat → Nat → List Item → Prop
  | _, _, [] => True
  | n, last, it :: r => (m ≤ n → it.ts / 1000 = last) ∧ LimitRule m (n + 1) (it.ts / 1000) r

def lastSecOr (last : Nat) (a : List Item) : Nat :=
  match a.getLast? with
  | some it => it.ts / 1000
  | none => last

theorem scanFrom_rule (m : Nat) (l : List Item) (last n : Nat) : LimitRule m n last (scanFrom m l last n).1 := by
  induction l generalizing last n with
  | nil => simp [scanFrom, LimitRule]
  | cons it r ih =>
    unfold scanFrom
    split_ifs with h
    · trivial
    · refine ⟨fun hm => ?_, ih _ _⟩
      by_contra hne
      exact h ⟨hm, hne⟩

theorem limitRule_append (m : Nat) (a b : List Item) (n last : Nat) (ha : LimitRule m n last a)
    (hb : LimitRule m (n + a.length) (lastSecOr last a) b) : LimitRule m n last (a ++ b) := by
  induction a generalizing n last with
  | nil => simpa [lastSecOr] using hb
  | cons x r ih =>
    refine ⟨ha.1, ih (n + 1) (x.ts / 1000) ha.2 ?_⟩
    have e1 : n + 1 + r.length = n + (x :: r).length := by simp; omega
    have e2 : lastSecOr (x.ts / 1000) r = lastSecOr last (x :: r) := by
      unfold lastSecOr
      cases r with
      | nil => simp
      | cons y r' =>
        rw [List.getLast?_cons_cons]
        cases h : (y :: r').getLast? with
        | none => simp [List.getLast?_eq_none_iff] at h
        | some z => rfl
    rw [e1, e2]; exact hb

theorem readFromRest_rule (m : Nat) (r : List (List Item)) (acc : List Item) (h : LimitRule m 0 0 acc) :
    LimitRule m 0 0 (readFromRest m r acc) := by
  induction r generalizing acc with
  | nil => simpa [readFromRest] using h
  | cons its r ih =>
    unfold readFromRest
    split_ifs with hl
    · exact h
    · have hx := scanFrom_rule m its (latestSecond acc) acc.length
      have hacc : LimitRule m 0 0 (acc ++ (scanFrom m its (latestSecond acc) acc.length).1) :=
        limitRule_append m acc _ 0 0 h (by
          have e : lastSecOr 0 acc = latestSecond acc := rfl
          rw [e, Nat.zero_add]; exact hx)
      rcases hsc : scanFrom m its (latestSecond acc) acc.length with ⟨xs, c⟩
      rw [hsc] at hacc
      cases c with
      | true => exact ih _ hacc
      | false => exact hacc

theorem readFromItems_rule (m : Nat) (L : List (List Item)) : LimitRule m 0 0 (readFromItems m L) := by
  cases L with
  | nil => trivial
  | cons its r =>
    have hx := scanFrom_rule m its 0 0
    have e : readFromItems m (its :: r)
        = if (scanFrom m its 0 0).2 = true then readFromRest m r (scanFrom m its 0 0).1 else (scanFrom m its 0 0).1 := by
      simp only [readFromItems]
    rw [e]
    split_ifs
    · exact readFromRest_rule m r _ hx
    · exact hx

end Sentinel.MetricLog
