import Sentinel.Lemmas.FlowReject
namespace Sentinel.FlowReject.Abs
open Sentinel.FlowReject

/-! ## abstract small-step model: any number of threads, any schedule, window rolls in between

`S` is the pass count of the rule's current window. A thread checks (`S + b ≤ T`), later records
(`S += b`); a window roll may lower `S` at any moment. At most `k` threads are between check and record. -/

inductive Pc where | idle | checked | recorded | rejected
deriving DecidableEq, Repr

structure AThread where
  b : Nat
  pc : Pc
deriving Repr

structure Cfg where
  S : Nat
  th : List AThread
deriving Repr

inductive Act where
  | thread (i : Nat)
  | roll (S' : Nat)        -- the window moved on: the sum drops to `S'`

def inPath (t : AThread) : Nat := if t.pc = .checked then 1 else 0
def owed (t : AThread) : Nat := if t.pc = .checked then t.b else 0
def nChecked (c : Cfg) : Nat := (c.th.map inPath).sum

def step (T k : Nat) (c : Cfg) : Act → Cfg
  | .roll S' => if S' ≤ c.S then { c with S := S' } else c
  | .thread i =>
    match c.th[i]? with
    | some t =>
      match t.pc with
      | .idle =>
        if nChecked c < k then
          (if c.S + t.b ≤ T then { c with th := c.th.set i { t with pc := .checked } }
           else { c with th := c.th.set i { t with pc := .rejected } })
        else c
      | .checked => { S := c.S + t.b, th := c.th.set i { t with pc := .recorded } }
      | _ => c
    | none => c

def run (T k : Nat) (c : Cfg) : List Act → Cfg
  | [] => c
  | a :: r => run T k (step T k c a) r

structure Inv (T k B : Nat) (c : Cfg) : Prop where
  pot : c.S + (c.th.map owed).sum ≤ T + (k - 1) * B
  small : ∀ t ∈ c.th, t.b ≤ B

theorem owed_le (B : Nat) (l : List AThread) (h : ∀ t ∈ l, t.b ≤ B) : (l.map owed).sum ≤ (l.map inPath).sum * B := by
  induction l with
  | nil => simp
  | cons a r ih =>
    have := ih (fun t ht => h t (List.mem_cons_of_mem _ ht))
    have ha := h a (List.mem_cons_self ..)
    simp only [List.map_cons, List.sum_cons, Nat.add_mul]
    have : owed a ≤ inPath a * B := by unfold owed inPath; split_ifs <;> simp [ha]
    omega

theorem step_inv (T k B : Nat) (c : Cfg) (a : Act) (inv : Inv T k B c) : Inv T k B (step T k c a) := by
  obtain ⟨hp, hs⟩ := inv
  cases a with
  | roll S' =>
    simp only [step]
    split_ifs with h
    · exact ⟨by dsimp only; omega, hs⟩
    · exact ⟨hp, hs⟩
  | thread i =>
    simp only [step]
    cases hi : c.th[i]? with
    | none => exact ⟨hp, hs⟩
    | some t =>
      have hmem : t ∈ c.th := List.mem_of_getElem? hi
      have hsmall : ∀ t' : AThread, t'.b = t.b → ∀ x ∈ c.th.set i t', x.b ≤ B := by
        intro t' hb x hx
        rcases List.mem_or_eq_of_mem_set hx with h | h
        · exact hs x h
        · subst h; rw [hb]; exact hs t hmem
      simp only
      cases hpc : t.pc with
      | idle =>
        simp only
        have h0 : owed t = 0 := by simp [owed, hpc]
        split_ifs with h1 h2
        · have hsum := sum_map_set owed c.th i t { t with pc := .checked } hi
          have h1' : owed { t with pc := .checked } = t.b := by simp [owed]
          have hol := owed_le B c.th hs
          have : (c.th.map inPath).sum * B ≤ (k - 1) * B := Nat.mul_le_mul_right _ (by unfold nChecked at h1; omega)
          exact ⟨by dsimp only; omega, hsmall _ rfl⟩
        · have hsum := sum_map_set owed c.th i t { t with pc := .rejected } hi
          have h1' : owed { t with pc := .rejected } = 0 := by simp [owed]
          exact ⟨by dsimp only; omega, hsmall _ rfl⟩
        · exact ⟨hp, hs⟩
      | checked =>
        simp only
        have hsum := sum_map_set owed c.th i t { t with pc := .recorded } hi
        have h0 : owed t = t.b := by simp [owed, hpc]
        have h1' : owed { t with pc := .recorded } = 0 := by simp [owed]
        exact ⟨by dsimp only; omega, hsmall _ rfl⟩
      | recorded => exact ⟨hp, hs⟩
      | rejected => exact ⟨hp, hs⟩

theorem run_inv (T k B : Nat) (c : Cfg) (acts : List Act) (inv : Inv T k B c) : Inv T k B (run T k c acts) := by
  induction acts generalizing c with
  | nil => exact inv
  | cons a r ih => exact ih _ (step_inv T k B c a inv)

end Sentinel.FlowReject.Abs
