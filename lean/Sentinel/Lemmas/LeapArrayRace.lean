import Mathlib.Tactic
import Sentinel.Model.LeapArrayRace
/-!
# Lemmas about the small-step leap-array model `Sentinel.LAR` (C09)

* `Inv` — the no-invention invariant: every counter word is bounded by its ghost total, every reader's
  accumulator by the ghost totals of the slots it has already read, every returned value by the ghost
  total at the moment it returned.  `exec_inv`, `run_inv`: preserved by every step of every thread.
-/
namespace Sentinel.LAR

/-! ## `sumTo` -/

theorem sumTo_mono {f g : Nat → Nat} (h : ∀ i, f i ≤ g i) (m : Nat) : sumTo f m ≤ sumTo g m := by
  induction m with
  | zero => simp [sumTo]
  | succ m ih => simp only [sumTo]; have := h m; omega

theorem sumTo_le_of_le (f : Nat → Nat) {m m' : Nat} (h : m ≤ m') : sumTo f m ≤ sumTo f m' := by
  induction m' with
  | zero => have : m = 0 := by omega
            subst this; exact le_refl _
  | succ k ih =>
    rcases Nat.lt_or_ge m (k + 1) with h1 | h1
    · have := ih (by omega); simp only [sumTo]; omega
    · have : m = k + 1 := by omega
      subst this; exact le_refl _

/-! ## the invariant -/

/-- the slot a reader will read next (or `n` when it has read them all) -/
def bound (rem : List Nat) (n : Nat) : Nat :=
  match rem with
  | [] => n
  | j :: _ => j

/-- thread-local part of the invariant, per program counter -/
def pcOk (sh : Shared) (ev : Nat) : Pc → Prop
  | .mbGet rem acc =>
      rem.Pairwise (· < ·) ∧ (∀ j ∈ rem, j < sh.n) ∧ acc ≤ sumTo (fun i => sh.tot i ev) (bound rem sh.n)
  | .valGet j col => j < sh.n ∧ col.Pairwise (· < ·) ∧ ∀ i ∈ col, i < j
  | .depLoad j col => j < sh.n ∧ col.Pairwise (· < ·) ∧ ∀ i ∈ col, i < j
  | _ => True

def nextOk (sh : Shared) (ev : Nat) : Next → Prop
  | .pc p => pcOk sh ev p
  | .fin (some v) => v ≤ sh.performed ev
  | .fin none => True

/-- a completed operation: a returned value is bounded by the ghost total at the moment of return,
    which is bounded by the current ghost total -/
def resOk (sh : Shared) (r : Res) : Prop :=
  (∀ v, r.val = some v → v ≤ r.totAt) ∧ r.totAt ≤ sh.performed r.op.ev

def thOk (sh : Shared) (t : Th) : Prop :=
  (∀ r ∈ t.res, resOk sh r) ∧ ∀ f, t.cur = some f → pcOk sh f.op.ev f.pc

structure Inv (c : Cfg) : Prop where
  le : ∀ i k, c.sh.cnt i k ≤ c.sh.tot i k
  th : ∀ t ∈ c.th, thOk c.sh t

/-- `sh'` is a successor of `sh`: same geometry, ghost totals only grow -/
def Grows (sh sh' : Shared) : Prop := sh'.n = sh.n ∧ ∀ i k, sh.tot i k ≤ sh'.tot i k

theorem Grows.refl (sh : Shared) : Grows sh sh := ⟨rfl, fun _ _ => le_refl _⟩

theorem performed_mono {sh sh' : Shared} (g : Grows sh sh') (ev : Nat) : sh.performed ev ≤ sh'.performed ev := by
  unfold Shared.performed
  rw [g.1]
  exact sumTo_mono (fun i => g.2 i ev) _

theorem pcOk_mono {sh sh' : Shared} (g : Grows sh sh') (ev : Nat) (p : Pc) (h : pcOk sh ev p) : pcOk sh' ev p := by
  cases p <;> simp only [pcOk] at h ⊢
  case valGet j col => rw [g.1]; exact h
  case depLoad j col => rw [g.1]; exact h
  case mbGet rem acc =>
    obtain ⟨h1, h2, h3⟩ := h
    refine ⟨h1, ?_, ?_⟩
    · rw [g.1]; exact h2
    · rw [g.1]; exact le_trans h3 (sumTo_mono (fun i => g.2 i ev) _)

theorem resOk_mono {sh sh' : Shared} (g : Grows sh sh') (r : Res) (h : resOk sh r) : resOk sh' r :=
  ⟨h.1, le_trans h.2 (performed_mono g _)⟩

theorem thOk_mono {sh sh' : Shared} (g : Grows sh sh') (t : Th) (h : thOk sh t) : thOk sh' t :=
  ⟨fun r hr => resOk_mono g r (h.1 r hr), fun f hf => pcOk_mono g _ _ (h.2 f hf)⟩

theorem nextOk_mono {sh sh' : Shared} (g : Grows sh sh') (ev : Nat) (nx : Next) (h : nextOk sh ev nx) : nextOk sh' ev nx := by
  cases nx with
  | pc p => exact pcOk_mono g ev p h
  | fin r =>
    cases r with
    | none => trivial
    | some v => exact le_trans h (performed_mono g ev)

/-- every action keeps `cnt ≤ tot` and only grows the ghost -/
theorem apply_ok (sh : Shared) (a : Act) (h : ∀ i k, sh.cnt i k ≤ sh.tot i k) :
    (∀ i k, (sh.apply a).cnt i k ≤ (sh.apply a).tot i k) ∧ Grows sh (sh.apply a) := by
  cases a <;> simp only [Shared.apply, Grows, upd2, true_and]
  case none => exact ⟨h, fun _ _ => le_refl _⟩
  case lock => exact ⟨h, fun _ _ => le_refl _⟩
  case unlock => exact ⟨h, fun _ _ => le_refl _⟩
  case setStart => exact ⟨h, fun _ _ => le_refl _⟩
  case setMinRt => exact ⟨h, fun _ _ => le_refl _⟩
  case setMaxConc => exact ⟨h, fun _ _ => le_refl _⟩
  case zeroCnt i k =>
    refine ⟨fun i' k' => ?_, fun _ _ => le_refl _⟩
    have := h i' k'
    split_ifs <;> omega
  case addCnt i k a =>
    refine ⟨fun i' k' => ?_, fun i' k' => ?_⟩
    · have := h i' k'; have := h i k
      split_ifs with hc
      · obtain ⟨rfl, rfl⟩ := hc; omega
      · exact h i' k'
    · split_ifs with hc
      · obtain ⟨rfl, rfl⟩ := hc; omega
      · exact le_refl _

theorem firstVal_ok (sh : Shared) (ev : Nat) : nextOk sh ev (firstVal sh) := by
  unfold firstVal
  split_ifs with h
  · simp [nextOk]
  · simp only [nextOk, pcOk]
    exact ⟨Nat.pos_of_ne_zero h, List.Pairwise.nil, by simp⟩

theorem afterCur_ok (sh : Shared) (op : OpSpec) (ok : Bool) : nextOk sh op.ev (afterCur sh op ok) := by
  cases op <;> simp only [afterCur]
  case add => split_ifs <;> simp [nextOk, pcOk]
  case conc => split_ifs <;> simp [nextOk, pcOk]
  case count => exact firstVal_ok sh _
  case viewsum => exact firstVal_ok sh _

theorem afterScan_ok (sh : Shared) (ev : Nat) (col : List Nat) (h1 : col.Pairwise (· < ·)) (h2 : ∀ j ∈ col, j < sh.n) :
    nextOk sh ev (afterScan col) := by
  cases col with
  | nil => simp [afterScan, nextOk]
  | cons a r => simp only [afterScan, nextOk, pcOk]; exact ⟨h1, h2, Nat.zero_le _⟩

/-- one step inside an operation keeps the thread-local invariant (w.r.t. the shared state *before* the action) -/
theorem decide_ok (sh : Shared) (op : OpSpec) (now : Nat) (pc : Pc)
    (hI : ∀ i k, sh.cnt i k ≤ sh.tot i k) (hp : pcOk sh op.ev pc) :
    nextOk sh op.ev (decideStep sh op now pc).2 := by
  cases pc <;> simp only [decideStep]
  case curLoad =>
    split_ifs
    · exact afterCur_ok sh op true
    · simp [nextOk, pcOk]
    · exact afterCur_ok sh op true
    · exact afterCur_ok sh op false
  case tryLock => split_ifs <;> simp [nextOk, pcOk]
  case spin => simp [nextOk, pcOk]
  case resetStart => simp [nextOk, pcOk]
  case resetCnt k => split_ifs <;> simp [nextOk, pcOk]
  case resetMinRt => simp [nextOk, pcOk]
  case resetMaxConc => simp [nextOk, pcOk]
  case unlock => exact afterCur_ok sh op true
  case mbAdd => cases op <;> simp only [] <;> (try split_ifs) <;> simp [nextOk, pcOk]
  case minrtLoad => cases op <;> simp only [] <;> (try split_ifs) <;> simp [nextOk, pcOk]
  case minrtStore => cases op <;> simp [nextOk]
  case maxconcLoad => cases op <;> simp only [] <;> (try split_ifs) <;> simp [nextOk, pcOk]
  case maxconcStore => cases op <;> simp [nextOk]
  case valGet j col => simpa [nextOk, pcOk] using hp
  case depLoad j col =>
    simp only [pcOk] at hp
    obtain ⟨hj, hpw, hlt⟩ := hp
    -- whatever list has been collected after this slot
    have key : ∀ col' : List Nat, col'.Pairwise (· < ·) → (∀ i ∈ col', i < j + 1) →
        nextOk sh op.ev (if j + 1 < sh.n then .pc (.valGet (j + 1) col') else afterScan col') := by
      intro col' hpw' hlt'
      by_cases hn : j + 1 < sh.n
      · rw [if_pos hn]; simp only [nextOk, pcOk]; exact ⟨hn, hpw', hlt'⟩
      · rw [if_neg hn]
        exact afterScan_ok sh _ _ hpw' (fun i hi => by have := hlt' i hi; omega)
    have hk : ∀ keep : Bool, (if keep then col ++ [j] else col).Pairwise (· < ·) ∧
        ∀ i ∈ (if keep then col ++ [j] else col), i < j + 1 := by
      intro keep
      cases keep
      · refine ⟨by simpa using hpw, fun i hi => ?_⟩
        simp at hi; have := hlt i hi; omega
      · refine ⟨?_, fun i hi => ?_⟩
        · simp only [if_true]
          rw [List.pairwise_append]
          refine ⟨hpw, List.pairwise_singleton _ _, ?_⟩
          intro a ha b hb
          simp at hb; subst hb; exact hlt a ha
        · simp at hi
          rcases hi with hi | hi
          · have := hlt i hi; omega
          · omega
    exact key _ (hk _).1 (hk _).2
  case mbGet rem acc =>
    simp only [pcOk] at hp
    obtain ⟨hpw, hlt, hacc⟩ := hp
    cases rem with
    | nil => simp only [nextOk, Shared.performed]; simpa [bound] using hacc
    | cons j r =>
      simp only [bound] at hacc
      have hj : j < sh.n := hlt j (List.mem_cons_self ..)
      have h1 : acc + sh.cnt j op.ev ≤ sumTo (fun i => sh.tot i op.ev) (j + 1) := by
        simp only [sumTo]; have := hI j op.ev; omega
      cases r with
      | nil =>
        simp only [nextOk]
        exact le_trans h1 (sumTo_le_of_le _ hj)
      | cons j2 r2 =>
        simp only [nextOk, pcOk, bound]
        rw [List.pairwise_cons] at hpw
        refine ⟨hpw.2, fun i hi => hlt i (List.mem_cons_of_mem _ hi), ?_⟩
        have : j < j2 := hpw.1 j2 (List.mem_cons_self ..)
        exact le_trans h1 (sumTo_le_of_le _ this)

theorem mkRes_ok (sh : Shared) (op : OpSpec) (now : Nat) (r : Option Nat) (h : nextOk sh op.ev (.fin r)) :
    resOk sh (mkRes sh op now r) := by
  refine ⟨?_, le_refl _⟩
  intro v hv
  simp only [mkRes] at hv ⊢
  subst hv
  exact h

theorem zeroRes_ok (sh : Shared) (op : OpSpec) : nextOk sh op.ev (.fin (zeroRes op)) := by
  cases op <;> simp [zeroRes, nextOk]

theorem firstPc_ok (sh : Shared) (op : OpSpec) : nextOk sh op.ev (firstPc sh op) := by
  cases op <;> simp only [firstPc]
  case viewsum => exact firstVal_ok sh _
  all_goals simp [nextOk, pcOk]

theorem startNext_ok (sh : Shared) (clock : Nat) (prog : List OpSpec) (res : List Res)
    (h : ∀ r ∈ res, resOk sh r) : thOk sh (startNext sh clock prog res) := by
  induction prog generalizing res with
  | nil => exact ⟨h, fun f hf => by simp [startNext] at hf⟩
  | cons op rest ih =>
    simp only [startNext]
    split_ifs with hc
    · apply ih
      intro r hr
      rcases List.mem_append.mp hr with hr | hr
      · exact h r hr
      · simp at hr; subst hr; exact mkRes_ok sh op 0 _ (zeroRes_ok sh op)
    · have hf := firstPc_ok sh op
      cases hfp : firstPc sh op with
      | pc p =>
        rw [hfp] at hf
        refine ⟨h, fun f hf' => ?_⟩
        simp at hf'; subst hf'; exact hf
      | fin r =>
        rw [hfp] at hf
        apply ih
        intro r' hr
        rcases List.mem_append.mp hr with hr | hr
        · exact h r' hr
        · simp at hr; subst hr; exact mkRes_ok sh op clock _ hf

/-- a step of a thread keeps its own invariant, `cnt ≤ tot`, and only grows the ghost -/
theorem stepTh_ok (sh : Shared) (clock : Nat) (t : Th) (hI : ∀ i k, sh.cnt i k ≤ sh.tot i k) (ht : thOk sh t) :
    (∀ i k, (stepTh sh clock t).1.cnt i k ≤ (stepTh sh clock t).1.tot i k) ∧ Grows sh (stepTh sh clock t).1
      ∧ thOk (stepTh sh clock t).1 (stepTh sh clock t).2 := by
  unfold stepTh
  cases hc : t.cur with
  | none => exact ⟨hI, Grows.refl sh, startNext_ok sh clock _ _ ht.1⟩
  | some f =>
    simp only []
    have hp := ht.2 f hc
    have hd := decide_ok sh f.op f.now f.pc hI hp
    obtain ⟨hI', hg⟩ := apply_ok sh (decideStep sh f.op f.now f.pc).1 hI
    have hd' := nextOk_mono hg _ _ hd
    cases hn : (decideStep sh f.op f.now f.pc).2 with
    | pc p =>
      rw [hn] at hd'
      refine ⟨hI', hg, fun r hr => resOk_mono hg r (ht.1 r hr), fun f' hf' => ?_⟩
      simp at hf'; subst hf'; exact hd'
    | fin r =>
      rw [hn] at hd'
      refine ⟨hI', hg, ?_⟩
      apply startNext_ok
      intro r' hr
      rcases List.mem_append.mp hr with hr | hr
      · exact resOk_mono hg r' (ht.1 r' hr)
      · simp at hr; subst hr; exact mkRes_ok _ f.op f.now _ hd'

theorem exec_inv (c : Cfg) (e : Entry) (inv : Inv c) : Inv (c.exec e) := by
  cases e with
  | tick d => exact ⟨inv.le, inv.th⟩
  | step i =>
    simp only [Cfg.exec]
    cases hth : c.th[i]? with
    | none => exact inv
    | some t =>
      simp only []
      have hmem : t ∈ c.th := List.mem_of_getElem? hth
      obtain ⟨h1, h2, h3⟩ := stepTh_ok c.sh c.clock t inv.le (inv.th t hmem)
      refine ⟨h1, fun u hu => ?_⟩
      rcases List.mem_or_eq_of_mem_set hu with hu | rfl
      · exact thOk_mono h2 u (inv.th u hu)
      · exact h3

theorem run_inv (c : Cfg) (s : List Entry) (inv : Inv c) : Inv (run c s) := by
  induction s generalizing c with
  | nil => exact inv
  | cons e r ih => exact ih _ (exec_inv c e inv)

/-- a freshly created array with threads that have not started satisfies the invariant -/
theorem inv_init (n L Iv now clock : Nat) (progs : List (List OpSpec)) :
    Inv { sh := mkShared n L Iv now, clock := clock, th := progs.map mkThread } := by
  refine ⟨fun _ _ => le_refl _, fun t ht => ?_⟩
  simp only [List.mem_map] at ht
  obtain ⟨p, _, rfl⟩ := ht
  exact ⟨fun r hr => by simp [mkThread] at hr, fun f hf => by simp [mkThread] at hf⟩

/-! ## invariants of the shared words alone -/

theorem stepTh_sh (sh : Shared) (clock : Nat) (t : Th) : ∃ a, (stepTh sh clock t).1 = sh.apply a := by
  unfold stepTh
  cases t.cur with
  | none => exact ⟨.none, rfl⟩
  | some f =>
    simp only []
    cases (decideStep sh f.op f.now f.pc).2 <;> exact ⟨_, rfl⟩

theorem exec_sh (c : Cfg) (e : Entry) : ∃ a, (c.exec e).sh = c.sh.apply a := by
  cases e with
  | tick d => exact ⟨.none, rfl⟩
  | step i =>
    simp only [Cfg.exec]
    cases c.th[i]? with
    | none => exact ⟨.none, rfl⟩
    | some t => exact stepTh_sh c.sh c.clock t

/-- a property of the shared words kept by every action is kept by every schedule -/
theorem run_sh_inv (P : Shared → Prop) (hP : ∀ sh a, P sh → P (sh.apply a)) (c : Cfg) (s : List Entry)
    (h : P c.sh) : P (run c s).sh := by
  induction s generalizing c with
  | nil => exact h
  | cons e r ih =>
    apply ih
    obtain ⟨a, ha⟩ := exec_sh c e
    rw [ha]; exact hP _ _ h

/-- exact accounting of a counter word: while it is being recycled (`dirty`) everything added to it is
    `lost`; otherwise its content plus what was lost is exactly what has been added since the slot's start
    was stored -/
def ExactInv (sh : Shared) : Prop :=
  ∀ i k, if sh.dirty i k = true then sh.lost i k = sh.fresh i k else sh.cnt i k + sh.lost i k = sh.fresh i k

theorem apply_exact (sh : Shared) (a : Act) (h : ExactInv sh) : ExactInv (sh.apply a) := by
  intro i k
  have hik := h i k
  cases a <;> simp only [Shared.apply, upd2]
  case none => exact hik
  case lock => exact hik
  case unlock => exact hik
  case setMinRt => exact hik
  case setMaxConc => exact hik
  case setStart i0 s =>
    by_cases hi : i = i0
    · simp [hi]
    · simp only [hi, if_false]; exact hik
  case zeroCnt i0 k0 =>
    by_cases hc : i = i0 ∧ k = k0
    · obtain ⟨rfl, rfl⟩ := hc
      simp only [and_self, if_true]
      split_ifs at hik ⊢ <;> simp_all <;> omega
    · simp only [hc, if_false]; exact hik
  case addCnt i0 k0 a0 =>
    by_cases hc : i = i0 ∧ k = k0
    · obtain ⟨rfl, rfl⟩ := hc
      simp only [and_self, if_true]
      split_ifs at hik ⊢ <;> omega
    · simp only [hc, if_false]; exact hik

end Sentinel.LAR
