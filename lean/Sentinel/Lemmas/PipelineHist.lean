import Mathlib.Tactic
import Sentinel.Lemmas.Pipeline
import Sentinel.Lemmas.Entry
import Sentinel.Lemmas.EntryLedger
/-!
# History-level lemmas about the integrated pipeline

* `Led`: the statistic component `ent` is C01's `Entry.runR false` of the ghost history `eh`, which is time-monotone and
  free of recovered panics — invariant of every op (`inv_step`, `inv_run`);
* `IsoFresh`: handles of the isolation component carry used ids — invariant; with it every pipeline op is a (possibly empty)
  list of ops **of the isolation model itself** (`step_iso`, `run_iso`);
* the breaker component moves by `CB.step` only (`step_cb`).
-/
namespace Sentinel.Pipe
open Sentinel.LA

variable {R : Type}

/-! ## the ledger invariant -/

/-- no entry of the history went through a recovered panic (the built-in chain with hashable arguments) -/
def StdHist (h : List Entry.TOp) : Prop := ∀ x ∈ h, ∀ e, x.2 = Entry.Op.entry e → Entry.outcome e.chain ≠ Entry.Out.panic

structure Led (s : St R) : Prop where
  ent : s.ent = Entry.runR false s.t0 s.eh
  mono : Entry.MonoR s.t0 s.eh
  pos : 0 < s.t0
  last : Entry.lastT s.t0 s.eh ≤ s.now
  std : StdHist s.eh

/-- ops that `entStep` may push -/
def StdOp : Entry.Op → Prop
  | .entry e => Entry.outcome e.chain ≠ Entry.Out.panic
  | _ => True

theorem led_entStep (s : St R) (op : Entry.Op) (h : Led s) (hop : StdOp op) : Led (entStep s op) := by
  refine ⟨?_, ?_, h.pos, ?_, ?_⟩
  · simp only [entStep, Entry.runR]
    rw [h.ent]
  · exact ⟨h.last, h.mono⟩
  · simp [entStep, Entry.lastT]
  · intro x hx e he
    simp only [entStep, List.mem_cons] at hx
    rcases hx with rfl | hx
    · simp only at he
      subst he
      exact hop
    · exact h.std x hx e he

theorem stdOp_entry (q : Req) (b : Bool) : StdOp (entryOp q b) := by
  cases b <;> simp [StdOp, entryOp, stdChain, Entry.outcome, Entry.preRun, Entry.ruleOut]

theorem stdOp_ghost (id : Nat) (res : String) :
    StdOp (.entry { id := id, res := res, inbound := false, batch := 0, args := [], chain := nodeOnlyChain }) := by
  simp [StdOp, nodeOnlyChain, Entry.outcome, Entry.preRun, Entry.ruleOut]

/-- `Led` only looks at these fields -/
theorem led_congr {s s' : St R} (h : Led s) (h1 : s'.ent = s.ent) (h2 : s'.eh = s.eh) (h3 : s'.t0 = s.t0) (h4 : s.now ≤ s'.now) :
    Led s' :=
  ⟨by rw [h1, h2, h3]; exact h.ent, by rw [h2, h3]; exact h.mono, by rw [h3]; exact h.pos,
   by rw [h2, h3]; exact le_trans h.last h4, by rw [h2]; exact h.std⟩

theorem led_ghostNodes (rs : List FlowReject.Rule) (s : St R) (h : Led s) :
    Led (ghostNodes s rs) ∧ (ghostNodes s rs).now = s.now ∧ (ghostNodes s rs).started = s.started := by
  induction rs generalizing s with
  | nil => exact ⟨h, rfl, rfl⟩
  | cons r rs ih =>
    simp only [ghostNodes]
    split_ifs
    · have h1 := led_entStep s _ h (stdOp_ghost (2 * s.ghosts) (rname r.src))
      have h2 : Led ({ entStep s (.entry { id := 2 * s.ghosts, res := rname r.src, inbound := false, batch := 0, args := [],
                                            chain := nodeOnlyChain }) with ghosts := s.ghosts + 1 } : St R) :=
        led_congr h1 rfl rfl rfl (le_refl _)
      obtain ⟨i1, i2, i3⟩ := ih _ h2
      exact ⟨i1, by rw [i2]; rfl, by rw [i3]; rfl⟩
    · exact ih s h

section step
variable [LT R] [∀ a b : R, Decidable (a < b)]

/-- the invariant of every reachable state: once the case has started, the ledger facts hold -/
def Inv (s : St R) : Prop := s.started = true → Led s

theorem inv_step (A : System.Arith R) (s : St R) (o : Op R) (h : Inv s) : Inv (step A s o).1 := by
  cases o with
  | clock t =>
    simp only [step]
    split_ifs with h0 h1 h2
    · exact h
    · intro _
      have hp : 0 < t := Nat.pos_of_ne_zero h0
      exact ⟨rfl, trivial, hp, le_refl _, fun x hx => by cases hx⟩
    · exact h
    · intro hs
      have hst : s.started = true := hs
      exact led_congr (h hst) rfl rfl rfl (by simpa using h2)
  | loadSys rs =>
    simp only [step]
    split_ifs
    · exact h
    · intro hs; exact led_congr (h hs) rfl rfl rfl (le_refl _)
  | loadFlow rs =>
    simp only [step]
    split_ifs with hc
    · exact h
    · intro _
      have hst : s.started = true := by
        cases hh : s.started
        · simp [hh] at hc
        · rfl
      obtain ⟨i1, i2, _⟩ := led_ghostNodes rs s (h hst)
      exact led_congr i1 rfl rfl rfl (by simp [loadFlow, i2])
  | loadIso rs =>
    simp only [step]
    split_ifs
    · exact h
    · intro hs; exact led_congr (h hs) rfl rfl rfl (le_refl _)
  | loadHot rs =>
    simp only [step]
    split_ifs
    · exact h
    · intro hs; exact led_congr (h hs) rfl rfl rfl (le_refl _)
  | loadCb rs =>
    simp only [step]
    split_ifs
    · exact h
    · intro hs; exact led_congr (h hs) rfl rfl rfl (le_refl _)
  | sysLoad x => intro hs; exact led_congr (h hs) rfl rfl rfl (le_refl _)
  | sysCpu x => intro hs; exact led_congr (h hs) rfl rfl rfl (le_refl _)
  | entry q =>
    simp only [step]
    split_ifs with hc
    · exact h
    · intro _
      have hst : s.started = true := by
        cases hh : s.started
        · simp [hh] at hc
        · rfl
      have hl := led_entStep s (entryOp q (decision A s q).isSome) (h hst) (stdOp_entry _ _)
      obtain ⟨e1, e2⟩ := entry_ent A s q
      obtain ⟨_, _, _, e3, e4, _⟩ := entry_static A s q
      exact led_congr hl (by rw [e1]; rfl) (by rw [e2]; rfl) (by rw [e4]; rfl) (by rw [e3]; exact le_refl _)
  | trace id =>
    simp only [step]
    split_ifs with hc
    · exact h
    · intro _
      have hst : s.started = true := by simpa using hc
      exact led_entStep s _ (h hst) trivial
  | exit id err =>
    simp only [step]
    split_ifs with hc
    · exact h
    · intro _
      have hst : s.started = true := by simpa using hc
      exact led_congr (led_entStep s (.exit (rid id) (errOf err)) (h hst) trivial) rfl rfl rfl (le_refl _)
  | log => intro hs; exact led_congr (h hs) rfl rfl rfl (le_refl _)

theorem inv_run (A : System.Arith R) (s : St R) (os : List (Op R)) (h : Inv s) : Inv (run A s os).1 := by
  induction os generalizing s with
  | nil => exact h
  | cons o os ih => exact ih _ (inv_step A s o h)

end step

theorem ghostNodes_frame (rs : List FlowReject.Rule) (s : St R) :
    (ghostNodes s rs).iso = s.iso ∧ (ghostNodes s rs).used = s.used ∧ (ghostNodes s rs).cb = s.cb ∧
    (ghostNodes s rs).hot = s.hot ∧ (ghostNodes s rs).evs = s.evs ∧ (ghostNodes s rs).reqs = s.reqs ∧
    (ghostNodes s rs).cbLoaded = s.cbLoaded := by
  induction rs generalizing s with
  | nil => exact ⟨rfl, rfl, rfl, rfl, rfl, rfl, rfl⟩
  | cons r rs ih =>
    simp only [ghostNodes]
    split_ifs
    · obtain ⟨a, b, c, d, e, f, g⟩ := ih _
      exact ⟨a.trans rfl, b.trans rfl, c.trans rfl, d.trans rfl, e.trans rfl, f.trans rfl, g.trans rfl⟩
    · exact ih s

/-! ## isolation: every pipeline op is a (possibly empty) list of ops of the isolation model itself -/

/-- handles of the isolation component carry used ids (so that a fresh entry id is never a `dup`) -/
def IsoFresh (s : St R) : Prop := ∀ p ∈ s.iso.live, p.1 ∈ s.used

/-- the ops of `Sentinel.Iso` a pipeline op amounts to, given what the pipeline answered: a load, the entries that reach
    the isolation slot **and** are either blocked by it or finally admitted, every exit.  An entry blocked by an earlier slot
    never reaches it; an entry that passes it and is blocked by a later slot leaves no trace in it. -/
def isoOps (o : Op R) (out : Out) : List Iso.Op :=
  match o, out with
  | .loadIso rs, .none => [.load rs]
  | .entry q, .dec none => [.entry q.id (rname q.res) (UInt32.ofNat q.batch)]
  | .entry q, .dec (some (.iso _ _)) => [.entry q.id (rname q.res) (UInt32.ofNat q.batch)]
  | .exit id _, .none => [.exit id]
  | _, _ => []

/-- … and what the isolation model must answer to them -/
def isoOuts (o : Op R) (out : Out) : List Iso.Out :=
  match o, out with
  | .loadIso _, .none => [.none]
  | .entry _, .dec none => [.pass]
  | .entry _, .dec (some (.iso i tv)) => [.block i tv]
  | .exit _ _, .none => [.none]
  | _, _ => []

theorem iso_run_one (s : Iso.St) (o : Iso.Op) : Iso.run s [o] = ((Iso.step s o).1, [(Iso.step s o).2]) := by
  simp [Iso.run]

theorem iso_run_append (s : Iso.St) (a b : List Iso.Op) :
    Iso.run s (a ++ b) = ((Iso.run (Iso.run s a).1 b).1, (Iso.run s a).2 ++ (Iso.run (Iso.run s a).1 b).2) := by
  induction a generalizing s with
  | nil => simp [Iso.run]
  | cons o r ih => simp only [List.cons_append, Iso.run, ih, List.cons_append]

theorem isLive_false_of (live : List (Nat × String)) (id : Nat) (h : ∀ p ∈ live, p.1 ≠ id) : Iso.isLive live id = false := by
  simp only [Iso.isLive, List.any_eq_false, decide_eq_true_eq]
  exact fun p hp => h p hp

theorem iso_exit_live_sub (s : Iso.St) (id : Nat) : ∀ p ∈ (Iso.step s (.exit id)).1.live, p ∈ s.live := by
  intro p hp
  simp only [Iso.step] at hp
  cases h : Iso.resOfId s.live id with
  | none => rw [h] at hp; exact hp
  | some r => rw [h] at hp; exact (List.mem_filter.mp hp).1

section stepIso
variable [LT R] [∀ a b : R, Decidable (a < b)]

theorem step_iso (A : System.Arith R) (s : St R) (o : Op R) (hf : IsoFresh s) :
    Iso.run s.iso (isoOps o (step A s o).2) = ((step A s o).1.iso, isoOuts o (step A s o).2) ∧ IsoFresh (step A s o).1 := by
  cases o with
  | clock t =>
    simp only [step]
    split_ifs <;> exact ⟨rfl, hf⟩
  | loadSys rs =>
    simp only [step]
    split_ifs <;> exact ⟨rfl, hf⟩
  | loadFlow rs =>
    simp only [step]
    split_ifs
    · exact ⟨rfl, hf⟩
    · have hg := ghostNodes_frame rs s
      refine ⟨?_, ?_⟩
      · simp only [isoOps, isoOuts, Iso.run, loadFlow, hg.1]
      · intro p hp
        simp only [loadFlow, hg.1, hg.2.1] at hp ⊢
        exact hf p hp
  | loadIso rs =>
    simp only [step]
    split_ifs
    · exact ⟨rfl, hf⟩
    · exact ⟨by simp [isoOps, isoOuts, Iso.run, Iso.step], by intro p hp; exact hf p (by simpa [Iso.step] using hp)⟩
  | loadHot rs =>
    simp only [step]
    split_ifs <;> exact ⟨rfl, hf⟩
  | loadCb rs =>
    simp only [step]
    split_ifs <;> exact ⟨rfl, hf⟩
  | sysLoad x => exact ⟨rfl, hf⟩
  | sysCpu x => exact ⟨rfl, hf⟩
  | trace id =>
    simp only [step]
    split_ifs <;> exact ⟨rfl, hf⟩
  | log => exact ⟨rfl, hf⟩
  | exit id err =>
    simp only [step]
    split_ifs
    · exact ⟨rfl, hf⟩
    · refine ⟨?_, ?_⟩
      · simp only [isoOps, isoOuts, iso_run_one, exit, entStep]
        simp only [Iso.step]
        cases Iso.resOfId s.iso.live id <;> rfl
      · intro p hp
        have : p ∈ s.iso.live := iso_exit_live_sub s.iso id p (by simpa [exit, entStep] using hp)
        simpa [exit, entStep] using hf p this
  | entry q =>
    simp only [step]
    split_ifs with hc
    · exact ⟨rfl, hf⟩
    · have hu : q.id ∉ s.used := by
        intro hm
        apply hc
        simp [usedId, hm]
      have hlive : Iso.isLive s.iso.live q.id = false :=
        isLive_false_of _ _ (fun p hp e => hu (e ▸ hf p hp))
      have hused := (entry_static A s q).2.2.2.2.2.2.2.2.2
      simp only [entry_snd]
      cases hd : decision A s q with
      | none =>
        have hv := decision_none A s q hd .iso
        simp only [verdict, Option.map_eq_none_iff] at hv
        refine ⟨?_, ?_⟩
        · simp only [isoOps, isoOuts, iso_run_one]
          rw [isoAdmit_eq_step s.iso q.id (rname q.res) _ hlive hv, entry_iso, hd]
          simp
        · intro p hp
          rw [entry_iso, hd] at hp
          rw [hused]
          simp only [if_true, isoAdmit, List.mem_cons] at hp
          rcases hp with rfl | hp
          · exact List.mem_cons_self ..
          · exact List.mem_cons_of_mem _ (hf p hp)
      | some b =>
        have hfresh : IsoFresh (entry A s q).1 := by
          intro p hp
          rw [entry_iso, hd] at hp
          rw [hused]
          exact List.mem_cons_of_mem _ (hf p (by simpa using hp))
        have hiso : (entry A s q).1.iso = s.iso := by rw [entry_iso, hd]; simp
        cases b with
        | iso i tv =>
          have hv := decision_some A s q _ hd
          simp only [Blk.slot, verdict, Option.map_eq_some_iff] at hv
          obtain ⟨p, hp, hb⟩ := hv
          simp only [Blk.iso.injEq] at hb
          refine ⟨?_, hfresh⟩
          simp only [isoOps, isoOuts, iso_run_one]
          rw [isoBlock_eq_step s.iso q.id (rname q.res) _ p.1 p.2 hlive hp, hiso, hb.1, hb.2]
        | sys => exact ⟨by simp [isoOps, isoOuts, Iso.run, hiso], hfresh⟩
        | flow j => exact ⟨by simp [isoOps, isoOuts, Iso.run, hiso], hfresh⟩
        | hot => exact ⟨by simp [isoOps, isoOuts, Iso.run, hiso], hfresh⟩
        | cb j => exact ⟨by simp [isoOps, isoOuts, Iso.run, hiso], hfresh⟩

/-- the isolation-model history a pipeline history amounts to -/
def isoHist (A : System.Arith R) (s : St R) : List (Op R) → List Iso.Op
  | [] => []
  | o :: os => isoOps o (step A s o).2 ++ isoHist A (step A s o).1 os

def isoHistOuts (A : System.Arith R) (s : St R) : List (Op R) → List Iso.Out
  | [] => []
  | o :: os => isoOuts o (step A s o).2 ++ isoHistOuts A (step A s o).1 os

/-- **projection onto the isolation module**: the isolation component of the integrated state after any history is the
    isolation model's own state after the projected history, and the isolation model gives the same answers -/
theorem run_iso (A : System.Arith R) (s : St R) (os : List (Op R)) (hf : IsoFresh s) :
    Iso.run s.iso (isoHist A s os) = ((run A s os).1.iso, isoHistOuts A s os) := by
  induction os generalizing s with
  | nil => rfl
  | cons o os ih =>
    obtain ⟨h1, h2⟩ := step_iso A s o hf
    simp only [isoHist, isoHistOuts, run, iso_run_append, h1, ih _ h2]

end stepIso

end Sentinel.Pipe
