import Sentinel.Lemmas.EntryReset
/-!
# Traffic on fresh outbound resources is invisible everywhere else

`P` marks a set of resource names, `I` a set of entry ids.  An op is *inside* when it is an outbound entry on a `P`
resource with an `I` id through a chain without recording slots, or a `trace`/`exit` of an `I` id; *outside* when it
touches neither a `P` resource nor an `I` id.  If no context of the start state uses a `P` name or an `I` id, then running
ANY interleaving of inside and outside ops, and running only the outside ones, agree on the inbound node, on every node
not in `P`, on the log and on every context not in `I` (`fresh_traffic_irrelevant`).  The harness op `many n` (n entry/exit
pairs on never-seen names) is the instance "all inside ops first".
-/
namespace Sentinel.Entry
open Sentinel.LA

/-- agreement off the marked names and ids -/
structure Off (P : String → Bool) (I : Nat → Bool) (s s' : St) : Prop where
  inb : s.inb = s'.inb
  log : s.log = s'.log
  nodes : ∀ r, P r = false → findN s.nodes r = findN s'.nodes r
  ents : ∀ id, I id = false → findE s.ents id = findE s'.ents id

/-- the marked ids hold only marked, outbound, recorder-free entries; the unmarked ids hold only unmarked resources -/
structure Sep (P : String → Bool) (I : Nat → Bool) (s : St) : Prop where
  ins : ∀ id c, I id = true → findE s.ents id = some c → P c.e.res = true ∧ c.e.inbound = false ∧ c.e.chain.recs = []
  outs : ∀ id c, I id = false → findE s.ents id = some c → P c.e.res = false

def inside (P : String → Bool) (I : Nat → Bool) (x : TOp) : Bool :=
  match x.2 with
  | .entry e => P e.res && I e.id && !e.inbound && e.chain.recs.isEmpty
  | .trace id _ => I id
  | .exit id _ => I id

def outside (P : String → Bool) (I : Nat → Bool) (x : TOp) : Bool :=
  match x.2 with
  | .entry e => !P e.res && !I e.id
  | .trace id _ => !I id
  | .exit id _ => !I id

/-! ## statistic callbacks -/

/-- nodes other than the context's own, the inbound node of outbound traffic, the log of recorder-free chains: untouched -/
theorem stat_local (s : St) (c : Ctx) (t : Nat) :
    (∀ r, r ≠ c.e.res → findN (statPassed s c t).nodes r = findN s.nodes r ∧
        findN (statBlocked s c t).nodes r = findN s.nodes r ∧ findN (statCompleted s c t).nodes r = findN s.nodes r) ∧
    (c.e.inbound = false → (statPassed s c t).inb = s.inb ∧ (statBlocked s c t).inb = s.inb ∧ (statCompleted s c t).inb = s.inb) ∧
    (c.e.chain.recs = [] → (statPassed s c t).log = s.log ∧ (statBlocked s c t).log = s.log ∧ (statCompleted s c t).log = s.log) := by
  refine ⟨?_, ?_, ?_⟩
  · intro r hr
    unfold statPassed statBlocked statCompleted onStat
    have hne : ¬ c.e.res = r := fun h => hr h.symm
    cases c.e.chain.std <;> cases c.hasNode <;> cases c.e.inbound <;> simp [findN_modifyN, hne]
  · intro hi
    unfold statPassed statBlocked statCompleted onStat
    cases c.e.chain.std <;> cases c.hasNode <;> simp [hi]
  · intro hrec
    unfold statPassed statBlocked statCompleted onStat
    cases c.e.chain.std <;> cases c.hasNode <;> cases c.e.inbound <;> simp [hrec]

/-- the same callback on two states that agree off `P`, for a context on an unmarked resource -/
theorem stat_off (P : String → Bool) (s s' : St) (c : Ctx) (t : Nat) (h1 : s.inb = s'.inb) (h2 : s.log = s'.log)
    (h3 : ∀ r, P r = false → findN s.nodes r = findN s'.nodes r) (hc : P c.e.res = false) :
    ((statPassed s c t).inb = (statPassed s' c t).inb ∧ (statPassed s c t).log = (statPassed s' c t).log ∧
      ∀ r, P r = false → findN (statPassed s c t).nodes r = findN (statPassed s' c t).nodes r) ∧
    ((statBlocked s c t).inb = (statBlocked s' c t).inb ∧ (statBlocked s c t).log = (statBlocked s' c t).log ∧
      ∀ r, P r = false → findN (statBlocked s c t).nodes r = findN (statBlocked s' c t).nodes r) ∧
    ((statCompleted s c t).inb = (statCompleted s' c t).inb ∧ (statCompleted s c t).log = (statCompleted s' c t).log ∧
      ∀ r, P r = false → findN (statCompleted s c t).nodes r = findN (statCompleted s' c t).nodes r) := by
  have hres := h3 c.e.res hc
  unfold statPassed statBlocked statCompleted onStat
  refine ⟨⟨?_, ?_, ?_⟩, ⟨?_, ?_, ?_⟩, ⟨?_, ?_, ?_⟩⟩
  all_goals first
    | (intro r hr; have hr3 := h3 r hr
       cases c.e.chain.std <;> cases c.hasNode <;> cases c.e.inbound <;> simp [findN_modifyN, hr3, hres, h1, h2] <;>
         (split_ifs <;> simp_all))
    | (cases c.e.chain.std <;> cases c.hasNode <;> cases c.e.inbound <;> simp [h1, h2])

/-! ## `SlotChain.Entry` -/

theorem chainEntry_e (fix : Bool) (s : St) (c : Ctx) (t : Nat) : (chainEntry fix s c t).2.1.e = c.e := by
  rw [chainEntry_eq]
  cases outcome c.e.chain with
  | pass => rfl
  | block => rfl
  | panic => cases fix <;> rfl

theorem chainEntry_local (fix : Bool) (s : St) (c : Ctx) (t : Nat) :
    (∀ r, r ≠ c.e.res → findN (chainEntry fix s c t).1.nodes r = findN s.nodes r) ∧
    (c.e.inbound = false → (chainEntry fix s c t).1.inb = s.inb) ∧
    (c.e.chain.recs = [] → (chainEntry fix s c t).1.log = s.log) := by
  rw [chainEntry_eq]
  set s1 : St := if attached c.e.chain = true then { s with nodes := getOrCreate s.nodes c.e.res t } else s with hs1
  have n1 : ∀ r, r ≠ c.e.res → findN s1.nodes r = findN s.nodes r := by
    intro r hr
    have hne : ¬ c.e.res = r := fun h => hr h.symm
    simp only [hs1]; split_ifs
    · simp [findN_getOrCreate, hne]
    · rfl
  have i1 : s1.inb = s.inb := by simp only [hs1]; split_ifs <;> rfl
  have l1 : s1.log = s.log := by simp only [hs1]; split_ifs <;> rfl
  have key : ∀ (c1 : Ctx), c1.e = c.e →
      ((∀ r, r ≠ c.e.res → findN (statPassed s1 c1 t).nodes r = findN s.nodes r ∧ findN (statBlocked s1 c1 t).nodes r = findN s.nodes r) ∧
       (c.e.inbound = false → (statPassed s1 c1 t).inb = s.inb ∧ (statBlocked s1 c1 t).inb = s.inb) ∧
       (c.e.chain.recs = [] → (statPassed s1 c1 t).log = s.log ∧ (statBlocked s1 c1 t).log = s.log)) := by
    intro c1 he
    obtain ⟨a, b, d⟩ := stat_local s1 c1 t
    rw [he] at a b d
    exact ⟨fun r hr => ⟨((a r hr).1).trans (n1 r hr), ((a r hr).2.1).trans (n1 r hr)⟩,
           fun hi => ⟨((b hi).1).trans i1, ((b hi).2.1).trans i1⟩,
           fun hrc => ⟨((d hrc).1).trans l1, ((d hrc).2.1).trans l1⟩⟩
  cases outcome c.e.chain with
  | pass =>
    obtain ⟨a, b, d⟩ := key { c with hasNode := attached c.e.chain } rfl
    exact ⟨fun r hr => (a r hr).1, fun hi => (b hi).1, fun hrc => (d hrc).1⟩
  | block =>
    obtain ⟨a, b, d⟩ := key { c with hasNode := attached c.e.chain } rfl
    exact ⟨fun r hr => (a r hr).2, fun hi => (b hi).2, fun hrc => (d hrc).2⟩
  | panic =>
    cases fix with
    | true =>
      simp only [recoverPanic, if_true]
      obtain ⟨a, b, d⟩ := key { c with hasNode := attached c.e.chain, err := some "panic" } rfl
      exact ⟨fun r hr => (a r hr).1, fun hi => (b hi).1, fun hrc => (d hrc).1⟩
    | false =>
      simp only [recoverPanic, Bool.false_eq_true, if_false]
      exact ⟨n1, fun _ => i1, fun _ => l1⟩

theorem chainEntry_off (P : String → Bool) (fix : Bool) (s s' : St) (c : Ctx) (t : Nat) (h1 : s.inb = s'.inb) (h2 : s.log = s'.log)
    (h3 : ∀ r, P r = false → findN s.nodes r = findN s'.nodes r) (hc : P c.e.res = false) :
    (chainEntry fix s c t).1.inb = (chainEntry fix s' c t).1.inb ∧
    (chainEntry fix s c t).1.log = (chainEntry fix s' c t).1.log ∧
    (∀ r, P r = false → findN (chainEntry fix s c t).1.nodes r = findN (chainEntry fix s' c t).1.nodes r) ∧
    (chainEntry fix s c t).2 = (chainEntry fix s' c t).2 := by
  rw [chainEntry_eq, chainEntry_eq]
  set s1 : St := if attached c.e.chain = true then { s with nodes := getOrCreate s.nodes c.e.res t } else s with hs1
  set s1' : St := if attached c.e.chain = true then { s' with nodes := getOrCreate s'.nodes c.e.res t } else s' with hs1'
  have a1 : s1.inb = s1'.inb := by simp only [hs1, hs1']; split_ifs <;> exact h1
  have a2 : s1.log = s1'.log := by simp only [hs1, hs1']; split_ifs <;> exact h2
  have a3 : ∀ r, P r = false → findN s1.nodes r = findN s1'.nodes r := by
    intro r hr
    have hres := h3 c.e.res hc
    simp only [hs1, hs1']; split_ifs
    · simp only [findN_getOrCreate, hres]; split_ifs <;> first | rfl | exact h3 r hr
    · exact h3 r hr
  cases outcome c.e.chain with
  | pass =>
    obtain ⟨⟨p1, p2, p3⟩, _, _⟩ := stat_off P s1 s1' { c with hasNode := attached c.e.chain } t a1 a2 a3 hc
    exact ⟨p1, p2, p3, rfl⟩
  | block =>
    obtain ⟨_, ⟨p1, p2, p3⟩, _⟩ := stat_off P s1 s1' { c with hasNode := attached c.e.chain } t a1 a2 a3 hc
    exact ⟨p1, p2, p3, rfl⟩
  | panic =>
    cases fix with
    | true =>
      simp only [recoverPanic, if_true]
      obtain ⟨⟨p1, p2, p3⟩, _, _⟩ := stat_off P s1 s1' { c with hasNode := attached c.e.chain, err := some "panic" } t a1 a2 a3 hc
      exact ⟨p1, p2, p3, trivial⟩
    | false =>
      simp only [recoverPanic, Bool.false_eq_true, if_false]
      exact ⟨a1, a2, a3, trivial⟩

/-! ## steps -/

open Sentinel.EntryPool in
/-- where the contexts after a step come from: an old context with the same input, or the entry just made -/
theorem step_ents_e (fix : Bool) (s : St) (x : TOp) (id : Nat) (c' : Ctx) (h : findE (step fix s x).ents id = some c') :
    (∃ c0, findE s.ents id = some c0 ∧ c0.e = c'.e) ∨ (∃ e, x.2 = .entry e ∧ e.id = id ∧ c'.e = e) := by
  obtain ⟨t, op⟩ := x
  cases op with
  | entry e =>
    simp only [step, apiEntry] at h
    cases hf : findE s.ents e.id with
    | some c => rw [hf] at h; exact Or.inl ⟨c', h, rfl⟩
    | none =>
      rw [hf] at h
      simp only [] at h
      have ke := chainEntry_keeps_ents fix s { e := e, start := t, err := none, hasNode := false, blocked := false, exited := false } t
      have ee := chainEntry_e fix s { e := e, start := t, err := none, hasNode := false, blocked := false, exited := false } t
      generalize chainEntry fix s { e := e, start := t, err := none, hasNode := false, blocked := false, exited := false } t = R at h ke ee
      have key : ∀ (c : Ctx), c.e = e → findE ((e.id, c) :: R.1.ents) id = some c' →
          (∃ c0, findE s.ents id = some c0 ∧ c0.e = c'.e) ∨ (∃ e', Op.entry e = .entry e' ∧ e'.id = id ∧ c'.e = e') := by
        intro c hce hh
        simp only [findE_cons, ke] at hh
        split_ifs at hh with hid
        · simp only [Option.some.injEq] at hh; subst hh; exact Or.inr ⟨e, rfl, hid, hce⟩
        · exact Or.inl ⟨c', hh, rfl⟩
      cases hr : R.2.2 with
      | none => rw [hr] at h; exact key _ ee h
      | some o =>
        rw [hr] at h
        cases o with
        | pass => exact key _ ee h
        | panic => exact key _ ee h
        | block => exact key { R.2.1 with exited := true } ee h
  | trace j err =>
    simp only [step, apiTrace] at h
    cases hf : findE s.ents j with
    | none => rw [hf] at h; exact Or.inl ⟨c', h, rfl⟩
    | some c =>
      rw [hf] at h
      simp only [] at h
      split_ifs at h
      · exact Or.inl ⟨c', h, rfl⟩
      · cases err with
        | none => exact Or.inl ⟨c', h, rfl⟩
        | some x =>
          simp only [findE_cons] at h
          split_ifs at h with hid
          · simp only [Option.some.injEq] at h; subst h; subst hid; exact Or.inl ⟨c, hf, rfl⟩
          · exact Or.inl ⟨c', h, rfl⟩
  | exit j err =>
    simp only [step, apiExit] at h
    cases hf : findE s.ents j with
    | none => rw [hf] at h; exact Or.inl ⟨c', h, rfl⟩
    | some c =>
      rw [hf] at h
      simp only [] at h
      split_ifs at h
      · exact Or.inl ⟨c', h, rfl⟩
      · simp only [findE_cons] at h
        split_ifs at h with hid
        · simp only [Option.some.injEq] at h; subst h; subst hid; exact Or.inl ⟨c, hf, rfl⟩
        · exact Or.inl ⟨c', h, rfl⟩
      · simp only [findE_cons, statCompleted_keeps_ents'] at h
        split_ifs at h with hid
        · simp only [Option.some.injEq] at h; subst h; subst hid; exact Or.inl ⟨c, hf, rfl⟩
        · exact Or.inl ⟨c', h, rfl⟩

theorem sep_step {P I s} (hs : Sep P I s) (fix : Bool) (x : TOp) (hx : inside P I x = true ∨ outside P I x = true) :
    Sep P I (step fix s x) := by
  refine ⟨?_, ?_⟩
  · intro id c' hI hf
    rcases step_ents_e fix s x id c' hf with ⟨c0, h0, he⟩ | ⟨e, hop, hid, he⟩
    · rw [← he]; exact hs.ins id c0 hI h0
    · rw [he]
      rcases hx with hx | hx
      · simp only [inside, hop, Bool.and_eq_true, Bool.not_eq_true', List.isEmpty_iff] at hx
        exact ⟨hx.1.1.1, hx.1.2, hx.2⟩
      · simp only [outside, hop, Bool.and_eq_true, Bool.not_eq_true'] at hx
        rw [hid, hI] at hx; exact absurd hx.2 (by simp)
  · intro id c' hI hf
    rcases step_ents_e fix s x id c' hf with ⟨c0, h0, he⟩ | ⟨e, hop, hid, he⟩
    · rw [← he]; exact hs.outs id c0 hI h0
    · rw [he]
      rcases hx with hx | hx
      · simp only [inside, hop, Bool.and_eq_true] at hx
        rw [hid, hI] at hx; exact absurd hx.1.1.2 (by simp)
      · simp only [outside, hop, Bool.and_eq_true, Bool.not_eq_true'] at hx
        exact hx.1

open Sentinel.EntryPool in
theorem inside_step {P I s0 s} (h : Off P I s0 s) (hs : Sep P I s) (fix : Bool) (x : TOp) (hx : inside P I x = true) :
    Off P I s0 (step fix s x) := by
  obtain ⟨t, op⟩ := x
  cases op with
  | entry e =>
    simp only [inside, Bool.and_eq_true, Bool.not_eq_true', List.isEmpty_iff] at hx
    obtain ⟨⟨⟨hP, hI⟩, hout⟩, hrec⟩ := hx
    simp only [step, apiEntry]
    cases hf : findE s.ents e.id with
    | some c => exact h
    | none =>
      simp only []
      obtain ⟨l1, l2, l3⟩ := chainEntry_local fix s { e := e, start := t, err := none, hasNode := false, blocked := false, exited := false } t
      have ke := chainEntry_keeps_ents fix s { e := e, start := t, err := none, hasNode := false, blocked := false, exited := false } t
      generalize chainEntry fix s { e := e, start := t, err := none, hasNode := false, blocked := false, exited := false } t = R at l1 l2 l3 ke
      have key : ∀ (c : Ctx), Off P I s0 { R.1 with ents := (e.id, c) :: R.1.ents } := by
        intro c
        refine ⟨h.inb.trans (l2 hout).symm, h.log.trans (l3 hrec).symm, ?_, ?_⟩
        · intro r hr
          have hne : r ≠ e.res := fun hh => by rw [hh, hP] at hr; exact absurd hr (by simp)
          exact (h.nodes r hr).trans (l1 r hne).symm
        · intro id hid
          have hne : ¬ e.id = id := fun hh => by rw [← hh, hI] at hid; exact absurd hid (by simp)
          simp only [findE_cons, hne, if_false, ke]; exact h.ents id hid
      cases R.2.2 with
      | none => exact key _
      | some o => cases o <;> exact key _
  | trace j err =>
    simp only [inside] at hx
    simp only [step, apiTrace]
    cases hf : findE s.ents j with
    | none => exact h
    | some c =>
      simp only []
      split_ifs
      · exact h
      · cases err with
        | none => exact h
        | some y =>
          refine ⟨h.inb, h.log, h.nodes, ?_⟩
          intro id hid
          have hne : ¬ j = id := fun hh => by rw [← hh, hx] at hid; exact absurd hid (by simp)
          simp only [findE_cons, hne, if_false]; exact h.ents id hid
  | exit j err =>
    simp only [inside] at hx
    simp only [step, apiExit]
    cases hf : findE s.ents j with
    | none => exact h
    | some c =>
      obtain ⟨hP, hout, hrec⟩ := hs.ins j c hx hf
      simp only []
      have hne : ∀ id, I id = false → ¬ j = id := fun id hid hh => by rw [← hh, hx] at hid; exact absurd hid (by simp)
      split_ifs
      · exact h
      · refine ⟨h.inb, h.log, h.nodes, ?_⟩
        intro id hid
        simp only [findE_cons, hne id hid, if_false]; exact h.ents id hid
      · obtain ⟨a, b, d⟩ := stat_local s { c with err := orErr err c.err } t
        refine ⟨h.inb.trans ((b hout).2.2).symm, h.log.trans ((d hrec).2.2).symm, ?_, ?_⟩
        · intro r hr
          have hner : r ≠ c.e.res := fun hh => by rw [hh, hP] at hr; exact absurd hr (by simp)
          exact (h.nodes r hr).trans ((a r hner).2.2).symm
        · intro id hid
          simp only [findE_cons, hne id hid, if_false, statCompleted_keeps_ents']; exact h.ents id hid

open Sentinel.EntryPool in
theorem outside_step {P I s0 s} (h : Off P I s0 s) (hs0 : Sep P I s0) (fix : Bool) (x : TOp) (hx : outside P I x = true) :
    Off P I (step fix s0 x) (step fix s x) := by
  obtain ⟨t, op⟩ := x
  cases op with
  | entry e =>
    simp only [outside, Bool.and_eq_true, Bool.not_eq_true'] at hx
    obtain ⟨hP, hI⟩ := hx
    simp only [step, apiEntry]
    rw [← h.ents e.id hI]
    cases hf : findE s0.ents e.id with
    | some c => exact h
    | none =>
      simp only []
      obtain ⟨i1, i2, i3, i4⟩ := chainEntry_off P fix s0 s
        { e := e, start := t, err := none, hasNode := false, blocked := false, exited := false } t h.inb h.log h.nodes hP
      have k1 := chainEntry_keeps_ents fix s0 { e := e, start := t, err := none, hasNode := false, blocked := false, exited := false } t
      have k2 := chainEntry_keeps_ents fix s { e := e, start := t, err := none, hasNode := false, blocked := false, exited := false } t
      rw [← i4]
      generalize chainEntry fix s0 { e := e, start := t, err := none, hasNode := false, blocked := false, exited := false } t = R at i1 i2 i3 k1 ⊢
      generalize chainEntry fix s { e := e, start := t, err := none, hasNode := false, blocked := false, exited := false } t = R' at i1 i2 i3 k2 ⊢
      have key : ∀ (c : Ctx), Off P I { R.1 with ents := (e.id, c) :: R.1.ents } { R'.1 with ents := (e.id, c) :: R'.1.ents } := by
        intro c
        refine ⟨i1, i2, i3, ?_⟩
        intro id hid
        simp only [findE_cons, k1, k2]
        split_ifs
        · rfl
        · exact h.ents id hid
      cases R.2.2 with
      | none => exact key _
      | some o => cases o <;> exact key _
  | trace j err =>
    simp only [outside, Bool.not_eq_true'] at hx
    simp only [step, apiTrace]
    rw [← h.ents j hx]
    cases hf : findE s0.ents j with
    | none => exact h
    | some c =>
      simp only []
      split_ifs
      · exact h
      · cases err with
        | none => exact h
        | some y =>
          refine ⟨h.inb, h.log, h.nodes, ?_⟩
          intro id hid
          simp only [findE_cons]
          split_ifs
          · rfl
          · exact h.ents id hid
  | exit j err =>
    simp only [outside, Bool.not_eq_true'] at hx
    simp only [step, apiExit]
    rw [← h.ents j hx]
    cases hf : findE s0.ents j with
    | none => exact h
    | some c =>
      have hP := hs0.outs j c hx hf
      simp only []
      split_ifs
      · exact h
      · refine ⟨h.inb, h.log, h.nodes, ?_⟩
        intro id hid
        simp only [findE_cons]
        split_ifs
        · rfl
        · exact h.ents id hid
      · obtain ⟨_, _, ⟨j1, j2, j3⟩⟩ := stat_off P s0 s { c with err := orErr err c.err } t h.inb h.log h.nodes hP
        refine ⟨j1, j2, j3, ?_⟩
        intro id hid
        simp only [findE_cons, statCompleted_keeps_ents']
        split_ifs
        · rfl
        · exact h.ents id hid

/-- **any interleaving of inside and outside ops vs. the outside ops alone** -/
theorem fresh_traffic (P : String → Bool) (I : Nat → Bool) (fix : Bool) (s : St) (hs : Sep P I s) (ops : List TOp)
    (hops : ∀ x ∈ ops, inside P I x = true ∨ outside P I x = true) :
    Off P I (runFrom fix s (ops.filter (outside P I))) (runFrom fix s ops) ∧
    Sep P I (runFrom fix s (ops.filter (outside P I))) ∧ Sep P I (runFrom fix s ops) := by
  induction ops with
  | nil => exact ⟨⟨rfl, rfl, fun _ _ => rfl, fun _ _ => rfl⟩, hs, hs⟩
  | cons x r ih =>
    obtain ⟨o, s1, s2⟩ := ih (fun y hy => hops y (List.mem_cons_of_mem _ hy))
    have hx := hops x (List.mem_cons_self ..)
    by_cases hout : outside P I x = true
    · simp only [List.filter_cons, hout, if_true, runFrom]
      exact ⟨outside_step o s1 fix x hout, sep_step s1 fix x (Or.inr hout), sep_step s2 fix x hx⟩
    · have hin : inside P I x = true := by rcases hx with h1 | h1; exact h1; exact absurd h1 hout
      simp only [List.filter_cons, hout, runFrom]
      exact ⟨inside_step o s2 fix x hin, s1, sep_step s2 fix x hx⟩

end Sentinel.Entry
