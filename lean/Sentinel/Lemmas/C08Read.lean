import Sentinel.Lemmas.C08Ops
/-!
# Reads of a reachable array (generic payload)

Everything here is stated for an array `a` with `Reach a n L h latest now` (see `C08Ops.lean`): the array refines the
recording history `h`, the last call was at `latest ≤ now`.  The property file instantiates `a` with
`runOps (mk n L now0) ops`.
-/
set_option linter.unusedSectionVars false
namespace Sentinel.LA
variable {M : Type} [AddCommMonoid M]

theorem sum_filter_eq_readW (sl : List (Slot M)) (p : Slot M → Bool) (lo hi : Nat)
    (hp : ∀ s ∈ sl, (lo ≤ s.start ∧ s.start ≤ hi) → p s = true) :
    ((sl.filter fun s => p s && decide (lo ≤ s.start ∧ s.start ≤ hi)).map (·.val)).sum = readW sl lo hi := by
  unfold readW
  induction sl with
  | nil => rfl
  | cons s r ih =>
    have ihr := ih (fun s hs => hp s (List.mem_cons_of_mem _ hs))
    by_cases hw : lo ≤ s.start ∧ s.start ≤ hi
    · have := hp s (List.mem_cons_self ..) hw
      simp only [List.filter_cons, this, hw, decide_true, Bool.and_self, if_true, List.map_cons,
        List.sum_cons, and_self] at ihr ⊢
      rw [ihr]
    · simp only [List.filter_cons, hw, decide_false, Bool.and_false, List.map_cons,
        List.sum_cons, if_false, zero_add] at ihr ⊢
      simpa using ihr

theorem cbs_le (L t : Nat) : cbs L t ≤ t := by unfold cbs; omega
theorem lt_cbs_add (L t : Nat) (hL : 0 < L) : t < cbs L t + L := by
  unfold cbs; have := Nat.mod_lt t hL; omega
theorem cbs_dvd (L t : Nat) : L ∣ cbs L t := by rw [cbs_eq]; exact Dvd.intro_left _ rfl

/-- a slot inside a view window no wider than the array is not deprecated -/
theorem not_deprecated_of_window (n L now Iv b : Nat) (hL : 0 < L) (hIv : Iv ≤ n * L)
    (hlo : cbs L now + L - Iv ≤ b) (hhi : b ≤ cbs L now) : (!deprecated (n * L) now b) = true := by
  have hc := cbs_le L now
  have hlt := lt_cbs_add L now hL
  unfold deprecated
  have : b ≤ now := le_trans hhi hc
  simp only [this, if_true]
  simp; omega

/-- **view sum**: the payload of a view of interval `Iv ≤ n·L` read at `now` -/
theorem viewSum_of_reach (a : Arr M) (n L : Nat) (h : List (Nat × M)) (latest now : Nat)
    (r : Reach a n L h latest now) (hpos : 0 < now) (Iv : Nat) (hIv : Iv ≤ n * L) :
    viewSum a Iv now = refW L h (cbs L now + L - Iv) (cbs L now) := by
  obtain ⟨t0, inv⟩ := r.inv
  unfold viewSum viewVals rangeOf
  simp only [r.L_eq, r.n_eq, Nat.ne_of_gt hpos, if_false]
  rw [sum_filter_eq_readW]
  · have he := inv.e (cbs L now + L - Iv) (cbs L now)
    rw [r.L_eq, r.n_eq] at he
    apply he
    have : cbs L latest ≤ cbs L now := cbs_mono L r.le
    have := r.L_pos
    omega
  · intro s _ hw
    exact not_deprecated_of_window n L now Iv s.start r.L_pos hIv hw.1 hw.2

/-- a view read at an **earlier** time `t` (as `GetPreviousQPS` does) is still exact as long as its window is
    younger than one array cycle at `now` -/
theorem viewSum_at_of_reach (a : Arr M) (n L : Nat) (h : List (Nat × M)) (latest now : Nat)
    (r : Reach a n L h latest now) (t : Nat) (hpos : 0 < t) (Iv : Nat) (hIv : Iv ≤ n * L)
    (hy : cbs L now < cbs L t + L - Iv + n * L) :
    viewSum a Iv t = refW L h (cbs L t + L - Iv) (cbs L t) := by
  obtain ⟨t0, inv⟩ := r.inv
  unfold viewSum viewVals rangeOf
  simp only [r.L_eq, r.n_eq, Nat.ne_of_gt hpos, if_false]
  rw [sum_filter_eq_readW]
  · have he := inv.e (cbs L t + L - Iv) (cbs L t)
    rw [r.L_eq, r.n_eq] at he
    apply he
    have : cbs L latest ≤ cbs L now := cbs_mono L r.le
    omega
  · intro s _ hw
    exact not_deprecated_of_window n L t Iv s.start r.L_pos hIv hw.1 hw.2

theorem cbs_sub_mul (L now k : Nat) (hL : 0 < L) (hle : L * k ≤ now) : cbs L (now - L * k) + L * k = cbs L now := by
  rw [cbs_eq, cbs_eq]
  have : (now - L * k) / L = now / L - k := Nat.sub_mul_div_of_le now L k hle
  rw [this]
  have hk : k ≤ now / L := by
    rw [Nat.le_div_iff_mul_le hL, Nat.mul_comm]; exact hle
  rw [Nat.sub_mul]
  have : k * L ≤ now / L * L := Nat.mul_le_mul_right _ hk
  rw [Nat.mul_comm L k]; omega

/-- **array-level read**: refresh at `now`, then all valid buckets; the refreshed array is reachable again -/
theorem total_of_reach (a : Arr M) (n L : Nat) (h : List (Nat × M)) (latest now : Nat)
    (r : Reach a n L h latest now) (hpos : 0 < now) :
    Reach (refresh a now) n L h now now ∧
    ((valuesAt (refresh a now) now).map (·.val)).sum = refW L h (cbs L now + L - n * L) (cbs L now) := by
  obtain ⟨t0, inv⟩ := r.inv
  have hs := op_step a h t0 latest (Op.refresh now) inv r.le hpos
  have hrt := refresh_total_eq_ref a h t0 latest now inv r.le hpos
  rw [r.L_eq, r.n_eq] at hrt
  refine ⟨⟨hs.2.2.2.trans r.n_eq, hs.2.2.1.trans r.L_eq, r.n_pos, r.L_pos, le_refl _, hs.2.1, ⟨t0, ?_⟩⟩, hrt.2⟩
  simpa [addsOf, Op.apply, Op.time] using hs.1

/-! ## single buckets -/

theorem starts_nodup (a : Arr M) (hw : WF a) : (a.slots.map (·.start)).Nodup := by
  obtain ⟨hL, hn, hl, hres⟩ := hw
  rw [List.nodup_iff_injective_getElem]
  intro i j hij
  obtain ⟨i, hi⟩ := i
  obtain ⟨j, hj⟩ := j
  simp only [List.getElem_map] at hij
  have hi' : i < a.slots.length := by simpa using hi
  have hj' : j < a.slots.length := by simpa using hj
  obtain ⟨k1, hk1, hr1⟩ := hres i hi'
  obtain ⟨k2, hk2, hr2⟩ := hres j hj'
  rw [hk1, hk2] at hij
  have : k1 = k2 := Nat.eq_of_mul_eq_mul_right hL hij
  subst this
  exact Fin.ext (hr1.symm.trans hr2)

theorem slot_aligned (a : Arr M) (hw : WF a) (s : Slot M) (hs : s ∈ a.slots) : a.L ∣ s.start := by
  obtain ⟨i, hi, rfl⟩ := mem_slots_index _ s hs
  obtain ⟨k, hk, _⟩ := hw.2.2.2 i hi
  rw [hk]; exact Dvd.intro_left _ rfl

theorem readW_point_none (sl : List (Slot M)) (b : Nat) (hne : ∀ s ∈ sl, s.start ≠ b) : readW sl b b = 0 := by
  unfold readW
  apply List.sum_eq_zero
  intro x hx
  obtain ⟨s, hs, rfl⟩ := List.mem_map.mp hx
  have := hne s hs
  have h2 : ¬ (b ≤ s.start ∧ s.start ≤ b) := by omega
  simp [h2]

theorem readW_point (sl : List (Slot M)) (hnd : (sl.map (·.start)).Nodup) (s : Slot M) (hs : s ∈ sl) :
    readW sl s.start s.start = s.val := by
  induction sl with
  | nil => simp at hs
  | cons s' r ih =>
    simp only [List.map_cons, List.nodup_cons] at hnd
    obtain ⟨hnot, hnd'⟩ := hnd
    have hcons : readW (s' :: r) s.start s.start =
        (if s.start ≤ s'.start ∧ s'.start ≤ s.start then s'.val else 0) + readW r s.start s.start := by
      simp [readW]
    rw [hcons]
    rcases List.mem_cons.mp hs with rfl | hs'
    · rw [readW_point_none r s.start (fun x hx hxe => hnot (List.mem_map.mpr ⟨x, hx, hxe⟩))]
      simp
    · have hne : s'.start ≠ s.start := fun he => hnot (he ▸ List.mem_map.mpr ⟨s, hs', rfl⟩)
      have h2 : ¬ (s.start ≤ s'.start ∧ s'.start ≤ s.start) := by omega
      rw [ih hnd' hs']
      simp [h2]

/-- a slot younger than one array cycle holds exactly the recordings of its bucket -/
theorem slot_val_eq_ref (a : Arr M) (h : List (Nat × M)) (t0 latest : Nat) (inv : Inv a h t0 latest)
    (s : Slot M) (hs : s ∈ a.slots) (hy : cbs a.L latest < s.start + a.n * a.L) :
    s.val = refW a.L h s.start s.start := by
  rw [← inv.e s.start s.start hy, readW_point a.slots (starts_nodup a inv.wf) s hs]

/-- a bucket younger than one array cycle that has no slot has no recordings -/
theorem ref_zero_of_no_slot (a : Arr M) (h : List (Nat × M)) (t0 latest : Nat) (inv : Inv a h t0 latest)
    (b : Nat) (hne : ∀ s ∈ a.slots, s.start ≠ b) (hy : cbs a.L latest < b + a.n * a.L) :
    refW a.L h b b = 0 := by
  rw [← inv.e b b hy, readW_point_none a.slots b hne]

/-! ## maxima -/

theorem foldl_max_le (l : List Nat) (c d : Nat) (hc : c ≤ d) (hl : ∀ x ∈ l, x ≤ d) : l.foldl max c ≤ d := by
  induction l generalizing c with
  | nil => simpa using hc
  | cons x r ih =>
    simp only [List.foldl_cons]
    exact ih (max c x) (max_le hc (hl x (List.mem_cons_self ..))) (fun y hy => hl y (List.mem_cons_of_mem _ hy))

theorem le_foldl_max (l : List Nat) (c : Nat) : c ≤ l.foldl max c ∧ ∀ x ∈ l, x ≤ l.foldl max c := by
  induction l generalizing c with
  | nil => simp
  | cons x r ih =>
    simp only [List.foldl_cons]
    obtain ⟨h1, h2⟩ := ih (max c x)
    refine ⟨le_trans (le_max_left _ _) h1, ?_⟩
    intro y hy
    rcases List.mem_cons.mp hy with rfl | hy
    · exact le_trans (le_max_right _ _) h1
    · exact h2 y hy

/-- two lists that dominate each other (up to zeros) have the same `foldl max 0` -/
theorem foldl_max_eq (l1 l2 : List Nat) (h12 : ∀ x ∈ l1, x = 0 ∨ ∃ y ∈ l2, x ≤ y)
    (h21 : ∀ y ∈ l2, y = 0 ∨ ∃ x ∈ l1, y ≤ x) : l1.foldl max 0 = l2.foldl max 0 := by
  apply le_antisymm
  · apply foldl_max_le _ _ _ (Nat.zero_le _)
    intro x hx
    rcases h12 x hx with rfl | ⟨y, hy, hxy⟩
    · exact Nat.zero_le _
    · exact le_trans hxy ((le_foldl_max l2 0).2 y hy)
  · apply foldl_max_le _ _ _ (Nat.zero_le _)
    intro y hy
    rcases h21 y hy with rfl | ⟨x, hx, hyx⟩
    · exact Nat.zero_le _
    · exact le_trans hyx ((le_foldl_max l1 0).2 x hx)

/-! ## the aligned bucket starts of a window -/

/-- starts of the last `cnt` aligned buckets ending at bucket `e` (those that exist: time starts at 0) -/
def lastStarts (L cnt e : Nat) : List Nat :=
  (List.range cnt).filterMap fun i => if i * L ≤ e then some (e - i * L) else none

theorem mem_lastStarts (L cnt e b : Nat) (hL : 0 < L) (he : L ∣ e) :
    b ∈ lastStarts L cnt e ↔ L ∣ b ∧ b ≤ e ∧ e < b + cnt * L := by
  unfold lastStarts
  simp only [List.mem_filterMap, List.mem_range]
  constructor
  · rintro ⟨i, hi, hb⟩
    split_ifs at hb with hc
    · simp only [Option.some.injEq] at hb
      subst hb
      have h1 : i * L < cnt * L := Nat.mul_lt_mul_of_pos_right hi hL
      refine ⟨Nat.dvd_sub he (Dvd.intro_left _ rfl), Nat.sub_le _ _, by omega⟩
  · rintro ⟨hb, hbe, hlt⟩
    obtain ⟨q, rfl⟩ := he
    obtain ⟨p, rfl⟩ := hb
    have hpq : p ≤ q := Nat.le_of_mul_le_mul_left hbe hL
    refine ⟨q - p, ?_, ?_⟩
    · have e1 : L * q = L * p + (q - p) * L := by
        rw [Nat.mul_comm (q - p) L, ← Nat.mul_add]; congr 1; omega
      have : (q - p) * L < cnt * L := by omega
      exact Nat.lt_of_mul_lt_mul_right this
    · have e1 : (q - p) * L = L * q - L * p := by rw [Nat.sub_mul, Nat.mul_comm q L, Nat.mul_comm p L]
      have e2 : L * p ≤ L * q := Nat.mul_le_mul_left _ hpq
      rw [if_pos (by omega)]
      congr 1; omega

theorem nodup_lastStarts (L cnt e : Nat) (hL : 0 < L) : (lastStarts L cnt e).Nodup := by
  unfold lastStarts
  apply List.Nodup.filterMap _ List.nodup_range
  intro i j b hi hj
  simp only [Option.mem_def] at hi hj
  split_ifs at hi hj with h1 h2
  simp only [Option.some.injEq] at hi hj
  have : i * L = j * L := by omega
  exact Nat.eq_of_mul_eq_mul_right hL this

/-! ## `GetMaxOfSingleBucket` -/

theorem mem_viewVals (a : Arr M) (n L : Nat) (h : List (Nat × M)) (latest now : Nat)
    (r : Reach a n L h latest now) (hpos : 0 < now) (Iv : Nat) (hIv : Iv ≤ n * L) (s : Slot M) :
    s ∈ viewVals a Iv now ↔ s ∈ a.slots ∧ cbs L now + L - Iv ≤ s.start ∧ s.start ≤ cbs L now := by
  unfold viewVals rangeOf
  simp only [Nat.ne_of_gt hpos, if_false, List.mem_filter, r.L_eq, r.n_eq]
  constructor
  · rintro ⟨hs, hp⟩
    simp only [Bool.and_eq_true, decide_eq_true_eq] at hp
    exact ⟨hs, hp.2⟩
  · rintro ⟨hs, hw⟩
    refine ⟨hs, ?_⟩
    simp only [Bool.and_eq_true, decide_eq_true_eq]
    exact ⟨not_deprecated_of_window n L now Iv s.start r.L_pos hIv hw.1 hw.2, hw⟩

/-- the aligned bucket starts of the view window, as the driver's reference enumerates them -/
def viewStarts (L Iv now : Nat) : List Nat :=
  (lastStarts L (Iv / L) (cbs L now)).filter fun b => decide (cbs L now + L - Iv ≤ b)

theorem mem_viewStarts (L Iv now b : Nat) (hL : 0 < L) :
    b ∈ viewStarts L Iv now ↔ L ∣ b ∧ cbs L now + L - Iv ≤ b ∧ b ≤ cbs L now := by
  unfold viewStarts
  simp only [List.mem_filter, decide_eq_true_eq, mem_lastStarts L _ _ b hL (cbs_dvd L now)]
  have hdm := Nat.div_add_mod Iv L
  have hml := Nat.mod_lt Iv hL
  have hc : L * (Iv / L) = Iv / L * L := Nat.mul_comm ..
  constructor
  · rintro ⟨⟨hd, hle, _⟩, hlo⟩; exact ⟨hd, hlo, hle⟩
  · rintro ⟨hd, hlo, hle⟩; exact ⟨⟨hd, hle, by omega⟩, hlo⟩

/-- per-bucket maximum of any zero-preserving projection `g` over a view = maximum of the per-bucket references -/
theorem maxBucket_of_reach (a : Arr M) (n L : Nat) (h : List (Nat × M)) (latest now : Nat)
    (r : Reach a n L h latest now) (hpos : 0 < now) (Iv : Nat) (hIv : Iv ≤ n * L) (g : M → Nat) (g0 : g 0 = 0) :
    ((viewVals a Iv now).map fun s => g s.val).foldl max 0 =
      ((viewStarts L Iv now).map fun b => g (refW L h b b)).foldl max 0 := by
  obtain ⟨t0, inv⟩ := r.inv
  have hL := r.L_pos
  have hcl : cbs L latest ≤ cbs L now := cbs_mono L r.le
  apply foldl_max_eq
  · intro x hx
    obtain ⟨s, hs, rfl⟩ := List.mem_map.mp hx
    obtain ⟨hsl, hlo, hhi⟩ := (mem_viewVals a n L h latest now r hpos Iv hIv s).mp hs
    have hv := slot_val_eq_ref a h t0 latest inv s hsl (by rw [r.L_eq, r.n_eq]; omega)
    rw [r.L_eq] at hv
    have hal := slot_aligned a inv.wf s hsl
    rw [r.L_eq] at hal
    right
    refine ⟨g (refW L h s.start s.start), List.mem_map.mpr ⟨s.start, (mem_viewStarts L Iv now s.start hL).mpr ⟨hal, hlo, hhi⟩, rfl⟩, ?_⟩
    rw [← hv]
  · intro y hy
    obtain ⟨b, hb, rfl⟩ := List.mem_map.mp hy
    obtain ⟨_, hlo, hhi⟩ := (mem_viewStarts L Iv now b hL).mp hb
    by_cases hex : ∃ s ∈ a.slots, s.start = b
    · obtain ⟨s, hsl, rfl⟩ := hex
      have hv := slot_val_eq_ref a h t0 latest inv s hsl (by rw [r.L_eq, r.n_eq]; omega)
      rw [r.L_eq] at hv
      right
      refine ⟨g s.val, List.mem_map.mpr ⟨s, (mem_viewVals a n L h latest now r hpos Iv hIv s).mpr ⟨hsl, hlo, hhi⟩, rfl⟩, ?_⟩
      rw [← hv]
    · left
      have hz := ref_zero_of_no_slot a h t0 latest inv b (fun s hs he => hex ⟨s, hs, he⟩) (by rw [r.L_eq, r.n_eq]; omega)
      rw [r.L_eq] at hz
      rw [hz, g0]

/-! ## empty windows -/

/-- a window that starts after every recorded bucket has the empty payload -/
theorem refW_eq_zero_of_lt (L : Nat) (h : List (Nat × M)) (lo hi : Nat) (hold : ∀ e ∈ h, cbs L e.1 < lo) :
    refW L h lo hi = 0 := by
  unfold refW
  apply List.sum_eq_zero
  intro x hx
  obtain ⟨e, he, rfl⟩ := List.mem_map.mp hx
  have := hold e he
  have hn : ¬ (lo ≤ cbs L e.1 ∧ cbs L e.1 ≤ hi) := by omega
  simp [hn]

theorem foldl_max_zero (l : List Nat) (hz : ∀ x ∈ l, x = 0) : l.foldl max 0 = 0 :=
  Nat.le_zero.mp (foldl_max_le l 0 0 (le_refl _) (fun x hx => by rw [hz x hx]))

/-- idle gap `g` longer than the array interval: every recorded bucket starts before the array-wide aligned window -/
theorem idle_lt_window (n L now g : Nat) (hL : 0 < L) (h : List (Nat × M)) (hg : n * L < g)
    (hidle : ∀ e ∈ h, e.1 + g ≤ now) : ∀ e ∈ h, cbs L e.1 < cbs L now + L - n * L ∧ e.1 + n * L < now := by
  intro e he
  have h1 := hidle e he
  have h2 := cbs_le L e.1
  have h3 := lt_cbs_add L now hL
  exact ⟨by omega, by omega⟩

end Sentinel.LA
