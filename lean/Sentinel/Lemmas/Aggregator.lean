import Mathlib.Tactic
import Sentinel.Lemmas.C08Items
import Sentinel.Model.Aggregator
/-!
# Aggregator, part A: one node, one fetch window

`secondItems` of a reachable node array, read with the aggregator's predicate `lo ≤ start ≤ cur − 1`, against the
per-second reference `secRef` over the recorded events (`Sentinel.Agg`).  Everything is derived from C08's
refinement invariant (`Reach`, `Inv.e`: a window younger than one array cycle reads exactly its recordings).
-/
set_option linter.unusedSectionVars false
namespace Sentinel.AGG
open Sentinel.LA Sentinel.C08 Sentinel.Agg

theorem secOf_le (t : Nat) : secOf t ≤ t := by unfold secOf; omega
theorem secOf_dvd (t : Nat) : 1000 ∣ secOf t := by
  unfold secOf; exact ⟨t / 1000, by omega⟩
theorem secOf_mono {s t : Nat} (h : s ≤ t) : secOf s ≤ secOf t := by unfold secOf; omega
theorem secOf_of_dvd {s : Nat} (h : 1000 ∣ s) : secOf s = s := by
  obtain ⟨k, rfl⟩ := h; unfold secOf; omega
theorem secOf_eq_iff (t sec : Nat) (hsec : 1000 ∣ sec) : secOf t = sec ↔ sec ≤ t ∧ t < sec + 1000 := by
  obtain ⟨k, rfl⟩ := hsec; unfold secOf; omega

/-- the largest multiple of `L` not above `t` is `cbs L t` -/
theorem le_cbs_of_dvd (L m t : Nat) (hL : 0 < L) (hm : L ∣ m) (hle : m ≤ t) : m ≤ cbs L t := by
  by_contra hc
  have h1 := aligned_lt_step L _ _ (cbs_dvd L t) hm (Nat.lt_of_not_le hc)
  have h2 := lt_cbs_add L t hL
  omega

/-- with buckets that tile the second, "the event's second is `sec`" = "its bucket starts inside `[sec, sec+999]`" -/
theorem secOf_eq_iff_cbs (L t sec : Nat) (hL : 0 < L) (hd : L ∣ 1000) (hsec : 1000 ∣ sec) :
    secOf t = sec ↔ sec ≤ cbs L t ∧ cbs L t ≤ sec + 999 := by
  rw [secOf_eq_iff t sec hsec]
  have hLs : L ∣ sec := Dvd.dvd.trans hd hsec
  have hLs' : L ∣ sec + 1000 := Nat.dvd_add hLs hd
  constructor
  · rintro ⟨h1, h2⟩
    exact ⟨le_cbs_of_dvd L sec t hL hLs h1, by have := cbs_le L t; omega⟩
  · rintro ⟨h1, h2⟩
    have := cbs_le L t
    have h3 := aligned_lt_step L _ _ (cbs_dvd L t) hLs' (by omega)
    have := lt_cbs_add L t hL
    omega

/-- the per-second reference is the bucket-window reference over the buckets of that second -/
theorem secRef_eq_refW (L : Nat) (hL : 0 < L) (hd : L ∣ 1000) (h : List (Nat × Bucket)) (sec : Nat) (hsec : 1000 ∣ sec) :
    secRef h sec = refW L h sec (sec + 999) := by
  unfold secRef refW
  congr 1
  apply List.map_congr_left
  intro e _
  by_cases hc : secOf e.1 = sec
  · have := (secOf_eq_iff_cbs L e.1 sec hL hd hsec).mp hc
    simp [hc, this]
  · have : ¬ (sec ≤ cbs L e.1 ∧ cbs L e.1 ≤ sec + 999) := fun hh => hc ((secOf_eq_iff_cbs L e.1 sec hL hd hsec).mpr hh)
    simp [hc, this]

/-- what `secondItems` reports for second `sec`: the sum of the selected slots of that second -/
theorem itemAt_secondItems (a : Arr Bucket) (now lo hi sec : Nat) (hne : now ≠ 0) :
    itemAt (secondItems a now lo hi) sec =
      ((a.slots.filter fun s => (!deprecated (a.n * a.L) now s.start && decide (lo ≤ s.start ∧ s.start ≤ hi)) &&
          decide (s.start - s.start % 1000 = sec)).map (·.val)).sum := by
  set vs := a.slots.filter fun s =>
    !deprecated (a.n * a.L) now s.start && decide (lo ≤ s.start ∧ s.start ≤ hi) with hvs
  have hM : secondItems a now lo hi = groupItems (vs.map fun s => s.start - s.start % 1000)
      (fun sec => ((vs.filter fun s => s.start - s.start % 1000 = sec).map (·.val)).sum) := by
    unfold secondItems groupItems
    simp only [hne, if_false]
    rfl
  rw [hM, itemAt_groupItems]
  · rw [hvs, List.filter_filter]
    congr 2
    apply List.filter_congr
    intro s _
    simp [Bool.and_comm]
  · intro hns
    have : (vs.filter fun s => s.start - s.start % 1000 = sec) = [] := by
      rw [List.filter_eq_nil_iff]
      intro s hs hss
      exact hns (List.mem_map.mpr ⟨s, hs, by simpa using hss⟩)
    simp [this]

/-- **one node, one second inside the fetch window, still inside the array**: the reported payload is the reference -/
theorem node_itemAt (a : Arr Bucket) (n L : Nat) (h : List (Nat × Bucket)) (latest now : Nat)
    (r : Reach a n L h latest now) (hpos : 0 < now) (hd : L ∣ 1000)
    (lo cur sec : Nat) (hlo : 1000 ∣ lo) (hsec : 1000 ∣ sec) (hcur : cur ≤ now)
    (h1 : lo ≤ sec) (h2 : sec + 1000 ≤ cur) (hb : now < sec + n * L) :
    itemAt (secondItems a now lo (cur - 1)) sec = secRef h sec := by
  obtain ⟨t0, inv⟩ := r.inv
  have hL := r.L_pos
  rw [itemAt_secondItems a now lo (cur - 1) sec (Nat.ne_of_gt hpos), secRef_eq_refW L hL hd h sec hsec]
  have hcl : cbs L latest < sec + n * L := by
    have := cbs_le L latest; have := r.le; omega
  have he := inv.e sec (sec + 999) (by rw [r.L_eq, r.n_eq]; exact hcl)
  rw [r.L_eq] at he
  rw [← he]
  apply sum_filter_eq_readW_iff
  intro s hs
  rw [r.n_eq, r.L_eq]
  simp only [Bool.and_eq_true, decide_eq_true_eq, not_deprecated_iff]
  have hsq := secOf_eq_iff s.start sec hsec
  unfold secOf at hsq
  constructor
  · rintro ⟨_, h4⟩
    have := hsq.mp h4
    omega
  · rintro ⟨h3, h4⟩
    have h5 : s.start - s.start % 1000 = sec := hsq.mpr ⟨h3, by omega⟩
    exact ⟨⟨⟨by omega, by omega⟩, by omega, by omega⟩, h5⟩

/-- **one node, a second for which no slot qualifies**: nothing is reported -/
theorem node_itemAt_zero (a : Arr Bucket) (now lo hi sec : Nat) (hne : now ≠ 0)
    (hno : ∀ s ∈ a.slots, lo ≤ s.start → s.start ≤ hi → s.start - s.start % 1000 ≠ sec) :
    itemAt (secondItems a now lo hi) sec = 0 := by
  rw [itemAt_secondItems a now lo hi sec hne]
  have : (a.slots.filter fun s => (!deprecated (a.n * a.L) now s.start && decide (lo ≤ s.start ∧ s.start ≤ hi)) &&
          decide (s.start - s.start % 1000 = sec)) = [] := by
    rw [List.filter_eq_nil_iff]
    intro s hs hp
    simp only [Bool.and_eq_true, decide_eq_true_eq] at hp
    exact hno s hs hp.1.2.1 hp.1.2.2 hp.2
  rw [this]; rfl

end Sentinel.AGG
