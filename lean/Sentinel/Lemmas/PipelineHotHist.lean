import Mathlib.Tactic
import Sentinel.Lemmas.PipelineShape
/-!
# History-form projection onto the hotspot module

Along any integrated history (hotspot rules loaded before it) the hotspot component is the state of `HotConc.run` on the
projected history, up to the list `pend` of parked checks (`HotRel`): a request finally admitted or blocked by the hotspot slot
is `HotConc.Op.entry`; one that passes the hotspot check and is then blocked by a circuit breaker is `HotConc.Op.check` that
never commits (cells touched, nothing counted); an `Exit` is `HotConc.Op.exit`; everything else is no op at all.

Interface: `HotConc.step` on `Op.entry / Op.check / Op.exit`, `HotConc.entry`, `HotConc.check`, `HotConc.exit`, `St.used`.
-/
namespace Sentinel.Pipe

variable {R : Type}

theorem toString_nat_inj {a b : Nat} (h : (toString a : String) = toString b) : a = b := Nat.repr_injective h

/-- the pipeline's hotspot component `h` against the hotspot model's state `m` on the projected history -/
structure HotRel (used : List Nat) (h m : HotConc.St) : Prop where
  tcs : h.tcs = m.tcs
  live : h.live = m.live
  fbh : h.fb = []
  fbm : m.fb = []
  idsL : ∀ e ∈ m.live, ∃ n ∈ used, e.id = toString n
  idsP : ∀ p ∈ m.pend, ∃ n ∈ used, p.id = toString n

theorem hotRel_mono {used used' : List Nat} {h m : HotConc.St} (r : HotRel used h m) (hs : ∀ n ∈ used, n ∈ used') :
    HotRel used' h m :=
  ⟨r.tcs, r.live, r.fbh, r.fbm, fun e he => let ⟨n, hn, e1⟩ := r.idsL e he; ⟨n, hs n hn, e1⟩,
   fun p hp => let ⟨n, hn, e1⟩ := r.idsP p hp; ⟨n, hs n hn, e1⟩⟩

theorem hot_unused {used : List Nat} {h m : HotConc.St} (r : HotRel used h m) (id : Nat) (hid : id ∉ used) :
    m.used (toString id) = false := by
  simp only [HotConc.St.used, Bool.or_eq_false_iff, List.any_eq_false, beq_iff_eq]
  constructor
  · intro e he heq
    obtain ⟨n, hn, e1⟩ := r.idsL e he
    exact hid (toString_nat_inj (e1.symm.trans heq) ▸ hn)
  · intro p hp heq
    obtain ⟨n, hn, e1⟩ := r.idsP p hp
    exact hid (toString_nat_inj (e1.symm.trans heq) ▸ hn)

/-- the hotspot-model ops a pipeline op amounts to -/
def hotOps (o : Op R) (out : Out) : List HotConc.Op :=
  match o, out with
  | .entry q, .dec none => [.entry (toString q.id) (rname q.res) q.args q.atts]
  | .entry q, .dec (some .hot) => [.entry (toString q.id) (rname q.res) q.args q.atts]
  | .entry q, .dec (some (.cb _)) => [.check (toString q.id) (rname q.res) q.args q.atts]
  | .exit id _, .none => [.exit (toString id)]
  | _, _ => []

theorem hot_exit_rel {used : List Nat} {h m : HotConc.St} (r : HotRel used h m) (id : String) :
    HotRel used (HotConc.exit h id) (HotConc.exit m id) := by
  simp only [HotConc.exit, r.live]
  cases hf : m.live.find? (fun e => e.id == id) with
  | none => exact ⟨r.tcs, r.live, r.fbh, r.fbm, r.idsL, r.idsP⟩
  | some e =>
    refine ⟨by simp [r.tcs], by simp [r.live], r.fbh, r.fbm, ?_, r.idsP⟩
    intro e' he'
    exact r.idsL e' (List.mem_of_mem_eraseP he')

section step
variable [LT R] [∀ a b : R, Decidable (a < b)]

theorem step_hot (A : System.Arith R) (s : St R) (o : Op R) (m : HotConc.St) (r : HotRel s.used s.hot m)
    (hno : ∀ rs, o ≠ .loadHot rs) :
    HotRel (step A s o).1.used (step A s o).1.hot (HotConc.run m (hotOps o (step A s o).2)) := by
  cases o with
  | loadHot rs => exact absurd rfl (hno rs)
  | clock t => simp only [step]; split_ifs <;> exact r
  | loadSys rs => simp only [step]; split_ifs <;> exact r
  | loadIso rs => simp only [step]; split_ifs <;> exact r
  | loadCb rs => simp only [step]; split_ifs <;> exact r
  | loadFlow rs =>
    simp only [step]
    split_ifs
    · exact r
    · have hg := ghostNodes_frame rs s
      have h1 : (loadFlow s rs).hot = s.hot := hg.2.2.2.1
      have h2 : (loadFlow s rs).used = s.used := hg.2.1
      show HotRel (loadFlow s rs).used (loadFlow s rs).hot m
      rw [h1, h2]; exact r
  | sysLoad x => exact r
  | sysCpu x => exact r
  | log => exact r
  | trace id => simp only [step]; split_ifs <;> exact r
  | exit id err =>
    simp only [step]
    split_ifs
    · exact r
    · exact hot_exit_rel r (toString id)
  | entry q =>
    simp only [step]
    split_ifs with hc
    · exact r
    · have hu : q.id ∉ s.used := by
        intro hm
        apply hc
        simp [usedId, hm]
      have hun := hot_unused r q.id hu
      have hused := (entry_static A s q).2.2.2.2.2.2.2.2.2
      have hsub : ∀ n ∈ s.used, n ∈ (entry A s q).1.used := by
        intro n hn; rw [hused]; exact List.mem_cons_of_mem _ hn
      have hmem : q.id ∈ (entry A s q).1.used := by rw [hused]; exact List.mem_cons_self ..
      simp only [entry_snd]
      have hck : HotConc.checkTcs (rname q.res) q.args q.atts m.tcs = HotConc.checkTcs (rname q.res) q.args q.atts s.hot.tcs := by
        rw [r.tcs]
      cases hd : decision A s q with
      | none =>
        have hv := decision_none A s q hd .hot
        simp only [verdict] at hv
        have hv' : (HotConc.checkTcs (rname q.res) q.args q.atts s.hot.tcs).2 = false := by
          cases hx : (HotConc.checkTcs (rname q.res) q.args q.atts s.hot.tcs).2
          · rfl
          · simp [hx] at hv
        simp only [hotOps, HotConc.run, List.foldl, HotConc.step, hun, Bool.false_eq_true, if_false]
        rw [entry_hot, if_pos hd]
        simp only [HotConc.entry, r.fbm, List.contains_nil, Bool.false_eq_true, if_false, hck, hv', hotAdmit, hotChecked]
        refine ⟨rfl, by simp [r.live], r.fbh, rfl, ?_, ?_⟩
        · intro e he
          simp only [List.mem_cons] at he
          rcases he with rfl | he
          · exact ⟨q.id, hmem, rfl⟩
          · obtain ⟨n, hn, e1⟩ := r.idsL e he
            exact ⟨n, hsub n hn, e1⟩
        · intro p hp
          obtain ⟨n, hn, e1⟩ := r.idsP p hp
          exact ⟨n, hsub n hn, e1⟩
      | some b =>
        have hne : decision A s q ≠ none := by rw [hd]; simp
        cases b with
        | hot =>
          have hv := decision_some A s q _ hd
          simp only [Blk.slot, verdict] at hv
          have hv' : (HotConc.checkTcs (rname q.res) q.args q.atts s.hot.tcs).2 = true := by
            cases hx : (HotConc.checkTcs (rname q.res) q.args q.atts s.hot.tcs).2
            · simp [hx] at hv
            · rfl
          simp only [hotOps, HotConc.run, List.foldl, HotConc.step, hun, Bool.false_eq_true, if_false]
          rw [entry_hot, if_neg hne, hd]
          simp only [reached, Blk.slot, Slot.pos, le_refl, decide_true, if_true, HotConc.entry, r.fbm, List.contains_nil,
            Bool.false_eq_true, if_false, hck, hv', hotChecked]
          exact ⟨rfl, r.live, r.fbh, rfl, fun e he => let ⟨n, hn, e1⟩ := r.idsL e he; ⟨n, hsub n hn, e1⟩,
                 fun p hp => let ⟨n, hn, e1⟩ := r.idsP p hp; ⟨n, hsub n hn, e1⟩⟩
        | cb k =>
          simp only [hotOps, HotConc.run, List.foldl, HotConc.step, hun, Bool.false_eq_true, if_false]
          rw [entry_hot, if_neg hne, hd]
          simp only [reached, Blk.slot, Slot.pos, Nat.reduceLeDiff, decide_true, if_true, HotConc.check, r.fbm,
            List.contains_nil, Bool.false_eq_true, if_false, hck, hotChecked]
          refine ⟨rfl, r.live, r.fbh, rfl, fun e he => let ⟨n, hn, e1⟩ := r.idsL e he; ⟨n, hsub n hn, e1⟩, ?_⟩
          intro p hp
          simp only [List.mem_cons] at hp
          rcases hp with rfl | hp
          · exact ⟨q.id, hmem, rfl⟩
          · obtain ⟨n, hn, e1⟩ := r.idsP p hp
            exact ⟨n, hsub n hn, e1⟩
        | sys =>
          simp only [hotOps, HotConc.run, List.foldl]
          rw [entry_hot, if_neg hne, hd]
          simp only [reached, Blk.slot, Slot.pos]
          exact hotRel_mono r hsub
        | flow i =>
          simp only [hotOps, HotConc.run, List.foldl]
          rw [entry_hot, if_neg hne, hd]
          simp only [reached, Blk.slot, Slot.pos]
          exact hotRel_mono r hsub
        | iso i tv =>
          simp only [hotOps, HotConc.run, List.foldl]
          rw [entry_hot, if_neg hne, hd]
          simp only [reached, Blk.slot, Slot.pos]
          exact hotRel_mono r hsub

/-- the hotspot-model history an integrated history amounts to -/
def hotHist (A : System.Arith R) (s : St R) : List (Op R) → List HotConc.Op
  | [] => []
  | o :: os => hotOps o (step A s o).2 ++ hotHist A (step A s o).1 os

theorem run_hot (A : System.Arith R) (s : St R) (os : List (Op R)) (m : HotConc.St) (r : HotRel s.used s.hot m)
    (hno : ∀ rs, Op.loadHot rs ∉ os) :
    HotRel (run A s os).1.used (run A s os).1.hot (HotConc.run m (hotHist A s os)) := by
  induction os generalizing s m with
  | nil => exact r
  | cons o os ih =>
    have h1 := step_hot A s o m r (fun rs e => hno rs (e ▸ List.mem_cons_self ..))
    have := ih (step A s o).1 _ h1 (fun rs hm => hno rs (List.mem_cons_of_mem _ hm))
    simpa [hotHist, run, HotConc.run, List.foldl_append] using this

end step

end Sentinel.Pipe
