import Mathlib.Tactic
import Sentinel.Model.LeapArrayRace
import Sentinel.Lemmas.LeapArrayRaceTerm
/-!
# Control flow never depends on counter contents (C09, signed amounts)

`eraseCfg` forgets everything the control flow may not depend on: the counter words and all ghosts, the
running sums of readers, the returned values, and the amounts of the `add` operations on the plain
counters (an `rt` amount is kept: `AddRt` compares it with `minRt`).  Erasure is a homomorphism of the
step relation (`exec_erase`): `erase (c.exec e) = erase ((erase c).exec e)`.  Hence two configurations
with the same erasure — in particular the *positive* and the *negative* run of a signed case — stay
erasure-equal under every schedule (`ctl_independent`): same bucket starts, lock word, `minRt`,
`maxConc`, same program counters (so the same yield points), same shape of results.
-/
namespace Sentinel.LAR

def eraseOp : OpSpec → OpSpec
  | .add ev a => .add ev (if ev = evRt then a else 0)
  | o => o

def pcKeepsOp : Pc → Bool
  | .minrtLoad | .minrtStore => true
  | _ => false

def erasePc : Pc → Pc
  | .mbGet rem _ => .mbGet rem 0
  | p => p

def eraseFrame (f : Frame) : Frame :=
  { op := if pcKeepsOp f.pc then f.op else eraseOp f.op, now := f.now, pc := erasePc f.pc }

def eraseRes (r : Res) : Res := { op := eraseOp r.op, now := r.now, val := none, totAt := 0 }

def eraseTh (t : Th) : Th :=
  { prog := t.prog.map eraseOp, cur := t.cur.map eraseFrame, res := t.res.map eraseRes }

def eraseSh (sh : Shared) : Shared :=
  { n := sh.n, L := sh.L, Iv := sh.Iv, start := sh.start, cnt := fun _ _ => 0, minRt := sh.minRt, maxConc := sh.maxConc,
    lock := sh.lock, tot := fun _ _ => 0, fresh := fun _ _ => 0, dirty := fun _ _ => false, lost := fun _ _ => 0 }

def eraseCfg (c : Cfg) : Cfg := { sh := eraseSh c.sh, clock := c.clock, th := c.th.map eraseTh }

def eraseAct : Act → Act
  | .addCnt i k _ => .addCnt i k 0
  | a => a

theorem eraseOp_idem (op : OpSpec) : eraseOp (eraseOp op) = eraseOp op := by
  cases op <;> simp [eraseOp]
  intro h1 h2; exact absurd h2 h1

theorem eraseOp_ev (op : OpSpec) : (eraseOp op).ev = op.ev := by cases op <;> rfl

theorem apply_erase (sh : Shared) (a a' : Act) (h : eraseAct a = eraseAct a') :
    eraseSh (sh.apply a) = eraseSh ((eraseSh sh).apply a') := by
  cases a <;> cases a' <;> simp [eraseAct] at h <;> (try obtain ⟨rfl, rfl⟩ := h) <;> simp [Shared.apply, eraseSh]

theorem keepOf_erase (sh : Shared) (op : OpSpec) (now s : Nat) : keepOf (eraseSh sh) op now s = keepOf sh op now s := by
  cases op <;> rfl

theorem keepOf_eraseOp (sh : Shared) (op : OpSpec) (now s : Nat) : keepOf sh (eraseOp op) now s = keepOf sh op now s := by
  cases op <;> rfl

/-- the erased next frame of a step -/
def eraseNext (op : OpSpec) (now : Nat) : Next → Option Frame
  | .pc p => some (eraseFrame { op := op, now := now, pc := p })
  | .fin _ => none

theorem eraseNext_read (op : OpSpec) (now : Nat) (nx : Next)
    (h : ∀ p, nx = .pc p → pcKeepsOp p = false) :
    eraseNext op now nx = eraseNext (eraseOp op) now nx := by
  cases nx with
  | fin r => rfl
  | pc p => simp [eraseNext, eraseFrame, h p rfl, eraseOp_idem]

/-- **key lemma**: the action (up to the amount of an add) and the next program counter of a step are the same in the
    erased world — they never depend on counter contents, ghosts, running sums, or amounts of adds on plain counters -/
theorem decide_erase (sh : Shared) (f : Frame) :
    eraseAct (decideStep sh f.op f.now f.pc).1 = eraseAct (decideStep (eraseSh sh) (eraseFrame f).op f.now (erasePc f.pc)).1
    ∧ eraseNext f.op f.now (decideStep sh f.op f.now f.pc).2
        = eraseNext (eraseFrame f).op f.now (decideStep (eraseSh sh) (eraseFrame f).op f.now (erasePc f.pc)).2 := by
  obtain ⟨op, now, pc⟩ := f
  cases pc
  case depLoad j col =>
    simp only [decideStep, eraseFrame, erasePc, pcKeepsOp, Bool.false_eq_true, if_false, keepOf_erase, keepOf_eraseOp]
    refine ⟨by first | rfl | trivial, ?_⟩
    have hn : (eraseSh sh).n = sh.n := rfl
    have hs : (eraseSh sh).start = sh.start := rfl
    rw [hn, hs]
    apply eraseNext_read
    intro p hp
    split_ifs at hp
    all_goals first
      | (cases hp; rfl)
      | (generalize (col ++ [j]) = c0 at hp; cases c0 <;> simp [afterScan] at hp <;> subst hp <;> rfl)
      | (cases col <;> simp [afterScan] at hp <;> subst hp <;> rfl)
  case mbGet rem acc =>
    simp only [decideStep, eraseFrame, erasePc, pcKeepsOp, Bool.false_eq_true, if_false]
    refine ⟨by cases rem <;> rfl, ?_⟩
    cases rem with
    | nil => rfl
    | cons j r => cases r <;> simp [eraseNext, eraseFrame, erasePc, pcKeepsOp, eraseOp_idem]
  all_goals
    cases op <;>
    simp only [decideStep, eraseFrame, erasePc, pcKeepsOp, eraseOp, afterCur, firstVal, eraseSh,
      Bool.false_eq_true, if_false, if_true] <;>
    (try split_ifs) <;>
    (try simp_all [eraseAct, eraseNext, eraseFrame, erasePc, pcKeepsOp, eraseOp]) <;>
    (try (rename_i h; simp [Nat.not_lt.mpr h, eraseNext]))

theorem eraseRes_idem (r : Res) : eraseRes (eraseRes r) = eraseRes r := by
  simp [eraseRes, eraseOp_idem]

theorem eraseRes_mkRes (sh sh' : Shared) (op op' : OpSpec) (now : Nat) (r r' : Option Nat) (h : eraseOp op = eraseOp op') :
    eraseRes (mkRes sh op now r) = eraseRes (mkRes sh' op' now r') := by
  simp [eraseRes, mkRes, h]

theorem startNext_erase (sh sh' : Shared) (clock : Nat) (prog : List OpSpec) (res res' : List Res)
    (hn : sh'.n = sh.n) (h : res.map eraseRes = res'.map eraseRes) :
    eraseTh (startNext sh clock prog res) = eraseTh (startNext sh' clock (prog.map eraseOp) res') := by
  induction prog generalizing res res' with
  | nil => simp [startNext, eraseTh, h]
  | cons op rest ih =>
    simp only [List.map_cons, startNext]
    by_cases hc : clock = 0
    · rw [if_pos hc, if_pos hc]
      apply ih
      simp only [List.map_append, List.map_cons, List.map_nil, h]
      rw [eraseRes_mkRes sh sh' op (eraseOp op) 0 _ _ (eraseOp_idem op).symm]
    · rw [if_neg hc, if_neg hc]
      have hfp : firstPc sh' (eraseOp op) = firstPc sh op := by
        cases op <;> simp [firstPc, eraseOp, firstVal, hn]
      rw [hfp]
      cases hf : firstPc sh op with
      | pc p =>
        have hk : pcKeepsOp p = false := by
          cases op <;> simp only [firstPc, firstVal] at hf
          all_goals first
            | (cases hf; rfl)
            | (split_ifs at hf <;> cases hf <;> rfl)
        simp [eraseTh, eraseFrame, hk, eraseOp_idem, h]
      | fin r =>
        apply ih
        simp only [List.map_append, List.map_cons, List.map_nil, h]
        rw [eraseRes_mkRes sh sh' op (eraseOp op) clock _ _ (eraseOp_idem op).symm]

theorem eraseFrame_op (f : Frame) : eraseOp (eraseFrame f).op = eraseOp f.op := by
  unfold eraseFrame
  simp only []
  split_ifs
  · rfl
  · exact eraseOp_idem _

/-- erasure is a homomorphism of a thread's step -/
theorem stepTh_erase (sh : Shared) (clock : Nat) (t : Th) :
    eraseSh (stepTh sh clock t).1 = eraseSh (stepTh (eraseSh sh) clock (eraseTh t)).1
    ∧ eraseTh (stepTh sh clock t).2 = eraseTh (stepTh (eraseSh sh) clock (eraseTh t)).2 := by
  cases hc : t.cur with
  | none =>
    have hc' : (eraseTh t).cur = none := by simp [eraseTh, hc]
    rw [stepTh_none _ _ _ hc, stepTh_none _ _ _ hc']
    refine ⟨rfl, ?_⟩
    exact startNext_erase sh (eraseSh sh) clock t.prog t.res (t.res.map eraseRes) rfl (by simp [eraseRes_idem])
  | some f =>
    have hc' : (eraseTh t).cur = some (eraseFrame f) := by simp [eraseTh, hc]
    rw [stepTh_some _ _ _ f hc, stepTh_some _ _ _ _ hc']
    obtain ⟨ha, hn⟩ := decide_erase sh f
    have hfn : (eraseFrame f).now = f.now := rfl
    have hfp : (eraseFrame f).pc = erasePc f.pc := rfl
    rw [hfn, hfp]
    have hsh := apply_erase sh _ _ ha
    refine ⟨hsh, ?_⟩
    cases h1 : (decideStep sh f.op f.now f.pc).2 with
    | pc p =>
      cases h2 : (decideStep (eraseSh sh) (eraseFrame f).op f.now (erasePc f.pc)).2 with
      | pc p' =>
        rw [h1, h2] at hn
        simp only [eraseNext, Option.some.injEq] at hn
        simp only [adv, eraseTh, Option.map_some, List.map_map]
        rw [hn]
        congr 1
        · simp [Function.comp_def, eraseOp_idem]
        · simp [Function.comp_def, eraseRes_idem]
      | fin r' => rw [h1, h2] at hn; simp [eraseNext] at hn
    | fin r =>
      cases h2 : (decideStep (eraseSh sh) (eraseFrame f).op f.now (erasePc f.pc)).2 with
      | pc p' => rw [h1, h2] at hn; simp [eraseNext] at hn
      | fin r' =>
        simp only [adv]
        have hprog : (eraseTh t).prog = t.prog.map eraseOp := rfl
        have hres : (eraseTh t).res = t.res.map eraseRes := rfl
        rw [hprog, hres]
        apply startNext_erase
        · rw [apply_n, apply_n]; rfl
        · simp only [List.map_append, List.map_cons, List.map_nil, List.map_map]
          congr 1
          · simp [Function.comp_def, eraseRes_idem]
          · first
              | rfl
              | (rw [eraseRes_mkRes _ ((eraseSh sh).apply (decideStep (eraseSh sh) (eraseFrame f).op f.now (erasePc f.pc)).1)
                  f.op (eraseFrame f).op f.now r r' (eraseFrame_op f).symm]; rfl)
              | rw [eraseRes_mkRes _ ((eraseSh sh).apply (decideStep (eraseSh sh) (eraseFrame f).op f.now (erasePc f.pc)).1)
                  f.op (eraseFrame f).op f.now r r' (eraseFrame_op f).symm]

theorem eraseFrame_idem (f : Frame) : eraseFrame (eraseFrame f) = eraseFrame f := by
  obtain ⟨op, now, pc⟩ := f
  cases pc <;> simp [eraseFrame, erasePc, pcKeepsOp, eraseOp_idem]

theorem eraseTh_idem (t : Th) : eraseTh (eraseTh t) = eraseTh t := by
  obtain ⟨prog, cur, res⟩ := t
  simp only [eraseTh, List.map_map, Option.map_map]
  congr 1
  · simp [Function.comp_def, eraseOp_idem]
  · cases cur <;> simp [eraseFrame_idem]
  · simp [Function.comp_def, eraseRes_idem]

theorem eraseCfg_idem (c : Cfg) : eraseCfg (eraseCfg c) = eraseCfg c := by
  simp only [eraseCfg, List.map_map]
  congr 1
  simp [Function.comp_def, eraseTh_idem]

/-- **erasure is a homomorphism of the step relation** -/
theorem exec_erase (c : Cfg) (e : Entry) : eraseCfg (c.exec e) = eraseCfg ((eraseCfg c).exec e) := by
  cases e with
  | tick d =>
    have := eraseCfg_idem c
    simp only [Cfg.exec, eraseCfg] at this ⊢
    simp only [Cfg.mk.injEq] at this ⊢
    exact ⟨this.1.symm, trivial, this.2.2.symm⟩
  | step i =>
    simp only [Cfg.exec]
    have hget : (eraseCfg c).th[i]? = (c.th[i]?).map eraseTh := by simp [eraseCfg]
    cases hi : c.th[i]? with
    | none =>
      rw [hget, hi]
      exact (eraseCfg_idem c).symm
    | some t =>
      rw [hget, hi]
      simp only [Option.map_some]
      obtain ⟨h1, h2⟩ := stepTh_erase c.sh c.clock t
      have hsh : (eraseCfg c).sh = eraseSh c.sh := rfl
      have hck : (eraseCfg c).clock = c.clock := rfl
      have hth : (eraseCfg c).th = c.th.map eraseTh := rfl
      rw [hsh, hck, hth]
      simp only [eraseCfg]
      rw [h1, List.map_set, List.map_set, h2, List.map_map]
      have : (eraseTh ∘ eraseTh) = eraseTh := by funext t; exact eraseTh_idem t
      rw [this]

theorem run_erase (c : Cfg) (s : List Entry) : eraseCfg (run c s) = eraseCfg (run (eraseCfg c) s) := by
  induction s generalizing c with
  | nil => exact (eraseCfg_idem c).symm
  | cons e r ih =>
    simp only [run]
    rw [ih (c.exec e), ih ((eraseCfg c).exec e), exec_erase c e]

/-- **control flow never depends on counter contents**: configurations with the same erasure keep the same erasure under
    every schedule -/
theorem ctl_independent (c c' : Cfg) (h : eraseCfg c = eraseCfg c') (s : List Entry) :
    eraseCfg (run c s) = eraseCfg (run c' s) := by
  rw [run_erase c s, run_erase c' s, h]

end Sentinel.LAR
