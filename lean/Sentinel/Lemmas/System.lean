import Mathlib.Tactic
import Sentinel.Lemmas.LeapArray
import Sentinel.Model.System
import Sentinel.Props.C08
/-!
# Helper lemmas for C07

* `runAdds_append`, `mono_append` — histories grow at the end
* `readW_of_mem`, `readW_of_not_mem`, `vMaxBucket_eq` — `GetMaxOfSingleBucket` of the default view is the
  maximum of the per-bucket references of the two buckets of the window
* `modelView_eq_refView` — every input of the system predicate read from the leap array equals the
  reference recomputed from the recorded history
-/
namespace Sentinel.System
open Sentinel.LA

section generic
variable {M : Type} [AddCommMonoid M]

theorem runAdds_append (a : Arr M) (h : List (Nat × M)) (t : Nat) (x : M) :
    runAdds a (h ++ [(t, x)]) = (add (runAdds a h) t x).1 := by
  induction h generalizing a with
  | nil => simp [runAdds]
  | cons e r ih => obtain ⟨t', x'⟩ := e; simp [runAdds, ih]

theorem mono_append (p : Nat) (h : List (Nat × M)) (t : Nat) (x : M)
    (hm : Mono p h) (hle : ∀ e ∈ h, e.1 ≤ t) (hp : p ≤ t) : Mono p (h ++ [(t, x)]) := by
  induction h generalizing p with
  | nil => simp [Mono, hp]
  | cons e r ih =>
    obtain ⟨t', x'⟩ := e
    obtain ⟨h1, h2⟩ := hm
    refine ⟨h1, ih t' h2 (fun e he => hle e (List.mem_cons_of_mem _ he)) ?_⟩
    exact hle (t', x') (List.mem_cons_self ..)

theorem readW_of_not_mem (sl : List (Slot M)) (b : Nat) (h : ∀ s ∈ sl, s.start ≠ b) : readW sl b b = 0 := by
  unfold readW
  apply List.sum_eq_zero
  intro x hx
  obtain ⟨s, hs, rfl⟩ := List.mem_map.mp hx
  have := h s hs
  split_ifs with hc
  · exact absurd (by omega) this
  · rfl

theorem readW_of_mem (sl : List (Slot M)) (hnd : sl.Pairwise fun a b => a.start ≠ b.start)
    (s : Slot M) (hs : s ∈ sl) : readW sl s.start s.start = s.val := by
  induction sl with
  | nil => simp at hs
  | cons a r ih =>
    obtain ⟨ha, hr⟩ := List.pairwise_cons.mp hnd
    have hcons : readW (a :: r) s.start s.start =
        (if s.start ≤ a.start ∧ a.start ≤ s.start then a.val else 0) + readW r s.start s.start := by
      simp [readW]
    rw [hcons]
    rcases List.mem_cons.mp hs with rfl | hsr
    · rw [readW_of_not_mem r s.start (fun s' hs' => (ha s' hs').symm)]
      simp
    · have hne : a.start ≠ s.start := ha s hsr
      rw [ih hr hsr]
      have : ¬ (s.start ≤ a.start ∧ a.start ≤ s.start) := by omega
      simp [this]

/-- the slots of a well-formed array have pairwise different start times -/
theorem wf_pairwise (a : Arr M) (hw : WF a) : a.slots.Pairwise fun x y => x.start ≠ y.start := by
  obtain ⟨hL, _, _, hres⟩ := hw
  rw [List.pairwise_iff_getElem]
  intro i j hi hj hij heq
  obtain ⟨k1, hk1, hr1⟩ := hres i hi
  obtain ⟨k2, hk2, hr2⟩ := hres j hj
  rw [hk1, hk2] at heq
  have : k1 = k2 := Nat.eq_of_mul_eq_mul_right hL heq
  subst this
  omega

theorem wf_start_mul (a : Arr M) (hw : WF a) (s : Slot M) (hs : s ∈ a.slots) : ∃ k, s.start = k * a.L := by
  obtain ⟨_, _, _, hres⟩ := hw
  obtain ⟨i, hi, rfl⟩ := List.getElem_of_mem hs
  obtain ⟨k, hk, _⟩ := hres i hi
  exact ⟨k, hk⟩

end generic

theorem foldl_max_le_iff (l : List Nat) (i m : Nat) : l.foldl max i ≤ m ↔ i ≤ m ∧ ∀ x ∈ l, x ≤ m := by
  induction l generalizing i with
  | nil => simp
  | cons a r ih =>
    simp only [List.foldl_cons, ih, max_le_iff, List.mem_cons, forall_eq_or_imp]
    tauto

/-- membership in the window of the 2-bucket view: exactly the slots that start at the current bucket or
    at the one before it -/
theorem mem_viewVals_two (a : Arr Bucket) (hw : WF a) (hn2 : 2 ≤ a.n) (now : Nat) (hpos : 0 < now) (s : Slot Bucket) :
    s ∈ viewVals a (2 * a.L) now ↔ s ∈ a.slots ∧ (s.start = cbs a.L now ∨ s.start = cbs a.L now - a.L) := by
  have hL : 0 < a.L := hw.1
  have he : cbs a.L now ≤ now := by unfold cbs; omega
  have hlt : now < cbs a.L now + a.L := by unfold cbs; have := Nat.mod_lt now hL; omega
  have h2 : 2 * a.L ≤ a.n * a.L := Nat.mul_le_mul_right _ hn2
  unfold viewVals rangeOf
  simp only [Nat.ne_of_gt hpos, if_false, List.mem_filter, Bool.and_eq_true, Bool.not_eq_true',
    decide_eq_true_eq, deprecated]
  constructor
  · rintro ⟨hs, _, hlo, hhi⟩
    refine ⟨hs, ?_⟩
    obtain ⟨k, hk⟩ := wf_start_mul a hw s hs
    have hq : cbs a.L now = now / a.L * a.L := cbs_eq _ _
    set q := now / a.L
    rw [hk, hq] at hlo hhi ⊢
    have hkq : k ≤ q := Nat.le_of_mul_le_mul_right hhi hL
    rcases Nat.lt_or_ge (k + 1) q with hlt2 | hge
    · exfalso
      have : (k + 2) * a.L ≤ q * a.L := Nat.mul_le_mul_right _ hlt2
      have e2 : (k + 2) * a.L = k * a.L + 2 * a.L := by ring
      omega
    · rcases Nat.eq_or_lt_of_le hkq with rfl | hklt
      · left; rfl
      · right
        have : q = k + 1 := by omega
        rw [this]
        have : (k + 1) * a.L = k * a.L + a.L := by ring
        omega
  · rintro ⟨hs, hor⟩
    have hsn : s.start ≤ now := by rcases hor with h | h <;> rw [h] <;> omega
    have hold : ¬ (now - s.start > a.n * a.L) := by rcases hor with h | h <;> rw [h] <;> omega
    refine ⟨hs, ⟨?_, ?_⟩⟩
    · simp only [hsn, if_true, decide_eq_false_iff_not]; exact hold
    · rcases hor with h | h <;> · rw [h]; omega

/-- `GetMaxOfSingleBucket` of the two-bucket view = maximum of what the array holds for the current
    bucket and for the previous one -/
theorem vMaxBucket_eq (a : Arr Bucket) (hw : WF a) (hn2 : 2 ≤ a.n) (now : Nat) (hpos : 0 < now) (ev : Ev) :
    vMaxBucket a (2 * a.L) now ev =
      max ((readW a.slots (cbs a.L now - a.L) (cbs a.L now - a.L)).get ev)
          ((readW a.slots (cbs a.L now) (cbs a.L now)).get ev) := by
  have hpw := wf_pairwise a hw
  apply eq_of_forall_ge_iff
  intro m
  unfold vMaxBucket
  rw [foldl_max_le_iff]
  simp only [Nat.zero_le, true_and, max_le_iff, List.mem_map, forall_exists_index, and_imp,
    forall_apply_eq_imp_iff₂]
  constructor
  · intro hall
    have key : ∀ b, (b = cbs a.L now ∨ b = cbs a.L now - a.L) → (readW a.slots b b).get ev ≤ m := by
      intro b hb
      by_cases hex : ∃ s ∈ a.slots, s.start = b
      · obtain ⟨s, hs, rfl⟩ := hex
        rw [readW_of_mem a.slots hpw s hs]
        exact hall s ((mem_viewVals_two a hw hn2 now hpos s).mpr ⟨hs, hb⟩)
      · push Not at hex
        rw [readW_of_not_mem a.slots b hex]
        cases ev <;> simp [Bucket.get]
    exact ⟨key _ (Or.inr rfl), key _ (Or.inl rfl)⟩
  · rintro ⟨h1, h2⟩ s hs
    obtain ⟨hsl, hor⟩ := (mem_viewVals_two a hw hn2 now hpos s).mp hs
    rw [← readW_of_mem a.slots hpw s hsl]
    rcases hor with h | h <;> rw [h] <;> assumption

/-- **the inputs of the predicate are the reference**: after any monotone history recorded on an inbound
    node created at `t0`, every statistic the system slot reads at `now` equals its reference over the history -/
theorem modelView_eq_refView {R : Type} (t0 : Nat) (h : List (Nat × Bucket)) (mono : Mono t0 h)
    (now : Nat) (hnow : ∀ e ∈ h, e.1 ≤ now) (h0 : t0 ≤ now) (hpos : 0 < now) (conc : Int) (load cpu : R) :
    modelView (runAdds (mk gN gL t0) h) conc now load cpu = refView h conc now load cpu := by
  have hs := fun ev => Sentinel.C08.getSum_eq_ref gN gL t0 (by decide) (by decide) h mono now hnow h0 hpos vI
    (by decide) (by decide) ev
  have hm := Sentinel.C08.minRt_maxConc_eq_ref gN gL t0 (by decide) (by decide) h mono now hnow h0 hpos vI
    (by decide) (by decide)
  obtain ⟨l', _, hl'm, hinv⟩ := runAdds_inv (mk gN gL t0) [] t0 t0 h (mk_inv gN gL t0 (by decide) (by decide)) mono now h0 hnow
  have hLn := runAdds_nL (mk gN gL t0 : Arr Bucket) h
  have hL' : (runAdds (mk gN gL t0 : Arr Bucket) h).L = gL := by simpa [mk] using hLn.1
  have hn' : (runAdds (mk gN gL t0 : Arr Bucket) h).n = gN := by simpa [mk] using hLn.2
  have hmax := vMaxBucket_eq (runAdds (mk gN gL t0) h) hinv.wf (by rw [hn']; decide) now hpos .complete
  rw [hL'] at hmax
  have hvI : vI = 2 * gL := by decide
  have hcl : cbs gL l' ≤ cbs gL now := cbs_mono gL hl'm
  have e1 := hinv.e (cbs gL now - gL) (cbs gL now - gL) (by rw [hL', hn']; simp only [gL, gN] at *; omega)
  have e2 := hinv.e (cbs gL now) (cbs gL now) (by rw [hL', hn']; simp only [gL, gN] at *; omega)
  rw [hL'] at e1 e2
  simp only [List.nil_append] at e1 e2
  unfold modelView refView refBucket
  rw [hs .pass, hs .rt, hs .complete, hm.1, hvI, hmax, e1, e2]
  simp [Bucket.get]

/-! ## the state machine: invariant tying the leap array / gauge to the ghost history -/

/-- number of live inbound entries -/
def cnt (l : List Entry) : Nat := (l.filter (·.inbound)).length

theorem cnt_cons (a : Entry) (r : List Entry) : cnt (a :: r) = (if a.inbound then 1 else 0) + cnt r := by
  unfold cnt
  by_cases h : a.inbound = true <;> simp [List.filter_cons, h] <;> omega

theorem cnt_eraseP (l : List Entry) (p : Entry → Bool) (e : Entry) (h : l.find? p = some e) :
    cnt (l.eraseP p) + (if e.inbound then 1 else 0) = cnt l := by
  induction l with
  | nil => simp at h
  | cons a r ih =>
    by_cases hp : p a = true
    · simp only [List.find?_cons, hp] at h
      cases h
      rw [List.eraseP_cons_of_pos hp, cnt_cons]; omega
    · have hp' : p a = false := by simpa using hp
      simp only [List.find?_cons, hp'] at h
      have := ih h
      rw [List.eraseP_cons_of_neg hp, cnt_cons, cnt_cons]; omega

/-- the history part of the invariant: the leap array is the run of the recorded history, time is monotone -/
structure GoodH {R : Type} (s : St R) : Prop where
  arr : s.started = true → s.arr = runAdds (mk gN gL s.t0) s.hist
  mono : Mono s.t0 s.hist
  le : ∀ e ∈ s.hist, e.1 ≤ s.now
  t0 : s.t0 ≤ s.now
  pos : s.started = true → 0 < s.now
  fresh : s.started = false → s.hist = []

/-- what every reachable state satisfies: `GoodH`, and the atomic gauge counts the live inbound entries -/
structure Good {R : Type} (s : St R) : Prop where
  h : GoodH s
  conc : s.conc = (cnt s.live : Int)

theorem record_goodH {R : Type} (s : St R) (x : Bucket) (hs : s.started = true) (g : GoodH s) : GoodH (record s x) := by
  have hpos := g.pos hs
  refine ⟨fun _ => ?_, ?_, ?_, g.t0, g.pos, fun h => ?_⟩
  · show (addAt s.arr s.now x).1 = runAdds (mk gN gL s.t0) (s.hist ++ [(s.now, x)])
    rw [runAdds_append, ← g.arr hs]
    simp [addAt, Nat.ne_of_gt hpos]
  · exact mono_append s.t0 s.hist s.now x g.mono g.le g.t0
  · intro e he
    rcases List.mem_append.mp he with h | h
    · exact g.le e h
    · simp at h; subst h; exact le_refl _
  · exact absurd hs (by simpa [record] using h)

/-- `GoodH` does not mention the gauge, the live list, the rules or the readings -/
theorem goodH_congr {R : Type} (s s' : St R) (g : GoodH s) (h1 : s'.arr = s.arr) (h2 : s'.hist = s.hist)
    (h3 : s'.now = s.now) (h4 : s'.t0 = s.t0) (h5 : s'.started = s.started) : GoodH s' := by
  refine ⟨?_, ?_, ?_, ?_, ?_, ?_⟩
  · rw [h1, h2, h4, h5]; exact g.arr
  · rw [h2, h4]; exact g.mono
  · rw [h2, h3]; exact g.le
  · rw [h3, h4]; exact g.t0
  · rw [h3, h5]; exact g.pos
  · rw [h2, h5]; exact g.fresh

@[simp] theorem record_started {R : Type} (s : St R) (x : Bucket) : (record s x).started = s.started := rfl
@[simp] theorem record_live {R : Type} (s : St R) (x : Bucket) : (record s x).live = s.live := rfl
@[simp] theorem record_conc {R : Type} (s : St R) (x : Bucket) : (record s x).conc = s.conc := rfl
@[simp] theorem record_rules {R : Type} (s : St R) (x : Bucket) : (record s x).rules = s.rules := rfl

/-- in a reachable state the code's inputs are the reference inputs -/
theorem viewOf_eq {R : Type} (s : St R) (hs : s.started = true) (g : Good s) : viewOf false s = viewOf true s := by
  unfold viewOf liveInbound
  simp only [Bool.false_eq_true, if_false, if_true]
  rw [g.h.arr hs, modelView_eq_refView s.t0 s.hist g.h.mono s.now g.h.le g.h.t0 (g.h.pos hs), g.conc]
  rfl

theorem onBlocked_good {R : Type} (s : St R) (batch : Nat) (hs : s.started = true) (g : Good s) :
    Good (onBlocked s batch) :=
  ⟨record_goodH s _ hs g.h, g.conc⟩

theorem onPassed_good {R : Type} (s : St R) (e : Entry) (hs : s.started = true) (g : Good s) :
    Good (onPassed s e) := by
  unfold onPassed
  by_cases hin : e.inbound = true
  · simp only [hin, if_true]
    refine ⟨?_, ?_⟩
    · have h0 : GoodH ({ s with conc := s.conc + 1 } : St R) := goodH_congr s _ g.h rfl rfl rfl rfl rfl
      have h1 := record_goodH ({ s with conc := s.conc + 1 } : St R) (concBucket (s.conc + 1)) hs h0
      have h2 := record_goodH (record ({ s with conc := s.conc + 1 } : St R) (concBucket (s.conc + 1)))
        (evBucket .pass e.batch) hs h1
      exact goodH_congr (record (record ({ s with conc := s.conc + 1 } : St R) (concBucket (s.conc + 1)))
        (evBucket .pass e.batch)) _ h2 rfl rfl rfl rfl rfl
    · show s.conc + 1 = (cnt (e :: s.live) : Int)
      rw [cnt_cons, g.conc, hin]; push_cast; simp; omega
  · have hin' : e.inbound = false := by simpa using hin
    simp only [hin', Bool.false_eq_true, if_false]
    refine ⟨goodH_congr s _ g.h rfl rfl rfl rfl rfl, ?_⟩
    show s.conc = (cnt (e :: s.live) : Int)
    rw [cnt_cons, g.conc, hin']; simp

theorem onExit_good {R : Type} (s : St R) (e : Entry) (hs : s.started = true) (g : Good s)
    (hf : s.live.find? (·.id == e.id) = some e) : Good (onExit s e) := by
  have hc := cnt_eraseP s.live (·.id == e.id) e hf
  unfold onExit
  by_cases hin : e.inbound = true
  · simp only [hin, if_true] at hc ⊢
    refine ⟨?_, ?_⟩
    · have h0 : GoodH ({ s with live := s.live.eraseP (·.id == e.id) } : St R) := goodH_congr s _ g.h rfl rfl rfl rfl rfl
      have h1 := record_goodH ({ s with live := s.live.eraseP (·.id == e.id) } : St R) (evBucket .rt (s.now - e.start)) hs h0
      have h2 := record_goodH (record ({ s with live := s.live.eraseP (·.id == e.id) } : St R) (evBucket .rt (s.now - e.start)))
        (evBucket .complete e.batch) hs h1
      exact goodH_congr (record (record ({ s with live := s.live.eraseP (·.id == e.id) } : St R) (evBucket .rt (s.now - e.start)))
        (evBucket .complete e.batch)) _ h2 rfl rfl rfl rfl rfl
    · show s.conc - 1 = (cnt (s.live.eraseP (·.id == e.id)) : Int)
      rw [g.conc, ← hc]; push_cast; omega
  · have hin' : e.inbound = false := by simpa using hin
    simp only [hin', Bool.false_eq_true, if_false, Nat.add_zero] at hc ⊢
    refine ⟨goodH_congr s _ g.h rfl rfl rfl rfl rfl, ?_⟩
    show s.conc = (cnt (s.live.eraseP (·.id == e.id)) : Int)
    rw [g.conc, hc]

theorem onExitErr_good {R : Type} (s : St R) (e : Entry) (hs : s.started = true) (g : Good s)
    (hf : s.live.find? (·.id == e.id) = some e) : Good (onExitErr s e) := by
  unfold onExitErr
  by_cases hin : e.inbound = true
  · simp only [hin, if_true]
    exact onExit_good (record s (evBucket .error e.batch)) e hs ⟨record_goodH s _ hs g.h, g.conc⟩ hf
  · have hin' : e.inbound = false := by simpa using hin
    simp only [hin', Bool.false_eq_true, if_false]
    exact onExit_good s e hs g hf

end Sentinel.System
