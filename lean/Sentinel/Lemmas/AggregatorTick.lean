import Mathlib.Tactic
import Sentinel.Lemmas.AggregatorSys
/-!
# Aggregator, part D: a tick of the aggregator keeps the system invariant
-/
set_option linter.unusedSectionVars false
namespace Sentinel.AGG
open Sentinel.LA Sentinel.C08 Sentinel.Agg Sentinel.MetricLog

/-- where an item of `currentMetricItems` comes from: a slot selected by the time predicate -/
theorem nodeItems_ts (nd : Node) (now lo cur : Nat) (it : Item) (hit : it ∈ nodeItems nd now lo cur) :
    cur ≠ 0 ∧ ∃ s ∈ nd.a.slots, lo ≤ s.start ∧ s.start ≤ cur - 1 ∧ it.ts = secOf s.start := by
  unfold nodeItems at hit
  split_ifs at hit with hc
  · simp at hit
  · refine ⟨hc, ?_⟩
    obtain ⟨p, hp, rfl⟩ := List.mem_map.mp hit
    have hp' := (List.mem_filter.mp hp).1
    unfold secondItems at hp'
    dsimp only at hp'
    obtain ⟨sec, hsec, rfl⟩ := List.mem_map.mp hp'
    rw [List.mem_eraseDups] at hsec
    obtain ⟨s, hs, rfl⟩ := List.mem_map.mp hsec
    split_ifs at hs with h0
    · simp at hs
    · obtain ⟨hs1, hs2⟩ := List.mem_filter.mp hs
      simp only [Bool.and_eq_true, decide_eq_true_eq] at hs2
      exact ⟨s, hs1, hs2.2.1, hs2.2.2, rfl⟩

/-- of a list of nodes with distinct names, only the node named `r` contributes -/
theorem flatMap_node_single (l : List Node) (hnd : (l.map (·.res)).Nodup) (r : Bytes) (G : Node → List Item) :
    (l.flatMap fun nd => if nd.res = r then G nd else []) =
      match l.find? (fun nd => decide (nd.res = r)) with
      | some nd => G nd
      | none => [] := by
  induction l with
  | nil => rfl
  | cons a t ih =>
    simp only [List.map_cons, List.nodup_cons] at hnd
    rw [List.flatMap_cons, List.find?_cons]
    by_cases har : a.res = r
    · have hrest : (t.flatMap fun nd => if nd.res = r then G nd else []) = [] := by
        rw [List.flatMap_eq_nil_iff]
        intro nd hnd'
        have : nd.res ≠ r := fun e => hnd.1 (List.mem_map.mpr ⟨nd, hnd', by rw [e, har]⟩)
        simp [this]
      simp [har, hrest]
    · simp only [har, if_false, List.nil_append, decide_false]
      exact ih hnd.2

theorem find_node (l : List Node) (hnd : (l.map (·.res)).Nodup) (nd : Node) (h : nd ∈ l) :
    l.find? (fun x => decide (x.res = nd.res)) = some nd := by
  induction l with
  | nil => simp at h
  | cons a t ih =>
    simp only [List.map_cons, List.nodup_cons] at hnd
    rw [List.find?_cons]
    rcases List.mem_cons.mp h with rfl | h
    · simp
    · have : a.res ≠ nd.res := fun e => hnd.1 (List.mem_map.mpr ⟨nd, h, e.symm⟩)
      simp only [this, decide_false]
      exact ih hnd.2 h

theorem find_none (l : List Node) (r : Bytes) (h : ∀ nd ∈ l, nd.res ≠ r) :
    l.find? (fun x => decide (x.res = r)) = none := by
  rw [List.find?_eq_none]
  intro x hx
  simp [h x hx]

/-- the items one `doAggregate` collects for `(r, sec)` -/
theorem collect_filter (nodes : List Node) (hnd : (nodes.map (·.res)).Nodup) (now lo cur sec : Nat) (r : Bytes) :
    (collect nodes now lo cur).filter (fun it => decide (it.ts = sec) && decide (it.res = r)) =
      match nodes.find? (fun nd => decide (nd.res = r)) with
      | some nd => (nodeItems nd now lo cur).filter fun it => decide (it.ts = sec)
      | none => [] := by
  unfold collect
  rw [List.filter_flatMap, ← flatMap_node_single nodes hnd r]
  congr 1
  funext nd
  split_ifs with h
  · apply List.filter_congr
    intro it hit
    simp [nodeItems_res nd now lo cur it hit, h]
  · rw [List.filter_eq_nil_iff]
    intro it hit hp
    simp only [Bool.and_eq_true, decide_eq_true_eq] at hp
    exact h ((nodeItems_res nd now lo cur it hit).symm.trans hp.2)

/-- **what one node reports for one second in one fetch** (hypotheses of the system invariant): the reference inside
    the window, nothing outside -/
theorem node_value (n L T0 : Nat) (hn : 0 < n) (hL : 0 < L) (hd : L ∣ 1000) (hT0 : 0 < T0)
    (a : Arr Bucket) (t0 : Nat) (ev : List (Nat × Bucket)) (t lo cur sec : Nat)
    (h1 : T0 ≤ t0) (h2 : t0 ≤ t) (ha : a = runOps (LA.mk n L t0) (opsOfAdds ev)) (hm : MonoOps t0 (opsOfAdds ev))
    (hb : ∀ o ∈ opsOfAdds ev, t0 ≤ o.time ∧ o.time ≤ t)
    (hlo : 1000 ∣ lo) (hcur : cur = secOf t) (hlc : lo ≤ cur) (hc0 : cur ≠ 0)
    (hok : t < max lo (secOf T0) + n * L) :
    itemAt (secondItems a t lo (cur - 1)) sec = if lo ≤ sec ∧ sec < cur then secRef ev sec else 0 := by
  have ht0 : 0 < t0 := lt_of_lt_of_le hT0 h1
  have htpos : 0 < t := lt_of_lt_of_le ht0 h2
  have hr := reach_ops n L t0 hn hL ht0 (opsOfAdds ev) hm t (fun o ho => (hb o ho).2) h2
  rw [addsOf_opsOfAdds, ← ha] at hr
  have hfence : ∀ s ∈ a.slots, secOf t0 ≤ s.start := by
    rw [ha]
    intro s hs
    have h3 := runOps_fence _ (opsOfAdds ev) (cbs L t0) (mk_fence n L t0) s hs
    have h4 := le_cbs_of_dvd L (secOf t0) t0 hL (Dvd.dvd.trans hd (secOf_dvd t0)) (secOf_le t0)
    omega
  have hcd : 1000 ∣ cur := hcur ▸ secOf_dvd t
  have hct : cur ≤ t := hcur ▸ secOf_le t
  have hev : ∀ e ∈ ev, secOf t0 ≤ secOf e.1 := by
    intro e he
    have : Op.add e.1 e.2 ∈ opsOfAdds ev := List.mem_map.mpr ⟨e, he, rfl⟩
    exact secOf_mono (hb _ this).1
  by_cases hw : lo ≤ sec ∧ sec < cur
  · simp only [hw, and_self, if_true]
    by_cases hds : 1000 ∣ sec
    · have hsc : sec + 1000 ≤ cur := by
        obtain ⟨k1, rfl⟩ := hds; obtain ⟨k2, rfl⟩ := hcd; omega
      by_cases hst : secOf t0 ≤ sec
      · refine node_itemAt a n L ev _ t hr htpos hd lo cur sec hlo hds hct hw.1 hsc ?_
        have := secOf_mono h1
        have : max lo (secOf T0) ≤ sec := max_le hw.1 (by omega)
        omega
      · rw [secRef_zero ev sec (fun e he => by have := hev e he; omega)]
        apply node_itemAt_zero a t lo (cur - 1) sec (Nat.ne_of_gt htpos)
        intro s hs _ _
        have h5 := hfence s hs
        have h6 : secOf t0 ≤ secOf s.start := by
          have := secOf_mono h5; rwa [secOf_of_dvd (secOf_dvd t0)] at this
        intro he
        have he' : secOf s.start = sec := he
        omega
    · rw [secRef_zero ev sec (fun e _ he => hds (he ▸ secOf_dvd e.1))]
      apply node_itemAt_zero a t lo (cur - 1) sec (Nat.ne_of_gt htpos)
      intro s _ _ _ he
      exact hds (he ▸ secOf_dvd s.start)
  · simp only [hw, if_false]
    apply node_itemAt_zero a t lo (cur - 1) sec (Nat.ne_of_gt htpos)
    intro s _ h3 h4 he
    apply hw
    have h7 := le_secOf_of_dvd hlo h3
    have h8 := secOf_le s.start
    unfold secOf at h7 h8
    constructor <;> omega

theorem node_fence (n L t0 : Nat) (hL : 0 < L) (hd : L ∣ 1000) (ops : List (Op Bucket)) :
    ∀ s ∈ (runOps (LA.mk n L t0 : Arr Bucket) ops).slots, secOf t0 ≤ s.start := by
  intro s hs
  have h3 := runOps_fence _ ops (cbs L t0) (mk_fence n L t0) s hs
  have h4 := le_cbs_of_dvd L (secOf t0) t0 hL (Dvd.dvd.trans hd (secOf_dvd t0)) (secOf_le t0)
  omega

theorem mem_collect (nodes : List Node) (now lo cur : Nat) (it : Item) (h : it ∈ collect nodes now lo cur) :
    ∃ nd ∈ nodes, it ∈ nodeItems nd now lo cur := by
  unfold collect at h
  obtain ⟨nd, hnd, hit⟩ := List.mem_flatMap.mp h
  exact ⟨nd, hnd, hit⟩

/-- **a tick of the aggregator keeps the invariant** -/
theorem sysInv_tick (n L T0 : Nat) (hn : 0 < n) (hL : 0 < L) (hd : L ∣ 1000) (hT0 : 0 < T0)
    (s : St) (hist : List Agg.Ev) (now : Nat) (inv : SysInv n L T0 s hist now) (t : Nat) (ht : now ≤ t)
    (hok : skips s.lastFetch (secOf t) = true ∨ t < max (s.lastFetch.getD 0) (secOf T0) + n * L) :
    SysInv n L T0 (aggregate s t).1 (hist ++ [.tick t]) t := by
  have hev : ∀ r, eventsOf r (hist ++ [.tick t]) = eventsOf r hist := fun r => eventsOf_snoc_tick r hist t
  have hops : ∀ r, opsOf r (hist ++ [.tick t]) = opsOf r hist := fun r => by unfold opsOf; rw [hev]
  have hnode : ∀ nd ∈ s.nodes, ∃ t0, T0 ≤ t0 ∧ t0 ≤ t ∧ nd.a = runOps (LA.mk n L t0) (opsOf nd.res (hist ++ [.tick t])) ∧
      MonoOps t0 (opsOf nd.res (hist ++ [.tick t])) ∧ (∀ o ∈ opsOf nd.res (hist ++ [.tick t]), t0 ≤ o.time ∧ o.time ≤ t) := by
    intro nd hnd
    obtain ⟨t0, a1, a2, a3, a4, a5⟩ := inv.node nd hnd
    rw [hops]
    exact ⟨t0, a1, le_trans a2 ht, a3, a4, fun o ho => ⟨(a5 o ho).1, le_trans (a5 o ho).2 ht⟩⟩
  have hhas : ∀ res, eventsOf res (hist ++ [.tick t]) ≠ [] → ∃ nd ∈ s.nodes, nd.res = res := by
    intro r hr; rw [hev] at hr; exact inv.has r hr
  by_cases hsk : skips s.lastFetch (secOf t) = true
  · have hs : (aggregate s t).1 = s := by unfold aggregate; simp [hsk]
    rw [hs]
    refine ⟨inv.geo_n, inv.geo_L, le_trans inv.start ht, inv.names, hnode, hhas,
      fun f hf => ⟨(inv.fetch f hf).1, le_trans (inv.fetch f hf).2 ht⟩, ?_, inv.wsorted, inv.wbound⟩
    intro r sec
    have := inv.log r sec
    simp only [refItem] at this ⊢
    rw [hev]; exact this
  · have hbound : t < max (s.lastFetch.getD 0) (secOf T0) + n * L := hok.resolve_left hsk
    have hagg : (aggregate s t).1 = St.mk s.n s.L s.nodes (some (secOf t))
        (runWrites s.w (batches (collect s.nodes t (s.lastFetch.getD 0) (secOf t))))
        (s.written ++ batches (collect s.nodes t (s.lastFetch.getD 0) (secOf t))) := by
      unfold aggregate; simp [hsk]
    rw [hagg]
    set cur := secOf t with hcur
    set lo := s.lastFetch.getD 0 with hlodef
    set C := collect s.nodes t lo cur with hC
    have hlod : 1000 ∣ lo ∧ lo ≤ cur := by
      cases hlf : s.lastFetch with
      | none => rw [hlodef, hlf]; simp
      | some f =>
        rw [hlodef, hlf]
        simp only [Option.getD_some]
        rw [hlf] at hsk
        simp only [skips, decide_eq_true_eq] at hsk
        exact ⟨(inv.fetch f hlf).1, by omega⟩
    have hcurle : cur ≤ t := secOf_le t
    -- where a collected item comes from
    have horigin : ∀ it ∈ C, cur ≠ 0 ∧ lo ≤ it.ts ∧ it.ts < cur ∧ 1000 ∣ it.ts ∧ secOf T0 ≤ it.ts := by
      intro it hit
      obtain ⟨nd, hnd, hin⟩ := mem_collect _ _ _ _ _ hit
      obtain ⟨hc0, sl, hsl, h1, h2, h3⟩ := nodeItems_ts nd t lo cur it hin
      obtain ⟨t0, a1, _, a3, _, _⟩ := inv.node nd hnd
      have hf := node_fence n L t0 hL hd (opsOf nd.res hist) sl (a3 ▸ hsl)
      have h4 := le_secOf_of_dvd hlod.1 h1
      have h5 := secOf_le sl.start
      have h6 : secOf T0 ≤ secOf sl.start := by
        have := secOf_mono (le_trans (secOf_mono a1) hf)
        rwa [secOf_of_dvd (secOf_dvd T0)] at this
      rw [h3]
      exact ⟨hc0, h4, by omega, secOf_dvd _, h6⟩
    refine ⟨inv.geo_n, inv.geo_L, le_trans inv.start ht, inv.names, hnode, hhas, ?_, ?_, ?_, ?_⟩
    · intro f hf
      simp only [Option.some.injEq] at hf
      subst hf
      exact ⟨secOf_dvd t, hcurle⟩
    · -- log
      intro r sec
      show (allItems (s.written ++ batches C)).filter _ = if sec < cur ∧ _ then _ else _
      rw [allItems_append, List.filter_append, inv.log r sec, batches_filter C sec (fun it => decide (it.res = r)), hC,
        collect_filter s.nodes inv.names t lo cur sec r]
      simp only [refItem, hev, ← hlodef]
      cases hfind : s.nodes.find? (fun nd => decide (nd.res = r)) with
      | none =>
        have hno : eventsOf r hist = [] := by
          by_contra hne
          obtain ⟨nd, hnd, hndr⟩ := inv.has r hne
          have := List.find?_eq_none.mp hfind nd hnd
          simp [hndr] at this
        simp [hno, secRef_nil, active_zero]
      | some nd =>
        have hnd : nd ∈ s.nodes := List.mem_of_find?_eq_some hfind
        have hndr : nd.res = r := by simpa using List.find?_some hfind
        simp only
        by_cases hc0 : cur = 0
        · have hn0 : nodeItems nd t lo cur = [] := by unfold nodeItems; simp [hc0]
          have h1 : ¬ sec < lo := by omega
          have h2 : ¬ sec < cur := by omega
          rw [hn0]
          simp [h1, h2]
        · rw [nodeItems_filter nd t lo cur sec hc0]
          obtain ⟨t0, a1, a2, a3, a4, a5⟩ := inv.node nd hnd
          have hv := node_value n L T0 hn hL hd hT0 nd.a t0 (eventsOf nd.res hist) t lo cur sec a1 (le_trans a2 ht) a3 a4
            (fun o ho => ⟨(a5 o ho).1, le_trans (a5 o ho).2 ht⟩) hlod.1 rfl hlod.2 hc0 hbound
          rw [hv, hndr]
          have hcls : clsIn s.nodes r = nd.cls := hndr ▸ clsIn_of_mem s.nodes inv.names nd hnd
          rw [hcls]
          by_cases h1 : sec < lo
          · have h2 : ¬ (lo ≤ sec ∧ sec < cur) := by omega
            have h3 : sec < cur := by omega
            simp only [if_neg h2]
            simp [h1, h3, active_zero]
          · by_cases h2 : sec < cur
            · have h3 : lo ≤ sec ∧ sec < cur := ⟨by omega, h2⟩
              simp only [if_pos h3]
              simp [h1, h2]
            · have h3 : ¬ (lo ≤ sec ∧ sec < cur) := by omega
              simp only [if_neg h3]
              simp [h1, h2, active_zero]
    · -- the seconds handed to the writer increase strictly
      show ((s.written ++ batches C).map (·.1)).Pairwise (· < ·)
      rw [List.map_append, batches_keys, List.pairwise_append]
      refine ⟨inv.wsorted, sortedKeys_sorted C, ?_⟩
      intro a ha b hb
      obtain ⟨b0, hb0, rfl⟩ := List.mem_map.mp ha
      obtain ⟨it, hit, rfl⟩ := (mem_sortedKeys C b).mp hb
      have := (inv.wbound b0 hb0).2.1
      have := (horigin it hit).2.1
      omega
    · intro b hb
      show secOf T0 ≤ b.1 ∧ b.1 < cur ∧ _
      rcases List.mem_append.mp hb with hb | hb
      · obtain ⟨h1, h2, h3⟩ := inv.wbound b hb
        exact ⟨h1, by omega, h3⟩
      · obtain ⟨hne, hall⟩ := batches_mem C b hb
        obtain ⟨it, hit⟩ := List.exists_mem_of_ne_nil _ hne
        obtain ⟨hitC, hts⟩ := hall it hit
        obtain ⟨_, h1, h2, h3, h4⟩ := horigin it hitC
        rw [hts] at h1 h2 h3 h4
        exact ⟨h4, h2, h3, hne, fun x hx => (hall x hx).2⟩

end Sentinel.AGG
