import Mathlib.Tactic
import Std.Data.String.ToNat
import Sentinel.Lemmas.PipelineCouple
/-!
# What one ledger op does to the shared statistic state, and which contexts are live

* `step_entry_shape`, `step_ghost_shape`, `step_exit_live`, `step_exit_dead`, `step_trace_shape`: `Entry.step false` on the ops
  the pipeline pushes, written out on `inb` / `nodes` / `ents` (needs only what `findE` answers for the op's id);
* `CtxSync`: the admitted-and-not-exited requests `reqs` are exactly the live contexts of `ent` — invariant of every op.
-/
namespace Sentinel.Pipe
open Sentinel.LA

variable {R : Type}

theorem rname_inj {a b : Nat} : rname a = rname b ↔ a = b := by
  constructor
  · intro h
    simp only [rname] at h
    have h2 : (toString a : String) = toString b := by
      have := congrArg (fun s : String => s.toList) h
      simp only [String.toList_append] at this
      exact String.toList_inj.mp (List.append_cancel_left this)
    exact Nat.repr_injective h2
  · intro h; rw [h]

/-- the context `api.Entry` leaves for request `q` decided `b` (blocked) at time `t` -/
def entryCtx (q : Req) (b : Bool) (t : Nat) : Entry.Ctx :=
  { e := entryE q b, start := t, err := none, hasNode := true, blocked := b, exited := b }

/-- what `stat.Slot` does to a node at `Entry` time -/
def statFn (b : Bool) (t batch : Nat) : Entry.Node → Entry.Node :=
  if b then Entry.recordBlock t batch else Entry.recordPass t batch

theorem step_entry_shape (s : Entry.St) (t : Nat) (q : Req) (b : Bool) (hf : Entry.findE s.ents (rid q.id) = none) :
    Entry.step false s (t, entryOp q b) =
      { inb := if q.inbound then statFn b t q.batch s.inb else s.inb,
        nodes := Entry.modifyN (Entry.getOrCreate s.nodes (rname q.res) t) (rname q.res) (statFn b t q.batch),
        ents := (rid q.id, entryCtx q b t) :: s.ents,
        log := s.log } := by
  have hf' : Entry.findE s.ents (entryE q b).id = none := hf
  cases b <;> cases hi : q.inbound <;>
    simp [Entry.step, entryOp_eq, Entry.apiEntry, hf', hf, Entry.chainEntry, entryE, stdChain, Entry.preRun, Entry.ruleOut,
      Entry.statPassed, Entry.statBlocked, Entry.onStat, hi, statFn, entryCtx]

/-- the node-creating ghost of `flow.LoadRules` -/
def ghostE (id : Nat) (res : String) : Entry.EntryOp :=
  { id := id, res := res, inbound := false, batch := 0, args := [], chain := nodeOnlyChain }

theorem step_ghost_shape (s : Entry.St) (t id : Nat) (res : String) (hf : Entry.findE s.ents id = none) :
    Entry.step false s (t, .entry (ghostE id res)) =
      { inb := s.inb, nodes := Entry.getOrCreate s.nodes res t,
        ents := (id, { e := ghostE id res, start := t, err := none, hasNode := true, blocked := false, exited := false }) :: s.ents,
        log := s.log } := by
  have hf' : Entry.findE s.ents (ghostE id res).id = none := hf
  simp [Entry.step, Entry.apiEntry, hf', hf, Entry.chainEntry, ghostE, nodeOnlyChain, Entry.preRun, Entry.ruleOut,
    Entry.statPassed]

/-- what `stat.Slot.OnCompleted` does to a node -/
def doneFn (t batch start : Nat) (err : Bool) : Entry.Node → Entry.Node := Entry.recordComplete t batch (t - start) err

theorem step_exit_live (s : Entry.St) (t : Nat) (q : Req) (t0 : Nat) (e0 : Option String) (err : Option String)
    (hf : Entry.findE s.ents (rid q.id) = some { entryCtx q false t0 with err := e0 }) :
    Entry.step false s (t, .exit (rid q.id) err) =
      { inb := if q.inbound then doneFn t q.batch t0 (Entry.orErr err e0).isSome s.inb else s.inb,
        nodes := Entry.modifyN s.nodes (rname q.res) (doneFn t q.batch t0 (Entry.orErr err e0).isSome),
        ents := (rid q.id, { entryCtx q false t0 with err := Entry.orErr err e0, exited := true }) :: s.ents,
        log := s.log } := by
  cases hi : q.inbound <;>
    simp [Entry.step, Entry.apiExit, hf, entryCtx, Entry.statCompleted, entryE, stdChain, Entry.onStat, hi, doneFn]

theorem step_exit_dead (s : Entry.St) (t id : Nat) (err : Option String)
    (hf : ∀ c, Entry.findE s.ents id = some c → c.exited = true) :
    Entry.step false s (t, .exit id err) = s := by
  simp only [Entry.step, Entry.apiExit]
  cases h : Entry.findE s.ents id with
  | none => rfl
  | some c => simp [hf c h]

theorem step_trace_shape (s : Entry.St) (t id : Nat) (err : Option String) :
    (Entry.step false s (t, .trace id err)).inb = s.inb ∧ (Entry.step false s (t, .trace id err)).nodes = s.nodes ∧
    ∀ k, Entry.findE (Entry.step false s (t, .trace id err)).ents k =
      if k = id then (match Entry.findE s.ents id with
        | some c => if c.exited then some c else (match err with | some x => some { c with err := some x } | none => some c)
        | none => none) else Entry.findE s.ents k := by
  simp only [Entry.step, Entry.apiTrace]
  cases h : Entry.findE s.ents id with
  | none =>
    refine ⟨rfl, rfl, fun k => ?_⟩
    split_ifs with hk
    · subst hk; exact h
    · rfl
  | some c =>
    cases hx : c.exited
    · cases err with
      | none =>
        simp only [hx, Bool.false_eq_true, if_false]
        refine ⟨trivial, trivial, fun k => ?_⟩
        split_ifs with hk
        · subst hk; exact h
        · rfl
      | some x =>
        simp only [hx, Bool.false_eq_true, if_false]
        refine ⟨trivial, trivial, fun k => ?_⟩
        simp only [Entry.findE]
        split_ifs with h1 h2 h2
        · rfl
        · exact absurd h1.symm h2
        · exact absurd h2.symm h1
        · rfl
    · simp only [hx, if_true]
      refine ⟨trivial, trivial, fun k => ?_⟩
      split_ifs with hk
      · subst hk; exact h
      · rfl

/-! ## the live contexts -/

theorem findE_cons (k : Nat) (c : Entry.Ctx) (l : List (Nat × Entry.Ctx)) (id : Nat) :
    Entry.findE ((k, c) :: l) id = if k = id then some c else Entry.findE l id := rfl

/-- `reqs` (admitted, not exited) are exactly the live contexts of the shared statistic state -/
structure CtxSync (s : St R) : Prop where
  live : ∀ q ∈ s.reqs, ∃ t0 e0, Entry.findE s.ent.ents (rid q.id) = some { entryCtx q false t0 with err := e0 }
  dead : ∀ id, (∀ q ∈ s.reqs, q.id ≠ id) → ∀ c, Entry.findE s.ent.ents (rid id) = some c → c.exited = true
  fresh : ∀ id, id ∉ s.used → Entry.findE s.ent.ents (rid id) = none
  ghost : ∀ g, s.ghosts ≤ g → Entry.findE s.ent.ents (2 * g) = none
  sub : ∀ q ∈ s.reqs, q.id ∈ s.used
  pre : s.started = false → s.reqs = []

theorem ctxSync_congr {s s' : St R} (h : CtxSync s) (h1 : s'.ent = s.ent) (h2 : s'.reqs = s.reqs) (h3 : s'.used = s.used)
    (h4 : s'.ghosts = s.ghosts) (h5 : s'.started = s.started) : CtxSync s' :=
  ⟨by rw [h1, h2]; exact h.live, by rw [h1, h2]; exact h.dead, by rw [h1, h3]; exact h.fresh, by rw [h1, h4]; exact h.ghost,
   by rw [h2, h3]; exact h.sub, by rw [h2, h5]; exact h.pre⟩

/-- the error flag `Exit` hands to the breakers is the one `stat.Slot` sees -/
theorem ctxErr_live (s : St R) (q : Req) (t0 : Nat) (e0 : Option String) (err : Bool)
    (hf : Entry.findE s.ent.ents (rid q.id) = some { entryCtx q false t0 with err := e0 }) :
    ctxErr s q.id err = (Entry.orErr (errOf err) e0).isSome := by
  simp [ctxErr, hf]

theorem ctxSync_ghost (s : St R) (hc : CtxSync s) (hst : s.started = true) (r : String) :
    CtxSync ({ entStep s (.entry (ghostE (2 * s.ghosts) r)) with ghosts := s.ghosts + 1 } : St R) ∧
    (entStep s (.entry (ghostE (2 * s.ghosts) r))).ent =
      { inb := s.ent.inb, nodes := Entry.getOrCreate s.ent.nodes r s.now,
        ents := (2 * s.ghosts, { e := ghostE (2 * s.ghosts) r, start := s.now, err := none, hasNode := true,
                                 blocked := false, exited := false }) :: s.ent.ents,
        log := s.ent.log } := by
  have hsh := step_ghost_shape s.ent s.now (2 * s.ghosts) r (hc.ghost s.ghosts (le_refl _))
  have hent : (entStep s (.entry (ghostE (2 * s.ghosts) r))).ent = _ := hsh
  refine ⟨⟨?_, ?_, ?_, ?_, hc.sub, ?_⟩, hent⟩
  · intro q hq
    obtain ⟨t0, e0, h⟩ := hc.live q hq
    refine ⟨t0, e0, ?_⟩
    show Entry.findE (entStep s _).ent.ents (rid q.id) = _
    rw [hent, findE_cons, if_neg (rid_ne_even q.id s.ghosts).symm]
    exact h
  · intro id hid c hcx
    have : Entry.findE (entStep s (.entry (ghostE (2 * s.ghosts) r))).ent.ents (rid id) = some c := hcx
    rw [hent, findE_cons, if_neg (rid_ne_even id s.ghosts).symm] at this
    exact hc.dead id hid c this
  · intro id hid
    show Entry.findE (entStep s _).ent.ents (rid id) = none
    rw [hent, findE_cons, if_neg (rid_ne_even id s.ghosts).symm]
    exact hc.fresh id hid
  · intro g hg
    show Entry.findE (entStep s _).ent.ents (2 * g) = none
    have hg' : s.ghosts + 1 ≤ g := hg
    rw [hent, findE_cons, if_neg (by omega)]
    exact hc.ghost g (by omega)
  · intro h
    have : s.started = false := h
    rw [hst] at this
    cases this

section step
variable [LT R] [∀ a b : R, Decidable (a < b)]

theorem ctxSync_entry (A : System.Arith R) (s : St R) (q : Req) (hc : CtxSync s) (hst : s.started = true)
    (hu : q.id ∉ s.used) :
    CtxSync (entry A s q).1 ∧
    (entry A s q).1.ent =
      { inb := if q.inbound then statFn (decision A s q).isSome s.now q.batch s.ent.inb else s.ent.inb,
        nodes := Entry.modifyN (Entry.getOrCreate s.ent.nodes (rname q.res) s.now) (rname q.res)
                   (statFn (decision A s q).isSome s.now q.batch),
        ents := (rid q.id, entryCtx q (decision A s q).isSome s.now) :: s.ent.ents,
        log := s.ent.log } := by
  have hent : (entry A s q).1.ent = _ :=
    (entry_ent A s q).1.trans (step_entry_shape s.ent s.now q (decision A s q).isSome (hc.fresh q.id hu))
  obtain ⟨_, _, _, _, _, e3, _, _, e5, e4⟩ := entry_static A s q
  have hreqs := entry_reqs A s q
  refine ⟨⟨?_, ?_, ?_, ?_, ?_, ?_⟩, hent⟩
  · intro q' hq'
    rw [hent, findE_cons]
    rw [hreqs] at hq'
    by_cases hd : decision A s q = none
    · rw [if_pos hd] at hq'
      rcases List.mem_cons.mp hq' with rfl | hq'
      · rw [if_pos rfl]
        exact ⟨s.now, none, by simp [hd, entryCtx]⟩
      · have hne : q.id ≠ q'.id := fun e => hu (e ▸ hc.sub q' hq')
        rw [if_neg (fun e => hne (rid_inj.mp e))]
        exact hc.live q' hq'
    · rw [if_neg hd] at hq'
      have hne : q.id ≠ q'.id := fun e => hu (e ▸ hc.sub q' hq')
      rw [if_neg (fun e => hne (rid_inj.mp e))]
      exact hc.live q' hq'
  · intro id hid c hcx
    rw [hent, findE_cons] at hcx
    rw [hreqs] at hid
    by_cases he : rid q.id = rid id
    · rw [if_pos he] at hcx
      cases hcx
      have hidq : q.id = id := rid_inj.mp he
      cases hd : decision A s q with
      | none =>
        rw [if_pos hd] at hid
        exact absurd hidq (hid q (List.mem_cons_self ..))
      | some b => rfl
    · rw [if_neg he] at hcx
      refine hc.dead id (fun q' hq' => hid q' ?_) c hcx
      split_ifs
      · exact List.mem_cons_of_mem _ hq'
      · exact hq'
  · intro id hid
    rw [e4] at hid
    have h1 : id ≠ q.id := fun e => hid (e ▸ List.mem_cons_self ..)
    rw [hent, findE_cons, if_neg (fun e => h1 (rid_inj.mp e).symm)]
    exact hc.fresh id (fun e => hid (List.mem_cons_of_mem _ e))
  · intro g hg
    rw [e5] at hg
    rw [hent, findE_cons, if_neg (rid_ne_even q.id g)]
    exact hc.ghost g hg
  · intro q' hq'
    rw [hreqs] at hq'
    rw [e4]
    split_ifs at hq'
    · rcases List.mem_cons.mp hq' with rfl | hq'
      · exact List.mem_cons_self ..
      · exact List.mem_cons_of_mem _ (hc.sub q' hq')
    · exact List.mem_cons_of_mem _ (hc.sub q' hq')
  · intro h
    rw [e3, hst] at h
    cases h

end step

/-- `Exit` of a live admitted request -/
theorem ctxSync_exit_live (s : St R) (id : Nat) (err : Bool) (hc : CtxSync s) (hst : s.started = true)
    (q : Req) (hq : q ∈ s.reqs) (hid : q.id = id) :
    ∃ t0 e0, Entry.findE s.ent.ents (rid q.id) = some { entryCtx q false t0 with err := e0 } ∧
      ctxErr s id err = (Entry.orErr (errOf err) e0).isSome ∧
      (exit s id err).ent =
        { inb := if q.inbound then doneFn s.now q.batch t0 (ctxErr s id err) s.ent.inb else s.ent.inb,
          nodes := Entry.modifyN s.ent.nodes (rname q.res) (doneFn s.now q.batch t0 (ctxErr s id err)),
          ents := (rid q.id, { entryCtx q false t0 with err := Entry.orErr (errOf err) e0, exited := true }) :: s.ent.ents,
          log := s.ent.log } ∧
      CtxSync (exit s id err) := by
  obtain ⟨t0, e0, hf⟩ := hc.live q hq
  subst hid
  have herr := ctxErr_live s q t0 e0 err hf
  have hent : (exit s q.id err).ent = Entry.step false s.ent (s.now, .exit (rid q.id) (errOf err)) := rfl
  have hsh := step_exit_live s.ent s.now q t0 e0 (errOf err) hf
  rw [← herr] at hsh
  refine ⟨t0, e0, hf, herr, hent.trans hsh, ?_⟩
  have hreqs : (exit s q.id err).reqs = s.reqs.filter (·.id ≠ q.id) := rfl
  refine ⟨?_, ?_, ?_, ?_, ?_, ?_⟩
  · intro q' hq'
    rw [hreqs] at hq'
    obtain ⟨h1, h2⟩ := List.mem_filter.mp hq'
    have hne : q'.id ≠ q.id := by simpa using h2
    rw [hent, hsh, findE_cons, if_neg (fun e => hne (rid_inj.mp e).symm)]
    exact hc.live q' h1
  · intro id' hid' c hcx
    rw [hent, hsh, findE_cons] at hcx
    by_cases he : rid q.id = rid id'
    · rw [if_pos he] at hcx
      cases hcx
      rfl
    · rw [if_neg he] at hcx
      refine hc.dead id' (fun q' hq' e => ?_) c hcx
      have hne : q'.id ≠ q.id := fun e2 => he (by rw [← e2, e])
      exact hid' q' (by rw [hreqs]; exact List.mem_filter.mpr ⟨hq', by simpa using hne⟩) e
  · intro id' hid'
    have hne : id' ≠ q.id := fun e => hid' (e ▸ hc.sub q hq)
    rw [hent, hsh, findE_cons, if_neg (fun e => hne (rid_inj.mp e).symm)]
    exact hc.fresh id' hid'
  · intro g hg
    rw [hent, hsh, findE_cons, if_neg (rid_ne_even q.id g)]
    exact hc.ghost g hg
  · intro q' hq'
    rw [hreqs] at hq'
    exact hc.sub q' (List.mem_filter.mp hq').1
  · intro h
    have : s.started = false := h
    rw [hst] at this
    cases this

/-- `Exit` of anything else (blocked, exited, unknown): nothing happens to the statistic state -/
theorem ctxSync_exit_dead (s : St R) (id : Nat) (err : Bool) (hc : CtxSync s) (hst : s.started = true)
    (hno : ∀ q ∈ s.reqs, q.id ≠ id) :
    (exit s id err).ent = s.ent ∧ (exit s id err).reqs = s.reqs ∧ CtxSync (exit s id err) := by
  have hent : (exit s id err).ent = s.ent := step_exit_dead s.ent s.now (rid id) (errOf err) (hc.dead id hno)
  have hreqs : (exit s id err).reqs = s.reqs := by
    show s.reqs.filter (·.id ≠ id) = s.reqs
    rw [List.filter_eq_self]
    intro q hq
    simpa using hno q hq
  refine ⟨hent, hreqs, ?_⟩
  exact ⟨by rw [hent, hreqs]; exact hc.live, by rw [hent, hreqs]; exact hc.dead, by rw [hent]; exact hc.fresh,
         by rw [hent]; exact hc.ghost, by rw [hreqs]; exact hc.sub,
         fun h => by have : s.started = false := h; rw [hst] at this; cases this⟩

theorem ctxSync_trace (s : St R) (id : Nat) (hc : CtxSync s) (hst : s.started = true) :
    (trace s id).ent.inb = s.ent.inb ∧ (trace s id).ent.nodes = s.ent.nodes ∧ CtxSync (trace s id) := by
  obtain ⟨h1, h2, h3⟩ := step_trace_shape s.ent s.now (rid id) (some "biz")
  have hent : (trace s id).ent = Entry.step false s.ent (s.now, .trace (rid id) (some "biz")) := rfl
  refine ⟨by rw [hent]; exact h1, by rw [hent]; exact h2, ?_⟩
  refine ⟨?_, ?_, ?_, ?_, hc.sub, ?_⟩
  · intro q hq
    obtain ⟨t0, e0, hf⟩ := hc.live q hq
    rw [hent, h3]
    by_cases he : rid q.id = rid id
    · rw [if_pos he, ← he, hf]
      exact ⟨t0, some "biz", by simp [entryCtx]⟩
    · rw [if_neg he]
      exact ⟨t0, e0, hf⟩
  · intro id' hid' c hcx
    rw [hent, h3] at hcx
    by_cases he : rid id' = rid id
    · rw [if_pos he] at hcx
      have hid2 : id' = id := rid_inj.mp he
      subst hid2
      cases hf : Entry.findE s.ent.ents (rid id') with
      | none => rw [hf] at hcx; cases hcx
      | some c0 =>
        have hx := hc.dead id' hid' c0 hf
        rw [hf] at hcx
        simp only [hx, if_true, Option.some.injEq] at hcx
        rw [← hcx]
        exact hx
    · rw [if_neg he] at hcx
      exact hc.dead id' hid' c hcx
  · intro id' hid'
    rw [hent, h3]
    by_cases he : rid id' = rid id
    · rw [if_pos he]
      have hid2 : id' = id := rid_inj.mp he
      subst hid2
      rw [hc.fresh id' hid']
    · rw [if_neg he]
      exact hc.fresh id' hid'
  · intro g hg
    rw [hent, h3, if_neg (rid_ne_even id g).symm]
    exact hc.ghost g hg
  · intro h
    have : s.started = false := h
    rw [hst] at this
    cases this

end Sentinel.Pipe
