import Sentinel.Lemmas.FlowRejectG
import Sentinel.Drv.C02
/-!
# Soundness of the window-cap oracle's attribution rule

The oracle (`Sentinel.Drv.C02.capViolations`, run over an implementation trace) does not see at which instant each
caller of a sleeping burst recorded; it attributes all of them to the clock **before** the burst. `Earlier now a a'`
says that `a` is the oracle's version of the real arrival `a'`: same resource and batch, attributed no later than the
real instant, which itself is not after `now`.
-/
namespace Sentinel.FlowReject
open Sentinel.LA

def Earlier (now : Nat) (a a' : Arrival) : Prop := a.res = a'.res ∧ a.b = a'.b ∧ a.t ≤ a'.t ∧ a'.t ≤ now

theorem Earlier.refl_of_le {now : Nat} {a : Arrival} (h : a.t ≤ now) : Earlier now a a := ⟨rfl, rfl, le_refl _, h⟩

/-- attributing tokens to earlier instants never puts one into a window (read at or after every real instant) that it
    is not really in: the window count can only go down -/
theorem windowTokens_earlier_le (Ho Hr : List Arrival) (now : Nat) (h : List.Forall₂ (Earlier now) Ho Hr) (r L Iv : Nat) :
    windowTokens Ho r L Iv now ≤ windowTokens Hr r L Iv now := by
  unfold windowTokens
  induction h with
  | nil => exact le_refl _
  | @cons a a' Ho' Hr' hab _ ih =>
    obtain ⟨h1, h2, h3, h4⟩ := hab
    have e1 : histOf (a :: Ho') r = (if a.res = r then [(a.t, a.b)] else []) ++ histOf Ho' r := by
      unfold histOf; by_cases h : a.res = r <;> simp [List.filter_cons, h]
    have e2 : histOf (a' :: Hr') r = (if a'.res = r then [(a'.t, a'.b)] else []) ++ histOf Hr' r := by
      unfold histOf; by_cases h : a'.res = r <;> simp [List.filter_cons, h]
    rw [e1, e2, refW_append_list, refW_append_list, ← h1, ← h2]
    have hterm : refW L (if a.res = r then [(a.t, a.b)] else []) (cbs L now + L - Iv) (cbs L now) ≤
        refW L (if a.res = r then [(a'.t, a.b)] else []) (cbs L now + L - Iv) (cbs L now) := by
      by_cases hr : a.res = r
      · simp only [hr, if_true, refW, List.map_cons, List.map_nil, List.sum_cons, List.sum_nil, Nat.add_zero]
        have hc1 : cbs L a.t ≤ cbs L a'.t := cbs_mono L h3
        have hc2 : cbs L a'.t ≤ cbs L now := cbs_mono L h4
        by_cases hin : cbs L now + L - Iv ≤ cbs L a.t ∧ cbs L a.t ≤ cbs L now
        · have hin' : cbs L now + L - Iv ≤ cbs L a'.t ∧ cbs L a'.t ≤ cbs L now := ⟨le_trans hin.1 hc1, hc2⟩
          simp [hin, hin']
        · simp only [hin, if_false]; exact Nat.zero_le _
      · simp [hr, refW]
    omega

end Sentinel.FlowReject

namespace Sentinel.Drv.C02
open Sentinel.FlowReject

/-- **soundness of the attribution rule**: let `real` and `orc` be two oracle states that agree on everything but the
admitted history, the oracle's being the real one with some arrivals attributed to earlier instants (`Earlier`, e.g.
the callers of a sleeping burst attributed to the clock before the burst although they recorded anywhere in
`[t, t + slept]`). If the cap check raises no alarm on the real history, it raises none on the oracle's. -/
theorem oracle_attribution_sound (real orc : DSt) (res : Nat)
    (hinfos : orc.infos = real.infos) (ht : orc.t = real.t) (hw : orc.width = real.width) (hb : orc.maxB = real.maxB)
    (hH : List.Forall₂ (Earlier real.now) orc.H real.H)
    (hreal : capViolations real res = []) : capViolations orc res = [] := by
  have hnow : orc.now = real.now := by unfold DSt.now; rw [ht]
  unfold capViolations at hreal ⊢
  rw [List.filterMap_eq_nil_iff] at hreal ⊢
  intro c hc
  rw [hinfos] at hc
  have h := hreal c hc
  by_cases hcond : c.rule.res = res ∧ c.rule.src = res ∧ c.rule.kind = .reject
  · simp only [hcond, and_self, if_true] at h ⊢
    rw [hnow, hw, hb]
    have hle := windowTokens_earlier_le orc.H real.H real.now hH res c.L c.Iv
    cases hx : c.rule.thr.exceeds (windowTokens orc.H res c.L c.Iv real.now - (real.width - 1) * real.maxB) with
    | false => simp
    | true =>
      have := Thr.exceeds_mono c.rule.thr (Nat.sub_le_sub_right hle ((real.width - 1) * real.maxB)) hx
      simp [this] at h
  · simp only [hcond, if_false]

end Sentinel.Drv.C02
