import Mathlib.Tactic
import Sentinel.Model.Isolation
/-! Helper lemmas for C04: machine arithmetic of `checkPass`, counting lemmas for `List.set` -/
namespace Sentinel.Iso

theorem curCount_nat (n : Nat) (hn : n < 4294967296) : (curCount (n : Int)).toNat = n := by
  unfold curCount
  simp only [Int.natCast_nonneg, if_true, Int.toNat_natCast]
  exact UInt32.toNat_ofNat_of_lt' hn

theorem curCount_neg (g : Int) (hg : g < 0) : curCount g = 0 := by
  unfold curCount
  simp [not_le.mpr hg]

/-- the repaired comparison is the comparison over `Nat` -/
theorem cmp64_iff (c b t : UInt32) :
    (c.toUInt64 + b.toUInt64 > t.toUInt64) ↔ c.toNat + b.toNat > t.toNat := by
  have hc := c.toNat_lt
  have hb := b.toNat_lt
  rw [gt_iff_lt, UInt64.lt_iff_toNat_lt, UInt64.toNat_add]
  simp only [UInt32.toNat_toUInt64]
  rw [Nat.mod_eq_of_lt (by omega)]

theorem cmp32_iff (c b t : UInt32) :
    (c + b > t) ↔ (c.toNat + b.toNat) % 4294967296 > t.toNat := by
  rw [gt_iff_lt, UInt32.lt_iff_toNat_lt, UInt32.toNat_add]

end Sentinel.Iso

namespace Sentinel.Iso

/-! ### `checkPass` against the reference over `Nat` -/

theorem curCount_cast (n : Nat) : curCount (n : Int) = UInt32.ofNat n := by
  simp [curCount]

theorem checkPass_eq_spec (rules : List Rule) (n : Nat) (hn : n < 4294967296) (b : UInt32) :
    checkPass rules (n : Int) b = (specCheck rules n b).map fun p => (p.1, UInt32.ofNat p.2) := by
  induction rules with
  | nil => rfl
  | cons r rs ih =>
    unfold checkPass specCheck
    have h := cmp64_iff (curCount (n : Int)) b r.thr
    rw [curCount_nat n hn] at h
    by_cases hc : n + b.toNat > r.thr.toNat
    · rw [if_pos (h.mpr hc), if_pos hc, curCount_cast]; rfl
    · rw [if_neg (fun x => hc (h.mp x)), if_neg hc]; exact ih

theorem specCheck_none_iff (rules : List Rule) (n : Nat) (b : UInt32) :
    specCheck rules n b = none ↔ ∀ r ∈ rules, n + b.toNat ≤ r.thr.toNat := by
  induction rules with
  | nil => simp [specCheck]
  | cons r rs ih =>
    unfold specCheck
    by_cases hc : n + b.toNat > r.thr.toNat
    · simp only [if_pos hc, List.mem_cons, forall_eq_or_imp]
      constructor
      · intro h; cases h
      · intro h; omega
    · simp only [if_neg hc, List.mem_cons, forall_eq_or_imp, ih]
      constructor
      · intro h; exact ⟨by omega, h⟩
      · intro h; exact h.2

/-- a block names the **first** violated rule and reports the in-flight number -/
theorem specCheck_some_iff (rules : List Rule) (n : Nat) (b : UInt32) (r : Rule) (m : Nat) :
    specCheck rules n b = some (r, m) ↔
      m = n ∧ ∃ pre post, rules = pre ++ r :: post ∧ (∀ q ∈ pre, n + b.toNat ≤ q.thr.toNat) ∧ r.thr.toNat < n + b.toNat := by
  induction rules with
  | nil => simp [specCheck]
  | cons q rs ih =>
    unfold specCheck
    by_cases hc : n + b.toNat > q.thr.toNat
    · rw [if_pos hc]
      constructor
      · intro h
        simp only [Option.some.injEq, Prod.mk.injEq] at h
        obtain ⟨rfl, rfl⟩ := h
        exact ⟨rfl, [], rs, rfl, by simp, hc⟩
      · rintro ⟨rfl, pre, post, he, hp, hr⟩
        cases pre with
        | nil => simp only [List.nil_append, List.cons.injEq] at he; rw [he.1]
        | cons p pre' =>
          simp only [List.cons_append, List.cons.injEq] at he
          have := hp p (by simp)
          rw [← he.1] at this; omega
    · rw [if_neg hc, ih]
      constructor
      · rintro ⟨rfl, pre, post, he, hp, hr⟩
        refine ⟨rfl, q :: pre, post, by simp [he], ?_, hr⟩
        intro x hx
        rcases List.mem_cons.mp hx with rfl | hx
        · omega
        · exact hp x hx
      · rintro ⟨rfl, pre, post, he, hp, hr⟩
        cases pre with
        | nil =>
          simp only [List.nil_append, List.cons.injEq] at he
          rw [he.1] at hc; omega
        | cons p pre' =>
          simp only [List.cons_append, List.cons.injEq] at he
          exact ⟨rfl, pre', post, he.2, fun x hx => hp x (by simp [hx]), hr⟩

/-! ### counting under `List.set` -/

theorem countP_set_of {l : List Pc} {i : Nat} {old new : Pc} (p : Pc) (h : l[i]? = some old) :
    (l.set i new).countP (· = p) + (if old = p then 1 else 0) = l.countP (· = p) + (if new = p then 1 else 0) := by
  induction l generalizing i with
  | nil => simp at h
  | cons a r ih =>
    cases i with
    | zero =>
      simp at h; subst h
      simp only [List.set_cons_zero, List.countP_cons, decide_eq_true_eq]
      split_ifs <;> omega
    | succ j =>
      simp at h
      have := ih h
      simp only [List.set_cons_succ, List.countP_cons]
      omega

theorem nInflight_set {l : List Pc} {i : Nat} {old new : Pc} (h : l[i]? = some old) :
    nInflight (l.set i new) + (if old = .inflight then 1 else 0) = nInflight l + (if new = .inflight then 1 else 0) :=
  countP_set_of .inflight h

theorem nChecked_set {l : List Pc} {i : Nat} {old new : Pc} (h : l[i]? = some old) :
    nChecked (l.set i new) + (if old = .checked then 1 else 0) = nChecked l + (if new = .checked then 1 else 0) :=
  countP_set_of .checked h

end Sentinel.Iso

namespace Sentinel.Iso

/-! ### the small-step machine: gauge version = counting version -/

structure RT (c : Cfg) (sc : SCfg) : Prop where
  th : c.th = sc.th
  g : c.g = ((sc.base + nInflight sc.th : Nat) : Int)
  mx : c.mx = ((sc.mx : Nat) : Int)

theorem nInflight_le (th : List Pc) : nInflight th ≤ th.length := List.countP_le_length

theorem specStepT_length (rules : List Rule) (bs : List UInt32) (sc : SCfg) (i : Nat) :
    (specStepT rules bs sc i).th.length = sc.th.length := by
  unfold specStepT
  split
  · split <;> simp
  all_goals simp

theorem specStepT_base (rules : List Rule) (bs : List UInt32) (sc : SCfg) (i : Nat) :
    (specStepT rules bs sc i).base = sc.base := by
  unfold specStepT
  split
  · split <;> rfl
  all_goals rfl

theorem stepT_refines (rules : List Rule) (bs : List UInt32) (c : Cfg) (sc : SCfg) (i : Nat)
    (h : RT c sc) (hb : sc.base + sc.th.length < 2147483648) :
    RT (stepT rules bs c i) (specStepT rules bs sc i) := by
  obtain ⟨hth, hg, hmx⟩ := h
  have hle := nInflight_le sc.th
  unfold stepT specStepT
  rw [hth]
  cases hpc : sc.th[i]? with
  | none => exact ⟨hth, hg, hmx⟩
  | some pc =>
    cases pc with
    | idle =>
      simp only []
      rw [hg, checkPass_eq_spec _ _ (by omega)]
      cases hs : specCheck rules (sc.base + nInflight sc.th) (bs.getD i 1) with
      | none =>
        simp only [Option.map_none]
        refine ⟨by simp, ?_, hmx⟩
        have := nInflight_set (new := .checked) hpc
        simp only [reduceCtorEq, if_false, Nat.add_zero] at this
        simp only [this]
      | some p =>
        simp only [Option.map_some]
        refine ⟨by simp, ?_, hmx⟩
        have := nInflight_set (new := .blockedPending p.1.idx (UInt32.ofNat p.2)) hpc
        simp only [reduceCtorEq, if_false, Nat.add_zero] at this
        simp only [this]
    | checked =>
      simp only []
      have := nInflight_set (new := .inflight) hpc
      simp only [reduceCtorEq, if_false, if_true, Nat.add_zero] at this
      refine ⟨by simp, ?_, ?_⟩
      · simp only [this]; rw [hg]; push_cast; ring
      · simp only [this]; rw [hg, hmx]; push_cast; ring_nf
    | blockedPending idx tv =>
      simp only []
      have := nInflight_set (new := .rejected idx tv) hpc
      simp only [reduceCtorEq, if_false, Nat.add_zero] at this
      exact ⟨by simp, by simp only [this]; exact hg, hmx⟩
    | inflight =>
      simp only []
      have := nInflight_set (new := .done) hpc
      simp only [reduceCtorEq, if_false, if_true, Nat.add_zero] at this
      refine ⟨by simp, ?_, hmx⟩
      simp only
      rw [hg]; omega
    | rejected idx tv => exact ⟨hth, hg, hmx⟩
    | done => exact ⟨hth, hg, hmx⟩

theorem runT_refines (rules : List Rule) (bs : List UInt32) (s : List Nat) (c : Cfg) (sc : SCfg)
    (h : RT c sc) (hb : sc.base + sc.th.length < 2147483648) :
    RT (runT rules bs c s) (specRunT rules bs sc s) := by
  induction s generalizing c sc with
  | nil => exact h
  | cons i r ih =>
    unfold runT specRunT
    exact ih _ _ (stepT_refines rules bs c sc i h hb) (by rw [specStepT_length, specStepT_base]; exact hb)

theorem specRunT_length (rules : List Rule) (bs : List UInt32) (s : List Nat) (sc : SCfg) :
    (specRunT rules bs sc s).th.length = sc.th.length := by
  induction s generalizing sc with
  | nil => rfl
  | cons i r ih => unfold specRunT; rw [ih, specStepT_length]

theorem specRunT_base (rules : List Rule) (bs : List UInt32) (s : List Nat) (sc : SCfg) :
    (specRunT rules bs sc s).base = sc.base := by
  induction s generalizing sc with
  | nil => rfl
  | cons i r ih => unfold specRunT; rw [ih, specStepT_base]

theorem runDrain_refines (rules : List Rule) (bs : List UInt32) (s : List Nat) (c : Cfg) (sc : SCfg)
    (h : RT c sc) (hb : sc.base + sc.th.length < 2147483648) :
    RT (runDrain rules bs c s) (specRunDrain rules bs sc s) := by
  unfold runDrain specRunDrain
  have h1 := runT_refines rules bs s c sc h hb
  simp only
  rw [h1.th]
  exact runT_refines rules bs _ _ _ h1 (by rw [specRunT_length, specRunT_base]; exact hb)

end Sentinel.Iso

namespace Sentinel.Iso

/-! ### handles and the in-flight count -/

theorem inflight_cons (id : Nat) (res : String) (l : List (Nat × String)) (x : String) :
    inflight ((id, res) :: l) x = inflight l x + (if res = x then 1 else 0) := by
  unfold inflight
  rw [List.countP_cons]
  simp

theorem inflight_le (l : List (Nat × String)) (x : String) : inflight l x ≤ l.length := List.countP_le_length

theorem isLive_iff (l : List (Nat × String)) (id : Nat) : isLive l id = true ↔ id ∈ l.map (·.1) := by
  unfold isLive
  simp [List.any_eq_true]

theorem resOfId_none (l : List (Nat × String)) (id : Nat) (h : resOfId l id = none) :
    l.filter (fun p => p.1 ≠ id) = l := by
  unfold resOfId at h
  simp only [Option.map_eq_none_iff, List.find?_eq_none, decide_eq_true_eq] at h
  rw [List.filter_eq_self]
  intro a ha
  simpa using h a ha

theorem resOfId_some (l : List (Nat × String)) (id : Nat) (res : String) (h : resOfId l id = some res) :
    (id, res) ∈ l := by
  unfold resOfId at h
  obtain ⟨p, hp, rfl⟩ := Option.map_eq_some_iff.mp h
  have h1 := List.find?_some hp
  have h2 := List.mem_of_find?_eq_some hp
  simp only [decide_eq_true_eq] at h1
  rw [← h1]; exact h2

theorem resOfId_of_mem (l : List (Nat × String)) (id : Nat) (res : String)
    (hn : (l.map (·.1)).Nodup) (h : (id, res) ∈ l) : resOfId l id = some res := by
  induction l with
  | nil => cases h
  | cons a r ih =>
    simp only [List.map_cons, List.nodup_cons] at hn
    unfold resOfId
    rw [List.find?_cons]
    rcases List.mem_cons.mp h with rfl | h'
    · simp
    · have : a.1 ≠ id := by
        intro e
        apply hn.1
        rw [e]
        exact List.mem_map.mpr ⟨(id, res), h', rfl⟩
      simp only [this, decide_false]
      exact ih hn.2 h'

theorem inflight_filter (l : List (Nat × String)) (id : Nat) (res : String) (x : String)
    (hn : (l.map (·.1)).Nodup) (h : (id, res) ∈ l) :
    inflight (l.filter fun p => p.1 ≠ id) x + (if res = x then 1 else 0) = inflight l x := by
  induction l with
  | nil => cases h
  | cons a r ih =>
    simp only [List.map_cons, List.nodup_cons] at hn
    rcases List.mem_cons.mp h with rfl | h'
    · have hf : r.filter (fun p => p.1 ≠ id) = r := by
        rw [List.filter_eq_self]
        intro b hb
        simp only [ne_eq, decide_not, Bool.not_eq_eq_eq_not, Bool.not_true, decide_eq_false_iff_not]
        intro e
        exact hn.1 (List.mem_map.mpr ⟨b, hb, e⟩)
      rw [List.filter_cons]
      simp only [ne_eq, not_true_eq_false, decide_false, Bool.false_eq_true, if_false]
      rw [hf, inflight_cons]
    · have hne : a.1 ≠ id := by
        intro e
        apply hn.1
        rw [e]
        exact List.mem_map.mpr ⟨(id, res), h', rfl⟩
      rw [List.filter_cons]
      simp only [ne_eq, hne, not_false_eq_true, decide_true, if_true]
      obtain ⟨a1, a2⟩ := a
      have := ih hn.2 h'
      simp only [ne_eq] at this
      rw [inflight_cons, inflight_cons]
      omega

theorem nodup_filter (l : List (Nat × String)) (p : Nat × String → Bool) (hn : (l.map (·.1)).Nodup) :
    ((l.filter p).map (·.1)).Nodup :=
  List.Nodup.sublist (List.Sublist.map _ List.filter_sublist) hn

/-! ### handles created by a schedule op -/

theorem filter_zipIdx_length (th : List Pc) :
    (th.zipIdx.filter fun p => p.1 = Pc.inflight).length = nInflight th := by
  unfold nInflight
  rw [← List.countP_eq_length_filter]
  conv_rhs => rw [← List.zipIdx_map_fst 0 th, List.countP_map]
  rfl

theorem inflight_schedHandles (id0 : Nat) (res : String) (th : List Pc) (l : List (Nat × String)) (x : String) :
    inflight (schedHandles id0 res th ++ l) x = inflight l x + (if res = x then nInflight th else 0) := by
  unfold inflight schedHandles
  rw [List.countP_append, List.countP_map]
  by_cases h : res = x
  · subst h
    simp only [if_true]
    rw [List.countP_eq_length.mpr (by intro a _; simp), filter_zipIdx_length]
    omega
  · simp only [h, if_false]
    rw [List.countP_eq_zero.mpr (by intro a _; simp [h])]
    omega

theorem schedHandles_ids (id0 : Nat) (res : String) (th : List Pc) :
    (schedHandles id0 res th).map (·.1) = ((th.zipIdx.filter fun p => p.1 = Pc.inflight).map (·.2)).map (id0 + ·) := by
  unfold schedHandles
  simp [List.map_map, Function.comp_def]

theorem schedHandles_nodup (id0 : Nat) (res : String) (th : List Pc) :
    ((schedHandles id0 res th).map (·.1)).Nodup := by
  rw [schedHandles_ids]
  apply List.Nodup.map (fun a b h => by omega)
  have : ((th.zipIdx).map (·.2)).Nodup := by
    rw [List.zipIdx_map_snd]; exact List.nodup_range'
  exact List.Nodup.sublist (List.Sublist.map _ List.filter_sublist) this

theorem schedHandles_mem (id0 : Nat) (res : String) (th : List Pc) (j : Nat)
    (h : j ∈ (schedHandles id0 res th).map (·.1)) : ∃ i, i < th.length ∧ j = id0 + i := by
  rw [schedHandles_ids] at h
  simp only [List.mem_map, List.mem_filter] at h
  obtain ⟨i, ⟨p, ⟨hp, _⟩, rfl⟩, rfl⟩ := h
  obtain ⟨a, k⟩ := p
  have := List.mem_zipIdx hp
  exact ⟨k, by simpa using this.2.1, rfl⟩

end Sentinel.Iso

namespace Sentinel.Iso

/-! ### ghosts: an entry that stays in flight under a fresh id -/

theorem foldl_max_ge (l : List (Nat × String)) (a : Nat) :
    a ≤ l.foldl (fun m p => max m (p.1 + 1)) a ∧ ∀ p ∈ l, p.1 < l.foldl (fun m p => max m (p.1 + 1)) a := by
  induction l generalizing a with
  | nil => exact ⟨le_refl _, by simp⟩
  | cons q r ih =>
    simp only [List.foldl_cons]
    obtain ⟨h1, h2⟩ := ih (max a (q.1 + 1))
    refine ⟨le_trans (le_max_left _ _) h1, ?_⟩
    intro p hp
    rcases List.mem_cons.mp hp with rfl | hp
    · exact lt_of_lt_of_le (by omega) (le_trans (le_max_right a _) h1)
    · exact h2 p hp

theorem freshId_gt (live : List (Nat × String)) : ∀ p ∈ live, p.1 < freshId live := (foldl_max_ge live _).2

theorem inflight_ghost (live : List (Nat × String)) (id : Nat) (x : String) :
    inflight (ghostLive live id) x = inflight live x := by
  unfold inflight ghostLive
  rw [List.countP_map]
  congr 1
  funext p
  simp only [Function.comp]
  split <;> rfl

theorem nodup_ghost (live : List (Nat × String)) (id : Nat) (hn : (live.map (·.1)).Nodup) :
    ((ghostLive live id).map (·.1)).Nodup := by
  have hm : (ghostLive live id).map (·.1) = (live.map (·.1)).map fun i => if i = id then freshId live else i := by
    unfold ghostLive
    rw [List.map_map, List.map_map]
    apply List.map_congr_left
    intro p _
    simp only [Function.comp]
    split <;> rfl
  rw [hm]
  apply List.Nodup.map_on _ hn
  intro a ha b hb hab
  have ha' : a < freshId live := by
    obtain ⟨p, hp, rfl⟩ := List.mem_map.mp ha; exact freshId_gt live p hp
  have hb' : b < freshId live := by
    obtain ⟨p, hp, rfl⟩ := List.mem_map.mp hb; exact freshId_gt live p hp
  by_cases h1 : a = id <;> by_cases h2 : b = id
  · rw [h1, h2]
  · simp only [h1, h2, if_true, if_false] at hab; omega
  · simp only [h1, h2, if_true, if_false] at hab; omega
  · simpa [h1, h2] using hab

theorem length_ghost (live : List (Nat × String)) (id : Nat) : (ghostLive live id).length = live.length := by
  simp [ghostLive]

/-! ### the sequential machine: gauge version = history-recomputing reference -/

structure R (m : St) (s : SpecSt) : Prop where
  rules : m.rules = s.rules
  live : m.live = s.live
  gauge : ∀ res, m.gauge res = ((inflight s.live res : Nat) : Int)
  nodup : (s.live.map (·.1)).Nodup

/-- how many handles an op can add -/
def opSize : Op → Nat
  | .entry _ _ _ => 1
  | .sched _ _ bs _ => bs.length
  | _ => 0

theorem nInflight_replicate_idle (n : Nat) : nInflight (List.replicate n Pc.idle) = 0 := by
  simp [nInflight, List.countP_replicate]

theorem step_refines (m : St) (s : SpecSt) (op : Op) (h : R m s) (hb : s.live.length + opSize op < 2147483648) :
    (step m op).2 = (specStep s op).2 ∧ R (step m op).1 (specStep s op).1 ∧
      (specStep s op).1.live.length ≤ s.live.length + opSize op := by
  obtain ⟨hr, hl, hg, hn⟩ := h
  cases op with
  | load rs =>
    exact ⟨rfl, ⟨rfl, hl, hg, hn⟩, by simp [specStep, opSize]⟩
  | loadres sc res ths =>
    exact ⟨rfl, ⟨by simp only [step, specStep, hr], hl, hg, hn⟩, by simp [specStep, opSize]⟩
  | poke res idx thr =>
    exact ⟨rfl, ⟨by simp only [step, specStep, hr], hl, hg, hn⟩, by simp [specStep, opSize]⟩
  | ghost id =>
    refine ⟨rfl, ⟨hr, by simp only [step, specStep, hl], ?_, nodup_ghost _ _ hn⟩, by simp [specStep, opSize, length_ghost]⟩
    intro x
    simp only [step, specStep]
    rw [inflight_ghost]; exact hg x
  | getrules res =>
    exact ⟨by simp only [step, specStep, hr], ⟨hr, hl, hg, hn⟩, by simp [specStep, opSize]⟩
  | getall =>
    exact ⟨by simp only [step, specStep, hr], ⟨hr, hl, hg, hn⟩, by simp [specStep, opSize]⟩
  | conc res =>
    refine ⟨?_, ⟨hr, hl, hg, hn⟩, by simp [specStep, opSize]⟩
    simp only [step, specStep]; rw [hg]
  | exit id =>
    simp only [step, specStep, opSize, Nat.add_zero]
    rw [hl]
    cases hres : resOfId s.live id with
    | none =>
      simp only []
      rw [resOfId_none _ _ hres]
      exact ⟨trivial, ⟨hr, hl, hg, hn⟩, le_refl _⟩
    | some res =>
      simp only []
      refine ⟨trivial, ⟨hr, rfl, ?_, nodup_filter _ _ hn⟩, List.length_filter_le _ _⟩
      intro x
      have := inflight_filter s.live id res x hn (resOfId_some _ _ _ hres)
      simp only
      by_cases hx : x = res
      · subst hx; simp only [if_true] at this ⊢; rw [hg]; omega
      · have hx' : ¬ res = x := fun e => hx e.symm
        simp only [hx, hx', if_false] at this ⊢; rw [hg]; omega
  | entry id res b =>
    simp only [step, specStep, opSize]
    simp only [opSize] at hb
    rw [hl]
    by_cases hd : isLive s.live id = true
    · simp only [hd, if_true]
      exact ⟨trivial, ⟨hr, hl, hg, hn⟩, by omega⟩
    · simp only [hd, Bool.false_eq_true, if_false]
      have hle := inflight_le s.live res
      rw [hg, hr, checkPass_eq_spec _ _ (by omega)]
      cases hs : specCheck (rulesOf s.rules res) (inflight s.live res) b with
      | some p =>
        simp only [Option.map_some]
        exact ⟨trivial, ⟨hr, hl, hg, hn⟩, by omega⟩
      | none =>
        simp only [Option.map_none]
        refine ⟨trivial, ⟨rfl, rfl, ?_, ?_⟩, by simp⟩
        · intro x
          simp only
          rw [inflight_cons]
          by_cases hx : x = res
          · subst hx; simp only [if_true]; push_cast; ring
          · have hx' : ¬ res = x := fun e => hx e.symm
            simp only [hx, hx', if_false]; rw [hg]; simp
        · simp only [List.map_cons, List.nodup_cons]
          exact ⟨fun hmem => hd ((isLive_iff _ _).mpr hmem), hn⟩
  | soak res G rounds b =>
    refine ⟨?_, ⟨hr, hl, hg, hn⟩, by simp [specStep, opSize]⟩
    simp only [step, specStep]; rw [hg, hr]
  | sched id0 res bs sch =>
    simp only [step, specStep, opSize]
    simp only [opSize] at hb
    rw [hl]
    by_cases hd : ((List.range bs.length).any fun i => isLive s.live (id0 + i)) = true
    · simp only [hd, if_true]
      exact ⟨trivial, ⟨hr, hl, hg, hn⟩, by omega⟩
    · simp only [hd, Bool.false_eq_true, if_false]
      have hle := inflight_le s.live res
      have h0 : RT { g := m.gauge res, mx := m.gauge res, th := List.replicate bs.length Pc.idle }
          { base := inflight s.live res, mx := inflight s.live res, th := List.replicate bs.length Pc.idle } :=
        ⟨rfl, by simp only [nInflight_replicate_idle, Nat.add_zero]; exact hg res, hg res⟩
      have hrt := runDrain_refines (rulesOf m.rules res) bs sch _ _ h0 (by simp only [List.length_replicate]; omega)
      rw [hr] at hrt
      obtain ⟨hth, hgg, hmx⟩ := hrt
      have hlen : (specRunDrain (rulesOf s.rules res) bs
          { base := inflight s.live res, mx := inflight s.live res, th := List.replicate bs.length Pc.idle } sch).th.length = bs.length := by
        unfold specRunDrain
        simp only [specRunT_length, List.length_replicate]
      have hbase : (specRunDrain (rulesOf s.rules res) bs
          { base := inflight s.live res, mx := inflight s.live res, th := List.replicate bs.length Pc.idle } sch).base = inflight s.live res := by
        unfold specRunDrain
        simp only [specRunT_base]
      rw [hr]
      refine ⟨by rw [hth, hmx], ⟨rfl, by simp only [hth], ?_, ?_⟩, ?_⟩
      · intro x
        simp only
        rw [inflight_schedHandles]
        by_cases hx : x = res
        · subst hx; simp only [if_true]; rw [hgg, hbase]
        · have hx' : ¬ res = x := fun e => hx e.symm
          simp only [hx, hx', if_false]; rw [hg]; simp
      · rw [List.map_append, List.nodup_append]
        refine ⟨schedHandles_nodup _ _ _, hn, ?_⟩
        intro a ha b hb' e
        subst e
        obtain ⟨i, hi, rfl⟩ := schedHandles_mem _ _ _ _ ha
        apply hd
        rw [List.any_eq_true]
        exact ⟨i, List.mem_range.mpr (by rw [← hlen]; exact hi), (isLive_iff _ _).mpr hb'⟩
      · simp only [List.length_append]
        have : (schedHandles id0 res (specRunDrain (rulesOf s.rules res) bs
          { base := inflight s.live res, mx := inflight s.live res, th := List.replicate bs.length Pc.idle } sch).th).length ≤ bs.length := by
          unfold schedHandles
          rw [List.length_map]
          refine le_trans (List.length_filter_le _ _) ?_
          rw [List.length_zipIdx, hlen]
        omega

end Sentinel.Iso

namespace Sentinel.Iso

def histSize (h : List Op) : Nat := (h.map opSize).sum

theorem histSize_cons (o : Op) (h : List Op) : histSize (o :: h) = opSize o + histSize h := by
  simp [histSize]

theorem histSize_append (p t : List Op) : histSize (p ++ t) = histSize p + histSize t := by
  simp [histSize]

theorem run_refines (h : List Op) (m : St) (s : SpecSt) (hR : R m s)
    (hb : s.live.length + histSize h < 2147483648) :
    (run m h).2 = (specRun s h).2 ∧ R (run m h).1 (specRun s h).1 := by
  induction h generalizing m s with
  | nil => exact ⟨rfl, hR⟩
  | cons o r ih =>
    rw [histSize_cons] at hb
    obtain ⟨h1, h2, h3⟩ := step_refines m s o hR (by omega)
    obtain ⟨h4, h5⟩ := ih (step m o).1 (specStep s o).1 h2 (by omega)
    simp only [run, specRun]
    exact ⟨by rw [h1, h4], h5⟩

theorem R_init (rules : List (String × Rule)) : R { rules := rules } { rules := rules } :=
  ⟨rfl, rfl, fun _ => rfl, List.nodup_nil⟩

/-! ### the cap on the reference machine (sequential ops, fixed rules) -/

def seqOp : Op → Bool
  | .entry _ _ _ => true
  | .exit _ => true
  | .conc _ => true
  | _ => false

/-- every rule of every resource is respected up to `z` (`z = 0` when only batches ≥ 1 are used) -/
def CapInv (z : Nat) (s : SpecSt) : Prop :=
  ∀ res, ∀ r ∈ rulesOf s.rules res, inflight s.live res ≤ r.thr.toNat + z

theorem inflight_filter_le (l : List (Nat × String)) (p : Nat × String → Bool) (x : String) :
    inflight (l.filter p) x ≤ inflight l x := by
  unfold inflight
  exact List.Sublist.countP_le List.filter_sublist

theorem specStep_cap (z : Nat) (s : SpecSt) (o : Op) (hs : seqOp o = true)
    (hz : ∀ id res b, o = .entry id res b → 1 ≤ b.toNat + z) (h : CapInv z s) :
    CapInv z (specStep s o).1 ∧ (specStep s o).1.rules = s.rules := by
  cases o with
  | load rs => cases hs
  | loadres a b c => cases hs
  | poke a b c => cases hs
  | getrules a => cases hs
  | ghost a => cases hs
  | getall => cases hs
  | sched a b c d => cases hs
  | soak a b c d => cases hs
  | conc res => exact ⟨h, rfl⟩
  | exit id =>
    refine ⟨?_, rfl⟩
    intro res r hr
    exact le_trans (inflight_filter_le _ _ _) (h res r hr)
  | entry id res b =>
    simp only [specStep]
    by_cases hd : isLive s.live id = true
    · simp only [hd, if_true]; exact ⟨h, trivial⟩
    · simp only [hd, Bool.false_eq_true, if_false]
      cases hc : specCheck (rulesOf s.rules res) (inflight s.live res) b with
      | some p => exact ⟨h, rfl⟩
      | none =>
        refine ⟨?_, rfl⟩
        intro x r hr
        simp only at hr ⊢
        rw [inflight_cons]
        by_cases hx : res = x
        · subst hx
          have := (specCheck_none_iff _ _ _).mp hc r hr
          have := hz id res b rfl
          simp only [if_true]; omega
        · simp only [hx, if_false, Nat.add_zero]; exact h x r hr

theorem specRun_cap (z : Nat) (h : List Op) (s : SpecSt) (hs : ∀ o ∈ h, seqOp o = true)
    (hz : ∀ id res b, Op.entry id res b ∈ h → 1 ≤ b.toNat + z) (hc : CapInv z s) :
    CapInv z (specRun s h).1 ∧ (specRun s h).1.rules = s.rules := by
  induction h generalizing s with
  | nil => exact ⟨hc, rfl⟩
  | cons o r ih =>
    obtain ⟨h1, h2⟩ := specStep_cap z s o (hs o (by simp)) (fun id res b e => hz id res b (by simp [e])) hc
    obtain ⟨h3, h4⟩ := ih (specStep s o).1 (fun o' ho' => hs o' (by simp [ho']))
      (fun id res b hm => hz id res b (by simp [hm])) h1
    simp only [specRun]
    exact ⟨h3, by rw [h4, h2]⟩

end Sentinel.Iso

namespace Sentinel.Iso

/-! ### the potential argument for the admission path (any number of threads, any schedule) -/

/-- `M` dominates what was in flight before and `N + z`; at most `k` threads between check and record -/
structure Pot (M k : Nat) (sc : SCfg) : Prop where
  pot : sc.base + nInflight sc.th + nChecked sc.th ≤ M + (k - 1)
  mx : sc.mx ≤ M + (k - 1)

theorem getD_batch (bs : List UInt32) (z : Nat) (hz : ∀ b ∈ bs, 1 ≤ b.toNat + z) (i : Nat) :
    1 ≤ (bs.getD i 1).toNat + z := by
  rw [List.getD_eq_getElem?_getD]
  cases h : bs[i]? with
  | none => simp
  | some b => exact hz b (List.mem_of_getElem? h)

theorem specStepT_pot (rules : List Rule) (bs : List UInt32) (sc : SCfg) (i : Nat) (N z M k : Nat)
    (hN : ∃ r ∈ rules, r.thr.toNat = N) (hz : ∀ b ∈ bs, 1 ≤ b.toNat + z) (hM : N + z ≤ M)
    (hw : nChecked (specStepT rules bs sc i).th ≤ k) (h : Pot M k sc) :
    Pot M k (specStepT rules bs sc i) := by
  obtain ⟨hp, hm⟩ := h
  revert hw
  unfold specStepT
  cases hpc : sc.th[i]? with
  | none => intro _; exact ⟨hp, hm⟩
  | some pc =>
    cases pc with
    | idle =>
      simp only []
      cases hs : specCheck rules (sc.base + nInflight sc.th) (bs.getD i 1) with
      | none =>
        simp only []
        intro hw
        have a := nInflight_set (new := .checked) hpc
        have b := nChecked_set (new := .checked) hpc
        simp only [reduceCtorEq, if_false, if_true, Nat.add_zero] at a b
        obtain ⟨r, hr, hrN⟩ := hN
        have h1 := (specCheck_none_iff _ _ _).mp hs r hr
        have h2 := getD_batch bs z hz i
        refine ⟨?_, hm⟩
        simp only [a, b] at hw ⊢
        omega
      | some p =>
        simp only []
        intro _
        have a := nInflight_set (new := .blockedPending p.1.idx (UInt32.ofNat p.2)) hpc
        have b := nChecked_set (new := .blockedPending p.1.idx (UInt32.ofNat p.2)) hpc
        simp only [reduceCtorEq, if_false, Nat.add_zero] at a b
        exact ⟨by simp only [a, b]; exact hp, hm⟩
    | checked =>
      simp only []
      intro _
      have a := nInflight_set (new := .inflight) hpc
      have b := nChecked_set (new := .inflight) hpc
      simp only [reduceCtorEq, if_false, if_true, Nat.add_zero] at a b
      refine ⟨?_, ?_⟩
      · simp only [a]; omega
      · simp only [a]; rw [Nat.max_le]; exact ⟨hm, by omega⟩
    | blockedPending idx tv =>
      simp only []
      intro _
      have a := nInflight_set (new := .rejected idx tv) hpc
      have b := nChecked_set (new := .rejected idx tv) hpc
      simp only [reduceCtorEq, if_false, Nat.add_zero] at a b
      exact ⟨by simp only [a, b]; exact hp, hm⟩
    | inflight =>
      simp only []
      intro _
      have a := nInflight_set (new := .done) hpc
      have b := nChecked_set (new := .done) hpc
      simp only [reduceCtorEq, if_false, if_true, Nat.add_zero] at a b
      exact ⟨by simp only [b]; omega, hm⟩
    | rejected idx tv => intro _; exact ⟨hp, hm⟩
    | done => intro _; exact ⟨hp, hm⟩

theorem specRunT_pot (rules : List Rule) (bs : List UInt32) (N z M k : Nat)
    (hN : ∃ r ∈ rules, r.thr.toNat = N) (hz : ∀ b ∈ bs, 1 ≤ b.toNat + z) (hM : N + z ≤ M)
    (s : List Nat) (sc : SCfg)
    (hw : ∀ p, p <+: s → nChecked (specRunT rules bs sc p).th ≤ k) (h : Pot M k sc) :
    ∀ p, p <+: s → Pot M k (specRunT rules bs sc p) := by
  induction s generalizing sc with
  | nil =>
    intro p hp
    rw [List.prefix_nil] at hp; subst hp; exact h
  | cons i r ih =>
    intro p hp
    cases p with
    | nil => exact h
    | cons j p' =>
      obtain ⟨rfl, hp'⟩ := List.cons_prefix_cons.mp hp
      unfold specRunT
      have h1 : Pot M k (specStepT rules bs sc j) :=
        specStepT_pot rules bs sc j N z M k hN hz hM (hw [j] (by simp)) h
      exact ih _ (fun q hq => by have := hw (j :: q) (List.cons_prefix_cons.mpr ⟨rfl, hq⟩); simpa [specRunT] using this) h1 p' hp'

theorem nChecked_le (th : List Pc) : nChecked th ≤ th.length := List.countP_le_length

theorem runT_append (rules : List Rule) (bs : List UInt32) (c : Cfg) (s t : List Nat) :
    runT rules bs c (s ++ t) = runT rules bs (runT rules bs c s) t := by
  induction s generalizing c with
  | nil => rfl
  | cons i r ih => simp only [List.cons_append, runT]; exact ih _

end Sentinel.Iso

namespace Sentinel.Iso

theorem run_live_length (h : List Op) (m : St) (s : SpecSt) (hR : R m s)
    (hb : s.live.length + histSize h < 2147483648) :
    (specRun s h).1.live.length ≤ s.live.length + histSize h := by
  induction h generalizing m s with
  | nil => simp [specRun, histSize]
  | cons o r ih =>
    rw [histSize_cons] at hb ⊢
    obtain ⟨_, h2, h3⟩ := step_refines m s o hR (by omega)
    have := ih (step m o).1 (specStep s o).1 h2 (by omega)
    simp only [specRun]
    omega

/-- the state reached by the gauge machine after any history is related to the reference's state -/
theorem reach (h : List Op) (rules : List (String × Rule)) (hb : histSize h < 2147483648) :
    R (run { rules := rules } h).1 (specRun { rules := rules } h).1 ∧
      (specRun { rules := rules } h).1.live.length ≤ histSize h := by
  have h1 := run_refines h _ _ (R_init rules) (by simpa using hb)
  have h2 := run_live_length h _ _ (R_init rules) (by simpa using hb)
  exact ⟨h1.2, by simpa using h2⟩

/-- initial configuration of a schedule op: `g` in flight before, `m` threads that have not called `api.Entry` yet -/
@[reducible] def cfg0 (g : Int) (m : Nat) : Cfg := { g := g, mx := g, th := List.replicate m .idle }

theorem RT_init (n0 m : Nat) : RT (cfg0 n0 m) { base := n0, mx := n0, th := List.replicate m .idle } :=
  ⟨rfl, by simp [nInflight_replicate_idle], rfl⟩

end Sentinel.Iso

namespace Sentinel.Iso

theorem run_snoc (s0 : St) (h : List Op) (o : Op) :
    run s0 (h ++ [o]) = ((step (run s0 h).1 o).1, (run s0 h).2 ++ [(step (run s0 h).1 o).2]) := by
  induction h generalizing s0 with
  | nil => simp [run]
  | cons a r ih => simp only [List.cons_append, run, ih]

end Sentinel.Iso

namespace Sentinel.Iso

theorem minThr_mem (rules : List Rule) (N : Nat) (h : minThr rules = some N) : ∃ r ∈ rules, r.thr.toNat = N := by
  induction rules generalizing N with
  | nil => cases h
  | cons r rs ih =>
    unfold minThr at h
    cases hm : minThr rs with
    | none => rw [hm] at h; simp only [Option.some.injEq] at h; exact ⟨r, by simp, h⟩
    | some m =>
      rw [hm] at h
      simp only [Option.some.injEq] at h
      obtain ⟨q, hq, hqm⟩ := ih m hm
      by_cases hle : r.thr.toNat ≤ m
      · exact ⟨r, by simp, by rw [← h]; exact (min_eq_left hle).symm⟩
      · exact ⟨q, by simp [hq], by rw [← h, hqm]; exact (min_eq_right (by omega)).symm⟩

theorem batch_pos_or_zero (b : UInt32) : 1 ≤ b.toNat + (if b = 0 then 1 else 0) := by
  by_cases h : b = 0
  · simp [h]
  · have : b.toNat ≠ 0 := fun e => h (UInt32.toNat_inj.mp (by simpa using e))
    simp only [h, if_false]; omega

end Sentinel.Iso

namespace Sentinel.Iso

/-! ### the enforced list is the list of the latest loads (since `26e3af6`, whatever slice the caller used) -/

theorem specStep_ideal (s : SpecSt) (o : Op) (hs : s.rules = s.ideal) :
    (specStep s o).1.rules = (specStep s o).1.ideal := by
  cases o with
  | load rs => rfl
  | loadres sc res ths => simp only [specStep, hs]
  | poke res idx thr => simp only [specStep, hs]
  | getrules res => exact hs
  | ghost id => exact hs
  | getall => exact hs
  | conc res => exact hs
  | soak a b c d => exact hs
  | exit id => exact hs
  | entry id res b =>
    simp only [specStep]
    split
    · exact hs
    · split <;> exact hs
  | sched id0 res bs sch =>
    simp only [specStep]
    split <;> exact hs

theorem specRun_ideal (h : List Op) (s : SpecSt) (hs : s.rules = s.ideal) :
    (specRun s h).1.rules = (specRun s h).1.ideal := by
  induction h generalizing s with
  | nil => exact hs
  | cons o r ih =>
    simp only [specRun]
    exact ih _ (specStep_ideal s o hs)

end Sentinel.Iso

namespace Sentinel.Iso

/-! ### the `N + (P − 1)` bound as an invariant of whole histories (bursts, exits, ghosts, reads in any order; rules fixed) -/

/-- ops that change the rule list -/
def ruleOp : Op → Bool
  | .load _ => true
  | .loadres _ _ _ => true
  | .poke _ _ _ => true
  | _ => false

/-- batches are ≥ 1 (`z = 0`) or arbitrary (`z = 1`) -/
def batchOK (z : Nat) : Op → Prop
  | .entry _ _ b => 1 ≤ b.toNat + z
  | .sched _ _ bs _ => ∀ b ∈ bs, 1 ≤ b.toNat + z
  | _ => True

/-- number of goroutines a schedule op puts into the admission path -/
def burstWidth : Op → Nat
  | .sched _ _ bs _ => bs.length
  | _ => 0

def BndInv (z P : Nat) (s : SpecSt) : Prop :=
  ∀ res, ∀ r ∈ rulesOf s.rules res, inflight s.live res ≤ r.thr.toNat + z + (P - 1)

theorem specRunT_append (rules : List Rule) (bs : List UInt32) (c : SCfg) (s t : List Nat) :
    specRunT rules bs c (s ++ t) = specRunT rules bs (specRunT rules bs c s) t := by
  induction s generalizing c with
  | nil => rfl
  | cons i r ih => simp only [List.cons_append, specRunT]; exact ih _

theorem specRunDrain_bound (rules : List Rule) (bs : List UInt32) (sch : List Nat) (n N z P : Nat)
    (hN : ∃ r ∈ rules, r.thr.toNat = N) (hz : ∀ b ∈ bs, 1 ≤ b.toNat + z) (hP : bs.length ≤ P)
    (h0 : n ≤ N + z + (P - 1)) :
    n + nInflight (specRunDrain rules bs { base := n, mx := n, th := List.replicate bs.length Pc.idle } sch).th
      ≤ N + z + (P - 1) := by
  unfold specRunDrain
  simp only
  rw [← specRunT_append]
  have hpot := specRunT_pot rules bs N z (N + z) P hN hz (le_refl _)
    (sch ++ drainSched (specRunT rules bs { base := n, mx := n, th := List.replicate bs.length Pc.idle } sch).th)
    { base := n, mx := n, th := List.replicate bs.length Pc.idle }
    (fun q _ => by
      refine le_trans (nChecked_le _) ?_
      rw [specRunT_length]; simpa using hP)
    ⟨by simp only [nInflight_replicate_idle, nChecked, List.countP_replicate]; simp; exact h0, h0⟩
    _ (List.prefix_refl _)
  have := hpot.pot
  rw [specRunT_base] at this
  simp only at this
  omega

theorem specStep_bnd (z P : Nat) (s : SpecSt) (o : Op) (hr : ruleOp o = false) (hz : batchOK z o)
    (hP : burstWidth o ≤ P) (h : BndInv z P s) :
    BndInv z P (specStep s o).1 ∧ (specStep s o).1.rules = s.rules := by
  cases o with
  | load rs => cases hr
  | loadres a b c => cases hr
  | poke a b c => cases hr
  | conc res => exact ⟨h, rfl⟩
  | getrules res => exact ⟨h, rfl⟩
  | getall => exact ⟨h, rfl⟩
  | soak a b c d => exact ⟨h, rfl⟩
  | ghost id =>
    refine ⟨?_, rfl⟩
    intro res r hr'
    simp only [specStep] at hr' ⊢
    rw [inflight_ghost]; exact h res r hr'
  | exit id =>
    refine ⟨?_, rfl⟩
    intro res r hr'
    exact le_trans (inflight_filter_le _ _ _) (h res r hr')
  | entry id res b =>
    simp only [specStep]
    by_cases hd : isLive s.live id = true
    · simp only [hd, if_true]; exact ⟨h, trivial⟩
    · simp only [hd, Bool.false_eq_true, if_false]
      cases hc : specCheck (rulesOf s.rules res) (inflight s.live res) b with
      | some p => exact ⟨h, rfl⟩
      | none =>
        refine ⟨?_, rfl⟩
        intro x r hr'
        simp only at hr' ⊢
        rw [inflight_cons]
        by_cases hx : res = x
        · subst hx
          have h1 := (specCheck_none_iff _ _ _).mp hc r hr'
          have h2 : 1 ≤ b.toNat + z := hz
          simp only [if_true]; omega
        · simp only [hx, if_false, Nat.add_zero]; exact h x r hr'
  | sched id0 res bs sch =>
    simp only [specStep]
    by_cases hd : ((List.range bs.length).any fun i => isLive s.live (id0 + i)) = true
    · simp only [hd, if_true]; exact ⟨h, trivial⟩
    · simp only [hd, Bool.false_eq_true, if_false]
      refine ⟨?_, trivial⟩
      intro x r hr'
      simp only at hr' ⊢
      rw [inflight_schedHandles]
      by_cases hx : res = x
      · subst hx
        simp only [if_true]
        exact specRunDrain_bound (rulesOf s.rules res) bs sch (inflight s.live res) r.thr.toNat z P ⟨r, hr', rfl⟩ hz hP (h res r hr')
      · simp only [hx, if_false, Nat.add_zero]; exact h x r hr'

theorem specRun_bnd (z P : Nat) (h : List Op) (s : SpecSt) (hr : ∀ o ∈ h, ruleOp o = false)
    (hz : ∀ o ∈ h, batchOK z o) (hP : ∀ o ∈ h, burstWidth o ≤ P) (h0 : BndInv z P s) :
    BndInv z P (specRun s h).1 ∧ (specRun s h).1.rules = s.rules := by
  induction h generalizing s with
  | nil => exact ⟨h0, rfl⟩
  | cons o r ih =>
    obtain ⟨h1, h2⟩ := specStep_bnd z P s o (hr o (by simp)) (hz o (by simp)) (hP o (by simp)) h0
    obtain ⟨h3, h4⟩ := ih (specStep s o).1 (fun o' ho' => hr o' (by simp [ho']))
      (fun o' ho' => hz o' (by simp [ho'])) (fun o' ho' => hP o' (by simp [ho'])) h1
    simp only [specRun]
    exact ⟨h3, by rw [h4, h2]⟩

theorem specRun_append (s : SpecSt) (a b : List Op) :
    (specRun s (a ++ b)).1 = (specRun (specRun s a).1 b).1 := by
  induction a generalizing s with
  | nil => rfl
  | cons o r ih => simp only [List.cons_append, specRun]; exact ih _

end Sentinel.Iso

namespace Sentinel.Iso

/-! ### ghosts stay, handles stay nameable -/

/-- the op names handle `f` (only `exit`/`ghost` remove or rename a handle) -/
def namesId (f : Nat) : Op → Bool
  | .exit i => i = f
  | .ghost i => i = f
  | _ => false

theorem isLive_ghost (live : List (Nat × String)) (id : Nat) : isLive (ghostLive live id) id = false := by
  rw [Bool.eq_false_iff]
  intro h
  rw [isLive_iff] at h
  obtain ⟨q, hq, hq1⟩ := List.mem_map.mp h
  unfold ghostLive at hq
  obtain ⟨p, hp, rfl⟩ := List.mem_map.mp hq
  by_cases hpid : p.1 = id
  · simp only [hpid, if_true] at hq1
    have := freshId_gt live p hp
    omega
  · simp only [hpid, if_false] at hq1

theorem mem_step (s : St) (o : Op) (f : Nat) (res : String) (hm : (f, res) ∈ s.live) (hn : namesId f o = false) :
    (f, res) ∈ (step s o).1.live := by
  cases o with
  | load rs => exact hm
  | loadres a b c => exact hm
  | poke a b c => exact hm
  | conc r => exact hm
  | getrules r => exact hm
  | getall => exact hm
  | soak a b c d => exact hm
  | entry id r b =>
    simp only [step]
    split
    · exact hm
    · split
      · exact hm
      · exact List.mem_cons_of_mem _ hm
  | exit i =>
    simp only [namesId, decide_eq_false_iff_not] at hn
    simp only [step]
    split
    · exact List.mem_filter.mpr ⟨hm, by simpa using fun e : f = i => hn e.symm⟩
    · exact hm
  | ghost i =>
    simp only [namesId, decide_eq_false_iff_not] at hn
    simp only [step, ghostLive]
    refine List.mem_map.mpr ⟨(f, res), hm, ?_⟩
    have : ¬ (f = i) := fun e => hn e.symm
    simp [this]
  | sched id0 r bs sch =>
    simp only [step]
    split
    · exact hm
    · exact List.mem_append_right _ hm

theorem mem_run (h : List Op) (s : St) (f : Nat) (res : String) (hm : (f, res) ∈ s.live)
    (hn : ∀ o ∈ h, namesId f o = false) : (f, res) ∈ (run s h).1.live := by
  induction h generalizing s with
  | nil => exact hm
  | cons o r ih =>
    simp only [run]
    exact ih _ (mem_step s o f res hm (hn o (by simp))) (fun o' ho' => hn o' (by simp [ho']))

/-- handle ids used by the op are below `B` -/
def idsBelow (B : Nat) : Op → Prop
  | .entry id _ _ => id < B
  | .sched id0 _ bs _ => id0 + bs.length ≤ B
  | _ => True

def isGhostOp : Op → Bool
  | .ghost _ => true
  | _ => false

theorem specStep_ids (B : Nat) (s : SpecSt) (o : Op) (hg : isGhostOp o = false) (hi : idsBelow B o)
    (h : ∀ p ∈ s.live, p.1 < B) : ∀ p ∈ (specStep s o).1.live, p.1 < B := by
  cases o with
  | load rs => exact h
  | loadres a b c => exact h
  | poke a b c => exact h
  | conc r => exact h
  | getrules r => exact h
  | getall => exact h
  | soak a b c d => exact h
  | ghost i => cases hg
  | exit i =>
    intro p hp
    exact h p (List.mem_filter.mp hp).1
  | entry id r b =>
    simp only [specStep]
    split
    · exact h
    · split
      · exact h
      · intro p hp
        rcases List.mem_cons.mp hp with rfl | hp
        · exact hi
        · exact h p hp
  | sched id0 r bs sch =>
    simp only [specStep]
    split
    · exact h
    · intro p hp
      simp only at hp
      rcases List.mem_append.mp hp with hp | hp
      · obtain ⟨i, hi', hj⟩ := schedHandles_mem id0 r _ p.1 (List.mem_map.mpr ⟨p, hp, rfl⟩)
        have hlen : (specRunDrain (rulesOf s.rules r) bs
            { base := inflight s.live r, mx := inflight s.live r, th := List.replicate bs.length Pc.idle } sch).th.length = bs.length := by
          unfold specRunDrain
          simp only [specRunT_length, List.length_replicate]
        rw [hlen] at hi'
        have : id0 + bs.length ≤ B := hi
        omega
      · exact h p hp

theorem specRun_ids (B : Nat) (h : List Op) (s : SpecSt) (hg : ∀ o ∈ h, isGhostOp o = false) (hi : ∀ o ∈ h, idsBelow B o)
    (h0 : ∀ p ∈ s.live, p.1 < B) : ∀ p ∈ (specRun s h).1.live, p.1 < B := by
  induction h generalizing s with
  | nil => exact h0
  | cons o r ih =>
    simp only [specRun]
    exact ih _ (fun o' ho' => hg o' (by simp [ho'])) (fun o' ho' => hi o' (by simp [ho']))
      (specStep_ids B s o (hg o (by simp)) (hi o (by simp)) h0)

end Sentinel.Iso
