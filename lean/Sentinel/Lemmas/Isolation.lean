import Mathlib.Tactic
import Sentinel.Model.Isolation
/-! Helper lemmas for C04: machine arithmetic of `checkPass`, counting lemmas for `List.set` -/
namespace Sentinel.Iso

theorem curCount_nat (n : Nat) (hn : n < 4294967296) : (curCount (n : Int)).toNat = n := by
  unfold curCount
  simp only [Int.natCast_nonneg, if_true, Int.toNat_natCast]
  exact UInt32.toNat_ofNat_of_lt' hn

theorem curCount_neg (g : Int) (hg : g < 0) : curCount g = 0 := by
  unfold curCount
  simp [not_le.mpr hg]

/-- the repaired comparison is the comparison over `Nat` -/
theorem cmp64_iff (c b t : UInt32) :
    (c.toUInt64 + b.toUInt64 > t.toUInt64) ↔ c.toNat + b.toNat > t.toNat := by
  have hc := c.toNat_lt
  have hb := b.toNat_lt
  rw [gt_iff_lt, UInt64.lt_iff_toNat_lt, UInt64.toNat_add]
  simp only [UInt32.toNat_toUInt64]
  rw [Nat.mod_eq_of_lt (by omega)]

theorem cmp32_iff (c b t : UInt32) :
    (c + b > t) ↔ (c.toNat + b.toNat) % 4294967296 > t.toNat := by
  rw [gt_iff_lt, UInt32.lt_iff_toNat_lt, UInt32.toNat_add]

end Sentinel.Iso

namespace Sentinel.Iso

/-! ### `checkPass` against the reference over `Nat` -/

theorem curCount_cast (n : Nat) : curCount (n : Int) = UInt32.ofNat n := by
  simp [curCount]

theorem checkPass_eq_spec (rules : List Rule) (n : Nat) (hn : n < 4294967296) (b : UInt32) :
    checkPass rules (n : Int) b = (specCheck rules n b).map fun p => (p.1, UInt32.ofNat p.2) := by
  induction rules with
  | nil => rfl
  | cons r rs ih =>
    unfold checkPass specCheck
    have h := cmp64_iff (curCount (n : Int)) b r.thr
    rw [curCount_nat n hn] at h
    by_cases hc : n + b.toNat > r.thr.toNat
    · rw [if_pos (h.mpr hc), if_pos hc, curCount_cast]; rfl
    · rw [if_neg (fun x => hc (h.mp x)), if_neg hc]; exact ih

theorem specCheck_none_iff (rules : List Rule) (n : Nat) (b : UInt32) :
    specCheck rules n b = none ↔ ∀ r ∈ rules, n + b.toNat ≤ r.thr.toNat := by
  induction rules with
  | nil => simp [specCheck]
  | cons r rs ih =>
    unfold specCheck
    by_cases hc : n + b.toNat > r.thr.toNat
    · simp only [if_pos hc, List.mem_cons, forall_eq_or_imp]
      constructor
      · intro h; cases h
      · intro h; omega
    · simp only [if_neg hc, List.mem_cons, forall_eq_or_imp, ih]
      constructor
      · intro h; exact ⟨by omega, h⟩
      · intro h; exact h.2

/-- a block names the **first** violated rule and reports the in-flight number -/
theorem specCheck_some_iff (rules : List Rule) (n : Nat) (b : UInt32) (r : Rule) (m : Nat) :
    specCheck rules n b = some (r, m) ↔
      m = n ∧ ∃ pre post, rules = pre ++ r :: post ∧ (∀ q ∈ pre, n + b.toNat ≤ q.thr.toNat) ∧ r.thr.toNat < n + b.toNat := by
  induction rules with
  | nil => simp [specCheck]
  | cons q rs ih =>
    unfold specCheck
    by_cases hc : n + b.toNat > q.thr.toNat
    · rw [if_pos hc]
      constructor
      · intro h
        simp only [Option.some.injEq, Prod.mk.injEq] at h
        obtain ⟨rfl, rfl⟩ := h
        exact ⟨rfl, [], rs, rfl, by simp, hc⟩
      · rintro ⟨rfl, pre, post, he, hp, hr⟩
        cases pre with
        | nil => simp only [List.nil_append, List.cons.injEq] at he; rw [he.1]
        | cons p pre' =>
          simp only [List.cons_append, List.cons.injEq] at he
          have := hp p (by simp)
          rw [← he.1] at this; omega
    · rw [if_neg hc, ih]
      constructor
      · rintro ⟨rfl, pre, post, he, hp, hr⟩
        refine ⟨rfl, q :: pre, post, by simp [he], ?_, hr⟩
        intro x hx
        rcases List.mem_cons.mp hx with rfl | hx
        · omega
        · exact hp x hx
      · rintro ⟨rfl, pre, post, he, hp, hr⟩
        cases pre with
        | nil =>
          simp only [List.nil_append, List.cons.injEq] at he
          rw [he.1] at hc; omega
        | cons p pre' =>
          simp only [List.cons_append, List.cons.injEq] at he
          exact ⟨rfl, pre', post, he.2, fun x hx => hp x (by simp [hx]), hr⟩

/-! ### counting under `List.set` -/

theorem countP_set_of {l : List Pc} {i : Nat} {old new : Pc} (p : Pc) (h : l[i]? = some old) :
    (l.set i new).countP (· = p) + (if old = p then 1 else 0) = l.countP (· = p) + (if new = p then 1 else 0) := by
  induction l generalizing i with
  | nil => simp at h
  | cons a r ih =>
    cases i with
    | zero =>
      simp at h; subst h
      simp only [List.set_cons_zero, List.countP_cons, decide_eq_true_eq]
      split_ifs <;> omega
    | succ j =>
      simp at h
      have := ih h
      simp only [List.set_cons_succ, List.countP_cons]
      omega

theorem nInflight_set {l : List Pc} {i : Nat} {old new : Pc} (h : l[i]? = some old) :
    nInflight (l.set i new) + (if old = .inflight then 1 else 0) = nInflight l + (if new = .inflight then 1 else 0) :=
  countP_set_of .inflight h

theorem nChecked_set {l : List Pc} {i : Nat} {old new : Pc} (h : l[i]? = some old) :
    nChecked (l.set i new) + (if old = .checked then 1 else 0) = nChecked l + (if new = .checked then 1 else 0) :=
  countP_set_of .checked h

end Sentinel.Iso
