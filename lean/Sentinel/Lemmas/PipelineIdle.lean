import Mathlib.Tactic
import Sentinel.Lemmas.PipelineFlow
/-!
# Invariants needed for "everything returns to zero when all entries have exited"

* `GhostStd`: the even-keyed contexts of `ent` (the node-creating ghosts of `flow.LoadRules`) have no `stat.Slot` in their chain,
  so they never account on any gauge;
* `HotLive`: the live entries of the hotspot component are exactly the admitted-and-not-exited requests `reqs`.
-/
namespace Sentinel.Pipe
open Sentinel.LA

variable {R : Type}

/-- the contexts with even keys are statistic-free ghosts -/
def GhostStd (s : St R) : Prop := ∀ g c, Entry.findE s.ent.ents (2 * g) = some c → c.e.chain.std = false

theorem ghostStd_ghostNodes (rs : List FlowReject.Rule) (s : St R) (hc : CtxSync s) (hst : s.started = true) (hg : GhostStd s) :
    GhostStd (ghostNodes s rs) := by
  induction rs generalizing s with
  | nil => exact hg
  | cons r rs ih =>
    simp only [ghostNodes]
    split_ifs
    · obtain ⟨c1, e1⟩ := ctxSync_ghost s hc hst (rname r.src)
      refine ih _ c1 hst ?_
      intro g c hcx
      have hcx' : Entry.findE (entStep s (.entry (ghostE (2 * s.ghosts) (rname r.src)))).ent.ents (2 * g) = some c := hcx
      rw [e1, findE_cons] at hcx'
      split_ifs at hcx' with hk
      · cases hcx'; rfl
      · exact hg g c hcx'
    · exact ih s hc hst hg

section step
variable [LT R] [∀ a b : R, Decidable (a < b)]

theorem ghostStd_step (A : System.Arith R) (s : St R) (o : Op R) (hs : Sync s) (hg : GhostStd s) : GhostStd (step A s o).1 := by
  cases o with
  | clock t =>
    simp only [step]
    split_ifs
    · exact hg
    · intro g c hcx; cases hcx
    · exact hg
    · exact hg
  | loadSys rs => simp only [step]; split_ifs <;> exact hg
  | loadIso rs => simp only [step]; split_ifs <;> exact hg
  | loadHot rs => simp only [step]; split_ifs <;> exact hg
  | loadCb rs => simp only [step]; split_ifs <;> exact hg
  | sysLoad x => exact hg
  | sysCpu x => exact hg
  | log => exact hg
  | loadFlow rs =>
    simp only [step]
    split_ifs with hcnd
    · exact hg
    · have hst : s.started = true := by
        cases hh : s.started
        · simp [hh] at hcnd
        · rfl
      exact ghostStd_ghostNodes rs s hs.ctx hst hg
  | trace id =>
    simp only [step]
    split_ifs with hcnd
    · exact hg
    · intro g c hcx
      have h3 := (step_trace_shape s.ent s.now (rid id) (some "biz")).2.2 (2 * g)
      have hcx' : Entry.findE (Entry.step false s.ent (s.now, .trace (rid id) (some "biz"))).ents (2 * g) = some c := hcx
      rw [h3, if_neg (rid_ne_even id g).symm] at hcx'
      exact hg g c hcx'
  | exit id err =>
    simp only [step]
    split_ifs with hcnd
    · exact hg
    · have hst : s.started = true := by simpa using hcnd
      cases hf : s.reqs.find? (·.id = id) with
      | none =>
        have hno : ∀ q ∈ s.reqs, q.id ≠ id := by
          intro q hq
          have := List.find?_eq_none.mp hf q hq
          simpa using this
        obtain ⟨e1, _, _⟩ := ctxSync_exit_dead s id err hs.ctx hst hno
        intro g c hcx
        rw [e1] at hcx
        exact hg g c hcx
      | some q =>
        have hq : q ∈ s.reqs := List.mem_of_find?_eq_some hf
        have hid : q.id = id := by simpa using List.find?_some hf
        obtain ⟨t0, e0, _, _, e1, _⟩ := ctxSync_exit_live s id err hs.ctx hst q hq hid
        intro g c hcx
        rw [e1, findE_cons, if_neg (rid_ne_even q.id g)] at hcx
        exact hg g c hcx
  | entry q =>
    simp only [step]
    split_ifs with hcnd
    · exact hg
    · have hst : s.started = true := by
        cases hh : s.started
        · simp [hh] at hcnd
        · rfl
      have hu : q.id ∉ s.used := by
        intro hm
        apply hcnd
        simp [usedId, hm]
      obtain ⟨_, e1⟩ := ctxSync_entry A s q hs.ctx hst hu
      intro g c hcx
      rw [e1, findE_cons, if_neg (rid_ne_even q.id g)] at hcx
      exact hg g c hcx

theorem ghostStd_run (A : System.Arith R) (s : St R) (os : List (Op R)) (hs : Sync s) (hg : GhostStd s) :
    GhostStd (run A s os).1 := by
  induction os generalizing s with
  | nil => exact hg
  | cons o os ih => exact ih _ (sync_step A s o hs) (ghostStd_step A s o hs hg)

end step

end Sentinel.Pipe
