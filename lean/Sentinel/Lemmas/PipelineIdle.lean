import Mathlib.Tactic
import Sentinel.Lemmas.PipelineFlow
/-!
# Invariants needed for "everything returns to zero when all entries have exited"

* `GhostStd`: the even-keyed contexts of `ent` (the node-creating ghosts of `flow.LoadRules`) have no `stat.Slot` in their chain,
  so they never account on any gauge;
* `HotLive`: the live entries of the hotspot component are exactly the admitted-and-not-exited requests `reqs`.
-/
namespace Sentinel.Pipe
open Sentinel.LA

variable {R : Type}

/-- the contexts with even keys are statistic-free ghosts -/
def GhostStd (s : St R) : Prop := ∀ g c, Entry.findE s.ent.ents (2 * g) = some c → c.e.chain.std = false

theorem ghostStd_ghostNodes (rs : List FlowReject.Rule) (s : St R) (hc : CtxSync s) (hst : s.started = true) (hg : GhostStd s) :
    GhostStd (ghostNodes s rs) := by
  induction rs generalizing s with
  | nil => exact hg
  | cons r rs ih =>
    simp only [ghostNodes]
    split_ifs
    · obtain ⟨c1, e1⟩ := ctxSync_ghost s hc hst (rname r.src)
      refine ih _ c1 hst ?_
      intro g c hcx
      have hcx' : Entry.findE (entStep s (.entry (ghostE (2 * s.ghosts) (rname r.src)))).ent.ents (2 * g) = some c := hcx
      rw [e1, findE_cons] at hcx'
      split_ifs at hcx' with hk
      · cases hcx'; rfl
      · exact hg g c hcx'
    · exact ih s hc hst hg

section step
variable [LT R] [∀ a b : R, Decidable (a < b)]

theorem ghostStd_step (A : System.Arith R) (s : St R) (o : Op R) (hs : Sync s) (hg : GhostStd s) : GhostStd (step A s o).1 := by
  cases o with
  | clock t =>
    simp only [step]
    split_ifs
    · exact hg
    · intro g c hcx; cases hcx
    · exact hg
    · exact hg
  | loadSys rs => simp only [step]; split_ifs <;> exact hg
  | loadIso rs => simp only [step]; split_ifs <;> exact hg
  | loadHot rs => simp only [step]; split_ifs <;> exact hg
  | loadCb rs => simp only [step]; split_ifs <;> exact hg
  | sysLoad x => exact hg
  | sysCpu x => exact hg
  | log => exact hg
  | loadFlow rs =>
    simp only [step]
    split_ifs with hcnd
    · exact hg
    · have hst : s.started = true := by
        cases hh : s.started
        · simp [hh] at hcnd
        · rfl
      exact ghostStd_ghostNodes rs s hs.ctx hst hg
  | trace id =>
    simp only [step]
    split_ifs with hcnd
    · exact hg
    · intro g c hcx
      have h3 := (step_trace_shape s.ent s.now (rid id) (some "biz")).2.2 (2 * g)
      have hcx' : Entry.findE (Entry.step false s.ent (s.now, .trace (rid id) (some "biz"))).ents (2 * g) = some c := hcx
      rw [h3, if_neg (rid_ne_even id g).symm] at hcx'
      exact hg g c hcx'
  | exit id err =>
    simp only [step]
    split_ifs with hcnd
    · exact hg
    · have hst : s.started = true := by simpa using hcnd
      cases hf : s.reqs.find? (·.id = id) with
      | none =>
        have hno : ∀ q ∈ s.reqs, q.id ≠ id := by
          intro q hq
          have := List.find?_eq_none.mp hf q hq
          simpa using this
        obtain ⟨e1, _, _⟩ := ctxSync_exit_dead s id err hs.ctx hst hno
        intro g c hcx
        rw [e1] at hcx
        exact hg g c hcx
      | some q =>
        have hq : q ∈ s.reqs := List.mem_of_find?_eq_some hf
        have hid : q.id = id := by simpa using List.find?_some hf
        obtain ⟨t0, e0, _, _, e1, _⟩ := ctxSync_exit_live s id err hs.ctx hst q hq hid
        intro g c hcx
        rw [e1, findE_cons, if_neg (rid_ne_even q.id g)] at hcx
        exact hg g c hcx
  | entry q =>
    simp only [step]
    split_ifs with hcnd
    · exact hg
    · have hst : s.started = true := by
        cases hh : s.started
        · simp [hh] at hcnd
        · rfl
      have hu : q.id ∉ s.used := by
        intro hm
        apply hcnd
        simp [usedId, hm]
      obtain ⟨_, e1⟩ := ctxSync_entry A s q hs.ctx hst hu
      intro g c hcx
      rw [e1, findE_cons, if_neg (rid_ne_even q.id g)] at hcx
      exact hg g c hcx

theorem ghostStd_run (A : System.Arith R) (s : St R) (os : List (Op R)) (hs : Sync s) (hg : GhostStd s) :
    GhostStd (run A s os).1 := by
  induction os generalizing s with
  | nil => exact hg
  | cons o os ih => exact ih _ (sync_step A s o hs) (ghostStd_step A s o hs hg)

end step

/-! ## the hotspot component's live entries are the admitted-and-not-exited requests -/

def hotLiveOf (q : Req) : HotConc.Live := { id := toString q.id, res := rname q.res, args := q.args, atts := q.atts }

structure HotLive (s : St R) : Prop where
  live : s.hot.live = s.reqs.map hotLiveOf
  nodup : (s.reqs.map (·.id)).Nodup
  sub : ∀ q ∈ s.reqs, q.id ∈ s.used

theorem hot_exit_live (h : HotConc.St) (id : String) :
    (HotConc.exit h id).live = h.live.eraseP (fun e => e.id == id) := by
  simp only [HotConc.exit]
  cases hf : h.live.find? (fun e => e.id == id) with
  | none =>
    rw [List.eraseP_of_forall_not]
    intro a ha
    have := List.find?_eq_none.mp hf a ha
    simpa using this
  | some e => rfl

theorem map_eraseP_nodup (l : List Req) (id : Nat) (hn : (l.map (·.id)).Nodup) :
    (l.map hotLiveOf).eraseP (fun e => e.id == toString id) = (l.filter (·.id ≠ id)).map hotLiveOf := by
  induction l with
  | nil => rfl
  | cons a l ih =>
    simp only [List.map_cons, List.nodup_cons] at hn
    by_cases ha : a.id = id
    · have hp : ((hotLiveOf a).id == toString id) = true := by simp [hotLiveOf, ha]
      simp only [List.map_cons]
      rw [List.eraseP_cons_of_pos (p := fun e : HotConc.Live => e.id == toString id) hp]
      have hfil : (a :: l).filter (·.id ≠ id) = l := by
        rw [List.filter_cons_of_neg (by simp [ha])]
        rw [List.filter_eq_self]
        intro x hx
        have : x.id ≠ a.id := fun e => hn.1 (e ▸ List.mem_map_of_mem hx)
        simpa [ha] using this
      rw [hfil]
    · have hp : ¬ ((hotLiveOf a).id == toString id) = true := by
        simp only [hotLiveOf, beq_iff_eq]
        exact fun e => ha (Nat.repr_injective e)
      simp only [List.map_cons]
      rw [List.eraseP_cons_of_neg (p := fun e : HotConc.Live => e.id == toString id) hp,
        List.filter_cons_of_pos (by simp [ha]), List.map_cons, ih hn.2]

section stepHot
variable [LT R] [∀ a b : R, Decidable (a < b)]

theorem hotLive_step (A : System.Arith R) (s : St R) (o : Op R) (h : HotLive s) : HotLive (step A s o).1 := by
  cases o with
  | clock t => simp only [step]; split_ifs <;> exact ⟨h.live, h.nodup, h.sub⟩
  | loadSys rs => simp only [step]; split_ifs <;> exact ⟨h.live, h.nodup, h.sub⟩
  | loadIso rs => simp only [step]; split_ifs <;> exact ⟨h.live, h.nodup, h.sub⟩
  | loadHot rs => simp only [step]; split_ifs <;> exact ⟨h.live, h.nodup, h.sub⟩
  | loadCb rs => simp only [step]; split_ifs <;> exact ⟨h.live, h.nodup, h.sub⟩
  | sysLoad x => exact ⟨h.live, h.nodup, h.sub⟩
  | sysCpu x => exact ⟨h.live, h.nodup, h.sub⟩
  | log => exact ⟨h.live, h.nodup, h.sub⟩
  | trace id => simp only [step]; split_ifs <;> exact ⟨h.live, h.nodup, h.sub⟩
  | loadFlow rs =>
    simp only [step]
    split_ifs
    · exact h
    · obtain ⟨_, a, _, b, _, c, _⟩ := ghostNodes_frame rs s
      exact ⟨by show (ghostNodes s rs).hot.live = (ghostNodes s rs).reqs.map hotLiveOf; rw [b, c]; exact h.live,
             by show ((ghostNodes s rs).reqs.map (·.id)).Nodup; rw [c]; exact h.nodup,
             by intro q hq
                have hq' : q ∈ (ghostNodes s rs).reqs := hq
                rw [c] at hq'
                show q.id ∈ (ghostNodes s rs).used
                rw [a]; exact h.sub q hq'⟩
  | exit id err =>
    simp only [step]
    split_ifs
    · exact h
    · refine ⟨?_, ?_, ?_⟩
      · show (HotConc.exit s.hot (toString id)).live = (s.reqs.filter (·.id ≠ id)).map hotLiveOf
        rw [hot_exit_live, h.live, map_eraseP_nodup _ _ h.nodup]
      · show ((s.reqs.filter (·.id ≠ id)).map (·.id)).Nodup
        exact (h.nodup.sublist ((List.filter_sublist).map _))
      · intro q hq
        have hq' : q ∈ s.reqs.filter (·.id ≠ id) := hq
        exact h.sub q (List.mem_filter.mp hq').1
  | entry q =>
    simp only [step]
    split_ifs with hcnd
    · exact h
    · have hu : q.id ∉ s.used := by
        intro hm
        apply hcnd
        simp [usedId, hm]
      have hused := (entry_static A s q).2.2.2.2.2.2.2.2.2
      have hreqs := entry_reqs A s q
      have hhot := entry_hot A s q
      cases hd : decision A s q with
      | none =>
        rw [hd] at hreqs hhot
        simp only [if_true] at hreqs hhot
        refine ⟨?_, ?_, ?_⟩
        · rw [hhot, hreqs]
          simp [hotAdmit, hotChecked, h.live, hotLiveOf]
        · rw [hreqs]
          simp only [List.map_cons, List.nodup_cons]
          refine ⟨?_, h.nodup⟩
          intro hm
          obtain ⟨q', hq', e⟩ := List.mem_map.mp hm
          exact hu (e ▸ h.sub q' hq')
        · intro q' hq'
          rw [hreqs] at hq'
          rw [hused]
          rcases List.mem_cons.mp hq' with rfl | hq'
          · exact List.mem_cons_self ..
          · exact List.mem_cons_of_mem _ (h.sub q' hq')
      | some b =>
        rw [hd] at hreqs hhot
        simp only [reduceCtorEq, if_false] at hreqs hhot
        refine ⟨?_, by rw [hreqs]; exact h.nodup, ?_⟩
        · rw [hhot, hreqs]
          split_ifs
          · exact h.live
          · exact h.live
        · intro q' hq'
          rw [hreqs] at hq'
          rw [hused]
          exact List.mem_cons_of_mem _ (h.sub q' hq')

theorem hotLive_run (A : System.Arith R) (s : St R) (os : List (Op R)) (h : HotLive s) : HotLive (run A s os).1 := by
  induction os generalizing s with
  | nil => exact h
  | cons o os ih => exact ih _ (hotLive_step A s o h)

end stepHot

end Sentinel.Pipe
