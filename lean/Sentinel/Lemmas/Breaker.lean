import Mathlib.Tactic
import Sentinel.Lemmas.LeapArray
import Sentinel.Model.Breaker
/-!
# Breaker lemmas: the per-breaker leap array refines the bare history of completions

`R n L now a h` — the array `a` (geometry `n × L`) represents the history `h` at clock reading `now`:
the shared leap-array invariant `Inv` plus "slots of the future are empty".  `R` is monotone in
`now`, is established by `mk`, and is preserved by the two operations of `laOps` (`record_refines`,
`reset_refines`), which return exactly what `histOps` returns.
-/
namespace Sentinel.CB
open Sentinel.LA

@[ext] theorem Cnt.ext' {a b : Cnt} (h1 : a.bad = b.bad) (h2 : a.total = b.total) : a = b := by
  cases a; cases b; simp_all

@[simp] theorem add_bad (a b : Cnt) : (a + b).bad = a.bad + b.bad := rfl
@[simp] theorem add_total (a b : Cnt) : (a + b).total = a.total + b.total := rfl
@[simp] theorem zero_bad : (0 : Cnt).bad = 0 := rfl
@[simp] theorem zero_total : (0 : Cnt).total = 0 := rfl

instance : AddCommMonoid Cnt where
  add_assoc a b c := by ext <;> simp [Nat.add_assoc]
  zero_add a := by ext <;> simp
  add_zero a := by ext <;> simp
  add_comm a b := by ext <;> simp [Nat.add_comm]
  nsmul := nsmulRec

/-! ## leap-array facts -/

theorem inv_mono {a : Arr Cnt} {h : List (Nat × Cnt)} {t0 latest now : Nat} (inv : Inv a h t0 latest)
    (hle : latest ≤ now) : Inv a h t0 now :=
  ⟨inv.wf, le_trans inv.le0 hle,
   fun i hi => (inv.d i hi).imp (fun h => le_trans h (cbs_mono _ hle)) id,
   fun lo hi hlo => inv.e lo hi (lt_of_le_of_lt (cbs_mono _ hle) hlo)⟩

theorem sum_filter_readW (sl : List (Slot Cnt)) (p : Slot Cnt → Bool) (lo hi : Nat)
    (hp : ∀ s ∈ sl, p s = true ↔ (lo ≤ s.start ∧ s.start ≤ hi)) :
    ((sl.filter p).map (·.val)).sum = readW sl lo hi := by
  unfold readW
  induction sl with
  | nil => rfl
  | cons s r ih =>
    have ihr := ih (fun s hs => hp s (List.mem_cons_of_mem _ hs))
    have h1 := hp s (List.mem_cons_self ..)
    by_cases hw : lo ≤ s.start ∧ s.start ≤ hi
    · have hps : p s = true := h1.mpr hw
      simp only [List.filter_cons, hps, if_true, List.map_cons, List.sum_cons, hw, and_self, ihr]
    · have hps : p s = false := by
        cases hq : p s with
        | false => rfl
        | true => exact absurd (h1.mp hq) hw
      simp only [List.filter_cons, hps, Bool.false_eq_true, if_false, List.map_cons, List.sum_cons, hw, ihr, zero_add]

theorem readW_congr (sl : List (Slot Cnt)) (lo hi lo' hi' : Nat)
    (h : ∀ s ∈ sl, (lo ≤ s.start ∧ s.start ≤ hi) ↔ (lo' ≤ s.start ∧ s.start ≤ hi')) :
    readW sl lo hi = readW sl lo' hi' := by
  unfold readW
  congr 1
  apply List.map_congr_left
  intro s hs
  simp only [h s hs]

/-- `allCounter()` summed = the slots whose start lies in `[now - interval, now]` -/
theorem laTotal_eq_readW (a : Arr Cnt) (now : Nat) (h0 : now ≠ 0) :
    laTotal a now = readW a.slots (now - a.n * a.L) now := by
  unfold laTotal valuesAt
  simp only [h0, if_false]
  apply sum_filter_readW
  intro s _
  unfold deprecated
  by_cases h : s.start ≤ now
  · simp only [h, if_true, Bool.not_eq_true', decide_eq_false_iff_not, and_true]
    omega
  · simp only [h, if_false, Bool.not_true, Bool.false_eq_true, and_false]

theorem mem_slot_wf {a : Arr Cnt} (hw : WF a) {s : Slot Cnt} (hs : s ∈ a.slots) :
    ∃ i k, ∃ (hi : i < a.slots.length), a.slots[i] = s ∧ s.start = k * a.L ∧ k % a.n = i := by
  obtain ⟨i, hi, rfl⟩ := List.getElem_of_mem hs
  obtain ⟨k, hk, hkr⟩ := hw.2.2.2 i hi
  exact ⟨i, k, hi, rfl, hk, hkr⟩

/-- under the invariant the slot of the current index is never ahead of the current bucket -/
theorem idx_start_le (a : Arr Cnt) (h : List (Nat × Cnt)) (t0 latest t : Nat) (inv : Inv a h t0 latest)
    (hle : latest ≤ t) : (a.slots[idx a t]'(idx_lt a inv.wf t)).start ≤ cbs a.L t := by
  have hidx := idx_lt a inv.wf t
  by_contra hgt
  have hstep := (add_step a h t0 latest t 0 inv hle).2
  have hsome : a.slots[idx a t]? = some (a.slots[idx a t]) := List.getElem?_eq_getElem hidx
  unfold add at hstep
  simp only [hsome] at hstep
  have h1 : ¬ cbs a.L t = (a.slots[idx a t]).start := by omega
  have h2 : ¬ (a.slots[idx a t]).start < cbs a.L t := by omega
  simp only [h1, h2, if_false] at hstep
  by_cases hn : a.n = 1
  · -- a single slot: it is either old or the initial one
    obtain ⟨hL, _, _, hres⟩ := inv.wf
    have hcm := cbs_mono a.L hle
    have hcm0 := cbs_mono a.L inv.le0
    rcases inv.d _ hidx with hd | ⟨hd1, hd2⟩
    · omega
    · obtain ⟨k, hk, _⟩ := hres _ hidx
      rw [hn, one_mul] at hd2
      rw [hk, cbs_eq] at hd1 hd2
      have e1 : t0 / a.L ≤ k := Nat.le_of_mul_le_mul_right hd1 hL
      have e2 : k < t0 / a.L + 1 := by
        have : k * a.L < (t0 / a.L + 1) * a.L := by rw [Nat.add_mul, one_mul]; exact hd2
        exact Nat.lt_of_mul_lt_mul_right this
      have e3 : k = t0 / a.L := by omega
      have : (a.slots[idx a t]).start = cbs a.L t0 := by rw [hk, e3, cbs_eq]
      omega
  · simp [hn] at hstep

/-- what a successful `add` does: the current slot is (re)started at the current bucket -/
theorem add_shape (a : Arr Cnt) (h : List (Nat × Cnt)) (t0 latest t : Nat) (x : Cnt) (inv : Inv a h t0 latest)
    (hle : latest ≤ t) :
    ∃ v : Slot Cnt, v.start = cbs a.L t ∧ (add a t x).1 = { a with slots := a.slots.set (idx a t) v } := by
  have hidx := idx_lt a inv.wf t
  have hsome : a.slots[idx a t]? = some (a.slots[idx a t]) := List.getElem?_eq_getElem hidx
  have hle' := idx_start_le a h t0 latest t inv hle
  unfold add
  simp only [hsome]
  by_cases h1 : cbs a.L t = (a.slots[idx a t]).start
  · simp only [h1, if_true]
    exact ⟨{ (a.slots[idx a t]) with val := (a.slots[idx a t]).val + x }, rfl, rfl⟩
  · have h2 : (a.slots[idx a t]).start < cbs a.L t := by omega
    simp only [h1, h2, if_false, if_true]
    exact ⟨_, rfl, rfl⟩

/-- right after recording at `now`, the non-deprecated buckets are exactly the last `n` aligned buckets -/
theorem total_after_add (a : Arr Cnt) (h : List (Nat × Cnt)) (t0 latest now : Nat) (x : Cnt)
    (inv : Inv a h t0 latest) (hle : latest ≤ now) (h0 : now ≠ 0) :
    laTotal (add a now x).1 now = refW a.L (h ++ [(now, x)]) (winLo a.n a.L now) (cbs a.L now) := by
  have inv' := (add_step a h t0 latest now x inv hle).1
  obtain ⟨v, hv, hshape⟩ := add_shape a h t0 latest now x inv hle
  have hnL := add_nL a now x
  obtain ⟨hL, hn, hlen, hres⟩ := inv.wf
  have hidx := idx_lt a inv.wf now
  rw [laTotal_eq_readW _ _ h0, hnL.1, hnL.2]
  have he := inv'.e (winLo a.n a.L now) (cbs a.L now)
  rw [hnL.1, hnL.2] at he
  rw [← he (by unfold winLo; omega)]
  apply readW_congr
  intro s hs
  obtain ⟨j, k, hj, hsj, hk, hkr⟩ := mem_slot_wf inv'.wf hs
  rw [hnL.1] at hk
  rw [hnL.2] at hkr
  -- the slot of the current index starts at the current bucket
  have hcur : ((add a now x).1.slots[idx a now]'(by rw [hshape]; simpa using hidx)).start = cbs a.L now := by
    simp only [hshape, List.getElem_set_self, hv]
  set m := now / a.L with hm
  have hcbs : cbs a.L now = m * a.L := cbs_eq _ _
  have hlt : now < m * a.L + a.L := by
    have := Nat.lt_div_mul_add hL (a := now); rw [← hm] at this; omega
  have hge : m * a.L ≤ now := by rw [← hcbs]; unfold cbs; omega
  rw [hk]
  unfold winLo
  rw [hcbs]
  rcases Nat.lt_or_ge m k with hkm | hkm
  · have := Nat.mul_le_mul_right a.L (show m + 1 ≤ k from hkm)
    rw [Nat.add_mul, one_mul] at this
    omega
  · have hkm' := Nat.mul_le_mul_right a.L hkm
    rcases Nat.lt_trichotomy (k + a.n) m with hc | hc | hc
    · have := Nat.mul_le_mul_right a.L (show k + a.n + 1 ≤ m from hc)
      rw [Nat.add_mul, Nat.add_mul, one_mul] at this
      omega
    · -- a slot one full cycle behind the current bucket would share its index: impossible
      exfalso
      have hres' : k % a.n = m % a.n := by rw [← hc, Nat.add_mod_right]
      have hji : j = idx a now := by rw [← hkr, hres']; rfl
      subst hji
      have : s.start = cbs a.L now := by rw [← hsj]; exact hcur
      rw [hk, hcbs] at this
      have := Nat.eq_of_mul_eq_mul_right hL this
      omega
    · have := Nat.mul_le_mul_right a.L (show m + 1 ≤ k + a.n from hc)
      rw [Nat.add_mul, Nat.add_mul, one_mul] at this
      omega

/-! ## the refinement relation between the two stores -/

structure R (n L now : Nat) (a : Arr Cnt) (h : List (Nat × Cnt)) : Prop where
  hn : a.n = n
  hL : a.L = L
  inv : ∃ t0, Inv a h t0 now
  fz : ∀ s ∈ a.slots, cbs L now < s.start → s.val = 0

theorem R.mono {n L now now' : Nat} {a : Arr Cnt} {h : List (Nat × Cnt)} (r : R n L now a h) (hle : now ≤ now') :
    R n L now' a h := by
  obtain ⟨t0, inv⟩ := r.inv
  exact ⟨r.hn, r.hL, ⟨t0, inv_mono inv hle⟩, fun s hs hlt => r.fz s hs (lt_of_le_of_lt (cbs_mono _ hle) hlt)⟩

theorem mk_R (n L now : Nat) (hn : 0 < n) (hL : 0 < L) : R n L now (mk n L now : Arr Cnt) [] := by
  refine ⟨rfl, rfl, ⟨now, mk_inv n L now hn hL⟩, ?_⟩
  intro s hs _
  simp [mk] at hs
  obtain ⟨j, _, rfl⟩ := hs
  rfl

/-- `currentCounter()` + add + `allCounter()` on the array = append + filter-and-sum on the history -/
theorem record_refines (r : Rule) (now0 now : Nat) (a : Arr Cnt) (h : List (Nat × Cnt)) (x : Cnt)
    (rel : R r.n r.L now0 a h) (hle : now0 ≤ now) (h0 : 0 < now) :
    ∃ a' tot, (laOps r).record a now x = some (a', tot) ∧
      (histOps r).record h now x = some (h ++ [(now, x)], tot) ∧ R r.n r.L now a' (h ++ [(now, x)]) := by
  obtain ⟨t0, inv⟩ := rel.inv
  have hne : now ≠ 0 := by omega
  have hstep := add_step a h t0 now0 now x inv hle
  have htot := total_after_add a h t0 now0 now x inv hle hne
  obtain ⟨v, hv, hshape⟩ := add_shape a h t0 now0 now x inv hle
  have hnL := add_nL a now x
  refine ⟨(add a now x).1, laTotal (add a now x).1 now, ?_, ?_, ?_⟩
  · simp only [laOps, addAt, hne, if_false, hstep.2, if_true]
  · simp only [histOps, hne, if_false]
    rw [htot, rel.hn, rel.hL]
  · refine ⟨hnL.2.trans rel.hn, hnL.1.trans rel.hL, ⟨t0, hstep.1⟩, ?_⟩
    intro s hs hlt
    rw [hshape] at hs
    rcases List.mem_or_eq_of_mem_set hs with hs | hs
    · exact rel.fz s hs (lt_of_le_of_lt (cbs_mono _ hle) hlt)
    · rw [hs, hv, rel.hL] at hlt; omega

/-- `resetMetric()` on the array = forgetting the history -/
theorem reset_refines (n L now : Nat) (a : Arr Cnt) (h : List (Nat × Cnt)) (rel : R n L now a h) (h0 : 0 < now) :
    R n L now (laReset a now) [] := by
  obtain ⟨t0, inv⟩ := rel.inv
  have hne : now ≠ 0 := by omega
  obtain ⟨hL, hn, hlen, hres⟩ := inv.wf
  unfold laReset
  simp only [hne, if_false]
  set f : Slot Cnt → Slot Cnt := fun s => if deprecated (a.n * a.L) now s.start then s else { s with val := 0 } with hf
  have hstart : ∀ s, (f s).start = s.start := by intro s; simp only [hf]; split_ifs <;> rfl
  have hget : ∀ i (hi : i < (a.slots.map f).length), ((a.slots.map f)[i]).start = (a.slots[i]'(by simpa using hi)).start := by
    intro i hi; simp [hstart]
  refine ⟨rel.hn, rel.hL, ⟨t0, ⟨⟨hL, hn, by simpa using hlen, ?_⟩, inv.le0, ?_, ?_⟩⟩, ?_⟩
  · intro i hi
    have hi' : i < a.slots.length := by simpa using hi
    show ∃ k, ((a.slots.map f)[i]).start = k * a.L ∧ k % a.n = i
    rw [hget i hi]; exact hres i hi'
  · intro i hi
    have hi' : i < a.slots.length := by simpa using hi
    show ((a.slots.map f)[i]).start ≤ cbs a.L now ∨ _
    rw [hget i hi]; exact inv.d i hi'
  · intro lo hi hlo
    show readW (a.slots.map f) lo hi = refW a.L [] lo hi
    dsimp only at hlo
    have hz : refW a.L ([] : List (Nat × Cnt)) lo hi = 0 := by simp [refW]
    rw [hz]
    unfold readW
    apply List.sum_eq_zero
    intro y hy
    obtain ⟨s', hs', rfl⟩ := List.mem_map.mp hy
    obtain ⟨s, hs, rfl⟩ := List.mem_map.mp hs'
    rw [hstart]
    split_ifs with hw
    · simp only [hf]
      split_ifs with hd
      · unfold deprecated at hd
        by_cases hle : s.start ≤ now
        · exfalso
          simp only [hle, if_true, decide_eq_true_eq] at hd
          obtain ⟨_, k, _, _, hk, _⟩ := mem_slot_wf inv.wf hs
          have hcbs : cbs a.L now = now / a.L * a.L := cbs_eq _ _
          have hlt : now < now / a.L * a.L + a.L := by
            have := Nat.lt_div_mul_add hL (a := now); omega
          rcases Nat.lt_or_ge (k + a.n) (now / a.L + 1) with hc | hc
          · have : k + a.n ≤ now / a.L := by omega
            have := Nat.mul_le_mul_right a.L this
            rw [Nat.add_mul] at this
            omega
          · have := Nat.mul_le_mul_right a.L hc
            rw [Nat.add_mul, Nat.add_mul, one_mul] at this
            omega
        · refine rel.fz s hs ?_
          rw [← rel.hL]; unfold cbs; omega
      · rfl
    · rfl
  · intro s' hs' hlt
    obtain ⟨s, hs, rfl⟩ := List.mem_map.mp hs'
    rw [hstart] at hlt
    simp only [hf]
    split_ifs
    · exact rel.fz s hs hlt
    · rfl

/-! ## lifting the refinement to breakers, breaker lists and systems -/

abbrev Hist := List (Nat × Cnt)

structure RelB (now : Nat) (b1 : Brk (Arr Cnt)) (b2 : Brk Hist) : Prop where
  id : b1.id = b2.id
  rule : b1.rule = b2.rule
  st : b1.st = b2.st
  nr : b1.nextRetry = b2.nextRetry
  cp : b1.curProbe = b2.curProbe
  w : R b1.rule.n b1.rule.L now b1.w b2.w

theorem RelB.mono {now now' : Nat} {b1 : Brk (Arr Cnt)} {b2 : Brk Hist} (r : RelB now b1 b2) (hle : now ≤ now') :
    RelB now' b1 b2 := ⟨r.id, r.rule, r.st, r.nr, r.cp, r.w.mono hle⟩

theorem tryPass_rel {now : Nat} {b1 : Brk (Arr Cnt)} {b2 : Brk Hist} (rel : RelB now b1 b2) (t : Nat) :
    (tryPass b1 t).2 = (tryPass b2 t).2 ∧ RelB now (tryPass b1 t).1 (tryPass b2 t).1 := by
  obtain ⟨id1, rule1, st1, nr1, cp1, a⟩ := b1
  obtain ⟨id2, rule2, st2, nr2, cp2, h⟩ := b2
  obtain ⟨e1, e2, e3, e4, e5, hw⟩ := rel
  dsimp only at e1 e2 e3 e4 e5 hw
  subst e1 e2 e3 e4 e5
  unfold tryPass
  cases st1 <;> dsimp only
  · exact ⟨rfl, ⟨rfl, rfl, rfl, rfl, rfl, hw⟩⟩
  · exact ⟨rfl, ⟨rfl, rfl, rfl, rfl, rfl, hw⟩⟩
  · split_ifs
    · exact ⟨rfl, ⟨rfl, rfl, rfl, rfl, rfl, hw⟩⟩
    · exact ⟨rfl, ⟨rfl, rfl, rfl, rfl, rfl, hw⟩⟩

theorem onComplete_rel {now0 : Nat} {b1 : Brk (Arr Cnt)} {b2 : Brk Hist} (rel : RelB now0 b1 b2)
    (now rt : Nat) (err : Bool) (hle : now0 ≤ now) (h0 : 0 < now) :
    (onComplete laOps b1 now rt err).2 = (onComplete histOps b2 now rt err).2 ∧
      RelB now (onComplete laOps b1 now rt err).1 (onComplete histOps b2 now rt err).1 := by
  obtain ⟨id1, rule1, st1, nr1, cp1, a⟩ := b1
  obtain ⟨id2, rule2, st2, nr2, cp2, h⟩ := b2
  obtain ⟨e1, e2, e3, e4, e5, hw⟩ := rel
  dsimp only at e1 e2 e3 e4 e5 hw
  subst e1 e2 e3 e4 e5
  obtain ⟨a', tot, hr1, hr2, hR⟩ := record_refines rule1 now0 now a h
    { bad := if isBad rule1 rt err = true then 1 else 0, total := 1 } hw hle h0
  unfold onComplete
  dsimp only
  rw [hr1, hr2]
  dsimp only
  generalize ({ bad := if isBad rule1 rt err = true then 1 else 0, total := 1 } : Cnt) = x at hR ⊢
  cases st1 <;> dsimp only <;> (try split_ifs) <;>
    first
    | exact ⟨rfl, ⟨rfl, rfl, rfl, rfl, rfl, hR⟩⟩
    | exact ⟨rfl, ⟨rfl, rfl, rfl, rfl, rfl, reset_refines _ _ _ _ _ hR h0⟩⟩

/-- relation between the `(breaker, hooked)` lists that `checkPass` returns -/
def RelP (now : Nat) (p : Brk (Arr Cnt) × Bool) (q : Brk Hist × Bool) : Prop := RelB now p.1 q.1 ∧ p.2 = q.2

theorem checkPass_rel (res : String) (now t : Nat) {l1 : List (Brk (Arr Cnt))} {l2 : List (Brk Hist)}
    (h : List.Forall₂ (RelB now) l1 l2) :
    (checkPass res t l1).2 = (checkPass res t l2).2 ∧
      List.Forall₂ (RelP now) (checkPass res t l1).1 (checkPass res t l2).1 := by
  induction h with
  | nil => exact ⟨rfl, List.Forall₂.nil⟩
  | @cons b1 b2 r1 r2 hb hr ih =>
    have hres : b2.rule.res = b1.rule.res := by rw [hb.rule]
    obtain ⟨ht2, htr⟩ := tryPass_rel hb t
    have ht_pass : (tryPass b2 t).2.1 = (tryPass b1 t).2.1 := by rw [ht2]
    have ht_trs : (tryPass b2 t).2.2.1 = (tryPass b1 t).2.2.1 := by rw [ht2]
    have ht_hook : (tryPass b2 t).2.2.2 = (tryPass b1 t).2.2.2 := by rw [ht2]
    have hid : b2.id = b1.id := hb.id.symm
    simp only [checkPass]
    rw [hres, ht_pass, ht_trs, ht_hook, hid]
    by_cases hr0 : b1.rule.res = res
    · rw [if_pos hr0, if_pos hr0]
      by_cases hp : (tryPass b1 t).2.1 = true
      · rw [if_pos hp, if_pos hp]
        refine ⟨?_, List.Forall₂.cons ⟨htr, rfl⟩ ih.2⟩
        dsimp only
        rw [ih.1]
      · rw [if_neg hp, if_neg hp]
        refine ⟨rfl, List.Forall₂.cons ⟨htr, rfl⟩ ?_⟩
        rw [List.forall₂_map_left_iff, List.forall₂_map_right_iff]
        exact List.Forall₂.imp (fun _ _ hab => ⟨hab, rfl⟩) hr
    · rw [if_neg hr0, if_neg hr0]
      refine ⟨?_, List.Forall₂.cons ⟨hb, rfl⟩ ih.2⟩
      dsimp only
      rw [ih.1]

theorem rollback_rel (now : Nat) {l1 : List (Brk (Arr Cnt) × Bool)} {l2 : List (Brk Hist × Bool)}
    (h : List.Forall₂ (RelP now) l1 l2) :
    (rollback l1).2 = (rollback l2).2 ∧ List.Forall₂ (RelB now) (rollback l1).1 (rollback l2).1 := by
  induction h with
  | nil => exact ⟨rfl, List.Forall₂.nil⟩
  | @cons p q r1 r2 hb hr ih =>
    obtain ⟨⟨id1, rule1, st1, nr1, cp1, a⟩, k1⟩ := p
    obtain ⟨⟨id2, rule2, st2, nr2, cp2, h⟩, k2⟩ := q
    obtain ⟨⟨e1, e2, e3, e4, e5, hw⟩, hk⟩ := hb
    dsimp only at e1 e2 e3 e4 e5 hw hk
    subst e1 e2 e3 e4 e5 hk
    simp only [rollback]
    rw [← ih.1]
    split_ifs
    · exact ⟨rfl, List.Forall₂.cons ⟨rfl, rfl, rfl, rfl, rfl, hw⟩ ih.2⟩
    · exact ⟨rfl, List.Forall₂.cons ⟨rfl, rfl, rfl, rfl, rfl, hw⟩ ih.2⟩

theorem completeAll_rel (res : String) (now0 now rt : Nat) (err : Bool) (hle : now0 ≤ now) (h0 : 0 < now)
    {l1 : List (Brk (Arr Cnt))} {l2 : List (Brk Hist)} (h : List.Forall₂ (RelB now0) l1 l2) :
    (completeAll laOps res now rt err l1).2 = (completeAll histOps res now rt err l2).2 ∧
      List.Forall₂ (RelB now) (completeAll laOps res now rt err l1).1 (completeAll histOps res now rt err l2).1 := by
  induction h with
  | nil => exact ⟨rfl, List.Forall₂.nil⟩
  | @cons b1 b2 r1 r2 hb hr ih =>
    have hres : b2.rule.res = b1.rule.res := by rw [hb.rule]
    obtain ⟨hc2, hcr⟩ := onComplete_rel hb now rt err hle h0
    have hid : b2.id = b1.id := hb.id.symm
    simp only [completeAll]
    rw [hres, ← hc2, hid, ← ih.1]
    by_cases hr0 : b1.rule.res = res
    · rw [if_pos hr0, if_pos hr0]
      exact ⟨rfl, List.Forall₂.cons hcr ih.2⟩
    · rw [if_neg hr0, if_neg hr0]
      exact ⟨rfl, List.Forall₂.cons (hb.mono hle) ih.2⟩

theorem rule_geometry_pos (r : Rule) (h : 0 < r.statI) : 0 < r.n ∧ 0 < r.L := by
  unfold Rule.L Rule.n
  split_ifs with hc
  · exact ⟨Nat.one_pos, by simpa using h⟩
  · have hb : r.buckets ≠ 0 := fun h0 => hc (Or.inl h0)
    have hd : r.statI % r.buckets = 0 := by
      by_contra h1; exact hc (Or.inr h1)
    have hbpos : 0 < r.buckets := Nat.pos_of_ne_zero hb
    have hdvd : r.buckets ∣ r.statI := Nat.dvd_of_mod_eq_zero hd
    exact ⟨hbpos, Nat.div_pos (Nat.le_of_dvd h hdvd) hbpos⟩

theorem new_rel (id : Nat) (r : Rule) (now : Nat) (h : 0 < r.statI) : RelB now (Brk.new id r now) (Brk.newAbs id r) := by
  obtain ⟨hn, hL⟩ := rule_geometry_pos r h
  exact ⟨rfl, rfl, rfl, rfl, rfl, mk_R _ _ _ hn hL⟩

/-! ### rule (re)loading -/

/-- stat-reusable rules have the same window geometry -/
theorem geometry_of_statReusable {o n : Rule} (h : o.statReusable n = true) : o.n = n.n ∧ o.L = n.L := by
  unfold Rule.statReusable at h
  simp only [Bool.and_eq_true, beq_iff_eq] at h
  obtain ⟨⟨⟨_, _⟩, h3⟩, h4⟩ := h
  unfold Rule.L Rule.n
  rw [h3, h4]
  exact ⟨rfl, rfl⟩

theorem forall₂_eraseIdx {α β : Type} {R : α → β → Prop} {l1 : List α} {l2 : List β} (h : List.Forall₂ R l1 l2) (i : Nat) :
    List.Forall₂ R (l1.eraseIdx i) (l2.eraseIdx i) := by
  induction h generalizing i with
  | nil => exact List.Forall₂.nil
  | cons hab _ ih =>
    cases i with
    | zero => simpa using ‹List.Forall₂ R _ _›
    | succ j => simpa using List.Forall₂.cons hab (ih j)

theorem forall₂_getElem? {α β : Type} {R : α → β → Prop} {l1 : List α} {l2 : List β} (h : List.Forall₂ R l1 l2) (i : Nat) :
    (l1[i]? = none ∧ l2[i]? = none) ∨ ∃ a b, l1[i]? = some a ∧ l2[i]? = some b ∧ R a b := by
  induction h generalizing i with
  | nil => exact Or.inl ⟨rfl, rfl⟩
  | @cons a b r1 r2 hab _ ih =>
    cases i with
    | zero => exact Or.inr ⟨a, b, rfl, rfl, hab⟩
    | succ j => simpa using ih j

theorem forall₂_filter {α β : Type} {R : α → β → Prop} {l1 : List α} {l2 : List β} (h : List.Forall₂ R l1 l2)
    (p : α → Bool) (q : β → Bool) (hpq : ∀ a b, R a b → p a = q b) :
    List.Forall₂ R (l1.filter p) (l2.filter q) := by
  induction h with
  | nil => exact List.Forall₂.nil
  | @cons a b r1 r2 hab _ ih =>
    simp only [List.filter_cons, ← hpq a b hab]
    split_ifs
    · exact List.Forall₂.cons hab ih
    · exact ih

theorem forall₂_append' {α β : Type} {R : α → β → Prop} {l1 l3 : List α} {l2 l4 : List β} (h : List.Forall₂ R l1 l2)
    (h' : List.Forall₂ R l3 l4) : List.Forall₂ R (l1 ++ l3) (l2 ++ l4) := by
  induction h with
  | nil => exact h'
  | cons hab _ ih => exact List.Forall₂.cons hab ih

theorem reuseIdx_rel {now : Nat} (r : Rule) {l1 : List (Brk (Arr Cnt))} {l2 : List (Brk Hist)}
    (h : List.Forall₂ (RelB now) l1 l2) (i : Nat) (acc : Option Nat) : reuseIdx r l1 i acc = reuseIdx r l2 i acc := by
  induction h generalizing i acc with
  | nil => rfl
  | cons hab _ ih =>
    simp only [reuseIdx, hab.rule]
    split_ifs
    · rfl
    · exact ih _ _
    · exact ih _ _

/-- the stat index returned by `calculateReuseIndexFor` points at a stat-reusable old breaker -/
theorem reuseIdx_sr {W : Type} (r : Rule) (l : List (Brk W)) (i : Nat) (acc e : Option Nat) (j : Nat)
    (h : reuseIdx r l i acc = (e, some j)) :
    acc = some j ∨ (i ≤ j ∧ ∃ c, l[j - i]? = some c ∧ c.rule.statReusable r = true) := by
  induction l generalizing i acc with
  | nil => simp only [reuseIdx, Prod.mk.injEq] at h; exact Or.inl h.2
  | cons c cs ih =>
    simp only [reuseIdx] at h
    split_ifs at h with h1 h2
    · simp only [Prod.mk.injEq] at h; exact Or.inl h.2
    · rcases ih _ _ h with hacc | ⟨hle, c', hc', hsr⟩
      · simp only [Option.some.injEq] at hacc
        subst hacc
        simp only [Bool.and_eq_true] at h2
        exact Or.inr ⟨le_refl _, c, by simp, h2.1⟩
      · refine Or.inr ⟨by omega, c', ?_, hsr⟩
        have : j - i = (j - (i + 1)) + 1 := by omega
        rw [this]; simpa using hc'
    · rcases ih _ _ h with hacc | ⟨hle, c', hc', hsr⟩
      · exact Or.inl hacc
      · refine Or.inr ⟨by omega, c', ?_, hsr⟩
        have : j - i = (j - (i + 1)) + 1 := by omega
        rw [this]; simpa using hc'

theorem build_rel (now : Nat) (rules : List Rule) (hv : ∀ r ∈ rules, 0 < r.statI)
    {l1 : List (Brk (Arr Cnt))} {l2 : List (Brk Hist)} (h : List.Forall₂ (RelB now) l1 l2) (next : Nat) :
    List.Forall₂ (RelB now) (build laOps now rules l1 next) (build histOps now rules l2 next) := by
  induction rules generalizing l1 l2 next with
  | nil => exact List.Forall₂.nil
  | cons r rs ih =>
    have hvr := hv r (List.mem_cons_self ..)
    have hvs : ∀ q ∈ rs, 0 < q.statI := fun q hq => hv q (List.mem_cons_of_mem _ hq)
    simp only [build]
    rw [← reuseIdx_rel r h 0 none]
    rcases hre : reuseIdx r l1 0 none with ⟨e, j⟩
    cases e with
    | some i =>
      dsimp only
      rcases forall₂_getElem? h i with ⟨h1, h2⟩ | ⟨a, b, h1, h2, hab⟩
      · rw [h1, h2]; exact ih hvs h _
      · rw [h1, h2]; exact List.Forall₂.cons hab (ih hvs (forall₂_eraseIdx h i) _)
    | none =>
      cases j with
      | none =>
        dsimp only
        obtain ⟨hn, hL⟩ := rule_geometry_pos r hvr
        exact List.Forall₂.cons ⟨rfl, rfl, rfl, rfl, rfl, mk_R _ _ _ hn hL⟩ (ih hvs h _)
      | some j =>
        dsimp only
        rcases forall₂_getElem? h j with ⟨h1, h2⟩ | ⟨a, b, h1, h2, hab⟩
        · rw [h1, h2]; exact ih hvs h _
        · rw [h1, h2]
          refine List.Forall₂.cons ⟨rfl, rfl, rfl, rfl, rfl, ?_⟩ (ih hvs (forall₂_eraseIdx h j) _)
          rcases reuseIdx_sr r l1 0 none none j hre with hacc | ⟨_, c, hc, hsr⟩
          · cases hacc
          · simp only [Nat.sub_zero] at hc
            rw [h1] at hc
            cases hc
            obtain ⟨g1, g2⟩ := geometry_of_statReusable hsr
            have hw := hab.w
            rw [g1, g2] at hw
            exact hw

structure RelS (s1 : Sys (Arr Cnt)) (s2 : Sys Hist) : Prop where
  now : s1.now = s2.now
  pos : 0 < s1.now
  live : s1.live = s2.live
  next : s1.next = s2.next
  brs : List.Forall₂ (RelB s1.now) s1.brs s2.brs

/-- the clock never goes backwards along the history -/
def Timed : Nat → List Op → Prop
  | _, [] => True
  | now, .clock t :: r => now ≤ t ∧ Timed t r
  | now, _ :: r => Timed now r

theorem step_rel {s1 : Sys (Arr Cnt)} {s2 : Sys Hist} (rel : RelS s1 s2) (o : Op)
    (hclk : ∀ t, o = .clock t → s1.now ≤ t) (hv : ∀ r ∈ o.rules, 0 < r.statI) :
    (step laOps s1 o).2 = (step histOps s2 o).2 ∧ RelS (step laOps s1 o).1 (step histOps s2 o).1 := by
  obtain ⟨now1, brs1, live1, next1⟩ := s1
  obtain ⟨now2, brs2, live2, next2⟩ := s2
  obtain ⟨hnow, hpos, hlive, hnext, hbrs⟩ := rel
  dsimp only at hnow hpos hlive hnext hbrs hclk
  subst hnow hlive hnext
  cases o with
  | clock t =>
    have hle := hclk t rfl
    exact ⟨rfl, ⟨rfl, lt_of_lt_of_le hpos hle, rfl, rfl, List.Forall₂.imp (fun _ _ hab => hab.mono hle) hbrs⟩⟩
  | entry id res batch =>
    obtain ⟨hc2, hcr⟩ := checkPass_rel res now1 now1 hbrs
    have hdec : (checkPass res now1 brs2).2.1 = (checkPass res now1 brs1).2.1 := by rw [hc2]
    have hevs : (checkPass res now1 brs2).2.2 = (checkPass res now1 brs1).2.2 := by rw [hc2]
    simp only [step, doEntry]
    rw [hdec, hevs]
    cases hd : (checkPass res now1 brs1).2.1 with
    | none =>
      dsimp only
      refine ⟨rfl, ⟨rfl, hpos, rfl, rfl, ?_⟩⟩
      dsimp only
      rw [List.forall₂_map_left_iff, List.forall₂_map_right_iff]
      exact List.Forall₂.imp (fun _ _ hab => hab.1) hcr
    | some k =>
      dsimp only
      obtain ⟨hr2, hrr⟩ := rollback_rel now1 hcr
      rw [← hr2]
      exact ⟨rfl, ⟨rfl, hpos, rfl, rfl, hrr⟩⟩
  | exit id err =>
    simp only [step, doExit]
    cases hf : live1.find? (fun x => decide (x.id = id)) with
    | none => exact ⟨rfl, ⟨rfl, hpos, rfl, rfl, hbrs⟩⟩
    | some e =>
      dsimp only
      obtain ⟨hc2, hcr⟩ := completeAll_rel e.res now1 now1 (now1 - e.start) err (le_refl _) hpos hbrs
      rw [← hc2]
      exact ⟨rfl, ⟨rfl, hpos, rfl, rfl, hcr⟩⟩
  | load rules =>
    exact ⟨rfl, ⟨rfl, hpos, rfl, rfl, build_rel now1 rules hv hbrs next1⟩⟩
  | loadRes res rules =>
    refine ⟨rfl, ⟨rfl, hpos, rfl, rfl, ?_⟩⟩
    apply forall₂_append'
    · exact forall₂_filter hbrs _ _ (fun a b hab => by rw [hab.rule])
    · exact build_rel now1 rules hv (forall₂_filter hbrs _ _ (fun a b hab => by rw [hab.rule])) next1

theorem step_now {W : Type} (ops : Rule → WinOps W) (s : Sys W) (o : Op) :
    (step ops s o).1.now = match o with | .clock t => t | _ => s.now := by
  cases o with
  | clock t => rfl
  | entry id res batch => simp only [step, doEntry]; split <;> rfl
  | exit id err => simp only [step, doExit]; split <;> rfl
  | load rules => rfl
  | loadRes res rules => rfl

theorem run_rel {s1 : Sys (Arr Cnt)} {s2 : Sys Hist} (rel : RelS s1 s2) (ops : List Op) (ht : Timed s1.now ops)
    (hv : ∀ o ∈ ops, ∀ r ∈ o.rules, 0 < r.statI) :
    (run laOps s1 ops).2 = (run histOps s2 ops).2 ∧ RelS (run laOps s1 ops).1 (run histOps s2 ops).1 := by
  induction ops generalizing s1 s2 with
  | nil => exact ⟨rfl, rel⟩
  | cons o os ih =>
    have hclk : ∀ t, o = .clock t → s1.now ≤ t := by
      intro t ht'; subst ht'; exact ht.1
    obtain ⟨h2, hr⟩ := step_rel rel o hclk (hv o (List.mem_cons_self ..))
    have ht' : Timed (step laOps s1 o).1.now os := by
      rw [step_now]
      cases o with
      | clock t => exact ht.2
      | entry id res batch => exact ht
      | exit id err => exact ht
      | load rules => exact ht
      | loadRes res rules => exact ht
    obtain ⟨i2, ir⟩ := ih hr ht' (fun o ho => hv o (List.mem_cons_of_mem _ ho))
    simp only [run]
    exact ⟨by rw [h2, i2], ir⟩

/-! ## the listener log is a legal walk -/

section walks
variable {W : Type}

theorem walk_append (s : St) (a b : List Tr) (s' : St) (h : walk s a = some s') : walk s (a ++ b) = walk s' b := by
  induction a generalizing s with
  | nil => simp [walk] at h; subst h; rfl
  | cons t ts ih =>
    simp only [walk, List.cons_append] at h ⊢
    cases ht : applyTr s t with
    | none => simp [ht] at h
    | some s1 => simp only [ht] at h ⊢; exact ih s1 h

theorem tryPass_walk (b : Brk W) (t : Nat) :
    (tryPass b t).1.id = b.id ∧ (tryPass b t).1.rule = b.rule ∧ walk b.st (tryPass b t).2.2.1 = some (tryPass b t).1.st := by
  unfold tryPass
  cases hst : b.st <;> dsimp only
  · exact ⟨rfl, rfl, by simp [walk, hst]⟩
  · exact ⟨rfl, rfl, by simp [walk, hst]⟩
  · split_ifs
    · exact ⟨rfl, rfl, by simp [walk, applyTr]⟩
    · exact ⟨rfl, rfl, by simp [walk, hst]⟩

theorem onComplete_walk (ops : Rule → WinOps W) (b : Brk W) (now rt : Nat) (err : Bool) :
    (onComplete ops b now rt err).1.id = b.id ∧ (onComplete ops b now rt err).1.rule = b.rule ∧
      walk b.st (onComplete ops b now rt err).2 = some (onComplete ops b now rt err).1.st := by
  unfold onComplete
  dsimp only
  cases (ops b.rule).record b.w now { bad := if isBad b.rule rt err = true then 1 else 0, total := 1 } with
  | none => exact ⟨rfl, rfl, rfl⟩
  | some p =>
    dsimp only
    cases hst : b.st <;> dsimp only <;> (try split_ifs) <;>
      refine ⟨rfl, rfl, ?_⟩ <;> simp [walk, applyTr, hst]

/-- `l'` arises from `l` by local steps of the individual breakers, each emitting callbacks under its own
    id that form a walk from its old to its new state; `evs` is the concatenation in list order -/
inductive LocalSteps : List (Brk W) → List (Brk W) → List Ev → Prop
  | nil : LocalSteps [] [] []
  | cons {b b' : Brk W} {trs : List Tr} {l l' : List (Brk W)} {evs : List Ev} :
      b'.id = b.id → b'.rule = b.rule → walk b.st trs = some b'.st → LocalSteps l l' evs →
      LocalSteps (b :: l) (b' :: l') (trs.map (Ev.mk b.id) ++ evs)

theorem LocalSteps.refl (l : List (Brk W)) : LocalSteps l l [] := by
  induction l with
  | nil => exact .nil
  | cons b l ih => exact LocalSteps.cons (trs := []) rfl rfl rfl ih

theorem LocalSteps.ids {l l' : List (Brk W)} {evs : List Ev} (h : LocalSteps l l' evs) :
    l'.map (·.id) = l.map (·.id) := by
  induction h with
  | nil => rfl
  | cons h1 _ _ _ ih => simp only [List.map_cons, h1, ih]

theorem checkPass_local (res : String) (t : Nat) (l : List (Brk W)) :
    LocalSteps l ((checkPass res t l).1.map (·.1)) (checkPass res t l).2.2 := by
  induction l with
  | nil => exact .nil
  | cons b bs ih =>
    obtain ⟨h1, h2, h3⟩ := tryPass_walk b t
    simp only [checkPass]
    by_cases hr0 : b.rule.res = res
    · rw [if_pos hr0]
      by_cases hp : (tryPass b t).2.1 = true
      · rw [if_pos hp]
        exact LocalSteps.cons h1 h2 h3 ih
      · rw [if_neg hp]
        have := LocalSteps.cons h1 h2 h3 (LocalSteps.refl bs)
        simpa [Function.comp_def] using this
    · rw [if_neg hr0]
      exact LocalSteps.cons (trs := []) rfl rfl rfl ih

theorem rollback_local (lp : List (Brk W × Bool)) :
    LocalSteps (lp.map (·.1)) (rollback lp).1 (rollback lp).2 := by
  induction lp with
  | nil => exact .nil
  | cons p r ih =>
    obtain ⟨b, hk⟩ := p
    simp only [rollback, List.map_cons]
    split_ifs with hc
    · exact LocalSteps.cons (trs := [.toOpen .halfOpen .rollback]) rfl rfl (by simp [walk, applyTr, hc.2]) ih
    · exact LocalSteps.cons (trs := []) rfl rfl rfl ih

theorem completeAll_local (ops : Rule → WinOps W) (res : String) (now rt : Nat) (err : Bool) (l : List (Brk W)) :
    LocalSteps l (completeAll ops res now rt err l).1 (completeAll ops res now rt err l).2 := by
  induction l with
  | nil => exact .nil
  | cons b bs ih =>
    obtain ⟨h1, h2, h3⟩ := onComplete_walk ops b now rt err
    simp only [completeAll]
    split_ifs
    · exact LocalSteps.cons h1 h2 h3 ih
    · exact LocalSteps.cons (trs := []) rfl rfl rfl ih

theorem upd_self (m : Nat → St) (k : Nat) : upd m k (m k) = m := by
  funext j; unfold upd; split_ifs with h
  · rw [h]
  · rfl

theorem upd_upd (m : Nat → St) (k : Nat) (s1 s2 : St) : upd (upd m k s1) k s2 = upd m k s2 := by
  funext j; unfold upd; split_ifs <;> rfl

theorem replay_tagged (m : Nat → St) (k : Nat) (trs : List Tr) (s' : St) (h : walk (m k) trs = some s') :
    replay m (trs.map (Ev.mk k)) = some (upd m k s') := by
  induction trs generalizing m with
  | nil =>
    simp only [walk, Option.some.injEq] at h
    subst h
    simp [replay, upd_self]
  | cons t ts ih =>
    simp only [walk] at h
    simp only [List.map_cons, replay]
    cases ht : applyTr (m k) t with
    | none => simp [ht] at h
    | some s1 =>
      simp only [ht] at h ⊢
      have : walk ((upd m k s1) k) ts = some s' := by simpa [upd] using h
      rw [ih (upd m k s1) this, upd_upd]

theorem replay_append (m : Nat → St) (a b : List Ev) :
    replay m (a ++ b) = (replay m a).bind fun m' => replay m' b := by
  induction a generalizing m with
  | nil => rfl
  | cons e es ih =>
    simp only [List.cons_append, replay]
    cases applyTr (m e.id) e.tr with
    | none => rfl
    | some s' => exact ih _

/-- the map agrees with the breakers' states -/
def Agree (m : Nat → St) (l : List (Brk W)) : Prop := ∀ b ∈ l, m b.id = b.st

theorem replay_local {l l' : List (Brk W)} {evs : List Ev} (h : LocalSteps l l' evs) (m : Nat → St)
    (nd : (l.map (·.id)).Nodup) (ag : Agree m l) :
    ∃ m', replay m evs = some m' ∧ Agree m' l' ∧ ∀ k, k ∉ l.map (·.id) → m' k = m k := by
  induction h generalizing m with
  | nil => exact ⟨m, rfl, fun _ hb => by simp at hb, fun _ _ => rfl⟩
  | @cons b b' trs l l' evs h1 h2 h3 hl ih =>
    simp only [List.map_cons, List.nodup_cons] at nd
    obtain ⟨hnot, ndl⟩ := nd
    have hb : m b.id = b.st := ag b (List.mem_cons_self ..)
    have hrt := replay_tagged m b.id trs b'.st (by rw [hb]; exact h3)
    have ag1 : Agree (upd m b.id b'.st) l := by
      intro c hc
      have hne : c.id ≠ b.id := by
        intro he; apply hnot; rw [← he]; exact List.mem_map_of_mem hc
      simp only [upd, hne, if_false]
      exact ag c (List.mem_cons_of_mem _ hc)
    obtain ⟨m', hm', agm', frm⟩ := ih (upd m b.id b'.st) ndl ag1
    refine ⟨m', ?_, ?_, ?_⟩
    · rw [replay_append, hrt]; exact hm'
    · intro c hc
      rcases List.mem_cons.mp hc with rfl | hc
      · rw [h1, frm b.id hnot]; simp [upd]
      · exact agm' c hc
    · intro k hk
      simp only [List.map_cons, List.mem_cons, not_or] at hk
      rw [frm k hk.2]
      simp [upd, hk.1]

/-- one op of the system other than a (re)load: breakers take local steps, callbacks as shown in the output -/
theorem step_local (ops : Rule → WinOps W) (s : Sys W) (o : Op) (hno : o.rules = [] ∧ ∀ rs, o ≠ .load rs ∧ ∀ x, o ≠ .loadRes x rs) :
    ∃ mid e1 e2, (step ops s o).2.evs = e1 ++ e2 ∧ LocalSteps s.brs mid e1 ∧ LocalSteps mid (step ops s o).1.brs e2 ∧
      (step ops s o).1.next = s.next := by
  cases o with
  | clock t => exact ⟨s.brs, [], [], rfl, LocalSteps.refl _, LocalSteps.refl _, rfl⟩
  | entry id res batch =>
    simp only [step, doEntry]
    cases hd : (checkPass res s.now s.brs).2.1 with
    | none =>
      exact ⟨_, _, [], (List.append_nil _).symm, checkPass_local res s.now s.brs, LocalSteps.refl _, rfl⟩
    | some k =>
      exact ⟨_, _, _, rfl, checkPass_local res s.now s.brs, rollback_local _, rfl⟩
  | exit id err =>
    simp only [step, doExit]
    cases hf : s.live.find? (fun x => decide (x.id = id)) with
    | none => exact ⟨s.brs, [], [], rfl, LocalSteps.refl _, LocalSteps.refl _, rfl⟩
    | some e =>
      exact ⟨_, _, [], (List.append_nil _).symm, completeAll_local ops e.res s.now _ err s.brs, LocalSteps.refl _, rfl⟩
  | load rules => exact absurd rfl (hno.2 rules).1
  | loadRes res rules => exact absurd rfl ((hno.2 rules).2 res)

/-! ### (re)loads: who is in the new breaker list -/

theorem getElem?_mem' {α : Type} {l : List α} {i : Nat} {c : α} (h : l[i]? = some c) : c ∈ l := by
  obtain ⟨hi, rfl⟩ := List.getElem?_eq_some_iff.mp h
  exact List.getElem_mem hi

theorem mem_eraseIdx_ne {α : Type} (f : α → Nat) {l : List α} (nd : (l.map f).Nodup) {i : Nat} {c : α}
    (hc : l[i]? = some c) {b : α} (hb : b ∈ l.eraseIdx i) : f b ≠ f c := by
  induction l generalizing i with
  | nil => simp at hc
  | cons a r ih =>
    simp only [List.map_cons, List.nodup_cons] at nd
    cases i with
    | zero =>
      simp only [List.getElem?_cons_zero, Option.some.injEq] at hc
      subst hc
      simp only [List.eraseIdx_cons_zero] at hb
      intro he; exact nd.1 (by rw [← he]; exact List.mem_map_of_mem hb)
    | succ j =>
      simp only [List.getElem?_cons_succ] at hc
      simp only [List.eraseIdx_cons_succ, List.mem_cons] at hb
      rcases hb with rfl | hb
      · intro he; exact nd.1 (by rw [he]; exact List.mem_map_of_mem (getElem?_mem' hc))
      · exact ih nd.2 hc hb

theorem nodup_eraseIdx {α : Type} (f : α → Nat) {l : List α} (nd : (l.map f).Nodup) (i : Nat) :
    ((l.eraseIdx i).map f).Nodup :=
  nd.sublist ((List.eraseIdx_sublist l i).map f)

/-- every breaker after a (re)load is an old one (kept as it was) or a new, closed one with a fresh identity -/
theorem build_mem (ops : Rule → WinOps W) (now : Nat) (rules : List Rule) (old : List (Brk W)) (next : Nat) :
    ∀ b ∈ build ops now rules old next,
      b ∈ old ∨ (next ≤ b.id ∧ b.id < next + rules.length ∧ b.st = .closed ∧ b.curProbe = 0) := by
  induction rules generalizing old next with
  | nil => intro b hb; simp [build] at hb
  | cons r rs ih =>
    intro b hb
    simp only [build] at hb
    have lift : ∀ (old' : List (Brk W)), (∀ x ∈ old', x ∈ old) → b ∈ build ops now rs old' (next+1) →
        b ∈ old ∨ (next ≤ b.id ∧ b.id < next + (r :: rs).length ∧ b.st = .closed ∧ b.curProbe = 0) := by
      intro old' hsub hb'
      rcases ih old' (next+1) b hb' with h | ⟨h1, h2, h3, h4⟩
      · exact Or.inl (hsub b h)
      · exact Or.inr ⟨by omega, by simp only [List.length_cons]; omega, h3, h4⟩
    rcases hre : reuseIdx r old 0 none with ⟨e, j⟩
    rw [hre] at hb
    cases e with
    | some i =>
      dsimp only at hb
      cases hc : old[i]? with
      | none => rw [hc] at hb; exact lift old (fun _ h => h) hb
      | some c =>
        rw [hc] at hb
        rcases List.mem_cons.mp hb with rfl | hb'
        · exact Or.inl (getElem?_mem' hc)
        · exact lift _ (fun x hx => List.mem_of_mem_eraseIdx hx) hb'
    | none =>
      cases j with
      | none =>
        dsimp only at hb
        rcases List.mem_cons.mp hb with rfl | hb'
        · exact Or.inr ⟨le_refl _, by simp, rfl, rfl⟩
        · exact lift old (fun _ h => h) hb'
      | some j =>
        dsimp only at hb
        cases hc : old[j]? with
        | none => rw [hc] at hb; exact lift old (fun _ h => h) hb
        | some c =>
          rw [hc] at hb
          rcases List.mem_cons.mp hb with rfl | hb'
          · exact Or.inr ⟨le_refl _, by simp, rfl, rfl⟩
          · exact lift _ (fun x hx => List.mem_of_mem_eraseIdx hx) hb'

theorem build_nodup (ops : Rule → WinOps W) (now : Nat) (rules : List Rule) (old : List (Brk W)) (next : Nat)
    (nd : (old.map (·.id)).Nodup) (lt : ∀ b ∈ old, b.id < next) :
    ((build ops now rules old next).map (·.id)).Nodup := by
  induction rules generalizing old next with
  | nil => simp [build]
  | cons r rs ih =>
    simp only [build]
    have ltS : ∀ (old' : List (Brk W)), (∀ x ∈ old', x ∈ old) → ∀ b ∈ old', b.id < next + 1 :=
      fun old' hsub b hb => Nat.lt_succ_of_lt (lt b (hsub b hb))
    rcases hre : reuseIdx r old 0 none with ⟨e, j⟩
    cases e with
    | some i =>
      dsimp only
      cases hc : old[i]? with
      | none => exact ih old (next+1) nd (ltS old fun _ h => h)
      | some c =>
        dsimp only
        simp only [List.map_cons, List.nodup_cons]
        refine ⟨?_, ih _ _ (nodup_eraseIdx _ nd i) (ltS _ fun x hx => List.mem_of_mem_eraseIdx hx)⟩
        intro hmem
        obtain ⟨b, hb, hbe⟩ := List.mem_map.mp hmem
        rcases build_mem ops now rs _ _ b hb with h | ⟨h1, _⟩
        · exact mem_eraseIdx_ne (·.id) nd hc h hbe
        · have := lt c (getElem?_mem' hc); omega
    | none =>
      have headNew : ∀ (old' : List (Brk W)), (∀ x ∈ old', x ∈ old) → (old'.map (·.id)).Nodup → ∀ (w : W),
          (({ id := next, rule := r, w := w } : Brk W) :: build ops now rs old' (next+1)).map (·.id) |>.Nodup := by
        intro old' hsub nd' w
        simp only [List.map_cons, List.nodup_cons]
        refine ⟨?_, ih _ _ nd' (ltS _ hsub)⟩
        intro hmem
        obtain ⟨b, hb, hbe⟩ := List.mem_map.mp hmem
        rcases build_mem ops now rs _ _ b hb with h | ⟨h1, _⟩
        · have := lt b (hsub b h); omega
        · omega
      cases j with
      | none => exact headNew old (fun _ h => h) nd _
      | some j =>
        dsimp only
        cases hc : old[j]? with
        | none => exact ih old (next+1) nd (ltS old fun _ h => h)
        | some c => exact headNew _ (fun x hx => List.mem_of_mem_eraseIdx hx) (nodup_eraseIdx _ nd j) _

/-- what the listener-log theorem carries along a history: distinct identities below `next`, a state map that
    agrees with the breakers and is still `Closed` on every identity not handed out yet -/
structure LogInv (m : Nat → St) (s : Sys W) : Prop where
  nd : (s.brs.map (·.id)).Nodup
  ag : Agree m s.brs
  lt : ∀ b ∈ s.brs, b.id < s.next
  fr : ∀ k, s.next ≤ k → m k = .closed

theorem step_replay (ops : Rule → WinOps W) (s : Sys W) (o : Op) (m : Nat → St) (inv : LogInv m s) :
    ∃ m', replay m (step ops s o).2.evs = some m' ∧ LogInv m' (step ops s o).1 := by
  obtain ⟨nd, ag, lt, fr⟩ := inv
  have hmemNew : ∀ (old : List (Brk W)) (rules : List Rule), (∀ x ∈ old, x ∈ s.brs) →
      ∀ b ∈ build ops s.now rules old s.next, (m b.id = b.st) ∧ b.id < s.next + rules.length := by
    intro old rules hsub b hb
    rcases build_mem ops s.now rules old s.next b hb with h | ⟨h1, h2, h3, _⟩
    · exact ⟨ag b (hsub b h), Nat.lt_add_right _ (lt b (hsub b h))⟩
    · exact ⟨by rw [fr b.id h1, h3], h2⟩
  cases o with
  | load rules =>
    refine ⟨m, rfl, ⟨build_nodup ops s.now rules s.brs s.next nd lt, ?_, ?_, ?_⟩⟩
    · exact fun b hb => (hmemNew s.brs rules (fun _ h => h) b hb).1
    · exact fun b hb => (hmemNew s.brs rules (fun _ h => h) b hb).2
    · intro k hk; exact fr k (Nat.le_trans (Nat.le_add_right _ _) hk)
  | loadRes res rules =>
    have hsubE : ∀ x ∈ s.brs.filter (fun b => b.rule.res == res), x ∈ s.brs := fun x hx => (List.mem_filter.mp hx).1
    have hsubN : ∀ x ∈ s.brs.filter (fun b => b.rule.res != res), x ∈ s.brs := fun x hx => (List.mem_filter.mp hx).1
    have ndE : ((s.brs.filter fun b => b.rule.res == res).map (·.id)).Nodup := nd.sublist (List.filter_sublist.map _)
    have ndN : ((s.brs.filter fun b => b.rule.res != res).map (·.id)).Nodup := nd.sublist (List.filter_sublist.map _)
    have ltE : ∀ b ∈ s.brs.filter (fun b => b.rule.res == res), b.id < s.next := fun b hb => lt b (hsubE b hb)
    refine ⟨m, rfl, ⟨?_, ?_, ?_, ?_⟩⟩
    · show ((s.brs.filter (fun b => b.rule.res != res) ++ build ops s.now rules (s.brs.filter fun b => b.rule.res == res) s.next).map (·.id)).Nodup
      rw [List.map_append, List.nodup_append]
      refine ⟨ndN, build_nodup ops s.now rules _ s.next ndE ltE, ?_⟩
      intro x hx y hy hxy
      obtain ⟨a, ha, rfl⟩ := List.mem_map.mp hx
      obtain ⟨b, hb, hbe⟩ := List.mem_map.mp hy
      rcases build_mem ops s.now rules _ s.next b hb with h | ⟨h1, _⟩
      · have hab : a = b := List.inj_on_of_nodup_map nd (hsubN a ha) (hsubE b h) (by rw [hxy, hbe])
        subst hab
        have p1 := (List.mem_filter.mp ha).2
        have p2 := (List.mem_filter.mp h).2
        simp only [bne_iff_ne, ne_eq] at p1
        simp only [beq_iff_eq] at p2
        exact p1 p2
      · have := lt a (hsubN a ha); omega
    · intro b hb
      rcases List.mem_append.mp hb with h | h
      · exact ag b (hsubN b h)
      · exact (hmemNew _ rules hsubE b h).1
    · intro b hb
      rcases List.mem_append.mp hb with h | h
      · exact Nat.lt_add_right _ (lt b (hsubN b h))
      · exact (hmemNew _ rules hsubE b h).2
    · intro k hk; exact fr k (Nat.le_trans (Nat.le_add_right _ _) hk)
  | clock t =>
    exact ⟨m, rfl, ⟨nd, ag, lt, fr⟩⟩
  | entry id res batch =>
    obtain ⟨mid, e1, e2, he, l1, l2, hnx⟩ := step_local ops s (.entry id res batch)
      ⟨rfl, fun rs => ⟨by simp, fun x => by simp⟩⟩
    obtain ⟨m1, hm1, ag1, f1⟩ := replay_local l1 m nd ag
    have nd1 : (mid.map (·.id)).Nodup := by rw [l1.ids]; exact nd
    obtain ⟨m2, hm2, ag2, f2⟩ := replay_local l2 m1 nd1 ag1
    have hids : (step ops s (.entry id res batch)).1.brs.map (·.id) = s.brs.map (·.id) := by rw [l2.ids, l1.ids]
    refine ⟨m2, by rw [he, replay_append, hm1]; exact hm2, ⟨by rw [hids]; exact nd, ag2, ?_, ?_⟩⟩
    · intro b hb
      rw [hnx]
      have : b.id ∈ s.brs.map (·.id) := by rw [← hids]; exact List.mem_map_of_mem hb
      obtain ⟨c, hc, hce⟩ := List.mem_map.mp this
      rw [← hce]; exact lt c hc
    · intro k hk
      rw [hnx] at hk
      have hk' : k ∉ s.brs.map (·.id) := by
        intro hmem; obtain ⟨c, hc, hce⟩ := List.mem_map.mp hmem
        have := lt c hc; omega
      rw [f2 k (by rw [l1.ids]; exact hk'), f1 k hk']; exact fr k hk
  | exit id err =>
    obtain ⟨mid, e1, e2, he, l1, l2, hnx⟩ := step_local ops s (.exit id err)
      ⟨rfl, fun rs => ⟨by simp, fun x => by simp⟩⟩
    obtain ⟨m1, hm1, ag1, f1⟩ := replay_local l1 m nd ag
    have nd1 : (mid.map (·.id)).Nodup := by rw [l1.ids]; exact nd
    obtain ⟨m2, hm2, ag2, f2⟩ := replay_local l2 m1 nd1 ag1
    have hids : (step ops s (.exit id err)).1.brs.map (·.id) = s.brs.map (·.id) := by rw [l2.ids, l1.ids]
    refine ⟨m2, by rw [he, replay_append, hm1]; exact hm2, ⟨by rw [hids]; exact nd, ag2, ?_, ?_⟩⟩
    · intro b hb
      rw [hnx]
      have : b.id ∈ s.brs.map (·.id) := by rw [← hids]; exact List.mem_map_of_mem hb
      obtain ⟨c, hc, hce⟩ := List.mem_map.mp this
      rw [← hce]; exact lt c hc
    · intro k hk
      rw [hnx] at hk
      have hk' : k ∉ s.brs.map (·.id) := by
        intro hmem; obtain ⟨c, hc, hce⟩ := List.mem_map.mp hmem
        have := lt c hc; omega
      rw [f2 k (by rw [l1.ids]; exact hk'), f1 k hk']; exact fr k hk

end walks

end Sentinel.CB
