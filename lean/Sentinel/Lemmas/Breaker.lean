import Mathlib.Tactic
import Sentinel.Lemmas.LeapArray
import Sentinel.Model.Breaker
/-!
# Breaker lemmas: the per-breaker leap array refines the bare history of completions

`R n L now a h` — the array `a` (geometry `n × L`) represents the history `h` at clock reading `now`:
the shared leap-array invariant `Inv` plus "slots of the future are empty".  `R` is monotone in
`now`, is established by `mk`, and is preserved by the two operations of `laOps` (`record_refines`,
`reset_refines`), which return exactly what `histOps` returns.
-/
namespace Sentinel.CB
open Sentinel.LA

@[ext] theorem Cnt.ext' {a b : Cnt} (h1 : a.bad = b.bad) (h2 : a.total = b.total) : a = b := by
  cases a; cases b; simp_all

@[simp] theorem add_bad (a b : Cnt) : (a + b).bad = a.bad + b.bad := rfl
@[simp] theorem add_total (a b : Cnt) : (a + b).total = a.total + b.total := rfl
@[simp] theorem zero_bad : (0 : Cnt).bad = 0 := rfl
@[simp] theorem zero_total : (0 : Cnt).total = 0 := rfl

instance : AddCommMonoid Cnt where
  add_assoc a b c := by ext <;> simp [Nat.add_assoc]
  zero_add a := by ext <;> simp
  add_zero a := by ext <;> simp
  add_comm a b := by ext <;> simp [Nat.add_comm]
  nsmul := nsmulRec

/-! ## leap-array facts -/

theorem inv_mono {a : Arr Cnt} {h : List (Nat × Cnt)} {t0 latest now : Nat} (inv : Inv a h t0 latest)
    (hle : latest ≤ now) : Inv a h t0 now :=
  ⟨inv.wf, le_trans inv.le0 hle,
   fun i hi => (inv.d i hi).imp (fun h => le_trans h (cbs_mono _ hle)) id,
   fun lo hi hlo => inv.e lo hi (lt_of_le_of_lt (cbs_mono _ hle) hlo)⟩

theorem sum_filter_readW (sl : List (Slot Cnt)) (p : Slot Cnt → Bool) (lo hi : Nat)
    (hp : ∀ s ∈ sl, p s = true ↔ (lo ≤ s.start ∧ s.start ≤ hi)) :
    ((sl.filter p).map (·.val)).sum = readW sl lo hi := by
  unfold readW
  induction sl with
  | nil => rfl
  | cons s r ih =>
    have ihr := ih (fun s hs => hp s (List.mem_cons_of_mem _ hs))
    have h1 := hp s (List.mem_cons_self ..)
    by_cases hw : lo ≤ s.start ∧ s.start ≤ hi
    · have hps : p s = true := h1.mpr hw
      simp only [List.filter_cons, hps, if_true, List.map_cons, List.sum_cons, hw, and_self, ihr]
    · have hps : p s = false := by
        cases hq : p s with
        | false => rfl
        | true => exact absurd (h1.mp hq) hw
      simp only [List.filter_cons, hps, Bool.false_eq_true, if_false, List.map_cons, List.sum_cons, hw, ihr, zero_add]

theorem readW_congr (sl : List (Slot Cnt)) (lo hi lo' hi' : Nat)
    (h : ∀ s ∈ sl, (lo ≤ s.start ∧ s.start ≤ hi) ↔ (lo' ≤ s.start ∧ s.start ≤ hi')) :
    readW sl lo hi = readW sl lo' hi' := by
  unfold readW
  congr 1
  apply List.map_congr_left
  intro s hs
  simp only [h s hs]

/-- `allCounter()` summed = the slots whose start lies in `[now - interval, now]` -/
theorem laTotal_eq_readW (a : Arr Cnt) (now : Nat) (h0 : now ≠ 0) :
    laTotal a now = readW a.slots (now - a.n * a.L) now := by
  unfold laTotal valuesAt
  simp only [h0, if_false]
  apply sum_filter_readW
  intro s _
  unfold deprecated
  by_cases h : s.start ≤ now
  · simp only [h, if_true, Bool.not_eq_true', decide_eq_false_iff_not, and_true]
    omega
  · simp only [h, if_false, Bool.not_true, Bool.false_eq_true, and_false]

theorem mem_slot_wf {a : Arr Cnt} (hw : WF a) {s : Slot Cnt} (hs : s ∈ a.slots) :
    ∃ i k, ∃ (hi : i < a.slots.length), a.slots[i] = s ∧ s.start = k * a.L ∧ k % a.n = i := by
  obtain ⟨i, hi, rfl⟩ := List.getElem_of_mem hs
  obtain ⟨k, hk, hkr⟩ := hw.2.2.2 i hi
  exact ⟨i, k, hi, rfl, hk, hkr⟩

/-- under the invariant the slot of the current index is never ahead of the current bucket -/
theorem idx_start_le (a : Arr Cnt) (h : List (Nat × Cnt)) (t0 latest t : Nat) (inv : Inv a h t0 latest)
    (hle : latest ≤ t) : (a.slots[idx a t]'(idx_lt a inv.wf t)).start ≤ cbs a.L t := by
  have hidx := idx_lt a inv.wf t
  by_contra hgt
  have hstep := (add_step a h t0 latest t 0 inv hle).2
  have hsome : a.slots[idx a t]? = some (a.slots[idx a t]) := List.getElem?_eq_getElem hidx
  unfold add at hstep
  simp only [hsome] at hstep
  have h1 : ¬ cbs a.L t = (a.slots[idx a t]).start := by omega
  have h2 : ¬ (a.slots[idx a t]).start < cbs a.L t := by omega
  simp only [h1, h2, if_false] at hstep
  by_cases hn : a.n = 1
  · -- a single slot: it is either old or the initial one
    obtain ⟨hL, _, _, hres⟩ := inv.wf
    have hcm := cbs_mono a.L hle
    have hcm0 := cbs_mono a.L inv.le0
    rcases inv.d _ hidx with hd | ⟨hd1, hd2⟩
    · omega
    · obtain ⟨k, hk, _⟩ := hres _ hidx
      rw [hn, one_mul] at hd2
      rw [hk, cbs_eq] at hd1 hd2
      have e1 : t0 / a.L ≤ k := Nat.le_of_mul_le_mul_right hd1 hL
      have e2 : k < t0 / a.L + 1 := by
        have : k * a.L < (t0 / a.L + 1) * a.L := by rw [Nat.add_mul, one_mul]; exact hd2
        exact Nat.lt_of_mul_lt_mul_right this
      have e3 : k = t0 / a.L := by omega
      have : (a.slots[idx a t]).start = cbs a.L t0 := by rw [hk, e3, cbs_eq]
      omega
  · simp [hn] at hstep

/-- what a successful `add` does: the current slot is (re)started at the current bucket -/
theorem add_shape (a : Arr Cnt) (h : List (Nat × Cnt)) (t0 latest t : Nat) (x : Cnt) (inv : Inv a h t0 latest)
    (hle : latest ≤ t) :
    ∃ v : Slot Cnt, v.start = cbs a.L t ∧ (add a t x).1 = { a with slots := a.slots.set (idx a t) v } := by
  have hidx := idx_lt a inv.wf t
  have hsome : a.slots[idx a t]? = some (a.slots[idx a t]) := List.getElem?_eq_getElem hidx
  have hle' := idx_start_le a h t0 latest t inv hle
  unfold add
  simp only [hsome]
  by_cases h1 : cbs a.L t = (a.slots[idx a t]).start
  · simp only [h1, if_true]
    exact ⟨{ (a.slots[idx a t]) with val := (a.slots[idx a t]).val + x }, rfl, rfl⟩
  · have h2 : (a.slots[idx a t]).start < cbs a.L t := by omega
    simp only [h1, h2, if_false, if_true]
    exact ⟨_, rfl, rfl⟩

/-- right after recording at `now`, the non-deprecated buckets are exactly the last `n` aligned buckets -/
theorem total_after_add (a : Arr Cnt) (h : List (Nat × Cnt)) (t0 latest now : Nat) (x : Cnt)
    (inv : Inv a h t0 latest) (hle : latest ≤ now) (h0 : now ≠ 0) :
    laTotal (add a now x).1 now = refW a.L (h ++ [(now, x)]) (winLo a.n a.L now) (cbs a.L now) := by
  have inv' := (add_step a h t0 latest now x inv hle).1
  obtain ⟨v, hv, hshape⟩ := add_shape a h t0 latest now x inv hle
  have hnL := add_nL a now x
  obtain ⟨hL, hn, hlen, hres⟩ := inv.wf
  have hidx := idx_lt a inv.wf now
  rw [laTotal_eq_readW _ _ h0, hnL.1, hnL.2]
  have he := inv'.e (winLo a.n a.L now) (cbs a.L now)
  rw [hnL.1, hnL.2] at he
  rw [← he (by unfold winLo; omega)]
  apply readW_congr
  intro s hs
  obtain ⟨j, k, hj, hsj, hk, hkr⟩ := mem_slot_wf inv'.wf hs
  rw [hnL.1] at hk
  rw [hnL.2] at hkr
  -- the slot of the current index starts at the current bucket
  have hcur : ((add a now x).1.slots[idx a now]'(by rw [hshape]; simpa using hidx)).start = cbs a.L now := by
    simp only [hshape, List.getElem_set_self, hv]
  set m := now / a.L with hm
  have hcbs : cbs a.L now = m * a.L := cbs_eq _ _
  have hlt : now < m * a.L + a.L := by
    have := Nat.lt_div_mul_add hL (a := now); rw [← hm] at this; omega
  have hge : m * a.L ≤ now := by rw [← hcbs]; unfold cbs; omega
  rw [hk]
  unfold winLo
  rw [hcbs]
  rcases Nat.lt_or_ge m k with hkm | hkm
  · have := Nat.mul_le_mul_right a.L (show m + 1 ≤ k from hkm)
    rw [Nat.add_mul, one_mul] at this
    omega
  · have hkm' := Nat.mul_le_mul_right a.L hkm
    rcases Nat.lt_trichotomy (k + a.n) m with hc | hc | hc
    · have := Nat.mul_le_mul_right a.L (show k + a.n + 1 ≤ m from hc)
      rw [Nat.add_mul, Nat.add_mul, one_mul] at this
      omega
    · -- a slot one full cycle behind the current bucket would share its index: impossible
      exfalso
      have hres' : k % a.n = m % a.n := by rw [← hc, Nat.add_mod_right]
      have hji : j = idx a now := by rw [← hkr, hres']; rfl
      subst hji
      have : s.start = cbs a.L now := by rw [← hsj]; exact hcur
      rw [hk, hcbs] at this
      have := Nat.eq_of_mul_eq_mul_right hL this
      omega
    · have := Nat.mul_le_mul_right a.L (show m + 1 ≤ k + a.n from hc)
      rw [Nat.add_mul, Nat.add_mul, one_mul] at this
      omega

/-! ## the refinement relation between the two stores -/

structure R (n L now : Nat) (a : Arr Cnt) (h : List (Nat × Cnt)) : Prop where
  hn : a.n = n
  hL : a.L = L
  inv : ∃ t0, Inv a h t0 now
  fz : ∀ s ∈ a.slots, cbs L now < s.start → s.val = 0

theorem R.mono {n L now now' : Nat} {a : Arr Cnt} {h : List (Nat × Cnt)} (r : R n L now a h) (hle : now ≤ now') :
    R n L now' a h := by
  obtain ⟨t0, inv⟩ := r.inv
  exact ⟨r.hn, r.hL, ⟨t0, inv_mono inv hle⟩, fun s hs hlt => r.fz s hs (lt_of_le_of_lt (cbs_mono _ hle) hlt)⟩

theorem mk_R (n L now : Nat) (hn : 0 < n) (hL : 0 < L) : R n L now (mk n L now : Arr Cnt) [] := by
  refine ⟨rfl, rfl, ⟨now, mk_inv n L now hn hL⟩, ?_⟩
  intro s hs _
  simp [mk] at hs
  obtain ⟨j, _, rfl⟩ := hs
  rfl

/-- `currentCounter()` + add + `allCounter()` on the array = append + filter-and-sum on the history -/
theorem record_refines (r : Rule) (now0 now : Nat) (a : Arr Cnt) (h : List (Nat × Cnt)) (x : Cnt)
    (rel : R r.n r.L now0 a h) (hle : now0 ≤ now) (h0 : 0 < now) :
    ∃ a' tot, (laOps r).record a now x = some (a', tot) ∧
      (histOps r).record h now x = some (h ++ [(now, x)], tot) ∧ R r.n r.L now a' (h ++ [(now, x)]) := by
  obtain ⟨t0, inv⟩ := rel.inv
  have hne : now ≠ 0 := by omega
  have hstep := add_step a h t0 now0 now x inv hle
  have htot := total_after_add a h t0 now0 now x inv hle hne
  obtain ⟨v, hv, hshape⟩ := add_shape a h t0 now0 now x inv hle
  have hnL := add_nL a now x
  refine ⟨(add a now x).1, laTotal (add a now x).1 now, ?_, ?_, ?_⟩
  · simp only [laOps, addAt, hne, if_false, hstep.2, if_true]
  · simp only [histOps, hne, if_false]
    rw [htot, rel.hn, rel.hL]
  · refine ⟨hnL.2.trans rel.hn, hnL.1.trans rel.hL, ⟨t0, hstep.1⟩, ?_⟩
    intro s hs hlt
    rw [hshape] at hs
    rcases List.mem_or_eq_of_mem_set hs with hs | hs
    · exact rel.fz s hs (lt_of_le_of_lt (cbs_mono _ hle) hlt)
    · rw [hs, hv, rel.hL] at hlt; omega

/-- `resetMetric()` on the array = forgetting the history -/
theorem reset_refines (n L now : Nat) (a : Arr Cnt) (h : List (Nat × Cnt)) (rel : R n L now a h) (h0 : 0 < now) :
    R n L now (laReset a now) [] := by
  obtain ⟨t0, inv⟩ := rel.inv
  have hne : now ≠ 0 := by omega
  obtain ⟨hL, hn, hlen, hres⟩ := inv.wf
  unfold laReset
  simp only [hne, if_false]
  set f : Slot Cnt → Slot Cnt := fun s => if deprecated (a.n * a.L) now s.start then s else { s with val := 0 } with hf
  have hstart : ∀ s, (f s).start = s.start := by intro s; simp only [hf]; split_ifs <;> rfl
  have hget : ∀ i (hi : i < (a.slots.map f).length), ((a.slots.map f)[i]).start = (a.slots[i]'(by simpa using hi)).start := by
    intro i hi; simp [hstart]
  refine ⟨rel.hn, rel.hL, ⟨t0, ⟨⟨hL, hn, by simpa using hlen, ?_⟩, inv.le0, ?_, ?_⟩⟩, ?_⟩
  · intro i hi
    have hi' : i < a.slots.length := by simpa using hi
    show ∃ k, ((a.slots.map f)[i]).start = k * a.L ∧ k % a.n = i
    rw [hget i hi]; exact hres i hi'
  · intro i hi
    have hi' : i < a.slots.length := by simpa using hi
    show ((a.slots.map f)[i]).start ≤ cbs a.L now ∨ _
    rw [hget i hi]; exact inv.d i hi'
  · intro lo hi hlo
    show readW (a.slots.map f) lo hi = refW a.L [] lo hi
    dsimp only at hlo
    have hz : refW a.L ([] : List (Nat × Cnt)) lo hi = 0 := by simp [refW]
    rw [hz]
    unfold readW
    apply List.sum_eq_zero
    intro y hy
    obtain ⟨s', hs', rfl⟩ := List.mem_map.mp hy
    obtain ⟨s, hs, rfl⟩ := List.mem_map.mp hs'
    rw [hstart]
    split_ifs with hw
    · simp only [hf]
      split_ifs with hd
      · unfold deprecated at hd
        by_cases hle : s.start ≤ now
        · exfalso
          simp only [hle, if_true, decide_eq_true_eq] at hd
          obtain ⟨_, k, _, _, hk, _⟩ := mem_slot_wf inv.wf hs
          have hcbs : cbs a.L now = now / a.L * a.L := cbs_eq _ _
          have hlt : now < now / a.L * a.L + a.L := by
            have := Nat.lt_div_mul_add hL (a := now); omega
          rcases Nat.lt_or_ge (k + a.n) (now / a.L + 1) with hc | hc
          · have : k + a.n ≤ now / a.L := by omega
            have := Nat.mul_le_mul_right a.L this
            rw [Nat.add_mul] at this
            omega
          · have := Nat.mul_le_mul_right a.L hc
            rw [Nat.add_mul, Nat.add_mul, one_mul] at this
            omega
        · refine rel.fz s hs ?_
          rw [← rel.hL]; unfold cbs; omega
      · rfl
    · rfl
  · intro s' hs' hlt
    obtain ⟨s, hs, rfl⟩ := List.mem_map.mp hs'
    rw [hstart] at hlt
    simp only [hf]
    split_ifs
    · exact rel.fz s hs hlt
    · rfl

end Sentinel.CB
