import Mathlib.Tactic
import Sentinel.Lemmas.LeapArray
import Sentinel.Model.FlowReject
/-!
# Refinement lemmas for the reject-mode flow model

`Tracks a n L hist latest`: the array `a` is what some monotone event list produced on a fresh `n × L`
array, and in every window that event list sums to the same as `hist` (events carrying 0 — block counts,
concurrency samples, completions — are invisible). `Rep`: every node array and every independent array of
the state tracks the admitted history of the resource that feeds it.
-/
namespace Sentinel.FlowReject
open Sentinel.LA

/-! ## reading a tracked array through a view -/

theorem sum_filter_eq_readW' (sl : List (Slot Nat)) (p : Slot Nat → Bool) (lo hi : Nat)
    (hp : ∀ s ∈ sl, (lo ≤ s.start ∧ s.start ≤ hi) → p s = true) :
    ((sl.filter fun s => p s && decide (lo ≤ s.start ∧ s.start ≤ hi)).map (·.val)).sum = readW sl lo hi := by
  unfold readW
  induction sl with
  | nil => rfl
  | cons s r ih =>
    have ihr := ih (fun s hs => hp s (List.mem_cons_of_mem _ hs))
    by_cases hw : lo ≤ s.start ∧ s.start ≤ hi
    · have := hp s (List.mem_cons_self ..) hw
      simp only [List.filter_cons, this, hw, decide_true, Bool.and_self, if_true, List.map_cons,
        List.sum_cons, and_self] at ihr ⊢
      rw [ihr]
    · simp only [List.filter_cons, hw, decide_false, Bool.and_false, List.map_cons,
        List.sum_cons, if_false, zero_add] at ihr ⊢
      simpa using ihr

theorem viewSum_eq_refW (n L now0 : Nat) (hn : 0 < n) (hL : 0 < L) (h : List (Nat × Nat)) (mono : Mono now0 h)
    (now : Nat) (hnow : ∀ e ∈ h, e.1 ≤ now) (hnow0 : now0 ≤ now) (hpos : 0 < now) (Iv : Nat) (hIv : Iv ≤ n * L) :
    viewSum (runAdds (mk n L now0) h) Iv now = refW L h (cbs L now + L - Iv) (cbs L now) := by
  have hLn := runAdds_nL (mk n L now0 : Arr Nat) h
  have hL' : (runAdds (mk n L now0 : Arr Nat) h).L = L := by simpa [mk] using hLn.1
  have hn' : (runAdds (mk n L now0 : Arr Nat) h).n = n := by simpa [mk] using hLn.2
  unfold viewSum viewVals rangeOf
  simp only [hL', hn', Nat.ne_of_gt hpos, if_false]
  rw [sum_filter_eq_readW']
  · exact window_eq_ref n L now0 hn hL h mono now hnow hnow0 _ _ (by omega)
  · intro s _ hw
    have hc : cbs L now ≤ now := by unfold cbs; omega
    unfold deprecated
    have : s.start ≤ now := le_trans hw.2 hc
    simp only [this, if_true]
    have hlt : now < cbs L now + L := by
      unfold cbs; have := Nat.mod_lt now hL; omega
    simp; omega

/-! ## tracked arrays -/

theorem runAdds_append (a : Arr Nat) (h : List (Nat × Nat)) (t x : Nat) :
    runAdds a (h ++ [(t, x)]) = (add (runAdds a h) t x).1 := by
  induction h generalizing a with
  | nil => rfl
  | cons e r ih => obtain ⟨t', x'⟩ := e; simp only [List.cons_append, runAdds]; exact ih _

theorem mono_append (p : Nat) (h : List (Nat × Nat)) (t x latest : Nat) (hm : Mono p h)
    (hle : ∀ e ∈ h, e.1 ≤ latest) (hp : p ≤ latest) (ht : latest ≤ t) : Mono p (h ++ [(t, x)]) := by
  induction h generalizing p with
  | nil => exact ⟨le_trans hp ht, trivial⟩
  | cons e r ih =>
    obtain ⟨t', x'⟩ := e
    obtain ⟨h1, h2⟩ := hm
    exact ⟨h1, ih t' h2 (fun e he => hle e (List.mem_cons_of_mem _ he)) (hle (t', x') (List.mem_cons_self ..))⟩

def Tracks (a : Arr Nat) (n L : Nat) (hist : List (Nat × Nat)) (latest : Nat) : Prop :=
  ∃ tr evs, 0 < tr ∧ tr ≤ latest ∧ a = runAdds (mk n L tr) evs ∧ Mono tr evs ∧ (∀ e ∈ evs, e.1 ≤ latest) ∧
    ∀ lo hi, refW L evs lo hi = refW L hist lo hi

theorem Tracks.fresh (n L now : Nat) (h0 : 0 < now) : Tracks (mk n L now) n L [] now :=
  ⟨now, [], h0, le_refl _, rfl, trivial, by simp, fun _ _ => rfl⟩

theorem Tracks.idle {a n L hist latest} (tk : Tracks a n L hist latest) {now : Nat} (h : latest ≤ now) :
    Tracks a n L hist now := by
  obtain ⟨tr, evs, h0, h1, h2, h3, h4, h5⟩ := tk
  exact ⟨tr, evs, h0, le_trans h1 h, h2, h3, fun e he => le_trans (h4 e he) h, h5⟩

theorem Tracks.congr {a n L hist hist' latest} (tk : Tracks a n L hist latest)
    (h : ∀ lo hi, refW L hist lo hi = refW L hist' lo hi) : Tracks a n L hist' latest := by
  obtain ⟨tr, evs, h0, h1, h2, h3, h4, h5⟩ := tk
  exact ⟨tr, evs, h0, h1, h2, h3, h4, fun lo hi => (h5 lo hi).trans (h lo hi)⟩

/-- recording `x` at `now` -/
theorem Tracks.write {a n L hist latest} (tk : Tracks a n L hist latest) {now : Nat} (h : latest ≤ now) (x : Nat) :
    Tracks (addAt a now x).1 n L (hist ++ [(now, x)]) now := by
  obtain ⟨tr, evs, h0, h1, h2, h3, h4, h5⟩ := tk
  have hnow : now ≠ 0 := by omega
  refine ⟨tr, evs ++ [(now, x)], h0, le_trans h1 h, ?_, mono_append tr evs now x latest h3 h4 h1 h, ?_, ?_⟩
  · rw [runAdds_append, ← h2]; simp [addAt, hnow]
  · intro e he
    rcases List.mem_append.mp he with h' | h'
    · exact le_trans (h4 e h') h
    · simp at h'; subst h'; exact le_refl _
  · intro lo hi
    rw [refW_append, refW_append, h5]

/-- an event that carries nothing for the pass counter -/
theorem Tracks.write0 {a n L hist latest} (tk : Tracks a n L hist latest) {now : Nat} (h : latest ≤ now) :
    Tracks (addAt a now 0).1 n L hist now := by
  refine (tk.write h 0).congr ?_
  intro lo hi
  rw [refW_append]; simp

/-- reading through a view of interval `Iv` -/
theorem Tracks.read {a n L hist latest} (tk : Tracks a n L hist latest) {now : Nat} (h : latest ≤ now)
    (hn : 0 < n) (hL : 0 < L) (Iv : Nat) (hIv : Iv ≤ n * L) :
    viewSum a Iv now = refW L hist (cbs L now + L - Iv) (cbs L now) := by
  obtain ⟨tr, evs, h0, h1, h2, h3, h4, h5⟩ := tk
  rw [h2, ← h5]
  exact viewSum_eq_refW n L tr hn hL evs h3 now (fun e he => le_trans (h4 e he) h) (le_trans h1 h)
    (lt_of_lt_of_le h0 (le_trans h1 h)) Iv hIv

/-! ## geometry chosen by `generateStatFor` -/

theorem geomFor_view {I Iv : Nat} (h : geomFor I = .view Iv) : 0 < Iv ∧ Iv ≤ gN * gL := by
  unfold geomFor at h
  split_ifs at h with h1
  · cases h; decide
  · dsimp only at h
    split at h
    · rename_i hv
      cases h
      unfold validView at hv
      split_ifs at hv with a b c d
      have hI : I ≠ 0 := fun e => a (Or.inl e)
      have hm : gI % I = 0 := by omega
      have : I ∣ gI := Nat.dvd_of_mod_eq_zero hm
      have := Nat.le_of_dvd (by decide) this
      exact ⟨Nat.pos_of_ne_zero hI, by simpa [gN, gL, gI] using this⟩
    · cases h
    · cases h

theorem geomFor_own {I n L : Nat} (h : geomFor I = .own n L) : 0 < n ∧ 0 < L := by
  unfold geomFor at h
  split_ifs at h with h1
  dsimp only at h
  split at h
  · cases h
  · rename_i hv
    cases h
    unfold validView at hv
    split_ifs at hv with a b c d <;> try omega
    all_goals
      have hI : I ≠ 0 := fun e => a (Or.inl e)
      have hs : sampleCountFor I ≠ 0 := fun e => a (Or.inr (Or.inl e))
      have hm : I % sampleCountFor I = 0 := by
        by_contra hc; exact a (Or.inr (Or.inr hc))
      have hd : sampleCountFor I ∣ I := Nat.dvd_of_mod_eq_zero hm
      have hle := Nat.le_of_dvd (Nat.pos_of_ne_zero hI) hd
      exact ⟨Nat.pos_of_ne_zero hs, Nat.div_pos hle (Nat.pos_of_ne_zero hs)⟩
  · cases h

/-! ## the node map -/

theorem lookup_append_single (ns : Nodes) (r q : Nat) (a : Arr Nat) :
    lookup (ns ++ [(r, a)]) q = match lookup ns q with
      | some x => some x
      | none => if r = q then some a else none := by
  induction ns with
  | nil => simp [lookup]
  | cons p rest ih =>
    obtain ⟨k, v⟩ := p
    simp only [List.cons_append, lookup]
    by_cases h : k = q
    · simp [h]
    · simp only [h, if_false]; exact ih

theorem lookup_ensure_some {ns : Nodes} {q : Nat} {x : Arr Nat} (h : lookup ns q = some x) (r now : Nat) :
    lookup (ensure ns r now) q = some x := by
  unfold ensure
  split
  · exact h
  · rw [lookup_append_single, h]

theorem lookup_ensure_none {ns : Nodes} {q : Nat} (h : lookup ns q = none) (r now : Nat) :
    lookup (ensure ns r now) q = if r = q then some (mk gN gL now) else none := by
  unfold ensure
  split
  · rename_i a ha
    split_ifs with e
    · subst e; rw [h] at ha; cases ha
    · exact h
  · rw [lookup_append_single, h]

theorem lookup_ensure_self (ns : Nodes) (r now : Nat) : lookup (ensure ns r now) r ≠ none := by
  cases h : lookup ns r with
  | some x => rw [lookup_ensure_some h]; simp
  | none => rw [lookup_ensure_none h]; simp

theorem lookup_touch (ns : Nodes) (r now x q : Nat) :
    lookup (touch ns r now x) q = (lookup ns q).map fun a => if q = r then (addAt a now x).1 else a := by
  induction ns with
  | nil => simp [touch, lookup]
  | cons p rest ih =>
    obtain ⟨k, v⟩ := p
    unfold touch at ih ⊢
    simp only [List.map_cons, lookup]
    by_cases hk : k = r
    · subst hk
      simp only [if_true]
      by_cases h : k = q
      · subst h; simp
      · simp only [h, if_false]; exact ih
    · simp only [hk, if_false]
      by_cases h : k = q
      · subst h; simp [hk]
      · simp only [h, if_false]; exact ih

/-- all node arrays track `hist`; after touching `res` with `xs` they track `hist` extended on `res` -/
theorem tracks_touches (ns : Nodes) (res now : Nat) (xs : List Nat) (hist : Nat → List (Nat × Nat)) (latest : Nat)
    (hle : latest ≤ now)
    (h : ∀ r a, lookup ns r = some a → Tracks a gN gL (hist r) latest) :
    ∀ r a, lookup (touches ns res now xs) r = some a →
      Tracks a gN gL (if r = res then hist r ++ xs.map (fun x => (now, x)) else hist r) now := by
  induction xs generalizing ns hist latest with
  | nil =>
    intro r a ha
    simp only [touches] at ha
    have := (h r a ha).idle hle
    split_ifs <;> simpa using this
  | cons x xs ih =>
    intro r a ha
    simp only [touches] at ha
    have h1 : ∀ r a, lookup (touch ns res now x) r = some a →
        Tracks a gN gL ((fun r => if r = res then hist r ++ [(now, x)] else hist r) r) now := by
      intro r a ha
      rw [lookup_touch] at ha
      cases hl : lookup ns r with
      | none => rw [hl] at ha; simp at ha
      | some a0 =>
        rw [hl] at ha
        simp only [Option.map_some, Option.some.injEq] at ha
        subst ha
        by_cases hr : r = res
        · simp only [hr, if_true]
          exact (h r a0 hl).write hle x |> fun t => by simpa [hr] using t
        · simp only [hr, if_false]
          exact (h r a0 hl).idle hle
    have := ih (touch ns res now x) _ now (le_refl _) h1 r a ha
    by_cases hr : r = res
    · simp only [hr, if_true, List.map_cons] at this ⊢
      simpa [List.append_assoc] using this
    · simpa [hr] using this

theorem lookup_touches_ne_none (ns : Nodes) (res now : Nat) (xs : List Nat) (q : Nat) :
    lookup (touches ns res now xs) q ≠ none ↔ lookup ns q ≠ none := by
  induction xs generalizing ns with
  | nil => rfl
  | cons x xs ih =>
    simp only [touches]
    rw [ih, lookup_touch]
    cases lookup ns q <;> simp


/-! ## the representation invariant -/

theorem histOf_append (H : List Arrival) (a : Arrival) (r : Nat) :
    histOf (H ++ [a]) r = if a.res = r then histOf H r ++ [(a.t, a.b)] else histOf H r := by
  unfold histOf
  by_cases h : a.res = r <;> simp [List.filter_append, h]

theorem histOf_nil_of_absent (H : List Arrival) (r : Nat) (h : ∀ a ∈ H, a.res ≠ r) : histOf H r = [] := by
  unfold histOf
  rw [List.filter_eq_nil_iff.mpr]
  · rfl
  · intro a ha; simpa using h a ha

structure Rep (infos : List RuleInfo) (s : St) (H : List Arrival) (latest : Nat) : Prop where
  shape : s.ctrls.map Ctrl.info = infos
  nodes : ∀ r a, lookup s.nodes r = some a → Tracks a gN gL (histOf H r) latest
  srcNode : ∀ c ∈ s.ctrls, lookup s.nodes c.rule.src ≠ none
  hNode : ∀ a ∈ H, lookup s.nodes a.res ≠ none
  own : ∀ c ∈ s.ctrls, ∀ n L, c.geom = .own n L → 0 < n ∧ 0 < L ∧ Tracks c.own n L (histOf H c.rule.res) latest
  view : ∀ c ∈ s.ctrls, ∀ Iv, c.geom = .view Iv → 0 < Iv ∧ Iv ≤ gN * gL
  nbad : ∀ c ∈ s.ctrls, c.geom ≠ .bad

theorem Rep.ensure {infos s H latest} (rep : Rep infos s H latest) {now : Nat} (hle : latest ≤ now) (h0 : 0 < now) (res : Nat) :
    Rep infos { s with nodes := ensure s.nodes res now } H now := by
  refine ⟨rep.shape, ?_, ?_, ?_, ?_, rep.view, rep.nbad⟩
  · intro r a ha
    dsimp only at ha
    cases hl : lookup s.nodes r with
    | some x =>
      rw [lookup_ensure_some hl] at ha
      cases ha
      exact (rep.nodes r _ hl).idle hle
    | none =>
      rw [lookup_ensure_none hl] at ha
      split_ifs at ha with e
      cases ha
      subst e
      rw [histOf_nil_of_absent]
      · exact Tracks.fresh gN gL now h0
      · intro a ha e
        exact rep.hNode a ha (by rw [e]; exact hl)
  · intro c hc
    dsimp only
    cases hl : lookup s.nodes c.rule.src with
    | some x => rw [lookup_ensure_some hl]; simp
    | none => exact absurd hl (rep.srcNode c hc)
  · intro a ha
    dsimp only
    cases hl : lookup s.nodes a.res with
    | some x => rw [lookup_ensure_some hl]; simp
    | none => exact absurd hl (rep.hNode a ha)
  · intro c hc n L hg
    obtain ⟨h1, h2, h3⟩ := rep.own c hc n L hg
    exact ⟨h1, h2, h3.idle hle⟩

/-- what a controller reads is the reference count of the resource that feeds it -/
theorem Rep.cur_eq {infos s H latest} (rep : Rep infos s H latest) {now : Nat} (hle : latest ≤ now)
    (c : Ctrl) (hc : c ∈ s.ctrls) :
    c.cur s.nodes now = windowTokens H c.info.feed c.info.L c.info.Iv now := by
  unfold Ctrl.cur windowTokens
  cases hg : c.geom with
  | bad => exact absurd hg (rep.nbad c hc)
  | view Iv =>
    obtain ⟨_, hIv⟩ := rep.view c hc Iv hg
    have hs := rep.srcNode c hc
    cases hl : lookup s.nodes c.rule.src with
    | none => exact absurd hl hs
    | some a =>
      simp only [RuleInfo.feed, RuleInfo.L, RuleInfo.Iv, Ctrl.info, hg]
      exact (rep.nodes _ a hl).read hle (by decide) (by decide) Iv hIv
  | own n L =>
    obtain ⟨hn, hL, tk⟩ := rep.own c hc n L hg
    simp only [RuleInfo.feed, RuleInfo.L, RuleInfo.Iv, Ctrl.info, hg]
    exact tk.read hle hn hL (n * L) (le_refl _)

theorem Rep.blocks_eq {infos s H latest} (rep : Rep infos s H latest) {now : Nat} (hle : latest ≤ now)
    (c : Ctrl) (hc : c ∈ s.ctrls) (b : Nat) :
    c.blocks s.nodes now b = c.rule.thr.exceeds (windowTokens H c.info.feed c.info.L c.info.Iv now + b) := by
  unfold Ctrl.blocks
  rw [rep.cur_eq hle c hc]
  cases hr : c.rule.ref with
  | none => rfl
  | some r =>
    have hs := rep.srcNode c hc
    simp only [Rule.src, hr, Option.getD_some] at hs
    cases hl : lookup s.nodes r with
    | none => exact absurd hl hs
    | some a => simp only [hl]

theorem checkList_eq_refCheck (cs : List Ctrl) (ns : Nodes) (H : List Arrival) (res now b : Nat)
    (h : ∀ c ∈ cs, c.blocks ns now b = c.rule.thr.exceeds (windowTokens H c.info.feed c.info.L c.info.Iv now + b)) :
    checkList cs ns res now b = refCheck RuleInfo.feed (cs.map Ctrl.info) H res now b := by
  induction cs with
  | nil => rfl
  | cons c r ih =>
    simp only [checkList, List.map_cons, refCheck]
    rw [h c (List.mem_cons_self ..), ih (fun c hc => h c (List.mem_cons_of_mem _ hc))]
    rfl


/-! ## the statistic phase preserves the invariant -/

def recOne (res now b : Nat) (c : Ctrl) : Ctrl :=
  match c.geom with
  | .own _ _ => if c.rule.res = res then { c with own := (addAt c.own now b).1 } else c
  | _ => c

theorem standaloneRecord_eq (cs : List Ctrl) (res now b : Nat) :
    standaloneRecord cs res now b = cs.map (recOne res now b) := rfl

theorem recOne_facts (res now b : Nat) (c : Ctrl) :
    (recOne res now b c).idx = c.idx ∧ (recOne res now b c).rule = c.rule ∧ (recOne res now b c).geom = c.geom ∧
    (recOne res now b c).own = (match c.geom with
      | .own _ _ => if c.rule.res = res then (addAt c.own now b).1 else c.own
      | _ => c.own) := by
  unfold recOne
  cases hg : c.geom <;> simp only [] <;> (try split_ifs) <;> simp [hg]

theorem recOne_info (res now b : Nat) (c : Ctrl) : (recOne res now b c).info = c.info := by
  obtain ⟨h1, h2, h3, _⟩ := recOne_facts res now b c
  simp [Ctrl.info, h1, h2, h3]

theorem refW_pass_events (L : Nat) (h : List (Nat × Nat)) (now b lo hi : Nat) :
    refW L (h ++ [(now, 0), (now, b), (now, 0), (now, 0)]) lo hi = refW L (h ++ [(now, b)]) lo hi := by
  simp [refW, List.map_append, List.sum_append]

theorem refW_block_events (L : Nat) (h : List (Nat × Nat)) (now lo hi : Nat) :
    refW L (h ++ [(now, 0)]) lo hi = refW L h lo hi := by
  simp [refW, List.map_append, List.sum_append]

theorem Rep.pass {infos s H now} (rep : Rep infos s H now) (res b : Nat) (hres : lookup s.nodes res ≠ none) :
    Rep infos (statPhase s res now b none) (H ++ [⟨now, res, b⟩]) now := by
  simp only [statPhase]
  refine ⟨?_, ?_, ?_, ?_, ?_, ?_, ?_⟩
  · simp only [standaloneRecord_eq, List.map_map]
    rw [← rep.shape]
    apply List.map_congr_left
    intro c _
    exact recOne_info res now b c
  · intro r a ha
    have := tracks_touches s.nodes res now [0, b, 0, 0] (fun r => histOf H r) now (le_refl _) rep.nodes r a ha
    refine this.congr ?_
    intro lo hi
    rw [histOf_append]
    by_cases hr : r = res
    · subst hr; simp only [if_true, List.map_cons, List.map_nil]; exact refW_pass_events ..
    · have : ¬ res = r := fun e => hr e.symm
      simp only [hr, this, if_false]
  · intro c hc
    simp only [standaloneRecord_eq, List.mem_map] at hc
    obtain ⟨c0, hc0, rfl⟩ := hc
    rw [(recOne_facts res now b c0).2.1]
    exact (lookup_touches_ne_none ..).mpr (rep.srcNode c0 hc0)
  · intro a ha
    rw [lookup_touches_ne_none]
    rcases List.mem_append.mp ha with h | h
    · exact rep.hNode a h
    · simp at h; subst h; exact hres
  · intro c hc n L hg
    simp only [standaloneRecord_eq, List.mem_map] at hc
    obtain ⟨c0, hc0, rfl⟩ := hc
    obtain ⟨_, h2, h3, h4⟩ := recOne_facts res now b c0
    rw [h3] at hg
    obtain ⟨hn, hL, tk⟩ := rep.own c0 hc0 n L hg
    refine ⟨hn, hL, ?_⟩
    rw [h2, h4, hg, histOf_append]
    simp only
    by_cases hr : c0.rule.res = res
    · subst hr
      simp only [if_true]
      exact tk.write (le_refl _) b
    · have : ¬ res = c0.rule.res := fun e => hr e.symm
      simp only [hr, this, if_false]
      exact tk
  · intro c hc Iv hg
    simp only [standaloneRecord_eq, List.mem_map] at hc
    obtain ⟨c0, hc0, rfl⟩ := hc
    rw [(recOne_facts res now b c0).2.2.1] at hg
    exact rep.view c0 hc0 Iv hg
  · intro c hc
    simp only [standaloneRecord_eq, List.mem_map] at hc
    obtain ⟨c0, hc0, rfl⟩ := hc
    rw [(recOne_facts res now b c0).2.2.1]
    exact rep.nbad c0 hc0

theorem Rep.block {infos s H now} (rep : Rep infos s H now) (res b i : Nat) :
    Rep infos (statPhase s res now b (some i)) H now := by
  simp only [statPhase]
  refine ⟨rep.shape, ?_, ?_, ?_, rep.own, rep.view, rep.nbad⟩
  · intro r a ha
    have := tracks_touches s.nodes res now [0] (fun r => histOf H r) now (le_refl _) rep.nodes r a ha
    refine this.congr ?_
    intro lo hi
    by_cases hr : r = res
    · simp only [hr, if_true, List.map_cons, List.map_nil]; exact refW_block_events ..
    · simp only [hr, if_false]
  · intro c hc
    exact (lookup_touches_ne_none ..).mpr (rep.srcNode c hc)
  · intro a ha
    exact (lookup_touches_ne_none ..).mpr (rep.hNode a ha)

/-- **one entry**: the model's decision is the reference decision over the admitted history (with the as-is feed),
    and the invariant is re-established with the history extended exactly when the entry was admitted -/
theorem entry_step {infos s H latest} (rep : Rep infos s H latest) {now : Nat} (hle : latest ≤ now) (h0 : 0 < now)
    (res b : Nat) :
    (entry s res now b).2 = refCheck RuleInfo.feed infos H res now b ∧
    Rep infos (entry s res now b).1 (if (entry s res now b).2.isNone then H ++ [⟨now, res, b⟩] else H) now := by
  have rep1 := rep.ensure hle h0 res
  have hd : checkList s.ctrls (ensure s.nodes res now) res now b = refCheck RuleInfo.feed infos H res now b := by
    rw [← rep.shape]
    exact checkList_eq_refCheck s.ctrls _ H res now b (fun c hc => rep1.blocks_eq (le_refl _) c hc b)
  have he : entry s res now b =
      (statPhase { s with nodes := ensure s.nodes res now } res now b (checkList s.ctrls (ensure s.nodes res now) res now b),
        checkList s.ctrls (ensure s.nodes res now) res now b) := rfl
  rw [he]
  refine ⟨hd, ?_⟩
  dsimp only
  cases checkList s.ctrls (ensure s.nodes res now) res now b with
  | none => simpa using rep1.pass res b (lookup_ensure_self s.nodes res now)
  | some i => simpa using rep1.block res b i


/-! ## loading establishes the invariant -/

theorem histOf_nil (r : Nat) : histOf [] r = [] := rfl

theorem Rep.addCtrl {infos s now} (rep : Rep infos s [] now) (c : Ctrl)
    (hsrc : lookup s.nodes c.rule.src ≠ none)
    (hown : ∀ n L, c.geom = .own n L → 0 < n ∧ 0 < L ∧ Tracks c.own n L [] now)
    (hview : ∀ Iv, c.geom = .view Iv → 0 < Iv ∧ Iv ≤ gN * gL)
    (hbad : c.geom ≠ .bad) :
    Rep (infos ++ [c.info]) { nodes := s.nodes, ctrls := s.ctrls ++ [c] } [] now := by
  refine ⟨by simp [rep.shape], rep.nodes, ?_, by simp, ?_, ?_, ?_⟩
  · intro c' hc'
    rcases List.mem_append.mp hc' with h | h
    · exact rep.srcNode c' h
    · simp at h; subst h; exact hsrc
  · intro c' hc' n L hg
    rcases List.mem_append.mp hc' with h | h
    · exact rep.own c' h n L hg
    · simp at h; subst h; simpa [histOf_nil] using hown n L hg
  · intro c' hc' Iv hg
    rcases List.mem_append.mp hc' with h | h
    · exact rep.view c' h Iv hg
    · simp at h; subst h; exact hview Iv hg
  · intro c' hc'
    rcases List.mem_append.mp hc' with h | h
    · exact rep.nbad c' h
    · simp at h; subst h; exact hbad

theorem loadFrom_rep (rules : List Rule) (now : Nat) (h0 : 0 < now) (i : Nat) (infos : List RuleInfo) (s : St)
    (rep : Rep infos s [] now) :
    Rep (infos ++ compileFrom i rules) (loadFrom s now i rules) [] now := by
  induction rules generalizing i infos s with
  | nil => simpa [compileFrom, loadFrom] using rep
  | cons r rs ih =>
    simp only [compileFrom, loadFrom]
    by_cases hv : r.valid = true
    · simp only [hv, if_true]
      have rep1 := rep.ensure (le_refl now) h0 r.src
      have hself := lookup_ensure_self s.nodes r.src now
      unfold mkCtrl
      cases hg : geomFor r.iv with
      | bad => simpa using ih (i + 1) infos _ rep1
      | view Iv =>
        simp only
        have := rep1.addCtrl { idx := i, rule := r, geom := .view Iv, own := { n := 1, L := 1, slots := [] } }
          hself (by intro n L h; cases h) (by intro Iv' h; cases h; exact geomFor_view hg) (by simp)
        have := ih (i + 1) _ _ this
        simpa [Ctrl.info, List.append_assoc] using this
      | own n L =>
        simp only
        have := rep1.addCtrl { idx := i, rule := r, geom := .own n L, own := mk n L now }
          hself (by intro n' L' h; cases h; exact ⟨(geomFor_own hg).1, (geomFor_own hg).2, Tracks.fresh n L now h0⟩)
          (by intro Iv' h; cases h) (by simp)
        have := ih (i + 1) _ _ this
        simpa [Ctrl.info, List.append_assoc] using this
    · simp only [hv]
      exact ih (i + 1) infos s rep

theorem load_rep (rules : List Rule) (now : Nat) (h0 : 0 < now) : Rep (compile rules) (load rules now) [] now := by
  have h : Rep [] ({} : St) [] now :=
    ⟨rfl, by intro r a h; simp [lookup] at h, by simp, by simp, by simp, by simp, by simp⟩
  simpa [compile, load] using loadFrom_rep rules now h0 0 [] {} h

/-! ## whole runs -/

/-- arrival times never decrease, starting from `prev` -/
def MonoA (prev : Nat) : List Arrival → Prop
  | [] => True
  | a :: r => prev ≤ a.t ∧ MonoA a.t r

theorem runEntries_eq_refRun {infos s H latest} (rep : Rep infos s H latest) (h0 : 0 < latest) (as : List Arrival)
    (hm : MonoA latest as) :
    (runEntries s as).2 = (refRun RuleInfo.feed infos H as).2 ∧
    ∃ latest', latest ≤ latest' ∧ Rep infos (runEntries s as).1 (refRun RuleInfo.feed infos H as).1 latest' := by
  induction as generalizing s H latest with
  | nil => exact ⟨rfl, latest, le_refl _, rep⟩
  | cons a r ih =>
    obtain ⟨h1, h2⟩ := hm
    have h0' : 0 < a.t := lt_of_lt_of_le h0 h1
    obtain ⟨hd, rep'⟩ := entry_step rep h1 h0' a.res a.b
    simp only [runEntries, refRun]
    rw [hd] at rep'
    obtain ⟨ih1, l', hl', ih2⟩ := ih rep' h0' h2
    rw [hd]
    exact ⟨by rw [ih1], l', le_trans h1 hl', ih2⟩


/-! ## facts about the reference alone -/

theorem Thr.exceeds_mono (T : Thr) {N N' : Nat} (h : N ≤ N') (he : T.exceeds N = true) : T.exceeds N' = true := by
  cases T with
  | unbounded => simp [Thr.exceeds] at he
  | invalid => simp [Thr.exceeds] at he
  | frac num den =>
    simp only [Thr.exceeds, decide_eq_true_eq] at he ⊢
    exact lt_of_lt_of_le he (Nat.mul_le_mul_right _ h)

theorem Thr.not_exceeds_zero (T : Thr) : T.exceeds 0 = false := by
  cases T <;> simp [Thr.exceeds]

theorem refCheck_congr (f g : RuleInfo → Nat) (cs : List RuleInfo) (H : List Arrival) (res now b : Nat)
    (h : ∀ c ∈ cs, c.rule.res = res → f c = g c) : refCheck f cs H res now b = refCheck g cs H res now b := by
  induction cs with
  | nil => rfl
  | cons c r ih =>
    simp only [refCheck]
    have ihr := ih (fun c hc => h c (List.mem_cons_of_mem _ hc))
    by_cases hr : c.rule.res = res
    · rw [h c (List.mem_cons_self ..) hr, ihr]
    · simp only [hr, false_and, if_false]; exact ihr

theorem refRun_congr (f g : RuleInfo → Nat) (cs : List RuleInfo) (H : List Arrival) (as : List Arrival)
    (h : ∀ c ∈ cs, f c = g c) : refRun f cs H as = refRun g cs H as := by
  induction as generalizing H with
  | nil => rfl
  | cons a r ih =>
    simp only [refRun]
    rw [refCheck_congr f g cs H a.res a.t a.b (fun c hc _ => h c hc), ih]

/-- admitted ⇔ every rule of the resource has room for the batch -/
theorem refCheck_none_iff (f : RuleInfo → Nat) (cs : List RuleInfo) (H : List Arrival) (res now b : Nat) :
    refCheck f cs H res now b = none ↔
      ∀ c ∈ cs, c.rule.res = res → c.rule.thr.exceeds (windowTokens H (f c) c.L c.Iv now + b) = false := by
  induction cs with
  | nil => simp [refCheck]
  | cons c r ih =>
    simp only [refCheck, List.mem_cons, forall_eq_or_imp]
    by_cases hc : c.rule.res = res ∧ c.rule.thr.exceeds (windowTokens H (f c) c.L c.Iv now + b) = true
    · rw [if_pos hc]
      constructor
      · intro h; cases h
      · intro h; have := h.1 hc.1; rw [hc.2] at this; cases this
    · rw [if_neg hc, ih]
      constructor
      · intro h
        refine ⟨fun hr => ?_, h⟩
        by_contra hx
        exact hc ⟨hr, by simpa using hx⟩
      · intro h; exact h.2

/-- a block names a rule of the resource that really has no room: no spurious block -/
theorem refCheck_some (f : RuleInfo → Nat) (cs : List RuleInfo) (H : List Arrival) (res now b i : Nat)
    (h : refCheck f cs H res now b = some i) :
    ∃ c ∈ cs, c.idx = i ∧ c.rule.res = res ∧ c.rule.thr.exceeds (windowTokens H (f c) c.L c.Iv now + b) = true := by
  induction cs with
  | nil => simp [refCheck] at h
  | cons c r ih =>
    simp only [refCheck] at h
    split_ifs at h with hc
    · cases h; exact ⟨c, List.mem_cons_self .., rfl, hc.1, hc.2⟩
    · obtain ⟨c', hc', h'⟩ := ih h
      exact ⟨c', List.mem_cons_of_mem _ hc', h'⟩

theorem refW_le_of_imp (L : Nat) (h : List (Nat × Nat)) (lo hi lo' hi' : Nat)
    (himp : ∀ e ∈ h, (lo ≤ cbs L e.1 ∧ cbs L e.1 ≤ hi) → (lo' ≤ cbs L e.1 ∧ cbs L e.1 ≤ hi')) :
    refW L h lo hi ≤ refW L h lo' hi' := by
  unfold refW
  induction h with
  | nil => simp
  | cons e r ih =>
    simp only [List.map_cons, List.sum_cons]
    have := ih (fun e he => himp e (List.mem_cons_of_mem _ he))
    have h1 := himp e (List.mem_cons_self ..)
    by_cases hc : lo ≤ cbs L e.1 ∧ cbs L e.1 ≤ hi
    · simp only [hc, h1 hc, and_self, if_true]; omega
    · simp only [hc, if_false]; split_ifs <;> omega

theorem histOf_time_le (H : List Arrival) (latest r : Nat) (h : ∀ a ∈ H, a.t ≤ latest) :
    ∀ e ∈ histOf H r, e.1 ≤ latest := by
  intro e he
  unfold histOf at he
  simp only [List.mem_map, List.mem_filter] at he
  obtain ⟨a, ⟨ha, _⟩, rfl⟩ := he
  exact h a ha

/-- the cap invariant of a history: nothing is newer than `latest`, and every rule that counts its own
    resource has at most `T` tokens in every window of its geometry -/
structure Capped (f : RuleInfo → Nat) (cs : List RuleInfo) (H : List Arrival) (latest : Nat) : Prop where
  le : ∀ a ∈ H, a.t ≤ latest
  cap : ∀ c ∈ cs, f c = c.rule.res → ∀ e, c.rule.thr.exceeds (refW c.L (histOf H c.rule.res) (e + c.L - c.Iv) e) = false

theorem Capped.nil (f : RuleInfo → Nat) (cs : List RuleInfo) (latest : Nat) : Capped f cs [] latest :=
  ⟨by simp, fun c _ _ e => by simp [histOf, refW, Thr.not_exceeds_zero]⟩

theorem Capped.step {f cs H latest} (cp : Capped f cs H latest) (a : Arrival) (hle : latest ≤ a.t)
    (hd : refCheck f cs H a.res a.t a.b = none) : Capped f cs (H ++ [a]) a.t := by
  refine ⟨?_, ?_⟩
  · intro x hx
    rcases List.mem_append.mp hx with h | h
    · exact le_trans (cp.le x h) hle
    · simp at h; subst h; exact le_refl _
  · intro c hc hf e
    rw [histOf_append]
    by_cases hr : a.res = c.rule.res
    · simp only [hr, if_true]
      rw [refW_append]
      have hroom := (refCheck_none_iff f cs H a.res a.t a.b).mp hd c hc hr.symm
      rw [hf] at hroom
      unfold windowTokens at hroom
      by_cases hin : e + c.L - c.Iv ≤ cbs c.L a.t ∧ cbs c.L a.t ≤ e
      · simp only [hin, and_self, if_true]
        -- everything recorded so far lies at or before the current bucket
        have hold : ∀ x ∈ histOf H c.rule.res, cbs c.L x.1 ≤ cbs c.L a.t := fun x hx =>
          cbs_mono c.L (le_trans (histOf_time_le H latest _ cp.le x hx) hle)
        have hle' : refW c.L (histOf H c.rule.res) (e + c.L - c.Iv) e ≤
            refW c.L (histOf H c.rule.res) (cbs c.L a.t + c.L - c.Iv) (cbs c.L a.t) := by
          apply refW_le_of_imp
          intro x hx hw
          have := hold x hx
          exact ⟨by omega, this⟩
        cases hx : c.rule.thr.exceeds (refW c.L (histOf H c.rule.res) (e + c.L - c.Iv) e + a.b) with
        | false => rfl
        | true =>
          have := Thr.exceeds_mono c.rule.thr (Nat.add_le_add_right hle' a.b) hx
          rw [this] at hroom; cases hroom
      · simp only [hin, if_false, Nat.add_zero]
        exact cp.cap c hc hf e
    · simp only [hr, if_false]
      exact cp.cap c hc hf e

theorem Capped.idle {f cs H latest} (cp : Capped f cs H latest) {now : Nat} (h : latest ≤ now) : Capped f cs H now :=
  ⟨fun a ha => le_trans (cp.le a ha) h, cp.cap⟩

theorem refRun_capped {f cs H latest} (cp : Capped f cs H latest) (as : List Arrival) (hm : MonoA latest as) :
    ∃ latest', Capped f cs (refRun f cs H as).1 latest' := by
  induction as generalizing H latest with
  | nil => exact ⟨latest, cp⟩
  | cons a r ih =>
    obtain ⟨h1, h2⟩ := hm
    simp only [refRun]
    cases hd : refCheck f cs H a.res a.t a.b with
    | none => simpa using ih (cp.step a h1 hd) h2
    | some i => simpa using ih (cp.idle h1) h2


theorem refRun_snoc (f : RuleInfo → Nat) (cs : List RuleInfo) (H : List Arrival) (as : List Arrival) (a : Arrival) :
    (refRun f cs H (as ++ [a])).2 = (refRun f cs H as).2 ++ [refCheck f cs (refRun f cs H as).1 a.res a.t a.b] := by
  induction as generalizing H with
  | nil => simp [refRun]
  | cons x r ih => simp only [List.cons_append, refRun, ih]

theorem MonoA.weaken {p q : Nat} (h : p ≤ q) {as : List Arrival} (hm : MonoA q as) : MonoA p as := by
  cases as with
  | nil => trivial
  | cons x r => exact ⟨le_trans h hm.1, hm.2⟩

theorem MonoA.prefix {p : Nat} {as bs : List Arrival} (hm : MonoA p (as ++ bs)) : MonoA p as := by
  induction as generalizing p with
  | nil => trivial
  | cons x r ih => exact ⟨hm.1, ih hm.2⟩

/-- the invariant after a run, aged no further than any bound `m` on the arrival times -/
theorem runEntries_rep_le {infos s H latest} (rep : Rep infos s H latest) (h0 : 0 < latest) (m : Nat) (hlm : latest ≤ m)
    (as : List Arrival) (hm : MonoA latest as) (hle : ∀ x ∈ as, x.t ≤ m) :
    ∃ l, l ≤ m ∧ 0 < l ∧ Rep infos (runEntries s as).1 (refRun RuleInfo.feed infos H as).1 l := by
  induction as generalizing s H latest with
  | nil => exact ⟨latest, hlm, h0, rep⟩
  | cons x r ih =>
    obtain ⟨hd, rep'⟩ := entry_step rep hm.1 (lt_of_lt_of_le h0 hm.1) x.res x.b
    simp only [runEntries, refRun]
    rw [hd] at rep'
    exact ih rep' (lt_of_lt_of_le h0 hm.1) (hle x (List.mem_cons_self ..)) hm.2
      (fun y hy => hle y (List.mem_cons_of_mem _ hy))

/-! ## small steps: the model at yield-point granularity is the reference small step -/

theorem checkPhase_spec {infos s H latest} (rep : Rep infos s H latest) {now : Nat} (hle : latest ≤ now) (h0 : 0 < now)
    (res b : Nat) :
    (checkPhase s res now b).2 = refCheck RuleInfo.feed infos H res now b ∧
    Rep infos (checkPhase s res now b).1 H now ∧
    lookup (checkPhase s res now b).1.nodes res ≠ none ∧
    ∀ q, lookup s.nodes q ≠ none → lookup (checkPhase s res now b).1.nodes q ≠ none := by
  have rep1 := rep.ensure hle h0 res
  refine ⟨?_, rep1, lookup_ensure_self s.nodes res now, ?_⟩
  · show checkList s.ctrls (ensure s.nodes res now) res now b = _
    rw [← rep.shape]
    exact checkList_eq_refCheck s.ctrls _ H res now b (fun c hc => rep1.blocks_eq (le_refl _) c hc b)
  · intro q hq
    show lookup (ensure s.nodes res now) q ≠ none
    cases hl : lookup s.nodes q with
    | none => exact absurd hl hq
    | some x => rw [lookup_ensure_some hl]; simp

theorem statPhase_nodes_ne_none (s : St) (res now b : Nat) (d : Option Nat) (q : Nat) :
    lookup (statPhase s res now b d).nodes q ≠ none ↔ lookup s.nodes q ≠ none := by
  cases d <;> simp only [statPhase] <;> exact lookup_touches_ne_none ..

/-- every thread that is parked between check and record has its resource node -/
def ParkedOk (s : St) (ths : List Thread) : Prop :=
  ∀ th ∈ ths, ∀ d, th.st = some (d, false) → lookup s.nodes th.res ≠ none

theorem ParkedOk.mono {s s' : St} {ths : List Thread} (h : ParkedOk s ths)
    (hn : ∀ q, lookup s.nodes q ≠ none → lookup s'.nodes q ≠ none) : ParkedOk s' ths :=
  fun th hth d hd => hn _ (h th hth d hd)

theorem stepThread_spec {infos s H latest} (rep : Rep infos s H latest) {now : Nat} (hle : latest ≤ now) (h0 : 0 < now)
    (ths : List Thread) (pk : ParkedOk s ths) (i : Nat) :
    (stepThread s now ths i).2 = (refStepThread RuleInfo.feed infos H now ths i).2 ∧
    Rep infos (stepThread s now ths i).1 (refStepThread RuleInfo.feed infos H now ths i).1 now ∧
    ParkedOk (stepThread s now ths i).1 (stepThread s now ths i).2 := by
  unfold stepThread refStepThread
  cases hi : ths[i]? with
  | none => exact ⟨rfl, ⟨rep.shape, fun r a h => (rep.nodes r a h).idle hle, rep.srcNode, rep.hNode,
      fun c hc n L hg => let ⟨a, b, t⟩ := rep.own c hc n L hg; ⟨a, b, t.idle hle⟩, rep.view, rep.nbad⟩, pk⟩
  | some th =>
    have hmem : th ∈ ths := List.mem_of_getElem? hi
    simp only
    cases hst : th.st with
    | none =>
      obtain ⟨hd, rep1, hself, hmono⟩ := checkPhase_spec rep hle h0 th.res th.b
      simp only
      refine ⟨by rw [hd], rep1, ?_⟩
      intro t ht d hd'
      rcases List.mem_or_eq_of_mem_set ht with h | h
      · exact hmono _ (pk t h d hd')
      · subst h; exact hself
    | some p =>
      obtain ⟨d, fl⟩ := p
      cases fl with
      | true =>
        simp only
        exact ⟨trivial, ⟨rep.shape, fun r a h => (rep.nodes r a h).idle hle, rep.srcNode, rep.hNode,
          fun c hc n L hg => let ⟨a, b, t⟩ := rep.own c hc n L hg; ⟨a, b, t.idle hle⟩, rep.view, rep.nbad⟩, pk⟩
      | false =>
        simp only
        have hnode := pk th hmem d hst
        have repn : Rep infos s H now := ⟨rep.shape, fun r a h => (rep.nodes r a h).idle hle, rep.srcNode, rep.hNode,
          fun c hc n L hg => let ⟨a, b, t⟩ := rep.own c hc n L hg; ⟨a, b, t.idle hle⟩, rep.view, rep.nbad⟩
        refine ⟨trivial, ?_, ?_⟩
        · cases d with
          | none => simpa using repn.pass th.res th.b hnode
          | some j => simpa using repn.block th.res th.b j
        · intro t ht d' hd'
          rw [statPhase_nodes_ne_none]
          rcases List.mem_or_eq_of_mem_set ht with h | h
          · exact pk t h d' hd'
          · subst h; exact hnode

theorem runSched_eq_ref {infos s H latest} (rep : Rep infos s H latest) {now : Nat} (hle : latest ≤ now) (h0 : 0 < now)
    (ths : List Thread) (pk : ParkedOk s ths) (sched : List Nat) :
    (runSched s now ths sched).2 = (refRunSched RuleInfo.feed infos H now ths sched).2 ∧
    Rep infos (runSched s now ths sched).1 (refRunSched RuleInfo.feed infos H now ths sched).1 now := by
  induction sched generalizing s H latest ths with
  | nil =>
    exact ⟨rfl, ⟨rep.shape, fun r a h => (rep.nodes r a h).idle hle, rep.srcNode, rep.hNode,
      fun c hc n L hg => let ⟨a, b, t⟩ := rep.own c hc n L hg; ⟨a, b, t.idle hle⟩, rep.view, rep.nbad⟩⟩
  | cons i r ih =>
    obtain ⟨h1, h2, h3⟩ := stepThread_spec rep hle h0 ths pk i
    simp only [runSched, refRunSched]
    rw [← h1]
    exact ih h2 (le_refl _) _ h3


/-! ## the overshoot bound for `k` callers inside the admission path -/

/-- the largest count a threshold lets through (`none`: no finite cap) -/
def Thr.cap : Thr → Option Nat
  | .frac num den => if den = 0 then none else some (num / den)
  | _ => none

theorem Thr.exceeds_iff_cap (T : Thr) (N : Nat) : T.exceeds N = true ↔ ∃ t, T.cap = some t ∧ t < N := by
  cases T with
  | unbounded => simp [Thr.exceeds, Thr.cap]
  | invalid => simp [Thr.exceeds, Thr.cap]
  | frac num den =>
    simp only [Thr.exceeds, Thr.cap, decide_eq_true_eq]
    by_cases hd : den = 0
    · simp [hd]
    · simp only [hd, if_false, Option.some.injEq, exists_eq_left']
      exact (Nat.div_lt_iff_lt_mul (Nat.pos_of_ne_zero hd)).symm

theorem sum_map_set {α : Type} (g : α → Nat) (ths : List α) (i : Nat) (th th' : α) (h : ths[i]? = some th) :
    ((ths.set i th').map g).sum + g th = (ths.map g).sum + g th' := by
  induction ths generalizing i with
  | nil => simp at h
  | cons a r ih =>
    cases i with
    | zero =>
      simp only [List.getElem?_cons_zero, Option.some.injEq] at h; subst h
      simp only [List.set_cons_zero, List.map_cons, List.sum_cons]; omega
    | succ j =>
      simp only [List.getElem?_cons_succ] at h
      have := ih j h
      simp only [List.set_cons_succ, List.map_cons, List.sum_cons]; omega

/-- tokens an admitted, not yet recorded thread is about to add to resource `R` -/
def pending (R : Nat) (th : Thread) : Nat := if th.st = some (none, false) ∧ th.res = R then th.b else 0
/-- 1 for a thread parked between its check and its record -/
def parked (th : Thread) : Nat := match th.st with | some (_, false) => 1 | _ => 0
def nParked (ths : List Thread) : Nat := (ths.map parked).sum

/-- the schedule never lets more than `k` callers be inside the admission path at once -/
def WidthOk (k : Nat) (f : RuleInfo → Nat) (cs : List RuleInfo) (H : List Arrival) (now : Nat) (ths : List Thread) :
    List Nat → Prop
  | [] => True
  | i :: r => (∀ th, ths[i]? = some th → th.st = none → nParked ths < k) ∧
      WidthOk k f cs (refStepThread f cs H now ths i).1 now (refStepThread f cs H now ths i).2 r

theorem pending_le (R B : Nat) (ths : List Thread) (hB : ∀ th ∈ ths, th.b ≤ B) :
    (ths.map (pending R)).sum ≤ nParked ths * B := by
  unfold nParked
  induction ths with
  | nil => simp
  | cons a r ih =>
    have := ih (fun th h => hB th (List.mem_cons_of_mem _ h))
    have ha := hB a (List.mem_cons_self ..)
    simp only [List.map_cons, List.sum_cons, Nat.add_mul]
    have : pending R a ≤ parked a * B := by
      unfold pending parked
      split_ifs with h
      · rw [h.1]; simpa using ha
      · exact Nat.zero_le _
    omega

theorem windowTokens_append_le (H : List Arrival) (a : Arrival) (R L Iv now : Nat) :
    windowTokens (H ++ [a]) R L Iv now ≤ windowTokens H R L Iv now + (if a.res = R then a.b else 0) := by
  unfold windowTokens
  rw [histOf_append]
  split_ifs with h
  · rw [refW_append]; split_ifs <;> omega
  · omega

structure Burst (f : RuleInfo → Nat) (cs : List RuleInfo) (c : RuleInfo) (t k B now : Nat) (H : List Arrival) (ths : List Thread) : Prop where
  bound : windowTokens H c.rule.res c.L c.Iv now + (ths.map (pending c.rule.res)).sum ≤ t + (k - 1) * B
  small : ∀ th ∈ ths, th.b ≤ B

theorem Burst.step {f cs c t k B now H ths} (bu : Burst f cs c t k B now H ths) (hc : c ∈ cs) (hf : f c = c.rule.res)
    (hcap : c.rule.thr.cap = some t) (i : Nat)
    (hw : ∀ th, ths[i]? = some th → th.st = none → nParked ths < k) :
    Burst f cs c t k B now (refStepThread f cs H now ths i).1 (refStepThread f cs H now ths i).2 := by
  unfold refStepThread
  cases hi : ths[i]? with
  | none => exact bu
  | some th =>
    have hmem : th ∈ ths := List.mem_of_getElem? hi
    have hsmall : ∀ th' : Thread, th'.b = th.b → ∀ x ∈ ths.set i th', x.b ≤ B := by
      intro th' hb x hx
      rcases List.mem_or_eq_of_mem_set hx with h | h
      · exact bu.small x h
      · subst h; rw [hb]; exact bu.small th hmem
    simp only
    cases hst : th.st with
    | none =>
      simp only
      refine ⟨?_, hsmall _ rfl⟩
      have hs := sum_map_set (pending c.rule.res) ths i th
        { th with st := some (refCheck f cs H th.res now th.b, false) } hi
      have hp0 : pending c.rule.res th = 0 := by simp [pending, hst]
      have hb := bu.bound
      by_cases hadm : refCheck f cs H th.res now th.b = none ∧ th.res = c.rule.res
      · have hp1 : pending c.rule.res { th with st := some (refCheck f cs H th.res now th.b, false) } = th.b := by
          unfold pending; exact if_pos ⟨by rw [hadm.1], hadm.2⟩
        have hroom := (refCheck_none_iff f cs H th.res now th.b).mp hadm.1 c hc hadm.2.symm
        rw [hf] at hroom
        have hle : windowTokens H c.rule.res c.L c.Iv now + th.b ≤ t := by
          by_contra hx
          have : c.rule.thr.exceeds (windowTokens H c.rule.res c.L c.Iv now + th.b) = true :=
            (Thr.exceeds_iff_cap _ _).mpr ⟨t, hcap, by omega⟩
          rw [this] at hroom; cases hroom
        have hpk := hw th hi hst
        have hpl := pending_le c.rule.res B ths bu.small
        have : nParked ths * B ≤ (k - 1) * B := Nat.mul_le_mul_right _ (by omega)
        omega
      · have hp1 : pending c.rule.res { th with st := some (refCheck f cs H th.res now th.b, false) } = 0 := by
          unfold pending
          rw [if_neg]
          intro h
          apply hadm
          simp only [Option.some.injEq, Prod.mk.injEq, and_true] at h
          exact h
        omega
    | some p =>
      obtain ⟨d, fl⟩ := p
      cases fl with
      | true => simpa using bu
      | false =>
        simp only
        refine ⟨?_, hsmall _ rfl⟩
        have hs := sum_map_set (pending c.rule.res) ths i th { th with st := some (d, true) } hi
        have hp1 : pending c.rule.res { th with st := some (d, true) } = 0 := by simp [pending]
        have hb := bu.bound
        cases d with
        | some j =>
          have hp0 : pending c.rule.res th = 0 := by simp [pending, hst]
          simp only [Option.isNone_some, Bool.false_eq_true, if_false]
          omega
        | none =>
          simp only [Option.isNone_none, if_true]
          have hwl := windowTokens_append_le H { t := now, res := th.res, b := th.b } c.rule.res c.L c.Iv now
          dsimp only at hwl
          by_cases hr : th.res = c.rule.res
          · have hp0 : pending c.rule.res th = th.b := by simp [pending, hst, hr]
            rw [if_pos hr] at hwl
            omega
          · have hp0 : pending c.rule.res th = 0 := by simp [pending, hr]
            rw [if_neg hr] at hwl
            omega

theorem Burst.run {f cs c t k B now H ths} (bu : Burst f cs c t k B now H ths) (hc : c ∈ cs) (hf : f c = c.rule.res)
    (hcap : c.rule.thr.cap = some t) (sched : List Nat) (hw : WidthOk k f cs H now ths sched) :
    Burst f cs c t k B now (refRunSched f cs H now ths sched).1 (refRunSched f cs H now ths sched).2 := by
  induction sched generalizing H ths with
  | nil => exact bu
  | cons i r ih =>
    simp only [refRunSched]
    exact ih (bu.step hc hf hcap i hw.1) hw.2


/-! ## the executed general definitions restricted to reject-only rule lists are the core -/

def RejectOnly (cs : List Ctrl) : Prop := ∀ c ∈ cs, c.rule.kind = .reject

theorem reloadFrom_nil_eq_loadFrom (rules : List Rule) (hk : ∀ r ∈ rules, r.kind = .reject) (now i : Nat) (acc : St) :
    reloadFrom [] acc now i rules = loadFrom acc now i rules := by
  induction rules generalizing acc i with
  | nil => rfl
  | cons r rs ih =>
    have hr := hk r (List.mem_cons_self ..)
    have ih' := fun acc i => ih (fun x hx => hk x (List.mem_cons_of_mem _ hx)) i acc
    simp only [reloadFrom, loadFrom, List.map_nil, reuseIdx, mkCtrlG, hr]
    by_cases hv : r.valid = true
    · simp only [hv, if_true]
      cases mkCtrl i r now <;> simp only [ih']
    · simp only [hv]
      exact ih' acc (i + 1)

theorem loadFrom_rejectOnly (rules : List Rule) (hk : ∀ r ∈ rules, r.kind = .reject) (now i : Nat) (acc : St)
    (ha : RejectOnly acc.ctrls) : RejectOnly (loadFrom acc now i rules).ctrls := by
  induction rules generalizing acc i with
  | nil => exact ha
  | cons r rs ih =>
    have hr := hk r (List.mem_cons_self ..)
    have ih' := fun acc i ha => ih (fun x hx => hk x (List.mem_cons_of_mem _ hx)) i acc ha
    simp only [loadFrom]
    split_ifs
    · cases hm : mkCtrl i r now with
      | none => exact ih' _ _ ha
      | some c =>
        apply ih'
        intro x hx
        rcases List.mem_append.mp hx with h | h
        · exact ha x h
        · simp at h; subst h
          unfold mkCtrl at hm
          split at hm <;> simp at hm <;> subst hm <;> exact hr
    · exact ih' _ _ ha

/-- a first load of reject rules through the general loader is the core `load` -/
theorem reloadG_eq_load (rules : List Rule) (hk : ∀ r ∈ rules, r.kind = .reject) (now : Nat) :
    reloadG {} rules now 0 = load rules now :=
  reloadFrom_nil_eq_loadFrom rules hk now 0 _

theorem load_rejectOnly (rules : List Rule) (hk : ∀ r ∈ rules, r.kind = .reject) (now : Nat) :
    RejectOnly (load rules now).ctrls :=
  loadFrom_rejectOnly rules hk now 0 {} (by intro c hc; simp at hc)

theorem chainG_eq_checkList (cs : List Ctrl) (hk : RejectOnly cs) (ns : Nodes) (res b t : Nat) :
    chainG (modelOps ns) res b cs t = (cs, t, checkList cs ns res (t / nsPerMs) b) := by
  induction cs with
  | nil => rfl
  | cons c r ih =>
    have hc := hk c (List.mem_cons_self ..)
    have ih' := ih (fun x hx => hk x (List.mem_cons_of_mem _ hx))
    simp only [chainG, checkList, modelOps, hc]
    by_cases hr : c.rule.res = res
    · simp only [hr, ne_eq, not_true_eq_false, if_false, true_and]
      by_cases hb : c.blocks ns (t / nsPerMs) b = true
      · simp [hb]
      · simp only [hb]
        have := ih'
        simp only [modelOps] at this
        rw [this]
        simp
    · simp only [hr, ne_eq, not_false_eq_true, if_true, false_and, if_false]
      have := ih'
      simp only [modelOps] at this
      rw [this]

/-- one entry through the general slot = the core `entry` at the millisecond of `t`; no time passes -/
theorem entryG_eq_entry (s : St) (hk : RejectOnly s.ctrls) (res t b : Nat) :
    entryG s res t b = ((entry s res (t / nsPerMs) b).1, t, (entry s res (t / nsPerMs) b).2) := by
  unfold entryG checkPhaseG
  simp only [chainG_eq_checkList s.ctrls hk]
  rfl

theorem entry_rejectOnly (s : St) (hk : RejectOnly s.ctrls) (res now b : Nat) : RejectOnly (entry s res now b).1.ctrls := by
  have he : (entry s res now b).1 =
      statPhase { s with nodes := ensure s.nodes res now } res now b (checkList s.ctrls (ensure s.nodes res now) res now b) := rfl
  rw [he]
  cases checkList s.ctrls (ensure s.nodes res now) res now b with
  | some i => exact hk
  | none =>
    intro c hc
    simp only [statPhase, standaloneRecord_eq, List.mem_map] at hc
    obtain ⟨c0, hc0, rfl⟩ := hc
    rw [(recOne_facts res now b c0).2.1]
    exact hk c0 hc0

/-- what the driver does with a list of arrivals: `clock a.t` (never backwards), then the entry -/
def runG (s : St) (t : Nat) : List Arrival → St × List (Option Nat)
  | [] => (s, [])
  | a :: r =>
    let x := entryG s a.res (max t (a.t * nsPerMs)) a.b
    let y := runG x.1 x.2.1 r
    (y.1, x.2.2 :: y.2)

theorem runG_eq_runEntries (s : St) (hk : RejectOnly s.ctrls) (t0 : Nat) (as : List Arrival) (hm : MonoA t0 as) :
    runG s (t0 * nsPerMs) as = runEntries s as := by
  induction as generalizing s t0 with
  | nil => rfl
  | cons a r ih =>
    have hmax : max (t0 * nsPerMs) (a.t * nsPerMs) = a.t * nsPerMs :=
      max_eq_right (Nat.mul_le_mul_right _ hm.1)
    have hdiv : a.t * nsPerMs / nsPerMs = a.t := Nat.mul_div_cancel _ (by decide)
    simp only [runG, runEntries, hmax, entryG_eq_entry s hk, hdiv]
    rw [ih _ (entry_rejectOnly s hk a.res a.t a.b) a.t hm.2]


/-- **the chain walk is the same function for the model and for the reference**: if two controller lists are
related pairwise (same rule, same id, same `lastPassedTime`) and their reject rules answer alike from the current
millisecond on, the walk yields the same decision and the same clock, and leaves related lists. The throttling
part needs no hypothesis: both sides run `Throttle.doCheck` on equal data. -/
theorem chainG_rel {α β : Type} (A : ChainOps α) (B : ChainOps β) (R : α → β → Prop)
    (hrule : ∀ a b, R a b → A.rule a = B.rule b ∧ A.idx a = B.idx b ∧ A.last a = B.last b)
    (hset : ∀ a b l, R a b → R (A.setLast a l) (B.setLast b l))
    (res bt : Nat) (as : List α) (bs : List β) (hR : List.Forall₂ R as bs) (t : Nat)
    (hblk : ∀ a b, R a b → (B.rule b).kind = .reject → ∀ ms, t / nsPerMs ≤ ms → A.blocks a ms bt = B.blocks b ms bt) :
    (chainG A res bt as t).2 = (chainG B res bt bs t).2 ∧
    List.Forall₂ R (chainG A res bt as t).1 (chainG B res bt bs t).1 := by
  induction hR generalizing t with
  | nil => exact ⟨rfl, List.Forall₂.nil⟩
  | @cons a b as' bs' hab _ ih =>
    obtain ⟨h1, h2, h3⟩ := hrule a b hab
    simp only [chainG, h1, h2, h3]
    by_cases hr : (B.rule b).res ≠ res
    · rw [if_pos hr, if_pos hr]
      obtain ⟨e, f⟩ := ih t hblk
      exact ⟨by simp [e], List.Forall₂.cons hab f⟩
    · rw [if_neg hr, if_neg hr]
      cases hk : (B.rule b).kind with
      | reject =>
        simp only
        rw [hblk a b hab hk _ (le_refl _)]
        by_cases hb : B.blocks b (t / nsPerMs) bt = true
        · simp only [hb, if_true]
          exact ⟨trivial, List.Forall₂.cons hab ‹_›⟩
        · simp only [hb, Bool.false_eq_true, if_false]
          obtain ⟨e, f⟩ := ih t hblk
          exact ⟨by simp [e], List.Forall₂.cons hab f⟩
      | throttle maxQ =>
        simp only
        rcases hd : Throttle.doCheck ((maxQ * nsPerMs : Nat) : Int) (B.last b) (t : Int)
            (throttleReq (B.rule b).thr (B.rule b).iv bt) with ⟨l, o⟩
        cases o with
        | block =>
          simp only
          exact ⟨trivial, List.Forall₂.cons (hset a b l hab) ‹_›⟩
        | pass =>
          simp only
          obtain ⟨e, f⟩ := ih t hblk
          exact ⟨by simp [e], List.Forall₂.cons (hset a b l hab) f⟩
        | wait w =>
          simp only
          have hmono : t / nsPerMs ≤ (t + w.toNat) / nsPerMs := Nat.div_le_div_right (Nat.le_add_right _ _)
          obtain ⟨e, f⟩ := ih (t + w.toNat) (fun a b hab hk ms hms => hblk a b hab hk ms (le_trans hmono hms))
          exact ⟨by simp [e], List.Forall₂.cons (hset a b l hab) f⟩


end Sentinel.FlowReject
