import Mathlib.Tactic
import Sentinel.Model.BreakerRace
/-!
# Lemmas for the small-step breaker (C12): frame lemmas for `begin`, reachability, the inductive invariants
-/
namespace Sentinel.BreakerRace

/-! ## `begin` (start of a call) touches only the window counters -/

section beginFrame
variable (cfg : Cfg) (s : Sh) (res : List Bool) (ps : List Call)

@[simp] theorem begin_st : (begin cfg s res ps).1.st = s.st := by
  rcases ps with _ | ⟨c, r⟩ <;> [rfl; (cases c <;> rfl)]
@[simp] theorem begin_deadline : (begin cfg s res ps).1.deadline = s.deadline := by
  rcases ps with _ | ⟨c, r⟩ <;> [rfl; (cases c <;> rfl)]
@[simp] theorem begin_probe : (begin cfg s res ps).1.probe = s.probe := by
  rcases ps with _ | ⟨c, r⟩ <;> [rfl; (cases c <;> rfl)]
@[simp] theorem begin_clock : (begin cfg s res ps).1.clock = s.clock := by
  rcases ps with _ | ⟨c, r⟩ <;> [rfl; (cases c <;> rfl)]
@[simp] theorem begin_log : (begin cfg s res ps).1.log = s.log := by
  rcases ps with _ | ⟨c, r⟩ <;> [rfl; (cases c <;> rfl)]
@[simp] theorem begin_hist : (begin cfg s res ps).1.hist = s.hist := by
  rcases ps with _ | ⟨c, r⟩ <;> [rfl; (cases c <;> rfl)]
@[simp] theorem begin_admits : (begin cfg s res ps).1.admits = s.admits := by
  rcases ps with _ | ⟨c, r⟩ <;> [rfl; (cases c <;> rfl)]
@[simp] theorem begin_openedAt : (begin cfg s res ps).1.openedAt = s.openedAt := by
  rcases ps with _ | ⟨c, r⟩ <;> [rfl; (cases c <;> rfl)]
@[simp] theorem begin_epoch : (begin cfg s res ps).1.epoch = s.epoch := by
  rcases ps with _ | ⟨c, r⟩ <;> [rfl; (cases c <;> rfl)]
@[simp] theorem begin_fresh : (begin cfg s res ps).1.fresh = s.fresh := by
  rcases ps with _ | ⟨c, r⟩ <;> [rfl; (cases c <;> rfl)]
@[simp] theorem begin_early : (begin cfg s res ps).1.early = s.early := by
  rcases ps with _ | ⟨c, r⟩ <;> [rfl; (cases c <;> rfl)]
@[simp] theorem begin_earlyNoDl : (begin cfg s res ps).1.earlyNoDl = s.earlyNoDl := by
  rcases ps with _ | ⟨c, r⟩ <;> [rfl; (cases c <;> rfl)]
@[simp] theorem begin_earlyStale : (begin cfg s res ps).1.earlyStale = s.earlyStale := by
  rcases ps with _ | ⟨c, r⟩ <;> [rfl; (cases c <;> rfl)]
@[simp] theorem begin_earlyOut : (begin cfg s res ps).1.earlyOut = s.earlyOut := by
  rcases ps with _ | ⟨c, r⟩ <;> [rfl; (cases c <;> rfl)]

@[simp] theorem begin_res : (begin cfg s res ps).2.res = res := by
  rcases ps with _ | ⟨c, r⟩ <;> [rfl; (cases c <;> rfl)]

/-- a thread that has just started a call owes no notification … -/
@[simp] theorem begin_owes : (begin cfg s res ps).2.pc.owes = none := by
  rcases ps with _ | ⟨c, r⟩ <;> [rfl; (cases c <;> rfl)]
/-- … and is not parked before the Open→HalfOpen CAS -/
@[simp] theorem begin_not_tpCas (blk : Bool) (ep : Nat) (fr : Bool) :
    (begin cfg s res ps).2.pc ≠ .tpCas blk ep fr := by
  rcases ps with _ | ⟨c, r⟩
  · simp [begin]
  · cases c <;> simp [begin]

/-- … nor between the clock read and the deadline load of a retry check -/
@[simp] theorem begin_not_tpLoad (blk : Bool) (now : Nat) :
    (begin cfg s res ps).2.pc ≠ .tpLoad blk now := by
  rcases ps with _ | ⟨c, r⟩
  · simp [begin]
  · cases c <;> simp [begin]

end beginFrame

/-! ## the transition history is a path -/

theorem walk_append_one (a : St) (l : List Note) (n : Note) :
    walk a (l ++ [n]) = (walk a l).bind fun b => if n.prev = b ∧ legal n.prev n.to = true then some n.to else none := by
  induction l generalizing a with
  | nil => simp [walk]
  | cons m r ih =>
    simp only [List.cons_append, walk]
    split_ifs with h
    · exact ih _
    · rfl

/-- one step keeps "the history is a legal path from Closed to the current state word" -/
theorem step_path (cfg : Cfg) (i : Nat) (s : Sh) (t : Th) (h : walk .closed s.hist = some s.st) :
    walk .closed (step cfg i s t).1.hist = some (step cfg i s t).1.st := by
  unfold step
  split <;> (try split) <;> (try split) <;> (try split) <;> simp_all [fin, finR, walk_append_one, legal]

/-- the state word changes only in a step that wins a CAS whose expected value is the old word; the change is
    along a legal edge and is appended to the history under the stepping thread's id -/
theorem step_transition (cfg : Cfg) (i : Nat) (s : Sh) (t : Th) :
    ((step cfg i s t).1.st = s.st ∧ (step cfg i s t).1.hist = s.hist) ∨
    ((step cfg i s t).1.hist = s.hist ++ [⟨s.st, (step cfg i s t).1.st, i⟩] ∧
      legal s.st (step cfg i s t).1.st = true ∧ t.pc.casExpect = some s.st) := by
  unfold step
  split <;> (try split) <;> (try split) <;> (try split) <;> simp_all [fin, finR, legal, Pc.casExpect]

/-- listener calls of a step are made by the stepping thread, and only for a transition it owed (a CAS it
    won earlier, or wins in this very step) -/
theorem step_log (cfg : Cfg) (i : Nat) (s : Sh) (t : Th) :
    (step cfg i s t).1.log = s.log ∨
    (∃ p q, (step cfg i s t).1.log = s.log ++ [⟨p, q, i⟩] ∧
      (t.pc.owes = some (p, q) ∨ (t.pc.casExpect = some p ∧ s.st = p ∧ (step cfg i s t).1.st = q))) := by
  unfold step
  split <;> (try split) <;> (try split) <;> (try split) <;> simp_all [fin, finR, Pc.casExpect, Pc.owes]

theorem step_early_split (cfg : Cfg) (i : Nat) (s : Sh) (t : Th)
    (h : s.early = (s.earlyNoDl || s.earlyStale || s.earlyOut)) :
    (step cfg i s t).1.early =
      ((step cfg i s t).1.earlyNoDl || (step cfg i s t).1.earlyStale || (step cfg i s t).1.earlyOut) := by
  unfold step
  split <;> (try split) <;> (try split) <;> (try split) <;> simp_all [fin, finR]
  all_goals
    rename_i ep fr _ _ _
    generalize decide (s.clock < s.openedAt + cfg.timeout) = e
    by_cases h2 : ep = s.epoch <;>
      cases s.earlyNoDl <;> cases s.earlyStale <;> cases s.earlyOut <;> cases e <;> cases fr <;> simp [h2]

/-- the thread is parked before cas(Open,HalfOpen), the word is Open, and a full retry timeout has not yet elapsed
    since the breaker opened: its next step admits a probe early -/
def earlyWinB (cfg : Cfg) (s : Sh) (t : Th) : Bool :=
  match t.pc with
  | .tpCas _ _ _ => s.st == .opened && decide (s.clock < s.openedAt + cfg.timeout)
  | _ => false

/-- the monitor `early` is raised by exactly those steps -/
theorem step_early_eq (cfg : Cfg) (i : Nat) (s : Sh) (t : Th) :
    (step cfg i s t).1.early = (s.early || earlyWinB cfg s t) := by
  unfold step
  split <;> (try split) <;> (try split) <;> (try split) <;> simp_all [fin, finR, earlyWinB]

/-! ## timing: the deadline is a full timeout after the opening once it has been stored -/

/-- shared part -/
def TimeInv (cfg : Cfg) (s : Sh) : Prop :=
  s.openedAt ≤ s.clock ∧ (s.fresh = true → s.openedAt + cfg.timeout ≤ s.deadline) ∧ s.earlyOut = false

/-- per-thread part: a TryPass parked before its CAS that loaded a stored deadline of the *current* opening
    is parked at a time when the full timeout has elapsed -/
def ThTime (cfg : Cfg) (s : Sh) (t : Th) : Prop :=
  (∀ blk ep fr, t.pc = .tpCas blk ep fr →
    ep ≤ s.epoch ∧ (fr = true → ep = s.epoch → s.openedAt + cfg.timeout ≤ s.clock)) ∧
  -- a clock reading remembered by a retry check is never ahead of the clock
  (∀ blk now, t.pc = .tpLoad blk now → now ≤ s.clock)

theorem step_epoch_cases (cfg : Cfg) (i : Nat) (s : Sh) (t : Th) :
    (step cfg i s t).1.clock = s.clock ∧
      (((step cfg i s t).1.epoch = s.epoch ∧ (step cfg i s t).1.openedAt = s.openedAt) ∨
        (step cfg i s t).1.epoch = s.epoch + 1) := by
  unfold step
  split <;> (try split) <;> (try split) <;> (try split) <;> simp_all [fin, finR]

theorem step_time_own (cfg : Cfg) (i : Nat) (s : Sh) (t : Th) (h : TimeInv cfg s) (ht : ThTime cfg s t) :
    TimeInv cfg (step cfg i s t).1 ∧ ThTime cfg (step cfg i s t).1 (step cfg i s t).2 := by
  unfold step
  split <;> (try split) <;> (try split) <;> (try split) <;>
    simp_all [TimeInv, ThTime, fin, finR] <;>
    first
      | omega
      | (intro hf; have := h.2.1 hf; omega)
      | (intro h1 h2; by_contra h3; simp at h3; have := ht.2 h3 h2; omega)

theorem step_time_other (cfg : Cfg) (i : Nat) (s : Sh) (t u : Th) (hu : ThTime cfg s u) :
    ThTime cfg (step cfg i s t).1 u := by
  obtain ⟨hc, he⟩ := step_epoch_cases cfg i s t
  refine ⟨?_, fun blk now hpc => by rw [hc]; exact hu.2 blk now hpc⟩
  intro blk ep fr hpc
  obtain ⟨h1, h2⟩ := hu.1 blk ep fr hpc
  rcases he with ⟨he, ho⟩ | he
  · rw [he, ho, hc]; exact ⟨h1, h2⟩
  · rw [he]; exact ⟨by omega, fun _ h => by omega⟩

/-! ## every won CAS is reported exactly once, by the winner, with the right `prev` -/

@[simp] theorem owes_tpGet (b : Bool): (Pc.tpGet b).owes = none := rfl
@[simp] theorem owes_tpRetry (b : Bool): (Pc.tpRetry b).owes = none := rfl
@[simp] theorem owes_tpLoad (b : Bool) (n : Nat): (Pc.tpLoad b n).owes = none := rfl
@[simp] theorem owes_tpCas (b : Bool) (e : Nat) (f : Bool): (Pc.tpCas b e f).owes = none := rfl
@[simp] theorem owes_rbCas : (Pc.rbCas ).owes = none := rfl
@[simp] theorem owes_ocGet (b : Bool) (x y : Nat): (Pc.ocGet b x y).owes = none := rfl
@[simp] theorem owes_ocGet2 : (Pc.ocGet2 ).owes = none := rfl
@[simp] theorem owes_coCas : (Pc.coCas ).owes = none := rfl
@[simp] theorem owes_hoCas : (Pc.hoCas ).owes = none := rfl
@[simp] theorem owes_paAdd : (Pc.paAdd ).owes = none := rfl
@[simp] theorem owes_plLoad : (Pc.plLoad ).owes = none := rfl
@[simp] theorem owes_hcCas : (Pc.hcCas ).owes = none := rfl
@[simp] theorem owes_done : (Pc.done ).owes = none := rfl
@[simp] theorem owes_coStore : Pc.coStore.owes = some (.closed, .opened) := rfl
@[simp] theorem owes_hoReset : Pc.hoReset.owes = some (.halfOpen, .opened) := rfl
@[simp] theorem owes_hoStore : Pc.hoStore.owes = some (.halfOpen, .opened) := rfl
@[simp] theorem owes_hcReset : Pc.hcReset.owes = some (.halfOpen, .closed) := rfl

/-- 1 if thread `i` (in state `t`) still owes the notification `k` -/
def owe (i : Nat) (t : Th) (k : Note) : Nat :=
  if k.tid = i ∧ t.pc.owes = some (k.prev, k.to) then 1 else 0

theorem step_notify (cfg : Cfg) (i : Nat) (s : Sh) (t : Th) (k : Note) :
    (step cfg i s t).1.hist.count k + s.log.count k + owe i t k
      = s.hist.count k + (step cfg i s t).1.log.count k + owe i (step cfg i s t).2 k := by
  obtain ⟨p, q, j⟩ := k
  unfold step
  split <;> (try split) <;> (try split) <;> (try split) <;>
    simp_all [fin, finR, owe, List.count_append, List.count_singleton] <;>
    (split_ifs <;> first | omega | (exfalso; simp_all))

theorem step_notify_other (cfg : Cfg) (i : Nat) (s : Sh) (t : Th) (k : Note) (hk : k.tid ≠ i) :
    (step cfg i s t).1.hist.count k = s.hist.count k ∧ (step cfg i s t).1.log.count k = s.log.count k := by
  obtain ⟨p, q, j⟩ := k
  have hk' : ¬ i = j := fun h => hk h.symm
  unfold step
  split <;> (try split) <;> (try split) <;> (try split) <;>
    simp_all [fin, finR, List.count_append]

/-! ## who is admitted -/

/-- what one step can do to the admissions: nothing (the thread's TryPass, if it returns now, returns false),
    or exactly one admission, of the stepping thread, for one of three reasons -/
theorem step_admit_cases (cfg : Cfg) (i : Nat) (s : Sh) (t : Th) :
    ((step cfg i s t).1.admits = s.admits ∧
        ((step cfg i s t).2.res = t.res ∨ (step cfg i s t).2.res = t.res ++ [false])) ∨
    ((step cfg i s t).2.res = t.res ++ [true] ∧
      (((step cfg i s t).1.admits = s.admits ++ [(i, .closedRead)] ∧ s.st = .closed
          ∧ (step cfg i s t).1.hist = s.hist) ∨
       ((step cfg i s t).1.admits = s.admits ++ [(i, .quota)] ∧ s.st = .halfOpen ∧ 0 < cfg.probeNum
          ∧ (step cfg i s t).1.hist = s.hist) ∨
       ((step cfg i s t).1.admits = s.admits ++ [(i, .probeWin)] ∧ s.st = .opened ∧ (step cfg i s t).1.st = .halfOpen
          ∧ (step cfg i s t).1.hist = s.hist ++ [⟨.opened, .halfOpen, i⟩]))) := by
  unfold step
  split <;> (try split) <;> (try split) <;> (try split) <;> simp_all [fin, finR]

/-- probe admissions and Open→HalfOpen transitions are the same events -/
theorem step_probe_count (cfg : Cfg) (i : Nat) (s : Sh) (t : Th) (j : Nat) :
    (step cfg i s t).1.admits.count (j, How.probeWin) + s.hist.count ⟨.opened, .halfOpen, j⟩
      = s.admits.count (j, How.probeWin) + (step cfg i s t).1.hist.count ⟨.opened, .halfOpen, j⟩ := by
  unfold step
  split <;> (try split) <;> (try split) <;> (try split) <;>
    simp_all [fin, finR, List.count_append, List.count_singleton] <;>
    (split_ifs <;> omega)

/-! ## reachable configurations -/

/-- configurations reachable with any number of threads, arbitrary programs, any schedule: threads may be
    spawned at any time, any thread may take a step, the clock may advance, and a batch of threads that has
    finished may be retired (thread ids are then reused) -/
inductive Reach (cfg : Cfg) : Conf → Prop
  | init : Reach cfg ⟨{}, []⟩
  | spawn {c : Conf} (p : List Call) : Reach cfg c →
      Reach cfg ⟨(begin cfg c.sh [] p).1, c.th ++ [(begin cfg c.sh [] p).2]⟩
  | step {c : Conf} (i : Nat) : Reach cfg c → Reach cfg (c.sched cfg i)
  | tick {c : Conf} (ms : Nat) : Reach cfg c → Reach cfg (c.tick ms)
  | retire {c : Conf} : Reach cfg c → (∀ t ∈ c.th, t.pc = .done) → Reach cfg ⟨c.sh, []⟩
  /-- the window counters may be overwritten at any time (by the calls of another breaker object that shares the
      statistic after a rule reload): no statement below depends on them -/
  | stat {c : Conf} (b t : Nat) : Reach cfg c → Reach cfg ⟨{ c.sh with bad := b, total := t }, c.th⟩

theorem reach_run (cfg : Cfg) {c : Conf} (h : Reach cfg c) (es : List Ent) : Reach cfg (run cfg c es) := by
  induction es generalizing c with
  | nil => exact h
  | cons e r ih =>
    cases e with
    | t i => exact ih (Reach.step i h)
    | tick ms => exact ih (Reach.tick ms h)

theorem reach_startAll (cfg : Cfg) (ps : List (List Call)) :
    ∀ (s : Sh) (pre : List Th), Reach cfg ⟨s, pre⟩ →
      Reach cfg ⟨(startAll cfg s ps).1, pre ++ (startAll cfg s ps).2⟩ := by
  induction ps with
  | nil => intro s pre h; simpa [startAll] using h
  | cons p r ih =>
    intro s pre h
    have h1 := Reach.spawn p h
    have h2 := ih _ _ h1
    simpa [startAll, List.append_assoc] using h2

theorem reach_initFrom (cfg : Cfg) (s : Sh) (ps : List (List Call)) (h : Reach cfg ⟨s, []⟩) :
    Reach cfg (initFrom cfg s ps) := by
  simpa [initFrom] using reach_startAll cfg ps s [] h

theorem reach_init (cfg : Cfg) (ps : List (List Call)) : Reach cfg (init cfg ps) :=
  reach_initFrom cfg {} ps Reach.init

/-! ## the inductive invariant -/

structure Inv (cfg : Cfg) (c : Conf) : Prop where
  path : walk .closed c.sh.hist = some c.sh.st
  time : TimeInv cfg c.sh
  thTime : ∀ (i : Nat) (t : Th), c.th[i]? = some t → ThTime cfg c.sh t
  notify : ∀ k : Note, c.sh.hist.count k = c.sh.log.count k +
      (match c.th[k.tid]? with | some t => owe k.tid t k | none => 0)
  probe : ∀ j : Nat, c.sh.admits.count (j, How.probeWin) = c.sh.hist.count ⟨.opened, .halfOpen, j⟩

theorem inv_init (cfg : Cfg) : Inv cfg ⟨{}, []⟩ := by
  constructor <;> simp [walk, TimeInv]

theorem inv_spawn (cfg : Cfg) {c : Conf} (p : List Call) (h : Inv cfg c) :
    Inv cfg ⟨(begin cfg c.sh [] p).1, c.th ++ [(begin cfg c.sh [] p).2]⟩ := by
  constructor
  · simpa using h.path
  · simpa [TimeInv] using h.time
  · intro i t hi
    rcases Nat.lt_trichotomy i c.th.length with hlt | heq | hgt
    · rw [List.getElem?_append_left hlt] at hi
      have := h.thTime i t hi
      simpa [ThTime] using this
    · subst heq
      simp at hi
      subst hi
      exact ⟨fun blk ep fr hpc => absurd hpc (begin_not_tpCas cfg c.sh [] p blk ep fr),
             fun blk now hpc => absurd hpc (begin_not_tpLoad cfg c.sh [] p blk now)⟩
    · rw [List.getElem?_eq_none (by simp; omega)] at hi
      cases hi
  · intro k
    have hk := h.notify k
    rcases Nat.lt_trichotomy k.tid c.th.length with hlt | heq | hgt
    · rw [List.getElem?_append_left hlt]; simpa using hk
    · have hn : c.th[k.tid]? = none := List.getElem?_eq_none (by omega)
      rw [hn] at hk
      have : (c.th ++ [(begin cfg c.sh [] p).2])[k.tid]? = some (begin cfg c.sh [] p).2 := by
        rw [heq]; simp
      rw [this]
      simpa [owe] using hk
    · have hn : c.th[k.tid]? = none := List.getElem?_eq_none (by omega)
      rw [hn] at hk
      have : (c.th ++ [(begin cfg c.sh [] p).2])[k.tid]? = none :=
        List.getElem?_eq_none (by simp; omega)
      rw [this]
      simpa using hk
  · simpa using h.probe

theorem inv_tick (cfg : Cfg) {c : Conf} (ms : Nat) (h : Inv cfg c) : Inv cfg (c.tick ms) := by
  obtain ⟨h1, h2, h3⟩ := h.time
  constructor
  · exact h.path
  · exact ⟨by simp [Conf.tick]; omega, h2, h3⟩
  · intro i t hi
    refine ⟨?_, fun blk now hpc => by have := (h.thTime i t hi).2 blk now hpc; simp [Conf.tick]; omega⟩
    intro blk ep fr hpc
    obtain ⟨a, b⟩ := (h.thTime i t hi).1 blk ep fr hpc
    exact ⟨a, fun x y => by have := b x y; simp [Conf.tick]; omega⟩
  · exact h.notify
  · exact h.probe

theorem inv_retire (cfg : Cfg) {c : Conf} (h : Inv cfg c) (hd : ∀ t ∈ c.th, t.pc = .done) : Inv cfg ⟨c.sh, []⟩ := by
  constructor
  · exact h.path
  · exact h.time
  · intro i t hi; simp at hi
  · intro k
    have hk := h.notify k
    cases hth : c.th[k.tid]? with
    | none => rw [hth] at hk; simpa using hk
    | some t =>
      rw [hth] at hk
      have : t.pc = .done := hd t (List.mem_of_getElem? hth)
      simpa [owe, this] using hk
  · exact h.probe

theorem inv_step (cfg : Cfg) {c : Conf} (i : Nat) (h : Inv cfg c) : Inv cfg (c.sched cfg i) := by
  unfold Conf.sched
  cases hth : c.th[i]? with
  | none => exact h
  | some t =>
    have hi : i < c.th.length := by
      by_contra hn
      rw [List.getElem?_eq_none (by omega)] at hth; cases hth
    have hown := step_time_own cfg i c.sh t h.time (h.thTime i t hth)
    constructor
    · exact step_path cfg i c.sh t h.path
    · exact hown.1
    · intro j u hj
      by_cases hij : i = j
      · subst hij
        simp [hi] at hj
        subst hj
        exact hown.2
      · simp [hij] at hj
        exact step_time_other cfg i c.sh t u (h.thTime j u hj)
    · intro k
      have hk := h.notify k
      by_cases hik : k.tid = i
      · have h1 := step_notify cfg i c.sh t k
        rw [hik] at hk ⊢
        rw [hth] at hk
        simp only [List.getElem?_set, hi, if_true]
        simp only at hk ⊢
        omega
      · have h1 := step_notify_other cfg i c.sh t k hik
        have : (c.th.set i (step cfg i c.sh t).2)[k.tid]? = c.th[k.tid]? := by
          simp [Ne.symm hik]
        simp only [this]
        rw [h1.1, h1.2]; exact hk
    · intro j
      have := step_probe_count cfg i c.sh t j
      have := h.probe j
      simp only
      omega

theorem inv_stat (cfg : Cfg) {c : Conf} (b t : Nat) (h : Inv cfg c) :
    Inv cfg ⟨{ c.sh with bad := b, total := t }, c.th⟩ :=
  ⟨h.path, h.time, h.thTime, h.notify, h.probe⟩

theorem reach_inv (cfg : Cfg) {c : Conf} (h : Reach cfg c) : Inv cfg c := by
  induction h with
  | stat b t _ ih => exact inv_stat cfg b t ih
  | init => exact inv_init cfg
  | spawn p _ ih => exact inv_spawn cfg p ih
  | step i _ ih => exact inv_step cfg i ih
  | tick ms _ ih => exact inv_tick cfg ms ih
  | retire _ hd ih => exact inv_retire cfg ih hd

/-! ## several breaker objects (rule reloads, several breakers per resource): every object is a breaker in the sense of `Reach` -/

/-- every object of the world, with the calls bound to it, is a reachable single-breaker configuration — so every
    theorem about `Reach` holds for each breaker of the published list and for every retired one -/
def WOK (w : World) : Prop := ∀ o ∈ w.objs, Reach o.cfg o.conf

theorem wok_empty : WOK {} := by intro o ho; cases ho

theorem wok_sync (w : World) (k : Nat) (h : WOK w) : WOK (w.sync k) := by
  unfold World.sync
  cases hk : w.objs[k]? with
  | none => exact h
  | some o =>
    intro p hp
    simp only [List.mem_map] at hp
    obtain ⟨q, hq, rfl⟩ := hp
    split_ifs
    · exact Reach.stat _ _ (h q hq)
    · exact h q hq

theorem wok_tick (w : World) (ms : Nat) (h : WOK w) : WOK (w.tick ms) := by
  intro p hp
  simp only [World.tick, List.mem_map] at hp
  obtain ⟨q, hq, rfl⟩ := hp
  exact Reach.tick ms (h q hq)

theorem wok_set (w : World) (k : Nat) (o' : Obj) (h : WOK w) (ho : Reach o'.cfg o'.conf) :
    WOK { w with objs := w.objs.set k o' } := by
  intro p hp
  rcases List.mem_or_eq_of_mem_set hp with hp | rfl
  · exact h p hp
  · exact ho

theorem wok_step (w : World) (k j : Nat) (h : WOK w) : WOK (w.step k j) := by
  unfold World.step
  cases hk : w.objs[k]? with
  | none => exact h
  | some o =>
    exact wok_sync _ k (wok_set w k _ h (Reach.step j (h o (List.mem_of_getElem? hk))))

theorem wok_bindOn (w : World) (k : Nat) (c : Call) (h : WOK w) : WOK (w.bindOn k c).1 := by
  unfold World.bindOn
  cases hk : w.objs[k]? with
  | none => exact h
  | some o =>
    exact wok_sync _ k (wok_set w k _ h (Reach.spawn [c] (h o (List.mem_of_getElem? hk))))

theorem reach_rebuildAux (clock : Nat) (rules : List RuleE) :
    ∀ (old : List Nat) (objs : List Obj) (new : List Nat), (∀ o ∈ objs, Reach o.cfg o.conf) →
      ∀ o ∈ (rebuildAux clock rules old objs new).1, Reach o.cfg o.conf := by
  induction rules with
  | nil => intro old objs new h; simpa [rebuildAux] using h
  | cons r rs ih =>
    intro old objs new h
    unfold rebuildAux
    split
    · exact ih _ _ _ h
    · split
      · apply ih
        intro o ho
        simp only [List.mem_append, List.mem_singleton] at ho
        rcases ho with ho | rfl
        · exact h o ho
        · exact Reach.tick _ (Reach.stat _ _ Reach.init)
      · apply ih
        intro o ho
        simp only [List.mem_append, List.mem_singleton] at ho
        rcases ho with ho | rfl
        · exact h o ho
        · exact Reach.tick _ Reach.init

theorem wok_rebuild (w : World) (rules : List RuleE) (h : WOK w) : WOK (w.rebuild rules) :=
  reach_rebuildAux w.clock rules w.cur w.objs [] h

theorem wok_advance (todo : List WCall) : ∀ (w : World) (res : List Bool), WOK w → WOK (advance w res todo).1 := by
  induction todo with
  | nil => intro w res h; exact h
  | cons c r ih =>
    intro w res h
    cases c with
    | check fb ne =>
      unfold advance
      split
      · exact ih _ _ h
      · exact wok_bindOn w _ _ h
    | complete rt err =>
      unfold advance
      split
      · exact ih _ _ h
      · exact wok_bindOn w _ _ h
    | load rules noop nx => exact h

theorem wok_startRoll (w : World) (t : WT) (hs : List Nat) (h : WOK w) : WOK (startRoll w t hs).1 := by
  cases hs with
  | nil => exact wok_advance _ _ _ h
  | cons a r => exact wok_bindOn w _ _ h

theorem wok_afterCall (w : World) (t : WT) (k : Nat) (b won : Bool) (h : WOK w) : WOK (afterCall w t k b won).1 := by
  unfold afterCall
  cases t.phase with
  | checking rest hooks fb ne =>
    cases b with
    | false => simpa using wok_startRoll _ _ _ h
    | true =>
      cases rest with
      | cons k2 ks => simpa using wok_bindOn w _ _ h
      | nil =>
        cases fb with
        | true => simpa using wok_startRoll _ _ _ h
        | false => simpa using wok_advance _ _ _ h
  | rolling rest => exact wok_startRoll _ _ _ h
  | completing rest rt err =>
    cases rest with
    | cons k2 ks => exact wok_bindOn w _ _ h
    | nil => exact wok_advance _ _ _ h
  | idle => exact wok_advance _ _ _ h
  | loading _ _ _ => exact wok_advance _ _ _ h
  | rebuilding _ _ => exact wok_advance _ _ _ h

theorem wok_wtstep (w : World) (t : WT) (h : WOK w) : WOK (t.step w).1 := by
  unfold WT.step
  split
  · split_ifs
    · exact wok_advance _ _ _ h
    · exact wok_advance _ _ _ (wok_rebuild w _ h)
    · exact h
  · split_ifs
    · exact wok_advance _ _ _ (wok_rebuild w _ h)
    · exact h
  · split
    · exact h
    · split
      · split_ifs
        · exact wok_afterCall _ _ _ _ _ (wok_step w _ _ h)
        · exact wok_step w _ _ h
      · exact wok_step w _ _ h

theorem wok_wsched (c : WConf) (i : Nat) (h : WOK c.w) : WOK (c.sched i).w := by
  unfold WConf.sched
  cases c.ths[i]? with
  | none => exact h
  | some t => exact wok_wtstep c.w t h

theorem wok_wrun (es : List Ent) : ∀ c : WConf, WOK c.w → WOK (wrun c es).w := by
  induction es with
  | nil => intro c h; exact h
  | cons e r ih =>
    intro c h
    cases e with
    | t i => exact ih _ (wok_wsched c i h)
    | tick ms => exact ih _ (wok_tick c.w ms h)

theorem wok_wstart (ps : List (List WCall)) : ∀ w : World, WOK w → WOK (wstart w ps).1 := by
  induction ps with
  | nil => intro w h; exact h
  | cons p r ih => intro w h; exact ih _ (wok_advance p w [] h)

/-! ## listener order when notifications do not overlap with other threads' steps -/

/-- the notification thread `i` owes, as a list -/
def owedL (i : Nat) (t : Th) : List Note :=
  match t.pc.owes with
  | some (p, q) => [⟨p, q, i⟩]
  | none => []

theorem step_order (cfg : Cfg) (i : Nat) (s : Sh) (t : Th) (h : s.hist = s.log ++ owedL i t) :
    (step cfg i s t).1.hist = (step cfg i s t).1.log ++ owedL i (step cfg i s t).2 := by
  unfold step
  split <;> (try split) <;> (try split) <;> (try split) <;> simp_all [fin, finR, owedL]

/-- nobody but thread `i` is between a won CAS and its listener call -/
def QuietAt (c : Conf) (i : Nat) : Prop :=
  ∀ (j : Nat) (u : Th), j ≠ i → c.th[j]? = some u → u.pc.owes = none

/-- if only thread `i` may owe a notification, the history is the log plus that notification -/
def OrderInv (c : Conf) : Prop :=
  ∀ i : Nat, QuietAt c i → c.sh.hist = c.sh.log ++ (match c.th[i]? with | some t => owedL i t | none => [])

theorem order_step (cfg : Cfg) {c : Conf} (i : Nat) (h : OrderInv c) (hq : QuietAt c i) :
    OrderInv (c.sched cfg i) := by
  unfold Conf.sched
  cases hth : c.th[i]? with
  | none => exact h
  | some t =>
    have hi : i < c.th.length := by
      by_contra hn
      rw [List.getElem?_eq_none (by omega)] at hth; cases hth
    have h0 := h i hq
    rw [hth] at h0
    have h1 := step_order cfg i c.sh t h0
    intro i' hq'
    by_cases hii : i = i'
    · subst hii
      simpa [hi] using h1
    · have hnone : (step cfg i c.sh t).2.pc.owes = none := by
        apply hq' i _ hii
        simp [hi]
      have h2 : owedL i (step cfg i c.sh t).2 = [] := by simp [owedL, hnone]
      rw [h2] at h1
      have h3 : (match (c.th.set i (step cfg i c.sh t).2)[i']? with | some t => owedL i' t | none => []) = [] := by
        have : (c.th.set i (step cfg i c.sh t).2)[i']? = c.th[i']? := by simp [hii]
        rw [this]
        cases hu : c.th[i']? with
        | none => rfl
        | some u =>
          have := hq i' u (Ne.symm hii) hu
          simp [owedL, this]
      simp only at h3 ⊢
      rw [h3]; exact h1

theorem startAll_frame (cfg : Cfg) (ps : List (List Call)) :
    ∀ s : Sh, (startAll cfg s ps).1.hist = s.hist ∧ (startAll cfg s ps).1.log = s.log ∧
      ∀ t ∈ (startAll cfg s ps).2, t.pc.owes = none := by
  induction ps with
  | nil => intro s; simp [startAll]
  | cons p r ih =>
    intro s
    obtain ⟨h1, h2, h3⟩ := ih (begin cfg s [] p).1
    refine ⟨by simpa [startAll] using h1, by simpa [startAll] using h2, ?_⟩
    intro t ht
    simp only [startAll, List.mem_cons] at ht
    rcases ht with rfl | ht
    · simp
    · exact h3 t ht

theorem order_init (cfg : Cfg) (ps : List (List Call)) : OrderInv (init cfg ps) := by
  intro i _
  obtain ⟨h1, h2, h3⟩ := startAll_frame cfg ps {}
  simp only [init, initFrom]
  rw [h1, h2]
  cases hu : (startAll cfg {} ps).2[i]? with
  | none => rfl
  | some u =>
    have := h3 u (List.mem_of_getElem? hu)
    simp [owedL, this]

end Sentinel.BreakerRace
