import Sentinel.Lemmas.MetricLog2
/-! C17: which retained items have no index entry (the regions of `metriclog-first-second` /
    `metriclog-orphan-head`), proved for every directory the writer model produces; a searcher whose cache
    does not apply behaves like a fresh one. -/
namespace Sentinel.MetricLog

/-! ### the result of a search does not depend on the cache unless `cacheOk` -/

theorem idxScan_found_indep (fuel : Nat) (bs : Bytes) (pos b : Nat) (c c' : Cache) (nm : Name) :
    (idxScan fuel bs pos b c nm).2 = (idxScan fuel bs pos b c' nm).2 := by
  induction fuel generalizing bs pos c c' with
  | zero => rfl
  | succ f ih =>
    unfold idxScan
    dsimp only
    split_ifs <;> first | rfl | exact ih _ _ _ _

theorem findOffsetToStart_found_indep (f : File) (c c' : Cache) (b lastPos : Nat) :
    (findOffsetToStart f c b lastPos).2 = (findOffsetToStart f c' b lastPos).2 := by
  unfold findOffsetToStart
  exact idxScan_found_indep _ _ _ _ _ _ _

theorem searchLoop_indep (doRead : Dir → Nat → List Item) (b o : Nat) (fs : Dir) (c c' : Cache) :
    (searchLoop doRead b o fs c).2 = (searchLoop doRead b o fs c').2 := by
  induction fs generalizing c c' with
  | nil => rfl
  | cons f r ih =>
    have h := findOffsetToStart_found_indep f c c' b o
    unfold searchLoop
    rcases h1 : findOffsetToStart f c b o with ⟨c1, fd1⟩
    rcases h2 : findOffsetToStart f c' b o with ⟨c2, fd2⟩
    rw [h1, h2] at h
    simp only at h
    subst h
    cases fd1 with
    | «at» off => rfl
    | notFound => exact ih c1 c2
    | error => exact ih c1 c2

/-- outside the region of `metriclog-cache-skip` (`cacheOk` false: the cached position is not used) a
    search returns what a fresh searcher returns — for any directory content -/
theorem search_cache_miss (doRead : Dir → Nat → List Item) (fs : Dir) (c : Cache) (b : Nat)
    (h : cacheOk fs c b = false) : (search doRead fs c b).2 = (search doRead fs {} b).2 := by
  have h0 : offsetStartAndFile fs {} b = (0, 0) := by simp [offsetStartAndFile, cacheOk]
  have h1 : offsetStartAndFile fs c b = (0, 0) := by simp [offsetStartAndFile, h]
  unfold search
  rw [h0, h1]
  exact searchLoop_indep _ _ _ _ _ _

/-! ### which items have no index entry -/

def hasEnt (fs : Dir) (s : Nat) : Prop := ∃ e ∈ allEnts fs, e.1 = s

/-- `L` = the latest second written, `C` = the creation seconds of restarted writers.
    `latest`: the latest second has an index entry, unless no entry is retained at all or it is such a
    creation second.  `head`: an item without an index entry for its second lies before every retained
    entry (the unindexed head of the log) or in such a creation second. -/
structure Head (w : Writer) (L : Nat) (C : List Nat) : Prop where
  latest : allEnts w.files = [] ∨ hasEnt w.files L ∨ L ∈ C
  head : ∀ x ∈ retained w.files, hasEnt w.files (x.ts / 1000) ∨ (∀ e ∈ allEnts w.files, x.ts / 1000 < e.1) ∨ x.ts / 1000 ∈ C

theorem allEnts_addIndex (w : Writer) (s : Nat) (hne : w.files ≠ []) :
    allEnts (w.addIndex s).files = allEnts w.files ++ [(s, curSize w.files)] := by
  obtain ⟨init, cur, hfs⟩ := files_snoc hne
  simp only [Writer.addIndex, hfs, modLast_snoc, curSize_snoc, allEnts_append]
  simp [allEnts]

theorem retained_addIndex (w : Writer) (s : Nat) : retained (w.addIndex s).files = retained w.files :=
  retained_modLast_same _ _ (fun _ => rfl)

theorem allEnts_append_items (w : Writer) (items : List Item) (hne : w.files ≠ []) :
    allEnts (w.append items).files = allEnts w.files := by
  obtain ⟨init, cur, hfs⟩ := files_snoc hne
  simp only [Writer.append, hfs, modLast_snoc, allEnts_append]
  simp [allEnts]

theorem allEnts_roll (w : Writer) (ts : Nat) :
    ∃ pre, allEnts w.files = pre ++ allEnts (w.roll ts).files := by
  have e : allEnts (w.roll ts).files = allEnts (w.files.drop (w.files.length + 1 - w.maxFiles)) := by
    simp [Writer.roll, allEnts]
  refine ⟨allEnts (w.files.take (w.files.length + 1 - w.maxFiles)), ?_⟩
  rw [e, ← allEnts_append, List.take_append_drop]

theorem retained_roll_subset (w : Writer) (ts : Nat) : ∀ x ∈ retained (w.roll ts).files, x ∈ retained w.files := by
  intro x hx
  have e : retained (w.roll ts).files = retained (w.files.drop (w.files.length + 1 - w.maxFiles)) := by
    simp [Writer.roll, retained]
  rw [e] at hx
  exact (retained_drop_sublist _ _).subset hx

theorem head_addIndex {w : Writer} {L : Nat} {C : List Nat} (s : Nat) (hinv : Inv w L) (h : Head w L C) (hs : L < s) :
    Head (w.addIndex s) s C := by
  have ea := allEnts_addIndex w s hinv.ord.1
  have er := retained_addIndex w s
  refine ⟨Or.inr (Or.inl ⟨(s, curSize w.files), by rw [ea]; simp, rfl⟩), ?_⟩
  intro x hx
  rw [er] at hx
  rcases h.head x hx with ⟨e, he, hes⟩ | hlt | hc
  · exact Or.inl ⟨e, by rw [ea]; exact List.mem_append_left _ he, hes⟩
  · refine Or.inr (Or.inl ?_)
    intro e he
    rw [ea] at he
    rcases List.mem_append.1 he with he | he
    · exact hlt e he
    · simp only [List.mem_singleton] at he
      subst he
      have := hinv.ord.2.2 x hx
      simp only; omega
  · exact Or.inr (Or.inr hc)

theorem head_append {w : Writer} {s : Nat} {C : List Nat} (items : List Item) (hinv : Inv w s) (h : Head w s C)
    (hi : ∀ it ∈ items, it.ts / 1000 = s) : Head (w.append items) s C := by
  have ea := allEnts_append_items w items hinv.ord.1
  have er : retained (w.append items).files = retained w.files ++ items :=
    retained_modLast_append _ hinv.ord.1 _ items (fun _ => rfl)
  have hE : ∀ t, hasEnt w.files t → hasEnt (w.append items).files t := by
    intro t ht; unfold hasEnt at *; rw [ea]; exact ht
  have hlatest : allEnts (w.append items).files = [] ∨ hasEnt (w.append items).files s ∨ s ∈ C := by
    rcases h.latest with h0 | h1 | h2
    · exact Or.inl (by rw [ea]; exact h0)
    · exact Or.inr (Or.inl (hE _ h1))
    · exact Or.inr (Or.inr h2)
  refine ⟨hlatest, ?_⟩
  intro x hx
  rw [er] at hx
  rcases List.mem_append.1 hx with hx | hx
  · rcases h.head x hx with h1 | h2 | h3
    · exact Or.inl (hE _ h1)
    · exact Or.inr (Or.inl (by rw [ea]; exact h2))
    · exact Or.inr (Or.inr h3)
  · rw [hi x hx]
    rcases hlatest with h0 | h1 | h2
    · exact Or.inr (Or.inl (by rw [h0]; simp))
    · exact Or.inl h1
    · exact Or.inr (Or.inr h2)

theorem head_cast {w : Writer} {L L' : Nat} {C : List Nat} (e : L = L') (h : Head w L C) : Head w L' C := e ▸ h

theorem head_roll {w : Writer} {L : Nat} {C : List Nat} (ts : Nat) (hinv : Inv w L) (h : Head w L C) :
    Head (w.roll ts) L C := by
  obtain ⟨pre, hpre⟩ := allEnts_roll w ts
  have hsorted := hinv.sorted
  rw [hpre] at hsorted
  have hcross : ∀ a ∈ pre, ∀ b ∈ allEnts (w.roll ts).files, a.1 ≤ b.1 := (List.pairwise_append.1 hsorted).2.2
  -- an entry that was lost with a removed file is not after any entry that is left
  have key : ∀ s, hasEnt w.files s → hasEnt (w.roll ts).files s ∨ ∀ e ∈ allEnts (w.roll ts).files, s < e.1 := by
    intro s ⟨e, he, hes⟩
    rw [hpre] at he
    rcases List.mem_append.1 he with he | he
    · by_cases hex : ∃ e' ∈ allEnts (w.roll ts).files, e'.1 = s
      · exact Or.inl hex
      · right
        intro e' he'
        have h1 := hcross e he e' he'
        have h2 : e'.1 ≠ s := fun hh => hex ⟨e', he', hh⟩
        omega
    · exact Or.inl ⟨e, he, hes⟩
  refine ⟨?_, ?_⟩
  · rcases h.latest with h0 | h1 | h2
    · left
      rw [h0] at hpre
      have := congrArg List.length hpre
      simp only [List.length_nil, List.length_append] at this
      exact List.length_eq_zero_iff.1 (by omega)
    · rcases key L h1 with hk | hk
      · exact Or.inr (Or.inl hk)
      · left
        cases hall : allEnts (w.roll ts).files with
        | nil => rfl
        | cons e r =>
          have h1' := hk e (by rw [hall]; simp)
          have h2' := hinv.bound e (by rw [hpre]; exact List.mem_append_right _ (by rw [hall]; simp))
          omega
    · exact Or.inr (Or.inr h2)
  · intro x hx
    rcases h.head x (retained_roll_subset w ts x hx) with h1 | h2 | h3
    · rcases key _ h1 with hk | hk
      · exact Or.inl hk
      · exact Or.inr (Or.inl hk)
    · exact Or.inr (Or.inl (fun e he => h2 e (by rw [hpre]; exact List.mem_append_right _ he)))
    · exact Or.inr (Or.inr h3)

theorem head_rollIf {w : Writer} {L : Nat} {C : List Nat} (c : Bool) (ts : Nat) (hinv : Inv w L) (h : Head w L C) :
    Head (w.rollIf c ts) L C := by
  unfold Writer.rollIf; split_ifs; exact head_roll ts hinv h; exact h

theorem head_setLatest {w : Writer} {L : Nat} {C : List Nat} (n : Nat) (h : Head w L C) :
    Head { w with latestOpSec := n } L C := ⟨h.latest, h.head⟩

theorem head_monoC {w : Writer} {L : Nat} {C C' : List Nat} (hsub : ∀ c ∈ C, c ∈ C') (h : Head w L C) : Head w L C' := by
  refine ⟨?_, ?_⟩
  · rcases h.latest with h0 | h1 | h2
    · exact Or.inl h0
    · exact Or.inr (Or.inl h1)
    · exact Or.inr (Or.inr (hsub _ h2))
  · intro x hx
    rcases h.head x hx with h1 | h2 | h3
    · exact Or.inl h1
    · exact Or.inr (Or.inl h2)
    · exact Or.inr (Or.inr (hsub _ h3))

theorem head_write (w : Writer) (ts : Nat) (items : List Item) (C : List Nat) (hinv : Inv w w.latestOpSec)
    (h : Head w w.latestOpSec C) : Head (w.write ts items) (w.write ts items).latestOpSec C := by
  have hi : ∀ it ∈ items.map (fun i => ({ i with ts := ts, res := sanitize i.res } : Item)), it.ts / 1000 = ts / 1000 := by
    intro it hit; rcases List.mem_map.1 hit with ⟨i, _, rfl⟩; rfl
  unfold Writer.write
  dsimp only
  split_ifs with h1 h2
  · exact h
  · have i1 := inv_addIndex (ts / 1000) hinv h2
    have a1 := head_addIndex (ts / 1000) hinv h h2
    have i2 := inv_rollIf (decide (dayOf (ts / 1000) > dayOf w.latestOpSec)) ts i1
    have a2 := head_rollIf (decide (dayOf (ts / 1000) > dayOf w.latestOpSec)) ts i1 a1
    have i3 := inv_append _ i2 (le_refl _) hi
    have a3 := head_append _ i2 a2 hi
    refine head_cast ?_ (head_setLatest _ (head_rollIf _ ts i3 a3))
    rw [rollIf_latest]
    show ts / 1000 = max ((w.addIndex (ts / 1000)).rollIf _ ts).latestOpSec (ts / 1000)
    rw [rollIf_latest]
    exact (max_eq_right (by show w.latestOpSec ≤ ts / 1000; omega)).symm
  · have heq : ts / 1000 = w.latestOpSec := by omega
    have i3 := inv_append _ hinv (le_of_eq heq.symm) hi
    have a3 := head_append _ (heq ▸ hinv) (heq ▸ h) hi
    refine head_cast ?_ (head_setLatest _ (head_rollIf _ ts i3 a3))
    rw [rollIf_latest]
    exact (max_eq_right (by show w.latestOpSec ≤ ts / 1000; omega)).symm

theorem head_reopen (w : Writer) (now ms mf : Nat) (C : List Nat) (hinv : Inv w w.latestOpSec)
    (h : Head w w.latestOpSec C) :
    Head (w.reopen now ms mf) (now / 1000) ([now / 1000] ++ C) := by
  have hinv' : Inv ({ files := w.files, latestOpSec := 0, maxSize := ms, maxFiles := mf, createdSec := now / 1000 } : Writer) w.latestOpSec :=
    ⟨hinv.ord, hinv.ok, hinv.ents, hinv.sorted, hinv.bound⟩
  have h' : Head ({ files := w.files, latestOpSec := 0, maxSize := ms, maxFiles := mf, createdSec := now / 1000 } : Writer) w.latestOpSec C :=
    ⟨h.latest, h.head⟩
  have hr := head_monoC (C' := [now / 1000] ++ C) (fun c hc => List.mem_append_right _ hc) (head_roll now hinv' h')
  exact ⟨Or.inr (Or.inr (by simp)), hr.head⟩

theorem head_new (now a b : Nat) : Head (Writer.new now a b) (Writer.new now a b).latestOpSec [] := by
  refine ⟨Or.inl ?_, ?_⟩ <;> simp [Writer.new, Writer.roll, allEnts, retained]

/-- the creation seconds of the restarted writers of a history -/
def reopenSecs : List Ev → List Nat
  | [] => []
  | .write _ _ :: r => reopenSecs r
  | .reopen now _ _ :: r => reopenSecs r ++ [now / 1000]

theorem head_runEvents (w : Writer) (evs : List Ev) (C : List Nat) (hok : EvsOK w evs) (hinv : Inv w w.latestOpSec)
    (h : Head w w.latestOpSec C) :
    Head (runEvents w evs) (runEvents w evs).latestOpSec (reopenSecs evs ++ C) := by
  induction evs generalizing w C with
  | nil => simpa [reopenSecs, runEvents] using h
  | cons ev r ih =>
    cases ev with
    | write ts items =>
      exact ih (w.write ts items) C hok.2.2 (inv_write w ts items hinv) (head_write w ts items C hinv h)
    | reopen now ms mf =>
      have := ih (w.reopen now ms mf) ([now / 1000] ++ C) hok.2.2 (inv_reopen now ms mf hinv hok.1)
        (head_reopen w now ms mf C hinv h)
      have e : reopenSecs (Ev.reopen now ms mf :: r) ++ C = reopenSecs r ++ ([now / 1000] ++ C) := by
        simp [reopenSecs, List.append_assoc]
      rw [e]
      exact this

/-- **the regions of `metriclog-first-second` / `metriclog-orphan-head`, characterised**: a query is
    outside them — every retained item not before `begin` belongs to an indexed second — as soon as
    `begin` is not before the first retained index entry and after the creation seconds of the restarted
    writers -/
theorem covered_of_head {w : Writer} {L : Nat} {C : List Nat} (h : Head w L C) (b : Nat)
    (hb : ∃ en ∈ allEnts w.files, en.1 ≤ b / 1000) (hC : ∀ c ∈ C, c < b / 1000) :
    ∀ x ∈ retained w.files, b / 1000 ≤ x.ts / 1000 → ∃ e ∈ allEnts w.files, e.1 = x.ts / 1000 := by
  intro x hx hge
  rcases h.head x hx with h1 | h2 | h3
  · exact h1
  · obtain ⟨en, hen, hle⟩ := hb
    have := h2 en hen
    omega
  · have := hC _ h3
    omega

theorem runWrites_eq_runEvents (w : Writer) (hist : List (Nat × List Item)) :
    runWrites w hist = runEvents w (hist.map fun p => Ev.write p.1 p.2) := by
  induction hist generalizing w with
  | nil => rfl
  | cons p r ih => simp only [runWrites, runEvents, List.map_cons, List.foldl_cons, Writer.apply] at ih ⊢; exact ih _

theorem evsOK_of_histValid (w : Writer) (hist : List (Nat × List Item)) (hv : HistValid hist) :
    EvsOK w (hist.map fun p => Ev.write p.1 p.2) := by
  induction hist generalizing w with
  | nil => trivial
  | cons p r ih =>
    have hp := hv p (by simp)
    exact ⟨hp.1, hp.2, ih _ (fun q hq => hv q (List.mem_cons_of_mem _ hq))⟩

theorem reopenSecs_writes (hist : List (Nat × List Item)) : reopenSecs (hist.map fun p => Ev.write p.1 p.2) = [] := by
  induction hist with
  | nil => rfl
  | cons p r ih => simpa [reopenSecs] using ih

end Sentinel.MetricLog
