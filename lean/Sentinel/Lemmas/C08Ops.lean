import Sentinel.Lemmas.C08Count
/-!
# Interleaved recordings and refreshes on one leap array

The driver issues two kinds of calls against an array: recordings (`addAt`, from `add`/`conc` lines) and the
refresh performed by an array-level read (`refresh`, from `count` lines).  `runOps` is that call sequence;
`runOps_inv` shows that the refinement invariant `Inv` holds after any time-monotone sequence **for the
history of the recordings only** (a refresh is a recording of the empty payload, which no reference sees),
and that the slot of the last call is the current one (`Cur`).
-/
set_option linter.unusedSectionVars false
namespace Sentinel.LA

section defs
variable {M : Type}

/-- the calls the driver issues against one array -/
inductive Op (M : Type) where
  | add (t : Nat) (x : M)
  | refresh (t : Nat)

def Op.time : Op M → Nat
  | .add t _ => t
  | .refresh t => t

def Op.apply [Add M] [Zero M] (a : Arr M) : Op M → Arr M
  | .add t x => (addAt a t x).1
  | .refresh t => Sentinel.LA.refresh a t

def runOps [Add M] [Zero M] (a : Arr M) : List (Op M) → Arr M
  | [] => a
  | o :: r => runOps (o.apply a) r

/-- the recordings among the calls: the only thing the reference is computed from -/
def addsOf : List (Op M) → List (Nat × M)
  | [] => []
  | .add t x :: r => (t, x) :: addsOf r
  | .refresh _ :: r => addsOf r

def MonoOps (prev : Nat) : List (Op M) → Prop
  | [] => True
  | o :: r => prev ≤ o.time ∧ MonoOps o.time r

/-- time of the last call (`d` when there was none) -/
def lastTime (d : Nat) : List (Op M) → Nat
  | [] => d
  | o :: r => lastTime o.time r

/-- the slot selected by time `t` holds the bucket of `t` -/
def Cur (a : Arr M) (t : Nat) : Prop :=
  ∃ hi : idx a t < a.slots.length, a.slots[idx a t].start = cbs a.L t

end defs

variable {M : Type} [AddCommMonoid M]

theorem Inv.congr {a : Arr M} {h h' : List (Nat × M)} {t0 latest : Nat}
    (hc : ∀ lo hi, refW a.L h lo hi = refW a.L h' lo hi) (inv : Inv a h t0 latest) : Inv a h' t0 latest :=
  ⟨inv.wf, inv.le0, inv.d, fun lo hi hlo => (inv.e lo hi hlo).trans (hc lo hi)⟩

theorem refW_append_zero (L : Nat) (h : List (Nat × M)) (t lo hi : Nat) :
    refW L (h ++ [(t, 0)]) lo hi = refW L h lo hi := by
  rw [refW_append]; simp

theorem idx_congr {a b : Arr M} (hL : b.L = a.L) (hn : b.n = a.n) (t : Nat) : idx b t = idx a t := by
  unfold idx; rw [hL, hn]

/-- one recording at `t ≥ latest` keeps `Inv` and makes the slot of `t` current -/
theorem add_step_cur (a : Arr M) (h : List (Nat × M)) (t0 latest t : Nat) (x : M)
    (inv : Inv a h t0 latest) (hle : latest ≤ t) :
    Inv (add a t x).1 (h ++ [(t, x)]) t0 t ∧ Cur (add a t x).1 t := by
  have hs := add_step a h t0 latest t x inv hle
  refine ⟨hs.1, ?_⟩
  obtain ⟨hi, hc⟩ := add_cur_start a inv.wf t x (Or.inr trivial) hs.2 (slot_not_ahead a h t0 latest t inv hle)
  have hnl := add_nL a t x
  unfold Cur
  have hidx : idx (add a t x).1 t = idx a t := idx_congr hnl.1 hnl.2 t
  rw [hnl.1]
  simp only [hidx]
  exact ⟨hi, hc⟩

theorem op_step (a : Arr M) (h : List (Nat × M)) (t0 latest : Nat) (o : Op M)
    (inv : Inv a h t0 latest) (hle : latest ≤ o.time) (hpos : 0 < o.time) :
    Inv (o.apply a) (h ++ addsOf [o]) t0 o.time ∧ Cur (o.apply a) o.time ∧
      (o.apply a).L = a.L ∧ (o.apply a).n = a.n := by
  cases o with
  | add t x =>
    simp only [Op.time] at hle hpos ⊢
    have hne : t ≠ 0 := Nat.ne_of_gt hpos
    have he : (Op.add t x).apply a = (add a t x).1 := by simp [Op.apply, addAt, hne]
    have hs := add_step_cur a h t0 latest t x inv hle
    have hnl := add_nL a t x
    rw [he]
    exact ⟨by simpa [addsOf] using hs.1, hs.2, hnl.1, hnl.2⟩
  | refresh t =>
    simp only [Op.time] at hle hpos ⊢
    have hne : t ≠ 0 := Nat.ne_of_gt hpos
    have he : (Op.refresh t : Op M).apply a = (add a t 0).1 := by simp [Op.apply, Sentinel.LA.refresh, addAt, hne]
    have hs := add_step_cur a h t0 latest t 0 inv hle
    have hnl := add_nL a t (0 : M)
    rw [he]
    refine ⟨?_, hs.2, hnl.1, hnl.2⟩
    have : Inv (add a t 0).1 h t0 t := Inv.congr (fun lo hi => by rw [hnl.1]; exact refW_append_zero a.L h t lo hi) hs.1
    simpa [addsOf] using this

theorem addsOf_cons (o : Op M) (r : List (Op M)) : addsOf (o :: r) = addsOf [o] ++ addsOf r := by
  cases o <;> simp [addsOf]

theorem runOps_inv (a : Arr M) (h0 : List (Nat × M)) (t0 latest : Nat) (ops : List (Op M))
    (inv : Inv a h0 t0 latest) (hc : Cur a latest) (hpos : ∀ o ∈ ops, 0 < o.time) (mono : MonoOps latest ops) :
    Inv (runOps a ops) (h0 ++ addsOf ops) t0 (lastTime latest ops) ∧ Cur (runOps a ops) (lastTime latest ops) ∧
      (runOps a ops).L = a.L ∧ (runOps a ops).n = a.n := by
  induction ops generalizing a h0 latest with
  | nil => exact ⟨by simpa [runOps, addsOf, lastTime] using inv, hc, rfl, rfl⟩
  | cons o r ih =>
    obtain ⟨hle, hm⟩ := mono
    have hp : 0 < o.time := hpos o (List.mem_cons_self ..)
    obtain ⟨hi, hcur, hL, hn⟩ := op_step a h0 t0 latest o inv hle hp
    obtain ⟨hi', hc', hL', hn'⟩ := ih (o.apply a) (h0 ++ addsOf [o]) o.time hi hcur
      (fun o' ho' => hpos o' (List.mem_cons_of_mem _ ho')) hm
    refine ⟨?_, hc', hL'.trans hL, hn'.trans hn⟩
    rw [addsOf_cons, ← List.append_assoc]
    exact hi'

theorem lastTime_cases (d : Nat) (ops : List (Op M)) :
    lastTime d ops = d ∨ ∃ o ∈ ops, lastTime d ops = o.time := by
  induction ops generalizing d with
  | nil => exact Or.inl rfl
  | cons o r ih =>
    right
    rcases ih o.time with h | ⟨o', ho', h⟩
    · exact ⟨o, List.mem_cons_self .., h⟩
    · exact ⟨o', List.mem_cons_of_mem _ ho', h⟩

theorem lastTime_le (d m : Nat) (ops : List (Op M)) (hd : d ≤ m) (hm : ∀ o ∈ ops, o.time ≤ m) :
    lastTime d ops ≤ m := by
  rcases lastTime_cases d ops with h | ⟨o, ho, h⟩
  · rw [h]; exact hd
  · rw [h]; exact hm o ho

theorem le_lastTime (d : Nat) (ops : List (Op M)) (mono : MonoOps d ops) :
    d ≤ lastTime d ops ∧ ∀ o ∈ ops, o.time ≤ lastTime d ops := by
  induction ops generalizing d with
  | nil => exact ⟨le_refl _, by simp⟩
  | cons o r ih =>
    obtain ⟨hle, hm⟩ := mono
    obtain ⟨h1, h2⟩ := ih o.time hm
    refine ⟨le_trans hle h1, ?_⟩
    intro o' ho'
    rcases List.mem_cons.mp ho' with rfl | ho'
    · exact h1
    · exact h2 o' ho'

theorem mk_cur (n L now : Nat) (hn : 0 < n) : Cur (mk n L now : Arr M) now := by
  have hlen : (mk n L now : Arr M).slots.length = n := by simp [mk]
  have hi0 : (now / L) % n < n := Nat.mod_lt _ hn
  have hidx : idx (mk n L now : Arr M) now = (now / L) % n := by simp [idx, mk]
  have hLm : (mk n L now : Arr M).L = L := by simp [mk]
  unfold Cur
  rw [hLm]
  simp only [hidx]
  refine ⟨by rw [hlen]; exact hi0, ?_⟩
  have := mk_slot (M := M) n L now ((now / L) % n) hi0
  rw [List.getElem?_eq_getElem (by rw [hlen]; exact hi0)] at this
  simpa using this

/-- **what the read theorems need to know about an array**: it refines the history `h` (geometry `n × L`)
    and every call so far happened at or before `now`; `latest` is the time of the last call. -/
structure Reach (a : Arr M) (n L : Nat) (h : List (Nat × M)) (latest now : Nat) : Prop where
  n_eq : a.n = n
  L_eq : a.L = L
  n_pos : 0 < n
  L_pos : 0 < L
  le : latest ≤ now
  cur : Cur a latest
  inv : ∃ t0, Inv a h t0 latest

/-- every array the driver can reach: created at any `now0` (0 included), then any time-monotone sequence of
    recordings and refreshes at positive times (the library ignores calls at time 0), read at any `now` not before
    the last call -/
theorem reach_ops_pos (n L now0 : Nat) (hn : 0 < n) (hL : 0 < L) (ops : List (Op M))
    (mono : MonoOps now0 ops) (now : Nat) (hnow : ∀ o ∈ ops, o.time ≤ now) (hnow0 : now0 ≤ now)
    (h0 : ∀ o ∈ ops, 0 < o.time) :
    Reach (runOps (mk n L now0) ops) n L (addsOf ops) (lastTime now0 ops) now := by
  obtain ⟨hi, hc, hL', hn'⟩ := runOps_inv (mk n L now0 : Arr M) [] now0 now0 ops (mk_inv n L now0 hn hL)
    (mk_cur n L now0 hn) h0 mono
  exact ⟨by simpa [mk] using hn', by simpa [mk] using hL', hn, hL, lastTime_le now0 now ops hnow0 hnow, hc,
    ⟨now0, by simpa using hi⟩⟩

theorem monoOps_ge (prev : Nat) (ops : List (Op M)) (mono : MonoOps prev ops) : ∀ o ∈ ops, prev ≤ o.time := by
  induction ops generalizing prev with
  | nil => simp
  | cons o r ih =>
    intro o' ho'
    rcases List.mem_cons.mp ho' with rfl | ho'
    · exact mono.1
    · exact le_trans mono.1 (ih o.time mono.2 o' ho')

/-- the special case of a creation time `now0 > 0` (then every call time is positive) -/
theorem reach_ops (n L now0 : Nat) (hn : 0 < n) (hL : 0 < L) (h0 : 0 < now0) (ops : List (Op M))
    (mono : MonoOps now0 ops) (now : Nat) (hnow : ∀ o ∈ ops, o.time ≤ now) (hnow0 : now0 ≤ now) :
    Reach (runOps (mk n L now0) ops) n L (addsOf ops) (lastTime now0 ops) now :=
  reach_ops_pos n L now0 hn hL ops mono now hnow hnow0
    (fun o ho => Nat.lt_of_lt_of_le h0 (monoOps_ge now0 ops mono o ho))

/-! ## pure recording histories are a special case -/

def opsOfAdds (h : List (Nat × M)) : List (Op M) := h.map fun e => Op.add e.1 e.2

theorem addsOf_opsOfAdds (h : List (Nat × M)) : addsOf (opsOfAdds h) = h := by
  induction h with
  | nil => rfl
  | cons e r ih => obtain ⟨t, x⟩ := e; simp [opsOfAdds, addsOf] at ih ⊢; exact ih

theorem runOps_opsOfAdds (a : Arr M) (h : List (Nat × M)) (hpos : ∀ e ∈ h, e.1 ≠ 0) :
    runOps a (opsOfAdds h) = runAdds a h := by
  induction h generalizing a with
  | nil => rfl
  | cons e r ih =>
    obtain ⟨t, x⟩ := e
    have ht : t ≠ 0 := hpos (t, x) (List.mem_cons_self ..)
    have := ih (add a t x).1 (fun e he => hpos e (List.mem_cons_of_mem _ he))
    simpa [opsOfAdds, runOps, runAdds, Op.apply, addAt, ht] using this

theorem monoOps_opsOfAdds (now0 : Nat) (h : List (Nat × M)) (m : Mono now0 h) : MonoOps now0 (opsOfAdds h) := by
  induction h generalizing now0 with
  | nil => trivial
  | cons e r ih =>
    obtain ⟨t, x⟩ := e
    exact ⟨m.1, ih t m.2⟩

theorem runOps_append (a : Arr M) (o1 o2 : List (Op M)) : runOps a (o1 ++ o2) = runOps (runOps a o1) o2 := by
  induction o1 generalizing a with
  | nil => rfl
  | cons o r ih => simp [runOps, ih]

/-! ## calls at time 0 ("no time" for the library) change nothing -/

/-- the calls the library does not ignore -/
def posOps (ops : List (Op M)) : List (Op M) := ops.filter fun o => decide (0 < o.time)

theorem apply_time0 (a : Arr M) (o : Op M) (h : o.time = 0) : o.apply a = a := by
  cases o with
  | add t x => simp only [Op.time] at h; subst h; simp [Op.apply, addAt]
  | refresh t => simp only [Op.time] at h; subst h; simp [Op.apply, Sentinel.LA.refresh, addAt]

theorem runOps_posOps (a : Arr M) (ops : List (Op M)) : runOps a ops = runOps a (posOps ops) := by
  induction ops generalizing a with
  | nil => rfl
  | cons o r ih =>
    by_cases hp : 0 < o.time
    · simp only [posOps, List.filter_cons, hp, decide_true, if_true, runOps]
      exact ih _
    · have h0 : o.time = 0 := by omega
      simp only [posOps, List.filter_cons, hp, decide_false, runOps, apply_time0 a o h0]
      simpa [posOps] using ih a

theorem monoOps_posOps (prev : Nat) (ops : List (Op M)) (mono : MonoOps prev ops) : MonoOps prev (posOps ops) := by
  induction ops generalizing prev with
  | nil => trivial
  | cons o r ih =>
    obtain ⟨hle, hm⟩ := mono
    by_cases hp : 0 < o.time
    · simp only [posOps, List.filter_cons, hp, decide_true, if_true]
      exact ⟨hle, ih o.time hm⟩
    · have h0 : o.time = 0 := by omega
      have hprev : prev = 0 := by omega
      simp only [posOps, List.filter_cons, hp, decide_false]
      have := ih o.time hm
      rw [h0] at this
      rw [hprev]
      simpa [posOps] using this

theorem mem_posOps (ops : List (Op M)) (o : Op M) : o ∈ posOps ops ↔ o ∈ ops ∧ 0 < o.time := by
  simp [posOps]

end Sentinel.LA
