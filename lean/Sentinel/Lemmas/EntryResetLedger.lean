import Sentinel.Lemmas.EntryReset
/-!
# The ledger for histories WITH node-map resets

A history with resets is a list of segments (newest first), a `stat.ResetResourceNodeMap()` between consecutive ones.
`flat segs` is the reset-free history with the same account: the ops of the newest segment as they are, the ops of the
older segments with every entry *detached* (its chain's node slot replaced by a no-op: it never attaches a resource
node).  `segs_flat`: the model after the segmented run agrees with the model after `flat segs` on the inbound node,
on EVERY resource node, on the log and on every entry's context (up to the spelling of the prepare table).  The ledger
theorems for reset-free histories then speak about `flat segs`: a resource's account restarts from the entries made
after the last reset, older entries complete on their own (unreachable) node, the inbound account is untouched.
-/
namespace Sentinel.Entry
open Sentinel.LA

/-- a context without what a node-map reset / a detached prepare table changes -/
def core (c : Ctx) : Ctx :=
  { c with hasNode := false, e := { c.e with chain := { c.e.chain with pre := [] } } }

/-- the input of an entry without its prepare table -/
def coreE (e : EntryOp) : EntryOp := { e with chain := { e.chain with pre := [] } }

theorem core_eq_iff (c c' : Ctx) :
    core c = core c' ↔ coreE c.e = coreE c'.e ∧ c.start = c'.start ∧ c.err = c'.err ∧ c.blocked = c'.blocked ∧ c.exited = c'.exited := by
  obtain ⟨e, st, er, hn, bl, ex⟩ := c
  obtain ⟨e', st', er', hn', bl', ex'⟩ := c'
  simp only [core, coreE, Ctx.mk.injEq]
  tauto

/-- statistic callbacks: the inbound node and the log depend on the context only through `core`; the resource nodes
    in addition through the attachment -/
theorem stat_core (s s' : St) (c c' : Ctx) (t : Nat) (h1 : s.inb = s'.inb) (h2 : s.log = s'.log) (hc : core c = core c') :
    ((statPassed s c t).inb = (statPassed s' c' t).inb ∧ (statPassed s c t).log = (statPassed s' c' t).log ∧
      (s.nodes = s'.nodes → c.hasNode = c'.hasNode → (statPassed s c t).nodes = (statPassed s' c' t).nodes)) ∧
    ((statBlocked s c t).inb = (statBlocked s' c' t).inb ∧ (statBlocked s c t).log = (statBlocked s' c' t).log ∧
      (s.nodes = s'.nodes → c.hasNode = c'.hasNode → (statBlocked s c t).nodes = (statBlocked s' c' t).nodes)) ∧
    ((statCompleted s c t).inb = (statCompleted s' c' t).inb ∧ (statCompleted s c t).log = (statCompleted s' c' t).log ∧
      (s.nodes = s'.nodes → c.hasNode = c'.hasNode → (statCompleted s c t).nodes = (statCompleted s' c' t).nodes)) := by
  obtain ⟨e, st, er, hn, bl, ex⟩ := c
  obtain ⟨e', st', er', hn', bl', ex'⟩ := c'
  obtain ⟨id, res, inb, batch, args, ch, rty, fl, att⟩ := e
  obtain ⟨id', res', inb', batch', args', ch', rty', fl', att'⟩ := e'
  obtain ⟨pre, rules, std, recs⟩ := ch
  obtain ⟨pre', rules', std', recs'⟩ := ch'
  simp only [core, Ctx.mk.injEq, EntryOp.mk.injEq, Chain.mk.injEq] at hc
  obtain ⟨⟨rfl, rfl, rfl, rfl, rfl, ⟨_, rfl, rfl, rfl⟩, rfl, rfl, rfl⟩, rfl, rfl, _, rfl, rfl⟩ := hc
  unfold statPassed statBlocked statCompleted onStat
  cases std <;> cases hn <;> cases hn' <;> cases inb <;> simp [h1, h2] <;> intros <;> simp_all

theorem coreE_fields {e e' : EntryOp} (h : coreE e = coreE e') :
    e.id = e'.id ∧ e.res = e'.res ∧ e.chain.rules = e'.chain.rules ∧ e.chain.std = e'.chain.std := by
  obtain ⟨id, res, inb, batch, args, ch, rty, fl, att⟩ := e
  obtain ⟨id', res', inb', batch', args', ch', rty', fl', att'⟩ := e'
  obtain ⟨pre, rules, std, recs⟩ := ch
  obtain ⟨pre', rules', std', recs'⟩ := ch'
  simp only [coreE, EntryOp.mk.injEq, Chain.mk.injEq] at h
  obtain ⟨rfl, rfl, _, _, _, ⟨_, rfl, rfl, _⟩, _⟩ := h
  exact ⟨rfl, rfl, rfl, rfl⟩

/-- `SlotChain.Entry` on two contexts that differ only in attachment and in the spelling of the prepare table (same
    panic behaviour): same inbound node, log, verdict and resulting context core; with the same table and node map also
    the same resource nodes and attachment -/
theorem chainEntry_core (fix : Bool) (s s' : St) (c c' : Ctx) (t : Nat) (h1 : s.inb = s'.inb) (h2 : s.log = s'.log)
    (hc : core c = core c') (hp : (preRun c.e.chain.pre).2 = (preRun c'.e.chain.pre).2) :
    (chainEntry fix s c t).1.inb = (chainEntry fix s' c' t).1.inb ∧
    (chainEntry fix s c t).1.log = (chainEntry fix s' c' t).1.log ∧
    core (chainEntry fix s c t).2.1 = core (chainEntry fix s' c' t).2.1 ∧
    (chainEntry fix s c t).2.2 = (chainEntry fix s' c' t).2.2 ∧
    (s.nodes = s'.nodes → c.e.chain.pre = c'.e.chain.pre →
      (chainEntry fix s c t).1.nodes = (chainEntry fix s' c' t).1.nodes ∧
      (chainEntry fix s c t).2.1.hasNode = (chainEntry fix s' c' t).2.1.hasNode) := by
  rw [chainEntry_eq, chainEntry_eq]
  obtain ⟨hE, hst, her, hbl, hex⟩ := (core_eq_iff c c').mp hc
  obtain ⟨_, hres, hrules, _⟩ := coreE_fields hE
  have hout : outcome c.e.chain = outcome c'.e.chain := by unfold outcome; rw [hp, hrules]
  -- the states after the prepare phase
  set s1 : St := if attached c.e.chain = true then { s with nodes := getOrCreate s.nodes c.e.res t } else s with hs1
  set s1' : St := if attached c'.e.chain = true then { s' with nodes := getOrCreate s'.nodes c'.e.res t } else s' with hs1'
  have a1 : s1.inb = s1'.inb := by simp only [hs1, hs1']; split_ifs <;> exact h1
  have a2 : s1.log = s1'.log := by simp only [hs1, hs1']; split_ifs <;> exact h2
  have a3 : s.nodes = s'.nodes → c.e.chain.pre = c'.e.chain.pre → s1.nodes = s1'.nodes := by
    intro hn hpre
    have : attached c.e.chain = attached c'.e.chain := by unfold attached; rw [hpre]
    simp only [hs1, hs1', this, hres, hn]; split_ifs <;> simp [hn]
  have a4 : c.e.chain.pre = c'.e.chain.pre → attached c.e.chain = attached c'.e.chain := by
    intro hpre; unfold attached; rw [hpre]
  -- the contexts after the prepare phase
  have cc : ∀ (er er' : Option String) (b : Bool), er = er' →
      core { c with hasNode := attached c.e.chain, err := er, blocked := b } =
      core { c' with hasNode := attached c'.e.chain, err := er', blocked := b } := by
    intro er er' b he
    rw [core_eq_iff]; exact ⟨hE, hst, he, rfl, hex⟩
  rw [← hout]
  cases ho : outcome c.e.chain with
  | pass =>
    obtain ⟨⟨p1, p2, p3⟩, _, _⟩ := stat_core s1 s1' { c with hasNode := attached c.e.chain } { c' with hasNode := attached c'.e.chain } t a1 a2
      (by rw [core_eq_iff]; exact ⟨hE, hst, her, hbl, hex⟩)
    refine ⟨p1, p2, ?_, rfl, ?_⟩
    · have := cc c.err c'.err false her; simpa using this
    · intro hn hpre; exact ⟨p3 (a3 hn hpre) (a4 hpre), a4 hpre⟩
  | block =>
    obtain ⟨_, ⟨p1, p2, p3⟩, _⟩ := stat_core s1 s1' { c with hasNode := attached c.e.chain } { c' with hasNode := attached c'.e.chain } t a1 a2
      (by rw [core_eq_iff]; exact ⟨hE, hst, her, hbl, hex⟩)
    refine ⟨p1, p2, ?_, rfl, ?_⟩
    · have := cc c.err c'.err true her; simpa using this
    · intro hn hpre; exact ⟨p3 (a3 hn hpre) (a4 hpre), a4 hpre⟩
  | panic =>
    have hcc : core { c with hasNode := attached c.e.chain, err := some "panic" } =
        core { c' with hasNode := attached c'.e.chain, err := some "panic" } := by
      rw [core_eq_iff]; exact ⟨hE, hst, rfl, hbl, hex⟩
    cases fix with
    | true =>
      simp only [recoverPanic, if_true]
      obtain ⟨⟨p1, p2, p3⟩, _, _⟩ := stat_core s1 s1' { c with hasNode := attached c.e.chain, err := some "panic" }
        { c' with hasNode := attached c'.e.chain, err := some "panic" } t a1 a2 hcc
      refine ⟨p1, p2, hcc, trivial, ?_⟩
      intro hn hpre; exact ⟨p3 (a3 hn hpre) (a4 hpre), a4 hpre⟩
    | false =>
      simp only [recoverPanic, Bool.false_eq_true, if_false]
      refine ⟨a1, a2, hcc, trivial, ?_⟩
      intro hn hpre; exact ⟨a3 hn hpre, a4 hpre⟩

/-- two states with the same inbound node, log and entry contexts up to attachment / prepare table; with `nd` also the
    same resource nodes and attachments -/
structure G (nd : Bool) (s s' : St) : Prop where
  inb : s.inb = s'.inb
  log : s.log = s'.log
  ents : ∀ id, (findE s.ents id).map core = (findE s'.ents id).map core
  nodes : nd = true → s.nodes = s'.nodes ∧ ∀ id, (findE s.ents id).map (·.hasNode) = (findE s'.ents id).map (·.hasNode)

/-- related ops: the same `trace` / `exit`; entries equal up to the prepare table with the same panic behaviour (and the
    same table when the resource nodes are tracked) -/
def OpRel (nd : Bool) (x x' : TOp) : Prop :=
  x.1 = x'.1 ∧ match x.2, x'.2 with
  | .entry e, .entry e' =>
    coreE e = coreE e' ∧ (preRun e.chain.pre).2 = (preRun e'.chain.pre).2 ∧ (nd = true → e.chain.pre = e'.chain.pre)
  | .trace i a, .trace j b => i = j ∧ a = b
  | .exit i a, .exit j b => i = j ∧ a = b
  | _, _ => False

theorem opRel_refl (nd : Bool) (x : TOp) : OpRel nd x x := by
  obtain ⟨t, op⟩ := x
  cases op <;> simp [OpRel]

theorem g_findE_none {nd s s'} (h : G nd s s') (id : Nat) : findE s.ents id = none ↔ findE s'.ents id = none := by
  have := h.ents id
  cases h1 : findE s.ents id <;> cases h2 : findE s'.ents id <;> simp_all

open Sentinel.EntryPool in
theorem g_entry {nd s s'} (h : G nd s s') (fix : Bool) (t : Nat) (e e' : EntryOp) (hE : coreE e = coreE e')
    (hp : (preRun e.chain.pre).2 = (preRun e'.chain.pre).2) (hpre : nd = true → e.chain.pre = e'.chain.pre) :
    G nd (apiEntry fix s t e) (apiEntry fix s' t e') := by
  obtain ⟨hid, _, _, _⟩ := coreE_fields hE
  unfold apiEntry
  rw [← hid]
  cases h1 : findE s.ents e.id with
  | some c =>
    cases h2 : findE s'.ents e.id with
    | none => exact absurd ((g_findE_none h e.id).mpr h2) (by simp [h1])
    | some c' => exact h
  | none =>
    have h2 : findE s'.ents e.id = none := (g_findE_none h e.id).mp h1
    rw [h2]
    simp only []
    set c0 : Ctx := { e := e, start := t, err := none, hasNode := false, blocked := false, exited := false } with hc0
    set c0' : Ctx := { e := e', start := t, err := none, hasNode := false, blocked := false, exited := false } with hc0'
    have hcc : core c0 = core c0' := by rw [core_eq_iff]; exact ⟨hE, rfl, rfl, rfl, rfl⟩
    obtain ⟨i1, i2, i3, i4, i5⟩ := chainEntry_core fix s s' c0 c0' t h.inb h.log hcc hp
    have k1 := chainEntry_keeps_ents fix s c0 t
    have k2 := chainEntry_keeps_ents fix s' c0' t
    rw [← i4]
    generalize chainEntry fix s c0 t = R at i1 i2 i3 i5 k1 ⊢
    generalize chainEntry fix s' c0' t = R' at i1 i2 i3 i5 k2 ⊢
    have key : ∀ (b : Bool), G nd { R.1 with ents := (e.id, { R.2.1 with exited := b || R.2.1.exited }) :: R.1.ents }
        { R'.1 with ents := (e.id, { R'.2.1 with exited := b || R'.2.1.exited }) :: R'.1.ents } := by
      intro b
      obtain ⟨q1, q2, q3, q4, q5⟩ := (core_eq_iff _ _).mp i3
      refine ⟨i1, i2, ?_, ?_⟩
      · intro id
        simp only [findE_cons, k1, k2]
        split_ifs
        · simp only [Option.map, Option.some.injEq]
          rw [core_eq_iff]; exact ⟨q1, q2, q3, q4, by simp [q5]⟩
        · exact h.ents id
      · intro hnd
        obtain ⟨n1, n2⟩ := h.nodes hnd
        obtain ⟨m1, m2⟩ := i5 n1 (hpre hnd)
        refine ⟨m1, ?_⟩
        intro id
        simp only [findE_cons, k1, k2]
        split_ifs
        · simp [m2]
        · exact n2 id
    have hf := key false
    have ht := key true
    simp only [Bool.false_or, Bool.true_or] at hf ht
    cases R.2.2 with
    | none => exact hf
    | some o => cases o <;> first | exact hf | exact ht

theorem g_trace {nd s s'} (h : G nd s s') (id : Nat) (err : Option String) :
    G nd (apiTrace s id err) (apiTrace s' id err) := by
  unfold apiTrace
  have he := h.ents id
  cases h1 : findE s.ents id with
  | none =>
    have h2 := (g_findE_none h id).mp h1
    rw [h2]; exact h
  | some c =>
    cases h2 : findE s'.ents id with
    | none => exact absurd ((g_findE_none h id).mpr h2) (by simp [h1])
    | some c' =>
      rw [h1, h2] at he
      have hc : core c = core c' := by simpa using he
      obtain ⟨q1, q2, q3, q4, q5⟩ := (core_eq_iff _ _).mp hc
      have hn : nd = true → c.hasNode = c'.hasNode := by
        intro hnd; have := (h.nodes hnd).2 id; rw [h1, h2] at this; simpa using this
      simp only []
      by_cases hx : c'.exited = true
      · rw [if_pos (q5 ▸ hx : c.exited = true), if_pos hx]; exact h
      · rw [if_neg (q5 ▸ hx : ¬ c.exited = true), if_neg hx]
        cases err with
        | none => exact h
        | some x =>
          refine ⟨h.inb, h.log, ?_, ?_⟩
          · intro id'
            simp only [findE_cons]
            split_ifs
            · simp only [Option.map, Option.some.injEq]; rw [core_eq_iff]; exact ⟨q1, q2, rfl, q4, q5⟩
            · exact h.ents id'
          · intro hnd
            refine ⟨(h.nodes hnd).1, ?_⟩
            intro id'
            simp only [findE_cons]
            split_ifs
            · simp [hn hnd]
            · exact (h.nodes hnd).2 id'

theorem g_exit {nd s s'} (h : G nd s s') (t id : Nat) (err : Option String) :
    G nd (apiExit s t id err) (apiExit s' t id err) := by
  unfold apiExit
  have he := h.ents id
  cases h1 : findE s.ents id with
  | none =>
    have h2 := (g_findE_none h id).mp h1
    rw [h2]; exact h
  | some c =>
    cases h2 : findE s'.ents id with
    | none => exact absurd ((g_findE_none h id).mpr h2) (by simp [h1])
    | some c' =>
      rw [h1, h2] at he
      have hc : core c = core c' := by simpa using he
      obtain ⟨q1, q2, q3, q4, q5⟩ := (core_eq_iff _ _).mp hc
      have hn : nd = true → c.hasNode = c'.hasNode := by
        intro hnd; have := (h.nodes hnd).2 id; rw [h1, h2] at this; simpa using this
      simp only []
      by_cases hx : c'.exited = true
      · rw [if_pos (q5 ▸ hx : c.exited = true), if_pos hx]; exact h
      · rw [if_neg (q5 ▸ hx : ¬ c.exited = true), if_neg hx]
        have hc1 : core { c with err := orErr err c.err } = core { c' with err := orErr err c'.err } := by
          rw [core_eq_iff]; exact ⟨q1, q2, by simp [q3], q4, q5⟩
        have hcx : core { c with err := orErr err c.err, exited := true } = core { c' with err := orErr err c'.err, exited := true } := by
          rw [core_eq_iff]; exact ⟨q1, q2, by simp [q3], q4, rfl⟩
        by_cases hb : c'.blocked = true
        · rw [if_pos (q4 ▸ hb : c.blocked = true), if_pos hb]
          refine ⟨h.inb, h.log, ?_, ?_⟩
          · intro id'
            simp only [findE_cons]
            split_ifs
            · simpa using hcx
            · exact h.ents id'
          · intro hnd
            refine ⟨(h.nodes hnd).1, ?_⟩
            intro id'
            simp only [findE_cons]
            split_ifs
            · simp [hn hnd]
            · exact (h.nodes hnd).2 id'
        · rw [if_neg (q4 ▸ hb : ¬ c.blocked = true), if_neg hb]
          obtain ⟨_, _, ⟨j1, j2, j3⟩⟩ := stat_core s s' _ _ t h.inb h.log hc1
          refine ⟨j1, j2, ?_, ?_⟩
          · intro id'
            simp only [findE_cons, statCompleted_keeps_ents']
            split_ifs
            · simpa using hcx
            · exact h.ents id'
          · intro hnd
            refine ⟨j3 (h.nodes hnd).1 (hn hnd), ?_⟩
            intro id'
            simp only [findE_cons, statCompleted_keeps_ents']
            split_ifs
            · simp [hn hnd]
            · exact (h.nodes hnd).2 id'

theorem g_step {nd s s'} (h : G nd s s') (fix : Bool) (x x' : TOp) (hx : OpRel nd x x') :
    G nd (step fix s x) (step fix s' x') := by
  obtain ⟨t, op⟩ := x
  obtain ⟨t', op'⟩ := x'
  obtain ⟨ht, hop⟩ := hx
  simp only at ht; subst ht
  cases op with
  | entry e =>
    cases op' with
    | entry e' => exact g_entry h fix t e e' hop.1 hop.2.1 hop.2.2
    | trace j b => exact absurd hop (by simp)
    | exit j b => exact absurd hop (by simp)
  | trace i a =>
    cases op' with
    | entry e' => exact absurd hop (by simp)
    | trace j b => obtain ⟨rfl, rfl⟩ := hop; exact g_trace h i a
    | exit j b => exact absurd hop (by simp)
  | exit i a =>
    cases op' with
    | entry e' => exact absurd hop (by simp)
    | trace j b => exact absurd hop (by simp)
    | exit j b => obtain ⟨rfl, rfl⟩ := hop; exact g_exit h t i a

/-! ## detached entries -/

/-- the node slot of a prepare table replaced by a no-op: the entry never attaches a resource node -/
def detachPre (p : Pre) : Pre := if p = .node then .noop else p

def detachE (e : EntryOp) : EntryOp := { e with chain := { e.chain with pre := e.chain.pre.map detachPre } }

/-- an op of an older segment as the account sees it after the reset -/
def detach (x : TOp) : TOp :=
  match x.2 with
  | .entry e => (x.1, .entry (detachE e))
  | _ => x

theorem preRun_detach (l : List Pre) : preRun (l.map detachPre) = (false, (preRun l).2) := by
  induction l with
  | nil => rfl
  | cons a r ih =>
    cases a <;> simp [detachPre, preRun, ih]

theorem attached_detach (e : EntryOp) : attached (detachE e).chain = false := by
  simp [attached, detachE, preRun_detach]

theorem outcome_detach (e : EntryOp) : outcome (detachE e).chain = outcome e.chain := by
  simp [outcome, detachE, preRun_detach]

/-- a detached entry accounts on no resource node, and on the inbound node exactly as before -/
theorem touches_detach (e : EntryOp) (k : Key) :
    touches (detachE e) k = (match k with | none => touches e none | some _ => false) := by
  cases k with
  | none => rfl
  | some r => simp [touches, attached_detach]

theorem opRel_detach (x : TOp) : OpRel false x (detach x) := by
  obtain ⟨t, op⟩ := x
  cases op with
  | entry e =>
    refine ⟨rfl, ?_⟩
    simp only [detach]
    refine ⟨by simp [coreE, detachE], by simp [detachE, preRun_detach], by simp⟩
  | trace i a => simp [OpRel, detach]
  | exit i a => simp [OpRel, detach]

theorem g_refl (nd : Bool) (s : St) : G nd s s := ⟨rfl, rfl, fun _ => rfl, fun _ => ⟨rfl, fun _ => rfl⟩⟩

theorem g_trans {s1 s2 s3 : St} (a : G true s1 s2) (b : G true s2 s3) : G true s1 s3 :=
  ⟨a.inb.trans b.inb, a.log.trans b.log, fun id => (a.ents id).trans (b.ents id),
   fun h => ⟨((a.nodes h).1).trans (b.nodes h).1, fun id => ((a.nodes h).2 id).trans ((b.nodes h).2 id)⟩⟩

/-- the run of a history and the run of the same history with every entry detached agree on everything but nodes -/
theorem g_detached_run (fix : Bool) (t0 : Nat) (h : List TOp) :
    G false (runR fix t0 h) (runR fix t0 (h.map detach)) := by
  induction h with
  | nil => exact g_refl false _
  | cons x r ih => exact g_step ih fix x (detach x) (opRel_detach x)

/-! ### a run of detached ops has no resource node and no attachment -/

def NoAtt (s : St) : Prop := s.nodes = [] ∧ ∀ id c, findE s.ents id = some c → c.hasNode = false

theorem stat_nodes_noNode (s : St) (c : Ctx) (t : Nat) (h : c.hasNode = false) :
    (statPassed s c t).nodes = s.nodes ∧ (statBlocked s c t).nodes = s.nodes ∧ (statCompleted s c t).nodes = s.nodes := by
  unfold statPassed statBlocked statCompleted onStat
  cases c.e.chain.std <;> cases c.e.inbound <;> simp [h]

open Sentinel.EntryPool in
theorem noAtt_step (fix : Bool) (s : St) (x : TOp) (h : NoAtt s) : NoAtt (step fix s (detach x)) := by
  obtain ⟨t, op⟩ := x
  obtain ⟨hn, hc⟩ := h
  cases op with
  | entry e =>
    simp only [detach, step, apiEntry]
    cases hf : findE s.ents (detachE e).id with
    | some c => exact ⟨hn, hc⟩
    | none =>
      simp only []
      have ke := chainEntry_keeps_ents fix s { e := detachE e, start := t, err := none, hasNode := false, blocked := false, exited := false } t
      have hR : (chainEntry fix s { e := detachE e, start := t, err := none, hasNode := false, blocked := false, exited := false } t).1.nodes = s.nodes ∧
          (chainEntry fix s { e := detachE e, start := t, err := none, hasNode := false, blocked := false, exited := false } t).2.1.hasNode = false := by
        rw [chainEntry_eq]
        simp only [attached_detach, Bool.false_eq_true, if_false]
        cases outcome (detachE e).chain with
        | pass => exact ⟨(stat_nodes_noNode _ _ t rfl).1, rfl⟩
        | block => exact ⟨(stat_nodes_noNode _ _ t rfl).2.1, rfl⟩
        | panic => cases fix <;> simp only [recoverPanic] <;> first | exact ⟨rfl, rfl⟩ | exact ⟨(stat_nodes_noNode _ _ t rfl).1, rfl⟩
      generalize chainEntry fix s { e := detachE e, start := t, err := none, hasNode := false, blocked := false, exited := false } t = R at ke hR ⊢
      have key : ∀ (c : Ctx), c.hasNode = false → NoAtt { R.1 with ents := ((detachE e).id, c) :: R.1.ents } := by
        intro c hcn
        refine ⟨hR.1.trans hn, ?_⟩
        intro id c' hf'
        simp only [findE_cons, ke] at hf'
        split_ifs at hf'
        · simp only [Option.some.injEq] at hf'; subst hf'; exact hcn
        · exact hc id c' hf'
      cases R.2.2 with
      | none => exact key _ hR.2
      | some o => cases o <;> exact key _ hR.2
  | trace id err =>
    simp only [detach, step, apiTrace]
    cases hf : findE s.ents id with
    | none => exact ⟨hn, hc⟩
    | some c =>
      simp only []
      split_ifs
      · exact ⟨hn, hc⟩
      · cases err with
        | none => exact ⟨hn, hc⟩
        | some x =>
          refine ⟨hn, ?_⟩
          intro id' c' hf'
          simp only [findE_cons] at hf'
          split_ifs at hf'
          · simp only [Option.some.injEq] at hf'; subst hf'; exact hc id c hf
          · exact hc id' c' hf'
  | exit id err =>
    simp only [detach, step, apiExit]
    cases hf : findE s.ents id with
    | none => exact ⟨hn, hc⟩
    | some c =>
      simp only []
      have hcn := hc id c hf
      split_ifs
      · exact ⟨hn, hc⟩
      · refine ⟨hn, ?_⟩
        intro id' c' hf'
        simp only [findE_cons] at hf'
        split_ifs at hf'
        · simp only [Option.some.injEq] at hf'; subst hf'; exact hcn
        · exact hc id' c' hf'
      · refine ⟨((stat_nodes_noNode s _ t (by exact hcn)).2.2).trans hn, ?_⟩
        intro id' c' hf'
        simp only [findE_cons, statCompleted_keeps_ents'] at hf'
        split_ifs at hf'
        · simp only [Option.some.injEq] at hf'; subst hf'; exact hcn
        · exact hc id' c' hf'

theorem noAtt_detached_run (fix : Bool) (t0 : Nat) (h : List TOp) : NoAtt (runR fix t0 (h.map detach)) := by
  induction h with
  | nil => exact ⟨rfl, fun id c hf => by simp [runR, init, findE] at hf⟩
  | cons x r ih => exact noAtt_step fix _ x ih

/-- resetting two related states relates them including the (empty) node map -/
theorem g_reset {nd s s'} (h : G nd s s') : G true (resetNodes s) (resetNodes s') := by
  refine ⟨h.inb, h.log, ?_, ?_⟩
  · intro id
    simp only [resetNodes, findE_map_noNode]
    have := h.ents id
    cases h1 : findE s.ents id <;> cases h2 : findE s'.ents id <;> rw [h1, h2] at this <;> simp_all [core, noNode]
  · intro _
    refine ⟨rfl, ?_⟩
    intro id
    simp only [resetNodes, findE_map_noNode]
    have := h.ents id
    cases h1 : findE s.ents id <;> cases h2 : findE s'.ents id <;> rw [h1, h2] at this <;> simp_all [noNode]

/-- a state without nodes and attachments is its own reset -/
theorem g_reset_noAtt (s : St) (h : NoAtt s) : G true (resetNodes s) s := by
  refine ⟨rfl, rfl, ?_, ?_⟩
  · intro id
    simp only [resetNodes, findE_map_noNode]
    cases h1 : findE s.ents id <;> simp [core, noNode]
  · intro _
    refine ⟨by simp [resetNodes, h.1], ?_⟩
    intro id
    simp only [resetNodes, findE_map_noNode]
    cases h1 : findE s.ents id with
    | none => rfl
    | some c => simp [noNode, h.2 id c h1]

/-- **the reset of a run = the run of the detached history** (inbound node, resource nodes, log, contexts) -/
theorem g_reset_run (fix : Bool) (t0 : Nat) (h : List TOp) :
    G true (resetNodes (runR fix t0 h)) (runR fix t0 (h.map detach)) :=
  g_trans (g_reset (g_detached_run fix t0 h)) (g_reset_noAtt _ (noAtt_detached_run fix t0 h))

/-! ## histories with resets -/

/-- segments newest first, a node-map reset between consecutive segments (and a harmless one before the oldest) -/
def runSegs (fix : Bool) (t0 : Nat) : List (List TOp) → St
  | [] => init t0
  | seg :: older => runFrom fix (resetNodes (runSegs fix t0 older)) seg

/-- the reset-free history with the same account: the newest segment as it is, everything older detached -/
def flat : List (List TOp) → List TOp
  | [] => []
  | seg :: older => seg ++ (flat older).map detach

theorem runFrom_runR (fix : Bool) (t0 : Nat) (h seg : List TOp) : runFrom fix (runR fix t0 h) seg = runR fix t0 (seg ++ h) := by
  induction seg with
  | nil => rfl
  | cons x r ih => simp only [runFrom, List.cons_append, runR, ih]

theorem g_runFrom {s s' : St} (h : G true s s') (fix : Bool) (seg : List TOp) : G true (runFrom fix s seg) (runFrom fix s' seg) := by
  induction seg with
  | nil => exact h
  | cons x r ih => exact g_step ih fix x x (opRel_refl true x)

/-- **segmented run = run of the flattened history** -/
theorem segs_flat (fix : Bool) (t0 : Nat) (segs : List (List TOp)) :
    G true (runSegs fix t0 segs) (runR fix t0 (flat segs)) := by
  induction segs with
  | nil => exact g_refl true _
  | cons seg older ih =>
    have h1 : G true (resetNodes (runSegs fix t0 older)) (runR fix t0 ((flat older).map detach)) :=
      g_trans (g_reset ih) (g_reset_run fix t0 (flat older))
    have h2 := g_runFrom h1 fix seg
    rw [runFrom_runR] at h2
    exact h2

/-- the clock readings of the flattened history are those of the segments in order -/
theorem flat_times (segs : List (List TOp)) : (flat segs).map (·.1) = (segs.flatten).map (·.1) := by
  induction segs with
  | nil => rfl
  | cons seg older ih =>
    have hd : ∀ l : List TOp, (l.map detach).map (·.1) = l.map (·.1) := by
      intro l
      induction l with
      | nil => rfl
      | cons x r ihl =>
        obtain ⟨t, op⟩ := x
        cases op <;> simp [detach, ihl]
    simp only [flat, List.flatten_cons, List.map_append, hd, ih]

theorem monoR_congr (t0 : Nat) (h h' : List TOp) (ht : h.map (·.1) = h'.map (·.1)) : MonoR t0 h → MonoR t0 h' := by
  induction h generalizing h' with
  | nil => cases h' with
    | nil => exact id
    | cons y r => simp at ht
  | cons x r ih =>
    cases h' with
    | nil => simp at ht
    | cons y r' =>
      simp only [List.map_cons, List.cons.injEq] at ht
      intro hm
      have hl : lastT t0 r = lastT t0 r' := by
        cases r with
        | nil => cases r' with
          | nil => rfl
          | cons z w => simp at ht
        | cons a b => cases r' with
          | nil => simp at ht
          | cons z w => simp only [List.map_cons, List.cons.injEq] at ht; exact ht.2.1
      exact ⟨by rw [← hl, ← ht.1]; exact hm.1, ih r' ht.2 hm.2⟩

/-! ## what the ledger of the flattened history says -/

theorem nodeExists_detached (h : List TOp) (res : String) : nodeExists (h.map detach) res = false := by
  induction h with
  | nil => rfl
  | cons x r ih =>
    obtain ⟨t, op⟩ := x
    cases op with
    | entry e => simp [nodeExists, nodeNewI, detach, ih, attached_detach, Op.addr]
    | trace i a => simp [nodeExists, nodeNewI, detach, ih]
    | exit i a => simp [nodeExists, nodeNewI, detach, ih]

/-- **after a reset every resource ledger is empty**: no node, no events, gauge 0 — whatever was in flight -/
theorem detached_resource_empty (fix : Bool) (h : List TOp) (res : String) :
    nodeExists (h.map detach) res = false ∧ evs fix (h.map detach) (some res) = [] ∧ gauge fix (h.map detach) (some res) = 0 :=
  ⟨nodeExists_detached h res, (noNode_empty fix _ res (nodeExists_detached h res)).1,
   (noNode_empty fix _ res (nodeExists_detached h res)).2⟩

/-- two accounts of one id that differ only in the spelling of the prepare table -/
def InfoRel : Option Info → Option Info → Prop
  | none, none => True
  | some i, some j => coreE i.e = coreE j.e ∧ outcome i.e.chain = outcome j.e.chain ∧ i.t0 = j.t0 ∧ i.err = j.err ∧ i.done = j.done
  | _, _ => False

theorem outcome_of_rel {e e' : EntryOp} (hE : coreE e = coreE e') (hp : (preRun e.chain.pre).2 = (preRun e'.chain.pre).2) :
    outcome e.chain = outcome e'.chain := by
  obtain ⟨_, _, hr, _⟩ := coreE_fields hE
  unfold outcome; rw [hp, hr]

theorem opRel_addr {x x' : TOp} (hx : OpRel false x x') : x.2.addr = x'.2.addr := by
  obtain ⟨t, op⟩ := x
  obtain ⟨t', op'⟩ := x'
  obtain ⟨_, hop⟩ := hx
  cases op <;> cases op' <;> simp only [OpRel] at hop
  · exact (coreE_fields hop.1).1
  · exact hop.1
  · exact hop.1

theorem infoStep_rel {x x' : TOp} (hx : OpRel false x x') (a b : Option Info) (h : InfoRel a b) :
    InfoRel (infoStep x a) (infoStep x' b) := by
  obtain ⟨t, op⟩ := x
  obtain ⟨t', op'⟩ := x'
  obtain ⟨ht, hop⟩ := hx
  simp only at ht; subst ht
  cases a with
  | none =>
    cases b with
    | some j => exact absurd h (by simp [InfoRel])
    | none =>
      cases op <;> cases op' <;> simp only [OpRel] at hop <;> simp only [infoStep, InfoRel]
      rename_i e e'
      obtain ⟨hE, hp, _⟩ := hop
      have ho := outcome_of_rel hE hp
      exact ⟨hE, ho, trivial, by rw [ho], by rw [ho]⟩
  | some i =>
    cases b with
    | none => exact absurd h (by simp [InfoRel])
    | some j =>
      obtain ⟨q1, q2, q3, q4, q5⟩ := h
      cases op <;> cases op' <;> simp only [OpRel] at hop <;> simp only [infoStep]
      · exact ⟨q1, q2, q3, q4, q5⟩
      · obtain ⟨_, rfl⟩ := hop
        by_cases hd : j.done = true
        · rw [if_pos (q5 ▸ hd : i.done = true), if_pos hd]; exact ⟨q1, q2, q3, q4, q5⟩
        · rw [if_neg (q5 ▸ hd : ¬ i.done = true), if_neg hd]; exact ⟨q1, q2, q3, by simp [q4], q5⟩
      · obtain ⟨_, rfl⟩ := hop
        by_cases hd : j.done = true
        · rw [if_pos (q5 ▸ hd : i.done = true), if_pos hd]; exact ⟨q1, q2, q3, q4, q5⟩
        · rw [if_neg (q5 ▸ hd : ¬ i.done = true), if_neg hd]; exact ⟨q1, q2, q3, by simp [q4], rfl⟩

theorem info_rel (h h' : List TOp) (hr : List.Forall₂ (OpRel false) h h') (id : Nat) : InfoRel (info h id) (info h' id) := by
  induction hr with
  | nil => exact trivial
  | @cons x x' r r' hx _ ih =>
    simp only [info, ← opRel_addr hx]
    split_ifs
    · exact infoStep_rel hx _ _ ih
    · exact ih

theorem coreE_inbound {e e' : EntryOp} (h : coreE e = coreE e') :
    touches e none = touches e' none ∧ e.batch = e'.batch := by
  obtain ⟨id, res, inb, batch, args, ch, rty, fl, att⟩ := e
  obtain ⟨id', res', inb', batch', args', ch', rty', fl', att'⟩ := e'
  obtain ⟨pre, rules, std, recs⟩ := ch
  obtain ⟨pre', rules', std', recs'⟩ := ch'
  simp only [coreE, EntryOp.mk.injEq, Chain.mk.injEq] at h
  obtain ⟨rfl, rfl, rfl, rfl, _, ⟨_, rfl, rfl, _⟩, _⟩ := h
  exact ⟨rfl, rfl⟩

/-- the inbound contribution of an op does not depend on the spelling of prepare tables -/
theorem inbound_contrib_rel (fix : Bool) {x x' : TOp} (hx : OpRel false x x') (a b : Option Info) (h : InfoRel a b) (g : Int) :
    contribI fix a g x none = contribI fix b g x' none ∧ gaugeDeltaI fix a x none = gaugeDeltaI fix b x' none := by
  obtain ⟨t, op⟩ := x
  obtain ⟨t', op'⟩ := x'
  obtain ⟨ht, hop⟩ := hx
  simp only at ht; subst ht
  cases op <;> cases op' <;> simp only [OpRel] at hop
  · rename_i e e'
    obtain ⟨hE, hp, _⟩ := hop
    have ho := outcome_of_rel hE hp
    obtain ⟨ht, hb⟩ := coreE_inbound hE
    have hn : a.isNone = b.isNone := by
      cases a <;> cases b <;> simp_all [InfoRel]
    simp only [contribI, gaugeDeltaI, countsPass, hn, ht, hb, ho]
    exact ⟨trivial, rfl⟩
  · exact ⟨rfl, rfl⟩
  · obtain ⟨_, rfl⟩ := hop
    cases a with
    | none =>
      cases b with
      | none => exact ⟨rfl, rfl⟩
      | some j => exact absurd h (by simp [InfoRel])
    | some i =>
      cases b with
      | none => exact absurd h (by simp [InfoRel])
      | some j =>
        obtain ⟨q1, _, q3, q4, q5⟩ := h
        obtain ⟨ht, hb⟩ := coreE_inbound q1
        simp only [contribI, gaugeDeltaI, q3, q4, q5, ht, hb]
        exact ⟨trivial, trivial⟩

/-- **the inbound ledger does not see detachment**: related histories have the same inbound events and gauge -/
theorem inbound_rel (fix : Bool) (h h' : List TOp) (hr : List.Forall₂ (OpRel false) h h') :
    evs fix h none = evs fix h' none ∧ gauge fix h none = gauge fix h' none := by
  induction hr with
  | nil => exact ⟨rfl, rfl⟩
  | @cons x x' r r' hx hrr ih =>
    have hi : InfoRel (info r x.2.addr) (info r' x'.2.addr) := by
      rw [← opRel_addr hx]; exact info_rel r r' hrr x.2.addr
    obtain ⟨c1, c2⟩ := inbound_contrib_rel fix hx _ _ hi (gauge fix r none)
    simp only [evs, gauge, contrib, gaugeDelta, ← ih.1, ← ih.2, c1, c2]
    exact ⟨trivial, trivial⟩

theorem opRel_detach_right {x y : TOp} (h : OpRel false x y) : OpRel false x (detach y) := by
  obtain ⟨t, op⟩ := x
  obtain ⟨t', op'⟩ := y
  obtain ⟨ht, hop⟩ := h
  cases op <;> cases op' <;> simp only [OpRel] at hop
  · rename_i e e'
    refine ⟨ht, ?_⟩
    simp only [detach]
    refine ⟨hop.1.trans (by simp [coreE, detachE]), hop.2.1.trans (by simp [detachE, preRun_detach]), by simp⟩
  · exact ⟨ht, by simpa [detach] using hop⟩
  · exact ⟨ht, by simpa [detach] using hop⟩

/-- the flattened history is, op by op, the plain concatenation up to detachment -/
theorem flat_rel (segs : List (List TOp)) : List.Forall₂ (OpRel false) segs.flatten (flat segs) := by
  induction segs with
  | nil => exact List.Forall₂.nil
  | cons seg older ih =>
    simp only [List.flatten_cons, flat]
    apply List.rel_append
    · exact List.forall₂_same.mpr (fun x _ => opRel_refl false x)
    · rw [List.forall₂_map_right_iff]
      exact ih.imp (fun _ _ h => opRel_detach_right h)

/-- **the inbound ledger of a history with resets is that of the same ops without any reset** -/
theorem inbound_flat (fix : Bool) (segs : List (List TOp)) :
    evs fix (flat segs) none = evs fix segs.flatten none ∧ gauge fix (flat segs) none = gauge fix segs.flatten none := by
  obtain ⟨a, b⟩ := inbound_rel fix _ _ (flat_rel segs)
  exact ⟨a.symm, b.symm⟩

end Sentinel.Entry
