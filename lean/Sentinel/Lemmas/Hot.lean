import Mathlib.Tactic
import Sentinel.Model.Hot
/-!
# Lemmas about the hotspot model: int64 wrap, the LRU, and the projection of a controller onto one value
-/
namespace Sentinel.Hot

/-! ## int64 wrap -/

theorem w_id {x : Int} (h1 : -two63 ≤ x) (h2 : x < two63) : w x = x := by
  unfold w two64
  unfold two63 at *
  omega

theorem f64int_id {q : Int} (h0 : 0 ≤ q) (h1 : q < 9007199254740992) : f64int q = q := by
  unfold f64int f64nat two63
  have : ¬ q < 0 := by omega
  have h2 : q.natAbs < 9007199254740992 := by omega
  simp only [this, h2, if_true, if_false]
  have : ((q.natAbs : Nat) : Int) = q := by omega
  rw [this]
  split <;> omega

/-! ## association lists -/

theorem lookup_cons_self (l : List (Val × Int)) (k : Val) (x : Int) : List.lookup k ((k, x) :: l) = some x := by
  simp [List.lookup_cons]

theorem lookup_cons_ne (l : List (Val × Int)) {k v : Val} (x : Int) (h : v ≠ k) :
    List.lookup v ((k, x) :: l) = List.lookup v l := by
  have hb : (v == k) = false := by simpa using h
  simp [List.lookup_cons, hb]

theorem filter_cons_self (l : List (Val × Int)) (k : Val) (x : Int) :
    ((k, x) :: l).filter (fun p => p.1 != k) = l.filter (fun p => p.1 != k) := by
  simp [List.filter_cons]

theorem filter_cons_ne (l : List (Val × Int)) {k a : Val} (x : Int) (h : a ≠ k) :
    ((a, x) :: l).filter (fun p => p.1 != k) = (a, x) :: l.filter (fun p => p.1 != k) := by
  simp [List.filter_cons, h]

theorem lookup_filter_ne (l : List (Val × Int)) {k v : Val} (h : v ≠ k) :
    (l.filter fun p => p.1 != k).lookup v = l.lookup v := by
  induction l with
  | nil => rfl
  | cons a l ih =>
    obtain ⟨a1, a2⟩ := a
    by_cases ha : a1 = k
    · subst ha
      rw [filter_cons_self, lookup_cons_ne _ _ h, ih]
    · rw [filter_cons_ne _ _ ha]
      by_cases hv : v = a1
      · subst hv
        rw [lookup_cons_self, lookup_cons_self]
      · rw [lookup_cons_ne _ _ hv, lookup_cons_ne _ _ hv, ih]

theorem lookup_filter_self (l : List (Val × Int)) (k : Val) :
    (l.filter fun p => p.1 != k).lookup k = none := by
  induction l with
  | nil => rfl
  | cons a l ih =>
    obtain ⟨a1, a2⟩ := a
    by_cases ha : a1 = k
    · subst ha; rw [filter_cons_self, ih]
    · have : k ≠ a1 := fun h => ha h.symm
      rw [filter_cons_ne _ _ ha, lookup_cons_ne _ _ this, ih]

theorem lookup_dropLast (l : List (Val × Int)) {v : Val} {x : Int}
    (h : l.dropLast.lookup v = some x) : l.lookup v = some x := by
  induction l with
  | nil => simp at h
  | cons a l ih =>
    cases l with
    | nil => simp at h
    | cons b l =>
      obtain ⟨a1, a2⟩ := a
      rw [List.dropLast_cons₂] at h
      by_cases hv : v = a1
      · subst hv
        rw [lookup_cons_self] at h ⊢
        exact h
      · rw [lookup_cons_ne _ _ hv] at h ⊢
        exact ih h

def setMap (k : Val) (x : Int) (l : List (Val × Int)) : List (Val × Int) :=
  l.map fun p => if p.1 == k then (p.1, x) else p

theorem setMap_cons_self (l : List (Val × Int)) (k : Val) (x y : Int) :
    setMap k x ((k, y) :: l) = (k, x) :: setMap k x l := by
  simp [setMap]

theorem setMap_cons_ne (l : List (Val × Int)) {k a : Val} (x y : Int) (h : a ≠ k) :
    setMap k x ((a, y) :: l) = (a, y) :: setMap k x l := by
  simp [setMap, h]

theorem lookup_set_ne (l : List (Val × Int)) {k v : Val} (x : Int) (h : v ≠ k) :
    (setMap k x l).lookup v = l.lookup v := by
  induction l with
  | nil => rfl
  | cons a l ih =>
    obtain ⟨a1, a2⟩ := a
    by_cases ha : a1 = k
    · subst ha
      rw [setMap_cons_self, lookup_cons_ne _ _ h, lookup_cons_ne _ _ h, ih]
    · rw [setMap_cons_ne _ _ _ ha]
      by_cases hv : v = a1
      · subst hv; rw [lookup_cons_self, lookup_cons_self]
      · rw [lookup_cons_ne _ _ hv, lookup_cons_ne _ _ hv, ih]

theorem lookup_set_self (l : List (Val × Int)) (k : Val) (x : Int) :
    (setMap k x l).lookup k = (l.lookup k).map fun _ => x := by
  induction l with
  | nil => rfl
  | cons a l ih =>
    obtain ⟨a1, a2⟩ := a
    by_cases ha : a1 = k
    · subst ha; rw [setMap_cons_self, lookup_cons_self, lookup_cons_self]; rfl
    · have : k ≠ a1 := fun h => ha h.symm
      rw [setMap_cons_ne _ _ _ ha, lookup_cons_ne _ _ this, lookup_cons_ne _ _ this, ih]

theorem keys_set (l : List (Val × Int)) (k : Val) (x : Int) :
    (setMap k x l).map Prod.fst = l.map Prod.fst := by
  unfold setMap
  induction l with
  | nil => rfl
  | cons a l ih =>
    simp only [List.map_cons, ih]
    split <;> rfl

theorem lookup_none_iff (l : List (Val × Int)) (v : Val) : l.lookup v = none ↔ v ∉ l.map Prod.fst := by
  induction l with
  | nil => simp
  | cons a l ih =>
    obtain ⟨a1, a2⟩ := a
    by_cases hv : v = a1
    · subst hv; simp [lookup_cons_self]
    · rw [lookup_cons_ne _ _ hv, ih]; simp [hv]

/-! ## the LRU -/

namespace LRU

theorem set_items (c : LRU) (k : Val) (x : Int) : (c.set k x).items = setMap k x c.items := rfl

theorem find_touch_self (c : LRU) (k : Val) (x : Int) : (c.touch k x).find k = some x := by
  unfold touch find; exact lookup_cons_self _ _ _

theorem find_touch_ne (c : LRU) {k v : Val} (x : Int) (h : v ≠ k) : (c.touch k x).find v = c.find v := by
  unfold touch find; dsimp only
  rw [lookup_cons_ne _ _ h, lookup_filter_ne _ h]

theorem find_push_self (c : LRU) (k : Val) (x : Int) (hs : 0 < c.size) : (c.push k x).find k = some x := by
  unfold push find; dsimp only
  split
  · rename_i hl
    cases hi : c.items with
    | nil => rw [hi] at hl; simp at hl; omega
    | cons b l => rw [List.dropLast_cons₂]; exact lookup_cons_self _ _ _
  · exact lookup_cons_self _ _ _

theorem find_push_ne_some (c : LRU) {k v : Val} (x : Int) {y : Int} (h : v ≠ k)
    (hf : (c.push k x).find v = some y) : c.find v = some y := by
  unfold push find at *; dsimp only at hf
  split at hf
  · have := lookup_dropLast _ hf
    rwa [lookup_cons_ne _ _ h] at this
  · rwa [lookup_cons_ne _ _ h] at hf

theorem find_push_ne_noevict (c : LRU) {k v : Val} (x : Int) (h : v ≠ k) (hl : c.items.length < c.size) :
    (c.push k x).find v = c.find v := by
  unfold push find; dsimp only
  have : ¬ ((k, x) :: c.items).length > c.size := by simp; omega
  rw [if_neg this, lookup_cons_ne _ _ h]

theorem find_set_self (c : LRU) (k : Val) (x : Int) : (c.set k x).find k = (c.find k).map fun _ => x := by
  unfold find; rw [set_items]; exact lookup_set_self _ _ _

theorem find_set_ne (c : LRU) {k v : Val} (x : Int) (h : v ≠ k) : (c.set k x).find v = c.find v := by
  unfold find; rw [set_items]; exact lookup_set_ne _ _ h

theorem keys_set' (c : LRU) (k : Val) (x : Int) : (c.set k x).keys = c.keys := by
  unfold keys; rw [set_items]; exact keys_set _ _ _

theorem size_set (c : LRU) (k : Val) (x : Int) : (c.set k x).size = c.size := rfl

theorem find_none_iff (c : LRU) (v : Val) : c.find v = none ↔ v ∉ c.keys := lookup_none_iff _ _

/-- keys after an access to `u`: moved to front, or inserted with the tail evicted when over capacity -/
def accKeys (size : Nat) (u : Val) (ks : List Val) : List Val :=
  if u ∈ ks then u :: ks.filter (· != u)
  else if (u :: ks).length > size then (u :: ks).dropLast else u :: ks

theorem keys_touch (c : LRU) (k : Val) (x : Int) : (c.touch k x).keys = k :: c.keys.filter (· != k) := by
  unfold touch keys; dsimp only
  rw [List.map_cons, List.filter_map]; rfl

theorem keys_push (c : LRU) (k : Val) (x : Int) :
    (c.push k x).keys = if (k :: c.keys).length > c.size then (k :: c.keys).dropLast else k :: c.keys := by
  unfold push keys; dsimp only
  simp only [List.length_cons, List.length_map]
  split
  · rw [List.map_dropLast]; rfl
  · rfl

/-- `c'` results from `c` by an access to key `u`: same size, keys reordered / inserted / tail evicted,
    the cells of all other keys untouched (or gone with the evicted tail) -/
structure Acc (u : Val) (c c' : LRU) : Prop where
  size : c'.size = c.size
  keys : c'.keys = accKeys c.size u c.keys
  other : ∀ v, v ≠ u → ∀ a, c'.find v = some a → c.find v = some a
  noev : (u ∈ c.keys ∨ c.keys.length < c.size) → ∀ v, v ≠ u → c'.find v = c.find v

theorem acc_touch (c : LRU) (u : Val) (x : Int) (h : c.find u = some x) : Acc u c (c.touch u x) := by
  have hm : u ∈ c.keys := by
    by_contra hn
    rw [← find_none_iff] at hn; rw [hn] at h; cases h
  refine ⟨rfl, ?_, ?_, ?_⟩
  · rw [keys_touch, accKeys, if_pos hm]
  · intro v hv a ha; rwa [find_touch_ne _ _ hv] at ha
  · intro _ v hv; exact find_touch_ne _ _ hv

theorem acc_push (c : LRU) (u : Val) (x : Int) (h : c.find u = none) : Acc u c (c.push u x) := by
  have hm : u ∉ c.keys := (find_none_iff _ _).mp h
  refine ⟨rfl, ?_, ?_, ?_⟩
  · rw [keys_push, accKeys, if_neg hm]
  · intro v hv a ha; exact find_push_ne_some _ _ hv ha
  · intro hor v hv
    rcases hor with h1 | h1
    · exact absurd h1 hm
    · apply find_push_ne_noevict _ _ hv
      simpa [keys] using h1

theorem acc_addIfAbsent (c : LRU) (u : Val) (x : Int) : Acc u c (c.addIfAbsent u x).1 := by
  unfold addIfAbsent
  cases h : c.items.lookup u with
  | none => exact acc_push c u x h
  | some y => exact acc_touch c u y h

theorem acc_set {u : Val} {c c' : LRU} (h : Acc u c c') (y : Int) : Acc u c (c'.set u y) := by
  refine ⟨h.size, ?_, ?_, ?_⟩
  · rw [keys_set']; exact h.keys
  · intro v hv a ha; rw [find_set_ne _ _ hv] at ha; exact h.other v hv a ha
  · intro hor v hv; rw [find_set_ne _ _ hv]; exact h.noev hor v hv

theorem addIfAbsent_none {c : LRU} {u : Val} (x : Int) (h : c.find u = none) :
    c.addIfAbsent u x = (c.push u x, none) := by
  unfold addIfAbsent; unfold find at h; rw [h]

theorem addIfAbsent_some {c : LRU} {u : Val} (x : Int) {y : Int} (h : c.find u = some y) :
    c.addIfAbsent u x = (c.touch u y, some y) := by
  unfold addIfAbsent; unfold find at h; rw [h]

theorem get_some {c : LRU} {u : Val} {y : Int} (h : c.find u = some y) : c.get u = (c.touch u y, some y) := by
  unfold get; unfold find at h; rw [h]

theorem get_none {c : LRU} {u : Val} (h : c.find u = none) : c.get u = (c, none) := by
  unfold get; unfold find at h; rw [h]

end LRU

/-! ## the two caches of a rule stay in step; projection of a controller onto one value -/

/-- both caches hold the same keys in the same recency order (and have the same positive capacity) -/
structure Sync (tm tk : LRU) : Prop where
  keys : tm.keys = tk.keys
  size : tm.size = tk.size
  pos : 0 < tm.size

theorem Sync.find_none {tm tk : LRU} (hs : Sync tm tk) (v : Val) : tm.find v = none ↔ tk.find v = none := by
  rw [LRU.find_none_iff, LRU.find_none_iff, hs.keys]

theorem Sync.of_acc {tm tk tm' tk' : LRU} {u : Val} (hs : Sync tm tk) (h1 : LRU.Acc u tm tm') (h2 : LRU.Acc u tk tk') :
    Sync tm' tk' :=
  ⟨by rw [h1.keys, h2.keys, hs.keys, hs.size], by rw [h1.size, h2.size, hs.size], by rw [h1.size]; exact hs.pos⟩

/-- the cells of value `v`: (last refill time, tokens left) when the value is resident -/
def cellR (tm tk : LRU) (v : Val) : Option (Int × Int) :=
  match tm.find v, tk.find v with
  | some a, some q => some (a, q)
  | _, _ => none

theorem cellR_some {tm tk : LRU} {v : Val} {a q : Int} (h1 : tm.find v = some a) (h2 : tk.find v = some q) :
    cellR tm tk v = some (a, q) := by unfold cellR; rw [h1, h2]

theorem cellR_none {tm tk : LRU} {v : Val} (h1 : tm.find v = none) : cellR tm tk v = none := by
  unfold cellR; rw [h1]

/-- what one `PerformChecking` of the reject controller does, seen from the value it is called for:
    the caches stay in step, the value's cells and the decision are those of the one-value machine, and the
    caches are either untouched or both accessed at that key -/
theorem rejectCheck_spec (r : Rule) (tm tk : LRU) (hs : Sync tm tk) (now : Int) (u : Val) (b : Int) :
    Sync (rejectCheck r tm tk now u b).1 (rejectCheck r tm tk now u b).2.1 ∧
    (cellR (rejectCheck r tm tk now u b).1 (rejectCheck r tm tk now u b).2.1 u, (rejectCheck r tm tk now u b).2.2)
      = svReject (tokenCount r u) (maxCount r u) (durMs r) (cellR tm tk u) now b ∧
    (((rejectCheck r tm tk now u b).1 = tm ∧ (rejectCheck r tm tk now u b).2.1 = tk) ∨
      (LRU.Acc u tm (rejectCheck r tm tk now u b).1 ∧ LRU.Acc u tk (rejectCheck r tm tk now u b).2.1)) := by
  unfold rejectCheck svReject
  dsimp only
  by_cases hT : tokenCount r u ≤ 0
  · simp only [hT, if_true]; exact ⟨hs, trivial, Or.inl ⟨trivial, trivial⟩⟩
  simp only [hT, if_false]
  by_cases hb : b > maxCount r u
  · simp only [hb, if_true]; exact ⟨hs, trivial, Or.inl ⟨trivial, trivial⟩⟩
  simp only [hb, if_false]
  cases h1 : tm.find u with
  | none =>
    have h2 : tk.find u = none := (hs.find_none u).mp h1
    rw [LRU.addIfAbsent_none _ h1, LRU.addIfAbsent_none _ h2, cellR_none h1]
    dsimp only
    have a1 := LRU.acc_push tm u now h1
    have a2 := LRU.acc_push tk u (maxCount r u - b) h2
    refine ⟨hs.of_acc a1 a2, ?_, Or.inr ⟨a1, a2⟩⟩
    rw [cellR_some (LRU.find_push_self _ _ _ hs.pos) (LRU.find_push_self _ _ _ (hs.size ▸ hs.pos))]
  | some last =>
    cases h2 : tk.find u with
    | none => rw [(hs.find_none u).mpr h2] at h1; cases h1
    | some rest =>
      rw [LRU.addIfAbsent_some _ h1, cellR_some h1 h2]
      dsimp only
      have a1 := LRU.acc_touch tm u last h1
      have a2 := LRU.acc_touch tk u rest h2
      by_cases hp : now - last > durMs r
      · simp only [hp, if_true]
        rw [LRU.addIfAbsent_some _ h2]
        dsimp only
        by_cases hq : refill (tokenCount r u) (maxCount r u) (durMs r) (now - last) rest b < 0
        · simp only [hq, if_true]
          refine ⟨hs.of_acc a1 a2, ?_, Or.inr ⟨a1, a2⟩⟩
          rw [cellR_some (LRU.find_touch_self _ _ _) (LRU.find_touch_self _ _ _)]
        · simp only [hq, if_false]
          refine ⟨hs.of_acc (LRU.acc_set a1 _) (LRU.acc_set a2 _), ?_, Or.inr ⟨LRU.acc_set a1 _, LRU.acc_set a2 _⟩⟩
          rw [cellR_some (a := now) (q := refill (tokenCount r u) (maxCount r u) (durMs r) (now - last) rest b)]
          · rw [LRU.find_set_self, LRU.find_touch_self]; rfl
          · rw [LRU.find_set_self, LRU.find_touch_self]; rfl
      · simp only [hp, if_false]
        rw [LRU.get_some h2]
        dsimp only
        by_cases hq : rest - b ≥ 0
        · simp only [hq, if_true]
          refine ⟨hs.of_acc a1 (LRU.acc_set a2 _), ?_, Or.inr ⟨a1, LRU.acc_set a2 _⟩⟩
          rw [cellR_some (a := last) (q := rest - b) (LRU.find_touch_self _ _ _)]
          rw [LRU.find_set_self, LRU.find_touch_self]; rfl
        · simp only [hq, if_false]
          refine ⟨hs.of_acc a1 a2, ?_, Or.inr ⟨a1, a2⟩⟩
          rw [cellR_some (LRU.find_touch_self _ _ _) (LRU.find_touch_self _ _ _)]

/-- the same for the throttling controller (it only uses the time cache) -/
theorem throttleCheck_spec (r : Rule) (tm : LRU) (hp : 0 < tm.size) (now : Int) (u : Val) (b : Int) :
    ((throttleCheck r tm now u b).1.find u, (throttleCheck r tm now u b).2)
      = svThrottle (tokenCount r u) (interval (tokenCount r u) r.D b) r.mq (tm.find u) now ∧
    ((throttleCheck r tm now u b).1 = tm ∨ LRU.Acc u tm (throttleCheck r tm now u b).1) := by
  unfold throttleCheck svThrottle
  dsimp only
  by_cases hT : tokenCount r u ≤ 0
  · simp only [hT, if_true]; exact ⟨trivial, Or.inl trivial⟩
  simp only [hT, if_false]
  cases h1 : tm.find u with
  | none =>
    rw [LRU.addIfAbsent_none _ h1]
    dsimp only
    exact ⟨by rw [LRU.find_push_self _ _ _ hp], Or.inr (LRU.acc_push tm u now h1)⟩
  | some last =>
    rw [LRU.addIfAbsent_some _ h1]
    dsimp only
    have a1 := LRU.acc_touch tm u last h1
    by_cases h2 : w (last + interval (tokenCount r u) r.D b) ≤ now ∨
        w (w (last + interval (tokenCount r u) r.D b) - now) < r.mq
    · simp only [h2, if_true]
      by_cases h3 : w (w (last + interval (tokenCount r u) r.D b) - now) > 0
      · simp only [h3, if_true]
        refine ⟨?_, Or.inr (LRU.acc_set a1 _)⟩
        rw [LRU.find_set_self, LRU.find_touch_self]; rfl
      · simp only [h3, if_false]
        refine ⟨?_, Or.inr (LRU.acc_set a1 _)⟩
        rw [LRU.find_set_self, LRU.find_touch_self]; rfl
    · simp only [h2, if_false]
      exact ⟨by rw [LRU.find_touch_self], Or.inr a1⟩

end Sentinel.Hot
