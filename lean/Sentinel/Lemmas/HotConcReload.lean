import Mathlib.Tactic
import Sentinel.Lemmas.HotConc
/-! C06 across reloads: what `reuseBuild` (the as-is `buildResourceTrafficShapingController`) hands to a new rule, and when
the controller invariant survives a change of the controller list. -/
namespace Sentinel.HotConc

/-- two rules select the same argument from every entry -/
def SelSame (a b : Rule) : Prop := a.res = b.res ∧ a.conc = b.conc ∧ a.idx = b.idx ∧ a.key = b.key

theorem selSame_refl (a : Rule) : SelSame a a := ⟨rfl, rfl, rfl, rfl⟩

theorem sel_of_selSame {a b : Rule} (h : SelSame a b) (res : String) (args : List Val) (atts : List (String × Val)) :
    a.sel res args atts = b.sel res args atts := by
  obtain ⟨h1, h2, h3, h4⟩ := h
  unfold Rule.sel extract
  rw [h1, h2, h3, h4]

theorem liveOf_of_selSame {a b : Rule} (h : SelSame a b) (v : Val) (L : List Live) : liveOf a v L = liveOf b v L := by
  unfold liveOf
  congr 1
  funext e
  rw [sel_of_selSame h]

/-- `Rule.Equals` implies the same selector -/
theorem selSame_of_equals {a b : Rule} (h : a.equals b = true) : SelSame a b := by
  simp only [Rule.equals, Bool.and_eq_true, beq_iff_eq] at h
  obtain ⟨⟨⟨⟨⟨⟨⟨h1, h2⟩, _⟩, _⟩, h5⟩, h6⟩, _⟩, _⟩ := h
  exact ⟨h1, h2, h5, h6⟩

theorem res_of_statReusable {a b : Rule} (h : a.statReusable b = true) : a.res = b.res := by
  simp only [Rule.statReusable, Bool.and_eq_true, beq_iff_eq] at h
  exact h.1.1.1

/-- nothing is alive or parked on resource `ρ` -/
def Idle (s : St) (ρ : String) : Prop := (∀ e ∈ s.live, e.res ≠ ρ) ∧ (∀ p ∈ s.pend, p.res ≠ ρ)

theorem sel_nil_of_res_ne (r : Rule) (res : String) (args : List Val) (atts : List (String × Val)) (h : res ≠ r.res) :
    r.sel res args atts = Val.nil := by
  unfold Rule.sel
  have : (r.res == res) = false := by
    simp only [beq_eq_false_iff_ne, ne_eq]; exact fun hc => h hc.symm
  simp [this]

theorem liveOf_idle (s : St) (r : Rule) (v : Val) (hv : v ≠ Val.nil) (h : Idle s r.res) : liveOf r v s.live = 0 := by
  unfold liveOf
  apply List.countP_eq_zero.mpr
  intro e he
  rw [sel_nil_of_res_ne r e.res e.args e.atts (h.1 e he)]
  simpa using hv.symm

/-- a controller of the new list is in order with respect to the old state if
* it carries the cells (and ghost flag) of an old controller whose rule selects the same argument — a kept controller, or
  one whose threshold / items changed — or
* it carries the cells of an old controller of its own resource and nothing is alive or parked on that resource, or
* it is fresh and no live or parked entry selects a value under its rule. -/
def TcOk (s : St) (t' : Tc) : Prop :=
  (∃ t ∈ s.tcs, t'.cache = t.cache ∧ t'.ev = t.ev ∧ SelSame t.rule t'.rule) ∨
  (∃ t ∈ s.tcs, t'.cache = t.cache ∧ t'.ev = t.ev ∧ t.rule.res = t'.rule.res ∧ Idle s t'.rule.res) ∨
  (t'.cache = [] ∧ (∀ e ∈ s.live, t'.rule.sel e.res e.args e.atts = Val.nil) ∧
    (∀ p ∈ s.pend, t'.rule.sel p.res p.args p.atts = Val.nil))

/-- **the invariant survives any replacement of the controller list by controllers that are in order** (this is the
one lemma behind `load`, `reload`, `reloadRes`) -/
theorem inv_retcs (s : St) (tcs' : List Tc) (h : Inv s) (hok : ∀ t' ∈ tcs', TcOk s t') : Inv { s with tcs := tcs' } := by
  refine ⟨?_, ?_⟩
  · intro t' ht' hev v hv
    rcases hok t' ht' with ⟨t, hm, hc, he, hs⟩ | ⟨t, hm, hc, he, hr, hi⟩ | ⟨hc, hl, _⟩
    · show cellOf t'.cache v = (liveOf t'.rule v s.live : Int)
      rw [hc, ← liveOf_of_selSame hs]
      exact h.1 t hm (by rw [← he]; exact hev) v hv
    · show cellOf t'.cache v = (liveOf t'.rule v s.live : Int)
      have h0 := h.1 t hm (by rw [← he]; exact hev) v hv
      rw [hc, h0, liveOf_idle s t'.rule v hv hi, liveOf_idle s t.rule v hv (by rw [hr]; exact hi)]
    · show cellOf t'.cache v = (liveOf t'.rule v s.live : Int)
      rw [hc]
      have : liveOf t'.rule v s.live = 0 := by
        unfold liveOf
        apply List.countP_eq_zero.mpr
        intro e he
        rw [hl e he]; simpa using hv.symm
      simp [cellOf, this]
  · intro p hp hv t' ht' hev hs
    rcases hok t' ht' with ⟨t, hm, hc, he, hss⟩ | ⟨t, hm, _, _, _, hi⟩ | ⟨_, _, hpn⟩
    · rw [hc]
      rw [← sel_of_selSame hss] at hs ⊢
      exact h.2 p hp hv t hm (by rw [← he]; exact hev) hs
    · exact absurd (sel_nil_of_res_ne t'.rule p.res p.args p.atts (hi.2 p hp)) hs
    · exact absurd (hpn p hp) hs

/-! ## what `reuseBuild` hands out (the as-is reuse algorithm, exactly) -/

theorem findReuse_spec (r : Rule) (old : List Tc) (i : Nat) (ru : Option Nat)
    (hru : ∀ j, ru = some j → j < i) :
    (∀ k, (findReuse (fun t : Tc => t.rule) r old i ru).1 = some k →
        i ≤ k ∧ ∃ o, old[k - i]? = some o ∧ o.rule.equals r = true) ∧
    (∀ k, (findReuse (fun t : Tc => t.rule) r old i ru).2 = some k → ru = some k ∨
        (i ≤ k ∧ ∃ o, old[k - i]? = some o ∧ o.rule.statReusable r = true)) := by
  induction old generalizing i ru with
  | nil => simp [findReuse]
  | cons o os ih =>
    unfold findReuse
    by_cases he : o.rule.equals r = true
    · simp only [he, if_true]
      refine ⟨?_, fun k hk => Or.inl hk⟩
      intro k hk
      simp only [Option.some.injEq] at hk
      subst hk
      exact ⟨le_refl _, o, by simp, he⟩
    · simp only [he, Bool.false_eq_true, if_false]
      by_cases hs : (o.rule.statReusable r && ru.isNone) = true
      · simp only [hs, if_true]
        have hsr : o.rule.statReusable r = true := by
          simp only [Bool.and_eq_true] at hs; exact hs.1
        obtain ⟨ih1, ih2⟩ := ih (i + 1) (some i) (by intro j hj; simp at hj; omega)
        refine ⟨?_, ?_⟩
        · intro k hk
          obtain ⟨hle, o', ho', heq⟩ := ih1 k hk
          refine ⟨by omega, o', ?_, heq⟩
          have : k - i = (k - (i + 1)) + 1 := by omega
          rw [this]; simpa using ho'
        · intro k hk
          rcases ih2 k hk with h | ⟨hle, o', ho', heq⟩
          · simp only [Option.some.injEq] at h
            subst h
            exact Or.inr ⟨le_refl _, o, by simp, hsr⟩
          · refine Or.inr ⟨by omega, o', ?_, heq⟩
            have : k - i = (k - (i + 1)) + 1 := by omega
            rw [this]; simpa using ho'
      · simp only [hs, Bool.false_eq_true, if_false]
        obtain ⟨ih1, ih2⟩ := ih (i + 1) ru (by intro j hj; have := hru j hj; omega)
        refine ⟨?_, ?_⟩
        · intro k hk
          obtain ⟨hle, o', ho', heq⟩ := ih1 k hk
          refine ⟨by omega, o', ?_, heq⟩
          have : k - i = (k - (i + 1)) + 1 := by omega
          rw [this]; simpa using ho'
        · intro k hk
          rcases ih2 k hk with h | ⟨hle, o', ho', heq⟩
          · exact Or.inl h
          · refine Or.inr ⟨by omega, o', ?_, heq⟩
            have : k - i = (k - (i + 1)) + 1 := by omega
            rw [this]; simpa using ho'

/-- **every controller built by a reload is one of exactly three things**: an old controller kept as it is (its rule
`Equals` the new rule), the cells and ghost flag of an old stat-reusable controller under the new rule, or a fresh
controller (empty cache) for the new rule -/
theorem reuseBuild_mem (rs : List Rule) (old : List Tc) (t' : Tc)
    (h : t' ∈ reuseBuild (fun t : Tc => t.rule) Tc.inherit rs old) :
    ∃ r ∈ rs, (t' ∈ old ∧ t'.rule.equals r = true) ∨
      (∃ t ∈ old, t.rule.statReusable r = true ∧ t' = { t with rule := r }) ∨
      t' = { rule := r } := by
  induction rs generalizing old with
  | nil => simp [reuseBuild] at h
  | cons r rs ih =>
    have hspec := findReuse_spec r old 0 none (by simp)
    have sub : ∀ i, ∀ x ∈ old.eraseIdx i, x ∈ old := fun i x hx => (List.eraseIdx_sublist old i).subset hx
    have lift : ∀ (old' : List Tc), (∀ x ∈ old', x ∈ old) →
        t' ∈ reuseBuild (fun t : Tc => t.rule) Tc.inherit rs old' →
        ∃ r' ∈ r :: rs, (t' ∈ old ∧ t'.rule.equals r' = true) ∨
          (∃ t ∈ old, t.rule.statReusable r' = true ∧ t' = { t with rule := r' }) ∨ t' = { rule := r' } := by
      intro old' hsub hm
      obtain ⟨r', hr', hcase⟩ := ih old' hm
      refine ⟨r', List.mem_cons_of_mem _ hr', ?_⟩
      rcases hcase with ⟨hm1, he⟩ | ⟨t, ht, hs, heq⟩ | heq
      · exact Or.inl ⟨hsub _ hm1, he⟩
      · exact Or.inr (Or.inl ⟨t, hsub _ ht, hs, heq⟩)
      · exact Or.inr (Or.inr heq)
    unfold reuseBuild at h
    rcases hfr : findReuse (fun t : Tc => t.rule) r old 0 none with ⟨eq?, ru?⟩
    rw [hfr] at h hspec
    cases eq? with
    | some i =>
      obtain ⟨_, o, ho, heq⟩ := hspec.1 i rfl
      simp only [Nat.sub_zero] at ho
      simp only [ho] at h
      rcases List.mem_cons.mp h with rfl | h
      · exact ⟨r, List.mem_cons_self .., Or.inl ⟨List.mem_of_getElem? ho, heq⟩⟩
      · exact lift _ (sub i) h
    | none =>
      cases ru? with
      | some i =>
        rcases hspec.2 i rfl with hc | ⟨_, o, ho, hsr⟩
        · cases hc
        · simp only [Nat.sub_zero] at ho
          simp only [ho] at h
          rcases List.mem_cons.mp h with rfl | h
          · exact ⟨r, List.mem_cons_self .., Or.inr (Or.inl ⟨o, List.mem_of_getElem? ho, hsr, rfl⟩)⟩
          · exact lift _ (sub i) h
      | none =>
        simp only at h
        rcases List.mem_cons.mp h with rfl | h
        · exact ⟨r, List.mem_cons_self .., Or.inr (Or.inr rfl)⟩
        · exact lift _ (fun x hx => hx) h

end Sentinel.HotConc
