import Mathlib.Tactic
import Sentinel.Lemmas.HotConc
/-! C06: a controller whose history shows at most `cap` distinct values never evicts (history-level sufficient
condition for the ghost flag `Tc.ev = false`). -/
namespace Sentinel.HotConc

def keys (c : Cache) : List Val := c.map Prod.fst

theorem lookup_isSome_iff_mem (c : Cache) (v : Val) : (c.lookup v).isSome = true ↔ v ∈ keys c := by
  induction c with
  | nil => simp [keys]
  | cons p c ih =>
    obtain ⟨k, n⟩ := p
    by_cases h : v = k
    · subst h; simp [List.lookup_cons, keys]
    · have h1 : (v == k) = false := by simpa using h
      simp only [List.lookup_cons, h1, keys, List.map_cons, List.mem_cons, h, false_or]
      exact ih

theorem lookup_none_iff_not_mem (c : Cache) (v : Val) : c.lookup v = none ↔ v ∉ keys c := by
  rw [← lookup_isSome_iff_mem]
  cases c.lookup v <;> simp

theorem keys_touch (c : Cache) (v : Val) (n : Int) :
    keys (touch c v n) = v :: (keys c).filter (fun k => !(k == v)) := by
  unfold touch keys
  simp [List.map_filter, Function.comp_def, List.filter_map]

theorem keys_touch_nodup (c : Cache) (v : Val) (n : Int) (h : (keys c).Nodup) : (keys (touch c v n)).Nodup := by
  rw [keys_touch]
  apply List.nodup_cons.mpr
  exact ⟨by simp [List.mem_filter], h.filter _⟩

theorem keys_touch_subset (c : Cache) (v : Val) (n : Int) : ∀ k ∈ keys (touch c v n), k = v ∨ k ∈ keys c := by
  intro k hk
  rw [keys_touch] at hk
  rcases List.mem_cons.mp hk with h | h
  · exact Or.inl h
  · exact Or.inr (List.mem_of_mem_filter h)

/-- the bookkeeping invariant of one controller against the list `V` of values it has been asked about -/
def J (t : Tc) (V : List Val) : Prop :=
  (keys t.cache).Nodup ∧ (∀ k ∈ keys t.cache, k ∈ V) ∧ (t.ev = true → t.rule.cap < V.dedup.length)

theorem dedup_length_mono {V V' : List Val} (h : V ⊆ V') : V.dedup.length ≤ V'.dedup.length := by
  apply List.Subperm.length_le
  apply List.subperm_of_subset (List.nodup_dedup V)
  intro x hx
  exact List.mem_dedup.mpr (h (List.mem_dedup.mp hx))

theorem J_mono {t : Tc} {V V' : List Val} (h : V ⊆ V') (hj : J t V) : J t V' :=
  ⟨hj.1, fun k hk => h (hj.2.1 k hk), fun he => lt_of_lt_of_le (hj.2.2 he) (dedup_length_mono h)⟩

theorem nodup_length_le_dedup {l V : List Val} (hn : l.Nodup) (hs : ∀ k ∈ l, k ∈ V) : l.length ≤ V.dedup.length := by
  apply List.Subperm.length_le
  apply List.subperm_of_subset hn
  intro x hx
  exact List.mem_dedup.mpr (hs x hx)

theorem J_getAdd (t : Tc) (V : List Val) (v : Val) (d : Int) (hj : J t V) :
    J { t with cache := getAdd t.cache v d } V := by
  unfold getAdd
  cases hl : t.cache.lookup v with
  | none => exact hj
  | some n =>
    have hv : v ∈ keys t.cache := (lookup_isSome_iff_mem _ _).mp (by simp [hl])
    refine ⟨keys_touch_nodup _ _ _ hj.1, ?_, hj.2.2⟩
    intro k hk
    rcases keys_touch_subset _ _ _ k hk with rfl | h
    · exact hj.2.1 _ hv
    · exact hj.2.1 _ h

theorem J_addIfAbsent (t : Tc) (V : List Val) (v : Val) (hj : J t V) :
    J { t with cache := (addIfAbsent t.rule.cap t.cache v).1, ev := t.ev || (addIfAbsent t.rule.cap t.cache v).2.2 }
      (V ++ [v]) := by
  have hsub : V ⊆ V ++ [v] := List.subset_append_left ..
  unfold addIfAbsent
  cases hl : t.cache.lookup v with
  | some n =>
    simp only [Bool.or_false]
    refine ⟨keys_touch_nodup _ _ _ hj.1, ?_, fun he => lt_of_lt_of_le (hj.2.2 he) (dedup_length_mono hsub)⟩
    intro k hk
    rcases keys_touch_subset _ _ _ k hk with rfl | h
    · simp
    · exact hsub (hj.2.1 _ h)
  | none =>
    have hv : v ∉ keys t.cache := (lookup_none_iff_not_mem _ _).mp hl
    have hnd : (keys ((v, 0) :: t.cache)).Nodup := by
      simp only [keys, List.map_cons]
      exact List.nodup_cons.mpr ⟨hv, hj.1⟩
    have hss : ∀ k ∈ keys ((v, 0) :: t.cache), k ∈ V ++ [v] := by
      intro k hk
      simp only [keys, List.map_cons, List.mem_cons] at hk
      rcases hk with rfl | h
      · simp
      · exact hsub (hj.2.1 _ h)
    dsimp only
    split
    · rename_i hcap
      refine ⟨?_, ?_, ?_⟩
      · have : keys (((v, 0) :: t.cache).dropLast) = (keys ((v, 0) :: t.cache)).dropLast := by
          simp [keys, List.map_dropLast]
        rw [this]
        exact hnd.sublist (List.dropLast_sublist _)
      · intro k hk
        have : keys (((v, 0) :: t.cache).dropLast) = (keys ((v, 0) :: t.cache)).dropLast := by
          simp [keys, List.map_dropLast]
        rw [this] at hk
        exact hss k ((List.dropLast_sublist _).subset hk)
      · intro _
        have h1 := nodup_length_le_dedup hnd hss
        have h2 : (keys ((v, 0) :: t.cache)).length = ((v, (0 : Int)) :: t.cache).length := by simp [keys]
        show t.rule.cap < (V ++ [v]).dedup.length
        omega
    · refine ⟨hnd, hss, ?_⟩
      intro he
      simp only [Bool.or_false] at he
      exact lt_of_lt_of_le (hj.2.2 he) (dedup_length_mono hsub)

/-- the values a rule is asked about by one op / by a history -/
def opVals (r : Rule) : Op → List Val
  | .entry _ res a at' => if r.sel res a at' = Val.nil then [] else [r.sel res a at']
  | .check _ res a at' => if r.sel res a at' = Val.nil then [] else [r.sel res a at']
  | _ => []

def valsOf (r : Rule) : List Op → List Val
  | [] => []
  | op :: ops => opVals r op ++ valsOf r ops

theorem J_touchFor (t : Tc) (V : List Val) (res : String) (a : List Val) (at' : List (String × Val)) (hj : J t V) :
    J (t.touchFor res a at') (V ++ (if t.rule.sel res a at' = Val.nil then [] else [t.rule.sel res a at'])) := by
  unfold Tc.touchFor Tc.sel; dsimp only
  by_cases hs : t.rule.sel res a at' = Val.nil
  · simp only [hs, if_true, List.append_nil]; exact hj
  · simp only [hs, if_false]
    exact J_addIfAbsent t V _ hj

theorem J_bump (t : Tc) (V : List Val) (res : String) (a : List Val) (at' : List (String × Val)) (d : Int) (hj : J t V) :
    J (t.bump res a at' d) V := by
  unfold Tc.bump; dsimp only
  split
  · exact hj
  · exact J_getAdd t V _ d hj

theorem J_checkTcs (V : Rule → List Val) (res : String) (a : List Val) (at' : List (String × Val)) (tcs : List Tc)
    (h : ∀ t ∈ tcs, J t (V t.rule)) :
    ∀ t' ∈ (checkTcs res a at' tcs).1,
      J t' (V t'.rule ++ (if t'.rule.sel res a at' = Val.nil then [] else [t'.rule.sel res a at'])) := by
  intro t' ht'
  obtain ⟨t, hm, ht⟩ := checkTcs_mem res a at' tcs t' ht'
  rcases ht with rfl | rfl
  · exact J_mono (List.subset_append_left ..) (h _ hm)
  · rw [touchFor_rule]; exact J_touchFor t _ res a at' (h _ hm)

theorem J_step (V : Rule → List Val) (s : St) (op : Op) (h : ∀ t ∈ s.tcs, J t (V t.rule)) :
    ∀ t' ∈ (step s op).tcs, J t' (V t'.rule ++ opVals t'.rule op) := by
  have hsame : ∀ t' ∈ s.tcs, J t' (V t'.rule ++ opVals t'.rule op) :=
    fun t' ht' => J_mono (List.subset_append_left ..) (h t' ht')
  cases op with
  | entry id res a at' =>
    simp only [step]
    split
    · exact hsame
    · unfold entry
      split
      · exact hsame
      · dsimp only
        split
        · exact J_checkTcs V res a at' s.tcs h
        · intro t' ht'
          simp only [List.mem_map] at ht'
          obtain ⟨t1, hm, rfl⟩ := ht'
          rw [bump_rule]
          exact J_bump _ _ _ _ _ _ (J_checkTcs V res a at' s.tcs h t1 hm)
  | check id res a at' =>
    simp only [step]
    split
    · exact hsame
    · unfold check
      split
      · exact hsame
      · exact J_checkTcs V res a at' s.tcs h
  | commit id =>
    simp only [step]
    unfold commit
    split
    · exact hsame
    · split
      · intro t' ht'
        simp only [List.mem_map] at ht'
        obtain ⟨t, hm, rfl⟩ := ht'
        rw [bump_rule]
        exact J_bump _ _ _ _ _ _ (hsame t hm)
      · exact hsame
  | exit id =>
    simp only [step]
    unfold exit
    split
    · exact hsame
    · intro t' ht'
      simp only [List.mem_map] at ht'
      obtain ⟨t, hm, rfl⟩ := ht'
      rw [bump_rule]
      exact J_bump _ _ _ _ _ _ (hsame t hm)
  | flowBlock res => exact hsame

theorem J_run (ops : List Op) : ∀ (V : Rule → List Val) (s : St), (∀ t ∈ s.tcs, J t (V t.rule)) →
    ∀ t ∈ (run s ops).tcs, J t (V t.rule ++ valsOf t.rule ops) := by
  induction ops with
  | nil => intro V s h t ht; simpa [valsOf] using h t ht
  | cons op ops ih =>
    intro V s h t ht
    have := ih (fun r => V r ++ opVals r op) (step s op) (J_step V s op h) t ht
    simpa [valsOf, List.append_assoc] using this

end Sentinel.HotConc
