import Mathlib.Tactic
import Sentinel.Model.LockModel
/-! Lemmas of C15 that do not depend on the generated table: the step lemmas of the reader-writer lock semantics,
    the hand-over (happens-before) lemma, soundness of the Boolean table checks, the history lemma of the snapshot
    model.  Kept apart from `Sentinel.Props.C15` so that a changed table only re-checks the table theorems. -/
namespace Sentinel.C15
open Sentinel.LockModel

theorem runLS_append (s : LS) (u v : List Ev) : runLS s (u ++ v) = runLS (runLS s u) v := by
  induction u generalizing s with
  | nil => rfl
  | cons e r ih => simp [runLS, ih]

theorem wf_append (s : LS) (u v : List Ev) (h : WFrom s (u ++ v)) : WFrom (runLS s u) v := by
  induction u generalizing s with
  | nil => exact h
  | cons e r ih => exact ih _ h.2

theorem wf_prefix (s : LS) (u v : List Ev) (h : WFrom s (u ++ v)) : WFrom s u := by
  induction u generalizing s with
  | nil => trivial
  | cons e r ih => exact ⟨h.1, ih _ h.2⟩

/-- a hold that exists after an enabled step existed before it, unless the step is the acquisition itself -/
theorem holds_step_back {s : LS} {e : Ev} {t : Thread} {l : Lock} {w : Bool}
    (hen : enabled s e) (h : holds (stepLS s e) t l w) (hne : e ≠ Ev.acq t l w) : holds s t l w := by
  cases e with
  | acc t' x w' => simpa [stepLS] using h
  | acq t' l' w' =>
    by_cases hl : l = l'
    · subst hl
      cases w' <;> cases w <;> simp only [enabled] at hen
      · obtain ⟨ts, hts⟩ := hen
        simp only [stepLS, hts, holds, upd, if_true] at h ⊢
        obtain ⟨ts', h1, h2⟩ := h
        injection h1 with h1
        subst h1
        rcases List.mem_cons.mp h2 with h2 | h2
        · subst h2; exact absurd rfl hne
        · exact ⟨ts, rfl, h2⟩
      · obtain ⟨ts, hts⟩ := hen
        simp [stepLS, hts, holds, upd] at h
      · simp [stepLS, holds, upd] at h
      · simp only [stepLS, holds, upd, if_true] at h
        injection h with h
        subst h
        exact absurd rfl hne
    · cases w' <;> cases hs : s l' <;> cases w <;> simp_all [stepLS, holds, upd]
  | rel t' l' w' =>
    by_cases hl : l = l'
    · subst hl
      cases w' <;> cases w <;> simp only [enabled] at hen
      · obtain ⟨ts, hts, hmem⟩ := hen
        simp only [stepLS, hts, holds, upd, if_true] at h ⊢
        obtain ⟨ts', h1, h2⟩ := h
        injection h1 with h1
        subst h1
        exact ⟨ts, rfl, List.mem_of_mem_erase h2⟩
      · obtain ⟨ts, hts, hmem⟩ := hen
        simp [stepLS, hts, holds, upd] at h
      · simp [stepLS, holds, upd] at h
      · simp [stepLS, holds, upd] at h
    · cases w' <;> cases hs : s l' <;> cases w <;> simp_all [stepLS, holds, upd]

/-- a hold survives every enabled step except the holder's own release -/
theorem holds_step_fwd {s : LS} {e : Ev} {t : Thread} {l : Lock} {w : Bool}
    (hen : enabled s e) (h : holds s t l w) (hne : e ≠ Ev.rel t l w) : holds (stepLS s e) t l w := by
  cases e with
  | acc t' x w' => simpa [stepLS] using h
  | acq t' l' w' =>
    by_cases hl : l = l'
    · subst hl
      cases w' <;> cases w <;> simp only [enabled] at hen
      · obtain ⟨ts, hts⟩ := hen
        obtain ⟨ts', h1, h2⟩ := h
        rw [hts] at h1; injection h1 with h1; subst h1
        simp only [stepLS, hts, holds, upd, if_true]
        exact ⟨t' :: ts, rfl, List.mem_cons_of_mem _ h2⟩
      · obtain ⟨ts, hts⟩ := hen
        simp [holds, hts] at h
      · obtain ⟨ts', h1, h2⟩ := h
        rw [hen] at h1; injection h1 with h1; subst h1
        simp at h2
      · simp [holds, hen] at h
    · cases w' <;> cases hs : s l' <;> cases w <;> simp_all [stepLS, holds, upd]
  | rel t' l' w' =>
    by_cases hl : l = l'
    · subst hl
      cases w' <;> cases w <;> simp only [enabled] at hen
      · obtain ⟨ts, hts, hmem⟩ := hen
        obtain ⟨ts', h1, h2⟩ := h
        rw [hts] at h1; injection h1 with h1; subst h1
        simp only [stepLS, hts, holds, upd, if_true]
        have htt : t ≠ t' := by
          intro he; subst he; exact hne rfl
        exact ⟨ts.erase t', rfl, (List.mem_erase_of_ne htt).mpr h2⟩
      · obtain ⟨ts, hts, hmem⟩ := hen
        simp [holds, hts] at h
      · obtain ⟨ts', h1, h2⟩ := h
        rw [hen] at h1; cases h1
      · simp only [holds] at h
        rw [hen] at h; injection h with h; subst h
        exact absurd rfl hne
    · cases w' <;> cases hs : s l' <;> cases w <;> simp_all [stepLS, holds, upd]

/-- a writer excludes every other holder; a reader excludes every writer -/
theorem holds_exclusive {s : LS} {t1 t2 : Thread} {l : Lock} {w1 w2 : Bool}
    (hne : t1 ≠ t2) (hw : w1 = true ∨ w2 = true) (h1 : holds s t1 l w1) : ¬ holds s t2 l w2 := by
  intro h2
  cases w1 <;> cases w2 <;> simp_all [holds]

/-- whoever holds `l` at the end and did not hold it at the start acquired it on the way -/
theorem acq_exists (s : LS) (m : List Ev) (l : Lock) (t2 : Thread) (w2 : Bool)
    (hwf : WFrom s m) (hn : ¬ holds s t2 l w2) (h2 : holds (runLS s m) t2 l w2) :
    ∃ b c, m = b ++ [Ev.acq t2 l w2] ++ c := by
  induction m generalizing s with
  | nil => exact absurd h2 hn
  | cons e r ih =>
    by_cases he : e = Ev.acq t2 l w2
    · subst he; exact ⟨[], r, by simp⟩
    · have hn' : ¬ holds (stepLS s e) t2 l w2 := fun h => hn (holds_step_back hwf.1 h he)
      obtain ⟨b, c, hb⟩ := ih _ hwf.2 hn' h2
      exact ⟨e :: b, c, by simp [hb]⟩

/-- the happens-before edge: if `t₁` holds `l` now and `t₂ ≠ t₁` holds it after `mid`, one of the two holds being
    a write hold, then `mid` contains a release of `l` by `t₁` followed by an acquisition of `l` by `t₂`. -/
theorem handover (s : LS) (mid : List Ev) (l : Lock) (t1 t2 : Thread) (w1 w2 : Bool) (hne : t1 ≠ t2)
    (hw : w1 = true ∨ w2 = true)
    (hwf : WFrom s mid) (h1 : holds s t1 l w1) (h2 : holds (runLS s mid) t2 l w2) :
    ∃ a b c, mid = a ++ [Ev.rel t1 l w1] ++ b ++ [Ev.acq t2 l w2] ++ c := by
  induction mid generalizing s with
  | nil => exact absurd h2 (holds_exclusive hne hw h1)
  | cons e r ih =>
    by_cases he : e = Ev.rel t1 l w1
    · subst he
      have hfree : ¬ holds (stepLS s (Ev.rel t1 l w1)) t2 l w2 := by
        intro h
        have hback : holds s t2 l w2 := holds_step_back hwf.1 h (by simp)
        exact holds_exclusive hne hw h1 hback
      obtain ⟨b, c, hb⟩ := acq_exists _ r l t2 w2 hwf.2 hfree h2
      exact ⟨[], b, c, by simp [hb]⟩
    · obtain ⟨a, b, c, hb⟩ := ih _ hwf.2 (holds_step_fwd hwf.1 h1 he) h2
      exact ⟨e :: a, b, c, by simp [hb]⟩

/-! ## The table checks decide what they say -/

/-- the lock discipline of a table, with the reads `ex` of listed known findings left out -/
def Disciplined (ex : List (Cls × String)) (t : List Access) : Prop :=
  ∀ a ∈ t, ∀ b ∈ t, a.live = true → b.live = true → a.cls = b.cls → (a.write = true ∨ b.write = true) →
    excusedRead ex a = false → excusedRead ex b = false →
    ∃ h ∈ a.held, ∃ k ∈ b.held, h.mu = k.mu ∧ (h.w = true ∨ k.w = true)

theorem commonLockB_spec {a b : Access} (h : commonLockB a b = true) :
    ∃ h ∈ a.held, ∃ k ∈ b.held, h.mu = k.mu ∧ (h.w = true ∨ k.w = true) := by
  simp only [commonLockB, List.any_eq_true, Bool.and_eq_true, beq_iff_eq, Bool.or_eq_true] at h
  obtain ⟨h', hh, k, hk, hmu, hww⟩ := h
  exact ⟨h', hh, k, hk, hmu, hww⟩

theorem excusedRead_write {ex : List (Cls × String)} {a : Access} (h : a.write = true) : excusedRead ex a = false := by
  simp [excusedRead, h]

theorem disciplinedB_sound (ex : List (Cls × String)) (t : List Access) (h : disciplinedB ex t = true) :
    Disciplined ex t := by
  intro a ha b hb la lb hc hw ea eb
  rcases hw with hwa | hwb
  · have h1 := List.all_eq_true.mp h a ha
    simp only [hwa, la, Bool.and_self, Bool.not_true, Bool.false_or] at h1
    have h2 := List.all_eq_true.mp h1 b hb
    simp only [hc, lb, eb, bne_self_eq_false, Bool.not_true, Bool.false_or, Bool.or_false] at h2
    exact commonLockB_spec h2
  · have h1 := List.all_eq_true.mp h b hb
    simp only [hwb, lb, Bool.and_self, Bool.not_true, Bool.false_or] at h1
    have h2 := List.all_eq_true.mp h1 a ha
    simp only [hc, la, ea, bne_self_eq_false, Bool.not_true, Bool.false_or, Bool.or_false] at h2
    obtain ⟨h', hh, k, hk, hmu, hww⟩ := commonLockB_spec h2
    exact ⟨k, hk, h', hh, hmu.symm, hww.symm⟩

/-- what `insertOkB` decides: some guard of the insert is held in write mode by every live writer of the class -/
def InsertGuarded (t : List Access) (r : Insert) : Prop :=
  ∃ m ∈ r.guards, ∀ b ∈ t, b.cls = r.cls → b.write = true → b.live = true → ∃ h ∈ b.held, h.mu = m ∧ h.w = true

theorem insertOkB_sound (t : List Access) (ex : List (Cls × String)) (r : Insert) (h : insertOkB t ex r = true)
    (hl : r.phase = Phase.live) (hx : (ex.any fun e => e.1 == r.cls && e.2 == r.fn) = false) : InsertGuarded t r := by
  simp only [insertOkB, hl, hx, bne_self_eq_false, Bool.false_or, List.any_eq_true] at h
  obtain ⟨m, hm, hall⟩ := h
  refine ⟨m, hm, ?_⟩
  intro b hb hc hw hlv
  have := List.all_eq_true.mp hall b hb
  simp only [hc, hw, hlv, bne_self_eq_false, Bool.and_self, Bool.not_true, Bool.false_or, heldIn, List.any_eq_true,
    Bool.and_eq_true, beq_iff_eq] at this
  obtain ⟨h', hh, h1, h2⟩ := this
  exact ⟨h', hh, h1, h2⟩

/-- a path of one or more lock-order edges -/
inductive Path (es : List LockEdge) : Lock → Lock → Prop
  | single {a b : Lock} : (∃ e ∈ es, e.outer = a ∧ e.inner = b) → Path es a b
  | cons {a b c : Lock} : (∃ e ∈ es, e.outer = a ∧ e.inner = b) → Path es b c → Path es a c

theorem ranked_path_lt (ranks : List (Lock × Nat)) (es : List LockEdge) (h : rankedB ranks es = true)
    {a b : Lock} (p : Path es a b) : rankOf ranks a < rankOf ranks b := by
  have hedge : ∀ e ∈ es, rankOf ranks e.outer < rankOf ranks e.inner := by
    intro e he
    have := List.all_eq_true.mp h e he
    simpa using this
  induction p with
  | single hx =>
    obtain ⟨e, he, h1, h2⟩ := hx
    subst h1; subst h2; exact hedge e he
  | cons hx _ ih =>
    obtain ⟨e, he, h1, h2⟩ := hx
    subst h1; subst h2; exact lt_trans (hedge e he) ih

/-- a ranking that strictly increases along every edge rules out every cycle of nested acquisitions
    (so no set of threads can wait for each other's mutexes in a circle) -/
theorem ranked_no_cycle (ranks : List (Lock × Nat)) (es : List LockEdge) (h : rankedB ranks es = true) :
    ∀ m, ¬ Path es m m :=
  fun _ p => lt_irrefl _ (ranked_path_lt ranks es h p)

/-! ## snapshot model -/

theorem self_mem_history {ρ} (s : Res → List ρ) (us : List (Upd ρ)) : s ∈ history s us := by
  cases us <;> simp [history]

theorem snapshot_mem_history {ρ} (s : Res → List ρ) (us : List (Upd ρ)) (k : Nat) :
    applyAll s (us.take k) ∈ history s us := by
  induction us generalizing s k with
  | nil => simp [applyAll, history]
  | cons u us ih =>
    cases k with
    | zero => simp [applyAll, history]
    | succ k =>
      simp only [List.take_succ_cons, applyAll, history, List.mem_cons]
      exact Or.inr (ih _ k)

end Sentinel.C15
