import Mathlib.Tactic
import Sentinel.Model.LockModel
/-! Lemmas of C15 that do not depend on the generated table: the step lemmas of the reader-writer lock semantics,
    the hand-over (happens-before) lemma, soundness of the Boolean table checks, the history lemma of the snapshot
    model.  Kept apart from `Sentinel.Props.C15` so that a changed table only re-checks the table theorems. -/
namespace Sentinel.C15
open Sentinel.LockModel

theorem runLS_append (s : LS) (u v : List Ev) : runLS s (u ++ v) = runLS (runLS s u) v := by
  induction u generalizing s with
  | nil => rfl
  | cons e r ih => simp [runLS, ih]

theorem wf_append (s : LS) (u v : List Ev) (h : WFrom s (u ++ v)) : WFrom (runLS s u) v := by
  induction u generalizing s with
  | nil => exact h
  | cons e r ih => exact ih _ h.2

theorem wf_prefix (s : LS) (u v : List Ev) (h : WFrom s (u ++ v)) : WFrom s u := by
  induction u generalizing s with
  | nil => trivial
  | cons e r ih => exact ⟨h.1, ih _ h.2⟩

/-- a hold that exists after an enabled step existed before it, unless the step is the acquisition itself -/
theorem holds_step_back {s : LS} {e : Ev} {t : Thread} {l : Lock} {w : Bool}
    (hen : enabled s e) (h : holds (stepLS s e) t l w) (hne : e ≠ Ev.acq t l w) : holds s t l w := by
  cases e with
  | acc t' x w' => simpa [stepLS] using h
  | acq t' l' w' =>
    by_cases hl : l = l'
    · subst hl
      cases w' <;> cases w <;> simp only [enabled] at hen
      · obtain ⟨ts, hts⟩ := hen
        simp only [stepLS, hts, holds, upd, if_true] at h ⊢
        obtain ⟨ts', h1, h2⟩ := h
        injection h1 with h1
        subst h1
        rcases List.mem_cons.mp h2 with h2 | h2
        · subst h2; exact absurd rfl hne
        · exact ⟨ts, rfl, h2⟩
      · obtain ⟨ts, hts⟩ := hen
        simp [stepLS, hts, holds, upd] at h
      · simp [stepLS, holds, upd] at h
      · simp only [stepLS, holds, upd, if_true] at h
        injection h with h
        subst h
        exact absurd rfl hne
    · cases w' <;> cases hs : s l' <;> cases w <;> simp_all [stepLS, holds, upd]
  | rel t' l' w' =>
    by_cases hl : l = l'
    · subst hl
      cases w' <;> cases w <;> simp only [enabled] at hen
      · obtain ⟨ts, hts, hmem⟩ := hen
        simp only [stepLS, hts, holds, upd, if_true] at h ⊢
        obtain ⟨ts', h1, h2⟩ := h
        injection h1 with h1
        subst h1
        exact ⟨ts, rfl, List.mem_of_mem_erase h2⟩
      · obtain ⟨ts, hts, hmem⟩ := hen
        simp [stepLS, hts, holds, upd] at h
      · simp [stepLS, holds, upd] at h
      · simp [stepLS, holds, upd] at h
    · cases w' <;> cases hs : s l' <;> cases w <;> simp_all [stepLS, holds, upd]

/-- a hold survives every enabled step except the holder's own release -/
theorem holds_step_fwd {s : LS} {e : Ev} {t : Thread} {l : Lock} {w : Bool}
    (hen : enabled s e) (h : holds s t l w) (hne : e ≠ Ev.rel t l w) : holds (stepLS s e) t l w := by
  cases e with
  | acc t' x w' => simpa [stepLS] using h
  | acq t' l' w' =>
    by_cases hl : l = l'
    · subst hl
      cases w' <;> cases w <;> simp only [enabled] at hen
      · obtain ⟨ts, hts⟩ := hen
        obtain ⟨ts', h1, h2⟩ := h
        rw [hts] at h1; injection h1 with h1; subst h1
        simp only [stepLS, hts, holds, upd, if_true]
        exact ⟨t' :: ts, rfl, List.mem_cons_of_mem _ h2⟩
      · obtain ⟨ts, hts⟩ := hen
        simp [holds, hts] at h
      · obtain ⟨ts', h1, h2⟩ := h
        rw [hen] at h1; injection h1 with h1; subst h1
        simp at h2
      · simp [holds, hen] at h
    · cases w' <;> cases hs : s l' <;> cases w <;> simp_all [stepLS, holds, upd]
  | rel t' l' w' =>
    by_cases hl : l = l'
    · subst hl
      cases w' <;> cases w <;> simp only [enabled] at hen
      · obtain ⟨ts, hts, hmem⟩ := hen
        obtain ⟨ts', h1, h2⟩ := h
        rw [hts] at h1; injection h1 with h1; subst h1
        simp only [stepLS, hts, holds, upd, if_true]
        have htt : t ≠ t' := by
          intro he; subst he; exact hne rfl
        exact ⟨ts.erase t', rfl, (List.mem_erase_of_ne htt).mpr h2⟩
      · obtain ⟨ts, hts, hmem⟩ := hen
        simp [holds, hts] at h
      · obtain ⟨ts', h1, h2⟩ := h
        rw [hen] at h1; cases h1
      · simp only [holds] at h
        rw [hen] at h; injection h with h; subst h
        exact absurd rfl hne
    · cases w' <;> cases hs : s l' <;> cases w <;> simp_all [stepLS, holds, upd]

/-- a writer excludes every other holder; a reader excludes every writer -/
theorem holds_exclusive {s : LS} {t1 t2 : Thread} {l : Lock} {w1 w2 : Bool}
    (hne : t1 ≠ t2) (hw : w1 = true ∨ w2 = true) (h1 : holds s t1 l w1) : ¬ holds s t2 l w2 := by
  intro h2
  cases w1 <;> cases w2 <;> simp_all [holds]

/-- whoever holds `l` at the end and did not hold it at the start acquired it on the way -/
theorem acq_exists (s : LS) (m : List Ev) (l : Lock) (t2 : Thread) (w2 : Bool)
    (hwf : WFrom s m) (hn : ¬ holds s t2 l w2) (h2 : holds (runLS s m) t2 l w2) :
    ∃ b c, m = b ++ [Ev.acq t2 l w2] ++ c := by
  induction m generalizing s with
  | nil => exact absurd h2 hn
  | cons e r ih =>
    by_cases he : e = Ev.acq t2 l w2
    · subst he; exact ⟨[], r, by simp⟩
    · have hn' : ¬ holds (stepLS s e) t2 l w2 := fun h => hn (holds_step_back hwf.1 h he)
      obtain ⟨b, c, hb⟩ := ih _ hwf.2 hn' h2
      exact ⟨e :: b, c, by simp [hb]⟩

/-- the happens-before edge: if `t₁` holds `l` now and `t₂ ≠ t₁` holds it after `mid`, one of the two holds being
    a write hold, then `mid` contains a release of `l` by `t₁` followed by an acquisition of `l` by `t₂`. -/
theorem handover (s : LS) (mid : List Ev) (l : Lock) (t1 t2 : Thread) (w1 w2 : Bool) (hne : t1 ≠ t2)
    (hw : w1 = true ∨ w2 = true)
    (hwf : WFrom s mid) (h1 : holds s t1 l w1) (h2 : holds (runLS s mid) t2 l w2) :
    ∃ a b c, mid = a ++ [Ev.rel t1 l w1] ++ b ++ [Ev.acq t2 l w2] ++ c := by
  induction mid generalizing s with
  | nil => exact absurd h2 (holds_exclusive hne hw h1)
  | cons e r ih =>
    by_cases he : e = Ev.rel t1 l w1
    · subst he
      have hfree : ¬ holds (stepLS s (Ev.rel t1 l w1)) t2 l w2 := by
        intro h
        have hback : holds s t2 l w2 := holds_step_back hwf.1 h (by simp)
        exact holds_exclusive hne hw h1 hback
      obtain ⟨b, c, hb⟩ := acq_exists _ r l t2 w2 hwf.2 hfree h2
      exact ⟨[], b, c, by simp [hb]⟩
    · obtain ⟨a, b, c, hb⟩ := ih _ hwf.2 (holds_step_fwd hwf.1 h1 he) h2
      exact ⟨e :: a, b, c, by simp [hb]⟩

/-! ## The table checks decide what they say -/

/-- the lock discipline of a table, with the reads `ex` of listed known findings left out -/
def Disciplined (ex : List (Cls × String)) (t : List Access) : Prop :=
  ∀ a ∈ t, ∀ b ∈ t, a.live = true → b.live = true → a.cls = b.cls → (a.write = true ∨ b.write = true) →
    excusedRead ex a = false → excusedRead ex b = false →
    ∃ h ∈ a.held, ∃ k ∈ b.held, h.mu = k.mu ∧ (h.w = true ∨ k.w = true)

theorem commonLockB_spec {a b : Access} (h : commonLockB a b = true) :
    ∃ h ∈ a.held, ∃ k ∈ b.held, h.mu = k.mu ∧ (h.w = true ∨ k.w = true) := by
  simp only [commonLockB, List.any_eq_true, Bool.and_eq_true, beq_iff_eq, Bool.or_eq_true] at h
  obtain ⟨h', hh, k, hk, hmu, hww⟩ := h
  exact ⟨h', hh, k, hk, hmu, hww⟩

theorem excusedRead_write {ex : List (Cls × String)} {a : Access} (h : a.write = true) : excusedRead ex a = false := by
  simp [excusedRead, h]

theorem disciplinedB_sound (ex : List (Cls × String)) (t : List Access) (h : disciplinedB ex t = true) :
    Disciplined ex t := by
  intro a ha b hb la lb hc hw ea eb
  rcases hw with hwa | hwb
  · have h1 := List.all_eq_true.mp h a ha
    simp only [hwa, la, Bool.and_self, Bool.not_true, Bool.false_or] at h1
    have h2 := List.all_eq_true.mp h1 b hb
    simp only [hc, lb, eb, bne_self_eq_false, Bool.not_true, Bool.false_or, Bool.or_false] at h2
    exact commonLockB_spec h2
  · have h1 := List.all_eq_true.mp h b hb
    simp only [hwb, lb, Bool.and_self, Bool.not_true, Bool.false_or] at h1
    have h2 := List.all_eq_true.mp h1 a ha
    simp only [hc, la, ea, bne_self_eq_false, Bool.not_true, Bool.false_or, Bool.or_false] at h2
    obtain ⟨h', hh, k, hk, hmu, hww⟩ := commonLockB_spec h2
    exact ⟨k, hk, h', hh, hmu.symm, hww.symm⟩

/-- what `insertOkB` decides: some guard of the insert is held in write mode by every live writer of the class -/
def InsertGuarded (t : List Access) (r : Insert) : Prop :=
  ∃ m ∈ r.guards, ∀ b ∈ t, b.cls = r.cls → b.write = true → b.live = true → ∃ h ∈ b.held, h.mu = m ∧ h.w = true

theorem insertOkB_sound (t : List Access) (ex : List (Cls × String)) (r : Insert) (h : insertOkB t ex r = true)
    (hl : r.phase = Phase.live) (hx : (ex.any fun e => e.1 == r.cls && e.2 == r.fn) = false) : InsertGuarded t r := by
  simp only [insertOkB, hl, hx, bne_self_eq_false, Bool.false_or, List.any_eq_true] at h
  obtain ⟨m, hm, hall⟩ := h
  refine ⟨m, hm, ?_⟩
  intro b hb hc hw hlv
  have := List.all_eq_true.mp hall b hb
  simp only [hc, hw, hlv, bne_self_eq_false, Bool.and_self, Bool.not_true, Bool.false_or, heldIn, List.any_eq_true,
    Bool.and_eq_true, beq_iff_eq] at this
  obtain ⟨h', hh, h1, h2⟩ := this
  exact ⟨h', hh, h1, h2⟩

/-- a path of one or more lock-order edges -/
inductive Path (es : List LockEdge) : Lock → Lock → Prop
  | single {a b : Lock} : (∃ e ∈ es, e.outer = a ∧ e.inner = b) → Path es a b
  | cons {a b c : Lock} : (∃ e ∈ es, e.outer = a ∧ e.inner = b) → Path es b c → Path es a c

theorem ranked_path_lt (ranks : List (Lock × Nat)) (es : List LockEdge) (h : rankedB ranks es = true)
    {a b : Lock} (p : Path es a b) : rankOf ranks a < rankOf ranks b := by
  have hedge : ∀ e ∈ es, rankOf ranks e.outer < rankOf ranks e.inner := by
    intro e he
    have := List.all_eq_true.mp h e he
    simpa using this
  induction p with
  | single hx =>
    obtain ⟨e, he, h1, h2⟩ := hx
    subst h1; subst h2; exact hedge e he
  | cons hx _ ih =>
    obtain ⟨e, he, h1, h2⟩ := hx
    subst h1; subst h2; exact lt_trans (hedge e he) ih

/-- a ranking that strictly increases along every edge rules out every cycle of nested acquisitions
    (so no set of threads can wait for each other's mutexes in a circle) -/
theorem ranked_no_cycle (ranks : List (Lock × Nat)) (es : List LockEdge) (h : rankedB ranks es = true) :
    ∀ m, ¬ Path es m m :=
  fun _ p => lt_irrefl _ (ranked_path_lt ranks es h p)

/-! ## snapshot model -/

theorem self_mem_history {ρ} (s : Res → List ρ) (us : List (Upd ρ)) : s ∈ history s us := by
  cases us <;> simp [history]

theorem snapshot_mem_history {ρ} (s : Res → List ρ) (us : List (Upd ρ)) (k : Nat) :
    applyAll s (us.take k) ∈ history s us := by
  induction us generalizing s k with
  | nil => simp [applyAll, history]
  | cons u us ih =>
    cases k with
    | zero => simp [applyAll, history]
    | succ k =>
      simp only [List.take_succ_cons, applyAll, history, List.mem_cons]
      exact Or.inr (ih _ k)

/-! ## A rule table guarded by one reader-writer mutex: the model behind the "settled switch" oracle

One module: its rule table `cur : τ` (for the five modules `τ = Res → List ρ`), the mutex `l`, any number of threads.
Lock events are those of `Sentinel.LockModel` (`Ev.acq / Ev.rel`, every mutex of the system may occur); in addition a
thread may `read` the table (a slot's single snapshot), and a writer swaps it in two observable steps: `wbegin` (from now
on the table is being replaced — a reader that got in here would see a torn table) and `wend f` (the table `f cur` is
published).  `sAdm` is what the code is *supposed* to obey and what the generated table certifies row by row
(`module_tables_locked`): readers hold `l` (either mode) at the read, a writer holds `l` in write mode from `wbegin`
through `wend` and does not release it in between. -/

inductive SEv (τ : Type)
  | lk (e : Ev)
  | read (t : Thread)
  | wbegin (t : Thread)
  | wend (t : Thread) (f : τ → τ)

structure SSt (τ : Type) where
  ls : LS
  cur : τ
  pending : Option Thread

variable {τ : Type}

/-- admissible next event: the lock semantics admits it and the discipline is obeyed -/
def sAdm (l : Lock) (s : SSt τ) : SEv τ → Prop
  | .lk e => enabled s.ls e ∧ ∀ t, s.pending = some t → e ≠ Ev.rel t l true
  | .read t => (∃ w, holds s.ls t l w) ∧ s.pending ≠ some t
  | .wbegin t => holds s.ls t l true ∧ s.pending = none
  | .wend t _ => s.pending = some t

def sStep (s : SSt τ) : SEv τ → SSt τ
  | .lk e => { s with ls := stepLS s.ls e }
  | .read _ => s
  | .wbegin t => { s with pending := some t }
  | .wend _ f => { s with cur := f s.cur, pending := none }

def sRun (s : SSt τ) : List (SEv τ) → SSt τ
  | [] => s
  | e :: r => sRun (sStep s e) r

def sWF (l : Lock) (s : SSt τ) : List (SEv τ) → Prop
  | [] => True
  | e :: r => sAdm l s e ∧ sWF l (sStep s e) r

/-- the table published by the completed swaps of `tr`, starting from `v` -/
def pub (v : τ) : List (SEv τ) → τ
  | [] => v
  | .wend _ f :: r => pub (f v) r
  | .lk _ :: r => pub v r
  | .read _ :: r => pub v r
  | .wbegin _ :: r => pub v r

def isWend : SEv τ → Bool
  | .wend _ _ => true
  | _ => false

/-- whoever is in the middle of a swap holds the mutex in write mode -/
def SInv (l : Lock) (s : SSt τ) : Prop := ∀ t, s.pending = some t → holds s.ls t l true

theorem sInv_step {l : Lock} {s : SSt τ} {e : SEv τ} (hi : SInv l s) (ha : sAdm l s e) : SInv l (sStep s e) := by
  cases e with
  | lk e =>
    intro t ht
    exact holds_step_fwd ha.1 (hi t ht) (ha.2 t ht)
  | read t => exact hi
  | wbegin t =>
    intro t' ht'
    simp only [sStep, Option.some.injEq] at ht'
    subst ht'
    exact ha.1
  | wend t f =>
    intro t' ht'
    simp [sStep] at ht'

theorem sRun_append (s : SSt τ) (u v : List (SEv τ)) : sRun s (u ++ v) = sRun (sRun s u) v := by
  induction u generalizing s with
  | nil => rfl
  | cons e r ih => simp [sRun, ih]

theorem sWF_append (l : Lock) (s : SSt τ) (u v : List (SEv τ)) :
    sWF l s (u ++ v) ↔ sWF l s u ∧ sWF l (sRun s u) v := by
  induction u generalizing s with
  | nil => simp [sWF, sRun]
  | cons e r ih => simp [sWF, sRun, ih, and_assoc]

theorem sInv_run {l : Lock} (s : SSt τ) (tr : List (SEv τ)) (hi : SInv l s) (hw : sWF l s tr) : SInv l (sRun s tr) := by
  induction tr generalizing s with
  | nil => exact hi
  | cons e r ih => exact ih _ (sInv_step hi hw.1) hw.2

theorem cur_run (s : SSt τ) (tr : List (SEv τ)) : (sRun s tr).cur = pub s.cur tr := by
  induction tr generalizing s with
  | nil => rfl
  | cons e r ih => cases e <;> simp [sRun, sStep, pub, ih]

theorem pub_append (v : τ) (u w : List (SEv τ)) : pub v (u ++ w) = pub (pub v u) w := by
  induction u generalizing v with
  | nil => rfl
  | cons e r ih => cases e <;> simp [pub, ih]

theorem pub_noWend (v : τ) (m : List (SEv τ)) (h : ∀ e ∈ m, isWend e = false) : pub v m = v := by
  induction m generalizing v with
  | nil => rfl
  | cons e r ih =>
    have hr : ∀ e ∈ r, isWend e = false := fun e he => h e (List.mem_cons_of_mem _ he)
    cases e with
    | wend t f => have := h (.wend t f) (List.mem_cons_self ..); simp [isWend] at this
    | lk e => simpa [pub] using ih v hr
    | read t => simpa [pub] using ih v hr
    | wbegin t => simpa [pub] using ih v hr

/-- a projection of the table (e.g. the entry of one resource) that every swap of `tr` preserves is never changed -/
theorem pub_preserves {α : Type} (π : τ → α) (v : τ) (tr : List (SEv τ))
    (h : ∀ e ∈ tr, ∀ t f, e = SEv.wend t f → ∀ x, π (f x) = π x) : π (pub v tr) = π v := by
  induction tr generalizing v with
  | nil => rfl
  | cons e r ih =>
    have hr : ∀ e ∈ r, ∀ t f, e = SEv.wend t f → ∀ x, π (f x) = π x := fun e he => h e (List.mem_cons_of_mem _ he)
    cases e with
    | wend t f =>
      simp only [pub]
      rw [ih (f v) hr]
      exact h _ (List.mem_cons_self ..) t f rfl v
    | lk e => simpa [pub] using ih v hr
    | read t => simpa [pub] using ih v hr
    | wbegin t => simpa [pub] using ih v hr

/-- **No torn read.**  In every admissible execution (any number of threads, any schedule) no swap is in progress at
    the moment of a read: the reader holds the mutex, the swapping writer holds it in write mode, and the two exclude
    each other (`holds_exclusive`). -/
theorem read_not_torn {l : Lock} (s0 : SSt τ) (pre post : List (SEv τ)) (t : Thread)
    (hi : SInv l s0) (hw : sWF l s0 (pre ++ [SEv.read t] ++ post)) : (sRun s0 pre).pending = none := by
  rw [List.append_assoc, sWF_append] at hw
  obtain ⟨hpre, hrest⟩ := hw
  have hadm : sAdm l (sRun s0 pre) (SEv.read t) := hrest.1
  have hinv := sInv_run s0 pre hi hpre
  obtain ⟨⟨w, hh⟩, hne⟩ := hadm
  cases hp : (sRun s0 pre).pending with
  | none => rfl
  | some t' =>
    have htt : t' ≠ t := by
      intro h; subst h; exact hne hp
    exact absurd hh (holds_exclusive htt (Or.inl rfl) (hinv t' hp))

/-! ## `sync.Once`

`start t`: thread `t` wins the once and begins the body (possible only if the body has neither run nor is running);
`finish t`: the body returns; `ret t`: a `Do` call returns to its caller (possible only when the body has completed —
losers wait).  Any number of threads, any schedule. -/

inductive OEv
  | start (t : Thread)
  | finish (t : Thread)
  | ret (t : Thread)
deriving DecidableEq

structure OSt where
  done : Bool
  running : Option Thread

def oAdm (s : OSt) : OEv → Prop
  | .start _ => s.done = false ∧ s.running = none
  | .finish t => s.running = some t
  | .ret _ => s.done = true

def oStep (s : OSt) : OEv → OSt
  | .start t => { s with running := some t }
  | .finish _ => { done := true, running := none }
  | .ret _ => s

def oRun (s : OSt) : List OEv → OSt
  | [] => s
  | e :: r => oRun (oStep s e) r

def oWF (s : OSt) : List OEv → Prop
  | [] => True
  | e :: r => oAdm s e ∧ oWF (oStep s e) r

def isStart : OEv → Bool
  | .start _ => true
  | _ => false

/-- how often the body is begun -/
def starts (tr : List OEv) : Nat := tr.countP isStart

def oBudget (s : OSt) : Nat := if s.done || s.running.isSome then 0 else 1

theorem starts_le_budget (s : OSt) (tr : List OEv) (hw : oWF s tr) : starts tr ≤ oBudget s := by
  induction tr generalizing s with
  | nil => simp [starts]
  | cons e r ih =>
    have hr := ih _ hw.2
    cases e with
    | start t =>
      obtain ⟨hd, hn⟩ := hw.1
      have h0 : oBudget (oStep s (.start t)) = 0 := by simp [oBudget, oStep]
      have h1 : oBudget s = 1 := by simp [oBudget, hd, hn]
      rw [h0] at hr
      have hc : starts (OEv.start t :: r) = starts r + 1 := by
        unfold starts; exact List.countP_cons_of_pos (by rfl)
      omega
    | finish t =>
      have h0 : oBudget (oStep s (.finish t)) = 0 := by simp [oBudget, oStep]
      rw [h0] at hr
      have hc : starts (OEv.finish t :: r) = starts r := by
        unfold starts; exact List.countP_cons_of_neg (by simp [isStart])
      omega
    | ret t =>
      have hc : starts (OEv.ret t :: r) = starts r := by
        unfold starts; exact List.countP_cons_of_neg (by simp [isStart])
      have hs : oStep s (.ret t) = s := rfl
      rw [hs] at hr
      omega

theorem oWF_append (s : OSt) (u v : List OEv) : oWF s (u ++ v) ↔ oWF s u ∧ oWF (oRun s u) v := by
  induction u generalizing s with
  | nil => simp [oWF, oRun]
  | cons e r ih => simp [oWF, oRun, ih, and_assoc]

theorem done_needs_start (s : OSt) (tr : List OEv) (hw : oWF s tr) (hd : s.done = false) (hn : s.running = none)
    (h : (oRun s tr).done = true) : 1 ≤ starts tr := by
  cases tr with
  | nil => simp [oRun, hd] at h
  | cons e r =>
    cases e with
    | start t =>
      have hc : starts (OEv.start t :: r) = starts r + 1 := by
        unfold starts; exact List.countP_cons_of_pos (by rfl)
      omega
    | finish t => have := hw.1; simp [oAdm, hn] at this
    | ret t => have := hw.1; simp [oAdm, hd] at this

end Sentinel.C15
