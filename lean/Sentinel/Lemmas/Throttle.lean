import Mathlib.Tactic
import Sentinel.Model.Throttle
/-!
# Helper lemmas for C10 (vocabulary of the statements, per-call case analysis, the schedule invariant)

The property-level theorems are in `Sentinel/Props/C10.lean`.
-/
namespace Sentinel.C10
open Sentinel.Throttle

/-! ## vocabulary -/

/-- admitted requests with batch > 0 as (pass time, interval), in arrival order -/
def passes : List (Int × Req) → List Res → List (Int × Int)
  | (now, .norm iv) :: h, r :: rs =>
    (match r.passAt now with | some p => [(p, iv)] | none => []) ++ passes h rs
  | _ :: h, _ :: rs => passes h rs
  | _, _ => []

/-- consecutive pass times are separated by at least the later request's interval -/
def Spaced : Int → List (Int × Int) → Prop
  | _, [] => True
  | prev, (p, iv) :: r => prev + iv ≤ p ∧ Spaced p r

instance Spaced.dec : (prev : Int) → (l : List (Int × Int)) → Decidable (Spaced prev l)
  | _, [] => isTrue trivial
  | prev, (p, iv) :: r => by
    unfold Spaced
    exact @instDecidableAnd _ _ _ (Spaced.dec p r)

/-- the latest pass time (`prev` if nothing was admitted) -/
def latest : Int → List (Int × Int) → Int
  | prev, [] => prev
  | _, (p, _) :: r => latest p r

theorem spaced_append_one (prev : Int) (l : List (Int × Int)) (p iv : Int) :
    Spaced prev (l ++ [(p, iv)]) ↔ Spaced prev l ∧ latest prev l + iv ≤ p := by
  induction l generalizing prev with
  | nil => simp [Spaced, latest]
  | cons e r ih => obtain ⟨q, jv⟩ := e; simp [Spaced, latest, ih, and_assoc]

theorem latest_append_one (prev : Int) (l : List (Int × Int)) (p iv : Int) :
    latest prev (l ++ [(p, iv)]) = p := by
  induction l generalizing prev with
  | nil => simp [latest]
  | cons e r ih => obtain ⟨q, jv⟩ := e; simp [latest, ih]

/-! ## one call -/

theorem doCheck_norm (maxQ last now iv : Int) :
    (last + iv ≤ now ∧ doCheck maxQ last now (.norm iv) = (now, .pass)) ∨
    (¬ last + iv ≤ now ∧ last + iv - now > maxQ ∧ doCheck maxQ last now (.norm iv) = (last, .block)) ∨
    (¬ last + iv ≤ now ∧ ¬ last + iv - now > maxQ ∧
      doCheck maxQ last now (.norm iv) = (last + iv, .wait (last + iv - now))) := by
  unfold doCheck
  by_cases h1 : last + iv ≤ now
  · left; exact ⟨h1, by simp [h1]⟩
  · by_cases h2 : last + iv - now > maxQ
    · right; left; exact ⟨h1, h2, by simp [h1, h2]⟩
    · right; right
      exact ⟨h1, h2, by simp [h1, h2]⟩

/-! ## histories -/

theorem runSeq_cons (maxQ last now : Int) (r : Req) (h : List (Int × Req)) :
    runSeq maxQ last ((now, r) :: h) =
      ((runSeq maxQ (doCheck maxQ last now r).1 h).1,
       (doCheck maxQ last now r).2 :: (runSeq maxQ (doCheck maxQ last now r).1 h).2) := rfl

theorem runSeq_append (maxQ last : Int) (h1 h2 : List (Int × Req)) :
    runSeq maxQ last (h1 ++ h2) =
      ((runSeq maxQ (runSeq maxQ last h1).1 h2).1, (runSeq maxQ last h1).2 ++ (runSeq maxQ (runSeq maxQ last h1).1 h2).2) := by
  induction h1 generalizing last with
  | nil => simp [runSeq]
  | cons e r ih =>
    obtain ⟨now, q⟩ := e
    simp only [List.cons_append, runSeq_cons, ih, List.cons_append]

theorem runSeq_length (maxQ last : Int) (h : List (Int × Req)) : (runSeq maxQ last h).2.length = h.length := by
  induction h generalizing last with
  | nil => simp [runSeq]
  | cons e r ih => obtain ⟨now, q⟩ := e; simp [runSeq_cons, ih]

/-! ## lists -/

theorem sum_map_set {α : Type} (f : α → Int) (l : List α) (i : Nat) (a x : α) (h : l[i]? = some a) :
    ((l.set i x).map f).sum = (l.map f).sum - f a + f x := by
  induction l generalizing i with
  | nil => simp at h
  | cons b r ih =>
    cases i with
    | zero => simp at h; subst h; simp; ring
    | succ n =>
      simp only [List.getElem?_cons_succ] at h
      simp only [List.set_cons_succ, List.map_cons, List.sum_cons, ih n h]; ring

/-! ## the schedule invariant -/

/-- interval a thread has added to the shared timestamp but is about to take back -/
def pendIv (t : Th) : Int := if t.isRb then t.iv else 0
def pend (ths : List Th) : Int := (ths.map pendIv).sum
def rbOne (t : Th) : Int := if t.isRb then 1 else 0

theorem rbCount_eq (ths : List Th) : (rbCount ths : Int) = (ths.map rbOne).sum := by
  induction ths with
  | nil => simp [rbCount]
  | cons t r ih =>
    unfold rbCount at ih ⊢
    by_cases h : t.isRb <;> simp [List.filter_cons, h, rbOne, ih] <;> ring

theorem pend_zero_of_rbCount (ths : List Th) (h : rbCount ths = 0) : pend ths = 0 := by
  induction ths with
  | nil => simp [pend]
  | cons t r ih =>
    unfold rbCount at h ih
    by_cases ht : t.isRb
    · simp [List.filter_cons, ht] at h
    · simp only [List.filter_cons, ht, Bool.false_eq_true, ↓reduceIte] at h
      have := ih h
      unfold pend at this ⊢
      simp [pendIv, ht, this]

/-- thread-local facts: the CAS is only attempted when the loaded value allowed it; a wait is positive and within the limit -/
def ThOk (maxQ : Int) (t : Th) : Prop :=
  (∀ l, t.pc = .cas l → l + t.iv ≤ t.now) ∧ (∀ w, t.pc = .done (.wait w) → 0 < w ∧ w ≤ maxQ)

def AllOk (c : Cfg) : Prop := ∀ t ∈ c.ths, ThOk c.maxQ t

theorem thOk_init (maxQ now : Int) (r : Req) : ThOk maxQ (Th.init now r) := by
  cases r <;> simp [ThOk, Th.init]

theorem thOk_step (maxQ last : Int) (t : Th) (h : ThOk maxQ t) : ThOk maxQ (stepTh maxQ last t).2 := by
  obtain ⟨now, iv, pc⟩ := t
  cases pc with
  | load =>
    by_cases h1 : last + iv ≤ now <;> simp [stepTh, ThOk, h1]
  | cas l =>
    by_cases h1 : last = l <;> simp [stepTh, ThOk, h1]
  | reload =>
    by_cases h1 : last + iv - now > maxQ <;> simp [stepTh, ThOk, h1]
  | add =>
    by_cases h1 : last + iv - now > maxQ
    · simp [stepTh, ThOk, h1]
    · by_cases h2 : last + iv - now > 0
      · simp only [stepTh, ThOk, h1, h2, ↓reduceIte]
        refine ⟨by simp, ?_⟩
        intro w hw
        simp only [Pc.done.injEq, Res.wait.injEq] at hw
        omega
      · have h3 : ¬ now < last + iv := by omega
        simp [stepTh, ThOk, h1, h3]
  | rollback => simp [stepTh, ThOk]
  | done r => simpa [stepTh] using h

theorem sched_maxQ (c : Cfg) (i : Nat) : (c.sched i).maxQ = c.maxQ := by
  unfold Cfg.sched; split
  · rfl
  · split <;> rfl

theorem allOk_sched (c : Cfg) (i : Nat) (h : AllOk c) : AllOk (c.sched i) := by
  unfold AllOk at h ⊢
  rw [sched_maxQ]
  unfold Cfg.sched
  split
  · exact h
  · rename_i t ht
    split
    · exact h
    · intro t' ht'
      rcases List.mem_or_eq_of_mem_set ht' with h1 | h1
      · exact h t' h1
      · rw [h1]; exact thOk_step _ _ _ (h t (List.mem_of_getElem? ht))

theorem run_maxQ (c : Cfg) (s : List Nat) : (c.run s).maxQ = c.maxQ := by
  induction s generalizing c with
  | nil => rfl
  | cons i r ih => simp [Cfg.run, ih, sched_maxQ]

theorem allOk_run (c : Cfg) (s : List Nat) (h : AllOk c) : AllOk (c.run s) := by
  induction s generalizing c with
  | nil => exact h
  | cons i r ih => exact ih _ (allOk_sched c i h)

theorem allOk_runSched (c : Cfg) (s : List Nat) (h : AllOk c) : AllOk (c.runSched s) := by
  unfold Cfg.runSched Cfg.round
  exact allOk_run _ _ (allOk_run _ _ (allOk_run _ _ (allOk_run _ _ (allOk_run _ _ (allOk_run _ _ h)))))

/-- the ghost flags only ever get set -/
theorem sched_flags_mono (c : Cfg) (i : Nat) :
    ((c.sched i).rb = false → c.rb = false) ∧ ((c.sched i).stale = false → c.stale = false) := by
  unfold Cfg.sched
  split
  · exact ⟨id, id⟩
  · split
    · exact ⟨id, id⟩
    · constructor <;> intro h <;> simp only [Bool.or_eq_false_iff] at h <;> exact h.1

theorem run_flags_mono (c : Cfg) (s : List Nat) :
    ((c.run s).rb = false → c.rb = false) ∧ ((c.run s).stale = false → c.stale = false) := by
  induction s generalizing c with
  | nil => exact ⟨id, id⟩
  | cons i r ih =>
    exact ⟨fun h => (sched_flags_mono c i).1 ((ih _).1 h), fun h => (sched_flags_mono c i).2 ((ih _).2 h)⟩

/-- `Good base c`: the admission log is spaced (from `base`), and the shared timestamp — minus the intervals that are
    about to be rolled back — is exactly the latest admitted pass time. -/
def Good (base : Int) (c : Cfg) : Prop :=
  Spaced base c.log ∧ latest base c.log = c.last - pend c.ths

/-- every admitted thread that consumes capacity is in the log -/
def Logged (c : Cfg) : Prop := ∀ t ∈ c.ths, ∀ e, t.passOf = some e → e ∈ c.log ∨ e.2 = 0

theorem good_sched (base : Int) (c : Cfg) (i : Nat) (hok : AllOk c) (hg : Good base c)
    (hrb : (c.sched i).rb = false) (hst : (c.sched i).stale = false) : Good base (c.sched i) := by
  unfold Cfg.sched at hrb hst ⊢
  split
  · exact hg
  · rename_i t ht
    split
    · exact hg
    · rename_i hnd
      simp only [ht, hnd] at hrb hst
      simp only [Bool.false_eq_true, ↓reduceIte, Bool.or_eq_false_iff] at hrb hst
      obtain ⟨_, hrb⟩ := hrb
      obtain ⟨_, hst⟩ := hst
      obtain ⟨hsp, hla⟩ := hg
      have htok := hok t (List.mem_of_getElem? ht)
      have hset : ∀ t', pend (c.ths.set i t') = pend c.ths - pendIv t + pendIv t' := fun t' => sum_map_set pendIv c.ths i t t' ht
      have hcnt : ∀ t', ((c.ths.set i t').map rbOne).sum = (c.ths.map rbOne).sum - rbOne t + rbOne t' :=
        fun t' => sum_map_set rbOne c.ths i t t' ht
      obtain ⟨now, iv, pc⟩ := t
      unfold Good
      cases pc with
      | load =>
        by_cases h1 : c.last + iv ≤ now <;>
          simp [stepTh, h1, Th.passOf, hset, pendIv, Th.isRb, hsp, hla]
      | cas l =>
        have h0 : rbCount c.ths = 0 := by simpa [Th.isRb] using hrb
        have hp := pend_zero_of_rbCount _ h0
        by_cases h1 : c.last = l
        · have := htok.1 l rfl
          simp only [stepTh, h1, ↓reduceIte, Th.passOf, Res.passAt, Option.map_some, spaced_append_one, latest_append_one,
            hset, pendIv, Th.isRb, hsp, true_and]
          simp only [Bool.false_eq_true, ↓reduceIte]
          constructor
          · simp only at this; omega
          · omega
        · simp [stepTh, h1, Th.passOf, hset, pendIv, Th.isRb, hsp, hla]
      | reload =>
        by_cases h1 : c.last + iv - now > c.maxQ <;>
          simp [stepTh, h1, Th.passOf, Res.passAt, hset, pendIv, Th.isRb, hsp, hla]
      | add =>
        have h0 : rbCount c.ths = 0 := by simpa [Th.isRb] using hrb
        have hp := pend_zero_of_rbCount _ h0
        have hns : ¬ c.last + iv < now := by simpa using hst
        by_cases h1 : c.last + iv - now > c.maxQ
        · simp only [stepTh, h1, ↓reduceIte, Th.passOf, hset, pendIv, Th.isRb, hsp, true_and]
          simp only [Bool.false_eq_true, ↓reduceIte]
          omega
        · by_cases h2 : c.last + iv - now > 0
          · simp only [stepTh, h1, h2, ↓reduceIte, Th.passOf, Res.passAt, Option.map_some, spaced_append_one,
              latest_append_one, hset, pendIv, Th.isRb, hsp, true_and]
            simp only [Bool.false_eq_true, ↓reduceIte]
            constructor <;> omega
          · simp only [stepTh, h1, h2, ↓reduceIte, Th.passOf, Res.passAt, Option.map_some, spaced_append_one,
              latest_append_one, hset, pendIv, Th.isRb, hsp, true_and]
            simp only [Bool.false_eq_true, ↓reduceIte]
            constructor <;> omega
      | rollback =>
        have h1 : rbCount c.ths ≤ 1 := by
          have : ¬ 2 ≤ rbCount c.ths := by simpa [Th.isRb] using hrb
          omega
        -- after the step nobody is parked before a rollback
        have h2 : rbCount (c.ths.set i ⟨now, iv, .done .block⟩) = 0 := by
          have e1 := rbCount_eq (c.ths.set i ⟨now, iv, .done .block⟩)
          have e2 := rbCount_eq c.ths
          rw [hcnt] at e1
          simp only [rbOne, Th.isRb, ↓reduceIte, Bool.false_eq_true] at e1
          omega
        have hp' := pend_zero_of_rbCount _ h2
        have hp := hset ⟨now, iv, .done .block⟩
        rw [hp'] at hp
        simp only [pendIv, Th.isRb, ↓reduceIte, Bool.false_eq_true] at hp
        simp only [stepTh, Th.passOf, Res.passAt, Option.map_none, hsp, true_and, hp']
        omega
      | done r => simp [Th.isDone] at hnd

theorem good_run (base : Int) (c : Cfg) (s : List Nat) (hok : AllOk c) (hg : Good base c)
    (hrb : (c.run s).rb = false) (hst : (c.run s).stale = false) : Good base (c.run s) := by
  induction s generalizing c with
  | nil => exact hg
  | cons i r ih =>
    have h1 := (run_flags_mono (c.sched i) r).1 hrb
    have h2 := (run_flags_mono (c.sched i) r).2 hst
    exact ih _ (allOk_sched c i hok) (good_sched base c i hok hg h1 h2) hrb hst

theorem logged_sched (c : Cfg) (i : Nat) (h : Logged c) : Logged (c.sched i) := by
  unfold Cfg.sched
  split
  · exact h
  · rename_i t ht
    split
    · exact h
    · intro t' ht' e he
      rcases List.mem_or_eq_of_mem_set ht' with h1 | h1
      · rcases h t' h1 e he with h2 | h2
        · left
          simp only
          split
          · exact List.mem_append_left _ h2
          · exact h2
        · right; exact h2
      · left
        subst h1
        simp only [he, List.mem_append, List.mem_singleton, or_true]

theorem logged_run (c : Cfg) (s : List Nat) (h : Logged c) : Logged (c.run s) := by
  induction s generalizing c with
  | nil => exact h
  | cons i r ih => exact ih _ (logged_sched c i h)

end Sentinel.C10

namespace Sentinel.C10
open Sentinel.Throttle

/-! ## draining: five rounds finish every thread -/

/-- number of hooks a thread can still meet -/
def muPc : Pc → Nat
  | .load => 5 | .cas _ => 4 | .reload => 3 | .add => 2 | .rollback => 1 | .done _ => 0

def muAt (c : Cfg) (j : Nat) : Nat := match c.ths[j]? with | some t => muPc t.pc | none => 0

theorem mu_step (maxQ last : Int) (t : Th) (h : t.isDone = false) : muPc (stepTh maxQ last t).2.pc + 1 ≤ muPc t.pc := by
  obtain ⟨now, iv, pc⟩ := t
  cases pc with
  | load => by_cases h1 : last + iv ≤ now <;> simp [stepTh, h1, muPc]
  | cas l => by_cases h1 : last = l <;> simp [stepTh, h1, muPc]
  | reload => by_cases h1 : last + iv - now > maxQ <;> simp [stepTh, h1, muPc]
  | add => by_cases h1 : last + iv - now > maxQ <;> simp [stepTh, h1, muPc]
  | rollback => simp [stepTh, muPc]
  | done r => simp [Th.isDone] at h

theorem sched_length (c : Cfg) (i : Nat) : (c.sched i).ths.length = c.ths.length := by
  unfold Cfg.sched; split
  · rfl
  · split
    · rfl
    · simp

theorem run_length (c : Cfg) (s : List Nat) : (c.run s).ths.length = c.ths.length := by
  induction s generalizing c with
  | nil => rfl
  | cons i r ih => simp [Cfg.run, ih, sched_length]

theorem muAt_sched (c : Cfg) (i j : Nat) :
    muAt (c.sched i) j ≤ muAt c j ∧ (j = i → muAt (c.sched i) j ≤ muAt c j - 1) := by
  unfold Cfg.sched
  split
  · rename_i hn
    refine ⟨le_refl _, ?_⟩
    rintro rfl
    simp [muAt, hn]
  · rename_i t ht
    split
    · rename_i hd
      refine ⟨le_refl _, ?_⟩
      rintro rfl
      obtain ⟨now, iv, pc⟩ := t
      cases pc <;> simp [Th.isDone] at hd
      simp [muAt, ht, muPc]
    · rename_i hd
      have hd' : t.isDone = false := by simpa using hd
      have hm := mu_step c.maxQ c.last t hd'
      have hlt : i < c.ths.length := by
        by_contra hge
        rw [List.getElem?_eq_none (by omega)] at ht
        cases ht
      by_cases hj : j = i
      · subst hj
        simp only [muAt, List.getElem?_set, ht, hlt, ↓reduceIte, forall_const]
        omega
      · have hj' : ¬ i = j := fun h => hj h.symm
        simp only [muAt, List.getElem?_set, hj', ↓reduceIte, hj, false_implies, and_true, le_refl]

theorem muAt_run (c : Cfg) (s : List Nat) (j : Nat) :
    muAt (c.run s) j ≤ muAt c j ∧ (j ∈ s → muAt (c.run s) j ≤ muAt c j - 1) := by
  induction s generalizing c with
  | nil => simp [Cfg.run]
  | cons i r ih =>
    have h1 := muAt_sched c i j
    have h2 := ih (c.sched i)
    refine ⟨le_trans h2.1 h1.1, ?_⟩
    intro hj
    simp only [Cfg.run]
    rcases List.mem_cons.mp hj with rfl | hj
    · have := h1.2 rfl; omega
    · have := h2.2 hj; omega

theorem muAt_round (c : Cfg) (j : Nat) : muAt c.round j ≤ muAt c j - 1 := by
  unfold Cfg.round
  by_cases hj : j < c.ths.length
  · exact (muAt_run c _ j).2 (List.mem_range.mpr hj)
  · have : muAt (c.run (List.range c.ths.length)) j = 0 := by
      unfold muAt
      rw [List.getElem?_eq_none (by rw [run_length]; omega)]
    omega

theorem mu_le_five (p : Pc) : muPc p ≤ 5 := by cases p <;> simp [muPc]

/-- after the schedule and the five drain rounds every thread has finished -/
theorem runSched_all_done (c : Cfg) (s : List Nat) : ∀ t ∈ (c.runSched s).ths, t.isDone = true := by
  unfold Cfg.runSched
  intro t ht
  obtain ⟨j, hj, rfl⟩ := List.getElem_of_mem ht
  have h0 : muAt (c.run s) j ≤ 5 := by
    unfold muAt; split
    · exact mu_le_five _
    · omega
  have key : ∀ (c : Cfg) (k : Nat), muAt c j ≤ k → muAt c.round j ≤ k - 1 :=
    fun c k h => le_trans (muAt_round c j) (Nat.sub_le_sub_right h 1)
  have h6 : muAt (c.run s).round.round.round.round.round j = 0 :=
    Nat.le_zero.mp (key _ _ (key _ _ (key _ _ (key _ _ (key _ _ h0)))))
  unfold muAt at h6
  rw [List.getElem?_eq_getElem hj] at h6
  revert h6
  cases hpc : ((c.run s).round.round.round.round.round.ths[j]).pc <;> simp [muPc, Th.isDone, hpc]

theorem rbCount_zero_of_all_done (ths : List Th) (h : ∀ t ∈ ths, t.isDone = true) : rbCount ths = 0 := by
  simp only [rbCount, List.length_eq_zero_iff, List.filter_eq_nil_iff]
  intro t ht
  have := h t ht
  obtain ⟨now, iv, pc⟩ := t
  cases pc <;> simp [Th.isDone] at this
  simp [Th.isRb]

theorem good_final (base : Int) (c : Cfg) (hg : Good base c) (hd : ∀ t ∈ c.ths, t.isDone = true) :
    Spaced base c.log ∧ c.last = latest base c.log := by
  have hp := pend_zero_of_rbCount _ (rbCount_zero_of_all_done _ hd)
  obtain ⟨h1, h2⟩ := hg
  refine ⟨h1, ?_⟩
  rw [h2, hp]; ring

/-! ## rejections under schedules -/

/-- every rejection decided on the shared timestamp was decided on the latest pass time of that moment -/
def RejOk (base : Int) (c : Cfg) : Prop :=
  ∀ e ∈ c.rej, e.2.2 <+: c.log ∧ latest base e.2.2 + e.2.1 - e.1 > c.maxQ

theorem sched_log_grows (c : Cfg) (i : Nat) : c.log <+: (c.sched i).log := by
  unfold Cfg.sched
  split
  · exact List.prefix_refl _
  · split
    · exact List.prefix_refl _
    · simp only
      split
      · exact List.prefix_append _ _
      · exact List.prefix_refl _

theorem sched_rb (c : Cfg) (i : Nat) (t : Th) (ht : c.ths[i]? = some t) (hd : t.isDone = false) :
    (c.sched i).rb = (c.rb || (if t.isRb then decide (2 ≤ rbCount c.ths) else decide (1 ≤ rbCount c.ths))) := by
  unfold Cfg.sched
  simp [ht, hd]

/-- a step either leaves the rejection record alone or appends the stepping thread's rejection, decided on the value
    of the shared timestamp it has just read -/
theorem sched_rej (c : Cfg) (i : Nat) :
    (c.sched i).rej = c.rej ∨
    ∃ t, c.ths[i]? = some t ∧ t.isDone = false ∧ t.isRb = false ∧
      (c.sched i).rej = c.rej ++ [(t.now, t.iv, c.log)] ∧ c.last + t.iv - t.now > c.maxQ := by
  unfold Cfg.sched
  split
  · left; rfl
  · rename_i t ht
    split
    · left; rfl
    · rename_i hnd
      obtain ⟨now, iv, pc⟩ := t
      cases pc with
      | load => left; by_cases h1 : c.last + iv ≤ now <;> simp [stepTh, h1]
      | cas l => left; by_cases h1 : c.last = l <;> simp [stepTh, h1]
      | reload =>
        by_cases h1 : c.last + iv - now > c.maxQ
        · right; exact ⟨⟨now, iv, .reload⟩, ht, by simp [Th.isDone], by simp [Th.isRb], by simp [stepTh, h1], h1⟩
        · left; simp [stepTh, h1]
      | add =>
        by_cases h1 : c.last + iv - now > c.maxQ
        · right; exact ⟨⟨now, iv, .add⟩, ht, by simp [Th.isDone], by simp [Th.isRb], by simp [stepTh, h1], h1⟩
        · left; by_cases h2 : c.last + iv - now > 0 <;> simp [stepTh, h1, h2]
      | rollback => left; simp [stepTh]
      | done r => simp [Th.isDone] at hnd

theorem rejOk_sched (base : Int) (c : Cfg) (i : Nat) (hg : Good base c) (hr : RejOk base c)
    (hrb : (c.sched i).rb = false) : RejOk base (c.sched i) := by
  unfold RejOk at hr ⊢
  rw [sched_maxQ]
  have hgrow := sched_log_grows c i
  have hold : ∀ e ∈ c.rej, e.2.2 <+: (c.sched i).log ∧ latest base e.2.2 + e.2.1 - e.1 > c.maxQ :=
    fun e he => ⟨(hr e he).1.trans hgrow, (hr e he).2⟩
  rcases sched_rej c i with h | ⟨t, ht, hd, hnr, h, hgt⟩
  · rw [h]; exact hold
  · rw [h]
    intro e he
    rcases List.mem_append.mp he with he | he
    · exact hold e he
    · rw [List.mem_singleton] at he
      subst he
      refine ⟨hgrow, ?_⟩
      rw [sched_rb c i t ht hd, hnr] at hrb
      simp only [Bool.false_eq_true, ↓reduceIte, Bool.or_eq_false_iff, decide_eq_false_iff_not] at hrb
      have h0 : rbCount c.ths = 0 := by omega
      have hp := pend_zero_of_rbCount _ h0
      simp only
      rw [hg.2, hp]; omega

theorem good_rejOk_run (base : Int) (c : Cfg) (s : List Nat) (hok : AllOk c) (hg : Good base c) (hr : RejOk base c)
    (hrb : (c.run s).rb = false) (hst : (c.run s).stale = false) : Good base (c.run s) ∧ RejOk base (c.run s) := by
  induction s generalizing c with
  | nil => exact ⟨hg, hr⟩
  | cons i r ih =>
    have h1 := (run_flags_mono (c.sched i) r).1 hrb
    have h2 := (run_flags_mono (c.sched i) r).2 hst
    exact ih _ (allOk_sched c i hok) (good_sched base c i hok hg h1 h2) (rejOk_sched base c i hg hr h1) hrb hst

/-- the schedule and the five drain rounds, outside the classified regions -/
theorem clean_final (maxQ last : Int) (ws : List (Int × Req)) (s : List Nat)
    (hrb : ((Cfg.start maxQ last ws).runSched s).rb = false)
    (hst : ((Cfg.start maxQ last ws).runSched s).stale = false) :
    Good last ((Cfg.start maxQ last ws).runSched s) ∧ RejOk last ((Cfg.start maxQ last ws).runSched s) := by
  have h0 : AllOk (Cfg.start maxQ last ws) := by
    intro t ht
    simp only [Cfg.start, List.mem_map] at ht
    obtain ⟨e, _, rfl⟩ := ht
    exact thOk_init _ _ _
  have hp : pend (Cfg.start maxQ last ws).ths = 0 := by
    apply pend_zero_of_rbCount
    simp only [rbCount, Cfg.start, List.length_eq_zero_iff, List.filter_eq_nil_iff, List.mem_map]
    rintro t ⟨e, _, rfl⟩
    obtain ⟨now, q⟩ := e
    cases q <;> simp [Th.init, Th.isRb]
  have hg : Good last (Cfg.start maxQ last ws) := by
    refine ⟨by simp [Cfg.start, Spaced], ?_⟩
    rw [hp]; simp [Cfg.start, latest]
  have hr : RejOk last (Cfg.start maxQ last ws) := by
    intro e he; simp [Cfg.start] at he
  unfold Cfg.runSched Cfg.round at hrb hst ⊢
  have step : ∀ (c : Cfg) (s : List Nat), AllOk c ∧ Good last c ∧ RejOk last c → (c.run s).rb = false → (c.run s).stale = false →
      AllOk (c.run s) ∧ Good last (c.run s) ∧ RejOk last (c.run s) :=
    fun c s h h1 h2 => ⟨allOk_run c s h.1, good_rejOk_run last c s h.1 h.2.1 h.2.2 h1 h2⟩
  have m := fun (c : Cfg) (s : List Nat) => run_flags_mono c s
  have r5rb := hrb; have r5st := hst
  have r4rb := (m _ _).1 r5rb; have r4st := (m _ _).2 r5st
  have r3rb := (m _ _).1 r4rb; have r3st := (m _ _).2 r4st
  have r2rb := (m _ _).1 r3rb; have r2st := (m _ _).2 r3st
  have r1rb := (m _ _).1 r2rb; have r1st := (m _ _).2 r2st
  have r0rb := (m _ _).1 r1rb; have r0st := (m _ _).2 r1st
  have g0 := step _ s ⟨h0, hg, hr⟩ r0rb r0st
  have g1 := step _ _ g0 r1rb r1st
  have g2 := step _ _ g1 r2rb r2st
  have g3 := step _ _ g2 r3rb r3st
  have g4 := step _ _ g3 r4rb r4st
  have g5 := step _ _ g4 r5rb r5st
  exact g5.2

theorem spaced_span {prev : Int} {l : List (Int × Int)} (h : Spaced prev l) :
    prev + (l.map (·.2)).sum ≤ latest prev l := by
  induction l generalizing prev with
  | nil => simp [latest]
  | cons e r ih =>
    obtain ⟨p, iv⟩ := e
    obtain ⟨h1, h2⟩ := h
    have := ih h2
    simp only [List.map_cons, List.sum_cons, latest]
    omega

theorem span_of_final (base : Int) (c : Cfg) (h : Spaced base c.log ∧ c.last = latest base c.log) :
    base + (c.log.map (·.2)).sum ≤ c.last := by
  rw [h.2]; exact spaced_span h.1

/-! ## a reload while a request sleeps: the list / lookup facts behind `chainReload_ctls` -/

/-- the controllers `l` with the timestamps `A` (the form `chainReload` uses) -/
def zipLast {ρ : Type} (l : List (Ctl ρ)) (A : List Int) : List (Ctl ρ) :=
  (l.zip A).map fun (c, a) => { c with last := a }

theorem zipLast_nil_left {ρ : Type} (A : List Int) : zipLast ([] : List (Ctl ρ)) A = [] := by simp [zipLast]
theorem zipLast_nil_right {ρ : Type} (l : List (Ctl ρ)) : zipLast l [] = [] := by simp [zipLast]
theorem zipLast_cons {ρ : Type} (c : Ctl ρ) (l : List (Ctl ρ)) (a : Int) (A : List Int) :
    zipLast (c :: l) (a :: A) = { c with last := a } :: zipLast l A := by simp [zipLast]

theorem zipLast_append {ρ : Type} (l1 l2 : List (Ctl ρ)) (A1 A2 : List Int) (h : l1.length = A1.length) :
    zipLast (l1 ++ l2) (A1 ++ A2) = zipLast l1 A1 ++ zipLast l2 A2 := by
  simp [zipLast, List.zip_append h]

theorem mem_zipLast_id {ρ : Type} (l : List (Ctl ρ)) (A : List Int) (x : Ctl ρ) (hx : x ∈ zipLast l A) :
    x.id ∈ l.map (·.id) := by
  induction l generalizing A with
  | nil => simp [zipLast] at hx
  | cons c cs ih =>
    cases A with
    | nil => simp [zipLast] at hx
    | cons a as =>
      rw [zipLast_cons, List.mem_cons] at hx
      rcases hx with rfl | hx
      · simp
      · simpa using Or.inr (by simpa using ih as hx)

theorem setLast_rule {ρ : Type} (upd : List (Nat × Int)) (c : Ctl ρ) : (Ctl.setLast upd c).rule = c.rule := by
  unfold Ctl.setLast; split <;> rfl

theorem lookup_zip_none (ks : List Nat) (B : List Int) (k : Nat) (h : k ∉ ks) : (ks.zip B).lookup k = none := by
  induction ks generalizing B with
  | nil => simp
  | cons k' ks ih =>
    cases B with
    | nil => simp
    | cons b bs =>
      have hne : (k == k') = false := by
        have : k ≠ k' := fun e => h (by simp [e])
        simpa using this
      rw [List.zip_cons_cons, List.lookup_cons, hne]
      exact ih bs (fun hk => h (List.mem_cons_of_mem _ hk))

theorem setLast_of_not_mem {ρ : Type} (ks : List Nat) (B : List Int) (c : Ctl ρ) (h : c.id ∉ ks) :
    Ctl.setLast (ks.zip B) c = c := by
  unfold Ctl.setLast; rw [lookup_zip_none ks B c.id h]

/-- controllers whose identity is not among the updated ones are left alone -/
theorem map_setLast_of_disjoint {ρ : Type} (ks : List Nat) (B : List Int) (l : List (Ctl ρ))
    (h : ∀ x ∈ l, x.id ∉ ks) : l.map (Ctl.setLast (ks.zip B)) = l := by
  conv_rhs => rw [← List.map_id l]
  exact List.map_congr_left fun x hx => by simpa using setLast_of_not_mem ks B x (h x hx)

/-- updating by identity with the timestamps `B` of exactly these controllers gives these controllers with `B` -/
theorem map_setLast_self {ρ : Type} (suf : List (Ctl ρ)) (A B : List Int) (hn : (suf.map (·.id)).Nodup)
    (hA : A.length = suf.length) (hB : B.length = suf.length) :
    (zipLast suf A).map (Ctl.setLast ((suf.map (·.id)).zip B)) = zipLast suf B := by
  induction suf generalizing A B with
  | nil => simp [zipLast]
  | cons c cs ih =>
    cases A with
    | nil => simp at hA
    | cons a as =>
      cases B with
      | nil => simp at hB
      | cons b bs =>
        simp only [List.map_cons, List.nodup_cons, List.length_cons, Nat.add_right_cancel_iff] at hn hA hB
        rw [zipLast_cons, zipLast_cons, List.map_cons]
        simp only [List.map_cons, List.zip_cons_cons]
        congr 1
        · unfold Ctl.setLast
          simp [List.lookup_cons]
        · -- the tail: the head entry of the update list never matches
          have : (zipLast cs as).map (Ctl.setLast ((c.id, b) :: (cs.map (·.id)).zip bs)) =
              (zipLast cs as).map (Ctl.setLast ((cs.map (·.id)).zip bs)) := by
            apply List.map_congr_left
            intro x hx
            have hx' := mem_zipLast_id cs as x hx
            have hne : (x.id == c.id) = false := by
              have : x.id ≠ c.id := fun e => hn.1 (e ▸ hx')
              simpa using this
            unfold Ctl.setLast
            rw [List.lookup_cons, hne]
          rw [this]
          exact ih as bs hn.2 hA hB

theorem chainHead_length (now : Int) (cs : List (Int × Int × Req)) : (chainHead now cs).1.length = cs.length := by
  induction cs with
  | nil => simp [chainHead]
  | cons c r ih =>
    obtain ⟨maxQ, last, q⟩ := c
    unfold chainHead
    split <;> simp [ih]

/-! ## the exact region of schedules on which spacing fails -/

theorem run_append (c : Cfg) (a b : List Nat) : c.run (a ++ b) = (c.run a).run b := by
  induction a generalizing c with
  | nil => rfl
  | cons i r ih => simp [Cfg.run, ih]

/-- the schedule `go/internal/sched` really executes: the given entries, then five round-robin rounds -/
def fullSched (c : Cfg) (s : List Nat) : List Nat :=
  s ++ List.range c.ths.length ++ List.range c.ths.length ++ List.range c.ths.length ++ List.range c.ths.length ++
    List.range c.ths.length

theorem runSched_eq_run (c : Cfg) (s : List Nat) : c.runSched s = c.run (fullSched c s) := by
  unfold Cfg.runSched Cfg.round fullSched
  simp only [run_append, run_length]

/-- a step either leaves the admission log alone or appends one admission -/
theorem sched_log_cases (c : Cfg) (i : Nat) : (c.sched i).log = c.log ∨ ∃ e, (c.sched i).log = c.log ++ [e] := by
  unfold Cfg.sched
  split
  · left; rfl
  · split
    · left; rfl
    · simp only
      split
      · rename_i e _; right; exact ⟨e, rfl⟩
      · left; rfl

/-- step `i` admits a caller with a pass time less than its interval after the latest admitted pass time -/
def admitBad (base : Int) (c : Cfg) (i : Nat) : Bool :=
  match (c.sched i).log.drop c.log.length with
  | [(p, iv)] => decide (p < latest base c.log + iv)
  | _ => false

/-- **the collision region**: somewhere along the schedule an admission collides with the latest admitted pass time -/
def collides (base : Int) : Cfg → List Nat → Bool
  | _, [] => false
  | c, i :: r => admitBad base c i || collides base (c.sched i) r

theorem spaced_sched_iff (base : Int) (c : Cfg) (i : Nat) (h : Spaced base c.log) :
    Spaced base (c.sched i).log ↔ admitBad base c i = false := by
  unfold admitBad
  rcases sched_log_cases c i with he | ⟨⟨p, iv⟩, he⟩
  · rw [he]; simp [h]
  · rw [he, spaced_append_one]
    simp only [List.drop_left', h, true_and]
    simp

theorem not_spaced_sched (base : Int) (c : Cfg) (i : Nat) (h : ¬ Spaced base c.log) : ¬ Spaced base (c.sched i).log := by
  rcases sched_log_cases c i with he | ⟨⟨p, iv⟩, he⟩
  · rw [he]; exact h
  · rw [he, spaced_append_one]; exact fun h' => h h'.1

theorem not_spaced_run (base : Int) (c : Cfg) (s : List Nat) (h : ¬ Spaced base c.log) : ¬ Spaced base (c.run s).log := by
  induction s generalizing c with
  | nil => exact h
  | cons i r ih => exact ih _ (not_spaced_sched base c i h)

theorem spaced_run_iff (base : Int) (c : Cfg) (s : List Nat) (h : Spaced base c.log) :
    Spaced base (c.run s).log ↔ collides base c s = false := by
  induction s generalizing c with
  | nil => simp [Cfg.run, collides, h]
  | cons i r ih =>
    simp only [Cfg.run, collides, Bool.or_eq_false_iff]
    by_cases hb : admitBad base c i = false
    · have h1 := (spaced_sched_iff base c i h).mpr hb
      rw [ih _ h1]; simp [hb]
    · have h1 : ¬ Spaced base (c.sched i).log := fun hs => hb ((spaced_sched_iff base c i h).mp hs)
      constructor
      · intro hs; exact absurd hs (not_spaced_run base _ r h1)
      · intro hs; exact absurd hs.1 hb

theorem spaced_runSched_iff (base : Int) (c : Cfg) (s : List Nat) (h : Spaced base c.log) :
    Spaced base (c.runSched s).log ↔ collides base c (fullSched c s) = false := by
  rw [runSched_eq_run]
  exact spaced_run_iff base c _ h

theorem spaced_start (maxQ last : Int) (ws : List (Int × Req)) : Spaced last (Cfg.start maxQ last ws).log := by
  simp [Cfg.start, Spaced]

section
attribute [local irreducible] Spaced

theorem collides_false_of (base : Int) (c : Cfg) (s : List Nat) (h0 : Spaced base c.log) (P : Prop)
    (h : Spaced base (c.runSched s).log ∧ P) : collides base c (fullSched c s) = false := by
  obtain ⟨h1, _⟩ := h
  exact (spaced_runSched_iff base c s h0).mp h1

end

end Sentinel.C10
