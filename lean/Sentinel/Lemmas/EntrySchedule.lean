import Sentinel.Lemmas.EntryLedger
/-!
# The account does not depend on how calls addressed to different entries interleave

`Sched h₁ h₂`: `h₂` is obtained from `h₁` by repeatedly swapping two adjacent ops addressed to different
ids (what a different goroutine schedule at API-call granularity does to the history).  Then every id has
the same account, every gauge is the same, and every counter of every window tally is the same; only the
*peak concurrency samples* may differ (they record the number of entries in flight at the moment of a pass).
-/
namespace Sentinel.Entry
open Sentinel.LA

/-- everything of a bucket except the peak-concurrency sample -/
def cnt (b : Bucket) : Bucket := { b with mc := 0 }

theorem cnt_add (a b : Bucket) : cnt (a + b) = cnt a + cnt b := by
  ext <;> simp [cnt]

theorem cnt_zero : cnt 0 = 0 := rfl

theorem info_swap (x y : TOp) (b : List TOp) (hxy : x.2.addr ≠ y.2.addr) (id : Nat) :
    info (x :: y :: b) id = info (y :: x :: b) id := by
  simp only [info]
  by_cases hx : x.2.addr = id
  · have hy : ¬ y.2.addr = id := fun h => hxy (hx.trans h.symm)
    simp [hx, hy]
  · by_cases hy : y.2.addr = id <;> simp [hx, hy]

theorem info_swap_ctx (a : List TOp) (x y : TOp) (b : List TOp) (hxy : x.2.addr ≠ y.2.addr) (id : Nat) :
    info (a ++ x :: y :: b) id = info (a ++ y :: x :: b) id := by
  induction a with
  | nil => exact info_swap x y b hxy id
  | cons z r ih => simp only [List.cons_append, info, ih]

theorem gauge_swap_ctx (fix : Bool) (a : List TOp) (x y : TOp) (b : List TOp) (hxy : x.2.addr ≠ y.2.addr) (k : Key) :
    gauge fix (a ++ x :: y :: b) k = gauge fix (a ++ y :: x :: b) k := by
  induction a with
  | nil =>
    have h1 : info (y :: b) x.2.addr = info b x.2.addr := info_cons_ne _ _ _ (Ne.symm hxy)
    have h2 : info (x :: b) y.2.addr = info b y.2.addr := info_cons_ne _ _ _ hxy
    simp only [List.nil_append, gauge, gaugeDelta, h1, h2]
    omega
  | cons z r ih =>
    simp only [List.cons_append, gauge, gaugeDelta, ih, info_swap_ctx r x y b hxy]

theorem nodeExists_swap_ctx (a : List TOp) (x y : TOp) (b : List TOp) (hxy : x.2.addr ≠ y.2.addr) (res : String) :
    nodeExists (a ++ x :: y :: b) res = nodeExists (a ++ y :: x :: b) res := by
  induction a with
  | nil =>
    have h1 : info (y :: b) x.2.addr = info b x.2.addr := info_cons_ne _ _ _ (Ne.symm hxy)
    have h2 : info (x :: b) y.2.addr = info b y.2.addr := info_cons_ne _ _ _ hxy
    simp only [List.nil_append, nodeExists, h1, h2, Bool.or_assoc]
    rw [Bool.or_comm (decide (nodeNewI (info b y.2.addr) y = some res))]
  | cons z r ih =>
    simp only [List.cons_append, nodeExists, ih, info_swap_ctx r x y b hxy]

/-- the counters contributed by an op do not depend on the gauge at that moment (only the peak sample does) -/
theorem contribI_cnt (fix : Bool) (i : Option Info) (g g' : Int) (z : TOp) (k : Key) (p : Nat → Bool) :
    cnt (tally p (contribI fix i g z k)) = cnt (tally p (contribI fix i g' z k)) := by
  obtain ⟨t, op⟩ := z
  cases op with
  | entry e =>
    simp only [contribI]
    by_cases hc : (i.isNone && touches e k) = true
    · simp only [hc, if_true]
      cases outcome e.chain <;> cases fix <;> simp [tally_cons, tally_nil, cnt_add, cnt, concBucket] <;>
        (by_cases hp : p t = true <;> simp [hp])
    · have hc' : (i.isNone && touches e k) = false := by simpa using hc
      simp [hc']
  | trace id err => rfl
  | exit id err => rfl

theorem tally_cnt_append (p : Nat → Bool) (l m : List (Nat × Bucket)) :
    cnt (tally p (l ++ m)) = cnt (tally p l) + cnt (tally p m) := by
  rw [tally_append, cnt_add]

theorem evs_swap_ctx (fix : Bool) (a : List TOp) (x y : TOp) (b : List TOp) (hxy : x.2.addr ≠ y.2.addr) (k : Key)
    (p : Nat → Bool) :
    cnt (tally p (evs fix (a ++ x :: y :: b) k)) = cnt (tally p (evs fix (a ++ y :: x :: b) k)) := by
  induction a with
  | nil =>
    have h1 : info (y :: b) x.2.addr = info b x.2.addr := info_cons_ne _ _ _ (Ne.symm hxy)
    have h2 : info (x :: b) y.2.addr = info b y.2.addr := info_cons_ne _ _ _ hxy
    simp only [List.nil_append, evs, contrib, h1, h2, tally_cnt_append]
    rw [contribI_cnt fix (info b x.2.addr) (gauge fix (y :: b) k) (gauge fix b k) x k p,
        contribI_cnt fix (info b y.2.addr) (gauge fix (x :: b) k) (gauge fix b k) y k p]
    abel
  | cons z r ih =>
    simp only [List.cons_append, evs, contrib, tally_cnt_append, ih, info_swap_ctx r x y b hxy]
    rw [contribI_cnt fix _ (gauge fix (r ++ x :: y :: b) k) (gauge fix (r ++ y :: x :: b) k) z k p]

/-- reordering of a history by swaps of adjacent ops addressed to different ids -/
inductive Sched : List TOp → List TOp → Prop
  | refl (h : List TOp) : Sched h h
  | swap (a : List TOp) (x y : TOp) (b : List TOp) (hxy : x.2.addr ≠ y.2.addr) : Sched (a ++ x :: y :: b) (a ++ y :: x :: b)
  | trans {h1 h2 h3 : List TOp} : Sched h1 h2 → Sched h2 h3 → Sched h1 h3

theorem sched_invariant (fix : Bool) {h1 h2 : List TOp} (s : Sched h1 h2) :
    (∀ id, info h1 id = info h2 id) ∧ (∀ k, gauge fix h1 k = gauge fix h2 k) ∧
    (∀ k p, cnt (tally p (evs fix h1 k)) = cnt (tally p (evs fix h2 k))) ∧
    (∀ res, nodeExists h1 res = nodeExists h2 res) := by
  induction s with
  | refl h => exact ⟨fun _ => rfl, fun _ => rfl, fun _ _ => rfl, fun _ => rfl⟩
  | swap a x y b hxy =>
    exact ⟨info_swap_ctx a x y b hxy, gauge_swap_ctx fix a x y b hxy, evs_swap_ctx fix a x y b hxy,
           nodeExists_swap_ctx a x y b hxy⟩
  | trans _ _ ih1 ih2 =>
    exact ⟨fun id => (ih1.1 id).trans (ih2.1 id), fun k => (ih1.2.1 k).trans (ih2.2.1 k),
           fun k p => (ih1.2.2.1 k p).trans (ih2.2.2.1 k p), fun r => (ih1.2.2.2 r).trans (ih2.2.2.2 r)⟩

end Sentinel.Entry
