import Sentinel.Lemmas.WarmUpRun
import Sentinel.Lemmas.WarmUpHist
/-! Window cap along histories that reload the warm-up rule (default view, Reject): `Lemmas/WarmUpHist.lean` carried through `loadRuleG`. -/
namespace Sentinel.WU.R
open Sentinel.WU Sentinel.WU.L Sentinel.LA Sentinel.WU.H

/-- a (re)load of a valid warm-up Reject rule on the default view, on a resource whose node exists and whose current rule reads the
    resource statistic: node, statistic and behaviour stay, the rule is either kept with its token state or replaced by a fresh one -/
theorem loadRuleG_default_wu (s : Sys ℚ) (a : Arr Bucket) (ha : s.arr = some a) (ho : s.own = none) (hb : s.behav = none)
    (now : ℕ) (T : ℚ) (p cf iv : ℕ) :
    (loadRuleG s now (.wu T p cf iv) none true 2 1000 false).arr = some a ∧
    (loadRuleG s now (.wu T p cf iv) none true 2 1000 false).own = none ∧
    (loadRuleG s now (.wu T p cf iv) none true 2 1000 false).behav = none ∧
    (((loadRuleG s now (.wu T p cf iv) none true 2 1000 false).rule = s.rule ∧
      (loadRuleG s now (.wu T p cf iv) none true 2 1000 false).tok = s.tok) ∨
     ((loadRuleG s now (.wu T p cf iv) none true 2 1000 false).rule = some (.warmup (mkCfg T p cf), 2, 1000) ∧
      (loadRuleG s now (.wu T p cf iv) none true 2 1000 false).tok = {})) := by
  have htouch : s.touch now = s := by unfold Sys.touch; rw [ha]
  unfold loadRuleG loadRule loadWarmUp
  simp only [Bool.not_true, Bool.false_eq_true, if_false, htouch, Bool.false_and]
  cases hbd : s.bound with
  | none => simp [ha, ho, hb]
  | some b =>
    dsimp only
    by_cases hsame : b.same (RuleP.wu T p cf iv) = true
    · simp [hsame, ha, ho, hb]
    · have hf : b.same (RuleP.wu T p cf iv) = false := by simpa using hsame
      simp only [hf, hb, Bool.false_and, Bool.false_eq_true, if_false]
      split_ifs <;> simp [ha, ho, hb]

/-! ## window cap along histories with reloads (default view, Reject, warm-up) -/

/-- requests (with their instants) and reloads of the resource's warm-up rule (`now` = the load time, irrelevant once the node exists) -/
inductive DOp where
  | req (t b : ℕ)
  | reload (now : ℕ) (T : ℚ) (p cf iv : ℕ)

def stepD (x : Sys ℚ × Log) : DOp → Sys ℚ × Log
  | .req t b => ((reqG x.1 t b).1, x.2 ++ [(t, b, (reqG x.1 t b).2)])
  | .reload now T p cf iv => (loadRuleG x.1 now (.wu T p cf iv) none true 2 1000 false, x.2)

def runD (x : Sys ℚ × Log) : List DOp → Sys ℚ × Log
  | [] => x
  | o :: r => runD (stepD x o) r

def MonoD (latest : ℕ) : List DOp → Prop
  | [] => True
  | .req t _ :: r => latest ≤ t ∧ MonoD t r
  | .reload .. :: r => MonoD latest r

/-- every loaded rule is non-degenerate and its threshold is at most `B` -/
def RulesBelow (B : ℚ) : List DOp → Prop
  | [] => True
  | .req .. :: r => RulesBelow B r
  | .reload _ T p cf _ :: r => Known.degenerateNaN (mkCfg T p cf) = false ∧ T ≤ B ∧ RulesBelow B r

/-- every window of two consecutive 500 ms buckets holds at most `B` admitted tokens -/
def WInvB (B : ℚ) (l : Log) : Prop := ∀ w, (passIn l w (w + 500) : ℚ) ≤ B

structure DInv (B : ℚ) (t0 : ℕ) (x : Sys ℚ × Log) (latest : ℕ) : Prop where
  h : ∃ c, HInv c t0 x.1 x.2 latest ∧ WF c ∧ c.T ≤ B
  own : x.1.own = none
  behav : x.1.behav = none
  w : WInvB B x.2

theorem dinv_step {B : ℚ} {t0 : ℕ} {x : Sys ℚ × Log} {latest : ℕ} (d : DInv B t0 x latest) (o : DOp)
    (hm : MonoD latest [o]) (hr : RulesBelow B [o]) :
    ∃ latest', latest ≤ latest' ∧ DInv B t0 (stepD x o) latest' ∧ (∀ r, MonoD latest r → MonoD latest [o] → True) ∧
      (match o with | .req t _ => latest' = t | .reload .. => latest' = latest) := by
  obtain ⟨⟨c, hinv, hwf, hcB⟩, hown, hbeh, hw⟩ := d
  cases o with
  | req t b =>
    have ht : latest ≤ t := hm.1
    have hG : reqG x.1 t b = req x.1 t b := by unfold reqG; rw [hown]
    obtain ⟨_, hdec, hinv'⟩ := req_spec hinv t b ht
    refine ⟨t, ht, ⟨⟨c, ?_, hwf, hcB⟩, ?_, ?_, ?_⟩, fun _ _ _ => trivial, rfl⟩
    · show HInv c t0 (reqG x.1 t b).1 (x.2 ++ [(t, b, (reqG x.1 t b).2)]) t
      rw [hG]; exact hinv'
    · show (reqG x.1 t b).1.own = none
      rw [hG]
      obtain ⟨a, ha, _, _, _⟩ := touch_arr x.1 t
      have hb : (x.1.touch t).own = x.1.own := by unfold Sys.touch; cases x.1.arr <;> rfl
      unfold req
      simp only [ha]
      rcases threshold (x.1.touch t) a t with ⟨tk, thr⟩
      exact hb.trans hown
    · show (reqG x.1 t b).1.behav = none
      rw [hG]
      obtain ⟨a, ha, _, _, _⟩ := touch_arr x.1 t
      have hb : (x.1.touch t).behav = x.1.behav := by unfold Sys.touch; cases x.1.arr <;> rfl
      unfold req
      simp only [ha]
      rcases threshold (x.1.touch t) a t with ⟨tk, thr⟩
      exact hb.trans hbeh
    · -- the window cap
      show WInvB B (x.2 ++ [(t, b, (reqG x.1 t b).2)])
      rw [hG]
      intro w
      rw [passIn_append]
      by_cases hin : (req x.1 t b).2 = true ∧ w ≤ cbs 500 t ∧ cbs 500 t ≤ w + 500
      · rw [if_pos hin]
        have hrej : rejects (allowed c (sync c x.1.tok t (prevAt x.2 t : ℚ)).tokens) (curAt x.2 t) b = false := by
          rw [hdec] at hin
          simpa using hin.1
        rw [allowed_closed_form hwf] at hrej
        unfold rejects at hrej
        simp only [c_ofNat, c_ltb, decide_eq_false_iff_not, not_lt] at hrej
        have hle : passIn x.2 w (w + 500) ≤ curAt x.2 t := by
          unfold curAt
          apply passIn_mono
          intro e he _ h1 h2
          refine ⟨by omega, cbs_mono 500 (le_trans (hinv.le e he) ht)⟩
        have hleq : (passIn x.2 w (w + 500) : ℚ) ≤ (curAt x.2 t : ℚ) := by exact_mod_cast hle
        have hT := val_le_T hwf (sync c x.1.tok t (prevAt x.2 t : ℚ)).tokens
        push_cast at hrej ⊢
        linarith
      · rw [if_neg hin]
        simpa using hw w
  | reload now T p cf iv =>
    obtain ⟨hnd, hTB, _⟩ := hr
    obtain ⟨k1, k2, k3, k4⟩ := loadRuleG_default_wu x.1 _ hinv.arr hown hbeh now T p cf iv
    refine ⟨latest, le_refl _, ⟨?_, k2, k3, hw⟩, fun _ _ _ => trivial, rfl⟩
    rcases k4 with ⟨e1, e2⟩ | ⟨e1, e2⟩
    · exact ⟨c, ⟨by show (stepD x _).1.rule = _; exact e1.trans hinv.rule, k1, hinv.mono, hinv.le, hinv.t0le, hinv.t0big,
        by show (0:ℤ) ≤ (stepD x _).1.tok.tokens; exact (congrArg Tok.tokens e2).symm ▸ hinv.tk0,
        by show (stepD x _).1.tok.tokens ≤ _; exact (congrArg Tok.tokens e2).symm ▸ hinv.tk1⟩, hwf, hcB⟩
    · refine ⟨mkCfg T p cf, ⟨e1, k1, hinv.mono, hinv.le, hinv.t0le, hinv.t0big, ?_, ?_⟩, mkCfg_wf T p cf hnd, hTB⟩
      · show (0:ℤ) ≤ (stepD x _).1.tok.tokens
        have : (stepD x (DOp.reload now T p cf iv)).1.tok = {} := e2
        rw [this]
      · show (stepD x _).1.tok.tokens ≤ _
        have : (stepD x (DOp.reload now T p cf iv)).1.tok = {} := e2
        rw [this]; show (0 : ℤ) ≤ _; positivity

theorem dinv_run {B : ℚ} {t0 : ℕ} (ops : List DOp) : ∀ {x : Sys ℚ × Log} {latest : ℕ}, DInv B t0 x latest →
    MonoD latest ops → RulesBelow B ops → WInvB B (runD x ops).2 := by
  induction ops with
  | nil => intro x latest d _ _; exact d.w
  | cons o r ih =>
    intro x latest d hm hr
    cases o with
    | req t b =>
      obtain ⟨l', _, d', _, e⟩ := dinv_step d (.req t b) ⟨hm.1, trivial⟩ trivial
      simp only at e
      subst e
      exact ih d' hm.2 hr
    | reload now T p cf iv =>
      obtain ⟨l', _, d', _, e⟩ := dinv_step d (.reload now T p cf iv) trivial ⟨hr.1, hr.2.1, trivial⟩
      simp only at e
      subst e
      exact ih d' hm hr.2.2

end Sentinel.WU.R
