import Mathlib.Tactic
import Sentinel.Lemmas.Hot
/-!
# From the multi-value controller to the one-value machine

`sim_reject` / `sim_throttle`: as long as requests for *other* values leave the cells of `v` alone, the decisions
for `v` are those of the one-value machine on `v`'s own sub-history.  Other values leave `v` alone (a) while `v`
stays resident (one residency episode) and (b) always, while the number of live values does not exceed the capacity.
-/
namespace Sentinel.Hot

/-! ### LRU facts: no duplicates, never above capacity, only the least recently used key is evicted -/

namespace LRU

theorem accKeys_nodup {size : Nat} {u : Val} {ks : List Val} (h : ks.Nodup) : (accKeys size u ks).Nodup := by
  unfold accKeys
  split
  · refine List.nodup_cons.mpr ⟨?_, h.filter _⟩
    simp [List.mem_filter]
  · rename_i hn
    have : (u :: ks).Nodup := List.nodup_cons.mpr ⟨hn, h⟩
    split
    · exact this.sublist (List.dropLast_sublist _)
    · exact this

theorem accKeys_length {size : Nat} {u : Val} {ks : List Val} (hs : 0 < size) (h : ks.length ≤ size) :
    (accKeys size u ks).length ≤ size := by
  unfold accKeys
  split
  · have := List.length_filter_le (fun x => x != u) ks
    rename_i hm
    have hlt : (ks.filter (· != u)).length < ks.length := by
      apply List.length_filter_lt_length_iff_exists.mpr
      exact ⟨u, hm, by simp⟩
    simp only [List.length_cons]; omega
  · split
    · simp only [List.length_dropLast, List.length_cons]; omega
    · rename_i h2; simpa using h2

theorem accKeys_subset {size : Nat} {u : Val} {ks K : List Val} (hu : u ∈ K) (h : ks ⊆ K) : accKeys size u ks ⊆ K := by
  unfold accKeys
  have h1 : u :: ks ⊆ K := List.cons_subset.mpr ⟨hu, h⟩
  split
  · exact List.cons_subset.mpr ⟨hu, fun x hx => h (List.mem_filter.mp hx).1⟩
  · split
    · exact List.Subset.trans (List.dropLast_subset _) h1
    · exact h1

/-- nothing is evicted by an access while the capacity is not exceeded: every key that was there is still there -/
theorem accKeys_noevict {size : Nat} {u : Val} {ks : List Val} (h : u ∈ ks ∨ ks.length < size) :
    ∀ k ∈ ks, k ∈ accKeys size u ks := by
  intro k hk
  unfold accKeys
  split
  · by_cases hku : k = u
    · subst hku; exact List.mem_cons_self
    · exact List.mem_cons_of_mem _ (List.mem_filter.mpr ⟨hk, by simpa using hku⟩)
  · rename_i hn
    have hl : ks.length < size := h.resolve_left hn
    have : ¬ (u :: ks).length > size := by simp only [List.length_cons]; omega
    rw [if_neg this]; exact List.mem_cons_of_mem _ hk

/-- when the cache is full and the key is new, exactly the last (least recently used) key is dropped -/
theorem accKeys_evicts_lru {size : Nat} {u : Val} {ks : List Val} (hs : 0 < size) (hu : u ∉ ks)
    (hfull : ks.length = size) :
    accKeys size u ks = u :: ks.dropLast := by
  unfold accKeys
  rw [if_neg hu]
  have : (u :: ks).length > size := by simp only [List.length_cons]; omega
  rw [if_pos this]
  cases ks with
  | nil => simp at hfull; omega
  | cons a l => rw [List.dropLast_cons₂]

end LRU

/-- under capacity: the accessed key is present or there is room -/
theorem room_of_cap {c : LRU} {K : List Val} {u : Val} (hnd : c.keys.Nodup) (hsub : c.keys ⊆ K) (hu : u ∈ K)
    (hK : K.length ≤ c.size) : u ∈ c.keys ∨ c.keys.length < c.size := by
  by_cases hm : u ∈ c.keys
  · exact Or.inl hm
  · right
    have h1 : (u :: c.keys).Nodup := List.nodup_cons.mpr ⟨hm, hnd⟩
    have h2 : u :: c.keys ⊆ K := List.cons_subset.mpr ⟨hu, hsub⟩
    have := h1.length_le_of_subset h2
    simp only [List.length_cons] at this
    omega

/-! ### reject mode -/

/-- requests for other values leave the cells of `v` untouched, at every step of the history -/
def KeepsR (r : Rule) (v : Val) : LRU → LRU → List Req → Prop
  | _, _, [] => True
  | tm, tk, q :: qs =>
    (q.v ≠ v → cellR (rejectCheck r tm tk q.t q.v q.b).1 (rejectCheck r tm tk q.t q.v q.b).2.1 v = cellR tm tk v) ∧
      KeepsR r v (rejectCheck r tm tk q.t q.v q.b).1 (rejectCheck r tm tk q.t q.v q.b).2.1 qs

theorem sim_reject (r : Rule) (v : Val) :
    ∀ (qs : List Req) (tm tk : LRU), Sync tm tk → KeepsR r v tm tk qs →
      forVal v (runReject r tm tk qs) =
        svRunReject (tokenCount r v) (maxCount r v) (durMs r) (cellR tm tk v) (reqsOf v qs) := by
  intro qs
  induction qs with
  | nil => intro _ _ _ _; rfl
  | cons q qs ih =>
    intro tm tk hs hk
    obtain ⟨k1, k2⟩ := hk
    obtain ⟨s1, s2, _⟩ := rejectCheck_spec r tm tk hs q.t q.v q.b
    have ih' := ih _ _ s1 k2
    by_cases hv : q.v = v
    · have e1 : forVal v (runReject r tm tk (q :: qs)) =
          (q, (rejectCheck r tm tk q.t q.v q.b).2.2) ::
            forVal v (runReject r (rejectCheck r tm tk q.t q.v q.b).1 (rejectCheck r tm tk q.t q.v q.b).2.1 qs) := by
        simp only [runReject, forVal, List.filter_cons, hv, decide_true, if_true]
      have e2 : reqsOf v (q :: qs) = q :: reqsOf v qs := by
        simp only [reqsOf, List.filter_cons, hv, decide_true, if_true]
      rw [e1, e2, ih']
      simp only [svRunReject]
      rw [hv] at s2
      have s2a := congrArg Prod.fst s2
      have s2b := congrArg Prod.snd s2
      simp only at s2a s2b
      rw [← s2a, ← s2b, hv]
    · have e1 : forVal v (runReject r tm tk (q :: qs)) =
            forVal v (runReject r (rejectCheck r tm tk q.t q.v q.b).1 (rejectCheck r tm tk q.t q.v q.b).2.1 qs) := by
        simp only [runReject, forVal, List.filter_cons, hv, decide_false, Bool.false_eq_true, if_false]
      have e2 : reqsOf v (q :: qs) = reqsOf v qs := by
        simp only [reqsOf, List.filter_cons, hv, decide_false, Bool.false_eq_true, if_false]
      rw [e1, e2, ih', k1 hv]

/-- the caches stay in step along any history -/
theorem sync_run (r : Rule) : ∀ (qs : List Req) (tm tk : LRU), Sync tm tk →
    Sync (endReject r tm tk qs).1 (endReject r tm tk qs).2 := by
  intro qs
  induction qs with
  | nil => intro _ _ h; exact h
  | cons q qs ih =>
    intro tm tk hs
    exact ih _ _ (rejectCheck_spec r tm tk hs q.t q.v q.b).1

theorem cellR_other {tm tk tm' tk' : LRU} {u v : Val} (hs' : Sync tm' tk') (a1 : LRU.Acc u tm tm')
    (a2 : LRU.Acc u tk tk') (hv : v ≠ u) (hres : tm'.find v ≠ none) : cellR tm' tk' v = cellR tm tk v := by
  cases h1 : tm'.find v with
  | none => exact absurd h1 hres
  | some a =>
    cases h2 : tk'.find v with
    | none => rw [(hs'.find_none v).mpr h2] at h1; cases h1
    | some q => rw [cellR_some h1 h2, cellR_some (a1.other v hv a h1) (a2.other v hv q h2)]

theorem cellR_other_noev {tm tk tm' tk' : LRU} {u v : Val} (hs : Sync tm tk) (a1 : LRU.Acc u tm tm')
    (a2 : LRU.Acc u tk tk') (hv : v ≠ u) (hroom : u ∈ tm.keys ∨ tm.keys.length < tm.size) :
    cellR tm' tk' v = cellR tm tk v := by
  unfold cellR
  rw [a1.noev hroom v hv, a2.noev (by rw [← hs.keys, ← hs.size]; exact hroom) v hv]

/-- (a) inside one residency episode of `v` -/
theorem keeps_of_resident (r : Rule) (v : Val) : ∀ (qs : List Req) (tm tk : LRU), Sync tm tk →
    ResidentR r v tm tk qs → KeepsR r v tm tk qs := by
  intro qs
  induction qs with
  | nil => intro _ _ _ _; trivial
  | cons q qs ih =>
    intro tm tk hs hr
    obtain ⟨r1, r2⟩ := hr
    obtain ⟨s1, _, s3⟩ := rejectCheck_spec r tm tk hs q.t q.v q.b
    refine ⟨fun hv => ?_, ih _ _ s1 r2⟩
    rcases s3 with ⟨e1, e2⟩ | ⟨a1, a2⟩
    · rw [e1, e2]
    · exact cellR_other s1 a1 a2 (fun h => hv h.symm) r1

theorem keeps_of_notEvicted (r : Rule) (v : Val) : ∀ (qs : List Req) (tm tk : LRU), Sync tm tk →
    NotEvictedR r v tm tk qs → KeepsR r v tm tk qs := by
  intro qs
  induction qs with
  | nil => intro _ _ _ _; trivial
  | cons q qs ih =>
    intro tm tk hs hr
    obtain ⟨r1, r2⟩ := hr
    obtain ⟨s1, _, s3⟩ := rejectCheck_spec r tm tk hs q.t q.v q.b
    refine ⟨fun hv => ?_, ih _ _ s1 r2⟩
    rcases s3 with ⟨e1, e2⟩ | ⟨a1, a2⟩
    · rw [e1, e2]
    · by_cases hin : tm.find v = none
      · have : (rejectCheck r tm tk q.t q.v q.b).1.find v = none := by
          cases h : (rejectCheck r tm tk q.t q.v q.b).1.find v with
          | none => rfl
          | some a => rw [a1.other v (fun h => hv h.symm) a h] at hin; cases hin
        rw [cellR_none this, cellR_none hin]
      · exact cellR_other s1 a1 a2 (fun h => hv h.symm) (r1 hin)

/-- (b) while the live values fit into the capacity -/
theorem keeps_of_cap (r : Rule) (v : Val) (K : List Val) : ∀ (qs : List Req) (tm tk : LRU), Sync tm tk →
    tm.keys.Nodup → tm.keys ⊆ K → (∀ q ∈ qs, q.v ∈ K) → K.length ≤ tm.size → KeepsR r v tm tk qs := by
  intro qs
  induction qs with
  | nil => intro _ _ _ _ _ _ _; trivial
  | cons q qs ih =>
    intro tm tk hs hnd hsub hall hK
    obtain ⟨s1, _, s3⟩ := rejectCheck_spec r tm tk hs q.t q.v q.b
    have hq := hall q List.mem_cons_self
    have hrest := fun x hx => hall x (List.mem_cons_of_mem _ hx)
    rcases s3 with ⟨e1, e2⟩ | ⟨a1, a2⟩
    · refine ⟨fun _ => by rw [e1, e2], ?_⟩
      rw [e1, e2]; exact ih tm tk hs hnd hsub hrest hK
    · refine ⟨fun hv => cellR_other_noev hs a1 a2 (fun h => hv h.symm) (room_of_cap hnd hsub hq hK), ?_⟩
      apply ih _ _ s1
      · rw [a1.keys]; exact LRU.accKeys_nodup hnd
      · rw [a1.keys]; exact LRU.accKeys_subset hq hsub
      · exact hrest
      · rw [a1.size]; exact hK

theorem forVal_reqsOf_run (r : Rule) (v : Val) : ∀ (qs : List Req) (tm tk : LRU),
    forVal v (runReject r tm tk (reqsOf v qs)) = runReject r tm tk (reqsOf v qs) := by
  intro qs tm tk
  unfold forVal
  rw [List.filter_eq_self]
  intro p hp
  have : ∀ (l : List Req) (tm tk : LRU), (∀ q ∈ l, q.v = v) → ∀ p ∈ runReject r tm tk l, p.1.v = v := by
    intro l
    induction l with
    | nil => intro _ _ _ p hp; simp [runReject] at hp
    | cons q l ih =>
      intro tm tk hall p hp
      simp only [runReject, List.mem_cons] at hp
      rcases hp with rfl | hp
      · exact hall q List.mem_cons_self
      · exact ih _ _ (fun x hx => hall x (List.mem_cons_of_mem _ hx)) p hp
  have h := this (reqsOf v qs) tm tk (fun q hq => by simpa [reqsOf] using (List.mem_filter.mp hq).2) p hp
  simpa using h

/-! ### throttling mode -/

def KeepsT (r : Rule) (v : Val) : LRU → List Req → Prop
  | _, [] => True
  | tm, q :: qs =>
    (q.v ≠ v → (throttleCheck r tm q.t q.v q.b).1.find v = tm.find v) ∧ KeepsT r v (throttleCheck r tm q.t q.v q.b).1 qs

theorem throttle_size (r : Rule) (tm : LRU) (hp : 0 < tm.size) (now : Int) (u : Val) (b : Int) :
    (throttleCheck r tm now u b).1.size = tm.size := by
  rcases (throttleCheck_spec r tm hp now u b).2 with e | a
  · rw [e]
  · exact a.size

theorem sim_throttle (r : Rule) (v : Val) :
    ∀ (qs : List Req) (tm : LRU), 0 < tm.size → KeepsT r v tm qs →
      forVal v (runThrottle r tm qs) = svRunThrottle (tokenCount r v) r.D r.mq (tm.find v) (reqsOf v qs) := by
  intro qs
  induction qs with
  | nil => intro _ _ _; rfl
  | cons q qs ih =>
    intro tm hp hk
    obtain ⟨k1, k2⟩ := hk
    obtain ⟨s2, _⟩ := throttleCheck_spec r tm hp q.t q.v q.b
    have ih' := ih _ (by rw [throttle_size r tm hp]; exact hp) k2
    by_cases hv : q.v = v
    · have e1 : forVal v (runThrottle r tm (q :: qs)) =
          (q, (throttleCheck r tm q.t q.v q.b).2) :: forVal v (runThrottle r (throttleCheck r tm q.t q.v q.b).1 qs) := by
        simp only [runThrottle, forVal, List.filter_cons, hv, decide_true, if_true]
      have e2 : reqsOf v (q :: qs) = q :: reqsOf v qs := by
        simp only [reqsOf, List.filter_cons, hv, decide_true, if_true]
      rw [e1, e2, ih']
      simp only [svRunThrottle]
      rw [hv] at s2
      have s2a := congrArg Prod.fst s2
      have s2b := congrArg Prod.snd s2
      simp only at s2a s2b
      rw [← s2a, ← s2b, hv]
    · have e1 : forVal v (runThrottle r tm (q :: qs)) = forVal v (runThrottle r (throttleCheck r tm q.t q.v q.b).1 qs) := by
        simp only [runThrottle, forVal, List.filter_cons, hv, decide_false, Bool.false_eq_true, if_false]
      have e2 : reqsOf v (q :: qs) = reqsOf v qs := by
        simp only [reqsOf, List.filter_cons, hv, decide_false, Bool.false_eq_true, if_false]
      rw [e1, e2, ih', k1 hv]

theorem keepsT_of_resident (r : Rule) (v : Val) : ∀ (qs : List Req) (tm : LRU), 0 < tm.size →
    ResidentT r v tm qs → KeepsT r v tm qs := by
  intro qs
  induction qs with
  | nil => intro _ _ _; trivial
  | cons q qs ih =>
    intro tm hp hr
    obtain ⟨r1, r2⟩ := hr
    refine ⟨fun hv => ?_, ih _ (by rw [throttle_size r tm hp]; exact hp) r2⟩
    rcases (throttleCheck_spec r tm hp q.t q.v q.b).2 with e | a
    · rw [e]
    · cases h1 : (throttleCheck r tm q.t q.v q.b).1.find v with
      | none => exact absurd h1 r1
      | some x => exact (a.other v (fun h => hv h.symm) x h1).symm

theorem keepsT_of_notEvicted (r : Rule) (v : Val) : ∀ (qs : List Req) (tm : LRU), 0 < tm.size →
    NotEvictedT r v tm qs → KeepsT r v tm qs := by
  intro qs
  induction qs with
  | nil => intro _ _ _; trivial
  | cons q qs ih =>
    intro tm hp hr
    obtain ⟨r1, r2⟩ := hr
    refine ⟨fun hv => ?_, ih _ (by rw [throttle_size r tm hp]; exact hp) r2⟩
    rcases (throttleCheck_spec r tm hp q.t q.v q.b).2 with e | a
    · rw [e]
    · cases h1 : (throttleCheck r tm q.t q.v q.b).1.find v with
      | none =>
        by_cases hin : tm.find v = none
        · exact hin.symm
        · exact absurd h1 (r1 hin)
      | some x => exact (a.other v (fun h => hv h.symm) x h1).symm

theorem keepsT_of_cap (r : Rule) (v : Val) (K : List Val) : ∀ (qs : List Req) (tm : LRU), 0 < tm.size →
    tm.keys.Nodup → tm.keys ⊆ K → (∀ q ∈ qs, q.v ∈ K) → K.length ≤ tm.size → KeepsT r v tm qs := by
  intro qs
  induction qs with
  | nil => intro _ _ _ _ _ _; trivial
  | cons q qs ih =>
    intro tm hp hnd hsub hall hK
    have hq := hall q List.mem_cons_self
    have hrest := fun x hx => hall x (List.mem_cons_of_mem _ hx)
    rcases (throttleCheck_spec r tm hp q.t q.v q.b).2 with e | a
    · refine ⟨fun _ => by rw [e], ?_⟩
      rw [e]; exact ih tm hp hnd hsub hrest hK
    · refine ⟨fun hv => a.noev (room_of_cap hnd hsub hq hK) v (fun h => hv h.symm), ?_⟩
      apply ih _ (by rw [a.size]; exact hp)
      · rw [a.keys]; exact LRU.accKeys_nodup hnd
      · rw [a.keys]; exact LRU.accKeys_subset hq hsub
      · exact hrest
      · rw [a.size]; exact hK

theorem forVal_reqsOf_runT (r : Rule) (v : Val) : ∀ (qs : List Req) (tm : LRU),
    forVal v (runThrottle r tm (reqsOf v qs)) = runThrottle r tm (reqsOf v qs) := by
  intro qs tm
  unfold forVal
  rw [List.filter_eq_self]
  intro p hp
  have : ∀ (l : List Req) (tm : LRU), (∀ q ∈ l, q.v = v) → ∀ p ∈ runThrottle r tm l, p.1.v = v := by
    intro l
    induction l with
    | nil => intro _ _ p hp; simp [runThrottle] at hp
    | cons q l ih =>
      intro tm hall p hp
      simp only [runThrottle, List.mem_cons] at hp
      rcases hp with rfl | hp
      · exact hall q List.mem_cons_self
      · exact ih _ (fun x hx => hall x (List.mem_cons_of_mem _ hx)) p hp
  have h := this (reqsOf v qs) tm (fun q hq => by simpa [reqsOf] using (List.mem_filter.mp hq).2) p hp
  simpa using h

theorem reqsOf_idem (v : Val) (qs : List Req) : reqsOf v (reqsOf v qs) = reqsOf v qs := by
  unfold reqsOf; rw [List.filter_filter]; simp

theorem reqsOf_vals_subset (v : Val) (qs : List Req) {K : List Val} (h : ∀ q ∈ qs, q.v ∈ K) :
    ∀ q ∈ reqsOf v qs, q.v ∈ K := fun q hq => h q (List.mem_filter.mp hq).1

/-! ### rule reload: a statistic is never handed to two rules of the new generation -/

theorem not_mem_eraseIdx_of_nodup {l : List Nat} (h : l.Nodup) {k : Nat} {x : Nat} (hk : l[k]? = some x) :
    x ∉ l.eraseIdx k := by
  intro hm
  obtain ⟨i, hik, hi⟩ := List.mem_eraseIdx_iff_getElem?.mp hm
  have hkl : k < l.length := by
    by_contra hn
    rw [List.getElem?_eq_none (by omega)] at hk; cases hk
  exact hik ((List.getElem?_inj hkl h).mp (by rw [hk, hi])).symm

/-- the old controllers a plan draws on -/
def planOlds (pl : List (Nat × Rule × Origin)) : List Nat := pl.filterMap fun x => x.2.2.old?

theorem planOlds_cons (x : Nat × Rule × Origin) (pl : List (Nat × Rule × Origin)) :
    planOlds (x :: pl) = match x.2.2.old? with | some g => g :: planOlds pl | none => planOlds pl := by
  unfold planOlds
  rw [List.filterMap_cons]
  cases x.2.2.old? <;> rfl

theorem gid_of_findIdx {old : List (Nat × Rule)} {p : Nat × Rule → Bool} {k : Nat} (h : old.findIdx? p = some k) :
    (old.map Prod.fst)[k]? = some ((old[k]?.map (·.1)).getD 0) := by
  obtain ⟨hk, _, _⟩ := List.findIdx?_eq_some_iff_getElem.mp h
  rw [List.getElem?_map, List.getElem?_eq_getElem hk]; rfl

/-- every old controller a plan draws on is one of the candidates, and none is drawn on twice -/
theorem plan_olds (base : Nat) : ∀ (rs : List Rule) (old : List (Nat × Rule)) (i : Nat), (old.map Prod.fst).Nodup →
    (planOlds (planFrom base old i rs)).Nodup ∧ ∀ g ∈ planOlds (planFrom base old i rs), g ∈ old.map Prod.fst := by
  intro rs
  induction rs with
  | nil => intro old i _; simp [planFrom, planOlds]
  | cons r rs ih =>
    intro old i hnd
    unfold planFrom
    by_cases hv : (!validRule r) = true
    · rw [if_pos hv]; exact ih old (i + 1) hnd
    · rw [if_neg hv]
      have step : ∀ (k : Nat) (p : Nat × Rule → Bool) (o : Nat → Origin) (ho : ∀ g, (o g).old? = some g),
          old.findIdx? p = some k →
          (planOlds ((base + i, r, o ((old[k]?.map (·.1)).getD 0)) :: planFrom base (old.eraseIdx k) (i + 1) rs)).Nodup ∧
          ∀ g ∈ planOlds ((base + i, r, o ((old[k]?.map (·.1)).getD 0)) :: planFrom base (old.eraseIdx k) (i + 1) rs),
            g ∈ old.map Prod.fst := by
        intro k p o ho hf
        have hg := gid_of_findIdx hf
        have hnd' : ((old.eraseIdx k).map Prod.fst).Nodup := by
          rw [← List.eraseIdx_map]; exact hnd.eraseIdx k
        obtain ⟨i1, i2⟩ := ih (old.eraseIdx k) (i + 1) hnd'
        rw [planOlds_cons]
        simp only [ho]
        constructor
        · refine List.nodup_cons.mpr ⟨?_, i1⟩
          intro hm
          have := i2 _ hm
          rw [← List.eraseIdx_map] at this
          exact not_mem_eraseIdx_of_nodup hnd hg this
        · intro g hgm
          rcases List.mem_cons.mp hgm with rfl | hgm
          · exact List.mem_of_getElem? hg
          · have := i2 g hgm
            rw [← List.eraseIdx_map] at this
            exact List.mem_of_mem_eraseIdx this
      cases h1 : old.findIdx? (fun o => ruleEquals o.2 r) with
      | some k => exact step k _ Origin.same (fun _ => rfl) h1
      | none =>
        cases h2 : old.findIdx? (fun o => statReusable o.2 r) with
        | some k => exact step k _ Origin.stat (fun _ => rfl) h2
        | none =>
          dsimp only
          rw [planOlds_cons]
          exact ih old (i + 1) hnd

end Sentinel.Hot
