import Mathlib.Tactic
import Sentinel.Model.LeapArrayRace
import Sentinel.Lemmas.LeapArrayRaceTerm
/-!
# "An amount is only ever credited to the bucket its timestamp selects" (C09, `n ≥ 2`, stall condition)

`OwnInv`: every thread that holds a bucket handed out by `currentBucketOfTime` (or is past the store of
the start inside the reset section) sees the start of **its own** bucket in its slot.  It is preserved by
every step taken from a configuration satisfying the stall condition `StallOk` (no operation in progress
is more than one bucket length behind the clock): two operations in progress at the same moment whose
timestamps select the same slot then select the same bucket, so nobody re-labels a slot under a holder.
-/
namespace Sentinel.LAR
open Sentinel.LA (cbs)

/-- program counters at which the thread relies on its slot carrying the start of its own bucket -/
def Pc.holds : Pc → Bool
  | .resetCnt _ | .resetMinRt | .resetMaxConc | .unlock
  | .mbAdd | .minrtLoad | .minrtStore | .maxconcLoad | .maxconcStore => true
  | _ => false

def frameOwn (sh : Shared) (f : Frame) : Prop :=
  f.pc.holds = true → sh.start ((f.now / sh.L) % sh.n) = cbs sh.L f.now

/-- the stall condition at a configuration: no operation in progress started more than one bucket length ago -/
def StallOk (c : Cfg) : Prop :=
  ∀ t ∈ c.th, ∀ f, t.cur = some f → c.clock ≤ f.now + c.sh.L

structure OwnInv (c : Cfg) : Prop where
  own : ∀ t ∈ c.th, ∀ f, t.cur = some f → frameOwn c.sh f
  nowLe : ∀ t ∈ c.th, ∀ f, t.cur = some f → f.now ≤ c.clock

/-! ## arithmetic: same slot, different bucket ⇒ more than one bucket length apart -/

theorem same_slot_far (n L a b : Nat) (hn : 2 ≤ n) (hL : 0 < L) (hs : (a / L) % n = (b / L) % n)
    (hd : cbs L a ≠ cbs L b) : a + L < b ∨ b + L < a := by
  have ha := Nat.div_add_mod a L
  have hb := Nat.div_add_mod b L
  have hra := Nat.mod_lt a hL
  have hrb := Nat.mod_lt b hL
  have hca : cbs L a = L * (a / L) := by unfold cbs; omega
  have hcb : cbs L b = L * (b / L) := by unfold cbs; omega
  have hq : a / L ≠ b / L := by
    intro h; apply hd; rw [hca, hcb, h]
  have hqa := Nat.div_add_mod (a / L) n
  have hqb := Nat.div_add_mod (b / L) n
  rcases Nat.lt_or_gt_of_ne hq with h | h
  · left
    have hx : (a / L) / n < (b / L) / n := by
      by_contra hc
      have : (b / L) / n ≤ (a / L) / n := by omega
      have := Nat.mul_le_mul_left n this
      omega
    have h1 : n * ((a / L) / n + 1) ≤ n * ((b / L) / n) := Nat.mul_le_mul_left n hx
    have h2 : a / L + 2 ≤ b / L := by rw [Nat.mul_add] at h1; omega
    have h3 : L * (a / L + 2) ≤ L * (b / L) := Nat.mul_le_mul_left L h2
    rw [Nat.mul_add] at h3
    omega
  · right
    have hx : (b / L) / n < (a / L) / n := by
      by_contra hc
      have : (a / L) / n ≤ (b / L) / n := by omega
      have := Nat.mul_le_mul_left n this
      omega
    have h1 : n * ((b / L) / n + 1) ≤ n * ((a / L) / n) := Nat.mul_le_mul_left n hx
    have h2 : b / L + 2 ≤ a / L := by rw [Nat.mul_add] at h1; omega
    have h3 : L * (b / L + 2) ≤ L * (a / L) := Nat.mul_le_mul_left L h2
    rw [Nat.mul_add] at h3
    omega

/-! ## effect of a step on the start words -/

theorem apply_L (sh : Shared) (a : Act) : (sh.apply a).L = sh.L := by cases a <;> rfl

def Act.isSetStart : Act → Bool | .setStart _ _ => true | _ => false

theorem apply_start_other (sh : Shared) (a : Act) (h : a.isSetStart = false) : (sh.apply a).start = sh.start := by
  cases a <;> first | rfl | simp [Act.isSetStart] at h

/-- the only step that stores a start stores the start of the thread's own bucket into its own slot -/
theorem decide_setStart (sh : Shared) (op : OpSpec) (now : Nat) (pc : Pc) :
    (decideStep sh op now pc).1 = .setStart ((now / sh.L) % sh.n) (cbs sh.L now)
    ∨ (decideStep sh op now pc).1.isSetStart = false := by
  cases pc <;> simp only [decideStep]
  case resetStart => left; trivial
  case curLoad => right; split_ifs <;> rfl
  case tryLock => right; split_ifs <;> rfl
  case resetCnt k => right; rfl
  case mbAdd => right; cases op <;> rfl
  case minrtLoad => right; cases op <;> rfl
  case minrtStore => right; cases op <;> rfl
  case maxconcLoad => right; cases op <;> rfl
  case maxconcStore => right; cases op <;> rfl
  case mbGet rem acc => right; cases rem <;> rfl
  all_goals right; rfl

theorem afterCur_false_holds (sh : Shared) (op : OpSpec) (p : Pc) (h : afterCur sh op false = .pc p) : p.holds = false := by
  cases op
  case add => simp [afterCur] at h
  case conc => simp [afterCur] at h
  case count =>
    simp only [afterCur, firstVal] at h
    split_ifs at h <;> cases h
    rfl
  case viewsum =>
    simp only [afterCur, firstVal] at h
    split_ifs at h <;> cases h
    rfl

theorem afterScan_holds (col : List Nat) (p : Pc) (h : afterScan col = .pc p) : p.holds = false := by
  cases col with
  | nil => simp [afterScan] at h
  | cons a r => simp [afterScan] at h; subst h; rfl

/-- the stepping thread: whenever it arrives at (or stays in) a `holds` state, its slot carries its own start -/
theorem decide_own (sh : Shared) (op : OpSpec) (now : Nat) (pc : Pc) (hn : 2 ≤ sh.n)
    (h : pc.holds = true → sh.start ((now / sh.L) % sh.n) = cbs sh.L now) :
    ∀ p, (decideStep sh op now pc).2 = .pc p → p.holds = true →
      (sh.apply (decideStep sh op now pc).1).start ((now / sh.L) % sh.n) = cbs sh.L now := by
  intro p hp hh
  cases pc <;> simp only [decideStep] at hp ⊢
  case curLoad =>
    split_ifs at hp ⊢ with h1 h2 h3
    · exact h1.symm
    · cases hp; simp [Pc.holds] at hh
    · omega
    · rw [afterCur_false_holds sh op p hp] at hh; cases hh
  case tryLock => split_ifs at hp <;> cases hp <;> simp [Pc.holds] at hh
  case spin => cases hp; simp [Pc.holds] at hh
  case resetStart => simp [Shared.apply, upd]
  case resetCnt k => exact h rfl
  case resetMinRt => exact h rfl
  case resetMaxConc => exact h rfl
  case unlock => exact h rfl
  case mbAdd => cases op <;> simp only [] at hp ⊢ <;> first | exact h rfl | cases hp
  case minrtLoad => cases op <;> simp only [] at hp ⊢ <;> first | exact h rfl | cases hp
  case minrtStore => cases op <;> simp only [] at hp ⊢ <;> cases hp
  case maxconcLoad => cases op <;> simp only [] at hp ⊢ <;> first | exact h rfl | cases hp
  case maxconcStore => cases op <;> simp only [] at hp ⊢ <;> cases hp
  case valGet j col => cases hp; simp [Pc.holds] at hh
  case depLoad j col =>
    by_cases hn' : j + 1 < sh.n
    · rw [if_pos hn'] at hp; cases hp; simp [Pc.holds] at hh
    · rw [if_neg hn'] at hp
      rw [afterScan_holds _ p hp] at hh; cases hh
  case mbGet rem acc =>
    cases rem with
    | nil => simp at hp
    | cons j r =>
      cases r with
      | nil => simp at hp
      | cons j2 r2 => simp at hp; subst hp; simp [Pc.holds] at hh

theorem startNext_frame (sh : Shared) (clock : Nat) (prog : List OpSpec) (res : List Res) :
    ∀ f, (startNext sh clock prog res).cur = some f → f.now = clock ∧ f.pc.holds = false := by
  induction prog generalizing res with
  | nil => intro f hf; simp [startNext] at hf
  | cons op rest ih =>
    intro f hf
    simp only [startNext] at hf
    split_ifs at hf with hc
    · exact ih _ f hf
    · cases hfp : firstPc sh op with
      | fin r => rw [hfp] at hf; exact ih _ f hf
      | pc p =>
        rw [hfp] at hf
        simp at hf
        subst hf
        refine ⟨rfl, ?_⟩
        cases op <;> simp only [firstPc, firstVal] at hfp <;> (try split_ifs at hfp) <;> cases hfp <;> rfl

theorem apply_start_set (sh : Shared) (i s j : Nat) :
    (sh.apply (.setStart i s)).start j = if j = i then s else sh.start j := by
  simp [Shared.apply, upd]

/-- one step from a configuration satisfying the stall condition keeps `OwnInv` -/
theorem exec_own (c : Cfg) (e : Entry) (inv : OwnInv c) (hst : StallOk c) (hn : 2 ≤ c.sh.n) (hL : 0 < c.sh.L) :
    OwnInv (c.exec e) := by
  cases e with
  | tick d =>
    refine ⟨inv.own, fun t ht f hf => ?_⟩
    have := inv.nowLe t ht f hf
    simp only [Cfg.exec]; omega
  | step i =>
    simp only [Cfg.exec]
    cases hth : c.th[i]? with
    | none => exact inv
    | some t =>
      simp only []
      have hmem : t ∈ c.th := List.mem_of_getElem? hth
      cases hcur : t.cur with
      | none =>
        rw [stepTh_none _ _ _ hcur]
        refine ⟨fun u hu g hg => ?_, fun u hu g hg => ?_⟩
        · rcases List.mem_or_eq_of_mem_set hu with hu | rfl
          · exact inv.own u hu g hg
          · intro hh; rw [(startNext_frame _ _ _ _ g hg).2] at hh; cases hh
        · rcases List.mem_or_eq_of_mem_set hu with hu | rfl
          · exact inv.nowLe u hu g hg
          · rw [(startNext_frame _ _ _ _ g hg).1]
      | some f =>
        rw [stepTh_some _ _ _ f hcur]
        simp only []
        have hown := inv.own t hmem f hcur
        refine ⟨fun u hu g hg => ?_, fun u hu g hg => ?_⟩
        · rcases List.mem_or_eq_of_mem_set hu with hu | rfl
          · -- another thread: its slot is not re-labelled under it
            intro hh
            have hold := inv.own u hu g hg hh
            rw [apply_n, apply_L]
            rcases decide_setStart c.sh f.op f.now f.pc with ha | ha
            · rw [ha, apply_start_set]
              split_ifs with hs
              · by_contra hne
                have hfar := same_slot_far c.sh.n c.sh.L f.now g.now hn hL hs.symm hne
                have h1 := hst t hmem f hcur
                have h2 := hst u hu g hg
                have h3 := inv.nowLe t hmem f hcur
                have h4 := inv.nowLe u hu g hg
                omega
              · exact hold
            · rw [apply_start_other _ _ ha]; exact hold
          · -- the stepping thread
            cases hnx : (decideStep c.sh f.op f.now f.pc).2 with
            | pc p =>
              rw [hnx] at hg
              simp only [adv] at hg
              cases hg
              intro hh
              rw [apply_n, apply_L]
              exact decide_own c.sh f.op f.now f.pc hn hown p hnx hh
            | fin r =>
              rw [hnx] at hg
              simp only [adv] at hg
              intro hh; rw [(startNext_frame _ _ _ _ g hg).2] at hh; cases hh
        · rcases List.mem_or_eq_of_mem_set hu with hu | rfl
          · exact inv.nowLe u hu g hg
          · cases hnx : (decideStep c.sh f.op f.now f.pc).2 with
            | pc p =>
              rw [hnx] at hg
              simp only [adv] at hg
              cases hg
              exact inv.nowLe t hmem f hcur
            | fin r =>
              rw [hnx] at hg
              simp only [adv] at hg
              rw [(startNext_frame _ _ _ _ g hg).1]

/-- the stall condition holds at every configuration a step is taken from -/
def StallRun (c : Cfg) : List Entry → Prop
  | [] => True
  | e :: r => StallOk c ∧ StallRun (c.exec e) r

theorem exec_n (c : Cfg) (e : Entry) : (c.exec e).sh.n = c.sh.n := by
  cases e with
  | tick d => rfl
  | step i =>
    simp only [Cfg.exec]
    cases c.th[i]? with
    | none => rfl
    | some t =>
      simp only []
      cases hcur : t.cur with
      | none => rw [stepTh_none _ _ _ hcur]
      | some f => rw [stepTh_some _ _ _ f hcur]; exact apply_n _ _

theorem exec_L (c : Cfg) (e : Entry) : (c.exec e).sh.L = c.sh.L := by
  cases e with
  | tick d => rfl
  | step i =>
    simp only [Cfg.exec]
    cases c.th[i]? with
    | none => rfl
    | some t =>
      simp only []
      cases hcur : t.cur with
      | none => rw [stepTh_none _ _ _ hcur]
      | some f => rw [stepTh_some _ _ _ f hcur]; exact apply_L _ _

theorem run_own (c : Cfg) (s : List Entry) (inv : OwnInv c) (hn : 2 ≤ c.sh.n) (hL : 0 < c.sh.L)
    (hst : StallRun c s) : OwnInv (run c s) := by
  induction s generalizing c with
  | nil => exact inv
  | cons e r ih =>
    exact ih (c.exec e) (exec_own c e inv hst.1 hn hL) (by rw [exec_n]; exact hn) (by rw [exec_L]; exact hL) hst.2

theorem run_n (c : Cfg) (s : List Entry) : (run c s).sh.n = c.sh.n := by
  induction s generalizing c with
  | nil => rfl
  | cons e r ih => simp only [run]; rw [ih, exec_n]

theorem run_L (c : Cfg) (s : List Entry) : (run c s).sh.L = c.sh.L := by
  induction s generalizing c with
  | nil => rfl
  | cons e r ih => simp only [run]; rw [ih, exec_L]

theorem own_init (sh : Shared) (clock : Nat) (progs : List (List OpSpec)) :
    OwnInv { sh := sh, clock := clock, th := progs.map mkThread } := by
  refine ⟨fun t ht f hf => ?_, fun t ht f hf => ?_⟩ <;>
  · simp only [List.mem_map] at ht
    obtain ⟨p, _, rfl⟩ := ht
    simp [mkThread] at hf

/-! ## executable form of the stall condition (for examples and the driver) -/

def stallOkB (c : Cfg) : Bool :=
  c.th.all fun t => match t.cur with
    | some f => decide (c.clock ≤ f.now + c.sh.L)
    | none => true

def stallRunB (c : Cfg) : List Entry → Bool
  | [] => true
  | e :: r => stallOkB c && stallRunB (c.exec e) r

theorem stallOkB_sound (c : Cfg) (h : stallOkB c = true) : StallOk c := by
  intro t ht f hf
  have := (List.all_eq_true.mp h) t ht
  rw [hf] at this
  simpa using this

theorem stallRunB_sound (c : Cfg) (s : List Entry) (h : stallRunB c s = true) : StallRun c s := by
  induction s generalizing c with
  | nil => trivial
  | cons e r ih =>
    simp only [stallRunB, Bool.and_eq_true] at h
    exact ⟨stallOkB_sound c h.1, ih _ h.2⟩

end Sentinel.LAR
