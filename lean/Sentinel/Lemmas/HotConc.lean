import Mathlib.Tactic
import Sentinel.Model.HotConc
/-! Helper lemmas for C06: the LRU counter cache, one controller, the controller list. -/
namespace Sentinel.HotConc

/-! ## cache -/

theorem lookup_filter_ne (c : Cache) (v w : Val) (h : w ≠ v) :
    (c.filter (fun p => !(p.1 == v))).lookup w = c.lookup w := by
  induction c with
  | nil => rfl
  | cons p c ih =>
    obtain ⟨k, n⟩ := p
    by_cases hk : k = v
    · subst hk
      have h1 : (w == k) = false := by simpa using h
      rw [List.filter_cons]
      simp only [beq_self_eq_true, Bool.not_true, Bool.false_eq_true, if_false, List.lookup_cons, h1]
      exact ih
    · have h2 : (k == v) = false := by simpa using hk
      rw [List.filter_cons]
      simp only [h2, Bool.not_false, if_true, List.lookup_cons]
      rw [ih]

theorem lookup_touch (c : Cache) (v w : Val) (n : Int) :
    (touch c v n).lookup w = if w = v then some n else c.lookup w := by
  unfold touch
  by_cases h : w = v
  · subst h; simp [List.lookup_cons]
  · have h1 : (w == v) = false := by simpa using h
    simp only [List.lookup_cons, h1, h, if_false]
    exact lookup_filter_ne c v w h

theorem cellOf_touch (c : Cache) (v w : Val) (n : Int) :
    cellOf (touch c v n) w = if w = v then n else cellOf c w := by
  unfold cellOf
  rw [lookup_touch]
  split <;> rfl

/-- `AddIfAbsent` that does not evict leaves every counter as it was … -/
theorem cellOf_addIfAbsent (cap : Nat) (c : Cache) (v w : Val) (h : (addIfAbsent cap c v).2.2 = false) :
    cellOf (addIfAbsent cap c v).1 w = cellOf c w := by
  unfold addIfAbsent at h ⊢
  cases hl : c.lookup v with
  | some n =>
    simp only [hl]
    rw [cellOf_touch]
    split
    · next hw => subst hw; simp [cellOf, hl]
    · rfl
  | none =>
    simp only [hl] at h ⊢
    split at h
    · simp at h
    · rename_i hcap
      simp only [hcap, if_false]
      unfold cellOf
      by_cases hw : w = v
      · subst hw; simp [List.lookup, hl]
      · have : (w == v) = false := by simpa using hw
        simp [List.lookup, this]

/-- … and makes sure the value has a cell -/
theorem lookup_addIfAbsent (cap : Nat) (c : Cache) (v : Val) (h : (addIfAbsent cap c v).2.2 = false) :
    ((addIfAbsent cap c v).1.lookup v).isSome = true := by
  unfold addIfAbsent at h ⊢
  cases hl : c.lookup v with
  | some n => simp [hl, lookup_touch]
  | none =>
    simp only [hl] at h ⊢
    split at h
    · simp at h
    · rename_i hcap
      simp only [hcap, if_false]
      simp [List.lookup_cons]

/-- the prior value reported by `AddIfAbsent` is the cell's content -/
theorem addIfAbsent_prior (cap : Nat) (c : Cache) (v : Val) : (addIfAbsent cap c v).2.1 = c.lookup v := by
  unfold addIfAbsent
  cases hl : c.lookup v with
  | some n => simp
  | none => simp only; split <;> rfl

theorem cellOf_getAdd (c : Cache) (v w : Val) (d : Int) (h : (c.lookup v).isSome = true) :
    cellOf (getAdd c v d) w = if w = v then cellOf c v + d else cellOf c w := by
  unfold getAdd
  cases hl : c.lookup v with
  | none => simp [hl] at h
  | some n =>
    simp only [cellOf_touch]
    split
    · simp [cellOf, hl]
    · rfl

theorem lookup_getAdd_isSome (c : Cache) (v w : Val) (d : Int) (h : (c.lookup w).isSome = true) :
    ((getAdd c v d).lookup w).isSome = true := by
  unfold getAdd
  cases hl : c.lookup v with
  | none => simpa using h
  | some n =>
    simp only [lookup_touch]
    split
    · rfl
    · exact h

/-! ## counting live entries -/

theorem countP_eraseP_find {α : Type} (p q : α → Bool) (l : List α) (e : α) (h : l.find? q = some e) :
    (l.eraseP q).countP p + (if p e then 1 else 0) = l.countP p := by
  induction l with
  | nil => simp at h
  | cons a l ih =>
    by_cases hq : q a = true
    · have : a = e := by simpa [List.find?, hq] using h
      subst this
      simp [List.eraseP, hq, List.countP_cons]
    · have hq' : q a = false := by simpa using hq
      have h' : l.find? q = some e := by simpa [List.find?, hq'] using h
      have := ih h'
      simp only [List.eraseP_cons, hq', cond_false, List.countP_cons]
      omega

theorem find_mem {α : Type} (q : α → Bool) (l : List α) (e : α) (h : l.find? q = some e) : e ∈ l :=
  List.mem_of_find?_eq_some h

end Sentinel.HotConc

namespace Sentinel.HotConc

/-! ## one controller -/

/-- the ledger: live entries that rule `r` accounts to value `v` (entries on the rule's resource whose selected
    argument is `v`) -/
def liveOf (r : Rule) (v : Val) (L : List Live) : Nat :=
  L.countP (fun e => r.sel e.res e.args e.atts == v)

/-- controller invariant: as long as its cache has not evicted, every cell equals the ledger -/
def TcInv (t : Tc) (L : List Live) : Prop :=
  t.ev = false → ∀ v, v ≠ Val.nil → cellOf t.cache v = (liveOf t.rule v L : Int)

@[simp] theorem touchFor_rule (t : Tc) (res : String) (a : List Val) (at' : List (String × Val)) :
    (t.touchFor res a at').rule = t.rule := by
  unfold Tc.touchFor; dsimp only; split <;> rfl

@[simp] theorem bump_rule (t : Tc) (res : String) (a : List Val) (at' : List (String × Val)) (d : Int) :
    (t.bump res a at' d).rule = t.rule := by
  unfold Tc.bump; dsimp only; split <;> rfl

@[simp] theorem bump_ev (t : Tc) (res : String) (a : List Val) (at' : List (String × Val)) (d : Int) :
    (t.bump res a at' d).ev = t.ev := by
  unfold Tc.bump; dsimp only; split <;> rfl

theorem touchFor_ev (t : Tc) (res : String) (a : List Val) (at' : List (String × Val))
    (h : (t.touchFor res a at').ev = false) : t.ev = false := by
  unfold Tc.touchFor at h; dsimp only at h
  split at h
  · exact h
  · simp only [Bool.or_eq_false_iff] at h; exact h.1

theorem touchFor_cell (t : Tc) (res : String) (a : List Val) (at' : List (String × Val))
    (h : (t.touchFor res a at').ev = false) (w : Val) :
    cellOf (t.touchFor res a at').cache w = cellOf t.cache w := by
  unfold Tc.touchFor at h ⊢; dsimp only at h ⊢
  split
  · rfl
  · rename_i hv
    simp only [hv, if_false, Bool.or_eq_false_iff] at h
    exact cellOf_addIfAbsent _ _ _ _ h.2

theorem touchFor_present (t : Tc) (res : String) (a : List Val) (at' : List (String × Val))
    (h : (t.touchFor res a at').ev = false) (hv : t.sel res a at' ≠ Val.nil) :
    ((t.touchFor res a at').cache.lookup (t.sel res a at')).isSome = true := by
  unfold Tc.touchFor at h ⊢; dsimp only at h ⊢
  simp only [hv, if_false, Bool.or_eq_false_iff] at h ⊢
  exact lookup_addIfAbsent _ _ _ h.2

theorem touchFor_inv (t : Tc) (L : List Live) (res : String) (a : List Val) (at' : List (String × Val))
    (h : TcInv t L) : TcInv (t.touchFor res a at') L := by
  intro hev v hv
  rw [touchFor_cell t res a at' hev, touchFor_rule]
  exact h (touchFor_ev t res a at' hev) v hv

theorem liveOf_cons (r : Rule) (v : Val) (e : Live) (L : List Live) :
    liveOf r v (e :: L) = liveOf r v L + (if r.sel e.res e.args e.atts = v then 1 else 0) := by
  unfold liveOf
  rw [List.countP_cons]
  simp

/-- `OnEntryPassed`: the cell of the selected value goes up by one, like the ledger -/
theorem bump_pass (t : Tc) (L : List Live) (id res : String) (a : List Val) (at' : List (String × Val))
    (h : TcInv t L)
    (hp : t.ev = false → t.sel res a at' ≠ Val.nil → (t.cache.lookup (t.sel res a at')).isSome = true) :
    TcInv (t.bump res a at' 1) ({ id := id, res := res, args := a, atts := at' } :: L) := by
  intro hev v hv
  rw [bump_ev] at hev
  rw [bump_rule, liveOf_cons]
  have h0 := h hev v hv
  unfold Tc.bump; dsimp only
  by_cases hs : t.sel res a at' = Val.nil
  · have : t.rule.sel res a at' ≠ v := by
      intro hc; apply hv; rw [← hc]; exact hs
    simp [hs, this, h0]
  · simp only [hs, if_false]
    rw [cellOf_getAdd _ _ _ _ (hp hev hs)]
    by_cases hw : v = t.sel res a at'
    · subst hw
      have : t.rule.sel res a at' = t.sel res a at' := rfl
      simp [this, h0]
    · have : ¬ t.rule.sel res a at' = v := fun hc => hw hc.symm
      simp [hw, this, h0]

/-- `OnCompleted`: the cell of the value re-extracted from the entry goes down by one, like the ledger -/
theorem bump_exit (t : Tc) (L : List Live) (q : Live → Bool) (e : Live) (h : TcInv t L)
    (hf : L.find? q = some e) :
    TcInv (t.bump e.res e.args e.atts (-1)) (L.eraseP q) := by
  intro hev v hv
  rw [bump_ev] at hev
  rw [bump_rule]
  have h0 := h hev v hv
  have hc := countP_eraseP_find (fun e => t.rule.sel e.res e.args e.atts == v) q L e hf
  have hmem := find_mem q L e hf
  unfold Tc.bump; dsimp only
  by_cases hs : t.sel e.res e.args e.atts = Val.nil
  · have hne : (t.rule.sel e.res e.args e.atts == v) = false := by
      have : t.rule.sel e.res e.args e.atts ≠ v := by
        intro hc; apply hv; rw [← hc]; exact hs
      simpa using this
    simp only [hs, if_true]
    simp only [hne, Bool.false_eq_true, if_false, Nat.add_zero] at hc
    unfold liveOf
    rw [hc]; exact h0
  · simp only [hs, if_false]
    -- the entry is alive, so the ledger for its value is at least one, so the cell exists
    have hpos : 0 < liveOf t.rule (t.sel e.res e.args e.atts) L := by
      unfold liveOf
      apply List.countP_pos_iff.mpr
      exact ⟨e, hmem, by simp [Tc.sel]⟩
    have hcell := h hev _ hs
    have hpres : (t.cache.lookup (t.sel e.res e.args e.atts)).isSome = true := by
      cases hl : t.cache.lookup (t.sel e.res e.args e.atts) with
      | some n => rfl
      | none =>
        unfold cellOf at hcell
        rw [hl] at hcell
        simp at hcell
        omega
    rw [cellOf_getAdd _ _ _ _ hpres]
    unfold liveOf at h0 hcell hpos ⊢
    by_cases hw : v = t.sel e.res e.args e.atts
    · subst hw
      have : (t.rule.sel e.res e.args e.atts == t.sel e.res e.args e.atts) = true := by simp [Tc.sel]
      simp only [this, if_true] at hc
      simp only [if_true]
      rw [h0]; omega
    · have : (t.rule.sel e.res e.args e.atts == v) = false := by
        have : t.rule.sel e.res e.args e.atts ≠ v := fun hc => hw hc.symm
        simpa using this
      simp only [this, Bool.false_eq_true, if_false, Nat.add_zero] at hc
      simp only [hw, if_false]
      rw [hc]; exact h0

/-! ## the controller list -/

theorem checkTcs_blocked (res : String) (a : List Val) (at' : List (String × Val)) (tcs : List Tc) :
    (checkTcs res a at' tcs).2 = tcs.any (fun t => t.violates res a at') := by
  induction tcs with
  | nil => rfl
  | cons t ts ih =>
    unfold checkTcs
    by_cases hv : t.violates res a at' = true
    · simp [hv]
    · simp only [hv, Bool.false_eq_true, if_false, List.any_cons, Bool.false_or]
      have : t.violates res a at' = false := by simpa using hv
      simp [this, ih]

theorem checkTcs_pass (res : String) (a : List Val) (at' : List (String × Val)) (tcs : List Tc)
    (h : (checkTcs res a at' tcs).2 = false) :
    (checkTcs res a at' tcs).1 = tcs.map (fun t => t.touchFor res a at') := by
  induction tcs with
  | nil => rfl
  | cons t ts ih =>
    unfold checkTcs at h ⊢
    by_cases hv : t.violates res a at' = true
    · simp [hv] at h
    · simp only [hv, Bool.false_eq_true, if_false] at h ⊢
      simp [ih h]

theorem checkTcs_mem (res : String) (a : List Val) (at' : List (String × Val)) (tcs : List Tc) (t' : Tc)
    (h : t' ∈ (checkTcs res a at' tcs).1) : ∃ t ∈ tcs, t' = t ∨ t' = t.touchFor res a at' := by
  induction tcs with
  | nil => simp [checkTcs] at h
  | cons t ts ih =>
    unfold checkTcs at h
    by_cases hv : t.violates res a at' = true
    · simp only [hv, if_true, List.mem_cons] at h
      rcases h with h | h
      · exact ⟨t, List.mem_cons_self .., Or.inr h⟩
      · exact ⟨t', List.mem_cons_of_mem _ h, Or.inl rfl⟩
    · simp only [hv, Bool.false_eq_true, if_false, List.mem_cons] at h
      rcases h with h | h
      · exact ⟨t, List.mem_cons_self .., Or.inr h⟩
      · obtain ⟨t0, hm, ht⟩ := ih h
        exact ⟨t0, List.mem_cons_of_mem _ hm, ht⟩

theorem checkTcs_rules (res : String) (a : List Val) (at' : List (String × Val)) (tcs : List Tc) :
    (checkTcs res a at' tcs).1.map (·.rule) = tcs.map (·.rule) := by
  induction tcs with
  | nil => rfl
  | cons t ts ih =>
    unfold checkTcs
    by_cases hv : t.violates res a at' = true
    · simp [hv]
    · simp only [hv, Bool.false_eq_true, if_false, List.map_cons, touchFor_rule, ih]

/-! ## the state invariant -/

/-- what one step may do to a controller: same rule; unless it evicts, no cell disappears -/
def Keeps (t t' : Tc) : Prop :=
  t'.rule = t.rule ∧ (t'.ev = false → t.ev = false ∧ ∀ w, (t.cache.lookup w).isSome = true → (t'.cache.lookup w).isSome = true)

theorem keeps_refl (t : Tc) : Keeps t t := ⟨rfl, fun h => ⟨h, fun _ hw => hw⟩⟩

theorem keeps_trans {t t' t'' : Tc} (h1 : Keeps t t') (h2 : Keeps t' t'') : Keeps t t'' :=
  ⟨h2.1.trans h1.1, fun h => ⟨(h1.2 (h2.2 h).1).1, fun w hw => (h2.2 h).2 w ((h1.2 (h2.2 h).1).2 w hw)⟩⟩

theorem lookup_addIfAbsent_keeps (cap : Nat) (c : Cache) (v w : Val) (h : (addIfAbsent cap c v).2.2 = false)
    (hw : (c.lookup w).isSome = true) : ((addIfAbsent cap c v).1.lookup w).isSome = true := by
  unfold addIfAbsent at h ⊢
  cases hl : c.lookup v with
  | some n =>
    simp only [hl, lookup_touch]
    split
    · rfl
    · exact hw
  | none =>
    simp only [hl] at h ⊢
    split at h
    · simp at h
    · rename_i hcap
      simp only [hcap, if_false, List.lookup_cons]
      split
      · rfl
      · exact hw

theorem keeps_touchFor (t : Tc) (res : String) (a : List Val) (at' : List (String × Val)) :
    Keeps t (t.touchFor res a at') := by
  refine ⟨touchFor_rule .., fun h => ⟨touchFor_ev t res a at' h, fun w hw => ?_⟩⟩
  unfold Tc.touchFor at h ⊢; dsimp only at h ⊢
  split
  · exact hw
  · rename_i hv
    simp only [hv, if_false, Bool.or_eq_false_iff] at h
    exact lookup_addIfAbsent_keeps _ _ _ _ h.2 hw

theorem keeps_bump (t : Tc) (res : String) (a : List Val) (at' : List (String × Val)) (d : Int) :
    Keeps t (t.bump res a at' d) := by
  refine ⟨bump_rule .., fun h => ⟨by rwa [bump_ev] at h, fun w hw => ?_⟩⟩
  unfold Tc.bump; dsimp only
  split
  · exact hw
  · exact lookup_getAdd_isSome _ _ _ _ hw

/-- a parked entry whose verdict is "pass" has a cell for its value in every controller that selects one -/
def PendOk (p : Pend) (tcs : List Tc) : Prop :=
  p.verdict = Res.pass → ∀ t ∈ tcs, t.ev = false → t.rule.sel p.res p.args p.atts ≠ Val.nil →
    (t.cache.lookup (t.rule.sel p.res p.args p.atts)).isSome = true

theorem pendOk_keeps (p : Pend) (tcs tcs' : List Tc) (h : PendOk p tcs)
    (hk : ∀ t' ∈ tcs', ∃ t ∈ tcs, Keeps t t') : PendOk p tcs' := by
  intro hv t' ht' hev hs
  obtain ⟨t, ht, hr, hk⟩ := hk t' ht'
  rw [hr] at hs ⊢
  exact (hk hev).2 _ (h hv t ht (hk hev).1 hs)

def Inv (s : St) : Prop := (∀ t ∈ s.tcs, TcInv t s.live) ∧ (∀ p ∈ s.pend, PendOk p s.tcs)

theorem inv_init (rules : List Rule) : Inv (init rules) := by
  refine ⟨?_, by simp [init, load]⟩
  intro t ht hev v hv
  simp only [init, load, List.mem_map] at ht
  obtain ⟨r, _, rfl⟩ := ht
  simp [cellOf, liveOf, init, load]

theorem checkTcs_keeps (res : String) (a : List Val) (at' : List (String × Val)) (tcs : List Tc) :
    ∀ t' ∈ (checkTcs res a at' tcs).1, ∃ t ∈ tcs, Keeps t t' := by
  intro t' ht'
  obtain ⟨t, hm, ht⟩ := checkTcs_mem res a at' tcs t' ht'
  rcases ht with rfl | rfl
  · exact ⟨_, hm, keeps_refl _⟩
  · exact ⟨_, hm, keeps_touchFor ..⟩

theorem checkTcs_tcInv (res : String) (a : List Val) (at' : List (String × Val)) (tcs : List Tc) (L : List Live)
    (h : ∀ t ∈ tcs, TcInv t L) : ∀ t' ∈ (checkTcs res a at' tcs).1, TcInv t' L := by
  intro t' ht'
  obtain ⟨t, hm, ht⟩ := checkTcs_mem res a at' tcs t' ht'
  rcases ht with rfl | rfl
  · exact h _ hm
  · exact touchFor_inv _ _ _ _ _ (h _ hm)

/-- after a passing check every controller that selects a value has a cell for it -/
theorem checkTcs_present (res : String) (a : List Val) (at' : List (String × Val)) (tcs : List Tc)
    (hb : (checkTcs res a at' tcs).2 = false) :
    ∀ t' ∈ (checkTcs res a at' tcs).1, t'.ev = false → t'.rule.sel res a at' ≠ Val.nil →
      (t'.cache.lookup (t'.rule.sel res a at')).isSome = true := by
  intro t' ht' hev hs
  simp only [checkTcs_pass res a at' tcs hb, List.mem_map] at ht'
  obtain ⟨t, _, rfl⟩ := ht'
  rw [touchFor_rule] at hs ⊢
  exact touchFor_present t res a at' hev hs

theorem inv_check (s : St) (id res : String) (a : List Val) (at' : List (String × Val)) (h : Inv s) :
    Inv (check s id res a at') := by
  unfold check
  split
  · refine ⟨h.1, ?_⟩
    intro p hp
    rcases List.mem_cons.mp hp with rfl | hp
    · intro hv; cases hv
    · exact h.2 p hp
  · dsimp only
    refine ⟨checkTcs_tcInv res a at' s.tcs s.live h.1, ?_⟩
    intro p hp
    rcases List.mem_cons.mp hp with rfl | hp
    · intro hv t' ht' hev hs
      by_cases hb : (checkTcs res a at' s.tcs).2 = true
      · simp [hb] at hv
      · exact checkTcs_present res a at' s.tcs (by simpa using hb) t' ht' hev hs
    · exact pendOk_keeps p _ _ (h.2 p hp) (checkTcs_keeps res a at' s.tcs)

theorem inv_entry (s : St) (id res : String) (a : List Val) (at' : List (String × Val)) (h : Inv s) :
    Inv (entry s id res a at').1 := by
  unfold entry
  split
  · exact h
  · dsimp only
    split
    · -- blocked by the hotspot slot: some caches were touched, nothing was counted
      exact ⟨checkTcs_tcInv res a at' s.tcs s.live h.1,
        fun p hp => pendOk_keeps p _ _ (h.2 p hp) (checkTcs_keeps res a at' s.tcs)⟩
    · rename_i hb
      have hb' : (checkTcs res a at' s.tcs).2 = false := by simpa using hb
      refine ⟨?_, ?_⟩
      · intro t' ht'
        simp only [List.mem_map] at ht'
        obtain ⟨t, hm, rfl⟩ := ht'
        apply bump_pass
        · exact checkTcs_tcInv res a at' s.tcs s.live h.1 t hm
        · intro hev hs
          exact checkTcs_present res a at' s.tcs hb' t hm hev hs
      · intro p hp
        apply pendOk_keeps p _ _ (h.2 p hp)
        intro t' ht'
        simp only [List.mem_map] at ht'
        obtain ⟨t1, hm, rfl⟩ := ht'
        obtain ⟨t, ht, hk⟩ := checkTcs_keeps res a at' s.tcs t1 hm
        exact ⟨t, ht, keeps_trans hk (keeps_bump ..)⟩

theorem inv_commit (s : St) (id : String) (h : Inv s) : Inv (commit s id).1 := by
  unfold commit
  split
  · exact h
  · rename_i p hf
    have hpm := find_mem _ _ _ hf
    split
    · rename_i hv
      refine ⟨?_, ?_⟩
      · intro t' ht'
        simp only [List.mem_map] at ht'
        obtain ⟨t, hm, rfl⟩ := ht'
        apply bump_pass _ _ _ _ _ _ (h.1 t hm)
        intro hev hs
        exact h.2 p hpm hv t hm hev hs
      · intro q hq
        apply pendOk_keeps q _ _ (h.2 q (List.mem_of_mem_eraseP hq))
        intro t' ht'
        simp only [List.mem_map] at ht'
        obtain ⟨t, hm, rfl⟩ := ht'
        exact ⟨t, hm, keeps_bump ..⟩
    · exact ⟨h.1, fun q hq => h.2 q (List.mem_of_mem_eraseP hq)⟩

theorem inv_exit (s : St) (id : String) (h : Inv s) : Inv (exit s id) := by
  unfold exit
  split
  · exact h
  · rename_i e hf
    refine ⟨?_, ?_⟩
    · intro t' ht'
      simp only [List.mem_map] at ht'
      obtain ⟨t, hm, rfl⟩ := ht'
      exact bump_exit t s.live _ e (h.1 _ hm) hf
    · intro q hq
      apply pendOk_keeps q _ _ (h.2 q hq)
      intro t' ht'
      simp only [List.mem_map] at ht'
      obtain ⟨t, hm, rfl⟩ := ht'
      exact ⟨t, hm, keeps_bump ..⟩

theorem inv_step (s : St) (op : Op) (h : Inv s) : Inv (step s op) := by
  cases op with
  | entry id res a at' =>
    simp only [step]; split
    · exact h
    · exact inv_entry s id res a at' h
  | exit id => exact inv_exit s id h
  | flowBlock res => exact h
  | check id res a at' =>
    simp only [step]; split
    · exact h
    · exact inv_check s id res a at' h
  | commit id => exact inv_commit s id h

theorem inv_run (s : St) (ops : List Op) (h : Inv s) : Inv (run s ops) := by
  induction ops generalizing s with
  | nil => exact h
  | cons op ops ih => exact ih _ (inv_step s op h)

end Sentinel.HotConc
