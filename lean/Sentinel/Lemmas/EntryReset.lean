import Sentinel.Lemmas.EntryPool
/-!
# `stat.ResetResourceNodeMap()` in the middle of a history

`InbEq s s'`: the two states agree on the inbound node, the recording log and on every entry's context except for
the attached resource node.  A node-map reset establishes it (`inbEq_reset`) and every op preserves it
(`inbEq_step`): whatever happens to the resource nodes, the **inbound account**, the contexts, the outcomes and the
recording slots' log are those of the history without the reset.
-/
namespace Sentinel.Entry
open Sentinel.LA

/-- a context without its node attachment -/
def noNode (c : Ctx) : Ctx := { c with hasNode := false }

structure InbEq (s s' : St) : Prop where
  inb : s.inb = s'.inb
  log : s.log = s'.log
  ents : ∀ id, (findE s.ents id).map noNode = (findE s'.ents id).map noNode

theorem findE_map_noNode (l : List (Nat × Ctx)) (id : Nat) :
    findE (l.map fun ic => (ic.1, { ic.2 with hasNode := false })) id = (findE l id).map noNode := by
  induction l with
  | nil => rfl
  | cons a r ih =>
    obtain ⟨i, c⟩ := a
    simp only [List.map_cons, findE]
    split_ifs
    · rfl
    · exact ih

theorem inbEq_reset (s : St) : InbEq s (resetNodes s) := by
  refine ⟨rfl, rfl, ?_⟩
  intro id
  simp only [resetNodes, findE_map_noNode]
  cases findE s.ents id <;> rfl

theorem inbEq_refl (s : St) : InbEq s s := ⟨rfl, rfl, fun _ => rfl⟩

/-- the inbound node and the log after a statistic callback depend only on the inbound node / log before, and on the
    context without its node attachment -/
theorem onStat_inb (s s' : St) (c c' : Ctx) (f : Node → Node) (h : s.inb = s'.inb) (hc : noNode c = noNode c') :
    (onStat s c f).inb = (onStat s' c' f).inb := by
  have he : c.e = c'.e := (congrArg Ctx.e hc : (noNode c).e = (noNode c').e)
  unfold onStat
  by_cases h1 : c.hasNode = true <;> by_cases h2 : c'.hasNode = true <;> by_cases h3 : c.e.inbound = true <;>
    simp [h1, h2, h3, ← he, h]

theorem onStat_log (s : St) (c : Ctx) (f : Node → Node) : (onStat s c f).log = s.log := by
  unfold onStat; split_ifs <;> rfl
theorem onStat_ents' (s : St) (c : Ctx) (f : Node → Node) : (onStat s c f).ents = s.ents := by
  unfold onStat; split_ifs <;> rfl

theorem noNode_fields {c c' : Ctx} (hc : noNode c = noNode c') :
    c.e = c'.e ∧ c.start = c'.start ∧ c.err = c'.err ∧ c.blocked = c'.blocked ∧ c.exited = c'.exited :=
  ⟨(congrArg Ctx.e hc : (noNode c).e = (noNode c').e), (congrArg Ctx.start hc : (noNode c).start = (noNode c').start),
   (congrArg Ctx.err hc : (noNode c).err = (noNode c').err), (congrArg Ctx.blocked hc : (noNode c).blocked = (noNode c').blocked),
   (congrArg Ctx.exited hc : (noNode c).exited = (noNode c').exited)⟩

theorem statPassed_inbLog (s s' : St) (c c' : Ctx) (t : Nat) (h1 : s.inb = s'.inb) (h2 : s.log = s'.log)
    (hc : noNode c = noNode c') :
    (statPassed s c t).inb = (statPassed s' c' t).inb ∧ (statPassed s c t).log = (statPassed s' c' t).log := by
  obtain ⟨e, st, er, hn, bl, ex⟩ := c
  obtain ⟨e', st', er', hn', bl', ex'⟩ := c'
  simp only [noNode, Ctx.mk.injEq] at hc
  obtain ⟨rfl, rfl, rfl, _, rfl, rfl⟩ := hc
  unfold statPassed onStat
  cases hs : e.chain.std <;> cases hn <;> cases hn' <;> cases hi : e.inbound <;> simp [h1, h2]

theorem statBlocked_inbLog (s s' : St) (c c' : Ctx) (t : Nat) (h1 : s.inb = s'.inb) (h2 : s.log = s'.log)
    (hc : noNode c = noNode c') :
    (statBlocked s c t).inb = (statBlocked s' c' t).inb ∧ (statBlocked s c t).log = (statBlocked s' c' t).log := by
  obtain ⟨e, st, er, hn, bl, ex⟩ := c
  obtain ⟨e', st', er', hn', bl', ex'⟩ := c'
  simp only [noNode, Ctx.mk.injEq] at hc
  obtain ⟨rfl, rfl, rfl, _, rfl, rfl⟩ := hc
  unfold statBlocked onStat
  cases hs : e.chain.std <;> cases hn <;> cases hn' <;> cases hi : e.inbound <;> simp [h1, h2]

theorem statCompleted_inbLog (s s' : St) (c c' : Ctx) (t : Nat) (h1 : s.inb = s'.inb) (h2 : s.log = s'.log)
    (hc : noNode c = noNode c') :
    (statCompleted s c t).inb = (statCompleted s' c' t).inb ∧ (statCompleted s c t).log = (statCompleted s' c' t).log := by
  obtain ⟨e, st, er, hn, bl, ex⟩ := c
  obtain ⟨e', st', er', hn', bl', ex'⟩ := c'
  simp only [noNode, Ctx.mk.injEq] at hc
  obtain ⟨rfl, rfl, rfl, _, rfl, rfl⟩ := hc
  unfold statCompleted onStat
  cases hs : e.chain.std <;> cases hn <;> cases hn' <;> cases hi : e.inbound <;> simp [h1, h2]

open Sentinel.EntryPool in
theorem chainEntry_inbLog (fix : Bool) (s s' : St) (c : Ctx) (t : Nat) (h1 : s.inb = s'.inb) (h2 : s.log = s'.log) :
    (chainEntry fix s c t).1.inb = (chainEntry fix s' c t).1.inb ∧
    (chainEntry fix s c t).1.log = (chainEntry fix s' c t).1.log ∧
    (chainEntry fix s c t).2 = (chainEntry fix s' c t).2 := by
  rw [chainEntry_eq, chainEntry_eq]
  have a1 : (if attached c.e.chain = true then ({ s with nodes := getOrCreate s.nodes c.e.res t } : St) else s).inb =
      (if attached c.e.chain = true then ({ s' with nodes := getOrCreate s'.nodes c.e.res t } : St) else s').inb := by
    split_ifs <;> exact h1
  have a2 : (if attached c.e.chain = true then ({ s with nodes := getOrCreate s.nodes c.e.res t } : St) else s).log =
      (if attached c.e.chain = true then ({ s' with nodes := getOrCreate s'.nodes c.e.res t } : St) else s').log := by
    split_ifs <;> exact h2
  cases outcome c.e.chain with
  | pass => exact ⟨(statPassed_inbLog _ _ _ _ t a1 a2 rfl).1, (statPassed_inbLog _ _ _ _ t a1 a2 rfl).2, rfl⟩
  | block => exact ⟨(statBlocked_inbLog _ _ _ _ t a1 a2 rfl).1, (statBlocked_inbLog _ _ _ _ t a1 a2 rfl).2, rfl⟩
  | panic =>
    cases fix with
    | true =>
      simp only [recoverPanic, if_true]
      exact ⟨(statPassed_inbLog _ _ _ _ t a1 a2 rfl).1, (statPassed_inbLog _ _ _ _ t a1 a2 rfl).2, trivial⟩
    | false => simp only [recoverPanic, Bool.false_eq_true, if_false]; exact ⟨a1, a2, trivial⟩

theorem findE_none_iff {s s' : St} (h : InbEq s s') (id : Nat) : findE s.ents id = none ↔ findE s'.ents id = none := by
  have := h.ents id
  cases h1 : findE s.ents id <;> cases h2 : findE s'.ents id <;> simp_all

open Sentinel.EntryPool in
theorem inbEq_entry {s s' : St} (h : InbEq s s') (fix : Bool) (t : Nat) (e : EntryOp) :
    InbEq (apiEntry fix s t e) (apiEntry fix s' t e) := by
  unfold apiEntry
  cases h1 : findE s.ents e.id with
  | some c =>
    cases h2 : findE s'.ents e.id with
    | none => exact absurd ((findE_none_iff h e.id).mpr h2) (by simp [h1])
    | some c' => exact h
  | none =>
    have h2 : findE s'.ents e.id = none := (findE_none_iff h e.id).mp h1
    rw [h2]
    simp only []
    obtain ⟨i1, i2, i3⟩ := chainEntry_inbLog fix s s'
      { e := e, start := t, err := none, hasNode := false, blocked := false, exited := false } t h.inb h.log
    have k1 := chainEntry_keeps_ents fix s { e := e, start := t, err := none, hasNode := false, blocked := false, exited := false } t
    have k2 := chainEntry_keeps_ents fix s' { e := e, start := t, err := none, hasNode := false, blocked := false, exited := false } t
    rw [← i3]
    generalize chainEntry fix s { e := e, start := t, err := none, hasNode := false, blocked := false, exited := false } t = R at i1 i2 k1 ⊢
    generalize chainEntry fix s' { e := e, start := t, err := none, hasNode := false, blocked := false, exited := false } t = R' at i1 i2 k2 ⊢
    have key : ∀ (c : Ctx), InbEq { R.1 with ents := (e.id, c) :: R.1.ents } { R'.1 with ents := (e.id, c) :: R'.1.ents } := by
      intro c
      refine ⟨i1, i2, ?_⟩
      intro id
      simp only [findE_cons, k1, k2]
      split_ifs
      · rfl
      · exact h.ents id
    cases R.2.2 with
    | none => exact key _
    | some o => cases o <;> exact key _

theorem inbEq_trace {s s' : St} (h : InbEq s s') (id : Nat) (err : Option String) :
    InbEq (apiTrace s id err) (apiTrace s' id err) := by
  unfold apiTrace
  have he := h.ents id
  cases h1 : findE s.ents id with
  | none =>
    have h2 := (findE_none_iff h id).mp h1
    rw [h2]; exact h
  | some c =>
    cases h2 : findE s'.ents id with
    | none => exact absurd ((findE_none_iff h id).mpr h2) (by simp [h1])
    | some c' =>
      rw [h1, h2] at he
      obtain ⟨e, st, er, hn, bl, ex⟩ := c
      obtain ⟨e', st', er', hn', bl', ex'⟩ := c'
      simp only [noNode, Ctx.mk.injEq, Option.map, Option.some.injEq] at he
      obtain ⟨rfl, rfl, rfl, _, rfl, rfl⟩ := he
      cases ex with
      | true => exact h
      | false =>
        cases err with
        | none => exact h
        | some x =>
          refine ⟨h.inb, h.log, ?_⟩
          intro id'
          simp only [Bool.false_eq_true, if_false, findE_cons]
          split_ifs
          · simp [noNode]
          · exact h.ents id'

theorem statCompleted_keeps_ents' (s : St) (c : Ctx) (t : Nat) : (statCompleted s c t).ents = s.ents := by
  unfold statCompleted onStat; split_ifs <;> rfl

theorem inbEq_exit {s s' : St} (h : InbEq s s') (t id : Nat) (err : Option String) :
    InbEq (apiExit s t id err) (apiExit s' t id err) := by
  unfold apiExit
  have he := h.ents id
  cases h1 : findE s.ents id with
  | none =>
    have h2 := (findE_none_iff h id).mp h1
    rw [h2]; exact h
  | some c =>
    cases h2 : findE s'.ents id with
    | none => exact absurd ((findE_none_iff h id).mpr h2) (by simp [h1])
    | some c' =>
      rw [h1, h2] at he
      obtain ⟨e, st, er, hn, bl, ex⟩ := c
      obtain ⟨e', st', er', hn', bl', ex'⟩ := c'
      simp only [noNode, Ctx.mk.injEq, Option.map, Option.some.injEq] at he
      obtain ⟨rfl, rfl, rfl, _, rfl, rfl⟩ := he
      cases ex with
      | true => exact h
      | false =>
        cases bl with
        | true =>
          refine ⟨h.inb, h.log, ?_⟩
          intro id'
          simp only [Bool.false_eq_true, if_false, if_true, findE_cons]
          split_ifs
          · simp [noNode]
          · exact h.ents id'
        | false =>
          simp only [Bool.false_eq_true, if_false]
          obtain ⟨j1, j2⟩ := statCompleted_inbLog s s'
            { e := e, start := st, err := orErr err er, hasNode := hn, blocked := false, exited := false }
            { e := e, start := st, err := orErr err er, hasNode := hn', blocked := false, exited := false } t h.inb h.log
            (by simp [noNode])
          refine ⟨j1, j2, ?_⟩
          intro id'
          simp only [findE_cons, statCompleted_keeps_ents']
          split_ifs
          · simp [noNode]
          · exact h.ents id'

theorem inbEq_step {s s' : St} (h : InbEq s s') (fix : Bool) (x : TOp) : InbEq (step fix s x) (step fix s' x) := by
  obtain ⟨t, op⟩ := x
  cases op with
  | entry e => exact inbEq_entry h fix t e
  | trace id err => exact inbEq_trace h id err
  | exit id err => exact inbEq_exit h t id err

/-- run more ops (newest first) from a given state -/
def runFrom (fix : Bool) (s : St) : List TOp → St
  | [] => s
  | x :: r => step fix (runFrom fix s r) x

/-- **a node-map reset at any moment changes nothing but the resource nodes**: whatever ops follow, the inbound node
    (hence every inbound window and the inbound gauge), every entry's context (error, input, outcome, finished or not)
    and the recording slots' log are those of the run without the reset -/
theorem reset_irrelevant (fix : Bool) (s : St) (later : List TOp) :
    InbEq (runFrom fix s later) (runFrom fix (resetNodes s) later) := by
  induction later with
  | nil => exact inbEq_reset s
  | cons x r ih => exact inbEq_step ih fix x

end Sentinel.Entry

namespace Sentinel.EntryPool
open Sentinel.Entry

theorem getD_map_noNode (l : List Ctx) (i : Nat) :
    (l.map fun c => ({ c with hasNode := false } : Ctx)).getD i freshCtx = noNode (l.getD i freshCtx) := by
  induction l generalizing i with
  | nil => rfl
  | cons a r ih =>
    cases i with
    | zero => rfl
    | succ j => simpa [List.getD] using ih j

/-- the pooled model's reset corresponds to the pool-free one -/
theorem rel_reset {p : PSt} {s : St} (r : Rel p s) : Rel (resetNodes p) (Entry.resetNodes s) := by
  refine ⟨r.inb, rfl, r.log, ?_, ?_, ?_, ?_, r.free_nd, r.live_nf, r.live_inj⟩
  · intro id
    simp only [resetNodes, Entry.resetNodes, findE_map_noNode]
    rw [r.exited id]; cases findE s.ents id <;> rfl
  · intro id
    simp only [resetNodes, Entry.resetNodes, findE_map_noNode]
    rw [r.isnil id]; cases findE s.ents id <;> rfl
  · intro id pe hp hl
    obtain ⟨h1, h2⟩ := r.live id pe hp hl
    refine ⟨by simpa [resetNodes] using h1, ?_⟩
    simp only [resetNodes, Entry.resetNodes, findE_map_noNode, getD_map_noNode, h2]
    rfl
  · intro i hi
    obtain ⟨h1, a, b, c, d, e, f⟩ := r.free_ok i hi
    refine ⟨by simpa [resetNodes] using h1, ?_⟩
    simp only [resetNodes, getD_map_noNode]
    exact ⟨a, rfl, c, d, e, f⟩

end Sentinel.EntryPool
