import Mathlib.Tactic
import Sentinel.Model.DatasourceRules
/-!
# Lemmas for C18: the generic (table-driven) codec round trip and the handler invariant
-/
namespace Sentinel.Datasource

/-! ## codec -/

theorem specific_roundtrip (v : SpecificValue) (h : v.wf = true) :
    SpecificValue.fromJson v.toJson = some v := by
  obtain ⟨k, s, t⟩ := v
  simp only [SpecificValue.wf, Bool.and_eq_true] at h
  simp [SpecificValue.toJson, SpecificValue.fromJson, SpecificValue.fromKvs, SpecificValue.setField, jname,
    specificTags, decInt, decStr, h.1, h.2]

theorem decodeItems_roundtrip (xs : List SpecificValue) (h : xs.all SpecificValue.wf = true) :
    decodeItems (xs.map SpecificValue.toJson) = some xs := by
  induction xs with
  | nil => rfl
  | cons v vs ih =>
    simp only [List.all_cons, Bool.and_eq_true] at h
    simp [decodeItems, specific_roundtrip v h.1, ih h.2]

theorem decodeVal_enc (k : Kind) (x old : Val) (h : wtVal k x = true) :
    decodeVal k (encVal x) old = some x := by
  cases k <;> cases x <;> simp_all [wtVal, decodeVal, encVal, decodeItems_roundtrip]

theorem setField_append (pre : List Tag) (rp : Rec) (t : Tag) (ts : List Tag) (z : Val) (zs : Rec) (j : Json)
    (hlen : pre.length = rp.length) (hnot : ∀ p ∈ pre, p.json ≠ t.json) :
    setField (pre ++ t :: ts) t.json j (rp ++ z :: zs) = (decodeVal t.kind j z).map (fun x => rp ++ x :: zs) := by
  induction pre generalizing rp with
  | nil =>
    cases rp with
    | nil => simp [setField]
    | cons _ _ => simp at hlen
  | cons p pre ih =>
    cases rp with
    | nil => simp at hlen
    | cons y rp =>
      have hp : p.json ≠ t.json := hnot p (by simp)
      have := ih rp (by simpa using hlen) (fun q hq => hnot q (by simp [hq]))
      simp only [List.cons_append, setField, hp, if_false, this]
      cases decodeVal t.kind j z <;> simp

theorem wtRec_nil_left {rs : Rec} (h : wtRec [] rs = true) : rs = [] := by
  cases rs with
  | nil => rfl
  | cons _ _ => simp [wtRec] at h

theorem decodeKvs_encode (suf : List Tag) : ∀ (pre : List Tag) (rp rs : Rec),
    pre.length = rp.length → wtRec suf rs = true → ((pre ++ suf).map Tag.json).Nodup →
    decodeKvs (pre ++ suf) (encodeFields suf rs) (rp ++ zeroRec suf) = some (rp ++ rs) := by
  induction suf with
  | nil =>
    intro pre rp rs _ hwt _
    have := wtRec_nil_left hwt
    subst this
    simp [encodeFields, decodeKvs, zeroRec]
  | cons t ts ih =>
    intro pre rp rs hlen hwt hnd
    cases rs with
    | nil => simp [wtRec] at hwt
    | cons x xs =>
      simp only [wtRec, Bool.and_eq_true] at hwt
      have hnd' : (((pre ++ [t]) ++ ts).map Tag.json).Nodup := by simpa [List.append_assoc] using hnd
      have hlen' : (pre ++ [t]).length = (rp ++ [x]).length := by simp [hlen]
      have hih := ih (pre ++ [t]) (rp ++ [x]) xs hlen' hwt.2 hnd'
      have hih' : decodeKvs (pre ++ t :: ts) (encodeFields ts xs) (rp ++ x :: zeroRec ts) = some (rp ++ x :: xs) := by
        simpa [List.append_assoc] using hih
      have hz0 : zeroRec (t :: ts) = t.kind.zero :: zeroRec ts := by simp [zeroRec]
      by_cases homit : (t.omitempty && x == t.kind.zero) = true
      · have hx : x = t.kind.zero := by
          simp only [Bool.and_eq_true, beq_iff_eq] at homit
          exact homit.2
        simp only [encodeFields, homit, if_true, List.nil_append]
        rw [hz0, ← hx]
        exact hih'
      · have hnot : ∀ p ∈ pre, p.json ≠ t.json := by
          intro p hp heq
          simp only [List.map_append, List.map_cons] at hnd
          rw [List.nodup_append] at hnd
          exact hnd.2.2 p.json (List.mem_map_of_mem hp) t.json (by simp) heq
        have hset := setField_append pre rp t ts t.kind.zero (zeroRec ts) (encVal x) hlen hnot
        rw [decodeVal_enc t.kind x _ hwt.1] at hset
        simp only [encodeFields, homit, Bool.false_eq_true, if_false, List.singleton_append, decodeKvs]
        rw [hz0, hset]
        simp only [Option.map_some, Option.bind_some]
        exact hih'

/-- the generic tree-level round trip: any table with pairwise distinct JSON names, any well-typed record -/
theorem decodeObj_encode (ts : List Tag) (r : Rec) (hnd : (ts.map Tag.json).Nodup) (hwt : wtRec ts r = true) :
    decodeObj ts (encodeFields ts r) = some r := by
  have := decodeKvs_encode ts [] [] r rfl hwt (by simpa using hnd)
  simpa [decodeObj] using this

theorem decodeElems_encode (ts : List Tag) (hnd : (ts.map Tag.json).Nodup) (rs : List Rec)
    (hwt : ∀ r ∈ rs, wtRec ts r = true) :
    decodeElems ts (rs.map (encodeObj ts)) = some (rs.map some) := by
  induction rs with
  | nil => rfl
  | cons r rs ih =>
    have h1 := decodeObj_encode ts r hnd (hwt r (by simp))
    have h2 := ih (fun q hq => hwt q (by simp [hq]))
    simp [encodeObj, decodeElems, h1, h2]

/-! ## handler -/

/-- `e` is in force for the delivered rule `r`: it is `r` (normalised), or an older rule the module judges equal to `r` -/
def InForceFor {R : Type} (mo : Module R) (e r : R) : Prop := e = mo.norm r ∨ mo.equiv e r = true

theorem reuseBuild_rel {R : Type} (mo : Module R) (rs : List R) : ∀ old : List R,
    List.Forall₂ (InForceFor mo) (reuseBuild mo.equiv mo.reusable mo.norm old rs) rs := by
  induction rs with
  | nil => intro old; simp [reuseBuild]
  | cons r rs ih =>
    intro old
    unfold reuseBuild
    cases hf : old.find? (fun o => mo.equiv o r) with
    | none => exact List.Forall₂.cons (Or.inl rfl) (ih _)
    | some o =>
      have := List.find?_some hf
      exact List.Forall₂.cons (Or.inr this) (ih _)

theorem reuseBuild_never {R : Type} (reusable : R → R → Bool) (norm : R → R) (rs : List R) : ∀ old : List R,
    reuseBuild (fun _ _ => false) reusable norm old rs = rs.map norm := by
  induction rs with
  | nil => intro old; simp [reuseBuild]
  | cons r rs ih =>
    intro old
    have hf : old.find? (fun _ => false) = none := by
      induction old with
      | nil => rfl
      | cons a as iha => simp [List.find?]
    simp [reuseBuild, ih, hf]

/-- the manager enforces what the handler last applied, up to the module's own notion of "same rule" -/
def Inv {R : Type} (mo : Module R) (s : Handler (WireList R) × Mgr R) : Prop :=
  List.Forall₂ (InForceFor mo) s.2.enforced (validElems mo.valid s.1.last)

theorem deliver_cases {B R : Type} (conv : B → Conv (WireList R)) (eqv : Option (WireList R) → Option (WireList R) → Bool)
    (mo : Module R) (s : Handler (WireList R) × Mgr R) (src : B) :
    (conv src = .panic ∧ deliver conv eqv mo s src = (s, .ret .nil)) ∨
    (conv src = .err ∧ deliver conv eqv mo s src = (s, .ret .err)) ∨
    (∃ v, conv src = .ok v ∧ eqv v s.1.last = true ∧ deliver conv eqv mo s src = (s, .ret .nil)) ∨
    (∃ v, conv src = .ok v ∧ eqv v s.1.last = false ∧
      deliver conv eqv mo s src =
        (({ last := v }, { enforced := enforcedOf mo.valid mo.norm mo.equiv mo.reusable s.2.enforced v }), .ret .nil)) := by
  obtain ⟨h, m⟩ := s
  unfold deliver handle handleBody recovered loadUpd
  cases hc : conv src with
  | err => simp
  | panic => simp
  | ok v =>
    cases he : eqv v h.last <;> simp [he]

end Sentinel.Datasource

/-! ## history-level machinery (proof depth): file phases, handler histories with Base add/remove -/
namespace Sentinel.Datasource

/-- the part of the file source's state that depends on the **history alone** (never on contents, converters or
    rules): `(closed, rewatching)` -/
def phStep {B : Type} (p : Bool × Bool) : FileEv B → Bool × Bool
  | .write _ => p
  | .proc => p
  | .remove => if p.1 || p.2 then p else (true, p.2)
  | .renameAway => if p.1 || p.2 then p else (p.1, true)
  | .recreate _ => if p.1 then p else if p.2 then (p.1, false) else p
  | .giveUp => if p.2 then (true, false) else p
  | .replaceOver _ => if p.1 then p else if p.2 then (p.1, false) else (true, p.2)

def phaseOf {B : Type} (evs : List (FileEv B)) : Bool × Bool := evs.foldl phStep (false, false)

/-- **The region** of the known finding `file-replace-over-closes-source` together with the by-design closings, defined on
    the event history alone: the histories after which nobody watches the path any more — a `remove` or a rename-over
    while the file is being watched, or the re-watch retries running out (`giveUp`) -/
def ClosingHistory {B : Type} (evs : List (FileEv B)) : Prop := (phaseOf evs).1 = true

theorem phStep_step {B R : Type} (conv : B → Conv (WireList R)) (eqv : Option (WireList R) → Option (WireList R) → Bool)
    (mo : Module R) (empty : B) (s : FileSrc B R) (e : FileEv B) :
    ((FileSrc.step conv eqv mo empty s e).closed, (FileSrc.step conv eqv mo empty s e).rewatching) =
      phStep (s.closed, s.rewatching) e := by
  cases e <;> cases hc : s.closed <;> cases hr : s.rewatching <;> cases hct : s.content <;>
    simp [FileSrc.step, phStep, hc, hr, hct]

theorem phase_run {B R : Type} (conv : B → Conv (WireList R)) (eqv : Option (WireList R) → Option (WireList R) → Bool)
    (mo : Module R) (empty : B) (evs : List (FileEv B)) : ∀ s : FileSrc B R,
    ((FileSrc.run conv eqv mo empty s evs).closed, (FileSrc.run conv eqv mo empty s evs).rewatching) =
      evs.foldl phStep (s.closed, s.rewatching) := by
  induction evs with
  | nil => intro s; rfl
  | cons e es ih =>
    intro s
    have := ih (FileSrc.step conv eqv mo empty s e)
    rw [phStep_step] at this
    simpa [FileSrc.run] using this

/-- one operation on a module's handler as the round-5 op language has them: a delivery (the converter's result for the
    payload is carried by the op, so every byte string and every `ds.mode` wrapper is covered), directly or through the
    `datasource.Base`; `AddPropertyHandler`; `RemovePropertyHandler` -/
inductive HOp (R : Type) where
  | deliver (c : Conv (WireList R)) (viaBase : Bool)
  | add
  | remove

structure HSt (R : Type) where
  hm : Handler (WireList R) × Mgr R := ({}, {})
  attached : Bool := true

/-- the step the driver performs for `ds.handle` / `ds.deliver` / `base.add` / `base.remove`, with what `Handle` returned -/
def hstep {R : Type} (eqv : Option (WireList R) → Option (WireList R) → Bool) (mo : Module R) (s : HSt R) :
    HOp R → HSt R × Option (Outcome Ret)
  | .deliver c false => let r := deliver (fun (_ : Unit) => c) eqv mo s.hm (); ({ s with hm := r.1 }, some r.2)
  | .deliver c true =>
    if s.attached then
      let r := baseDeliver (fun (_ : Unit) => c) eqv mo [s.hm] ()
      ({ s with hm := r.1.headD s.hm }, some r.2)
    else (s, some (.ret .nil))                       -- a Base without handlers: nothing is delivered
  | .add => ({ s with attached := true }, none)
  | .remove => ({ s with attached := false }, none)

def hrun {R : Type} (eqv : Option (WireList R) → Option (WireList R) → Bool) (mo : Module R) (s : HSt R)
    (ops : List (HOp R)) : HSt R := ops.foldl (fun s o => (hstep eqv mo s o).1) s

/-- everything observable along a history: per op what `Handle` returned (if it was a delivery) and the rules in force after it -/
def hobs {R : Type} (eqv : Option (WireList R) → Option (WireList R) → Bool) (mo : Module R) :
    HSt R → List (HOp R) → List (Option (Outcome Ret) × List R)
  | _, [] => []
  | s, o :: os => ((hstep eqv mo s o).2, (hstep eqv mo s o).1.hm.2.enforced) :: hobs eqv mo (hstep eqv mo s o).1 os

/-- does the delivery reach the handler (directly, or through a Base on which the handler is registered) -/
def reaches {R : Type} (attached : Bool) : HOp R → Bool
  | .deliver _ viaBase => !viaBase || attached
  | _ => false

/-- the value a converter result contributes: its own if it accepted the payload, else the previous one -/
def accVal {D : Type} (c : Conv D) (la : Option D) : Option D :=
  match c with
  | .ok v => v
  | _ => la

/-- the property value of the last delivery that reached the handler and that the converter accepted (`none` at the start) -/
def lastAccepted {R : Type} : Bool → Option (WireList R) → List (HOp R) → Option (WireList R)
  | _, la, [] => la
  | att, la, .deliver c viaBase :: os =>
    lastAccepted att (if !viaBase || att then accVal c la else la) os
  | _, la, .add :: os => lastAccepted true la os
  | _, la, .remove :: os => lastAccepted false la os

end Sentinel.Datasource
