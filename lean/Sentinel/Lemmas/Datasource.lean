import Mathlib.Tactic
import Sentinel.Model.DatasourceRules
/-!
# Lemmas for C18: the generic (table-driven) codec round trip and the handler invariant
-/
namespace Sentinel.Datasource

/-! ## codec -/

theorem specific_roundtrip (v : SpecificValue) (h : v.wf = true) :
    SpecificValue.fromJson v.toJson = some v := by
  obtain ⟨k, s, t⟩ := v
  simp only [SpecificValue.wf, Bool.and_eq_true] at h
  simp [SpecificValue.toJson, SpecificValue.fromJson, SpecificValue.fromKvs, SpecificValue.setField, jname,
    specificTags, decInt, decStr, h.1, h.2]

theorem decodeItems_roundtrip (xs : List SpecificValue) (h : xs.all SpecificValue.wf = true) :
    decodeItems (xs.map SpecificValue.toJson) = some xs := by
  induction xs with
  | nil => rfl
  | cons v vs ih =>
    simp only [List.all_cons, Bool.and_eq_true] at h
    simp [decodeItems, specific_roundtrip v h.1, ih h.2]

theorem decodeVal_enc (k : Kind) (x old : Val) (h : wtVal k x = true) :
    decodeVal k (encVal x) old = some x := by
  cases k <;> cases x <;> simp_all [wtVal, decodeVal, encVal, decodeItems_roundtrip]

theorem setField_append (pre : List Tag) (rp : Rec) (t : Tag) (ts : List Tag) (z : Val) (zs : Rec) (j : Json)
    (hlen : pre.length = rp.length) (hnot : ∀ p ∈ pre, p.json ≠ t.json) :
    setField (pre ++ t :: ts) t.json j (rp ++ z :: zs) = (decodeVal t.kind j z).map (fun x => rp ++ x :: zs) := by
  induction pre generalizing rp with
  | nil =>
    cases rp with
    | nil => simp [setField]
    | cons _ _ => simp at hlen
  | cons p pre ih =>
    cases rp with
    | nil => simp at hlen
    | cons y rp =>
      have hp : p.json ≠ t.json := hnot p (by simp)
      have := ih rp (by simpa using hlen) (fun q hq => hnot q (by simp [hq]))
      simp only [List.cons_append, setField, hp, if_false, this]
      cases decodeVal t.kind j z <;> simp

theorem wtRec_nil_left {rs : Rec} (h : wtRec [] rs = true) : rs = [] := by
  cases rs with
  | nil => rfl
  | cons _ _ => simp [wtRec] at h

theorem decodeKvs_encode (suf : List Tag) : ∀ (pre : List Tag) (rp rs : Rec),
    pre.length = rp.length → wtRec suf rs = true → ((pre ++ suf).map Tag.json).Nodup →
    decodeKvs (pre ++ suf) (encodeFields suf rs) (rp ++ zeroRec suf) = some (rp ++ rs) := by
  induction suf with
  | nil =>
    intro pre rp rs _ hwt _
    have := wtRec_nil_left hwt
    subst this
    simp [encodeFields, decodeKvs, zeroRec]
  | cons t ts ih =>
    intro pre rp rs hlen hwt hnd
    cases rs with
    | nil => simp [wtRec] at hwt
    | cons x xs =>
      simp only [wtRec, Bool.and_eq_true] at hwt
      have hnd' : (((pre ++ [t]) ++ ts).map Tag.json).Nodup := by simpa [List.append_assoc] using hnd
      have hlen' : (pre ++ [t]).length = (rp ++ [x]).length := by simp [hlen]
      have hih := ih (pre ++ [t]) (rp ++ [x]) xs hlen' hwt.2 hnd'
      have hih' : decodeKvs (pre ++ t :: ts) (encodeFields ts xs) (rp ++ x :: zeroRec ts) = some (rp ++ x :: xs) := by
        simpa [List.append_assoc] using hih
      have hz0 : zeroRec (t :: ts) = t.kind.zero :: zeroRec ts := by simp [zeroRec]
      by_cases homit : (t.omitempty && x == t.kind.zero) = true
      · have hx : x = t.kind.zero := by
          simp only [Bool.and_eq_true, beq_iff_eq] at homit
          exact homit.2
        simp only [encodeFields, homit, if_true, List.nil_append]
        rw [hz0, ← hx]
        exact hih'
      · have hnot : ∀ p ∈ pre, p.json ≠ t.json := by
          intro p hp heq
          simp only [List.map_append, List.map_cons] at hnd
          rw [List.nodup_append] at hnd
          exact hnd.2.2 p.json (List.mem_map_of_mem hp) t.json (by simp) heq
        have hset := setField_append pre rp t ts t.kind.zero (zeroRec ts) (encVal x) hlen hnot
        rw [decodeVal_enc t.kind x _ hwt.1] at hset
        simp only [encodeFields, homit, Bool.false_eq_true, if_false, List.singleton_append, decodeKvs]
        rw [hz0, hset]
        simp only [Option.map_some, Option.bind_some]
        exact hih'

/-- the generic tree-level round trip: any table with pairwise distinct JSON names, any well-typed record -/
theorem decodeObj_encode (ts : List Tag) (r : Rec) (hnd : (ts.map Tag.json).Nodup) (hwt : wtRec ts r = true) :
    decodeObj ts (encodeFields ts r) = some r := by
  have := decodeKvs_encode ts [] [] r rfl hwt (by simpa using hnd)
  simpa [decodeObj] using this

theorem decodeElems_encode (ts : List Tag) (hnd : (ts.map Tag.json).Nodup) (rs : List Rec)
    (hwt : ∀ r ∈ rs, wtRec ts r = true) :
    decodeElems ts (rs.map (encodeObj ts)) = some (rs.map some) := by
  induction rs with
  | nil => rfl
  | cons r rs ih =>
    have h1 := decodeObj_encode ts r hnd (hwt r (by simp))
    have h2 := ih (fun q hq => hwt q (by simp [hq]))
    simp [encodeObj, decodeElems, h1, h2]

/-! ## handler -/

/-- `e` is in force for the delivered rule `r`: it is `r` (normalised), or an older rule the module judges equal to `r` -/
def InForceFor {R : Type} (mo : Module R) (e r : R) : Prop := e = mo.norm r ∨ mo.equiv e r = true

theorem reuseBuild_rel {R : Type} (mo : Module R) (rs : List R) : ∀ old : List R,
    List.Forall₂ (InForceFor mo) (reuseBuild mo.equiv mo.reusable mo.norm old rs) rs := by
  induction rs with
  | nil => intro old; simp [reuseBuild]
  | cons r rs ih =>
    intro old
    unfold reuseBuild
    cases hf : old.find? (fun o => mo.equiv o r) with
    | none => exact List.Forall₂.cons (Or.inl rfl) (ih _)
    | some o =>
      have := List.find?_some hf
      exact List.Forall₂.cons (Or.inr this) (ih _)

theorem reuseBuild_never {R : Type} (reusable : R → R → Bool) (norm : R → R) (rs : List R) : ∀ old : List R,
    reuseBuild (fun _ _ => false) reusable norm old rs = rs.map norm := by
  induction rs with
  | nil => intro old; simp [reuseBuild]
  | cons r rs ih =>
    intro old
    have hf : old.find? (fun _ => false) = none := by
      induction old with
      | nil => rfl
      | cons a as iha => simp [List.find?]
    simp [reuseBuild, ih, hf]

/-- the manager enforces what the handler last applied, up to the module's own notion of "same rule" -/
def Inv {R : Type} (mo : Module R) (s : Handler (WireList R) × Mgr R) : Prop :=
  List.Forall₂ (InForceFor mo) s.2.enforced (validElems mo.valid s.1.last)

theorem deliver_cases {B R : Type} (conv : B → Conv (WireList R)) (eqv : Option (WireList R) → Option (WireList R) → Bool)
    (mo : Module R) (s : Handler (WireList R) × Mgr R) (src : B) :
    (conv src = .panic ∧ deliver conv eqv mo s src = (s, .ret .nil)) ∨
    (conv src = .err ∧ deliver conv eqv mo s src = (s, .ret .err)) ∨
    (∃ v, conv src = .ok v ∧ eqv v s.1.last = true ∧ deliver conv eqv mo s src = (s, .ret .nil)) ∨
    (∃ v, conv src = .ok v ∧ eqv v s.1.last = false ∧
      deliver conv eqv mo s src =
        (({ last := v }, { enforced := enforcedOf mo.valid mo.norm mo.equiv mo.reusable s.2.enforced v }), .ret .nil)) := by
  obtain ⟨h, m⟩ := s
  unfold deliver handle handleBody recovered loadUpd
  cases hc : conv src with
  | err => simp
  | panic => simp
  | ok v =>
    cases he : eqv v h.last <;> simp [he]

end Sentinel.Datasource
