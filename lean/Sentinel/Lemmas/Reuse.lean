import Mathlib.Tactic
import Sentinel.Model.Reuse
/-! Helper lemmas about `reuseIdx` / `build` (used by `Sentinel/Props/C14.lean`). -/
namespace Sentinel.Reuse
variable {R S : Type}

/-- if some old controller is equal to `r`, `reuseIdx` returns the index of the first one -/
theorem reuseIdx_finds (K : Calc R S) (r : R) (old : List (Ctl R S)) (i : Nat) (re : Option Nat)
    (h : ∃ c ∈ old, K.eq c.rule r = true) :
    ∃ l1 c0 l2, old = l1 ++ c0 :: l2 ∧ (∀ x ∈ l1, K.eq x.rule r = false) ∧ K.eq c0.rule r = true ∧
      (reuseIdx K r old i re).1 = some (i + l1.length) := by
  induction old generalizing i re with
  | nil => simp at h
  | cons d ds ih =>
    by_cases hd : K.eq d.rule r = true
    · exact ⟨[], d, ds, rfl, by simp, hd, by simp [reuseIdx, hd]⟩
    · have hd' : K.eq d.rule r = false := by simpa using hd
      have h' : ∃ c ∈ ds, K.eq c.rule r = true := by
        obtain ⟨c, hc, he⟩ := h
        rcases List.mem_cons.mp hc with rfl | hc
        · exact absurd he hd
        · exact ⟨c, hc, he⟩
      have key : ∀ re', ∃ l1 c0 l2, d :: ds = l1 ++ c0 :: l2 ∧ (∀ x ∈ l1, K.eq x.rule r = false) ∧
          K.eq c0.rule r = true ∧ (reuseIdx K r ds (i+1) re').1 = some (i + l1.length) := by
        intro re'
        obtain ⟨l1, c0, l2, e, hl, hc0, hi⟩ := ih (i+1) re' h'
        refine ⟨d :: l1, c0, l2, by simp [e], ?_, hc0, ?_⟩
        · intro x hx
          rcases List.mem_cons.mp hx with rfl | hx
          · exact hd'
          · exact hl x hx
        · rw [hi]; simp; omega
      unfold reuseIdx
      simp only [hd', Bool.false_eq_true, if_false]
      split_ifs
      · exact key _
      · exact key _

theorem reuseIdx_fst_none (K : Calc R S) (r : R) (old : List (Ctl R S)) (i : Nat) (re : Option Nat)
    (h : ∀ c ∈ old, K.eq c.rule r = false) : (reuseIdx K r old i re).1 = none := by
  induction old generalizing i re with
  | nil => rfl
  | cons d ds ih =>
    unfold reuseIdx
    have hd := h d (List.mem_cons_self ..)
    simp only [hd, Bool.false_eq_true, if_false]
    split_ifs <;> exact ih _ _ (fun c hc => h c (List.mem_cons_of_mem _ hc))

/-- with no equal controller, the stat index (if any) is the first stat-reusable controller -/
theorem reuseIdx_snd (K : Calc R S) (r : R) (old : List (Ctl R S)) (i : Nat)
    (h : ∀ c ∈ old, K.eq c.rule r = false) :
    ((reuseIdx K r old i none).2 = none ∧ ∀ c ∈ old, K.sr c.rule r = false) ∨
    ∃ l1 c0 l2, old = l1 ++ c0 :: l2 ∧ (∀ x ∈ l1, K.sr x.rule r = false) ∧ K.sr c0.rule r = true ∧
      (reuseIdx K r old i none).2 = some (i + l1.length) := by
  induction old generalizing i with
  | nil => left; exact ⟨rfl, by simp⟩
  | cons d ds ih =>
    have hd := h d (List.mem_cons_self ..)
    have hds : ∀ c ∈ ds, K.eq c.rule r = false := fun c hc => h c (List.mem_cons_of_mem _ hc)
    unfold reuseIdx
    simp only [hd, Bool.false_eq_true, if_false]
    by_cases hs : K.sr d.rule r = true
    · right
      refine ⟨[], d, ds, rfl, by simp, hs, ?_⟩
      simp only [hs, Option.isNone_none, Bool.and_self, if_true, List.length_nil, Nat.add_zero]
      -- once a stat index is chosen it is never replaced
      have keep : ∀ (l : List (Ctl R S)) (k : Nat) (v : Nat), (∀ c ∈ l, K.eq c.rule r = false) →
          (reuseIdx K r l k (some v)).2 = some v := by
        intro l
        induction l with
        | nil => intros; rfl
        | cons e es ihe =>
          intro k v he
          unfold reuseIdx
          simp only [he e (List.mem_cons_self ..), Bool.false_eq_true, if_false, Option.isNone_some,
            Bool.and_false]
          exact ihe _ _ (fun c hc => he c (List.mem_cons_of_mem _ hc))
      exact keep ds (i+1) i hds
    · have hs' : K.sr d.rule r = false := by simpa using hs
      simp only [hs', Bool.false_and, Bool.false_eq_true, if_false]
      rcases ih (i+1) hds with ⟨h1, h2⟩ | ⟨l1, c0, l2, e, hl, hc0, hi⟩
      · left
        refine ⟨h1, ?_⟩
        intro c hc
        rcases List.mem_cons.mp hc with rfl | hc
        · exact hs'
        · exact h2 c hc
      · right
        refine ⟨d :: l1, c0, l2, by simp [e], ?_, hc0, ?_⟩
        · intro x hx
          rcases List.mem_cons.mp hx with rfl | hx
          · exact hs'
          · exact hl x hx
        · rw [hi]; simp; omega

theorem getElem?_mid {α} (l1 : List α) (c : α) (l2 : List α) : (l1 ++ c :: l2)[l1.length]? = some c := by
  simp

theorem eraseIdx_mid {α} (l1 : List α) (c : α) (l2 : List α) : (l1 ++ c :: l2).eraseIdx l1.length = l1 ++ l2 := by
  induction l1 with
  | nil => rfl
  | cons a l ih => simp [ih]

/-- the three ways one step of `build` can go, in terms of a decomposition of the candidate list -/
theorem build_cons_eq (K : Calc R S) (now : Nat) (r : R) (rs : List R) (l1 : List (Ctl R S)) (c0 : Ctl R S)
    (l2 : List (Ctl R S)) (next : Nat) (hl : ∀ x ∈ l1, K.eq x.rule r = false) (hc : K.eq c0.rule r = true) :
    build K now (r :: rs) (l1 ++ c0 :: l2) next = c0 :: build K now rs (l1 ++ l2) next := by
  obtain ⟨m1, d0, m2, e, hm, hd0, hi⟩ := reuseIdx_finds K r (l1 ++ c0 :: l2) 0 none ⟨c0, by simp, hc⟩
  -- the decomposition found is the given one
  have hlen : m1.length = l1.length := by
    rcases Nat.lt_trichotomy m1.length l1.length with hlt | heq | hgt
    · exfalso
      have h1 : (l1 ++ c0 :: l2)[m1.length]? = some d0 := by rw [e]; exact getElem?_mid ..
      rw [List.getElem?_append_left hlt] at h1
      have : d0 ∈ l1 := List.mem_of_getElem? h1
      rw [hl d0 this] at hd0; exact Bool.false_ne_true hd0
    · exact heq
    · exfalso
      have h1 : (m1 ++ d0 :: m2)[l1.length]? = some c0 := by rw [← e]; exact getElem?_mid ..
      rw [List.getElem?_append_left hgt] at h1
      have : c0 ∈ m1 := List.mem_of_getElem? h1
      rw [hm c0 this] at hc; exact Bool.false_ne_true hc
  rw [hlen] at hi
  rcases hres : reuseIdx K r (l1 ++ c0 :: l2) 0 none with ⟨a, b⟩
  rw [hres] at hi
  simp only [Nat.zero_add] at hi
  subst hi
  conv_lhs => rw [build]
  rw [hres]
  simp only [getElem?_mid, eraseIdx_mid]

theorem build_cons_stat (K : Calc R S) (now : Nat) (r : R) (rs : List R) (l1 : List (Ctl R S)) (c0 : Ctl R S)
    (l2 : List (Ctl R S)) (next : Nat) (he : ∀ x ∈ l1 ++ c0 :: l2, K.eq x.rule r = false)
    (hl : ∀ x ∈ l1, K.sr x.rule r = false) (hc : K.sr c0.rule r = true) :
    build K now (r :: rs) (l1 ++ c0 :: l2) next
      = { id := next, rule := K.norm r, st := K.reuse r c0.st now } :: build K now rs (l1 ++ l2) (next+1) := by
  have h1 := reuseIdx_fst_none K r (l1 ++ c0 :: l2) 0 none he
  rcases reuseIdx_snd K r (l1 ++ c0 :: l2) 0 he with ⟨_, hn⟩ | ⟨m1, d0, m2, e, hm, hd0, hi⟩
  · have := hn c0 (by simp)
    rw [this] at hc; exact absurd hc Bool.false_ne_true
  · have hlen : m1.length = l1.length := by
      rcases Nat.lt_trichotomy m1.length l1.length with hlt | heq | hgt
      · exfalso
        have h1 : (l1 ++ c0 :: l2)[m1.length]? = some d0 := by rw [e]; exact getElem?_mid ..
        rw [List.getElem?_append_left hlt] at h1
        have : d0 ∈ l1 := List.mem_of_getElem? h1
        rw [hl d0 this] at hd0; exact Bool.false_ne_true hd0
      · exact heq
      · exfalso
        have h1 : (m1 ++ d0 :: m2)[l1.length]? = some c0 := by rw [← e]; exact getElem?_mid ..
        rw [List.getElem?_append_left hgt] at h1
        have : c0 ∈ m1 := List.mem_of_getElem? h1
        rw [hm c0 this] at hc; exact Bool.false_ne_true hc
    rw [hlen] at hi
    rcases hres : reuseIdx K r (l1 ++ c0 :: l2) 0 none with ⟨a, b⟩
    rw [hres] at hi h1
    simp only [Nat.zero_add] at hi h1
    subst hi h1
    conv_lhs => rw [build]
    rw [hres]
    simp only [getElem?_mid, eraseIdx_mid]

theorem build_cons_fresh (K : Calc R S) (now : Nat) (r : R) (rs : List R) (old : List (Ctl R S)) (next : Nat)
    (he : ∀ x ∈ old, K.eq x.rule r = false) (hs : ∀ x ∈ old, K.sr x.rule r = false) :
    build K now (r :: rs) old next
      = { id := next, rule := K.norm r, st := K.fresh r now } :: build K now rs old (next+1) := by
  have h1 := reuseIdx_fst_none K r old 0 none he
  rcases reuseIdx_snd K r old 0 he with ⟨h2, _⟩ | ⟨m1, d0, m2, e, _, hd0, _⟩
  · rcases hres : reuseIdx K r old 0 none with ⟨a, b⟩
    rw [hres] at h1 h2
    simp only at h1 h2
    subst h1 h2
    conv_lhs => rw [build]
    rw [hres]
  · have := hs d0 (by rw [e]; simp)
    rw [this] at hd0; exact absurd hd0 Bool.false_ne_true

/-- the index `reuseIdx` returns for an equal controller, in terms of a decomposition -/
theorem reuseIdx_eq_mid (K : Calc R S) (r : R) (l1 : List (Ctl R S)) (c0 : Ctl R S) (l2 : List (Ctl R S))
    (hl : ∀ x ∈ l1, K.eq x.rule r = false) (hc : K.eq c0.rule r = true) :
    (reuseIdx K r (l1 ++ c0 :: l2) 0 none).1 = some l1.length := by
  obtain ⟨m1, d0, m2, e, hm, hd0, hi⟩ := reuseIdx_finds K r (l1 ++ c0 :: l2) 0 none ⟨c0, by simp, hc⟩
  have hlen : m1.length = l1.length := by
    rcases Nat.lt_trichotomy m1.length l1.length with hlt | heq | hgt
    · exfalso
      have h1 : (l1 ++ c0 :: l2)[m1.length]? = some d0 := by rw [e]; exact getElem?_mid ..
      rw [List.getElem?_append_left hlt] at h1
      have : d0 ∈ l1 := List.mem_of_getElem? h1
      rw [hl d0 this] at hd0; exact Bool.false_ne_true hd0
    · exact heq
    · exfalso
      have h1 : (m1 ++ d0 :: m2)[l1.length]? = some c0 := by rw [← e]; exact getElem?_mid ..
      rw [List.getElem?_append_left hgt] at h1
      have : c0 ∈ m1 := List.mem_of_getElem? h1
      rw [hm c0 this] at hc; exact Bool.false_ne_true hc
  rw [hi, hlen]; simp

theorem reuseIdx_stat_mid (K : Calc R S) (r : R) (l1 : List (Ctl R S)) (c0 : Ctl R S) (l2 : List (Ctl R S))
    (he : ∀ x ∈ l1 ++ c0 :: l2, K.eq x.rule r = false)
    (hl : ∀ x ∈ l1, K.sr x.rule r = false) (hc : K.sr c0.rule r = true) :
    reuseIdx K r (l1 ++ c0 :: l2) 0 none = (none, some l1.length) := by
  have h1 := reuseIdx_fst_none K r (l1 ++ c0 :: l2) 0 none he
  rcases reuseIdx_snd K r (l1 ++ c0 :: l2) 0 he with ⟨_, hn⟩ | ⟨m1, d0, m2, e, hm, hd0, hi⟩
  · have := hn c0 (by simp)
    rw [this] at hc; exact absurd hc Bool.false_ne_true
  · have hlen : m1.length = l1.length := by
      rcases Nat.lt_trichotomy m1.length l1.length with hlt | heq | hgt
      · exfalso
        have h1 : (l1 ++ c0 :: l2)[m1.length]? = some d0 := by rw [e]; exact getElem?_mid ..
        rw [List.getElem?_append_left hlt] at h1
        have : d0 ∈ l1 := List.mem_of_getElem? h1
        rw [hl d0 this] at hd0; exact Bool.false_ne_true hd0
      · exact heq
      · exfalso
        have h1 : (m1 ++ d0 :: m2)[l1.length]? = some c0 := by rw [← e]; exact getElem?_mid ..
        rw [List.getElem?_append_left hgt] at h1
        have : c0 ∈ m1 := List.mem_of_getElem? h1
        rw [hm c0 this] at hc; exact Bool.false_ne_true hc
    rw [hlen] at hi
    rcases hres : reuseIdx K r (l1 ++ c0 :: l2) 0 none with ⟨a, b⟩
    rw [hres] at hi h1
    simp only [Nat.zero_add] at hi h1
    rw [hi, h1]

theorem reuseIdx_none_none (K : Calc R S) (r : R) (old : List (Ctl R S))
    (he : ∀ x ∈ old, K.eq x.rule r = false) (hs : ∀ x ∈ old, K.sr x.rule r = false) :
    reuseIdx K r old 0 none = (none, none) := by
  have h1 := reuseIdx_fst_none K r old 0 none he
  rcases reuseIdx_snd K r old 0 he with ⟨h2, _⟩ | ⟨m1, d0, m2, e, _, hd0, _⟩
  · rcases hres : reuseIdx K r old 0 none with ⟨a, b⟩
    rw [hres] at h1 h2
    simp only at h1 h2
    rw [h1, h2]
  · have := hs d0 (by rw [e]; simp)
    rw [this] at hd0; exact absurd hd0 Bool.false_ne_true

/-- the three ways one step of `noStealS` can go -/
theorem noStealS_cons_eq (K : Calc R S) (r : R) (rs : List R) (l1 : List (Ctl R S)) (c0 : Ctl R S) (l2 : List (Ctl R S))
    (hl : ∀ x ∈ l1, K.eq x.rule r = false) (hc : K.eq c0.rule r = true) :
    noStealS K (r :: rs) (l1 ++ c0 :: l2) = noStealS K rs (l1 ++ l2) := by
  have h := reuseIdx_eq_mid K r l1 c0 l2 hl hc
  rcases hres : reuseIdx K r (l1 ++ c0 :: l2) 0 none with ⟨a, b⟩
  rw [hres] at h
  simp only at h
  subst h
  conv_lhs => rw [noStealS]
  rw [hres]
  simp only [eraseIdx_mid]

theorem noStealS_cons_stat (K : Calc R S) (r : R) (rs : List R) (l1 : List (Ctl R S)) (c0 : Ctl R S) (l2 : List (Ctl R S))
    (he : ∀ x ∈ l1 ++ c0 :: l2, K.eq x.rule r = false)
    (hl : ∀ x ∈ l1, K.sr x.rule r = false) (hc : K.sr c0.rule r = true) :
    noStealS K (r :: rs) (l1 ++ c0 :: l2)
      = ((rs.all fun r' => !K.eq c0.rule r' && !K.eq c0.rule (K.norm r')) && noStealS K rs (l1 ++ l2)) := by
  have hres := reuseIdx_stat_mid K r l1 c0 l2 he hl hc
  conv_lhs => rw [noStealS]
  rw [hres]
  simp only [getElem?_mid, eraseIdx_mid]

theorem noStealS_cons_fresh (K : Calc R S) (r : R) (rs : List R) (old : List (Ctl R S))
    (he : ∀ x ∈ old, K.eq x.rule r = false) (hs : ∀ x ∈ old, K.sr x.rule r = false) :
    noStealS K (r :: rs) old = noStealS K rs old := by
  have hres := reuseIdx_none_none K r old he hs
  conv_lhs => rw [noStealS]
  rw [hres]

/-- `noStealB` only gets easier with fewer candidates -/
theorem noStealB_mono (K : Calc R S) (rs : List R) (old old' : List (Ctl R S)) (hsub : ∀ c ∈ old', c ∈ old)
    (h : noStealB K rs old = true) : noStealB K rs old' = true := by
  induction rs with
  | nil => rfl
  | cons r rs ih =>
    simp only [noStealB, Bool.and_eq_true, List.all_eq_true] at h ⊢
    exact ⟨fun c hc => h.1 c (hsub c hc), ih h.2⟩

end Sentinel.Reuse
