import Sentinel.Lemmas.FlowReject
/-!
# Refinement of the general flow slot: throttling rules in the chain, ns clock, reloads

`RepG s r latest` relates the executed state `s` (leap arrays) to the reference state `r` (admitted history,
rules in force with their `since` offsets and `lastPassedTime`s). `entryG_step` and `reloadG_step` re-establish it;
`runOps_eq_ref` lifts them to whole op histories.
-/
namespace Sentinel.FlowReject
open Sentinel.LA

/-- what relates a model controller to its reference controller -/
structure PairOk (ns : Nodes) (H : List Arrival) (latest : Nat) (c : Ctrl) (rc : RCtrl) : Prop where
  info : c.info = rc.info
  last : c.last = rc.last
  since_le : rc.since ≤ H.length
  srcNode : c.rule.kind = .reject → lookup ns c.rule.src ≠ none
  nbad : c.rule.kind = .reject → c.geom ≠ .bad
  own : ∀ n L, c.rule.kind = .reject → c.geom = .own n L →
    0 < n ∧ 0 < L ∧ Tracks c.own n L (histOf (H.drop rc.since) c.rule.res) latest
  view : ∀ Iv, c.rule.kind = .reject → c.geom = .view Iv → 0 < Iv ∧ Iv ≤ gN * gL

structure RepG (s : St) (r : RSt) (latest : Nat) : Prop where
  pairs : List.Forall₂ (PairOk s.nodes r.H latest) s.ctrls r.ctrls
  nodes : ∀ q a, lookup s.nodes q = some a → Tracks a gN gL (histOf r.H q) latest
  hNode : ∀ a ∈ r.H, lookup s.nodes a.res ≠ none

theorem PairOk.rule_eq {ns H latest c rc} (p : PairOk ns H latest c rc) : c.rule = rc.info.rule := by
  have := congrArg RuleInfo.rule p.info; exact this
theorem PairOk.geom_eq {ns H latest c rc} (p : PairOk ns H latest c rc) : c.geom = rc.info.geom := by
  have := congrArg RuleInfo.geom p.info; exact this
theorem PairOk.idx_eq {ns H latest c rc} (p : PairOk ns H latest c rc) : c.idx = rc.info.idx := by
  have := congrArg RuleInfo.idx p.info; exact this

/-- nodes may appear, time may pass -/
theorem PairOk.mono {ns H latest c rc} (p : PairOk ns H latest c rc) {ns' : Nodes} {latest' : Nat}
    (hn : ∀ q, lookup ns q ≠ none → lookup ns' q ≠ none) (hl : latest ≤ latest') : PairOk ns' H latest' c rc :=
  ⟨p.info, p.last, p.since_le, fun hk => hn _ (p.srcNode hk), p.nbad,
    fun n L hk hg => let ⟨a, b, t⟩ := p.own n L hk hg; ⟨a, b, t.idle hl⟩, p.view⟩

theorem PairOk.setLast {ns H latest c rc} (p : PairOk ns H latest c rc) (l : Int) :
    PairOk ns H latest { c with last := l } { rc with last := l } :=
  ⟨p.info, rfl, p.since_le, p.srcNode, p.nbad, p.own, p.view⟩

/-- a reject controller answers like the reference: window tokens of the feeding resource, recomputed from
    the admitted history (from `since` on for an independent window) -/
theorem PairOk.blocks_eq {ns H latest c rc} (p : PairOk ns H latest c rc)
    (hnodes : ∀ q a, lookup ns q = some a → Tracks a gN gL (histOf H q) latest)
    (hk : c.rule.kind = .reject) {ms : Nat} (hle : latest ≤ ms) (b : Nat) :
    c.blocks ns ms b = rc.info.rule.thr.exceeds (rc.tokens RuleInfo.feed H ms + b) := by
  have hcur : c.cur ns ms = rc.tokens RuleInfo.feed H ms := by
    unfold Ctrl.cur RCtrl.tokens windowTokens
    rw [← p.geom_eq]
    cases hg : c.geom with
    | bad => exact absurd hg (p.nbad hk)
    | view Iv =>
      obtain ⟨_, hIv⟩ := p.view Iv hk hg
      have hs := p.srcNode hk
      cases hl : lookup ns c.rule.src with
      | none => exact absurd hl hs
      | some a =>
        have hgi : rc.info.geom = .view Iv := by rw [← p.geom_eq]; exact hg
        simp only [RuleInfo.feed, RuleInfo.L, RuleInfo.Iv, hgi, ← p.rule_eq]
        exact (hnodes _ a hl).read hle (by decide) (by decide) Iv hIv
    | own n L =>
      obtain ⟨hn, hL, tk⟩ := p.own n L hk hg
      have hgi : rc.info.geom = .own n L := by rw [← p.geom_eq]; exact hg
      simp only [RuleInfo.feed, RuleInfo.L, RuleInfo.Iv, hgi, ← p.rule_eq]
      exact tk.read hle hn hL (n * L) (le_refl _)
  unfold Ctrl.blocks
  rw [hcur, ← p.rule_eq]
  cases hr : c.rule.ref with
  | none => rfl
  | some q =>
    have hs := p.srcNode hk
    simp only [Rule.src, hr, Option.getD_some] at hs
    cases hl : lookup ns q with
    | none => exact absurd hl hs
    | some a => simp only [hl]

theorem chainG_time_le {α : Type} (O : ChainOps α) (res b : Nat) (cs : List α) (t : Nat) : t ≤ (chainG O res b cs t).2.1 := by
  induction cs generalizing t with
  | nil => exact le_refl _
  | cons c r ih =>
    simp only [chainG]
    by_cases hr : (O.rule c).res ≠ res
    · rw [if_pos hr]; exact ih t
    · rw [if_neg hr]
      cases (O.rule c).kind with
      | reject =>
        simp only
        by_cases hb : O.blocks c (t / nsPerMs) b = true
        · rw [if_pos hb]
        · rw [if_neg hb]; exact ih t
      | throttle maxQ =>
        simp only
        rcases Throttle.doCheck ((maxQ * nsPerMs : Nat) : Int) (O.last c) (t : Int)
            (throttleReq (O.rule c).thr (O.rule c).iv b) with ⟨l, o⟩
        cases o with
        | block => exact le_refl _
        | pass => exact ih t
        | wait w => exact le_trans (Nat.le_add_right _ _) (ih _)


theorem recOne_last (res now b : Nat) (c : Ctrl) : (recOne res now b c).last = c.last := by
  unfold recOne
  cases c.geom <;> simp only [] <;> (try split_ifs) <;> rfl

theorem PairOk.record {ns H ms c rc} (p : PairOk ns H ms c rc) (res b : Nat) {ns' : Nodes}
    (hn : ∀ q, lookup ns q ≠ none → lookup ns' q ≠ none) :
    PairOk ns' (H ++ [⟨ms, res, b⟩]) ms (recOne res ms b c) rc := by
  obtain ⟨_, h2, h3, h4⟩ := recOne_facts res ms b c
  refine ⟨by rw [recOne_info]; exact p.info, by rw [recOne_last]; exact p.last,
    le_trans p.since_le (by simp), ?_, ?_, ?_, ?_⟩
  · intro hk; rw [h2] at hk ⊢; exact hn _ (p.srcNode hk)
  · intro hk; rw [h2] at hk; rw [h3]; exact p.nbad hk
  · intro n L hk hg
    rw [h2] at hk; rw [h3] at hg
    obtain ⟨hn', hL, tk⟩ := p.own n L hk hg
    refine ⟨hn', hL, ?_⟩
    rw [h2, h4, hg, List.drop_append_of_le_length p.since_le, histOf_append]
    simp only
    by_cases hr : c.rule.res = res
    · subst hr
      simp only [if_true]
      exact tk.write (le_refl _) b
    · have : ¬ res = c.rule.res := fun e => hr e.symm
      simp only [hr, this, if_false]
      exact tk
  · intro Iv hk hg
    rw [h2] at hk; rw [h3] at hg
    exact p.view Iv hk hg

theorem RepG.idle {s r latest} (rep : RepG s r latest) {now : Nat} (h : latest ≤ now) : RepG s r now :=
  ⟨rep.pairs.imp (fun _ _ p => p.mono (fun _ hq => hq) h), fun q a ha => (rep.nodes q a ha).idle h, rep.hNode⟩

theorem RepG.ensure {s r latest} (rep : RepG s r latest) {now : Nat} (hle : latest ≤ now) (h0 : 0 < now) (res : Nat) :
    RepG { s with nodes := Sentinel.FlowReject.ensure s.nodes res now } r now := by
  have hpres : ∀ q, lookup s.nodes q ≠ none → lookup (Sentinel.FlowReject.ensure s.nodes res now) q ≠ none := by
    intro q hq
    cases hl : lookup s.nodes q with
    | none => exact absurd hl hq
    | some x => rw [lookup_ensure_some hl]; simp
  refine ⟨rep.pairs.imp (fun _ _ p => p.mono hpres hle), ?_, fun a ha => hpres _ (rep.hNode a ha)⟩
  intro q a ha
  dsimp only at ha
  cases hl : lookup s.nodes q with
  | some x =>
    rw [lookup_ensure_some hl] at ha
    cases ha
    exact (rep.nodes q _ hl).idle hle
  | none =>
    rw [lookup_ensure_none hl] at ha
    split_ifs at ha with e
    cases ha
    subst e
    rw [histOf_nil_of_absent]
    · exact Tracks.fresh gN gL now h0
    · intro a ha e
      exact rep.hNode a ha (by rw [e]; exact hl)

/-- **one entry through the general slot** -/
theorem entryG_step {s r latest} (rep : RepG s r latest) {t : Nat} (hle : latest ≤ t / nsPerMs) (hpos : 0 < t / nsPerMs)
    (res b : Nat) :
    (entryG s res t b).2 = (refEntryG RuleInfo.feed r res t b).2 ∧
    RepG (entryG s res t b).1 (refEntryG RuleInfo.feed r res t b).1 ((entryG s res t b).2.1 / nsPerMs) := by
  have rep1 := rep.ensure hle hpos res
  set ns := ensure s.nodes res (t / nsPerMs) with hns
  -- the chain walk
  have hch := chainG_rel (modelOps ns) (refOps RuleInfo.feed r.H) (PairOk ns r.H (t / nsPerMs))
    (fun a b p => ⟨p.rule_eq, p.idx_eq, p.last⟩) (fun a b l p => p.setLast l) res b s.ctrls r.ctrls rep1.pairs t
    (fun a rc p hk ms hms => by
      have hk' : a.rule.kind = .reject := by rw [p.rule_eq]; exact hk
      exact p.blocks_eq rep1.nodes hk' hms b)
  obtain ⟨heq, hpairs⟩ := hch
  have htle := chainG_time_le (modelOps ns) res b s.ctrls t
  set x := chainG (modelOps ns) res b s.ctrls t with hx
  set y := chainG (refOps RuleInfo.feed r.H) res b r.ctrls t with hy
  have hms : t / nsPerMs ≤ x.2.1 / nsPerMs := Nat.div_le_div_right htle
  have hms0 : x.2.1 / nsPerMs ≠ 0 := by omega
  have hE : entryG s res t b = (statPhase { nodes := ns, ctrls := x.1 } res (x.2.1 / nsPerMs) b x.2.2, x.2.1, x.2.2) := rfl
  have hR : refEntryG RuleInfo.feed r res t b =
      ({ ctrls := y.1, H := if y.2.2.isNone && y.2.1 / nsPerMs != 0 then r.H ++ [{ t := y.2.1 / nsPerMs, res := res, b := b }] else r.H },
        y.2.1, y.2.2) := rfl
  rw [hE, hR]
  refine ⟨heq, ?_⟩
  have e1 : y.2.1 = x.2.1 := by rw [← heq]
  have e2 : y.2.2 = x.2.2 := by rw [← heq]
  simp only [e1, e2]
  -- aged pairs
  have hp' : List.Forall₂ (PairOk ns r.H (x.2.1 / nsPerMs)) x.1 y.1 := hpairs.imp (fun _ _ p => p.mono (fun _ h => h) hms)
  have hnodes' : ∀ q a, lookup ns q = some a → Tracks a gN gL (histOf r.H q) (x.2.1 / nsPerMs) :=
    fun q a ha => (rep1.nodes q a ha).idle hms
  cases hd : x.2.2 with
  | some i =>
    simp only [statPhase, Option.isNone_some, Bool.false_and, Bool.false_eq_true, if_false]
    refine ⟨hp'.imp (fun _ _ p => p.mono (fun q hq => (lookup_touches_ne_none ..).mpr hq) (le_refl _)), ?_, ?_⟩
    · intro q a ha
      have := tracks_touches ns res (x.2.1 / nsPerMs) [0] (fun q => histOf r.H q) _ (le_refl _) hnodes' q a ha
      refine this.congr ?_
      intro lo hi
      by_cases hq : q = res
      · simp only [hq, if_true, List.map_cons, List.map_nil]; exact refW_block_events ..
      · simp only [hq, if_false]
    · intro a ha
      exact (lookup_touches_ne_none ..).mpr (rep1.hNode a ha)
  | none =>
    have hne : (x.2.1 / nsPerMs != 0) = true := by simpa using hms0
    simp only [statPhase, Option.isNone_none, Bool.true_and, hne, if_true, standaloneRecord_eq]
    refine ⟨?_, ?_, ?_⟩
    · rw [List.forall₂_map_left_iff]
      exact hp'.imp (fun _ _ p => p.record res b (fun q hq => (lookup_touches_ne_none ..).mpr hq))
    · intro q a ha
      have := tracks_touches ns res (x.2.1 / nsPerMs) [0, b, 0, 0] (fun q => histOf r.H q) _ (le_refl _) hnodes' q a ha
      refine this.congr ?_
      intro lo hi
      rw [histOf_append]
      by_cases hq : q = res
      · subst hq; simp only [if_true, List.map_cons, List.map_nil]; exact refW_pass_events ..
      · have : ¬ res = q := fun e => hq e.symm
        simp only [hq, this, if_false]
    · intro a ha
      rw [lookup_touches_ne_none]
      rcases List.mem_append.mp ha with h | h
      · exact rep1.hNode a h
      · simp at h; subst h; exact lookup_ensure_self s.nodes res (t / nsPerMs)



/-! ## reloading preserves the invariant -/

theorem forall₂_getElem? {α β : Type} {R : α → β → Prop} {l1 : List α} {l2 : List β} (h : List.Forall₂ R l1 l2) (i : Nat) :
    (l1[i]? = none ∧ l2[i]? = none) ∨ ∃ a b, l1[i]? = some a ∧ l2[i]? = some b ∧ R a b := by
  induction h generalizing i with
  | nil => left; simp
  | cons hab _ ih =>
    cases i with
    | zero => right; exact ⟨_, _, by simp, by simp, hab⟩
    | succ j => simpa using ih j

theorem forall₂_eraseIdx {α β : Type} {R : α → β → Prop} {l1 : List α} {l2 : List β} (h : List.Forall₂ R l1 l2) (i : Nat) :
    List.Forall₂ R (l1.eraseIdx i) (l2.eraseIdx i) := by
  induction h generalizing i with
  | nil => simp
  | cons hab hr ih =>
    cases i with
    | zero => simpa using hr
    | succ j => simpa using List.Forall₂.cons hab (ih j)

theorem forall₂_snoc {α β : Type} {R : α → β → Prop} {l1 : List α} {l2 : List β} (h : List.Forall₂ R l1 l2) {a : α} {b : β}
    (hab : R a b) : List.Forall₂ R (l1 ++ [a]) (l2 ++ [b]) :=
  List.rel_append h (List.Forall₂.cons hab List.Forall₂.nil)

theorem pairs_rules_eq {ns H latest} {cs : List Ctrl} {rs : List RCtrl} (h : List.Forall₂ (PairOk ns H latest) cs rs) :
    cs.map (·.rule) = rs.map (·.info.rule) := by
  induction h with
  | nil => rfl
  | cons p _ ih => simp only [List.map_cons, ih, p.rule_eq]

/-- a stat-reuse index names an old rule that is stat-reusable with the new one -/
theorem reuseIdx_reuse_spec (r : Rule) (os : List Rule) (i : Nat) (reuse e : Option Nat) (j : Nat)
    (h : reuseIdx r os i reuse = (e, some j)) :
    reuse = some j ∨ (i ≤ j ∧ ∃ o, os[j - i]? = some o ∧ o.statReusable r = true) := by
  induction os generalizing i reuse with
  | nil => simp only [reuseIdx, Prod.mk.injEq] at h; exact Or.inl h.2
  | cons o os ih =>
    simp only [reuseIdx] at h
    split_ifs at h with h1 h2
    · simp only [Prod.mk.injEq] at h; exact Or.inl h.2
    · rcases ih (i + 1) (some i) h with h' | ⟨hle, o', ho', hs⟩
      · simp only [Option.some.injEq] at h'
        subst h'
        right
        refine ⟨le_refl _, o, by simp, ?_⟩
        simp only [Bool.and_eq_true] at h2
        exact h2.1
      · right
        refine ⟨by omega, o', ?_, hs⟩
        have : j - i = (j - (i + 1)) + 1 := by omega
        rw [this]; simpa using ho'
    · rcases ih (i + 1) reuse h with h' | ⟨hle, o', ho', hs⟩
      · exact Or.inl h'
      · right
        refine ⟨by omega, o', ?_, hs⟩
        have : j - i = (j - (i + 1)) + 1 := by omega
        rw [this]; simpa using ho'



theorem ensure_presence (ns : Nodes) (r now : Nat) : ∀ q, lookup ns q ≠ none → lookup (Sentinel.FlowReject.ensure ns r now) q ≠ none := by
  intro q hq
  cases hl : lookup ns q with
  | none => exact absurd hl hq
  | some x => rw [lookup_ensure_some hl]; simp

theorem reloadFrom_rep (rules : List Rule) (now : Nat) (h0 : 0 < now) (H : List Arrival)
    (pool : List Ctrl) (rpool : List RCtrl) (acc : St) (racc : List RCtrl) (i : Nat)
    (hpool : List.Forall₂ (PairOk acc.nodes H now) pool rpool)
    (hacc : List.Forall₂ (PairOk acc.nodes H now) acc.ctrls racc)
    (hnodes : ∀ q a, lookup acc.nodes q = some a → Tracks a gN gL (histOf H q) now)
    (hN : ∀ a ∈ H, lookup acc.nodes a.res ≠ none) :
    RepG (reloadFrom pool acc now i rules) { ctrls := refReloadFrom rpool racc H.length i rules, H := H } now := by
  induction rules generalizing pool rpool acc racc i with
  | nil => exact ⟨hacc, hnodes, hN⟩
  | cons r rs ih =>
    simp only [reloadFrom, refReloadFrom]
    by_cases hv : r.valid = true
    swap
    · simp only [hv]
      exact ih pool rpool acc racc (i + 1) hpool hacc hnodes hN
    simp only [hv, if_true]
    rw [← pairs_rules_eq hpool]
    rcases hri : reuseIdx r (pool.map (·.rule)) 0 none with ⟨eo, jo⟩
    cases eo with
    | some e =>
      simp only [hri]
      rcases forall₂_getElem? hpool e with ⟨h1, h2⟩ | ⟨c, rc, h1, h2, p⟩
      · simp only [h1, h2]
        exact ih pool rpool acc racc (i + 1) hpool hacc hnodes hN
      · simp only [h1, h2]
        exact ih (pool.eraseIdx e) (rpool.eraseIdx e) { acc with ctrls := acc.ctrls ++ [c] } (racc ++ [rc]) (i + 1)
          (forall₂_eraseIdx hpool e) (forall₂_snoc hacc p) hnodes hN
    | none =>
      cases jo with
      | some j =>
        simp only [hri]
        rcases forall₂_getElem? hpool j with ⟨h1, h2⟩ | ⟨c, rc, h1, h2, p⟩
        · simp only [h1, h2]
          exact ih pool rpool acc racc (i + 1) hpool hacc hnodes hN
        · simp only [h1, h2]
          -- the donor's rule is stat-reusable with `r`
          have hsr : c.rule.statReusable r = true := by
            rcases reuseIdx_reuse_spec r _ 0 none none j hri with h | ⟨_, o, ho, hs⟩
            · cases h
            · have : (pool.map (·.rule))[j]? = some c.rule := by simp [h1]
              simp only [Nat.sub_zero] at ho
              rw [this] at ho; cases ho; exact hs
          simp only [Rule.statReusable, Bool.and_eq_true, decide_eq_true_eq] at hsr
          obtain ⟨⟨⟨⟨e1, e2⟩, e3⟩, e4⟩, e5⟩ := hsr
          have hsrc : r.src = c.rule.src := by simp [Rule.src, e1, e2]
          have p' : PairOk acc.nodes H now { idx := i, rule := r, geom := c.geom, own := c.own }
              { info := { idx := i, rule := r, geom := rc.info.geom }, since := rc.since, born := H.length } :=
            ⟨by simp [Ctrl.info, p.geom_eq], rfl, p.since_le,
              fun _ => (by show lookup acc.nodes r.src ≠ none; rw [hsrc]; exact p.srcNode e4),
              fun _ => p.nbad e4,
              fun n L _ hg => (by
                have := p.own n L e4 hg
                show 0 < n ∧ 0 < L ∧ Tracks c.own n L (histOf (H.drop rc.since) r.res) now
                rw [← e1]; exact this),
              fun Iv _ hg => p.view Iv e4 hg⟩
          exact ih (pool.eraseIdx j) (rpool.eraseIdx j) { acc with ctrls := acc.ctrls ++ [_] } (racc ++ [_]) (i + 1)
            (forall₂_eraseIdx hpool j) (forall₂_snoc hacc p') hnodes hN
      | none =>
        simp only [hri]
        cases hk : r.kind with
        | throttle mq =>
          simp only [mkCtrlG, hk]
          have hno : r.kind = .reject → False := fun h => by rw [hk] at h; cases h
          have p' : PairOk acc.nodes H now { idx := i, rule := r, geom := .bad, own := { n := 1, L := 1, slots := [] } }
              { info := { idx := i, rule := r, geom := .bad }, born := H.length } :=
            ⟨rfl, rfl, Nat.zero_le _, fun h => (hno h).elim, fun h => (hno h).elim,
              fun n L h => (hno h).elim, fun Iv h => (hno h).elim⟩
          exact ih pool rpool { nodes := acc.nodes, ctrls := acc.ctrls ++ [_] } (racc ++ [_]) (i + 1) hpool
            (forall₂_snoc hacc p') hnodes hN
        | reject =>
          simp only [mkCtrlG, hk]
          have rep1 := (RepG.ensure (s := acc) (r := { ctrls := racc, H := H }) ⟨hacc, hnodes, hN⟩ (le_refl now) h0 r.src)
          have hpool1 : List.Forall₂ (PairOk (Sentinel.FlowReject.ensure acc.nodes r.src now) H now) pool rpool :=
            hpool.imp (fun _ _ p => p.mono (ensure_presence acc.nodes r.src now) (le_refl _))
          have hself := lookup_ensure_self acc.nodes r.src now
          unfold mkCtrl
          cases hg : geomFor r.iv with
          | bad =>
            try simp only
            exact ih pool rpool { acc with nodes := Sentinel.FlowReject.ensure acc.nodes r.src now } racc (i + 1) hpool1
              rep1.pairs rep1.nodes rep1.hNode
          | view Iv =>
            try simp only
            have p' : PairOk (Sentinel.FlowReject.ensure acc.nodes r.src now) H now
                { idx := i, rule := r, geom := .view Iv, own := { n := 1, L := 1, slots := [] } }
                { info := { idx := i, rule := r, geom := .view Iv }, since := H.length, born := H.length } :=
              ⟨rfl, rfl, le_refl _, fun _ => hself, fun _ => (by simp),
                fun n L _ h => (by cases h), fun Iv' _ h => (by cases h; exact geomFor_view hg)⟩
            exact ih pool rpool { nodes := Sentinel.FlowReject.ensure acc.nodes r.src now, ctrls := acc.ctrls ++ [_] } (racc ++ [_]) (i + 1)
              hpool1 (forall₂_snoc rep1.pairs p') rep1.nodes rep1.hNode
          | own n L =>
            try simp only
            have p' : PairOk (Sentinel.FlowReject.ensure acc.nodes r.src now) H now
                { idx := i, rule := r, geom := .own n L, own := mk n L now }
                { info := { idx := i, rule := r, geom := .own n L }, since := H.length, born := H.length } :=
              ⟨rfl, rfl, le_refl _, fun _ => hself, fun _ => (by simp),
                fun n' L' _ h => (by
                  cases h
                  refine ⟨(geomFor_own hg).1, (geomFor_own hg).2, ?_⟩
                  simp only [List.drop_length]
                  exact Tracks.fresh n L now h0),
                fun Iv' _ h => (by cases h)⟩
            exact ih pool rpool { nodes := Sentinel.FlowReject.ensure acc.nodes r.src now, ctrls := acc.ctrls ++ [_] } (racc ++ [_]) (i + 1)
              hpool1 (forall₂_snoc rep1.pairs p') rep1.nodes rep1.hNode

/-- **a reload** (`flow.LoadRules` on a live manager) re-establishes the invariant: kept windows keep their
    leap-array invariant, fresh windows start empty at the reload time -/
theorem reloadG_step {s r latest} (rep : RepG s r latest) {now : Nat} (hle : latest ≤ now) (h0 : 0 < now)
    (rules : List Rule) (base : Nat) :
    RepG (reloadG s rules now base) (refReloadG r rules base) now := by
  have rep' := rep.idle hle
  exact reloadFrom_rep rules now h0 r.H s.ctrls r.ctrls { nodes := s.nodes, ctrls := [] } [] base
    rep'.pairs List.Forall₂.nil rep'.nodes rep'.hNode



/-! ## `LoadRulesOfResource` -/

theorem forall₂_filter {α β : Type} {R : α → β → Prop} {l1 : List α} {l2 : List β} (h : List.Forall₂ R l1 l2)
    (p : α → Bool) (q : β → Bool) (hpq : ∀ a b, R a b → p a = q b) : List.Forall₂ R (l1.filter p) (l2.filter q) := by
  induction h with
  | nil => exact List.Forall₂.nil
  | cons hab _ ih =>
    simp only [List.filter_cons, hpq _ _ hab]
    split_ifs
    · exact List.Forall₂.cons hab ih
    · exact ih

theorem reloadFrom_presence (rules : List Rule) (now : Nat) (pool : List Ctrl) (acc : St) (i : Nat) :
    ∀ q, lookup acc.nodes q ≠ none → lookup (reloadFrom pool acc now i rules).nodes q ≠ none := by
  induction rules generalizing pool acc i with
  | nil => intro q h; exact h
  | cons r rs ih =>
    intro q hq
    simp only [reloadFrom]
    split_ifs
    swap
    · exact ih pool acc (i + 1) q hq
    split
    · split
      · exact ih _ _ (i + 1) q hq
      · exact ih pool acc (i + 1) q hq
    · split
      · exact ih _ _ (i + 1) q hq
      · exact ih pool acc (i + 1) q hq
    · have hq' : lookup (match r.kind with | .reject => Sentinel.FlowReject.ensure acc.nodes r.src now | _ => acc.nodes) q ≠ none := by
        cases r.kind with
        | reject => exact ensure_presence acc.nodes r.src now q hq
        | throttle _ => exact hq
      split
      · exact ih _ _ (i + 1) q hq'
      · exact ih _ _ (i + 1) q hq'

theorem loadresG_step {s r latest} (rep : RepG s r latest) {now : Nat} (hle : latest ≤ now) (h0 : 0 < now)
    (res : Nat) (rules : List Rule) (base : Nat) :
    RepG (loadresG s res rules now base) (refLoadresG r res rules base) now := by
  have rep' := rep.idle hle
  have hoth : List.Forall₂ (PairOk s.nodes r.H now) (s.ctrls.filter fun c => c.rule.res ≠ res)
      (r.ctrls.filter fun c => c.info.rule.res ≠ res) :=
    forall₂_filter rep'.pairs _ _ (fun a b p => by rw [p.rule_eq])
  have hsel : List.Forall₂ (PairOk s.nodes r.H now) (s.ctrls.filter fun c => c.rule.res = res)
      (r.ctrls.filter fun c => c.info.rule.res = res) :=
    forall₂_filter rep'.pairs _ _ (fun a b p => by rw [p.rule_eq])
  unfold loadresG refLoadresG
  by_cases he : rules.isEmpty = true
  · simp only [he, if_true]
    exact ⟨hoth, rep'.nodes, rep'.hNode⟩
  · simp only [he]
    have hrep := reloadFrom_rep (forRes res rules) now h0 r.H _ _ { nodes := s.nodes, ctrls := [] } [] base
      hsel List.Forall₂.nil rep'.nodes rep'.hNode
    have hpres := reloadFrom_presence (forRes res rules) now (s.ctrls.filter fun c => c.rule.res = res)
      { nodes := s.nodes, ctrls := [] } base
    exact ⟨List.rel_append (hoth.imp (fun _ _ p => p.mono hpres (le_refl _))) hrep.pairs, hrep.nodes, hrep.hNode⟩

/-! ## whole op histories -/

structure RepM (m : MSt) (rm : RMSt) : Prop where
  rep : ∃ latest, latest ≤ m.t / nsPerMs ∧ RepG m.s rm.r latest
  t : m.t = rm.t
  n : m.nrules = rm.nrules
  pos : 0 < m.t / nsPerMs

theorem RepM.init (t0 : Nat) (h : 0 < t0 / nsPerMs) : RepM { t := t0 } { t := t0 } :=
  ⟨⟨0, Nat.zero_le _, ⟨List.Forall₂.nil, by intro q a h; simp [lookup] at h, by intro a h; simp at h⟩⟩, rfl, rfl, h⟩

theorem stepOp_eq_ref {m : MSt} {rm : RMSt} (hm : RepM m rm) (o : Op) :
    (stepOp m o).2 = (refStepOp RuleInfo.feed rm o).2 ∧ RepM (stepOp m o).1 (refStepOp RuleInfo.feed rm o).1 := by
  obtain ⟨⟨latest, hl, rep⟩, ht, hn, hpos⟩ := hm
  cases o with
  | clock ms =>
    simp only [stepOp, refStepOp]
    have hmono : m.t / nsPerMs ≤ max m.t (ms * nsPerMs) / nsPerMs := Nat.div_le_div_right (le_max_left _ _)
    exact ⟨trivial, ⟨latest, le_trans hl hmono, rep⟩, by rw [ht], hn, lt_of_lt_of_le hpos hmono⟩
  | load rules =>
    simp only [stepOp, refStepOp]
    have rep' := reloadG_step rep hl hpos rules m.nrules
    rw [hn] at rep'
    refine ⟨?_, ⟨m.t / nsPerMs, le_refl _, by rw [← hn] at rep' ⊢; exact rep'⟩, ht, by rw [hn], hpos⟩
    have := rep'.pairs.length_eq
    rw [← hn] at this ⊢
    simp only [Out.loaded.injEq]
    exact this
  | loadres res rules =>
    simp only [stepOp, refStepOp]
    have rep' := loadresG_step rep hl hpos res rules m.nrules
    rw [hn] at rep'
    refine ⟨?_, ⟨m.t / nsPerMs, le_refl _, by rw [← hn] at rep' ⊢; exact rep'⟩, ht, by rw [hn], hpos⟩
    have := rep'.pairs.length_eq
    rw [← hn] at this ⊢
    simp only [Out.loaded.injEq]
    exact this
  | entry res b =>
    simp only [stepOp, refStepOp]
    obtain ⟨heq, rep'⟩ := entryG_step rep hl hpos res b
    have htle : m.t ≤ (entryG m.s res m.t b).2.1 := chainG_time_le _ res b m.s.ctrls m.t
    rw [← ht]
    have e1 : (refEntryG RuleInfo.feed rm.r res m.t b).2.1 = (entryG m.s res m.t b).2.1 := by rw [← heq]
    have e2 : (refEntryG RuleInfo.feed rm.r res m.t b).2.2 = (entryG m.s res m.t b).2.2 := by rw [← heq]
    refine ⟨by rw [e1, e2], ⟨_, le_refl _, rep'⟩, e1.symm, hn, lt_of_lt_of_le hpos (Nat.div_le_div_right htle)⟩

/-- **every op history**: the executed model and the array-free reference produce the same observations
    (controller counts after loads, decisions with blocking-rule ids, time slept) -/
theorem runOps_eq_ref {m : MSt} {rm : RMSt} (hm : RepM m rm) (ops : List Op) :
    (runOps m ops).2 = (refRunOps RuleInfo.feed rm ops).2 ∧ RepM (runOps m ops).1 (refRunOps RuleInfo.feed rm ops).1 := by
  induction ops generalizing m rm with
  | nil => exact ⟨rfl, hm⟩
  | cons o r ih =>
    obtain ⟨h1, h2⟩ := stepOp_eq_ref hm o
    obtain ⟨h3, h4⟩ := ih h2
    simp only [runOps, refRunOps]
    exact ⟨by rw [h1, h3], h4⟩



/-! ## admission as a statement about windows and throttlers -/

/-- the request finds its way along the chain: every reject rule of `res` has room in its aligned window at the
    moment it is asked, every throttling rule lets it through — possibly after a wait, which moves the moment at
    which the rules behind it are asked -/
def Admits (srcOf : RuleInfo → Nat) (H : List Arrival) (res b : Nat) : List RCtrl → Nat → Prop
  | [], _ => True
  | c :: r, t =>
    if c.info.rule.res ≠ res then Admits srcOf H res b r t
    else match c.info.rule.kind with
      | .reject => c.info.rule.thr.exceeds (c.tokens srcOf H (t / nsPerMs) + b) = false ∧ Admits srcOf H res b r t
      | .throttle maxQ =>
        match (Throttle.doCheck ((maxQ * nsPerMs : Nat) : Int) c.last (t : Int) (throttleReq c.info.rule.thr c.info.rule.iv b)).2 with
        | .block => False
        | .pass => Admits srcOf H res b r t
        | .wait w => Admits srcOf H res b r (t + w.toNat)

theorem chainG_none_iff (srcOf : RuleInfo → Nat) (H : List Arrival) (res b : Nat) (cs : List RCtrl) (t : Nat) :
    (chainG (refOps srcOf H) res b cs t).2.2 = none ↔ Admits srcOf H res b cs t := by
  induction cs generalizing t with
  | nil => simp [chainG, Admits]
  | cons c r ih =>
    by_cases hr : c.info.rule.res = res
    · cases hk : c.info.rule.kind with
      | reject =>
        by_cases hb : c.info.rule.thr.exceeds (c.tokens srcOf H (t / nsPerMs) + b) = true
        · simp [chainG, Admits, refOps, hr, hk, hb]
        · have hb' : c.info.rule.thr.exceeds (c.tokens srcOf H (t / nsPerMs) + b) = false := by simpa using hb
          have := ih t
          simp only [chainG, Admits, refOps, hr, hk, hb', ne_eq, not_true_eq_false, if_false, true_and, Bool.false_eq_true] at this ⊢
          exact this
      | throttle maxQ =>
        have h1 := ih t
        simp only [chainG, Admits, refOps, hr, hk, ne_eq, not_true_eq_false, if_false] at h1 ⊢
        rcases hd : Throttle.doCheck ((maxQ * nsPerMs : Nat) : Int) c.last (t : Int) (throttleReq c.info.rule.thr c.info.rule.iv b) with ⟨l, o⟩
        cases o with
        | block => simp
        | pass => simpa using h1
        | wait w =>
          have h2 := ih (t + w.toNat)
          simp only [refOps] at h2
          simpa using h2
    · have := ih t
      simp only [chainG, Admits, refOps, hr, ne_eq, not_false_eq_true, if_true] at this ⊢
      exact this

theorem RCtrl.tokens_congr (f g : RuleInfo → Nat) (H : List Arrival) (c : RCtrl) (ms : Nat) (h : f c.info = g c.info) :
    c.tokens f H ms = c.tokens g H ms := by
  unfold RCtrl.tokens; rw [h]

theorem Admits_congr (f g : RuleInfo → Nat) (H : List Arrival) (res b : Nat) (cs : List RCtrl) (t : Nat)
    (h : ∀ c ∈ cs, f c.info = g c.info) : Admits f H res b cs t ↔ Admits g H res b cs t := by
  induction cs generalizing t with
  | nil => exact Iff.rfl
  | cons c r ih =>
    have ih' := fun t => ih t (fun c hc => h c (List.mem_cons_of_mem _ hc))
    by_cases hr : c.info.rule.res = res
    · cases hk : c.info.rule.kind with
      | reject =>
        simp only [Admits, hr, hk, ne_eq, not_true_eq_false, if_false]
        rw [RCtrl.tokens_congr f g H c _ (h c (List.mem_cons_self ..)), ih' t]
      | throttle maxQ =>
        simp only [Admits, hr, hk, ne_eq, not_true_eq_false, if_false]
        rcases (Throttle.doCheck ((maxQ * nsPerMs : Nat) : Int) c.last (t : Int) (throttleReq c.info.rule.thr c.info.rule.iv b)).2 with _ | w | _
        · exact ih' t
        · exact ih' _
        · exact Iff.rfl
    · simp only [Admits, hr, ne_eq, not_false_eq_true, if_true]
      exact ih' t



/-! ## window caps across reloads -/

theorem histOf_append_list (H1 H2 : List Arrival) (r : Nat) : histOf (H1 ++ H2) r = histOf H1 r ++ histOf H2 r := by
  simp [histOf, List.filter_append]

theorem refW_append_list (L : Nat) (h1 h2 : List (Nat × Nat)) (lo hi : Nat) :
    refW L (h1 ++ h2) lo hi = refW L h1 lo hi + refW L h2 lo hi := by
  simp [refW, List.map_append, List.sum_append]

/-- dropping more of the history can only lower a window count -/
theorem refW_drop_le (L : Nat) (H : List Arrival) (r : Nat) (j k : Nat) (hjk : j ≤ k) (lo hi : Nat) :
    refW L (histOf (H.drop k) r) lo hi ≤ refW L (histOf (H.drop j) r) lo hi := by
  have : H.drop j = (H.drop j).take (k - j) ++ H.drop k := by
    have h1 : H.drop k = (H.drop j).drop (k - j) := by rw [List.drop_drop]; congr 1; omega
    rw [h1, List.take_append_drop]
  rw [this, histOf_append_list, refW_append_list]
  omega

/-- an admitted request found room at every reject rule of its resource, at some moment between its arrival and the
    end of the walk -/
theorem chainG_none_room {α : Type} (O : ChainOps α) (res b : Nat) (cs : List α) (t : Nat)
    (h : (chainG O res b cs t).2.2 = none) :
    ∀ c ∈ cs, (O.rule c).res = res → (O.rule c).kind = .reject →
      ∃ tc, t ≤ tc ∧ tc ≤ (chainG O res b cs t).2.1 ∧ O.blocks c (tc / nsPerMs) b = false := by
  induction cs generalizing t with
  | nil => intro c hc; simp at hc
  | cons a r ih =>
    intro c hc hres hkind
    have hmono := fun t => chainG_time_le O res b r t
    by_cases hr : (O.rule a).res = res
    · cases hk : (O.rule a).kind with
      | reject =>
        by_cases hb : O.blocks a (t / nsPerMs) b = true
        · simp [chainG, hr, hk, hb] at h
        · have hb' : O.blocks a (t / nsPerMs) b = false := by simpa using hb
          simp only [chainG, hr, hk, hb', ne_eq, not_true_eq_false, if_false, Bool.false_eq_true] at h ⊢
          rcases List.mem_cons.mp hc with e | hc'
          · subst e; exact ⟨t, le_refl _, hmono t, hb'⟩
          · exact ih t h c hc' hres hkind
      | throttle maxQ =>
        simp only [chainG, hr, hk, ne_eq, not_true_eq_false, if_false] at h ⊢
        have hca : c ≠ a := fun e => by subst e; rw [hk] at hkind; cases hkind
        have hc' : c ∈ r := by rcases List.mem_cons.mp hc with e | h'; exact absurd e hca; exact h'
        rcases hd : Throttle.doCheck ((maxQ * nsPerMs : Nat) : Int) (O.last a) (t : Int) (throttleReq (O.rule a).thr (O.rule a).iv b) with ⟨l, o⟩
        rw [hd] at h
        cases o with
        | block => simp at h
        | pass => simp only at h ⊢; exact ih t h c hc' hres hkind
        | wait w =>
          simp only at h ⊢
          obtain ⟨tc, h1, h2, h3⟩ := ih (t + w.toNat) h c hc' hres hkind
          exact ⟨tc, by omega, h2, h3⟩
    · have hca : c ≠ a := fun e => by subst e; exact hr hres
      have hc' : c ∈ r := by rcases List.mem_cons.mp hc with e | h'; exact absurd e hca; exact h'
      simp only [chainG, hr, ne_eq, not_false_eq_true, if_true] at h ⊢
      exact ih t h c hc' hres hkind

/-- the chain walk changes nothing but `lastPassedTime`s -/
theorem chainG_ref_static (srcOf : RuleInfo → Nat) (H : List Arrival) (res b : Nat) (cs : List RCtrl) (t : Nat) :
    List.Forall₂ (fun c' c => c'.info = c.info ∧ c'.since = c.since ∧ c'.born = c.born)
      (chainG (refOps srcOf H) res b cs t).1 cs := by
  induction cs generalizing t with
  | nil => exact List.Forall₂.nil
  | cons a r ih =>
    have hrefl : List.Forall₂ (fun c' c : RCtrl => c'.info = c.info ∧ c'.since = c.since ∧ c'.born = c.born) r r :=
      List.forall₂_same.mpr (fun _ _ => ⟨rfl, rfl, rfl⟩)
    by_cases hr : a.info.rule.res = res
    · cases hk : a.info.rule.kind with
      | reject =>
        by_cases hb : a.info.rule.thr.exceeds (a.tokens srcOf H (t / nsPerMs) + b) = true
        · simp only [chainG, refOps, hr, hk, hb, ne_eq, not_true_eq_false, if_false, if_true]
          exact List.Forall₂.cons ⟨rfl, rfl, rfl⟩ hrefl
        · have := ih t
          simp only [chainG, refOps, hr, hk, hb, ne_eq, not_true_eq_false, if_false] at this ⊢
          exact List.Forall₂.cons ⟨rfl, rfl, rfl⟩ this
      | throttle maxQ =>
        have h1 := ih t
        simp only [chainG, refOps, hr, hk, ne_eq, not_true_eq_false, if_false] at h1 ⊢
        rcases Throttle.doCheck ((maxQ * nsPerMs : Nat) : Int) a.last (t : Int) (throttleReq a.info.rule.thr a.info.rule.iv b) with ⟨l, o⟩
        cases o with
        | block => exact List.Forall₂.cons ⟨rfl, rfl, rfl⟩ hrefl
        | pass => exact List.Forall₂.cons ⟨rfl, rfl, rfl⟩ h1
        | wait w =>
          have h2 := ih (t + w.toNat)
          simp only [refOps] at h2
          exact List.Forall₂.cons ⟨rfl, rfl, rfl⟩ h2
    · have := ih t
      simp only [chainG, refOps, hr, ne_eq, not_false_eq_true, if_true] at this ⊢
      exact List.Forall₂.cons ⟨rfl, rfl, rfl⟩ this



theorem forall₂_mem_left {α β : Type} {R : α → β → Prop} {l1 : List α} {l2 : List β} (h : List.Forall₂ R l1 l2) {a : α}
    (ha : a ∈ l1) : ∃ b ∈ l2, R a b := by
  induction h with
  | nil => simp at ha
  | cons hab _ ih =>
    rcases List.mem_cons.mp ha with e | h'
    · subst e; exact ⟨_, List.mem_cons_self .., hab⟩
    · obtain ⟨b, hb, hr⟩ := ih h'; exact ⟨b, List.mem_cons_of_mem _ hb, hr⟩

/-- cap invariant of a reference state: nothing is newer than `latest`; every controller knows since when it is in
    force (`born`), and every own-traffic reject rule has, in every window position, at most `T` tokens admitted since then -/
structure CappedG (r : RSt) (latest : Nat) : Prop where
  le : ∀ a ∈ r.H, a.t ≤ latest
  born : ∀ c ∈ r.ctrls, c.since ≤ c.born ∧ c.born ≤ r.H.length
  cap : ∀ c ∈ r.ctrls, c.info.rule.kind = .reject → c.info.feed = c.info.rule.res → ∀ e,
    c.info.rule.thr.exceeds (refW c.info.L (histOf (r.H.drop c.born) c.info.rule.res) (e + c.info.L - c.info.Iv) e) = false

theorem CappedG.idle {r latest} (cp : CappedG r latest) {now : Nat} (h : latest ≤ now) : CappedG r now :=
  ⟨fun a ha => le_trans (cp.le a ha) h, cp.born, cp.cap⟩

theorem CappedG.entry {r latest} (cp : CappedG r latest) {t : Nat} (hle : latest ≤ t / nsPerMs) (res b : Nat) :
    CappedG (refEntryG RuleInfo.feed r res t b).1 ((refEntryG RuleInfo.feed r res t b).2.1 / nsPerMs) := by
  have hstat := chainG_ref_static RuleInfo.feed r.H res b r.ctrls t
  have htle := chainG_time_le (refOps RuleInfo.feed r.H) res b r.ctrls t
  have hroom := chainG_none_room (refOps RuleInfo.feed r.H) res b r.ctrls t
  set x := chainG (refOps RuleInfo.feed r.H) res b r.ctrls t with hx
  have hR : refEntryG RuleInfo.feed r res t b =
      ({ ctrls := x.1, H := if x.2.2.isNone && x.2.1 / nsPerMs != 0 then r.H ++ [{ t := x.2.1 / nsPerMs, res := res, b := b }] else r.H },
        x.2.1, x.2.2) := rfl
  rw [hR]
  have hms : latest ≤ x.2.1 / nsPerMs := le_trans hle (Nat.div_le_div_right htle)
  by_cases hpass : (x.2.2.isNone && x.2.1 / nsPerMs != 0) = true
  swap
  · simp only [hpass]
    refine ⟨fun a ha => le_trans (cp.le a ha) hms, ?_, ?_⟩
    · intro c' hc'
      obtain ⟨c, hc, h1, h2, h3⟩ := forall₂_mem_left hstat hc'
      rw [h2, h3]; exact cp.born c hc
    · intro c' hc' hk hf e
      obtain ⟨c, hc, h1, h2, h3⟩ := forall₂_mem_left hstat hc'
      rw [h1, h3]; rw [h1] at hk hf; exact cp.cap c hc hk hf e
  simp only [hpass, if_true]
  simp only [Bool.and_eq_true, Option.isNone_iff_eq_none] at hpass
  set ms := x.2.1 / nsPerMs with hmsdef
  refine ⟨?_, ?_, ?_⟩
  · intro a ha
    rcases List.mem_append.mp ha with h | h
    · exact le_trans (cp.le a h) hms
    · simp at h; subst h; exact le_refl _
  · intro c' hc'
    obtain ⟨c, hc, h1, h2, h3⟩ := forall₂_mem_left hstat hc'
    rw [h2, h3]
    exact ⟨(cp.born c hc).1, le_trans (cp.born c hc).2 (by simp)⟩
  · intro c' hc' hk hf e
    obtain ⟨c, hc, h1, h2, h3⟩ := forall₂_mem_left hstat hc'
    rw [h1, h3]; rw [h1] at hk hf
    obtain ⟨hsb, hbl⟩ := cp.born c hc
    rw [List.drop_append_of_le_length hbl, histOf_append]
    dsimp only
    by_cases hr : res = c.info.rule.res
    swap
    · simp only [hr, if_false]; exact cp.cap c hc hk hf e
    simp only [hr, if_true]
    rw [refW_append]
    by_cases hin : e + c.info.L - c.info.Iv ≤ cbs c.info.L ms ∧ cbs c.info.L ms ≤ e
    swap
    · simp only [hin, if_false, Nat.add_zero]; exact cp.cap c hc hk hf e
    simp only [hin, and_self, if_true]
    -- the moment at which this rule was asked
    obtain ⟨tc, h1t, h2t, hblk⟩ := hroom hpass.1 c hc hr.symm hk
    have hmc1 : latest ≤ tc / nsPerMs := le_trans hle (Nat.div_le_div_right h1t)
    have hmc2 : tc / nsPerMs ≤ ms := Nat.div_le_div_right h2t
    -- its count at that moment, as a window over the history from `k` on, `k ≤ born`
    have hk' : ∃ k, k ≤ c.born ∧ c.tokens RuleInfo.feed r.H (tc / nsPerMs) =
        refW c.info.L (histOf (r.H.drop k) c.info.rule.res) (cbs c.info.L (tc / nsPerMs) + c.info.L - c.info.Iv) (cbs c.info.L (tc / nsPerMs)) := by
      unfold RCtrl.tokens windowTokens
      rw [hf]
      cases c.info.geom with
      | own n L => exact ⟨c.since, hsb, rfl⟩
      | view Iv => exact ⟨0, Nat.zero_le _, by simp⟩
      | bad => exact ⟨0, Nat.zero_le _, by simp⟩
    obtain ⟨k, hkb, htok⟩ := hk'
    have hblk' : c.info.rule.thr.exceeds (c.tokens RuleInfo.feed r.H (tc / nsPerMs) + b) = false := hblk
    rw [htok] at hblk'
    have hold : ∀ y ∈ histOf (r.H.drop k) c.info.rule.res, cbs c.info.L y.1 ≤ cbs c.info.L (tc / nsPerMs) := fun y hy =>
      cbs_mono c.info.L (le_trans (histOf_time_le (r.H.drop k) latest _ (fun a ha => cp.le a (List.mem_of_mem_drop ha)) y hy) hmc1)
    have hcm : cbs c.info.L (tc / nsPerMs) ≤ cbs c.info.L ms := cbs_mono c.info.L hmc2
    have h1 := refW_drop_le c.info.L r.H c.info.rule.res k c.born hkb (e + c.info.L - c.info.Iv) e
    have h2 : refW c.info.L (histOf (r.H.drop k) c.info.rule.res) (e + c.info.L - c.info.Iv) e ≤
        refW c.info.L (histOf (r.H.drop k) c.info.rule.res) (cbs c.info.L (tc / nsPerMs) + c.info.L - c.info.Iv) (cbs c.info.L (tc / nsPerMs)) := by
      apply refW_le_of_imp
      intro y hy hw
      have := hold y hy
      exact ⟨by omega, this⟩
    cases hx' : c.info.rule.thr.exceeds (refW c.info.L (histOf (r.H.drop c.born) c.info.rule.res) (e + c.info.L - c.info.Iv) e + b) with
    | false => rfl
    | true =>
      have := Thr.exceeds_mono c.info.rule.thr (Nat.add_le_add_right (le_trans h1 h2) b) hx'
      rw [this] at hblk'; cases hblk'



/-- after a reload every controller is an old one, or one that came into force now (`born = hlen`) and whose own
    window is either new or inherited from an old controller -/
theorem refReloadFrom_mem (rules : List Rule) (hlen : Nat) (pool acc : List RCtrl) (i : Nat) :
    ∀ c' ∈ refReloadFrom pool acc hlen i rules,
      c' ∈ acc ∨ c' ∈ pool ∨ (c'.born = hlen ∧ (c'.since ≤ hlen ∨ ∃ c ∈ pool, c'.since = c.since)) := by
  induction rules generalizing pool acc i with
  | nil => intro c' hc'; exact Or.inl hc'
  | cons r rs ih =>
    intro c' hc'
    simp only [refReloadFrom] at hc'
    -- every continuation is `refReloadFrom pool' acc' …` with pool' ⊆ pool and acc' = acc or acc ++ [new]
    have key : ∀ (pool' acc' : List RCtrl), (∀ x ∈ pool', x ∈ pool) →
        (∀ x ∈ acc', x ∈ acc ∨ x ∈ pool ∨ (x.born = hlen ∧ (x.since ≤ hlen ∨ ∃ c ∈ pool, x.since = c.since))) →
        c' ∈ refReloadFrom pool' acc' hlen (i + 1) rs →
        c' ∈ acc ∨ c' ∈ pool ∨ (c'.born = hlen ∧ (c'.since ≤ hlen ∨ ∃ c ∈ pool, c'.since = c.since)) := by
      intro pool' acc' hp ha hm
      rcases ih pool' acc' (i + 1) c' hm with h | h | ⟨hb, hs⟩
      · exact ha c' h
      · exact Or.inr (Or.inl (hp c' h))
      · refine Or.inr (Or.inr ⟨hb, ?_⟩)
        rcases hs with hs | ⟨c, hc, hs⟩
        · exact Or.inl hs
        · exact Or.inr ⟨c, hp c hc, hs⟩
    have hacc : ∀ x ∈ acc, x ∈ acc ∨ x ∈ pool ∨ (x.born = hlen ∧ (x.since ≤ hlen ∨ ∃ c ∈ pool, x.since = c.since)) :=
      fun x hx => Or.inl hx
    have hsnoc : ∀ (n : RCtrl), (n ∈ pool ∨ (n.born = hlen ∧ (n.since ≤ hlen ∨ ∃ c ∈ pool, n.since = c.since))) →
        ∀ x ∈ acc ++ [n], x ∈ acc ∨ x ∈ pool ∨ (x.born = hlen ∧ (x.since ≤ hlen ∨ ∃ c ∈ pool, x.since = c.since)) := by
      intro n hn x hx
      rcases List.mem_append.mp hx with h | h
      · exact Or.inl h
      · simp at h; subst h; exact Or.inr hn
    split_ifs at hc' with hv
    swap
    · exact key pool acc (fun _ h => h) hacc hc'
    split at hc'
    · -- equal
      rename_i e _ _
      split at hc'
      · rename_i c hce
        exact key _ _ (fun x hx => List.mem_of_mem_eraseIdx hx) (hsnoc c (Or.inl (List.mem_of_getElem? hce))) hc'
      · exact key pool acc (fun _ h => h) hacc hc'
    · rename_i j _
      split at hc'
      · rename_i c hcj
        exact key _ _ (fun x hx => List.mem_of_mem_eraseIdx hx)
          (hsnoc { info := { idx := i, rule := r, geom := c.info.geom }, since := c.since, born := hlen }
            (Or.inr ⟨rfl, Or.inr ⟨c, List.mem_of_getElem? hcj, rfl⟩⟩)) hc'
      · exact key pool acc (fun _ h => h) hacc hc'
    · split at hc'
      · exact key pool _ (fun _ h => h) (hsnoc _ (Or.inr ⟨rfl, Or.inl (Nat.zero_le _)⟩)) hc'
      · split at hc'
        · exact key pool acc (fun _ h => h) hacc hc'
        · exact key pool _ (fun _ h => h) (hsnoc _ (Or.inr ⟨rfl, Or.inl (le_refl _)⟩)) hc'

theorem CappedG.reload {r latest} (cp : CappedG r latest) (rules : List Rule) (base : Nat) :
    CappedG (refReloadG r rules base) latest := by
  refine ⟨cp.le, ?_, ?_⟩
  · intro c' hc'
    rcases refReloadFrom_mem rules r.H.length r.ctrls [] base c' hc' with h | h | ⟨hb, hs⟩
    · simp at h
    · exact cp.born c' h
    · show c'.since ≤ c'.born ∧ c'.born ≤ r.H.length
      rw [hb]
      refine ⟨?_, le_refl _⟩
      rcases hs with hs | ⟨c, hc, hs⟩
      · exact hs
      · rw [hs]; exact le_trans (cp.born c hc).1 (cp.born c hc).2
  · intro c' hc' hk hf e
    rcases refReloadFrom_mem rules r.H.length r.ctrls [] base c' hc' with h | h | ⟨hb, _⟩
    · simp at h
    · exact cp.cap c' h hk hf e
    · show c'.info.rule.thr.exceeds (refW c'.info.L (histOf (r.H.drop c'.born) c'.info.rule.res) (e + c'.info.L - c'.info.Iv) e) = false
      rw [hb, List.drop_length]
      simp [histOf, refW, Thr.not_exceeds_zero]

theorem CappedG.loadres {r latest} (cp : CappedG r latest) (res : Nat) (rules : List Rule) (base : Nat) :
    CappedG (refLoadresG r res rules base) latest := by
  unfold refLoadresG
  by_cases he : rules.isEmpty = true
  · simp only [he, if_true]
    exact ⟨cp.le, fun c hc => cp.born c (List.mem_of_mem_filter hc), fun c hc => cp.cap c (List.mem_of_mem_filter hc)⟩
  · simp only [he]
    have hmem : ∀ c' ∈ (r.ctrls.filter fun c => c.info.rule.res ≠ res) ++
        refReloadFrom (r.ctrls.filter fun c => c.info.rule.res = res) [] r.H.length base (forRes res rules),
        c' ∈ r.ctrls ∨ (c'.born = r.H.length ∧ (c'.since ≤ r.H.length ∨ ∃ c ∈ r.ctrls, c'.since = c.since)) := by
      intro c' hc'
      rcases List.mem_append.mp hc' with h | h
      · exact Or.inl (List.mem_of_mem_filter h)
      · rcases refReloadFrom_mem _ _ _ [] base c' h with h' | h' | ⟨hb, hs⟩
        · simp at h'
        · exact Or.inl (List.mem_of_mem_filter h')
        · refine Or.inr ⟨hb, ?_⟩
          rcases hs with hs | ⟨c, hc, hs⟩
          · exact Or.inl hs
          · exact Or.inr ⟨c, List.mem_of_mem_filter hc, hs⟩
    refine ⟨cp.le, ?_, ?_⟩
    · intro c' hc'
      rcases hmem c' hc' with h | ⟨hb, hs⟩
      · exact cp.born c' h
      · show c'.since ≤ c'.born ∧ c'.born ≤ r.H.length
        rw [hb]
        refine ⟨?_, le_refl _⟩
        rcases hs with hs | ⟨c, hc, hs⟩
        · exact hs
        · rw [hs]; exact le_trans (cp.born c hc).1 (cp.born c hc).2
    · intro c' hc' hk hf e
      rcases hmem c' hc' with h | ⟨hb, _⟩
      · exact cp.cap c' h hk hf e
      · show c'.info.rule.thr.exceeds (refW c'.info.L (histOf (r.H.drop c'.born) c'.info.rule.res) (e + c'.info.L - c'.info.Iv) e) = false
        rw [hb, List.drop_length]
        simp [histOf, refW, Thr.not_exceeds_zero]

theorem refRunOps_capped {m : RMSt} (cp : CappedG m.r (m.t / nsPerMs)) (ops : List Op) :
    CappedG (refRunOps RuleInfo.feed m ops).1.r ((refRunOps RuleInfo.feed m ops).1.t / nsPerMs) := by
  induction ops generalizing m with
  | nil => exact cp
  | cons o rs ih =>
    simp only [refRunOps]
    apply ih
    cases o with
    | clock ms => exact cp.idle (Nat.div_le_div_right (le_max_left _ _))
    | load rules => exact cp.reload rules m.nrules
    | loadres res rules => exact cp.loadres res rules m.nrules
    | entry res b => exact cp.entry (le_refl _) res b


end Sentinel.FlowReject
