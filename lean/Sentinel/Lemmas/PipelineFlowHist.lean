import Mathlib.Tactic
import Sentinel.Lemmas.PipelineFlow
/-!
# History-form projection onto the flow module

Along any integrated history (flow rules loaded once, before it), the flow component satisfies C02's representation
invariant `FlowReject.Rep` **with the admitted history `H` = the requests that passed ALL slots** (`step_flow`): a request that
passes the flow check but is blocked by a later slot is told "blocked" to `stat.Slot` / the standalone slot and leaves only
zero recordings behind; an `Exit` leaves only zero recordings.  Hence the flow verdicts are `FlowReject.refCheck` over that
history, and the projected arrival list (`flowHist`: the requests the chain finally admitted or the flow slot blocked) is a
history of the flow model's own reference (`run_flow`).

Interface used from `Lemmas/FlowReject.lean`: `Rep` (fields), `Rep.ensure`, `Rep.pass`, `Rep.block`, `checkPhase_spec`,
`tracks_touches`, `Tracks.idle`, `Tracks.congr`, `lookup_touches_ne_none`, `histOf_append`, `MonoA`.
-/
namespace Sentinel.Pipe
open Sentinel.LA Sentinel.FlowReject

variable {R : Type}

theorem rep_idle {infos : List RuleInfo} {f : FlowReject.St} {H : List Arrival} {latest now : Nat}
    (rep : Rep infos f H latest) (h : latest ≤ now) : Rep infos f H now :=
  ⟨rep.shape, fun r a ha => (rep.nodes r a ha).idle h, rep.srcNode, rep.hNode,
   fun c hc n L hg => let ⟨a, b, t⟩ := rep.own c hc n L hg; ⟨a, b, t.idle h⟩, rep.view, rep.nbad⟩

/-- zero recordings on a node (a block told by another slot, the completion events) keep the invariant -/
theorem rep_zeros {infos : List RuleInfo} {f : FlowReject.St} {H : List Arrival} {now : Nat}
    (rep : Rep infos f H now) (res : Nat) (k : Nat) :
    Rep infos { f with nodes := touches f.nodes res now (List.replicate k 0) } H now := by
  induction k generalizing f with
  | zero => exact rep
  | succ k ih =>
    have h1 := rep.block res 0 0
    have := ih h1
    simpa [FlowReject.statPhase, List.replicate_succ, touches] using this

/-- the entry half of an admitted request: concurrency sample and pass count on the node, batch on the standalone windows -/
theorem rep_passEntry {infos : List RuleInfo} {f : FlowReject.St} {H : List Arrival} {now : Nat}
    (rep : Rep infos f H now) (res b : Nat) (hres : lookup f.nodes res ≠ none) :
    Rep infos (flowStat f res now b false) (H ++ [⟨now, res, b⟩]) now := by
  have full := rep.pass res b hres
  simp only [FlowReject.statPhase] at full
  simp only [flowStat, Bool.false_eq_true, if_false]
  refine ⟨full.shape, ?_, ?_, ?_, full.own, full.view, full.nbad⟩
  · intro r a ha
    have := tracks_touches f.nodes res now [0, b] (fun r => histOf H r) now (le_refl _) rep.nodes r a ha
    refine this.congr ?_
    intro lo hi
    rw [histOf_append]
    by_cases hr : r = res
    · subst hr
      simp [refW, List.map_append, List.sum_append]
    · have : ¬ res = r := fun e => hr e.symm
      simp only [hr, this, if_false]
  · intro c hc
    have := full.srcNode c hc
    exact (lookup_touches_ne_none ..).mpr ((lookup_touches_ne_none ..).mp this)
  · intro a ha
    have := full.hNode a ha
    exact (lookup_touches_ne_none ..).mpr ((lookup_touches_ne_none ..).mp this)

/-! ## the projected history -/

def flowArr (s : St R) (q : Req) : Arrival := { t := s.now, res := q.res, b := q.batch }

/-- the arrivals of the flow model a pipeline op amounts to: the requests that reach the flow slot and are either blocked
    by it or admitted by the **whole chain** -/
def flowOps (s : St R) (o : Op R) (out : Out) : List Arrival :=
  match o, out with
  | .entry q, .dec none => [flowArr s q]
  | .entry q, .dec (some (.flow _)) => [flowArr s q]
  | _, _ => []

/-- … what the flow model must answer to them -/
def flowOuts (o : Op R) (out : Out) : List (Option Nat) :=
  match o, out with
  | .entry _, .dec none => [none]
  | .entry _, .dec (some (.flow i)) => [some i]
  | _, _ => []

/-- … and the requests that passed **all** slots -/
def flowPassed (s : St R) (o : Op R) (out : Out) : List Arrival :=
  match o, out with
  | .entry q, .dec none => [flowArr s q]
  | _, _ => []

section step
variable [LT R] [∀ a b : R, Decidable (a < b)]

/-- the flow verdict is the reference decision over the fully admitted history -/
theorem flow_verdict_ref (A : System.Arith R) (s : St R) (q : Req) {infos : List RuleInfo} {H : List Arrival}
    (rep : Rep infos s.flow H s.now) (hpos : 0 < s.now) :
    verdict A s q .flow = (refCheck RuleInfo.feed infos H q.res s.now q.batch).map Blk.flow := by
  have := (checkPhase_spec rep (le_refl _) hpos q.res q.batch).1
  show (checkPhase s.flow q.res s.now q.batch).2.map Blk.flow = _
  rw [this]

theorem flowOps_shape (s : St R) (o : Op R) (out : Out) :
    (flowOps s o out = [] ∧ flowPassed s o out = [] ∧ flowOuts o out = []) ∨
    ∃ q, o = .entry q ∧ flowOps s o out = [flowArr s q] := by
  cases o with
  | entry q =>
    cases out with
    | dec d =>
      cases d with
      | none => exact Or.inr ⟨q, rfl, rfl⟩
      | some b => cases b <;> first | exact Or.inl ⟨rfl, rfl, rfl⟩ | exact Or.inr ⟨q, rfl, rfl⟩
    | _ => exact Or.inl ⟨rfl, rfl, rfl⟩
  | _ => exact Or.inl ⟨rfl, rfl, rfl⟩

/-- what one integrated op must do to the flow component -/
def FlowStepOK (infos : List RuleInfo) (H : List Arrival) (s : St R) (o : Op R) (r : St R × Out) : Prop :=
  Rep infos r.1.flow (H ++ flowPassed s o r.2) r.1.now ∧ s.now ≤ r.1.now ∧ r.1.started = true ∧
  refRun RuleInfo.feed infos H (flowOps s o r.2) = (H ++ flowPassed s o r.2, flowOuts o r.2)

theorem flowStepOK_triv {infos : List RuleInfo} {H : List Arrival} {s : St R} {o : Op R} {r : St R × Out}
    (rep : Rep infos s.flow H s.now) (hf : r.1.flow = s.flow) (hn : s.now ≤ r.1.now) (hs : r.1.started = true)
    (hno : (∀ q, o ≠ .entry q) ∨ r.2 = .bad) : FlowStepOK infos H s o r := by
  have h3 : flowOps s o r.2 = [] ∧ flowPassed s o r.2 = [] ∧ flowOuts o r.2 = [] := by
    rcases hno with hno | hb
    · rcases flowOps_shape s o r.2 with h | ⟨q, hq, _⟩
      · exact h
      · exact absurd hq (hno q)
    · rw [hb]
      cases o <;> exact ⟨rfl, rfl, rfl⟩
  obtain ⟨a, b, c⟩ := h3
  refine ⟨?_, hn, hs, ?_⟩
  · rw [hf, b, List.append_nil]; exact rep_idle rep hn
  · rw [a, b, c]; simp [refRun]

theorem step_flow (A : System.Arith R) (s : St R) (o : Op R) {infos : List RuleInfo} {H : List Arrival}
    (rep : Rep infos s.flow H s.now) (hpos : 0 < s.now) (hst : s.started = true) (hno : ∀ rs, o ≠ .loadFlow rs) :
    FlowStepOK infos H s o (step A s o) := by
  cases o with
  | loadFlow rs => exact absurd rfl (hno rs)
  | clock t =>
    simp only [step, hst, Bool.not_true, Bool.false_eq_true, if_false]
    split_ifs with h0 h2
    · exact flowStepOK_triv rep rfl (le_refl _) (by first | exact hst | rfl) (Or.inr rfl)
    · exact flowStepOK_triv rep rfl (le_refl _) (by first | exact hst | rfl) (Or.inr rfl)
    · exact flowStepOK_triv rep rfl (by show s.now ≤ t; omega) (by first | exact hst | rfl) (Or.inl (fun q e => by cases e))
  | loadSys rs =>
    simp only [step, hst, Bool.not_true, Bool.false_eq_true, if_false]
    exact flowStepOK_triv rep rfl (le_refl _) (by first | exact hst | rfl) (Or.inl (fun q e => by cases e))
  | loadIso rs =>
    simp only [step, hst, Bool.not_true, Bool.false_eq_true, if_false]
    exact flowStepOK_triv rep rfl (le_refl _) (by first | exact hst | rfl) (Or.inl (fun q e => by cases e))
  | loadHot rs =>
    simp only [step, hst, Bool.not_true, Bool.false_eq_true, if_false]
    exact flowStepOK_triv rep rfl (le_refl _) (by first | exact hst | rfl) (Or.inl (fun q e => by cases e))
  | loadCb rs =>
    simp only [step, hst, Bool.not_true, Bool.false_or]
    split_ifs
    · exact flowStepOK_triv rep rfl (le_refl _) (by first | exact hst | rfl) (Or.inl (fun q e => by cases e))
    · exact flowStepOK_triv rep rfl (le_refl _) (by first | exact hst | rfl) (Or.inl (fun q e => by cases e))
  | sysLoad x => exact flowStepOK_triv rep rfl (le_refl _) (by first | exact hst | rfl) (Or.inl (fun q e => by cases e))
  | sysCpu x => exact flowStepOK_triv rep rfl (le_refl _) (by first | exact hst | rfl) (Or.inl (fun q e => by cases e))
  | log => exact flowStepOK_triv rep rfl (le_refl _) (by first | exact hst | rfl) (Or.inl (fun q e => by cases e))
  | trace id =>
    simp only [step, hst, Bool.not_true, Bool.false_eq_true, if_false]
    exact flowStepOK_triv rep rfl (le_refl _) (by first | exact hst | rfl) (Or.inl (fun q e => by cases e))
  | exit id err =>
    simp only [step, hst, Bool.not_true, Bool.false_eq_true, if_false]
    refine ⟨?_, le_refl _, hst, by simp [flowOps, flowOuts, flowPassed, refRun]⟩
    simp only [flowPassed, List.append_nil]
    show Rep infos (exit s id err).flow H s.now
    simp only [exit, entStep]
    cases s.reqs.find? (·.id = id) with
    | none => exact rep
    | some q =>
      simp only [flowExit]
      cases ctxErr s id err
      · exact rep_zeros rep q.res 2
      · exact rep_zeros rep q.res 3
  | entry q =>
    simp only [step, hst, Bool.not_true, Bool.false_or]
    split_ifs with hu
    · exact flowStepOK_triv rep rfl (le_refl _) (by first | exact hst | rfl) (Or.inr rfl)
    · obtain ⟨_, _, _, e3, _, e5, _⟩ := entry_static A s q
      have hv := flow_verdict_ref A s q rep hpos
      have rep1 := rep.ensure (le_refl _) hpos q.res
      have hres : lookup (ensure s.flow.nodes q.res s.now) q.res ≠ none := lookup_ensure_self _ _ _
      unfold FlowStepOK
      simp only [entry_snd]
      rw [e3, e5, entry_flow]
      refine ⟨?_, le_refl _, hst, ?_⟩
      · cases hd : decision A s q with
        | none => simpa [flowPassed, flowArr] using rep_passEntry rep1 q.res q.batch hres
        | some b =>
          have := rep1.block q.res q.batch 0
          cases b <;> simpa [flowPassed, FlowReject.statPhase, flowStat] using this
      · cases hd : decision A s q with
        | none =>
          have h1 := decision_none A s q hd .flow
          rw [hv] at h1
          have h2 : refCheck RuleInfo.feed infos H q.res s.now q.batch = none := by
            cases hh : refCheck RuleInfo.feed infos H q.res s.now q.batch with
            | none => rfl
            | some i => rw [hh] at h1; cases h1
          simp [flowOps, flowOuts, flowPassed, refRun, flowArr, h2]
        | some b =>
          cases b with
          | flow i =>
            have h1 := decision_some A s q _ hd
            simp only [Blk.slot] at h1
            rw [hv] at h1
            have h2 : refCheck RuleInfo.feed infos H q.res s.now q.batch = some i := by
              cases hh : refCheck RuleInfo.feed infos H q.res s.now q.batch with
              | none => rw [hh] at h1; cases h1
              | some j => rw [hh] at h1; simpa using h1
            simp [flowOps, flowOuts, flowPassed, refRun, flowArr, h2]
          | sys => simp [flowOps, flowOuts, flowPassed, refRun]
          | iso a b => simp [flowOps, flowOuts, flowPassed, refRun]
          | hot => simp [flowOps, flowOuts, flowPassed, refRun]
          | cb k => simp [flowOps, flowOuts, flowPassed, refRun]

/-- the flow-model history (arrival list) an integrated history amounts to -/
def flowHist (A : System.Arith R) (s : St R) : List (Op R) → List Arrival
  | [] => []
  | o :: os => flowOps s o (step A s o).2 ++ flowHist A (step A s o).1 os

def flowHistOuts (A : System.Arith R) (s : St R) : List (Op R) → List (Option Nat)
  | [] => []
  | o :: os => flowOuts o (step A s o).2 ++ flowHistOuts A (step A s o).1 os

/-- the requests that passed all slots along an integrated history -/
def passedHist (A : System.Arith R) (s : St R) : List (Op R) → List Arrival
  | [] => []
  | o :: os => flowPassed s o (step A s o).2 ++ passedHist A (step A s o).1 os

theorem refRun_append (f : RuleInfo → Nat) (cs : List RuleInfo) (H : List Arrival) (as bs : List Arrival) :
    refRun f cs H (as ++ bs) =
      ((refRun f cs (refRun f cs H as).1 bs).1, (refRun f cs H as).2 ++ (refRun f cs (refRun f cs H as).1 bs).2) := by
  induction as generalizing H with
  | nil => simp [refRun]
  | cons a r ih => simp only [List.cons_append, refRun, ih, List.cons_append]

theorem run_flow (A : System.Arith R) (s : St R) (os : List (Op R)) {infos : List RuleInfo} {H : List Arrival}
    (rep : Rep infos s.flow H s.now) (hpos : 0 < s.now) (hst : s.started = true) (hno : ∀ rs, Op.loadFlow rs ∉ os) :
    Rep infos (run A s os).1.flow (H ++ passedHist A s os) (run A s os).1.now ∧
    refRun RuleInfo.feed infos H (flowHist A s os) = (H ++ passedHist A s os, flowHistOuts A s os) ∧
    MonoA s.now (flowHist A s os) ∧ 0 < (run A s os).1.now ∧ (run A s os).1.started = true := by
  induction os generalizing s H with
  | nil => exact ⟨by simpa [passedHist, run] using rep, by simp [flowHist, passedHist, flowHistOuts, refRun], trivial, hpos, hst⟩
  | cons o os ih =>
    obtain ⟨r1, hle, hst1, hr⟩ := step_flow A s o rep hpos hst (fun rs e => hno rs (e ▸ List.mem_cons_self ..))
    obtain ⟨i1, i2, i3, i4, i5⟩ := ih (step A s o).1 r1 (lt_of_lt_of_le hpos hle) hst1
      (fun rs hm => hno rs (List.mem_cons_of_mem _ hm))
    refine ⟨by simpa [passedHist, run, List.append_assoc] using i1, ?_, ?_, i4, i5⟩
    · simp only [flowHist, passedHist, flowHistOuts, refRun_append, hr, i2, List.append_assoc]
    · simp only [flowHist]
      have hm2 : MonoA s.now (flowHist A (step A s o).1 os) := i3.weaken hle
      rcases flowOps_shape s o (step A s o).2 with ⟨h, _, _⟩ | ⟨q, _, h⟩
      · rw [h]; simpa using hm2
      · rw [h]
        simp only [List.cons_append, List.nil_append, MonoA]
        exact ⟨le_refl _, hm2⟩

end step

end Sentinel.Pipe
