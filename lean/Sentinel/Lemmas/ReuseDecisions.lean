import Mathlib.Tactic
import Sentinel.Drv.C14
import Sentinel.Lemmas.Reuse
/-! Locality of the driver's request functions (`enterChecks`, `complete`, `entry`): what they read and what they write,
    resource by resource.  Used by the decision-level theorems of `Sentinel/Props/C14.lean`. -/
namespace Sentinel.C14
open Sentinel.Reuse Sentinel.Drv.C14 Sentinel.LA

/-- the node-storage entry of resource `z` -/
def nodeAt (s : St) (z : Nat) : Option (Nat × Arr Nat) := s.nodes.find? (·.1 == z)

theorem find_assoc {α} (xs : List (Nat × α)) (k z : Nat) (v : α) :
    (assoc xs k v).find? (·.1 == z) = if z = k then some (k, v) else xs.find? (·.1 == z) := by
  unfold assoc
  by_cases h : z = k
  · subst h; simp
  · have hk : (k == z) = false := by simpa using (Ne.symm h)
    simp only [List.find?_cons, hk, h, if_false]
    induction xs with
    | nil => rfl
    | cons a as ih =>
      by_cases ha : a.1 = k
      · have : (a.1 == z) = false := by rw [ha]; exact hk
        simp [ha, List.find?_cons, hk, ih]
      · by_cases hz : (a.1 == z) = true
        · simp [ha, hz]
        · have hz' : (a.1 == z) = false := by simpa using hz
          simp [ha, hz', ih]

theorem nodeOf_eq (a b : St) (z : Nat) (hn : a.now = b.now) (h : nodeAt a z = nodeAt b z) : nodeOf a z = nodeOf b z := by
  unfold nodeOf lookup
  unfold nodeAt at h
  rw [h, hn]

/-- what a request's checks compute from the controllers of its resource, the clock, the memory reading and the nodes
    its flow controllers read -/
structure Res where
  f : List (Ctl FlowRule FlowSt)
  h : List (Ctl HotRule HotSt)
  c : List (Ctl CbRule CbSt)
  node : Arr Nat
  b : Option String
  w : Nat

def checks (now : Nat) (mem : Int) (rd : Ctl FlowRule FlowSt → Nat × Float) (node : Arr Nat)
    (fcs : List (Ctl FlowRule FlowSt)) (hcs : List (Ctl HotRule HotSt)) (ccs : List (Ctl CbRule CbSt)) (q : Req) : Res :=
  match flowScan now mem rd fcs with
  | (some id, _, fcs') => ⟨fcs', hcs, ccs, node, some s!"block flow {id}", 0⟩
  | (none, w, fcs') =>
    match hotScan now q hcs with
    | (some id, _, hcs') => ⟨fcs', hcs', ccs, node, some s!"block hot {id}", 0⟩
    | (none, hw, hcs') =>
      match cbCheck now ccs with
      | (some id, ccs') => ⟨fcs', hcs', ccs', node, some s!"block cb {id}", 0⟩
      | (none, ccs') =>
        ⟨fcs'.map (flowRecordPass now), hcs'.map (fun c => hotConcAdd 1 (hotExtract c.rule q) c), ccs',
          (addAt node now 1).1, none, w + hw⟩

/-- the inputs `enterChecks s y q` hands to `checks` -/
def checksOf (s : St) (y : Nat) (q : Req) : Res :=
  checks s.now s.mem (flowRead (nodeOf { s with nodes := assoc s.nodes y (nodeOf s y) }) s.now) (nodeOf s y)
    (s.flow.ctls y) (s.hot.ctls y) (s.cb.ctls y) q

/-- `s'` is `s` with the controllers and the node of `y` replaced by those of `r`; nothing else moved -/
structure WritesAt (s s' : St) (y : Nat) (r : Res) : Prop where
  now : s'.now = s.now
  mem : s'.mem = s.mem
  live : s'.live = s.live
  cb : ∀ z, s'.cb.ctls z = if z = y then r.c else s.cb.ctls z
  flow : ∀ z, s'.flow.ctls z = if z = y then r.f else s.flow.ctls z
  hot : ∀ z, s'.hot.ctls z = if z = y then r.h else s.hot.ctls z
  node : ∀ z, nodeAt s' z = if z = y then some (y, r.node) else nodeAt s z

theorem enterChecks_spec (s : St) (y : Nat) (q : Req) :
    (enterChecks s y q).2 = ((checksOf s y q).b, (checksOf s y q).w) ∧
    WritesAt s (enterChecks s y q).1 y (checksOf s y q) := by
  unfold enterChecks checksOf checks
  simp only []
  rcases hF : flowScan s.now s.mem (flowRead (nodeOf { s with nodes := assoc s.nodes y (nodeOf s y) }) s.now)
      (s.flow.ctls y) with ⟨fb, w, fcs'⟩
  cases fb with
  | some id =>
    refine ⟨rfl, ⟨rfl, rfl, rfl, ?_, ?_, ?_, ?_⟩⟩
    · intro z; simp only []; split_ifs with h
      · subst h; rfl
      · rfl
    · intro z; simp [Mgr.set]
    · intro z; simp only []; split_ifs with h
      · subst h; rfl
      · rfl
    · intro z; simp only [nodeAt]; exact find_assoc ..
  | none =>
    simp only []
    rcases hH : hotScan s.now q (s.hot.ctls y) with ⟨hb, hw, hcs'⟩
    cases hb with
    | some id =>
      refine ⟨rfl, ⟨rfl, rfl, rfl, ?_, ?_, ?_, ?_⟩⟩
      · intro z; simp only []; split_ifs with h
        · subst h; rfl
        · rfl
      · intro z; simp [Mgr.set]
      · intro z; simp [Mgr.set]
      · intro z; simp only [nodeAt]; exact find_assoc ..
    | none =>
      simp only []
      rcases hC : cbCheck s.now (s.cb.ctls y) with ⟨cbb, ccs'⟩
      cases cbb with
      | some id =>
        refine ⟨rfl, ⟨rfl, rfl, rfl, ?_, ?_, ?_, ?_⟩⟩
        · intro z; simp [Mgr.set]
        · intro z; simp [Mgr.set]
        · intro z; simp [Mgr.set]
        · intro z; simp only [nodeAt]; exact find_assoc ..
      | none =>
        refine ⟨rfl, ⟨rfl, rfl, rfl, ?_, ?_, ?_, ?_⟩⟩
        · intro z; simp [Mgr.set]
        · intro z; simp only [Mgr.set]; split_ifs <;> rfl
        · intro z; simp only [Mgr.set]; split_ifs <;> rfl
        · intro z
          simp only [nodeAt]
          rw [find_assoc, find_assoc]
          split_ifs <;> rfl

/-- what the decisions on a resource depend on, resource by resource -/
def proj (s : St) (z : Nat) :
    List (Ctl CbRule CbSt) × List (Ctl FlowRule FlowSt) × List (Ctl HotRule HotSt) × Option (Nat × Arr Nat) :=
  (s.cb.ctls z, s.flow.ctls z, s.hot.ctls z, nodeAt s z)

/-- `s'` differs from `s` at most in the controllers / node of `y` (and the clock, the handles) -/
structure Off (y : Nat) (s s' : St) : Prop where
  mem : s'.mem = s.mem
  other : ∀ z, z ≠ y → proj s' z = proj s z

/-- two states agree on the clock, the memory reading and everything that belongs to the resources in `D` -/
structure Agree (D : List Nat) (a b : St) : Prop where
  now : a.now = b.now
  mem : a.mem = b.mem
  on : ∀ z ∈ D, proj a z = proj b z

theorem Agree.step {D : List Nat} {a b a' b' : St} {y : Nat} (h : Agree D a b) (ha : Off y a a') (hb : Off y b b')
    (hn : a'.now = b'.now) (hy : y ∈ D → proj a' y = proj b' y) : Agree D a' b' := by
  refine ⟨hn, by rw [ha.mem, hb.mem, h.mem], ?_⟩
  intro z hz
  by_cases hzy : z = y
  · subst hzy; exact hy hz
  · rw [ha.other z hzy, hb.other z hzy]; exact h.on z hz

theorem WritesAt.off {s s' : St} {y : Nat} {r : Res} (h : WritesAt s s' y r) : Off y s s' :=
  ⟨h.mem, fun z hz => by simp [proj, h.cb z, h.flow z, h.hot z, h.node z, hz]⟩

theorem WritesAt.at {s s' : St} {y : Nat} {r : Res} (h : WritesAt s s' y r) :
    proj s' y = (r.c, r.f, r.h, some (y, r.node)) := by
  simp [proj, h.cb y, h.flow y, h.hot y, h.node y]

/-- the state of resource `y` after `entry s y err q rt`, from what `checks` returned -/
def afterEntry (y now rt : Nat) (err : Bool) (q : Req) (r : Res) :
    List (Ctl CbRule CbSt) × List (Ctl FlowRule FlowSt) × List (Ctl HotRule HotSt) × Option (Nat × Arr Nat) :=
  match r.b with
  | some _ => (r.c, r.f, r.h, some (y, r.node))
  | none => (r.c.map (cbComplete (now + rt) rt err), r.f, r.h.map (fun c => hotConcAdd (-1) (hotExtract c.rule q) c),
             some (y, r.node))

def decisionText (r : Res) : String := match r.b with
  | some t => t
  | none => passText r.w

theorem entry_spec (s : St) (y : Nat) (err : Bool) (q : Req) (rt : Nat) :
    (entry s y err q rt).2 = decisionText (checksOf s y q) ∧
    Off y s (entry s y err q rt).1 ∧ (entry s y err q rt).1.now = s.now + rt ∧
    proj (entry s y err q rt).1 y = afterEntry y s.now rt err q (checksOf s y q) := by
  obtain ⟨h2, hw⟩ := enterChecks_spec s y q
  unfold entry
  rcases hE : enterChecks s y q with ⟨s1, b, w⟩
  rw [hE] at h2 hw
  change WritesAt s s1 y (checksOf s y q) at hw
  simp only [Prod.mk.injEq] at h2
  obtain ⟨hb, hwt⟩ := h2
  simp only []
  cases b with
  | some t =>
    refine ⟨by simp [decisionText, ← hb], ?_, rfl, ?_⟩
    · exact ⟨hw.mem, fun z hz => hw.off.other z hz⟩
    · have := hw.at
      simp only [afterEntry, ← hb]
      exact this
  | none =>
    refine ⟨by simp [decisionText, ← hb, hwt], ?_, rfl, ?_⟩
    · refine ⟨hw.mem, fun z hz => ?_⟩
      have hn := hw.node z
      simp only [proj, complete, Mgr.set, nodeAt, hz, if_false, hw.cb z, hw.flow z, hw.hot z] at hn ⊢
      rw [hn]
    · have hn := hw.node y
      simp only [afterEntry, ← hb, proj, complete, Mgr.set, nodeAt, if_true, hw.cb y, hw.flow y, hw.hot y, hw.now,
        Nat.add_sub_cancel_left] at hn ⊢
      rw [hn]

/-! ### equal inputs give equal results -/

theorem flowScan_congr (now : Nat) (mem : Int) (rd1 rd2 : Ctl FlowRule FlowSt → Nat × Float)
    (cs : List (Ctl FlowRule FlowSt)) (h : ∀ c ∈ cs, rd1 c = rd2 c) : flowScan now mem rd1 cs = flowScan now mem rd2 cs := by
  induction cs with
  | nil => rfl
  | cons c cs ih =>
    unfold flowScan
    rw [h c (List.mem_cons_self ..), ih (fun c hc => h c (List.mem_cons_of_mem _ hc))]

theorem flowRead_congr (nd1 nd2 : Nat → Arr Nat) (now : Nat) (c : Ctl FlowRule FlowSt)
    (h : ∀ r sc iv, c.st.stat = FStat.node r sc iv → nd1 r = nd2 r) : flowRead nd1 now c = flowRead nd2 now c := by
  unfold flowRead
  cases hs : c.st.stat with
  | nop => rfl
  | node r sc iv => simp only []; rw [h r sc iv hs]
  | own a sc iv => rfl

/-- the flow controllers of the resources in `D` read only nodes of resources in `D` -/
def Closed (D : List Nat) (s : St) : Prop :=
  ∀ y ∈ D, ∀ c ∈ s.flow.ctls y, ∀ r sc iv, c.st.stat = FStat.node r sc iv → r ∈ D

theorem checks_congr (now : Nat) (mem : Int) (rd1 rd2 : Ctl FlowRule FlowSt → Nat × Float) (node : Arr Nat)
    (fcs : List (Ctl FlowRule FlowSt)) (hcs : List (Ctl HotRule HotSt)) (ccs : List (Ctl CbRule CbSt)) (q : Req)
    (h : flowScan now mem rd1 fcs = flowScan now mem rd2 fcs) :
    checks now mem rd1 node fcs hcs ccs q = checks now mem rd2 node fcs hcs ccs q := by
  unfold checks
  rw [h]

theorem checksOf_agree {D : List Nat} {a b : St} (h : Agree D a b) (hc : Closed D a) (y : Nat) (hy : y ∈ D) (q : Req) :
    checksOf a y q = checksOf b y q := by
  have hp := h.on y hy
  simp only [proj, Prod.mk.injEq] at hp
  obtain ⟨hcb, hfl, hho, hnd⟩ := hp
  have hnode : nodeOf a y = nodeOf b y := nodeOf_eq a b y h.now hnd
  unfold checksOf
  generalize hA : flowRead (nodeOf { a with nodes := assoc a.nodes y (nodeOf a y) }) a.now = rdA
  generalize hB : flowRead (nodeOf { b with nodes := assoc b.nodes y (nodeOf b y) }) b.now = rdB
  rw [← h.now, ← h.mem, ← hcb, ← hfl, ← hho, ← hnode]
  apply checks_congr
  apply flowScan_congr
  intro c hcm
  rw [← hA, ← hB]
  have hnow : b.now = a.now := h.now.symm
  rw [hnow]
  apply flowRead_congr
  intro r sc iv hst
  have hr : r ∈ D := hc y hy c hcm r sc iv hst
  refine nodeOf_eq _ _ r (by first | rfl | exact h.now) ?_
  simp only [nodeAt]
  rw [find_assoc, find_assoc, hnode]
  split_ifs
  · rfl
  · have := h.on r hr
    simp only [proj, Prod.mk.injEq] at this
    exact this.2.2.2

/-! ### which node a flow controller reads never changes under traffic -/

/-- the resource whose node the controller's read statistic is a view of (if it is one) -/
def nodeTgt (c : Ctl FlowRule FlowSt) : Option Nat := match c.st.stat with
  | .node r _ _ => some r
  | _ => none

theorem closed_iff (D : List Nat) (s : St) :
    Closed D s ↔ ∀ y ∈ D, ∀ c ∈ s.flow.ctls y, ∀ r, nodeTgt c = some r → r ∈ D := by
  constructor
  · intro h y hy c hc r hr
    unfold nodeTgt at hr
    cases hs : c.st.stat with
    | nop => rw [hs] at hr; simp at hr
    | own a sc iv => rw [hs] at hr; simp at hr
    | node r' sc iv => rw [hs] at hr; simp at hr; subst hr; exact h y hy c hc r' sc iv hs
  · intro h y hy c hc r sc iv hs
    exact h y hy c hc r (by simp [nodeTgt, hs])

theorem throttleCheck_stat (now : Nat) (c : Ctl FlowRule FlowSt) : (throttleCheck now c).2.st.stat = c.st.stat := by
  unfold throttleCheck
  simp only []
  split_ifs <;> rfl

theorem throttleCheckF_stat (now : Nat) (thr : Float) (c : Ctl FlowRule FlowSt) :
    (throttleCheckF now thr c).2.st.stat = c.st.stat := by
  unfold throttleCheckF
  simp only []
  split_ifs <;> rfl

theorem warmUpAllowed_stat (now : Nat) (p : Float) (c : Ctl FlowRule FlowSt) : (warmUpAllowed now p c).2.st.stat = c.st.stat := by
  unfold warmUpAllowed
  simp only []
  split_ifs <;> rfl

theorem flowCheckOne_stat (now : Nat) (mem : Int) (sum : Nat) (p : Float) (c : Ctl FlowRule FlowSt) :
    (flowCheckOne now mem sum p c).2.st.stat = c.st.stat := by
  unfold flowCheckOne
  simp only []
  split_ifs <;> first
    | rfl
    | exact throttleCheck_stat ..
    | exact throttleCheckF_stat ..
    | (rw [throttleCheckF_stat]; exact warmUpAllowed_stat ..)
    | exact warmUpAllowed_stat ..

theorem flowScan_tgt (now : Nat) (mem : Int) (rd : Ctl FlowRule FlowSt → Nat × Float) (cs : List (Ctl FlowRule FlowSt)) :
    (flowScan now mem rd cs).2.2.map nodeTgt = cs.map nodeTgt := by
  induction cs with
  | nil => rfl
  | cons c cs ih =>
    unfold flowScan
    have hst := flowCheckOne_stat now mem (rd c).1 (rd c).2 c
    rcases hres : flowCheckOne now mem (rd c).1 (rd c).2 c with ⟨v, c'⟩
    rw [hres] at hst
    have ht : nodeTgt c' = nodeTgt c := by unfold nodeTgt; rw [show c'.st.stat = c.st.stat from hst]
    cases v <;> simp [ht, ih]

theorem flowRecordPass_tgt (now : Nat) (c : Ctl FlowRule FlowSt) : nodeTgt (flowRecordPass now c) = nodeTgt c := by
  unfold flowRecordPass nodeTgt
  cases hs : c.st.stat <;> simp [hs]

theorem checks_f_tgt (now : Nat) (mem : Int) (rd : Ctl FlowRule FlowSt → Nat × Float) (node : Arr Nat)
    (fcs : List (Ctl FlowRule FlowSt)) (hcs : List (Ctl HotRule HotSt)) (ccs : List (Ctl CbRule CbSt)) (q : Req) :
    (checks now mem rd node fcs hcs ccs q).f.map nodeTgt = fcs.map nodeTgt := by
  have hscan := flowScan_tgt now mem rd fcs
  unfold checks
  rcases hF : flowScan now mem rd fcs with ⟨fb, w, fcs'⟩
  rw [hF] at hscan
  simp only [] at hscan ⊢
  cases fb with
  | some id => exact hscan
  | none =>
    simp only []
    rcases hotScan now q hcs with ⟨hb, hw, hcs'⟩
    cases hb with
    | some id => exact hscan
    | none =>
      simp only []
      rcases cbCheck now ccs with ⟨cbb, ccs'⟩
      cases cbb with
      | some id => exact hscan
      | none =>
        simp only [List.map_map]
        rw [← hscan]
        congr 1
        funext c
        exact flowRecordPass_tgt now c

theorem closed_entry (D : List Nat) (s : St) (y : Nat) (err : Bool) (q : Req) (rt : Nat) (h : Closed D s) :
    Closed D (entry s y err q rt).1 := by
  rw [closed_iff] at h ⊢
  obtain ⟨_, hoff, _, hat⟩ := entry_spec s y err q rt
  intro z hz c hc r hr
  by_cases hzy : z = y
  · subst hzy
    have hf : (entry s z err q rt).1.flow.ctls z = (checksOf s z q).f := by
      have := congrArg (fun p => p.2.1) hat
      simp only [proj] at this
      rw [this]
      unfold afterEntry
      cases (checksOf s z q).b <;> rfl
    rw [hf] at hc
    have hm : nodeTgt c ∈ ((checksOf s z q).f).map nodeTgt := List.mem_map_of_mem hc
    unfold checksOf at hm
    rw [checks_f_tgt] at hm
    obtain ⟨c0, hc0, he⟩ := List.mem_map.mp hm
    exact h z hz c0 hc0 r (he.trans hr)
  · have := congrArg (fun p => p.2.1) (hoff.other z hzy)
    simp only [proj] at this
    rw [this] at hc
    exact h z hz c hc r hr

theorem closed_of_agree {D : List Nat} {a' a : St} (hag : Agree D a' a) (h : Closed D a) : Closed D a' := by
  intro y hy c hc r sc iv hs
  have := congrArg (fun p => p.2.1) (hag.on y hy)
  simp only [proj] at this
  rw [this] at hc
  exact h y hy c hc r sc iv hs

/-! ### reloads that leave the resources of `D` unchanged -/

theorem agree_of_fields (D : List Nat) (s' s : St) (hnow : s'.now = s.now) (hmem : s'.mem = s.mem)
    (hcb : ∀ z ∈ D, s'.cb.ctls z = s.cb.ctls z) (hflow : ∀ z ∈ D, s'.flow.ctls z = s.flow.ctls z)
    (hhot : ∀ z ∈ D, s'.hot.ctls z = s.hot.ctls z) (hnode : ∀ z ∈ D, nodeAt s' z = nodeAt s z) : Agree D s' s :=
  ⟨hnow, hmem, fun z hz => by simp [proj, hcb z hz, hflow z hz, hhot z hz, hnode z hz]⟩

/-- "the reload lists for every resource of `D` rules that are `isEqualsTo` the bound ones, in order" -/
def UnchangedFor {R S : Type} (K : Calc R S) (valid : R → Bool) (res : R → Nat) (D : List Nat) (m : Mgr R S)
    (only : Option Nat) (rules : List R) : Prop :=
  ∀ y ∈ D, (only = none ∨ only = some y) →
    List.Forall₂ (fun c r => K.eq c.rule r = true) (m.ctls y) (rulesOf valid res y rules)

theorem build_self' {R S : Type} (K : Calc R S) (now : Nat) (new : List R) (old : List (Ctl R S)) (next : Nat)
    (h : List.Forall₂ (fun c r => K.eq c.rule r = true) old new) : build K now new old next = old := by
  induction h generalizing next with
  | nil => rfl
  | @cons c r cs rs hcr _ ih =>
    have := build_cons_eq K now r rs [] c cs next (by simp) hcr
    simp only [List.nil_append] at this
    rw [this, ih]

theorem load_ctls_unchanged {R S : Type} (K : Calc R S) (valid : R → Bool) (res : R → Nat) (D : List Nat) (m : Mgr R S)
    (now : Nat) (only : Option Nat) (rules : List R) (h : UnchangedFor K valid res D m only rules) (z : Nat) (hz : z ∈ D) :
    (match only with
      | none => m.loadRules K valid res now rules
      | some x => m.loadRulesOfResource K valid res now x rules).ctls z = m.ctls z := by
  cases only with
  | none =>
    show build K now (rulesOf valid res z rules) (m.ctls z) m.next = m.ctls z
    exact build_self' K now _ _ _ (h z hz (Or.inl rfl))
  | some x =>
    simp only [Mgr.loadRulesOfResource]
    split_ifs with hzx
    · subst hzx; exact build_self' K now _ _ _ (h z hz (Or.inr rfl))
    · rfl

/-- the resources whose node a flow load makes sure of (`generateStatFor`) -/
def flowTargets (rules : List FlowRule) (only : Option Nat) : List Nat :=
  (rules.filter fun r => FlowRule.valid r && r.needStat && (only.isNone || only == some r.res)).map
    fun r => if r.rel = 1 then r.ref else r.res

theorem find_foldl_nodes (now z : Nat) (ts : List Nat) (ns : List (Nat × Arr Nat))
    (h : (ns.find? (·.1 == z)).isSome ∨ z ∉ ts) :
    (ts.foldl (fun ns y => if ns.any (·.1 == y) then ns else (y, LA.mk 20 500 now) :: ns) ns).find? (·.1 == z)
      = ns.find? (·.1 == z) := by
  induction ts generalizing ns with
  | nil => rfl
  | cons y ts ih =>
    simp only [List.foldl_cons]
    by_cases hany : ns.any (·.1 == y) = true
    · simp only [hany, if_true]
      exact ih ns (h.imp id (fun hn hm => hn (List.mem_cons_of_mem _ hm)))
    · simp only [hany, if_false]
      have hyz : y ≠ z := by
        intro e; subst e
        rcases h with h | h
        · apply hany
          rw [List.any_eq_true]
          rcases hf : ns.find? (·.1 == y) with _ | a
          · rw [hf] at h; simp at h
          · exact ⟨a, List.mem_of_find?_eq_some hf, by simpa using List.find?_some (p := fun x : Nat × Arr Nat => x.1 == y) hf⟩
        · exact h (List.mem_cons_self ..)
      have hb : (y == z) = false := by simpa using hyz
      rw [ih]
      · simp [List.find?_cons, hb]
      · rcases h with h | h
        · left; simpa [List.find?_cons, hb] using h
        · right; exact fun hm => h (List.mem_cons_of_mem _ hm)

theorem doLoad_cb_agree (D : List Nat) (s : St) (re : Bool) (only : Option Nat) (arg : String)
    (h : ∀ rules, parseList parseCb arg = some rules → UnchangedFor cbCalc CbRule.valid (·.res) D s.cb only rules) :
    Agree D (doLoad false s "cb" re only arg).1 s := by
  unfold doLoad
  simp only [Bool.false_and, Bool.false_eq_true, if_false, beq_self_eq_true, if_true]
  cases hp : parseList parseCb arg with
  | none => cases re <;> exact agree_of_fields D _ _ rfl rfl (fun _ _ => rfl) (fun _ _ => rfl) (fun _ _ => rfl) (fun _ _ => rfl)
  | some rules =>
    simp only []
    have hu := h rules hp
    split_ifs
    all_goals first
      | exact agree_of_fields D _ _ rfl rfl (fun _ _ => rfl) (fun _ _ => rfl) (fun _ _ => rfl) (fun _ _ => rfl)
      | exact agree_of_fields D _ _ rfl rfl (fun z hz => load_ctls_unchanged cbCalc CbRule.valid (·.res) D s.cb s.now only rules hu z hz)
          (fun _ _ => rfl) (fun _ _ => rfl) (fun _ _ => rfl)

theorem doLoad_hot_agree (D : List Nat) (s : St) (re : Bool) (only : Option Nat) (arg : String)
    (h : ∀ rules, parseList parseHot arg = some rules → UnchangedFor hotCalc HotRule.valid (·.res) D s.hot only rules) :
    Agree D (doLoad false s "hot" re only arg).1 s := by
  unfold doLoad
  simp only [Bool.false_and, Bool.false_eq_true, if_false, beq_self_eq_true, if_true,
    show (("hot" : String) == "cb") = false by decide, show (("hot" : String) == "flow") = false by decide]
  cases hp : parseList parseHot arg with
  | none => cases re <;> exact agree_of_fields D _ _ rfl rfl (fun _ _ => rfl) (fun _ _ => rfl) (fun _ _ => rfl) (fun _ _ => rfl)
  | some rules =>
    simp only []
    have hu := h rules hp
    split_ifs
    all_goals first
      | exact agree_of_fields D _ _ rfl rfl (fun _ _ => rfl) (fun _ _ => rfl) (fun _ _ => rfl) (fun _ _ => rfl)
      | exact agree_of_fields D _ _ rfl rfl (fun _ _ => rfl) (fun _ _ => rfl)
          (fun z hz => load_ctls_unchanged hotCalc HotRule.valid (·.res) D s.hot s.now only rules hu z hz) (fun _ _ => rfl)

theorem doLoad_flow_agree (D : List Nat) (s : St) (re : Bool) (only : Option Nat) (arg : String)
    (h : ∀ rules, parseList parseFlow arg = some rules → UnchangedFor flowCalc FlowRule.valid (·.res) D s.flow only rules)
    (hn : ∀ rules, parseList parseFlow arg = some rules → ∀ z ∈ D, (nodeAt s z).isSome ∨ z ∉ flowTargets rules only) :
    Agree D (doLoad false s "flow" re only arg).1 s := by
  unfold doLoad
  simp only [Bool.false_and, Bool.false_eq_true, if_false, beq_self_eq_true, if_true,
    show (("flow" : String) == "cb") = false by decide]
  cases hp : parseList parseFlow arg with
  | none => cases re <;> exact agree_of_fields D _ _ rfl rfl (fun _ _ => rfl) (fun _ _ => rfl) (fun _ _ => rfl) (fun _ _ => rfl)
  | some rules =>
    simp only []
    have hu := h rules hp
    have hnn := hn rules hp
    split_ifs
    all_goals first
      | exact agree_of_fields D _ _ rfl rfl (fun _ _ => rfl) (fun _ _ => rfl) (fun _ _ => rfl) (fun _ _ => rfl)
      | exact agree_of_fields D _ _ rfl rfl (fun _ _ => rfl)
          (fun z hz => load_ctls_unchanged flowCalc FlowRule.valid (·.res) D s.flow s.now only rules hu z hz) (fun _ _ => rfl)
          (fun z hz => find_foldl_nodes s.now z (flowTargets rules only) s.nodes (hnn z hz))

end Sentinel.C14

namespace Sentinel.C14
open Sentinel.Reuse Sentinel.Drv.C14 Sentinel.LA

/-! ### entries in flight (`in` / `out`) -/

/-- the entry in flight under handle `h` -/
def liveAt (s : St) (h : Nat) : Option (Nat × Nat × Req × Nat) := s.live.find? (·.1 == h)

theorem find_filter_ne {α} (xs : List (Nat × α)) (h z : Nat) :
    (xs.filter (·.1 != h)).find? (·.1 == z) = if z = h then none else xs.find? (·.1 == z) := by
  induction xs with
  | nil => simp
  | cons a as ih =>
    by_cases ha : a.1 = h
    · by_cases hz : z = h
      · simp [ha, hz, ih]
      · have : (h == z) = false := by simpa using (Ne.symm hz)
        simp [ha, hz, ih, List.find?_cons, this]
    · by_cases hz : z = h
      · subst hz
        have : (a.1 == z) = false := by simpa using ha
        simp [ha, List.find?_cons, this, ih]
      · by_cases haz : (a.1 == z) = true
        · simp [ha, hz, List.find?_cons, haz]
        · have haz' : (a.1 == z) = false := by simpa using haz
          simp [ha, hz, List.find?_cons, haz', ih]

theorem entry_live (s : St) (y : Nat) (err : Bool) (q : Req) (rt : Nat) : (entry s y err q rt).1.live = s.live := by
  obtain ⟨_, hw⟩ := enterChecks_spec s y q
  unfold entry
  rcases hE : enterChecks s y q with ⟨s1, b, w⟩
  rw [hE] at hw
  change WritesAt s s1 y (checksOf s y q) at hw
  cases b <;> simp [complete, hw.live]

theorem enterLive_spec (s : St) (h y : Nat) (q : Req) :
    (enterLive s h y q).2 = decisionText (checksOf s y q) ∧
    Off y s (enterLive s h y q).1 ∧ (enterLive s h y q).1.now = s.now ∧
    proj (enterLive s h y q).1 y = ((checksOf s y q).c, (checksOf s y q).f, (checksOf s y q).h, some (y, (checksOf s y q).node)) ∧
    (enterLive s h y q).1.flow.ctls y = (checksOf s y q).f ∧
    (∀ z, liveAt (enterLive s h y q).1 z =
      if (checksOf s y q).b = none ∧ z = h then some (h, y, q, s.now) else liveAt s z) := by
  obtain ⟨h2, hw⟩ := enterChecks_spec s y q
  unfold enterLive
  rcases hE : enterChecks s y q with ⟨s1, b, w⟩
  rw [hE] at h2 hw
  change WritesAt s s1 y (checksOf s y q) at hw
  simp only [Prod.mk.injEq] at h2
  obtain ⟨hb, hwt⟩ := h2
  simp only []
  cases b with
  | some t =>
    refine ⟨by simp [decisionText, ← hb], hw.off, hw.now, hw.at, by simpa using hw.flow y, ?_⟩
    intro z
    simp [← hb, liveAt, hw.live]
  | none =>
    refine ⟨by simp [decisionText, ← hb, hwt], ⟨hw.mem, fun z hz => hw.off.other z hz⟩, hw.now, hw.at,
      by simpa using hw.flow y, ?_⟩
    intro z
    simp only [← hb, liveAt, hw.live, true_and]
    exact find_assoc s.live h z (y, q, s.now)

theorem exitLive_none (s : St) (h : Nat) (err : Bool) (hl : liveAt s h = none) : (exitLive s h err).1 = s := by
  unfold exitLive
  unfold liveAt at hl
  rw [hl]

theorem exitLive_some (s : St) (h : Nat) (err : Bool) (h' x : Nat) (q : Req) (start : Nat)
    (hl : liveAt s h = some (h', x, q, start)) :
    Off x s (exitLive s h err).1 ∧ (exitLive s h err).1.now = s.now ∧ (exitLive s h err).1.flow = s.flow ∧
    proj (exitLive s h err).1 x = ((s.cb.ctls x).map (cbComplete s.now (s.now - start) err), s.flow.ctls x,
      (s.hot.ctls x).map (fun c => hotConcAdd (-1) (hotExtract c.rule q) c), nodeAt s x) ∧
    (∀ z, liveAt (exitLive s h err).1 z = if z = h then none else liveAt s z) := by
  unfold exitLive
  unfold liveAt at hl
  rw [hl]
  simp only []
  refine ⟨⟨rfl, fun z hz => by simp [proj, complete, Mgr.set, hz, nodeAt]⟩, rfl, rfl, by simp [proj, complete, Mgr.set, nodeAt], ?_⟩
  intro z
  simp only [liveAt, complete]
  exact find_filter_ne s.live h z

theorem Off.refl' (y : Nat) (s : St) : Off y s s := ⟨rfl, fun _ _ => rfl⟩

theorem Agree.step2 {D : List Nat} {a b a' b' : St} {ya yb : Nat} (h : Agree D a b) (ha : Off ya a a') (hb : Off yb b b')
    (hn : a'.now = b'.now) (hya : ya ∉ D) (hyb : yb ∉ D) : Agree D a' b' := by
  refine ⟨hn, by rw [ha.mem, hb.mem, h.mem], ?_⟩
  intro z hz
  have h1 : z ≠ ya := fun e => hya (e ▸ hz)
  have h2 : z ≠ yb := fun e => hyb (e ▸ hz)
  rw [ha.other z h1, hb.other z h2]; exact h.on z hz

theorem closed_enterLive (D : List Nat) (s : St) (hd y : Nat) (q : Req) (h : Closed D s) : Closed D (enterLive s hd y q).1 := by
  rw [closed_iff] at h ⊢
  obtain ⟨_, hoff, _, _, hf, _⟩ := enterLive_spec s hd y q
  intro z hz c hc r hr
  by_cases hzy : z = y
  · subst hzy
    rw [hf] at hc
    have hm : nodeTgt c ∈ ((checksOf s z q).f).map nodeTgt := List.mem_map_of_mem hc
    unfold checksOf at hm
    rw [checks_f_tgt] at hm
    obtain ⟨c0, hc0, he⟩ := List.mem_map.mp hm
    exact h z hz c0 hc0 r (he.trans hr)
  · have := congrArg (fun p => p.2.1) (hoff.other z hzy)
    simp only [proj] at this
    rw [this] at hc
    exact h z hz c hc r hr

theorem closed_exitLive (D : List Nat) (s : St) (hd : Nat) (err : Bool) (h : Closed D s) : Closed D (exitLive s hd err).1 := by
  rcases hl : liveAt s hd with _ | ⟨h1, x, q, st⟩
  · rw [exitLive_none s hd err hl]; exact h
  · obtain ⟨_, _, hf, _, _⟩ := exitLive_some s hd err h1 x q st hl
    intro y hy c hc
    rw [hf] at hc
    exact h y hy c hc

theorem doLoad_live (s : St) (modl : String) (re : Bool) (only : Option Nat) (arg : String) :
    (doLoad false s modl re only arg).1.live = s.live := by
  unfold doLoad
  simp only [Bool.false_and, Bool.false_eq_true, if_false]
  cases re <;> simp only [if_true, if_false, Bool.false_eq_true] <;>
    (split_ifs <;> (try rfl) <;> (split <;> (try rfl) <;> (split_ifs <;> rfl)))

/-- the entries in flight on resources of `D` are the same, handle by handle -/
def LiveRel (D : List Nat) (a b : St) : Prop :=
  ∀ z e, e.2.1 ∈ D → (liveAt a z = some e ↔ liveAt b z = some e)

end Sentinel.C14

namespace Sentinel.C14
open Sentinel.Reuse Sentinel.Drv.C14 Sentinel.LA

/-! ### a reachability invariant: every bound flow rule that needs a statistic has the node it reads -/

/-- the resource whose node a flow rule's statistic is taken from -/
def ruleTgt (r : FlowRule) : Nat := if r.rel = 1 then r.ref else r.res

def NodesThere (s : St) : Prop :=
  ∀ y, ∀ c ∈ s.flow.ctls y, c.rule.needStat = true → (nodeAt s (ruleTgt c.rule)).isSome

theorem throttleCheck_rule (now : Nat) (c : Ctl FlowRule FlowSt) : (throttleCheck now c).2.rule = c.rule := by
  unfold throttleCheck
  simp only []
  split_ifs <;> rfl

theorem throttleCheckF_rule (now : Nat) (thr : Float) (c : Ctl FlowRule FlowSt) : (throttleCheckF now thr c).2.rule = c.rule := by
  unfold throttleCheckF
  simp only []
  split_ifs <;> rfl

theorem warmUpAllowed_rule (now : Nat) (p : Float) (c : Ctl FlowRule FlowSt) : (warmUpAllowed now p c).2.rule = c.rule := by
  unfold warmUpAllowed
  simp only []

theorem flowCheckOne_rule (now : Nat) (mem : Int) (sum : Nat) (p : Float) (c : Ctl FlowRule FlowSt) :
    (flowCheckOne now mem sum p c).2.rule = c.rule := by
  unfold flowCheckOne
  simp only []
  split_ifs <;> first
    | rfl
    | exact throttleCheck_rule ..
    | exact throttleCheckF_rule ..
    | (rw [throttleCheckF_rule]; exact warmUpAllowed_rule ..)
    | exact warmUpAllowed_rule ..

theorem flowScan_rules (now : Nat) (mem : Int) (rd : Ctl FlowRule FlowSt → Nat × Float) (cs : List (Ctl FlowRule FlowSt)) :
    (flowScan now mem rd cs).2.2.map (·.rule) = cs.map (·.rule) := by
  induction cs with
  | nil => rfl
  | cons c cs ih =>
    unfold flowScan
    have hst := flowCheckOne_rule now mem (rd c).1 (rd c).2 c
    rcases hres : flowCheckOne now mem (rd c).1 (rd c).2 c with ⟨v, c'⟩
    rw [hres] at hst
    have ht : c'.rule = c.rule := hst
    cases v <;> simp [ht, ih]

theorem flowRecordPass_rule (now : Nat) (c : Ctl FlowRule FlowSt) : (flowRecordPass now c).rule = c.rule := by
  unfold flowRecordPass
  cases hs : c.st.stat <;> simp [hs]

theorem checks_f_rules (now : Nat) (mem : Int) (rd : Ctl FlowRule FlowSt → Nat × Float) (node : Arr Nat)
    (fcs : List (Ctl FlowRule FlowSt)) (hcs : List (Ctl HotRule HotSt)) (ccs : List (Ctl CbRule CbSt)) (q : Req) :
    (checks now mem rd node fcs hcs ccs q).f.map (·.rule) = fcs.map (·.rule) := by
  have hscan := flowScan_rules now mem rd fcs
  unfold checks
  rcases hF : flowScan now mem rd fcs with ⟨fb, w, fcs'⟩
  rw [hF] at hscan
  simp only [] at hscan ⊢
  cases fb with
  | some id => exact hscan
  | none =>
    simp only []
    rcases hotScan now q hcs with ⟨hb, hw, hcs'⟩
    cases hb with
    | some id => exact hscan
    | none =>
      simp only []
      rcases cbCheck now ccs with ⟨cbb, ccs'⟩
      cases cbb with
      | some id => exact hscan
      | none =>
        simp only [List.map_map]
        rw [← hscan]
        congr 1
        funext c
        exact flowRecordPass_rule now c

/-- a step that keeps the bound flow rules of every resource (as lists) and only adds nodes keeps the invariant -/
theorem nodesThere_of (s s' : St) (h : NodesThere s)
    (hr : ∀ y, (s'.flow.ctls y).map (·.rule) = (s.flow.ctls y).map (·.rule))
    (hn : ∀ z, (nodeAt s z).isSome → (nodeAt s' z).isSome) : NodesThere s' := by
  intro y c hc hneed
  have hm : c.rule ∈ (s'.flow.ctls y).map (·.rule) := List.mem_map_of_mem hc
  rw [hr y] at hm
  obtain ⟨c0, hc0, he⟩ := List.mem_map.mp hm
  rw [← he] at hneed ⊢
  exact hn _ (h y c0 hc0 hneed)

theorem nodesThere_enterChecks (s : St) (y : Nat) (q : Req) (h : NodesThere s) : NodesThere (enterChecks s y q).1 := by
  obtain ⟨_, hw⟩ := enterChecks_spec s y q
  refine nodesThere_of s _ h ?_ ?_
  · intro z
    rw [hw.flow z]
    split_ifs with hz
    · subst hz; unfold checksOf; exact checks_f_rules ..
    · rfl
  · intro z hz
    rw [hw.node z]
    split_ifs
    · rfl
    · exact hz

theorem nodesThere_entry (s : St) (y : Nat) (err : Bool) (q : Req) (rt : Nat) (h : NodesThere s) :
    NodesThere (entry s y err q rt).1 := by
  have h1 := nodesThere_enterChecks s y q h
  unfold entry
  rcases hE : enterChecks s y q with ⟨s1, b, w⟩
  rw [hE] at h1
  cases b with
  | some t => exact h1
  | none => exact h1

theorem nodesThere_enterLive (s : St) (hd y : Nat) (q : Req) (h : NodesThere s) : NodesThere (enterLive s hd y q).1 := by
  have h1 := nodesThere_enterChecks s y q h
  unfold enterLive
  rcases hE : enterChecks s y q with ⟨s1, b, w⟩
  rw [hE] at h1
  cases b with
  | some t => exact h1
  | none => exact h1

theorem nodesThere_exitLive (s : St) (hd : Nat) (err : Bool) (h : NodesThere s) : NodesThere (exitLive s hd err).1 := by
  unfold exitLive
  split
  · exact h
  · exact h

end Sentinel.C14

namespace Sentinel.C14
open Sentinel.Reuse Sentinel.Drv.C14 Sentinel.LA

/-- every controller a build returns is an old one or is bound to (the normalised form of) a rule of the new list -/
theorem build_mem {R S : Type} (K : Calc R S) (now : Nat) (new : List R) (old : List (Ctl R S)) (next : Nat)
    (c : Ctl R S) (hc : c ∈ build K now new old next) : c ∈ old ∨ ∃ r ∈ new, c.rule = K.norm r := by
  induction new generalizing old next with
  | nil => simp [build] at hc
  | cons r rs ih =>
    have lift : ∀ (old' : List (Ctl R S)) (nx : Nat), (∀ x ∈ old', x ∈ old) → c ∈ build K now rs old' nx →
        c ∈ old ∨ ∃ r' ∈ r :: rs, c.rule = K.norm r' := by
      intro old' nx hsub hm
      rcases ih old' nx hm with h | ⟨r', hr', he⟩
      · exact Or.inl (hsub _ h)
      · exact Or.inr ⟨r', List.mem_cons_of_mem _ hr', he⟩
    have herase : ∀ i, ∀ x ∈ old.eraseIdx i, x ∈ old := fun i x hx => (List.eraseIdx_sublist old i).subset hx
    rw [build] at hc
    rcases hres : reuseIdx K r old 0 none with ⟨a, b⟩
    rw [hres] at hc
    cases a with
    | some i =>
      simp only [] at hc
      rcases hg : old[i]? with _ | d
      · rw [hg] at hc; exact lift old next (fun _ h => h) hc
      · rw [hg] at hc
        simp only [List.mem_cons] at hc
        rcases hc with rfl | hc
        · exact Or.inl (List.mem_of_getElem? hg)
        · exact lift _ next (herase i) hc
    | none =>
      cases b with
      | some j =>
        simp only [] at hc
        rcases hg : old[j]? with _ | d
        · rw [hg] at hc; exact lift old next (fun _ h => h) hc
        · rw [hg] at hc
          simp only [List.mem_cons] at hc
          rcases hc with rfl | hc
          · exact Or.inr ⟨r, List.mem_cons_self .., rfl⟩
          · exact lift _ (next+1) (herase j) hc
      | none =>
        simp only [List.mem_cons] at hc
        rcases hc with rfl | hc
        · exact Or.inr ⟨r, List.mem_cons_self .., rfl⟩
        · exact lift old (next+1) (fun _ h => h) hc

theorem foldl_nodes_mono (now z : Nat) (ts : List Nat) (ns : List (Nat × Arr Nat)) (h : (ns.find? (·.1 == z)).isSome) :
    ((ts.foldl (fun ns y => if ns.any (·.1 == y) then ns else (y, LA.mk 20 500 now) :: ns) ns).find? (·.1 == z)).isSome := by
  rw [find_foldl_nodes now z ts ns (Or.inl h)]; exact h

theorem foldl_nodes_creates (now z : Nat) (ts : List Nat) (ns : List (Nat × Arr Nat)) (hz : z ∈ ts) :
    ((ts.foldl (fun ns y => if ns.any (·.1 == y) then ns else (y, LA.mk 20 500 now) :: ns) ns).find? (·.1 == z)).isSome := by
  induction ts generalizing ns with
  | nil => simp at hz
  | cons y ts ih =>
    simp only [List.foldl_cons]
    rcases List.mem_cons.mp hz with rfl | hz'
    · apply foldl_nodes_mono
      by_cases hany : ns.any (·.1 == z) = true
      · simp only [hany, if_true]
        rw [List.any_eq_true] at hany
        obtain ⟨a, ha, hp⟩ := hany
        rw [List.find?_isSome]
        exact ⟨a, ha, hp⟩
      · simp [hany]
    · exact ih _ hz'

theorem norm_needStat (r : FlowRule) : (FlowRule.norm r).needStat = r.needStat := by
  unfold FlowRule.norm FlowRule.needStat; split_ifs <;> rfl

theorem norm_tgt (r : FlowRule) : ruleTgt (FlowRule.norm r) = ruleTgt r := by
  unfold FlowRule.norm ruleTgt; split_ifs <;> rfl

theorem mem_rulesOf {R : Type} (valid : R → Bool) (res : R → Nat) (x : Nat) (rules : List R) (r : R)
    (h : r ∈ rulesOf valid res x rules) : r ∈ rules ∧ valid r = true ∧ res r = x := by
  unfold rulesOf at h
  simp only [List.mem_filter, Bool.and_eq_true, beq_iff_eq] at h
  exact ⟨h.1, h.2.1, h.2.2⟩

/-- a flow load (any list, either path) re-establishes the invariant -/
theorem nodesThere_flowLoad (s : St) (only : Option Nat) (rules : List FlowRule) (h : NodesThere s) (s' : St)
    (hf : s'.flow = (match only with
      | none => s.flow.loadRules flowCalc FlowRule.valid (·.res) s.now rules
      | some x => s.flow.loadRulesOfResource flowCalc FlowRule.valid (·.res) s.now x rules))
    (hn : s'.nodes = (flowTargets rules only).foldl
      (fun ns y => if ns.any (·.1 == y) then ns else (y, LA.mk 20 500 s.now) :: ns) s.nodes) : NodesThere s' := by
  have hmono : ∀ z, (nodeAt s z).isSome → (nodeAt s' z).isSome := by
    intro z hz; simp only [nodeAt, hn]; exact foldl_nodes_mono s.now z _ _ hz
  have hbuilt : ∀ y, (only = none ∨ only = some y) → ∀ c ∈ build flowCalc s.now (rulesOf FlowRule.valid (·.res) y rules) (s.flow.ctls y) s.flow.next,
      c.rule.needStat = true → (nodeAt s' (ruleTgt c.rule)).isSome := by
    intro y hy c hc hneed
    rcases build_mem flowCalc s.now _ _ _ c hc with hold | ⟨r, hr, he⟩
    · exact hmono _ (h y c hold hneed)
    · obtain ⟨hrm, hv, hres⟩ := mem_rulesOf _ _ _ _ _ hr
      have he' : c.rule = FlowRule.norm r := he
      rw [he', norm_needStat] at hneed
      rw [he', norm_tgt]
      simp only [nodeAt, hn]
      apply foldl_nodes_creates
      unfold flowTargets
      refine List.mem_map.mpr ⟨r, ?_, rfl⟩
      simp only [List.mem_filter, Bool.and_eq_true, Bool.or_eq_true, beq_iff_eq]
      refine ⟨hrm, ⟨hv, hneed⟩, ?_⟩
      rcases hy with hy | hy
      · left; rw [hy]; rfl
      · right; rw [hy, hres]
  intro y c hc hneed
  rw [hf] at hc
  cases only with
  | none => exact hbuilt y (Or.inl rfl) c hc hneed
  | some x =>
    simp only [Mgr.loadRulesOfResource] at hc
    split_ifs at hc with hyx
    · subst hyx; exact hbuilt y (Or.inr rfl) c hc hneed
    · exact hmono _ (h y c hc hneed)

theorem nodesThere_doLoad (s : St) (modl : String) (re : Bool) (only : Option Nat) (arg : String) (h : NodesThere s) :
    NodesThere (doLoad false s modl re only arg).1 := by
  have keep : ∀ s' : St, s'.flow = s.flow → s'.nodes = s.nodes → NodesThere s' := by
    intro s' hf hn y c hc hneed
    rw [hf] at hc
    simp only [nodeAt, hn]
    exact h y c hc hneed
  unfold doLoad
  simp only [Bool.false_and, Bool.false_eq_true, if_false]
  by_cases hcb : (modl == "cb") = true
  · simp only [hcb, if_true]
    cases re <;> (split <;> (try (split_ifs)) <;> exact keep _ rfl rfl)
  · simp only [hcb, Bool.false_eq_true, if_false]
    by_cases hfl : (modl == "flow") = true
    · simp only [hfl, if_true]
      cases hp : parseList parseFlow arg with
      | none => cases re <;> exact keep _ rfl rfl
      | some rules =>
        simp only []
        split_ifs
        all_goals first
          | exact keep _ rfl rfl
          | exact nodesThere_flowLoad _ only rules (keep _ rfl rfl) _ rfl rfl
    · simp only [hfl, Bool.false_eq_true, if_false]
      cases re <;> (split_ifs <;> (try (split <;> (try (split_ifs)))) <;> exact keep _ rfl rfl)

theorem forall2_mem_right {α β : Type} {P : α → β → Prop} {l1 : List α} {l2 : List β} (h : List.Forall₂ P l1 l2)
    (b : β) (hb : b ∈ l2) : ∃ a ∈ l1, P a b := by
  induction h with
  | nil => simp at hb
  | @cons a b' as bs hab _ ih =>
    rcases List.mem_cons.mp hb with rfl | hm
    · exact ⟨a, List.mem_cons_self .., hab⟩
    · obtain ⟨a', ha', hp⟩ := ih hm
      exact ⟨a', List.mem_cons_of_mem _ ha', hp⟩

/-- with the invariant, an unchanged flow reload whose rules do not read the statistic of `D` from outside `D` never has to
    create a node for a resource of `D` -/
theorem flow_nodes_present (D : List Nat) (s : St) (only : Option Nat) (rules : List FlowRule) (h : NodesThere s)
    (hu : UnchangedFor flowCalc FlowRule.valid (·.res) D s.flow only rules)
    (hin : ∀ r ∈ rules, ruleTgt r ∈ D → r.res ∈ D) :
    ∀ z ∈ D, (nodeAt s z).isSome ∨ z ∉ flowTargets rules only := by
  intro z hz
  by_cases hzt : z ∈ flowTargets rules only
  · left
    unfold flowTargets at hzt
    obtain ⟨r, hr, he⟩ := List.mem_map.mp hzt
    simp only [List.mem_filter, Bool.and_eq_true, Bool.or_eq_true, beq_iff_eq] at hr
    obtain ⟨hrm, ⟨hv, hneed⟩, honly⟩ := hr
    have het : ruleTgt r = z := he
    have hres : r.res ∈ D := hin r hrm (het ▸ hz)
    have htouch : only = none ∨ only = some r.res := by
      rcases honly with ho | ho
      · left; cases only <;> simp_all
      · right; exact ho
    have hf := hu r.res hres htouch
    have hmem : r ∈ rulesOf FlowRule.valid (·.res) r.res rules := by
      unfold rulesOf; simp [hrm, hv]
    -- the bound controller of `r`
    obtain ⟨c, hc, heq⟩ := forall2_mem_right hf r hmem
    simp only [flowCalc, FlowRule.eq, Bool.and_eq_true, beq_iff_eq] at heq
    obtain ⟨⟨⟨⟨⟨⟨⟨⟨⟨⟨⟨⟨⟨e1, e2⟩, e3⟩, e4⟩, e5⟩, e6⟩, _⟩, _⟩, _⟩, _⟩, _⟩, _⟩, _⟩, _⟩ := heq
    have hn : c.rule.needStat = true := by
      unfold FlowRule.needStat at hneed ⊢; rw [e5, e6]; exact hneed
    have ht : ruleTgt c.rule = z := by
      rw [← het]; unfold ruleTgt; rw [e1, e2, e3]
    rw [← ht]
    exact h r.res c hc hn
  · right; exact hzt

end Sentinel.C14
