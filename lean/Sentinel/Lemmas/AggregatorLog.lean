import Mathlib.Tactic
import Sentinel.Lemmas.MetricLog
import Sentinel.Lemmas.AggregatorTick
/-!
# Aggregator, part E: histories (`run`), and what the writer retains of what it was handed
-/
set_option linter.unusedSectionVars false
namespace Sentinel.AGG
open Sentinel.LA Sentinel.C08 Sentinel.Agg Sentinel.MetricLog

/-! ## the invariant along a history -/

theorem sysInv_new (n L T0 maxSize maxFiles : Nat) : SysInv n L T0 (St.new n L T0 maxSize maxFiles) [] T0 := by
  refine ⟨rfl, rfl, le_refl _, by simp [St.new], ?_, ?_, ?_, ?_, by simp [St.new], by simp [St.new]⟩
  · intro nd hnd
    simp only [St.new, List.mem_singleton] at hnd
    subst hnd
    exact ⟨T0, le_refl _, le_refl _, rfl, trivial, by simp [opsOf, eventsOf, opsOfAdds]⟩
  · intro r hr; exact absurd rfl hr
  · intro f hf; simp [St.new] at hf
  · intro r sec; simp [St.new, allItems]

theorem run_cons (s : St) (ev : Agg.Ev) (r : List Agg.Ev) : run s (ev :: r) = run (step s ev) r := rfl

theorem sysInv_run (n L T0 : Nat) (hn : 0 < n) (hL : 0 < L) (hd : L ∣ 1000) (hT0 : 0 < T0)
    (s : St) (hist : List Agg.Ev) (now : Nat) (inv : SysInv n L T0 s hist now) (evs : List Agg.Ev)
    (mono : MonoEv now evs) (ok : TicksOK n L T0 s evs) :
    ∃ now', now ≤ now' ∧ SysInv n L T0 (run s evs) (hist ++ evs) now' := by
  induction evs generalizing s hist now with
  | nil => exact ⟨now, le_refl _, by simpa [run] using inv⟩
  | cons ev r ih =>
    obtain ⟨hle, hm⟩ := mono
    obtain ⟨hok, hoks⟩ := ok
    have hstep : SysInv n L T0 (step s ev) (hist ++ [ev]) ev.time := by
      cases ev with
      | rcd t res cls x => exact sysInv_rcd n L T0 s hist now inv t res cls x hle
      | tick t => exact sysInv_tick n L T0 hn hL hd hT0 s hist now inv t hle hok
    obtain ⟨now', h1, h2⟩ := ih (step s ev) (hist ++ [ev]) ev.time hstep hm hoks
    refine ⟨now', le_trans hle h1, ?_⟩
    rw [run_cons]
    simpa using h2

/-! ## the writer state is the fold of `Write` over the ghost history `written` -/

theorem runWrites_append (w : Writer) (a b : List (Nat × List Item)) :
    runWrites w (a ++ b) = runWrites (runWrites w a) b := by
  simp [runWrites, List.foldl_append]

theorem step_written (w0 : Writer) (s : St) (ev : Agg.Ev) (h : s.w = runWrites w0 s.written) :
    (step s ev).w = runWrites w0 (step s ev).written := by
  cases ev with
  | rcd t res cls x => simpa [step, record] using h
  | tick t =>
    unfold step aggregate
    dsimp only
    split_ifs
    · exact h
    · simp only [runWrites_append, h]

theorem run_written (w0 : Writer) (s : St) (evs : List Agg.Ev) (h : s.w = runWrites w0 s.written) :
    (run s evs).w = runWrites w0 (run s evs).written := by
  induction evs generalizing s with
  | nil => exact h
  | cons ev r ih => exact ih (step s ev) (step_written w0 s ev h)

/-! ## what the writer retains -/

theorem retained_roll_sublist (w : Writer) (ts : Nat) : (retained (w.roll ts).files).Sublist (retained w.files) := by
  unfold Writer.roll
  dsimp only
  have e : retained (List.drop (w.files.length + 1 - w.maxFiles) w.files ++ [{ name := nextName w.files ts, data := [], idx := [] }])
      = retained (List.drop (w.files.length + 1 - w.maxFiles) w.files) := by
    simp [retained]
  rw [e]
  exact retained_drop_sublist _ _

theorem retained_rollIf_sublist (w : Writer) (c : Bool) (ts : Nat) :
    (retained (w.rollIf c ts).files).Sublist (retained w.files) := by
  unfold Writer.rollIf; split_ifs
  · exact retained_roll_sublist w ts
  · exact List.Sublist.refl _

theorem retained_addIndex (w : Writer) (sec : Nat) : retained (w.addIndex sec).files = retained w.files :=
  retained_modLast_same _ _ (fun _ => rfl)

theorem retained_append_sublist (w : Writer) (items : List Item) :
    (retained (w.append items).files).Sublist (retained w.files ++ items) := by
  by_cases hne : w.files = []
  · simp [Writer.append, hne, modLast, retained]
  · have e : retained (w.append items).files = retained w.files ++ items :=
      retained_modLast_append _ hne _ items (fun _ => rfl)
    rw [e]

/-- one `Write`: the retained items are a sub-list of the previously retained ones followed by the (normalised) items -/
theorem retained_write_sublist (w : Writer) (ts : Nat) (items : List Item) :
    (retained (w.write ts items).files).Sublist (retained w.files ++ normItems ts items) := by
  unfold Writer.write
  dsimp only
  split_ifs with h1 h2
  · exact List.sublist_append_left _ _
  · refine (retained_rollIf_sublist _ _ _).trans ((retained_append_sublist _ _).trans ?_)
    refine List.Sublist.append_right ?_ _
    exact (retained_rollIf_sublist _ _ _).trans (by rw [retained_addIndex])
  · exact (retained_rollIf_sublist _ _ _).trans (retained_append_sublist _ _)

theorem retained_runWrites_sublist (w : Writer) (hist : List (Nat × List Item)) :
    (retained (runWrites w hist).files).Sublist (retained w.files ++ hist.flatMap fun p => normItems p.1 p.2) := by
  induction hist generalizing w with
  | nil => simp [runWrites]
  | cons p r ih =>
    have h1 := ih (w.write p.1 p.2)
    have h2 := retained_write_sublist w p.1 p.2
    have : runWrites w (p :: r) = runWrites (w.write p.1 p.2) r := rfl
    rw [this, List.flatMap_cons, ← List.append_assoc]
    exact h1.trans (List.Sublist.append_right h2 _)

theorem retained_new (now a b : Nat) : retained (Writer.new now a b).files = [] := by
  simp [Writer.new, Writer.roll, retained]

/-- items that already carry the batch's time stamp and a name without `|` are written as they are -/
theorem normItems_id (ts : Nat) (items : List Item) (h : ∀ it ∈ items, it.ts = ts ∧ BAR ∉ it.res) :
    normItems ts items = items := by
  unfold normItems
  conv_rhs => rw [← List.map_id items]
  apply List.map_congr_left
  intro it hit
  obtain ⟨h1, h2⟩ := h it hit
  have := sanitize_id it.res h2
  cases it
  simp_all

/-! ## no call is ignored by the writer -/

theorem write_latest (w : Writer) (ts : Nat) (items : List Item) :
    (w.write ts items).latestOpSec = max w.latestOpSec (ts / 1000) := by
  unfold Writer.write
  dsimp only
  split_ifs with h1 h2
  · omega
  · simp only [rollIf_latest, Writer.append, Writer.addIndex]
  · simp only [rollIf_latest, Writer.append]

/-- every call of the history passes the writer's `timeSec < latestOpSec → ignore` test -/
def Accepted : Writer → List (Nat × List Item) → Prop
  | _, [] => True
  | w, p :: r => w.latestOpSec ≤ p.1 / 1000 ∧ Accepted (w.write p.1 p.2) r

theorem accepted_of_sorted (w : Writer) (hist : List (Nat × List Item))
    (h0 : ∀ p ∈ hist, w.latestOpSec ≤ p.1 / 1000) (hs : (hist.map (·.1)).Pairwise (· < ·)) : Accepted w hist := by
  induction hist generalizing w with
  | nil => trivial
  | cons p r ih =>
    simp only [List.map_cons, List.pairwise_cons] at hs
    refine ⟨h0 p (List.mem_cons_self ..), ih _ ?_ hs.2⟩
    intro q hq
    rw [write_latest]
    have h1 := h0 q (List.mem_cons_of_mem _ hq)
    have h2 := hs.1 q.1 (List.mem_map.mpr ⟨q, hq, rfl⟩)
    have : p.1 / 1000 ≤ q.1 / 1000 := Nat.div_le_div_right (Nat.le_of_lt h2)
    exact max_le h1 this

end Sentinel.AGG
