import Mathlib.Tactic
import Sentinel.Lemmas.WarmUp
import Sentinel.Props.C08
/-! History-level lemmas for C11: decision logs of `req` histories tied to the leap array through the C08 reference theorems. -/
namespace Sentinel.WU.H
open Sentinel.WU Sentinel.WU.L Sentinel.LA

/-- the decision log of a history: `(time, batch, admitted)` -/
abbrev Log := List (ℕ × ℕ × Bool)

/-- what `req` records in the resource's leap array for a decision -/
def evOf (e : ℕ × ℕ × Bool) : ℕ × Bucket :=
  (e.1, if e.2.2 then evBucket .pass e.2.1 else evBucket .block e.2.1)

def hist (l : Log) : List (ℕ × Bucket) := l.map evOf

/-- admitted tokens whose 500 ms bucket start lies in `[lo, hi]` -/
def passIn (l : Log) (lo hi : ℕ) : ℕ :=
  (l.map fun e => if e.2.2 = true ∧ lo ≤ cbs 500 e.1 ∧ cbs 500 e.1 ≤ hi then e.2.1 else 0).sum

theorem evOf_pass (e : ℕ × ℕ × Bool) : (evOf e).2.get .pass = if e.2.2 = true then e.2.1 else 0 := by
  unfold evOf
  cases e.2.2 <;> simp [evBucket, Bucket.get]

theorem refW_pass (l : Log) (lo hi : ℕ) : (refW 500 (hist l) lo hi).get .pass = passIn l lo hi := by
  induction l with
  | nil => simp [hist, refW, passIn]
  | cons e r ih =>
    have e1 : refW 500 (hist (e :: r)) lo hi =
        (if lo ≤ cbs 500 (evOf e).1 ∧ cbs 500 (evOf e).1 ≤ hi then (evOf e).2 else 0) + refW 500 (hist r) lo hi := by
      simp [hist, refW]
    rw [e1, Sentinel.C08.add_get, ih]
    unfold passIn
    rw [List.map_cons, List.sum_cons]
    congr 1
    have : (evOf e).1 = e.1 := rfl
    rw [this]
    by_cases hw : lo ≤ cbs 500 e.1 ∧ cbs 500 e.1 ≤ hi
    · rw [if_pos hw, evOf_pass]
      by_cases ha : e.2.2 = true
      · rw [if_pos ha, if_pos ⟨ha, hw⟩]
      · rw [if_neg ha, if_neg (fun h => ha h.1)]
    · rw [if_neg hw, if_neg (fun h => hw h.2)]
      simp

theorem passIn_append (l : Log) (e : ℕ × ℕ × Bool) (lo hi : ℕ) :
    passIn (l ++ [e]) lo hi = passIn l lo hi + (if e.2.2 = true ∧ lo ≤ cbs 500 e.1 ∧ cbs 500 e.1 ≤ hi then e.2.1 else 0) := by
  unfold passIn
  simp

/-- window inclusion on the events that are actually there -/
theorem passIn_mono (l : Log) (lo hi lo' hi' : ℕ)
    (h : ∀ e ∈ l, e.2.2 = true → lo ≤ cbs 500 e.1 → cbs 500 e.1 ≤ hi → lo' ≤ cbs 500 e.1 ∧ cbs 500 e.1 ≤ hi') :
    passIn l lo hi ≤ passIn l lo' hi' := by
  induction l with
  | nil => simp [passIn]
  | cons e r ih =>
    unfold passIn at ih ⊢
    rw [List.map_cons, List.sum_cons, List.map_cons, List.sum_cons]
    apply Nat.add_le_add
    · by_cases hc : e.2.2 = true ∧ lo ≤ cbs 500 e.1 ∧ cbs 500 e.1 ≤ hi
      · have := h e (List.mem_cons_self) hc.1 hc.2.1 hc.2.2
        rw [if_pos hc, if_pos ⟨hc.1, this⟩]
      · rw [if_neg hc]; exact Nat.zero_le _
    · exact ih fun e' he' => h e' (List.mem_cons_of_mem _ he')

/-- a positive window sum has a witness -/
theorem passIn_pos (l : Log) (lo hi : ℕ) (h : 0 < passIn l lo hi) :
    ∃ e ∈ l, e.2.2 = true ∧ lo ≤ cbs 500 e.1 ∧ cbs 500 e.1 ≤ hi := by
  induction l with
  | nil => simp [passIn] at h
  | cons e r ih =>
    unfold passIn at h ih
    rw [List.map_cons, List.sum_cons] at h
    by_cases hc : e.2.2 = true ∧ lo ≤ cbs 500 e.1 ∧ cbs 500 e.1 ≤ hi
    · exact ⟨e, List.mem_cons_self, hc⟩
    · rw [if_neg hc, Nat.zero_add] at h
      obtain ⟨e', he', hp⟩ := ih h
      exact ⟨e', List.mem_cons_of_mem _ he', hp⟩

theorem runAdds_append (a : Arr Bucket) (h : List (ℕ × Bucket)) (t : ℕ) (x : Bucket) :
    runAdds a (h ++ [(t, x)]) = (LA.add (runAdds a h) t x).1 := by
  induction h generalizing a with
  | nil => simp [runAdds]
  | cons e r ih => obtain ⟨t', x'⟩ := e; simp [runAdds, ih]

theorem mono_append (p : ℕ) (h : List (ℕ × Bucket)) (t : ℕ) (x : Bucket)
    (hm : Mono p h) (hle : ∀ e ∈ h, e.1 ≤ t) (hp : p ≤ t) : Mono p (h ++ [(t, x)]) := by
  induction h generalizing p with
  | nil => simp [Mono, hp]
  | cons e r ih =>
    obtain ⟨t', x'⟩ := e
    obtain ⟨h1, h2⟩ := hm
    refine ⟨h1, ih t' h2 (fun e he => hle e (List.mem_cons_of_mem _ he)) ?_⟩
    exact hle (t', x') (List.mem_cons_self ..)

/-- invariant tying a resource state to the decision log of its history (default view `2 × 500 ms`) -/
structure HInv (c : Cfg ℚ) (t0 : ℕ) (s : Sys ℚ) (l : Log) (latest : ℕ) : Prop where
  rule : s.rule = some (.warmup c, 2, 1000)
  arr : s.arr = some (runAdds (LA.mk nodeN nodeL t0) (hist l))
  mono : Mono t0 (hist l)
  le : ∀ e ∈ l, e.1 ≤ latest
  t0le : t0 ≤ latest
  t0big : 1000 ≤ t0
  tk0 : 0 ≤ s.tok.tokens
  tk1 : s.tok.tokens ≤ c.max

/-- window pass sum read by the reject checker at `t` -/
def curAt (l : Log) (t : ℕ) : ℕ := passIn l (cbs 500 t - 500) (cbs 500 t)
/-- previous-window pass sum read by `syncToken` at `t` -/
def prevAt (l : Log) (t : ℕ) : ℕ := passIn l (cbs 500 (t - 500) - 500) (cbs 500 (t - 500))

theorem hist_le (l : Log) (latest : ℕ) (h : ∀ e ∈ l, e.1 ≤ latest) : ∀ e ∈ hist l, e.1 ≤ latest := by
  intro e he
  unfold hist at he
  rw [List.mem_map] at he
  obtain ⟨e', he', rfl⟩ := he
  exact h e' he'

theorem nodeN_eq : nodeN = 20 := rfl
theorem nodeL_eq : nodeL = 500 := rfl

theorem vSum_eq (c : Cfg ℚ) (t0 : ℕ) (s : Sys ℚ) (l : Log) (latest : ℕ) (inv : HInv c t0 s l latest) (t : ℕ) (ht : latest ≤ t) :
    vSum (runAdds (LA.mk nodeN nodeL t0) (hist l)) 1000 t .pass = curAt l t := by
  have ht0 : t0 ≤ t := le_trans inv.t0le ht
  have hbig := inv.t0big
  rw [nodeN_eq, nodeL_eq]
  have h := Sentinel.C08.getSum_eq_ref 20 500 t0 (by norm_num) (by norm_num) (hist l) inv.mono t
    (fun e he => le_trans (hist_le l latest inv.le e he) ht) ht0 (by omega) 1000 (by norm_num) (by norm_num) .pass
  rw [h, refW_pass]
  unfold curAt
  have e : cbs 500 t + 500 - 1000 = cbs 500 t - 500 := by omega
  rw [e]

theorem vPrevSum_eq (c : Cfg ℚ) (t0 : ℕ) (s : Sys ℚ) (l : Log) (latest : ℕ) (inv : HInv c t0 s l latest) (t : ℕ) (ht : latest ≤ t) :
    vPrevSum (runAdds (LA.mk nodeN nodeL t0) (hist l)) 1000 500 t .pass = prevAt l t := by
  have ht0 : t0 ≤ t := le_trans inv.t0le ht
  have hbig := inv.t0big
  rw [nodeN_eq, nodeL_eq]
  unfold vPrevSum
  rw [if_pos (by omega : 500 ≤ t)]
  unfold vSum
  have h := Sentinel.C08.prevSum_eq_ref 20 500 t0 (by norm_num) (by norm_num) (hist l) inv.mono t
    (fun e he => le_trans (hist_le l latest inv.le e he) ht) ht0 1000 500 (by norm_num) (by omega) ⟨1, by norm_num⟩
  rw [h, refW_pass]
  unfold prevAt
  have e : cbs 500 (t - 500) + 500 - 1000 = cbs 500 (t - 500) - 500 := by omega
  rw [e]


theorem prevQps_eq (c : Cfg ℚ) (t0 : ℕ) (s : Sys ℚ) (l : Log) (latest : ℕ) (inv : HInv c t0 s l latest) (t : ℕ) (ht : latest ≤ t) :
    (prevQps (runAdds (LA.mk nodeN nodeL t0) (hist l)) 2 1000 t : ℚ) = (prevAt l t : ℚ) := by
  unfold prevQps
  have e : (1000 : ℕ) / 2 = 500 := by norm_num
  rw [e, vPrevSum_eq c t0 s l latest inv t ht]
  simp

/-- one request, characterised on the log: the threshold comes from the token sync with the previous-window count of the log,
    the decision compares the log's current-window count, and the invariant carries on with the decision appended -/
theorem req_spec {c : Cfg ℚ} {t0 : ℕ} {s : Sys ℚ} {l : Log} {latest : ℕ} (inv : HInv c t0 s l latest) (t b : ℕ) (ht : latest ≤ t) :
    (req s t b).1.tok = sync c s.tok t (prevAt l t : ℚ) ∧
    (req s t b).2 = !rejects (allowed c (sync c s.tok t (prevAt l t : ℚ)).tokens) (curAt l t) b ∧
    HInv c t0 (req s t b).1 (l ++ [(t, b, (req s t b).2)]) t := by
  have hbig := inv.t0big
  have ht0 : t0 ≤ t := le_trans inv.t0le ht
  have htouch : s.touch t = s := by unfold Sys.touch; rw [inv.arr]
  have hq := prevQps_eq c t0 s l latest inv t ht
  have hthr : threshold s (runAdds (LA.mk nodeN nodeL t0) (hist l)) t =
      (sync c s.tok t (prevAt l t : ℚ), some (allowed c (sync c s.tok t (prevAt l t : ℚ)).tokens)) := by
    unfold threshold
    rw [inv.rule]
    dsimp only
    rw [hq]
  have hcur := vSum_eq c t0 s l latest inv t ht
  have hb := sync_bounds c s.tok t (prevAt l t : ℚ) (Nat.cast_nonneg _) inv.tk0 inv.tk1
  have hadd : ∀ x : Bucket, (addAt (runAdds (LA.mk nodeN nodeL t0) (hist l)) t x).1 =
      runAdds (LA.mk nodeN nodeL t0) (hist l ++ [(t, x)]) := by
    intro x
    unfold addAt
    rw [if_neg (show ¬ t = 0 by omega), runAdds_append]
  have hmono : ∀ x : Bucket, Mono t0 (hist l ++ [(t, x)]) := fun x =>
    mono_append t0 (hist l) t x inv.mono (fun e he => le_trans (hist_le l latest inv.le e he) ht) ht0
  have hle : ∀ adm : Bool, ∀ e ∈ l ++ [(t, b, adm)], e.1 ≤ t := by
    intro adm e he
    rw [List.mem_append] at he
    rcases he with he | he
    · exact le_trans (inv.le e he) ht
    · simp at he; rw [he]
  unfold req
  rw [htouch]
  simp only [inv.arr, hthr, inv.rule, hcur]
  cases hrej : rejects (allowed c (sync c s.tok t (prevAt l t : ℚ)).tokens) (curAt l t) b
  · simp only [Bool.false_eq_true, if_false, Bool.not_false]
    refine ⟨trivial, trivial, ⟨rfl, ?_, ?_, hle true, ht0, hbig, hb.1, hb.2⟩⟩
    · show some (addAt _ t (evBucket .pass b)).1 = _
      rw [hadd]; simp [hist, evOf]
    · have := hmono (evBucket .pass b)
      simpa [hist, evOf] using this
  · simp only [if_true, Bool.not_true]
    refine ⟨trivial, trivial, ⟨rfl, ?_, ?_, hle false, ht0, hbig, hb.1, hb.2⟩⟩
    · show some (addAt _ t (evBucket .block b)).1 = _
      rw [hadd]; simp [hist, evOf]
    · have := hmono (evBucket .block b)
      simpa [hist, evOf] using this

theorem hinv_load (T : ℚ) (p cf0 t0 : ℕ) (h0 : 1000 ≤ t0) :
    HInv (mkCfg T p cf0) t0 (loadWarmUp ({} : Sys ℚ) t0 T p cf0 2 1000) [] t0 := by
  refine ⟨rfl, rfl, trivial, by simp, le_refl _, h0, le_refl _, ?_⟩
  show (0 : ℤ) ≤ _
  positivity


/-- the decision log of a history of requests `(time, batch)` run through `req` -/
def runLog (s : Sys ℚ) (l : Log) : List (ℕ × ℕ) → Sys ℚ × Log
  | [] => (s, l)
  | (t, b) :: r => runLog (req s t b).1 (l ++ [(t, b, (req s t b).2)]) r

/-- request instants never decrease -/
def MonoT (prev : ℕ) : List (ℕ × ℕ) → Prop
  | [] => True
  | (t, _) :: r => prev ≤ t ∧ MonoT t r

/-- the log records exactly the decisions of `run` -/
theorem runLog_decisions (rq : List (ℕ × ℕ)) : ∀ (s : Sys ℚ) (l : Log),
    (runLog s l rq).2.map (fun e => e.2.2) = l.map (fun e => e.2.2) ++ run s rq := by
  induction rq with
  | nil => intro s l; simp [runLog, run]
  | cons e r ih => intro s l; obtain ⟨t, b⟩ := e; simp [runLog, run, ih]

/-- every window of two consecutive 500 ms buckets holds at most `T` admitted tokens -/
def WInv (c : Cfg ℚ) (l : Log) : Prop := ∀ w, (passIn l w (w + 500) : ℚ) ≤ c.T

theorem winv_step {c : Cfg ℚ} (hwf : WF c) {t0 : ℕ} {s : Sys ℚ} {l : Log} {latest : ℕ} (inv : HInv c t0 s l latest)
    (hw : WInv c l) (t b : ℕ) (ht : latest ≤ t) : WInv c (l ++ [(t, b, (req s t b).2)]) := by
  obtain ⟨_, hdec, _⟩ := req_spec inv t b ht
  intro w
  rw [passIn_append]
  by_cases hin : (req s t b).2 = true ∧ w ≤ cbs 500 t ∧ cbs 500 t ≤ w + 500
  · rw [if_pos hin]
    have hrej : rejects (allowed c (sync c s.tok t (prevAt l t : ℚ)).tokens) (curAt l t) b = false := by
      rw [hdec] at hin
      simpa using hin.1
    rw [allowed_closed_form hwf] at hrej
    unfold rejects at hrej
    simp only [c_ofNat, c_ltb, decide_eq_false_iff_not, not_lt] at hrej
    have hle : passIn l w (w + 500) ≤ curAt l t := by
      unfold curAt
      apply passIn_mono
      intro e he _ h1 h2
      refine ⟨by omega, cbs_mono 500 (le_trans (inv.le e he) ht)⟩
    have hleq : (passIn l w (w + 500) : ℚ) ≤ (curAt l t : ℚ) := by exact_mod_cast hle
    have hT := val_le_T hwf (sync c s.tok t (prevAt l t : ℚ)).tokens
    push_cast at hrej ⊢
    linarith
  · rw [if_neg hin]
    simpa using hw w

theorem winv_run {c : Cfg ℚ} (hwf : WF c) (t0 : ℕ) (rq : List (ℕ × ℕ)) : ∀ (s : Sys ℚ) (l : Log) (latest : ℕ),
    HInv c t0 s l latest → WInv c l → MonoT latest rq → WInv c (runLog s l rq).2 := by
  induction rq with
  | nil => intro s l latest _ hw _; exact hw
  | cons e r ih =>
    intro s l latest inv hw hm
    obtain ⟨t, b⟩ := e
    obtain ⟨h1, h2⟩ := hm
    exact ih _ _ t (req_spec inv t b h1).2.2 (winv_step hwf inv hw t b h1) h2

/-- a refused single-token request had an admitted predecessor less than one second earlier -/
def RecentAdm (l : Log) : Prop :=
  ∀ i (hi : i < l.length), l[i].2.1 = 1 → l[i].2.2 = false →
    ∃ j, ∃ (hj : j < i), (l[j]'(by omega)).2.2 = true ∧ l[i].1 < (l[j]'(by omega)).1 + 1000

theorem recent_step {c : Cfg ℚ} (hwf : WF c) (hT : (c.cf : ℚ) ≤ c.T) {t0 : ℕ} {s : Sys ℚ} {l : Log} {latest : ℕ}
    (inv : HInv c t0 s l latest) (hr : RecentAdm l) (t b : ℕ) (ht : latest ≤ t) :
    RecentAdm (l ++ [(t, b, (req s t b).2)]) := by
  obtain ⟨_, hdec, _⟩ := req_spec inv t b ht
  have hbig := inv.t0big
  have ht0 : t0 ≤ t := le_trans inv.t0le ht
  intro i hi h1 h2
  by_cases hlt : i < l.length
  · rw [List.getElem_append_left hlt] at h1 h2 ⊢
    obtain ⟨j, hj, k1, k2⟩ := hr i hlt h1 h2
    refine ⟨j, hj, ?_, ?_⟩
    · rw [List.getElem_append_left (by omega)]; exact k1
    · rw [List.getElem_append_left (by omega)]; exact k2
  · have hi' : i = l.length := by simp at hi; omega
    subst hi'
    simp only [List.getElem_append_right (le_refl _), Nat.sub_self, List.getElem_cons_zero] at h1 h2 ⊢
    -- the new entry: a refused single-token request
    subst h1
    have hrej : rejects (allowed c (sync c s.tok t (prevAt l t : ℚ)).tokens) (curAt l t) 1 = true := by
      rw [hdec] at h2; simpa using h2
    have hb := sync_bounds c s.tok t (prevAt l t : ℚ) (Nat.cast_nonneg _) inv.tk0 inv.tk1
    have hpos : 0 < curAt l t := by
      by_contra hz
      have hz' : curAt l t = 0 := by omega
      rw [hz'] at hrej
      rw [admits_when_window_empty hwf hT _ hb.2] at hrej
      exact Bool.noConfusion hrej
    obtain ⟨e, he, ha, hlo, _⟩ := passIn_pos l _ _ hpos
    obtain ⟨j, hj, hx⟩ := List.getElem_of_mem he
    refine ⟨j, hj, ?_, ?_⟩
    · rw [List.getElem_append_left hj, hx]; exact ha
    · rw [List.getElem_append_left hj, hx]
      have hc : cbs 500 e.1 ≤ e.1 := by unfold cbs; omega
      have hB : t < cbs 500 t + 500 := by unfold cbs; have := Nat.mod_lt t (by norm_num : 0 < 500); omega
      have hB2 : 500 ≤ cbs 500 t := by
        unfold cbs; have := Nat.mod_lt t (by norm_num : 0 < 500); omega
      omega

theorem recent_run {c : Cfg ℚ} (hwf : WF c) (hT : (c.cf : ℚ) ≤ c.T) (t0 : ℕ) (rq : List (ℕ × ℕ)) :
    ∀ (s : Sys ℚ) (l : Log) (latest : ℕ),
    HInv c t0 s l latest → RecentAdm l → MonoT latest rq → RecentAdm (runLog s l rq).2 := by
  induction rq with
  | nil => intro s l latest _ hw _; exact hw
  | cons e r ih =>
    intro s l latest inv hw hm
    obtain ⟨t, b⟩ := e
    obtain ⟨h1, h2⟩ := hm
    exact ih _ _ t (req_spec inv t b h1).2.2 (recent_step hwf hT inv hw t b h1) h2

end Sentinel.WU.H
