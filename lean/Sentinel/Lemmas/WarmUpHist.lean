import Mathlib.Tactic
import Sentinel.Lemmas.WarmUp
import Sentinel.Props.C08
/-! History-level lemmas for C11: decision logs of `req` histories tied to the leap array through the C08 reference theorems. -/
namespace Sentinel.WU.H
open Sentinel.WU Sentinel.WU.L Sentinel.LA

/-- the decision log of a history: `(time, batch, admitted)` -/
abbrev Log := List (ℕ × ℕ × Bool)

/-- what `req` records in the resource's leap array for a decision -/
def evOf (e : ℕ × ℕ × Bool) : ℕ × Bucket :=
  (e.1, if e.2.2 then evBucket .pass e.2.1 else evBucket .block e.2.1)

def hist (l : Log) : List (ℕ × Bucket) := l.map evOf

/-- admitted tokens whose 500 ms bucket start lies in `[lo, hi]` -/
def passIn (l : Log) (lo hi : ℕ) : ℕ :=
  (l.map fun e => if e.2.2 = true ∧ lo ≤ cbs 500 e.1 ∧ cbs 500 e.1 ≤ hi then e.2.1 else 0).sum

theorem evOf_pass (e : ℕ × ℕ × Bool) : (evOf e).2.get .pass = if e.2.2 = true then e.2.1 else 0 := by
  unfold evOf
  cases e.2.2 <;> simp [evBucket, Bucket.get]

theorem refW_pass (l : Log) (lo hi : ℕ) : (refW 500 (hist l) lo hi).get .pass = passIn l lo hi := by
  induction l with
  | nil => simp [hist, refW, passIn]
  | cons e r ih =>
    have e1 : refW 500 (hist (e :: r)) lo hi =
        (if lo ≤ cbs 500 (evOf e).1 ∧ cbs 500 (evOf e).1 ≤ hi then (evOf e).2 else 0) + refW 500 (hist r) lo hi := by
      simp [hist, refW]
    rw [e1, Sentinel.C08.add_get, ih]
    unfold passIn
    rw [List.map_cons, List.sum_cons]
    congr 1
    have : (evOf e).1 = e.1 := rfl
    rw [this]
    by_cases hw : lo ≤ cbs 500 e.1 ∧ cbs 500 e.1 ≤ hi
    · rw [if_pos hw, evOf_pass]
      by_cases ha : e.2.2 = true
      · rw [if_pos ha, if_pos ⟨ha, hw⟩]
      · rw [if_neg ha, if_neg (fun h => ha h.1)]
    · rw [if_neg hw, if_neg (fun h => hw h.2)]
      simp

theorem passIn_append (l : Log) (e : ℕ × ℕ × Bool) (lo hi : ℕ) :
    passIn (l ++ [e]) lo hi = passIn l lo hi + (if e.2.2 = true ∧ lo ≤ cbs 500 e.1 ∧ cbs 500 e.1 ≤ hi then e.2.1 else 0) := by
  unfold passIn
  simp

/-- window inclusion on the events that are actually there -/
theorem passIn_mono (l : Log) (lo hi lo' hi' : ℕ)
    (h : ∀ e ∈ l, e.2.2 = true → lo ≤ cbs 500 e.1 → cbs 500 e.1 ≤ hi → lo' ≤ cbs 500 e.1 ∧ cbs 500 e.1 ≤ hi') :
    passIn l lo hi ≤ passIn l lo' hi' := by
  induction l with
  | nil => simp [passIn]
  | cons e r ih =>
    unfold passIn at ih ⊢
    rw [List.map_cons, List.sum_cons, List.map_cons, List.sum_cons]
    apply Nat.add_le_add
    · by_cases hc : e.2.2 = true ∧ lo ≤ cbs 500 e.1 ∧ cbs 500 e.1 ≤ hi
      · have := h e (List.mem_cons_self) hc.1 hc.2.1 hc.2.2
        rw [if_pos hc, if_pos ⟨hc.1, this⟩]
      · rw [if_neg hc]; exact Nat.zero_le _
    · exact ih fun e' he' => h e' (List.mem_cons_of_mem _ he')

/-- a positive window sum has a witness -/
theorem passIn_pos (l : Log) (lo hi : ℕ) (h : 0 < passIn l lo hi) :
    ∃ e ∈ l, e.2.2 = true ∧ lo ≤ cbs 500 e.1 ∧ cbs 500 e.1 ≤ hi := by
  induction l with
  | nil => simp [passIn] at h
  | cons e r ih =>
    unfold passIn at h ih
    rw [List.map_cons, List.sum_cons] at h
    by_cases hc : e.2.2 = true ∧ lo ≤ cbs 500 e.1 ∧ cbs 500 e.1 ≤ hi
    · exact ⟨e, List.mem_cons_self, hc⟩
    · rw [if_neg hc, Nat.zero_add] at h
      obtain ⟨e', he', hp⟩ := ih h
      exact ⟨e', List.mem_cons_of_mem _ he', hp⟩

theorem runAdds_append (a : Arr Bucket) (h : List (ℕ × Bucket)) (t : ℕ) (x : Bucket) :
    runAdds a (h ++ [(t, x)]) = (LA.add (runAdds a h) t x).1 := by
  induction h generalizing a with
  | nil => simp [runAdds]
  | cons e r ih => obtain ⟨t', x'⟩ := e; simp [runAdds, ih]

theorem mono_append (p : ℕ) (h : List (ℕ × Bucket)) (t : ℕ) (x : Bucket)
    (hm : Mono p h) (hle : ∀ e ∈ h, e.1 ≤ t) (hp : p ≤ t) : Mono p (h ++ [(t, x)]) := by
  induction h generalizing p with
  | nil => simp [Mono, hp]
  | cons e r ih =>
    obtain ⟨t', x'⟩ := e
    obtain ⟨h1, h2⟩ := hm
    refine ⟨h1, ih t' h2 (fun e he => hle e (List.mem_cons_of_mem _ he)) ?_⟩
    exact hle (t', x') (List.mem_cons_self ..)

/-- invariant tying a resource state to the decision log of its history (default view `2 × 500 ms`) -/
structure HInv (c : Cfg ℚ) (t0 : ℕ) (s : Sys ℚ) (l : Log) (latest : ℕ) : Prop where
  rule : s.rule = some (.warmup c, 2, 1000)
  arr : s.arr = some (runAdds (LA.mk nodeN nodeL t0) (hist l))
  mono : Mono t0 (hist l)
  le : ∀ e ∈ l, e.1 ≤ latest
  t0le : t0 ≤ latest
  t0big : 1000 ≤ t0
  tk0 : 0 ≤ s.tok.tokens
  tk1 : s.tok.tokens ≤ c.max

/-- window pass sum read by the reject checker at `t` -/
def curAt (l : Log) (t : ℕ) : ℕ := passIn l (cbs 500 t - 500) (cbs 500 t)
/-- previous-window pass sum read by `syncToken` at `t` -/
def prevAt (l : Log) (t : ℕ) : ℕ := passIn l (cbs 500 (t - 500) - 500) (cbs 500 (t - 500))

theorem hist_le (l : Log) (latest : ℕ) (h : ∀ e ∈ l, e.1 ≤ latest) : ∀ e ∈ hist l, e.1 ≤ latest := by
  intro e he
  unfold hist at he
  rw [List.mem_map] at he
  obtain ⟨e', he', rfl⟩ := he
  exact h e' he'

theorem nodeN_eq : nodeN = 20 := rfl
theorem nodeL_eq : nodeL = 500 := rfl

theorem vSum_eq (c : Cfg ℚ) (t0 : ℕ) (s : Sys ℚ) (l : Log) (latest : ℕ) (inv : HInv c t0 s l latest) (t : ℕ) (ht : latest ≤ t) :
    vSum (runAdds (LA.mk nodeN nodeL t0) (hist l)) 1000 t .pass = curAt l t := by
  have ht0 : t0 ≤ t := le_trans inv.t0le ht
  have hbig := inv.t0big
  rw [nodeN_eq, nodeL_eq]
  have h := Sentinel.C08.getSum_eq_ref 20 500 t0 (by norm_num) (by norm_num) (hist l) inv.mono t
    (fun e he => le_trans (hist_le l latest inv.le e he) ht) ht0 (by omega) 1000 (by norm_num) (by norm_num) .pass
  rw [h, refW_pass]
  unfold curAt
  have e : cbs 500 t + 500 - 1000 = cbs 500 t - 500 := by omega
  rw [e]

theorem vPrevSum_eq (c : Cfg ℚ) (t0 : ℕ) (s : Sys ℚ) (l : Log) (latest : ℕ) (inv : HInv c t0 s l latest) (t : ℕ) (ht : latest ≤ t) :
    vPrevSum (runAdds (LA.mk nodeN nodeL t0) (hist l)) 1000 500 t .pass = prevAt l t := by
  have ht0 : t0 ≤ t := le_trans inv.t0le ht
  have hbig := inv.t0big
  rw [nodeN_eq, nodeL_eq]
  unfold vPrevSum
  rw [if_pos (by omega : 500 ≤ t)]
  unfold vSum
  have h := Sentinel.C08.prevSum_eq_ref 20 500 t0 (by norm_num) (by norm_num) (hist l) inv.mono t
    (fun e he => le_trans (hist_le l latest inv.le e he) ht) ht0 1000 500 (by norm_num) (by omega) ⟨1, by norm_num⟩
  rw [h, refW_pass]
  unfold prevAt
  have e : cbs 500 (t - 500) + 500 - 1000 = cbs 500 (t - 500) - 500 := by omega
  rw [e]


theorem prevQps_eq (c : Cfg ℚ) (t0 : ℕ) (s : Sys ℚ) (l : Log) (latest : ℕ) (inv : HInv c t0 s l latest) (t : ℕ) (ht : latest ≤ t) :
    (prevQps (runAdds (LA.mk nodeN nodeL t0) (hist l)) 2 1000 t : ℚ) = (prevAt l t : ℚ) := by
  unfold prevQps
  have e : (1000 : ℕ) / 2 = 500 := by norm_num
  rw [e, vPrevSum_eq c t0 s l latest inv t ht]
  simp

/-- one request, characterised on the log: the threshold comes from the token sync with the previous-window count of the log,
    the decision compares the log's current-window count, and the invariant carries on with the decision appended -/
theorem req_spec {c : Cfg ℚ} {t0 : ℕ} {s : Sys ℚ} {l : Log} {latest : ℕ} (inv : HInv c t0 s l latest) (t b : ℕ) (ht : latest ≤ t) :
    (req s t b).1.tok = sync c s.tok t (prevAt l t : ℚ) ∧
    (req s t b).2 = !rejects (allowed c (sync c s.tok t (prevAt l t : ℚ)).tokens) (curAt l t) b ∧
    HInv c t0 (req s t b).1 (l ++ [(t, b, (req s t b).2)]) t := by
  have hbig := inv.t0big
  have ht0 : t0 ≤ t := le_trans inv.t0le ht
  have htouch : s.touch t = s := by unfold Sys.touch; rw [inv.arr]
  have hq := prevQps_eq c t0 s l latest inv t ht
  have hthr : threshold s (runAdds (LA.mk nodeN nodeL t0) (hist l)) t =
      (sync c s.tok t (prevAt l t : ℚ), some (allowed c (sync c s.tok t (prevAt l t : ℚ)).tokens)) := by
    unfold threshold
    rw [inv.rule]
    dsimp only
    rw [hq]
  have hcur := vSum_eq c t0 s l latest inv t ht
  have hb := sync_bounds c s.tok t (prevAt l t : ℚ) (Nat.cast_nonneg _) inv.tk0 inv.tk1
  have hadd : ∀ x : Bucket, (addAt (runAdds (LA.mk nodeN nodeL t0) (hist l)) t x).1 =
      runAdds (LA.mk nodeN nodeL t0) (hist l ++ [(t, x)]) := by
    intro x
    unfold addAt
    rw [if_neg (show ¬ t = 0 by omega), runAdds_append]
  have hmono : ∀ x : Bucket, Mono t0 (hist l ++ [(t, x)]) := fun x =>
    mono_append t0 (hist l) t x inv.mono (fun e he => le_trans (hist_le l latest inv.le e he) ht) ht0
  have hle : ∀ adm : Bool, ∀ e ∈ l ++ [(t, b, adm)], e.1 ≤ t := by
    intro adm e he
    rw [List.mem_append] at he
    rcases he with he | he
    · exact le_trans (inv.le e he) ht
    · simp at he; rw [he]
  unfold req
  rw [htouch]
  simp only [inv.arr, hthr, inv.rule, hcur]
  cases hrej : rejects (allowed c (sync c s.tok t (prevAt l t : ℚ)).tokens) (curAt l t) b
  · simp only [Bool.false_eq_true, if_false, Bool.not_false]
    refine ⟨trivial, trivial, ⟨rfl, ?_, ?_, hle true, ht0, hbig, hb.1, hb.2⟩⟩
    · show some (addAt _ t (evBucket .pass b)).1 = _
      rw [hadd]; simp [hist, evOf]
    · have := hmono (evBucket .pass b)
      simpa [hist, evOf] using this
  · simp only [if_true, Bool.not_true]
    refine ⟨trivial, trivial, ⟨rfl, ?_, ?_, hle false, ht0, hbig, hb.1, hb.2⟩⟩
    · show some (addAt _ t (evBucket .block b)).1 = _
      rw [hadd]; simp [hist, evOf]
    · have := hmono (evBucket .block b)
      simpa [hist, evOf] using this

theorem hinv_load (T : ℚ) (p cf0 t0 : ℕ) (h0 : 1000 ≤ t0) :
    HInv (mkCfg T p cf0) t0 (loadWarmUp ({} : Sys ℚ) t0 T p cf0 2 1000) [] t0 := by
  refine ⟨rfl, rfl, trivial, by simp, le_refl _, h0, le_refl _, ?_⟩
  show (0 : ℤ) ≤ _
  positivity


/-- the decision log of a history of requests `(time, batch)` run through `req` -/
def runLog (s : Sys ℚ) (l : Log) : List (ℕ × ℕ) → Sys ℚ × Log
  | [] => (s, l)
  | (t, b) :: r => runLog (req s t b).1 (l ++ [(t, b, (req s t b).2)]) r

/-- request instants never decrease -/
def MonoT (prev : ℕ) : List (ℕ × ℕ) → Prop
  | [] => True
  | (t, _) :: r => prev ≤ t ∧ MonoT t r

/-- the log records exactly the decisions of `run` -/
theorem runLog_decisions (rq : List (ℕ × ℕ)) : ∀ (s : Sys ℚ) (l : Log),
    (runLog s l rq).2.map (fun e => e.2.2) = l.map (fun e => e.2.2) ++ run s rq := by
  induction rq with
  | nil => intro s l; simp [runLog, run]
  | cons e r ih => intro s l; obtain ⟨t, b⟩ := e; simp [runLog, run, ih]

/-- every window of two consecutive 500 ms buckets holds at most `T` admitted tokens -/
def WInv (c : Cfg ℚ) (l : Log) : Prop := ∀ w, (passIn l w (w + 500) : ℚ) ≤ c.T

theorem winv_step {c : Cfg ℚ} (hwf : WF c) {t0 : ℕ} {s : Sys ℚ} {l : Log} {latest : ℕ} (inv : HInv c t0 s l latest)
    (hw : WInv c l) (t b : ℕ) (ht : latest ≤ t) : WInv c (l ++ [(t, b, (req s t b).2)]) := by
  obtain ⟨_, hdec, _⟩ := req_spec inv t b ht
  intro w
  rw [passIn_append]
  by_cases hin : (req s t b).2 = true ∧ w ≤ cbs 500 t ∧ cbs 500 t ≤ w + 500
  · rw [if_pos hin]
    have hrej : rejects (allowed c (sync c s.tok t (prevAt l t : ℚ)).tokens) (curAt l t) b = false := by
      rw [hdec] at hin
      simpa using hin.1
    rw [allowed_closed_form hwf] at hrej
    unfold rejects at hrej
    simp only [c_ofNat, c_ltb, decide_eq_false_iff_not, not_lt] at hrej
    have hle : passIn l w (w + 500) ≤ curAt l t := by
      unfold curAt
      apply passIn_mono
      intro e he _ h1 h2
      refine ⟨by omega, cbs_mono 500 (le_trans (inv.le e he) ht)⟩
    have hleq : (passIn l w (w + 500) : ℚ) ≤ (curAt l t : ℚ) := by exact_mod_cast hle
    have hT := val_le_T hwf (sync c s.tok t (prevAt l t : ℚ)).tokens
    push_cast at hrej ⊢
    linarith
  · rw [if_neg hin]
    simpa using hw w

theorem winv_run {c : Cfg ℚ} (hwf : WF c) (t0 : ℕ) (rq : List (ℕ × ℕ)) : ∀ (s : Sys ℚ) (l : Log) (latest : ℕ),
    HInv c t0 s l latest → WInv c l → MonoT latest rq → WInv c (runLog s l rq).2 := by
  induction rq with
  | nil => intro s l latest _ hw _; exact hw
  | cons e r ih =>
    intro s l latest inv hw hm
    obtain ⟨t, b⟩ := e
    obtain ⟨h1, h2⟩ := hm
    exact ih _ _ t (req_spec inv t b h1).2.2 (winv_step hwf inv hw t b h1) h2

/-- a refused single-token request had an admitted predecessor less than one second earlier -/
def RecentAdm (l : Log) : Prop :=
  ∀ i (hi : i < l.length), l[i].2.1 = 1 → l[i].2.2 = false →
    ∃ j, ∃ (hj : j < i), (l[j]'(by omega)).2.2 = true ∧ l[i].1 < (l[j]'(by omega)).1 + 1000

theorem recent_step {c : Cfg ℚ} (hwf : WF c) (hT : (c.cf : ℚ) ≤ c.T) {t0 : ℕ} {s : Sys ℚ} {l : Log} {latest : ℕ}
    (inv : HInv c t0 s l latest) (hr : RecentAdm l) (t b : ℕ) (ht : latest ≤ t) :
    RecentAdm (l ++ [(t, b, (req s t b).2)]) := by
  obtain ⟨_, hdec, _⟩ := req_spec inv t b ht
  have hbig := inv.t0big
  have ht0 : t0 ≤ t := le_trans inv.t0le ht
  intro i hi h1 h2
  by_cases hlt : i < l.length
  · rw [List.getElem_append_left hlt] at h1 h2 ⊢
    obtain ⟨j, hj, k1, k2⟩ := hr i hlt h1 h2
    refine ⟨j, hj, ?_, ?_⟩
    · rw [List.getElem_append_left (by omega)]; exact k1
    · rw [List.getElem_append_left (by omega)]; exact k2
  · have hi' : i = l.length := by simp at hi; omega
    subst hi'
    simp only [List.getElem_append_right (le_refl _), Nat.sub_self, List.getElem_cons_zero] at h1 h2 ⊢
    -- the new entry: a refused single-token request
    subst h1
    have hrej : rejects (allowed c (sync c s.tok t (prevAt l t : ℚ)).tokens) (curAt l t) 1 = true := by
      rw [hdec] at h2; simpa using h2
    have hb := sync_bounds c s.tok t (prevAt l t : ℚ) (Nat.cast_nonneg _) inv.tk0 inv.tk1
    have hpos : 0 < curAt l t := by
      by_contra hz
      have hz' : curAt l t = 0 := by omega
      rw [hz'] at hrej
      rw [admits_when_window_empty hwf hT _ hb.2] at hrej
      exact Bool.noConfusion hrej
    obtain ⟨e, he, ha, hlo, _⟩ := passIn_pos l _ _ hpos
    obtain ⟨j, hj, hx⟩ := List.getElem_of_mem he
    refine ⟨j, hj, ?_, ?_⟩
    · rw [List.getElem_append_left hj, hx]; exact ha
    · rw [List.getElem_append_left hj, hx]
      have hc : cbs 500 e.1 ≤ e.1 := by unfold cbs; omega
      have hB : t < cbs 500 t + 500 := by unfold cbs; have := Nat.mod_lt t (by norm_num : 0 < 500); omega
      have hB2 : 500 ≤ cbs 500 t := by
        unfold cbs; have := Nat.mod_lt t (by norm_num : 0 < 500); omega
      omega

theorem recent_run {c : Cfg ℚ} (hwf : WF c) (hT : (c.cf : ℚ) ≤ c.T) (t0 : ℕ) (rq : List (ℕ × ℕ)) :
    ∀ (s : Sys ℚ) (l : Log) (latest : ℕ),
    HInv c t0 s l latest → RecentAdm l → MonoT latest rq → RecentAdm (runLog s l rq).2 := by
  induction rq with
  | nil => intro s l latest _ hw _; exact hw
  | cons e r ih =>
    intro s l latest inv hw hm
    obtain ⟨t, b⟩ := e
    obtain ⟨h1, h2⟩ := hm
    exact ih _ _ t (req_spec inv t b h1).2.2 (recent_step hwf hT inv hw t b h1) h2


/-! ## one second of demand confined to the first half-second bucket -/

/-- the requests of one second: single tokens at the given offsets from the second boundary `τ` -/
def burst (τ : ℕ) (offs : List ℕ) : List (ℕ × ℕ) := offs.map fun o => (τ + o, 1)

/-- all recorded events lie in first-half buckets (bucket start ≡ 0 mod 1000) -/
def FirstHalf (l : Log) : Prop := ∀ e ∈ l, cbs 500 e.1 % 1000 = 0

theorem cbs_off (k o : ℕ) (ho : o < 500) : cbs 500 (1000 * k + o) = 1000 * k := by
  unfold cbs; omega

theorem sec_off (k o : ℕ) (ho : o < 500) : (1000 * k + o) - (1000 * k + o) % 1000 = 1000 * k := by
  omega

theorem passIn_eq_of_firstHalf (l : Log) (hf : FirstHalf l) (k : ℕ) (hk : 1 ≤ k) :
    passIn l (1000 * k - 500) (1000 * k) = passIn l (1000 * k) (1000 * k) := by
  apply le_antisymm
  · apply passIn_mono
    intro e he _ h1 h2
    have := hf e he
    omega
  · apply passIn_mono
    intro e he _ h1 h2
    omega

theorem passIn_prev_of_firstHalf (l : Log) (hf : FirstHalf l) (k : ℕ) (hk : 1 ≤ k) :
    passIn l (1000 * k - 500 - 500) (1000 * k - 500) = passIn l (1000 * (k - 1)) (1000 * (k - 1)) := by
  apply le_antisymm
  · apply passIn_mono
    intro e he _ h1 h2
    have := hf e he
    omega
  · apply passIn_mono
    intro e he _ h1 h2
    omega

/-- a sync later in a second that has already been synced changes nothing -/
theorem sync_noop (c : Cfg ℚ) (tok : Tok) (k o : ℕ) (ho : o < 500) (h : tok.lastFilled = 1000 * k) (q : ℚ) :
    sync c tok (1000 * k + o) q = tok := by
  unfold sync
  dsimp only
  rw [sec_off k o ho, h, if_pos (le_refl _)]

/-- the remaining requests of a second whose first request has already synced the tokens: the threshold `v` is fixed, each
    request is admitted iff the count so far + 1 fits; at the end either all were admitted or the bucket is saturated -/
theorem burst_rest {c : Cfg ℚ} (hwf : WF c) (t0 k : ℕ) (offs : List ℕ) :
    ∀ (s : Sys ℚ) (l : Log) (latest m : ℕ), HInv c t0 s l latest → FirstHalf l → s.tok.lastFilled = 1000 * k → 1 ≤ k →
    latest < 1000 * k + 500 →
    (∀ o ∈ offs, o < 500) → MonoT latest (burst (1000 * k) offs) →
    (passIn l (1000 * k) (1000 * k) : ℚ) ≤ val c s.tok.tokens →
    (passIn l (1000 * k) (1000 * k) = m ∨ val c s.tok.tokens < (passIn l (1000 * k) (1000 * k) : ℚ) + 1) →
    ∃ latest', HInv c t0 (runLog s l (burst (1000 * k) offs)).1 (runLog s l (burst (1000 * k) offs)).2 latest' ∧
      latest ≤ latest' ∧ latest' < 1000 * k + 500 ∧
      FirstHalf (runLog s l (burst (1000 * k) offs)).2 ∧
      (runLog s l (burst (1000 * k) offs)).1.tok = s.tok ∧
      ((passIn (runLog s l (burst (1000 * k) offs)).2 (1000 * k) (1000 * k) : ℚ) ≤ val c s.tok.tokens) ∧
      (passIn (runLog s l (burst (1000 * k) offs)).2 (1000 * k) (1000 * k) = m + offs.length ∨
        val c s.tok.tokens < (passIn (runLog s l (burst (1000 * k) offs)).2 (1000 * k) (1000 * k) : ℚ) + 1) ∧
      (∀ lo hi, hi < 1000 * k → passIn (runLog s l (burst (1000 * k) offs)).2 lo hi = passIn l lo hi) := by
  induction offs with
  | nil =>
    intro s l latest m inv hf _ _ hlat _ _ hle hor
    exact ⟨latest, inv, le_refl _, hlat, hf, rfl, hle, by simpa [burst, runLog] using hor, fun _ _ _ => rfl⟩
  | cons o r ih =>
    intro s l latest m inv hf hlf hk hlat ho hm hle hor
    have ho1 : o < 500 := ho o (List.mem_cons_self)
    obtain ⟨hm1, hm2⟩ := hm
    obtain ⟨htok, hdec, hinv'⟩ := req_spec inv (1000 * k + o) 1 hm1
    rw [sync_noop c s.tok k o ho1 hlf] at htok hdec
    have hcur : curAt l (1000 * k + o) = passIn l (1000 * k) (1000 * k) := by
      unfold curAt
      rw [cbs_off k o ho1, passIn_eq_of_firstHalf l hf k hk]
    rw [hcur, allowed_closed_form hwf] at hdec
    generalize hadm : (req s (1000 * k + o) 1).2 = adm at *
    generalize hP : passIn l (1000 * k) (1000 * k) = P at *
    have hf' : FirstHalf (l ++ [(1000 * k + o, 1, adm)]) := by
      intro e he
      rw [List.mem_append] at he
      rcases he with he | he
      · exact hf e he
      · simp at he; rw [he]; show cbs 500 (1000 * k + o) % 1000 = 0; rw [cbs_off k o ho1]; omega
    have hp' : passIn (l ++ [(1000 * k + o, 1, adm)]) (1000 * k) (1000 * k) = P + (if adm = true then 1 else 0) := by
      rw [passIn_append, hP]
      congr 1
      show (if _ ∧ 1000 * k ≤ cbs 500 (1000 * k + o) ∧ cbs 500 (1000 * k + o) ≤ 1000 * k then 1 else 0) = _
      rw [cbs_off k o ho1]
      simp
    have hlow : ∀ lo hi, hi < 1000 * k → passIn (l ++ [(1000 * k + o, 1, adm)]) lo hi = passIn l lo hi := by
      intro lo hi hhi
      rw [passIn_append]
      have : ¬ (adm = true ∧ lo ≤ cbs 500 (1000 * k + o) ∧ cbs 500 (1000 * k + o) ≤ hi) := by
        rw [cbs_off k o ho1]; omega
      show _ + (if _ then 1 else 0) = _
      rw [if_neg this]; rfl
    unfold rejects at hdec
    simp only [c_ofNat, c_ltb, Nat.cast_add, Nat.cast_one] at hdec
    have hstep : ((passIn (l ++ [(1000 * k + o, 1, adm)]) (1000 * k) (1000 * k) : ℕ) : ℚ) ≤ val c s.tok.tokens ∧
        (passIn (l ++ [(1000 * k + o, 1, adm)]) (1000 * k) (1000 * k) = m + 1 ∨
          val c s.tok.tokens < ((passIn (l ++ [(1000 * k + o, 1, adm)]) (1000 * k) (1000 * k) : ℕ) : ℚ) + 1) := by
      rw [hp']
      by_cases hlt : val c s.tok.tokens < (P : ℚ) + 1
      · have : adm = false := by rw [hdec]; simp [hlt]
        rw [this]
        simp only [Bool.false_eq_true, if_false, Nat.add_zero]
        exact ⟨hle, Or.inr hlt⟩
      · have : adm = true := by rw [hdec]; simp [hlt]
        rw [this]
        simp only [if_true]
        push_cast
        refine ⟨by linarith, ?_⟩
        rcases hor with h1 | h1
        · left; omega
        · exfalso; exact hlt h1
    have hlf' : (req s (1000 * k + o) 1).1.tok.lastFilled = 1000 * k := by rw [htok]; exact hlf
    obtain ⟨latest', i1, i2, i3, i4, i5, i6, i7, i8⟩ :=
      ih (req s (1000 * k + o) 1).1 _ (1000 * k + o) (m + 1) hinv' hf' hlf' hk (by omega)
        (fun o' ho' => ho o' (List.mem_cons_of_mem _ ho')) hm2 (by rw [htok]; exact hstep.1) (by rw [htok]; exact hstep.2)
    rw [htok] at i5 i6 i7
    have hrl : runLog s l (burst (1000 * k) (o :: r)) =
        runLog (req s (1000 * k + o) 1).1 (l ++ [(1000 * k + o, 1, adm)]) (burst (1000 * k) r) := by
      simp only [burst, List.map_cons, runLog, hadm]
    rw [hrl]
    refine ⟨latest', i1, le_trans hm1 i2, i3, i4, i5, i6, ?_, ?_⟩
    · rcases i7 with h | h
      · left; simp only [List.length_cons]; omega
      · right; exact h
    · intro lo hi hhi
      rw [i8 lo hi hhi, hlow lo hi hhi]


theorem cbs_prev_off (k o : ℕ) (hk : 1 ≤ k) (ho : o < 500) : cbs 500 (1000 * k + o - 500) = 1000 * k - 500 := by
  unfold cbs; omega

/-- a whole second of demand confined to the first half bucket, starting with the request that syncs the tokens -/
theorem second_step {c : Cfg ℚ} (hwf : WF c) (t0 k o : ℕ) (r : List ℕ) (s : Sys ℚ) (l : Log) (latest : ℕ)
    (inv : HInv c t0 s l latest) (hf : FirstHalf l) (hk : 1 ≤ k) (hlat : latest ≤ 1000 * k)
    (hev : ∀ e ∈ l, e.1 < 1000 * k) (hlf : s.tok.lastFilled < 1000 * k)
    (ho : ∀ o' ∈ o :: r, o' < 500) (hm : MonoT (1000 * k + o) (burst (1000 * k) r)) :
    let tk := sync c s.tok (1000 * k + o) ((passIn l (1000 * (k - 1)) (1000 * (k - 1)) : ℕ) : ℚ)
    let fin := runLog s l (burst (1000 * k) (o :: r))
    ∃ latest', HInv c t0 fin.1 fin.2 latest' ∧ latest' < 1000 * k + 500 ∧ FirstHalf fin.2 ∧
      (∀ e ∈ fin.2, e.1 < 1000 * (k + 1)) ∧ fin.1.tok = tk ∧ tk.lastFilled = 1000 * k ∧
      ((passIn fin.2 (1000 * k) (1000 * k) : ℚ) ≤ val c tk.tokens) ∧
      (passIn fin.2 (1000 * k) (1000 * k) = (o :: r).length ∨ val c tk.tokens < (passIn fin.2 (1000 * k) (1000 * k) : ℚ) + 1) := by
  intro tk fin
  have ho1 : o < 500 := ho o (List.mem_cons_self)
  obtain ⟨htok, hdec, hinv'⟩ := req_spec inv (1000 * k + o) 1 (by omega)
  have hprev : prevAt l (1000 * k + o) = passIn l (1000 * (k - 1)) (1000 * (k - 1)) := by
    unfold prevAt
    rw [cbs_prev_off k o hk ho1, passIn_prev_of_firstHalf l hf k hk]
  have hcur : curAt l (1000 * k + o) = 0 := by
    unfold curAt
    rw [cbs_off k o ho1]
    have h0 : passIn l (1000 * k - 500) (1000 * k) ≤ passIn l 1 0 := by
      apply passIn_mono
      intro e he _ h1 h2
      have h3 := hev e he
      have h4 : cbs 500 e.1 ≤ e.1 := by unfold cbs; omega
      have h5 := hf e he
      omega
    have h1 : passIn l 1 0 = 0 := by
      unfold passIn
      apply List.sum_eq_zero
      intro x hx
      rw [List.mem_map] at hx
      obtain ⟨e, _, rfl⟩ := hx
      rw [if_neg]; omega
    omega
  rw [hprev] at htok hdec
  rw [hcur, allowed_closed_form hwf] at hdec
  have hlf' : tk.lastFilled = 1000 * k := by
    show (sync c s.tok (1000 * k + o) _).lastFilled = _
    rw [sync_lastFilled c s.tok (1000 * k + o) _ (by rw [sec_off k o ho1]; exact hlf), sec_off k o ho1]
  generalize hadm : (req s (1000 * k + o) 1).2 = adm at *
  have hf' : FirstHalf (l ++ [(1000 * k + o, 1, adm)]) := by
    intro e he
    rw [List.mem_append] at he
    rcases he with he | he
    · exact hf e he
    · simp at he; rw [he]; show cbs 500 (1000 * k + o) % 1000 = 0; rw [cbs_off k o ho1]; omega
  have hp0 : passIn l (1000 * k) (1000 * k) = 0 := by
    have : passIn l (1000 * k) (1000 * k) ≤ passIn l (1000 * k - 500) (1000 * k) := by
      apply passIn_mono; intro e _ _ h1 h2; omega
    unfold curAt at hcur
    rw [cbs_off k o ho1] at hcur
    omega
  have hp' : passIn (l ++ [(1000 * k + o, 1, adm)]) (1000 * k) (1000 * k) = (if adm = true then 1 else 0) := by
    rw [passIn_append, hp0, Nat.zero_add]
    show (if _ ∧ 1000 * k ≤ cbs 500 (1000 * k + o) ∧ cbs 500 (1000 * k + o) ≤ 1000 * k then 1 else 0) = _
    rw [cbs_off k o ho1]
    simp
  unfold rejects at hdec
  simp only [c_ofNat, c_ltb, Nat.zero_add, Nat.cast_one] at hdec
  have hdec' : adm = !decide (val c tk.tokens < 1) := hdec
  have hstep : ((passIn (l ++ [(1000 * k + o, 1, adm)]) (1000 * k) (1000 * k) : ℕ) : ℚ) ≤ val c tk.tokens ∧
      (passIn (l ++ [(1000 * k + o, 1, adm)]) (1000 * k) (1000 * k) = 1 ∨
        val c tk.tokens < ((passIn (l ++ [(1000 * k + o, 1, adm)]) (1000 * k) (1000 * k) : ℕ) : ℚ) + 1) := by
    rw [hp']
    by_cases hlt : val c tk.tokens < 1
    · have : adm = false := by rw [hdec']; simp [hlt]
      rw [this]
      simp only [Bool.false_eq_true, if_false, Nat.cast_zero, zero_add]
      have hpos : 0 < val c tk.tokens := by
        have h1 := T_div_cf_le_val hwf tk.tokens (sync_bounds c s.tok (1000 * k + o) _ (Nat.cast_nonneg _) inv.tk0 inv.tk1).2
        have h2 : (0 : ℚ) < c.T / c.cf := by
          have : (2 : ℚ) ≤ c.cf := by exact_mod_cast hwf.cf2
          exact div_pos hwf.Tpos (by linarith)
        linarith
      exact ⟨le_of_lt hpos, Or.inr hlt⟩
    · have : adm = true := by rw [hdec']; simp [hlt]
      rw [this]
      simp only [if_true, Nat.cast_one]
      exact ⟨not_lt.1 hlt, Or.inl trivial⟩
  have htok' : (req s (1000 * k + o) 1).1.tok = tk := htok
  obtain ⟨latest', i1, i2, i3, i4, i5, i6, i7, _⟩ :=
    burst_rest hwf t0 k r (req s (1000 * k + o) 1).1 _ (1000 * k + o) 1 hinv' hf' (by rw [htok']; exact hlf') hk (by omega)
      (fun o' ho' => ho o' (List.mem_cons_of_mem _ ho')) hm (by rw [htok']; exact hstep.1) (by rw [htok']; exact hstep.2)
  rw [htok'] at i5 i6 i7
  have hrl : fin = runLog (req s (1000 * k + o) 1).1 (l ++ [(1000 * k + o, 1, adm)]) (burst (1000 * k) r) := by
    show runLog s l (burst (1000 * k) (o :: r)) = _
    simp only [burst, List.map_cons, runLog, hadm]
  rw [hrl]
  refine ⟨latest', i1, i3, i4, ?_, i5, hlf', i6, ?_⟩
  · intro e he
    have := i1.le e he
    omega
  · rcases i7 with h | h
    · left; simp only [List.length_cons]; omega
    · right; exact h


/-! ## sustained first-half demand over many seconds -/

/-- `n` seconds of demand starting at second `k0`: second `i` carries single-token requests at the offsets `dem i` -/
def secRun (dem : ℕ → List ℕ) (k0 : ℕ) : ℕ → Sys ℚ × Log → Sys ℚ × Log
  | 0, x => x
  | n + 1, x => runLog (secRun dem k0 n x).1 (secRun dem k0 n x).2 (burst (1000 * (k0 + n)) (dem n))

/-- sustained demand: every second more than `T` single-token requests (`⌈T⌉ + 1` suffice), at non-decreasing
    millisecond offsets inside the first half-second bucket of the second -/
structure SatDemand (c : Cfg ℚ) (dem : ℕ → List ℕ) : Prop where
  many : ∀ i, c.T < ((dem i).length : ℚ)
  half : ∀ i, ∀ o ∈ dem i, o < 500
  sorted : ∀ i, (dem i).Pairwise (· ≤ ·)

theorem monoT_burst (τ : ℕ) (r : List ℕ) : ∀ o, (o :: r).Pairwise (· ≤ ·) → MonoT (τ + o) (burst τ r) := by
  induction r with
  | nil => intro o _; trivial
  | cons o2 r2 ih =>
    intro o hp
    rw [List.pairwise_cons] at hp
    refine ⟨by have := hp.1 o2 (List.mem_cons_self); omega, ih o2 hp.2⟩

/-- invariant between seconds -/
structure J (c : Cfg ℚ) (t0 k0 n : ℕ) (x : Sys ℚ × Log) : Prop where
  inv : ∃ latest, HInv c t0 x.1 x.2 latest ∧ latest ≤ 1000 * (k0 + n)
  fh : FirstHalf x.2
  ev : ∀ e ∈ x.2, e.1 < 1000 * (k0 + n)
  lf : x.1.tok.lastFilled < 1000 * (k0 + n)
  sat : 1 ≤ n → 1 ≤ passIn x.2 (1000 * (k0 + n - 1)) (1000 * (k0 + n - 1)) ∧
    (Carrier.trunc c.T).toNat / c.cf ≤ passIn x.2 (1000 * (k0 + n - 1)) (1000 * (k0 + n - 1))

theorem floor_div_le {c : Cfg ℚ} (hwf : WF c) : (((Carrier.trunc c.T).toNat / c.cf : ℕ) : ℚ) ≤ c.T / c.cf := by
  have hcf : (0 : ℚ) < c.cf := by
    have : (2 : ℚ) ≤ c.cf := by exact_mod_cast hwf.cf2
    linarith
  rw [le_div_iff₀ hcf]
  have h1 : (Carrier.trunc c.T).toNat / c.cf * c.cf ≤ (Carrier.trunc c.T).toNat := Nat.div_mul_le_self _ _
  have h2 : (((Carrier.trunc c.T).toNat : ℕ) : ℚ) ≤ c.T := by
    rw [trunc_of_nonneg (le_of_lt hwf.Tpos)]
    have h0 : 0 ≤ ⌊c.T⌋ := Int.floor_nonneg.2 (le_of_lt hwf.Tpos)
    have : ((⌊c.T⌋.toNat : ℕ) : ℚ) = ((⌊c.T⌋ : ℤ) : ℚ) := by
      have : ((⌊c.T⌋.toNat : ℕ) : ℤ) = ⌊c.T⌋ := Int.toNat_of_nonneg h0
      exact_mod_cast this
    rw [this]; exact Int.floor_le c.T
  have h3 : ((((Carrier.trunc c.T).toNat / c.cf * c.cf : ℕ)) : ℚ) ≤ (((Carrier.trunc c.T).toNat : ℕ) : ℚ) := by exact_mod_cast h1
  push_cast at h3
  linarith

theorem j_step {c : Cfg ℚ} (hwf : WF c) (hT : (c.cf : ℚ) ≤ c.T) (t0 k0 : ℕ) (dem : ℕ → List ℕ)
    (hd : SatDemand c dem) (n : ℕ) (x : Sys ℚ × Log) (j : J c t0 k0 n x) :
    J c t0 k0 (n + 1) (runLog x.1 x.2 (burst (1000 * (k0 + n)) (dem n))) ∧
    ∃ o, (runLog x.1 x.2 (burst (1000 * (k0 + n)) (dem n))).1.tok =
      sync c x.1.tok (1000 * (k0 + n) + o) ((passIn x.2 (1000 * (k0 + n - 1)) (1000 * (k0 + n - 1)) : ℕ) : ℚ) ∧ o < 500 := by
  obtain ⟨⟨latest, hinv, hlat⟩, hfh, hev, hlf, _⟩ := j
  have hlen : 0 < (dem n).length := by
    have := hd.many n
    have hp := hwf.Tpos
    have : (0 : ℚ) < ((dem n).length : ℚ) := by linarith
    exact_mod_cast this
  cases hdn : dem n with
  | nil => rw [hdn] at hlen; simp at hlen
  | cons o r =>
    have hhalf : ∀ o' ∈ o :: r, o' < 500 := by rw [← hdn]; exact hd.half n
    have hsorted : (o :: r).Pairwise (· ≤ ·) := by rw [← hdn]; exact hd.sorted n
    obtain ⟨latest', i1, i2, i3, i4, i5, i6, i7, i8⟩ :=
      second_step hwf t0 (k0 + n) o r x.1 x.2 latest hinv hfh (by omega) hlat hev hlf hhalf (monoT_burst _ r o hsorted)
    have e1 : k0 + n - 1 = k0 + n - 1 := rfl
    refine ⟨⟨⟨latest', i1, by omega⟩, i3, ?_, ?_, ?_⟩, o, ?_, hhalf o (List.mem_cons_self)⟩
    · intro e he; have := i4 e he; have e2 : 1000 * (k0 + n + 1) = 1000 * (k0 + (n + 1)) := by ring
      omega
    · rw [i5, i6]; omega
    · intro _
      have e2 : k0 + (n + 1) - 1 = k0 + n := by omega
      rw [e2]
      -- saturation: more requests than the threshold, so the bucket ends saturated
      have hmany : c.T < (((o :: r).length : ℕ) : ℚ) := by rw [← hdn]; exact hd.many n
      have hb := sync_bounds c x.1.tok (1000 * (k0 + n) + o)
        ((passIn x.2 (1000 * (k0 + n - 1)) (1000 * (k0 + n - 1)) : ℕ) : ℚ) (Nat.cast_nonneg _) hinv.tk0 hinv.tk1
      have hvT := val_le_T hwf (sync c x.1.tok (1000 * (k0 + n) + o)
        ((passIn x.2 (1000 * (k0 + n - 1)) (1000 * (k0 + n - 1)) : ℕ) : ℚ)).tokens
      have hvlo := T_div_cf_le_val hwf _ hb.2
      have hsat : val c (sync c x.1.tok (1000 * (k0 + n) + o)
          ((passIn x.2 (1000 * (k0 + n - 1)) (1000 * (k0 + n - 1)) : ℕ) : ℚ)).tokens <
          (passIn (runLog x.1 x.2 (burst (1000 * (k0 + n)) (o :: r))).2 (1000 * (k0 + n)) (1000 * (k0 + n)) : ℚ) + 1 := by
        rcases i8 with h | h
        · exfalso
          rw [h] at i7
          linarith
        · exact h
      have hcf : (0 : ℚ) < c.cf := by
        have : (2 : ℚ) ≤ c.cf := by exact_mod_cast hwf.cf2
        linarith
      have h1 : (1 : ℚ) ≤ c.T / c.cf := (one_le_div hcf).2 hT
      have hfl := floor_div_le hwf
      constructor
      · have : (0 : ℚ) < (passIn (runLog x.1 x.2 (burst (1000 * (k0 + n)) (o :: r))).2 (1000 * (k0 + n)) (1000 * (k0 + n)) : ℚ) := by
          linarith
        exact_mod_cast this
      · have : (((Carrier.trunc c.T).toNat / c.cf : ℕ) : ℚ) <
            (passIn (runLog x.1 x.2 (burst (1000 * (k0 + n)) (o :: r))).2 (1000 * (k0 + n)) (1000 * (k0 + n)) : ℚ) + 1 := by
          linarith
        have : (Carrier.trunc c.T).toNat / c.cf <
            passIn (runLog x.1 x.2 (burst (1000 * (k0 + n)) (o :: r))).2 (1000 * (k0 + n)) (1000 * (k0 + n)) + 1 := by
          exact_mod_cast this
        omega
    · exact i5


theorem secRun_J {c : Cfg ℚ} (hwf : WF c) (hT : (c.cf : ℚ) ≤ c.T) (t0 k0 : ℕ) (dem : ℕ → List ℕ)
    (hd : SatDemand c dem) (x0 : Sys ℚ × Log) (j0 : J c t0 k0 0 x0) : ∀ n, J c t0 k0 n (secRun dem k0 n x0) := by
  intro n
  induction n with
  | zero => exact j0
  | succ n ih => exact (j_step hwf hT t0 k0 dem hd n _ ih).1

/-- stored tokens with which the requests of second `n - 1` (0-based) were judged -/
def tokAt (dem : ℕ → List ℕ) (k0 : ℕ) (x0 : Sys ℚ × Log) (n : ℕ) : ℤ := (secRun dem k0 n x0).1.tok.tokens

theorem tok_step {c : Cfg ℚ} (hwf : WF c) (hT : (c.cf : ℚ) ≤ c.T) (t0 k0 : ℕ) (dem : ℕ → List ℕ)
    (hd : SatDemand c dem) (x0 : Sys ℚ × Log) (j0 : J c t0 k0 0 x0) (n : ℕ) (hn : 1 ≤ n)
    (habove : (c.warn : ℤ) < tokAt dem k0 x0 n) : tokAt dem k0 x0 (n + 1) ≤ tokAt dem k0 x0 n - 1 := by
  have j := secRun_J hwf hT t0 k0 dem hd x0 j0 n
  obtain ⟨_, o, htok, ho⟩ := j_step hwf hT t0 k0 dem hd n _ j
  obtain ⟨⟨latest, hinv, _⟩, _, _, hlf, hsat⟩ := j
  obtain ⟨hA1, hA2⟩ := hsat hn
  unfold tokAt at habove ⊢
  show (runLog (secRun dem k0 n x0).1 (secRun dem k0 n x0).2 (burst (1000 * (k0 + n)) (dem n))).1.tok.tokens ≤ _
  rw [htok, sync_drains c _ _ _ (by rw [sec_off (k0 + n) o ho]; exact hlf) habove hinv.tk1 hA2]
  have hw : (0 : ℤ) ≤ (c.warn : ℤ) := by positivity
  have hA : (1 : ℤ) ≤ ((passIn (secRun dem k0 n x0).2 (1000 * (k0 + n - 1)) (1000 * (k0 + n - 1)) : ℕ) : ℤ) := by
    exact_mod_cast hA1
  apply max_le <;> omega

/-- under sustained first-half demand the bucket reaches the warning line within `maxToken - warningToken + 1` seconds -/
theorem drains_history {c : Cfg ℚ} (hwf : WF c) (hT : (c.cf : ℚ) ≤ c.T) (t0 k0 : ℕ) (dem : ℕ → List ℕ)
    (hd : SatDemand c dem) (x0 : Sys ℚ × Log) (j0 : J c t0 k0 0 x0) :
    ∃ n, 1 ≤ n ∧ n ≤ c.max - c.warn + 1 ∧ tokAt dem k0 x0 n ≤ c.warn := by
  by_contra hcon
  push Not at hcon
  have hall : ∀ n, 1 ≤ n → n ≤ c.max - c.warn + 1 → (c.warn : ℤ) < tokAt dem k0 x0 n := fun n h1 h2 => hcon n h1 h2
  have hbound : ∀ j, j ≤ c.max - c.warn → tokAt dem k0 x0 (1 + j) ≤ (c.max : ℤ) - j := by
    intro j
    induction j with
    | zero =>
      intro _
      obtain ⟨⟨latest, hinv, _⟩, _⟩ := secRun_J hwf hT t0 k0 dem hd x0 j0 1
      simpa [tokAt] using hinv.tk1
    | succ j ih =>
      intro hj
      have h1 := ih (by omega)
      have h2 := tok_step hwf hT t0 k0 dem hd x0 j0 (1 + j) (by omega) (hall (1 + j) (by omega) (by omega))
      have e : 1 + (j + 1) = 1 + j + 1 := by ring
      rw [e]
      push_cast
      omega
  have h1 := hbound (c.max - c.warn) (le_refl _)
  have h2 := hall (1 + (c.max - c.warn)) (by omega) (by omega)
  have hlt := hwf.lt
  have : ((c.max - c.warn : ℕ) : ℤ) = (c.max : ℤ) - c.warn := by
    rw [Nat.cast_sub (le_of_lt hlt)]
  omega

theorem j_load (T : ℚ) (p cf0 k0 : ℕ) (hk0 : 1 ≤ k0) :
    J (mkCfg T p cf0) (1000 * k0) k0 0 (loadWarmUp ({} : Sys ℚ) (1000 * k0) T p cf0 2 1000, []) := by
  refine ⟨⟨1000 * k0, hinv_load T p cf0 (1000 * k0) (by omega), le_refl _⟩, ?_, ?_, ?_, ?_⟩
  · intro e he; simp at he
  · intro e he; simp at he
  · show (0 : ℕ) < _; omega
  · intro h; omega

end Sentinel.WU.H
